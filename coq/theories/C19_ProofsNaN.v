(* C19_ProofsNaN.v — the lists under an arbitrary `==` (C19_ModelNaN.v):
   every step of the generic transcription refines a step of the generic list
   machine; lifted to all histories; conservativity at [zeq]. *)

From Gogu Require Import Base Mem C19_Model C19_Proofs C19_ProofsSList C19_ProofsDList C19_ProofsHist C19_ModelNaN.
Local Open Scope nat_scope.

Arguments load : simpl never.
Arguments store : simpl never.
Arguments alloc : simpl never.
Arguments fresh : simpl never.

Section G.
Variable eq : Z -> Z -> option bool.

(* ---------- the look-up on a plain list ---------- *)

Lemma gsplit_at v : forall xs l y r, gsplit eq v xs = SAt l y r ->
  xs = l ++ y :: r /\ eq y v = Some true /\ Forall (fun x => eq x v = Some false) l.
Proof.
  induction xs as [|x xs IH]; intros l y r H; cbn in H; [discriminate|].
  destruct (eq x v) as [[|]|] eqn:E; try discriminate.
  - injection H as <- <- <-. cbn. auto.
  - destruct (gsplit eq v xs) as [| |l' y' r'] eqn:G; try discriminate.
    injection H as <- <- <-. destruct (IH _ _ _ eq_refl) as (-> & Hy & Hl).
    cbn. repeat split; auto.
Qed.

Lemma gsplit_app_at v l y r :
  Forall (fun x => eq x v = Some false) l -> eq y v = Some true ->
  gsplit eq v (l ++ y :: r) = SAt l y r.
Proof.
  intros Hl Hy. induction Hl as [|x l Hx Hl IH]; cbn.
  - now rewrite Hy.
  - now rewrite Hx, IH.
Qed.

Lemma gsplit_absent v xs : gsplit eq v xs = SAbsent <-> Forall (fun x => eq x v = Some false) xs.
Proof.
  induction xs as [|x xs IH]; cbn; [split; auto|].
  destruct (eq x v) as [[|]|] eqn:E.
  - split; [discriminate|]. intros H. inversion H; congruence.
  - destruct (gsplit eq v xs) as [| |l' y' r'] eqn:G.
    + split; [discriminate|]. intros H. inversion H; subst. apply IH in H3. discriminate.
    + split; auto. intros _. constructor; auto. now apply IH.
    + split; [discriminate|]. intros H. inversion H; subst. apply IH in H3. discriminate.
  - split; [discriminate|]. intros H. inversion H; congruence.
Qed.

Lemma gsplit_safe v xs : safe_arg eq v -> gsplit eq v xs <> SPanic.
Proof.
  intros Hs. induction xs as [|x xs IH]; cbn; [discriminate|].
  destruct (eq x v) as [[|]|] eqn:E; try discriminate.
  - destruct (gsplit eq v xs); try discriminate. congruence.
  - exfalso. exact (Hs x E).
Qed.

Section UnderLaws.
Hypothesis Heq : go_eq eq.

Lemma eq_refl_of a b : eq a b = Some true -> eq a a = Some true.
Proof.
  destruct Heq as (Hs & Ht & _). intros H. eapply Ht; eauto.
Qed.

(* the value Find found is found again, at the same place *)
Lemma gsplit_self v xs l y r :
  gsplit eq v xs = SAt l y r -> gsplit eq y xs = SAt l y r.
Proof.
  intros H. destruct (gsplit_at _ _ _ _ _ H) as (-> & Hy & Hl).
  destruct Heq as (Hs & Ht & Hd).
  apply gsplit_app_at.
  - eapply Forall_impl; [|exact Hl]. intros x Hx. cbn in Hx.
    destruct (eq x y) as [[|]|] eqn:E; auto.
    + rewrite (Ht _ _ _ E Hy) in Hx. discriminate.
    + exfalso. exact (Hd _ _ Hy x E).
  - eapply Ht; eauto.
Qed.

Lemma gsplit_self_notin y l r : gsplit eq y (l ++ y :: r) = SAt l y r -> ~ In y l.
Proof.
  intros H Hin. destruct (gsplit_at _ _ _ _ _ H) as (_ & Hy & Hl).
  rewrite Forall_forall in Hl. specialize (Hl _ Hin). congruence.
Qed.

(* DList.Delete's  head.Value == node.Value  answers "is the node the head" *)
Lemma head_cmp y l r :
  gsplit eq y (l ++ y :: r) = SAt l y r ->
  eq (hd 0%Z (l ++ y :: r)) y = Some (hd 0%Z (l ++ y :: r) =? y)%Z.
Proof.
  intros H. destruct (gsplit_at _ _ _ _ _ H) as (_ & Hy & Hl).
  destruct l as [|x l]; cbn.
  - now rewrite Z.eqb_refl.
  - inversion Hl; subst. rewrite H2. f_equal. symmetry. apply Z.eqb_neq. intros ->. congruence.
Qed.
End UnderLaws.

(* ---------- Find on a represented heap ---------- *)

Fixpoint gfind_addr (v : Z) (p : list addr) (xs : list Z) : outcome (option addr) :=
  match p, xs with
  | a :: p', x :: xs' =>
      match eq x v with
      | None => Fault
      | Some true => Done (Some a)
      | Some false => gfind_addr v p' xs'
      end
  | _, _ => Done None
  end.

Lemma gfind_loop_spec pf m v : forall p xs pv fuel,
  seg pf m pv p xs None -> length p < fuel ->
  gfind_loop eq fuel m (hd_opt p None) v = gfind_addr v p xs.
Proof.
  induction p as [|a p IH]; intros [|x xs] pv fuel H Hf; cbn in H; try tauto.
  - destruct fuel; [lia|]. reflexivity.
  - destruct H as [H1 H2]. destruct fuel as [|f]; [cbn in Hf; lia|].
    cbn [gfind_loop hd_opt gfind_addr]. unfold ld. rewrite H1. cbn [bind val next].
    unfold cmpv. destruct (eq x v) as [[|]|]; cbn [bind]; try reflexivity.
    apply IH with (pv := Some a); auto. cbn in Hf. lia.
Qed.

Lemma gfind_addr_split v : forall p xs, length p = length xs ->
  match gsplit eq v xs with
  | SPanic => gfind_addr v p xs = Fault
  | SAbsent => gfind_addr v p xs = Done None
  | SAt l y r => exists p1 a p2, p = p1 ++ a :: p2 /\ length p1 = length l /\
                                 gfind_addr v p xs = Done (Some a)
  end.
Proof.
  induction p as [|a p IH]; intros [|x xs] Hl; cbn in Hl; try discriminate; [reflexivity|].
  injection Hl as Hl. cbn [gsplit gfind_addr].
  destruct (eq x v) as [[|]|]; try reflexivity.
  - exists [], a, p. auto.
  - specialize (IH xs Hl). destruct (gsplit eq v xs) as [| |l y r]; auto.
    destruct IH as (p1 & b & p2 & -> & Hl1 & E). exists (a :: p1), b, p2. cbn. auto.
Qed.

Lemma gsl_find_rep m p xs v :
  srep m p xs -> gsl_find eq m v = (r <- gfind_addr v p xs ;; Done (m, r)).
Proof.
  intros R. destruct (rep_inv _ _ _ _ R) as (p' & x & xs' & -> & -> & H0 & S' & _ & _ & _ & _ & Hfu).
  destruct R as (_ & _ & S).
  unfold gsl_find, ld. rewrite H0. cbn [bind].
  change (Some 0) with (hd_opt (0 :: p') None).
  rewrite (gfind_loop_spec pf_s m v (0 :: p') (x :: xs') None (fuel_of m) S Hfu).
  rewrite store_same by exact H0. reflexivity.
Qed.

Lemma gdl_find_rep m p xs v :
  drep m p xs -> gdl_find eq m v = (r <- gfind_addr v p xs ;; Done (m, r)).
Proof.
  intros R. destruct (rep_inv _ _ _ _ R) as (p' & x & xs' & -> & -> & H0 & S' & _ & _ & _ & _ & Hfu).
  destruct R as (_ & _ & S).
  unfold gdl_find.
  change (Some 0) with (hd_opt (0 :: p') None).
  rewrite (gfind_loop_spec pf_d m v (0 :: p') (x :: xs') None (fuel_of m) S Hfu).
  destruct (gfind_addr v (0 :: p') (x :: xs')); try reflexivity.
  cbn [bind]. unfold ld. rewrite H0. cbn [bind]. rewrite store_same by exact H0. reflexivity.
Qed.

(* a value that IS found: Find answers with some node *)
Lemma gfind_addr_found v p xs l y r :
  length p = length xs -> gsplit eq v xs = SAt l y r ->
  exists b, gfind_addr v p xs = Done (Some b).
Proof.
  intros Hl H. pose proof (gfind_addr_split v p xs Hl) as G. rewrite H in G.
  destruct G as (_ & b & _ & _ & _ & E). eauto.
Qed.

(* ---------- the methods that call Find on the handle's value: when that
   look-up succeeds the rest of the method is the text of C19_Model ---------- *)

Lemma gsl_insert_after_same m p1 a p2 xs1 y xs2 v l y' r :
  srep m (p1 ++ a :: p2) (xs1 ++ y :: xs2) -> length p1 = length xs1 ->
  gsplit eq y (xs1 ++ y :: xs2) = SAt l y' r ->
  gsl_insert_after eq m (Some a) v = sl_insert_after m (Some a) v.
Proof.
  intros R Hl G. pose proof R as (Hh & ND & S).
  destruct (rep_split _ _ _ _ _ _ _ _ R Hl) as (S1 & Ha & S2 & Na1 & Na2 & ND1 & ND2 & Dj & B).
  pose proof (seg_length _ _ _ _ _ _ S) as Hlen.
  unfold gsl_insert_after, sl_insert_after. unfold ld. rewrite Ha. cbn [bind val].
  rewrite (gsl_find_rep _ _ _ y R), (sl_find_rep _ _ _ y R).
  destruct (gfind_addr_found _ _ _ _ _ _ Hlen G) as [b Eb]. rewrite Eb.
  destruct (find_addr_in y (p1 ++ a :: p2) (xs1 ++ y :: xs2) Hlen) as [b' Eb'].
  { apply in_or_app; cbn; auto. }
  rewrite Eb'. reflexivity.
Qed.

Lemma gsl_delete_same m p1 a p2 xs1 y xs2 l y' r :
  srep m (p1 ++ a :: p2) (xs1 ++ y :: xs2) -> length p1 = length xs1 ->
  gsplit eq y (xs1 ++ y :: xs2) = SAt l y' r ->
  gsl_delete eq m (Some a) = sl_delete m (Some a).
Proof.
  intros R Hl G. pose proof R as (Hh & ND & S).
  destruct (rep_split _ _ _ _ _ _ _ _ R Hl) as (S1 & Ha & S2 & Na1 & Na2 & ND1 & ND2 & Dj & B).
  pose proof (seg_length _ _ _ _ _ _ S) as Hlen.
  unfold gsl_delete, sl_delete, deref. rewrite Ha. cbn [bind val].
  rewrite (gsl_find_rep _ _ _ y R), (sl_find_rep _ _ _ y R).
  destruct (gfind_addr_found _ _ _ _ _ _ Hlen G) as [b Eb]. rewrite Eb.
  destruct (find_addr_in y (p1 ++ a :: p2) (xs1 ++ y :: xs2) Hlen) as [b' Eb'].
  { apply in_or_app; cbn; auto. }
  rewrite Eb'. reflexivity.
Qed.

Lemma gdl_insert_after_same m p1 a p2 xs1 y xs2 v l y' r :
  drep m (p1 ++ a :: p2) (xs1 ++ y :: xs2) -> length p1 = length xs1 ->
  gsplit eq y (xs1 ++ y :: xs2) = SAt l y' r ->
  gdl_insert_after eq m (Some a) v = dl_insert_after m (Some a) v.
Proof.
  intros R Hl G. pose proof R as (Hh & ND & S).
  destruct (rep_split _ _ _ _ _ _ _ _ R Hl) as (S1 & Ha & S2 & Na1 & Na2 & ND1 & ND2 & Dj & B).
  pose proof (seg_length _ _ _ _ _ _ S) as Hlen.
  unfold gdl_insert_after, dl_insert_after. unfold ld. rewrite Ha. cbn [bind val].
  rewrite (gdl_find_rep _ _ _ y R), (dl_find_rep _ _ _ y R).
  destruct (gfind_addr_found _ _ _ _ _ _ Hlen G) as [b Eb]. rewrite Eb.
  destruct (find_addr_in y (p1 ++ a :: p2) (xs1 ++ y :: xs2) Hlen) as [b' Eb'].
  { apply in_or_app; cbn; auto. }
  rewrite Eb'. reflexivity.
Qed.

Lemma gdl_insert_before_same m p1 a p2 xs1 y xs2 v l y' r :
  drep m (p1 ++ a :: p2) (xs1 ++ y :: xs2) -> length p1 = length xs1 ->
  gsplit eq y (xs1 ++ y :: xs2) = SAt l y' r ->
  gdl_insert_before eq m (Some a) v = dl_insert_before m (Some a) v.
Proof.
  intros R Hl G.
  destruct (rep_inv _ _ _ _ R) as (p0' & x0 & xs0' & Ep & Ex & H0 & _ & _ & _ & L0 & _ & _).
  unfold gdl_insert_before, dl_insert_before. unfold ld. rewrite H0. cbn [bind]. cbn zeta.
  set (h0 := mkNode x0 (hd_opt p0' None) (pf_d None)) in *.
  pose proof (rep_alloc _ _ _ _ h0 R) as R0.
  set (m0 := alloc m h0) in *.
  pose proof R0 as (Hh & ND & S).
  destruct (rep_split _ _ _ _ _ _ _ _ R0 Hl) as (S1 & Ha & S2 & Na1 & Na2 & ND1 & ND2 & Dj & B0).
  pose proof (seg_length _ _ _ _ _ _ S) as Hlen.
  rewrite Ha. cbn [bind val].
  rewrite (gdl_find_rep _ _ _ y R0), (dl_find_rep _ _ _ y R0).
  destruct (gfind_addr_found _ _ _ _ _ _ Hlen G) as [b Eb]. rewrite Eb.
  destruct (find_addr_in y (p1 ++ a :: p2) (xs1 ++ y :: xs2) Hlen) as [b' Eb'].
  { apply in_or_app; cbn; auto. }
  rewrite Eb'. reflexivity.
Qed.

Lemma gdl_delete_same m p1 a p2 xs1 y xs2 :
  drep m (p1 ++ a :: p2) (xs1 ++ y :: xs2) -> length p1 = length xs1 ->
  gsplit eq y (xs1 ++ y :: xs2) = SAt xs1 y xs2 ->
  eq (hd 0%Z (xs1 ++ y :: xs2)) y = Some (hd 0%Z (xs1 ++ y :: xs2) =? y)%Z ->
  gdl_delete eq m (Some a) = dl_delete m (Some a).
Proof.
  intros R Hl G Hc. pose proof R as (Hh & ND & S).
  destruct (rep_inv _ _ _ _ R) as (p0' & x0 & xs0' & Ep & Ex & H0 & _ & _ & _ & L0 & _ & _).
  destruct (rep_split _ _ _ _ _ _ _ _ R Hl) as (S1 & Ha & S2 & Na1 & Na2 & ND1 & ND2 & Dj & B).
  pose proof (seg_length _ _ _ _ _ _ S) as Hlen.
  unfold gdl_delete, dl_delete, deref. rewrite Ha. cbn [bind val].
  rewrite (gdl_find_rep _ _ _ y R), (dl_find_rep _ _ _ y R).
  destruct (gfind_addr_found _ _ _ _ _ _ Hlen G) as [b Eb]. rewrite Eb.
  destruct (find_addr_in y (p1 ++ a :: p2) (xs1 ++ y :: xs2) Hlen) as [b' Eb'].
  { apply in_or_app; cbn; auto. }
  rewrite Eb'. cbn [bind]. unfold ld. rewrite H0. cbn [bind next prev].
  rewrite Ex in Hc. cbn [hd] in Hc.
  destruct (hd_opt p0' None), (pf_d None); try reflexivity;
    rewrite Ha; cbn [bind val]; unfold cmpv; rewrite Hc; reflexivity.
Qed.

(* ---------- Replace ---------- *)

Lemma greplace_loop_spec pf m oldv newv : forall p a xs pv fuel,
  seg pf m pv (a :: p) xs None -> NoDup (a :: p) -> length p < fuel ->
  match gsplit eq oldv xs with
  | SPanic => greplace_loop eq fuel m a oldv newv = Fault
  | SAbsent => greplace_loop eq fuel m a oldv newv = Done (m, e_notfound)
  | SAt l y r =>
      exists m', greplace_loop eq fuel m a oldv newv = Done (m', e_ok) /\
        seg pf m' pv (a :: p) (l ++ newv :: r) None /\
        (forall c, ~ In c (a :: p) -> load m' c = load m c)
  end.
Proof.
  induction p as [|b p IH]; intros a [|x xs] pv fuel H ND Hf; cbn in H; try tauto;
    destruct H as [H1 H2]; (destruct fuel as [|f]; [cbn in Hf; lia|]).
  - destruct xs; [|cbn in H2; tauto].
    cbn [greplace_loop gsplit]. unfold ld. rewrite H1. cbn [bind val next hd_opt]. unfold cmpv.
    destruct (eq x oldv) as [[|]|]; cbn [bind]; try reflexivity.
    eexists; split; [reflexivity|]. cbn [app]. split.
    + cbn. rewrite load_store_eq by (eapply load_lt; eauto). auto.
    + intros c Hc. rewrite load_store_neq; auto. intros ->; apply Hc; cbn; auto.
  - change (seg pf m (Some a) (b :: p) xs None) in H2.
    cbn [greplace_loop gsplit]. unfold ld. rewrite H1. cbn [bind val next hd_opt]. unfold cmpv.
    inversion ND as [|? ? Hna ND']; subst.
    destruct (eq x oldv) as [[|]|]; cbn [bind]; try reflexivity.
    + eexists; split; [reflexivity|]. cbn [app]. split.
      * apply seg_cons. split.
        -- rewrite load_store_eq by (eapply load_lt; eauto). reflexivity.
        -- apply seg_frame with m; auto. intros c Hc. rewrite load_store_neq; auto.
           intros ->; auto.
      * intros c Hc. rewrite load_store_neq; auto. intros ->; apply Hc; cbn; auto.
    + specialize (IH b xs (Some a) f H2 ND').
      assert (Hf' : length p < f) by (cbn in Hf; lia). specialize (IH Hf').
      destruct (gsplit eq oldv xs) as [| |l y r]; auto.
      destruct IH as (m' & E & S' & F').
      exists m'. split; [exact E|]. split.
      * cbn [app]. apply seg_cons. split; [|exact S'].
        rewrite F' by auto. rewrite H1. reflexivity.
      * intros c Hc. apply F'. intros Hin; apply Hc; cbn; auto.
Qed.


(* ====================================================================== *)
(* one step refines one step of the generic list machine                   *)
(* ====================================================================== *)

Section Steps.
Hypothesis Heq : go_eq eq.

Ltac fin := split; [reflexivity|]; split; [eassumption|]; try reflexivity.

Lemma gsl_step_refines m p xs o :
  srep m p xs ->
  match gspec_step eq KS xs o with
  | None => gsl_step eq m o = Fault
  | Some (xs', r') => exists m' p' r, gsl_step eq m o = Done (m', r) /\ srep m' p' xs' /\ proj_ret r = r'
  end.
Proof.
  intros R. pose proof R as (_ & _ & SR). pose proof (seg_length _ _ _ _ _ _ SR) as Hlen.
  assert (Plain : forall o', gsl_step eq m o' = sl_step m o' ->
            gspec_step eq KS xs o' = Some (spec_step KS xs o') ->
            match gspec_step eq KS xs o' with
            | None => gsl_step eq m o' = Fault
            | Some (xs', r') => exists m' p' r, gsl_step eq m o' = Done (m', r) /\ srep m' p' xs' /\ proj_ret r = r'
            end).
  { intros o' E1 E2. rewrite E1, E2.
    destruct (sl_step_refines _ _ _ o' R) as (m' & p' & r & E & R' & Hr).
    destruct (spec_step KS xs o') as [xs' r']. exists m', p', r. auto. }
  destruct o as [v|v|a v|a v|a v|a| | |a| | | ]; try (apply Plain; reflexivity);
    cbn [gsl_step gspec_step].
  - (* InsertAfter *)
    rewrite (gsl_find_rep _ _ _ a R).
    pose proof (gfind_addr_split a p xs Hlen) as G. destruct (gsplit eq a xs) as [| |l y r] eqn:Gs.
    + rewrite G. reflexivity.
    + rewrite G. cbn [bind gsl_insert_after]. exists m, p, (RErr e_nil). fin.
    + destruct G as (p1 & h & p2 & -> & Hl1 & E). rewrite E. cbn [bind].
      destruct (gsplit_at _ _ _ _ _ Gs) as (-> & Hy & Hfl).
      rewrite (gsl_insert_after_same _ _ _ _ _ _ _ v _ _ _ R Hl1 (gsplit_self Heq _ _ _ _ _ Gs)).
      destruct (sl_insert_after_rep _ _ _ _ _ _ _ v R Hl1) as (m' & p' & E' & R'). rewrite E'. cbn [bind].
      exists m', p', (RErr e_ok). fin.
  - (* Replace *)
    unfold gsl_replace.
    destruct (rep_inv _ _ _ _ R) as (p' & x & xs' & -> & -> & H0 & S' & N0 & ND' & L0 & B & Hfu).
    pose proof R as (Hh & ND & S).
    assert (Hf' : length p' < fuel_of m) by (cbn in Hfu; lia).
    pose proof (greplace_loop_spec pf_s m a v p' 0 (x :: xs') None (fuel_of m) S ND Hf') as G.
    destruct (gsplit eq a (x :: xs')) as [| |l y r] eqn:Gs.
    + rewrite G. reflexivity.
    + rewrite G. cbn [bind]. exists m, (0 :: p'), (RErr e_notfound). fin.
    + destruct G as (m' & E & S1 & _). rewrite E. cbn [bind].
      exists m', (0 :: p'), (RErr e_ok). split; [reflexivity|]. split; [|reflexivity].
      split; [exact Hh|]. split; [exact ND|exact S1].
  - (* Delete *)
    rewrite (gsl_find_rep _ _ _ a R).
    pose proof (gfind_addr_split a p xs Hlen) as G. destruct (gsplit eq a xs) as [| |l y r] eqn:Gs.
    + rewrite G. reflexivity.
    + rewrite G. cbn [bind]. exists m, p, RSkip. fin.
    + destruct G as (p1 & h & p2 & -> & Hl1 & E). rewrite E. cbn [bind].
      destruct (gsplit_at _ _ _ _ _ Gs) as (-> & Hy & Hfl).
      pose proof (gsplit_self Heq _ _ _ _ _ Gs) as Gy.
      rewrite (gsl_delete_same _ _ _ _ _ _ _ _ _ _ R Hl1 Gy).
      destruct (sl_delete_rep _ _ _ _ _ _ _ R Hl1 (gsplit_self_notin _ _ _ Gy)) as (m' & p' & E' & R').
      rewrite E'. cbn [bind].
      destruct (more_than_one (l ++ y :: r)).
      * exists m', p', (RErr e_ok). fin.
      * exists m', p', (RErr e_only). fin.
  - (* Find *)
    rewrite (gsl_find_rep _ _ _ a R).
    pose proof (gfind_addr_split a p xs Hlen) as G. destruct (gsplit eq a xs) as [| |l y r] eqn:Gs.
    + rewrite G. reflexivity.
    + rewrite G. cbn [bind]. exists m, p, (RFound false). fin.
    + destruct G as (p1 & h & p2 & -> & Hl1 & E). rewrite E. cbn [bind].
      eexists m, _, (RFound true). fin.
Qed.

Lemma gdl_step_refines m p xs o :
  drep m p xs ->
  match gspec_step eq KD xs o with
  | None => gdl_step eq m o = Fault
  | Some (xs', r') => exists m' p' r, gdl_step eq m o = Done (m', r) /\ drep m' p' xs' /\ proj_ret r = r'
  end.
Proof.
  intros R. pose proof R as (_ & _ & SR). pose proof (seg_length _ _ _ _ _ _ SR) as Hlen.
  assert (Plain : forall o', gdl_step eq m o' = dl_step m o' ->
            gspec_step eq KD xs o' = Some (spec_step KD xs o') ->
            match gspec_step eq KD xs o' with
            | None => gdl_step eq m o' = Fault
            | Some (xs', r') => exists m' p' r, gdl_step eq m o' = Done (m', r) /\ drep m' p' xs' /\ proj_ret r = r'
            end).
  { intros o' E1 E2. rewrite E1, E2.
    destruct (dl_step_refines _ _ _ o' R) as (m' & p' & r & E & R' & Hr).
    destruct (spec_step KD xs o') as [xs' r']. exists m', p', r. auto. }
  destruct o as [v|v|a v|a v|a v|a| | |a| | | ]; try (apply Plain; reflexivity);
    cbn [gdl_step gspec_step].
  - (* InsertAfter *)
    rewrite (gdl_find_rep _ _ _ a R).
    pose proof (gfind_addr_split a p xs Hlen) as G. destruct (gsplit eq a xs) as [| |l y r] eqn:Gs.
    + rewrite G. reflexivity.
    + rewrite G. cbn [bind gdl_insert_after]. exists m, p, (RErr e_nil). fin.
    + destruct G as (p1 & h & p2 & -> & Hl1 & E). rewrite E. cbn [bind].
      destruct (gsplit_at _ _ _ _ _ Gs) as (-> & Hy & Hfl).
      rewrite (gdl_insert_after_same _ _ _ _ _ _ _ v _ _ _ R Hl1 (gsplit_self Heq _ _ _ _ _ Gs)).
      destruct (dl_insert_after_rep _ _ _ _ _ _ _ v R Hl1) as (m' & p' & E' & R'). rewrite E'. cbn [bind].
      exists m', p', (RErr e_ok). fin.
  - (* InsertBefore *)
    rewrite (gdl_find_rep _ _ _ a R).
    pose proof (gfind_addr_split a p xs Hlen) as G. destruct (gsplit eq a xs) as [| |l y r] eqn:Gs.
    + rewrite G. reflexivity.
    + rewrite G. cbn [bind].
      change (gdl_insert_before eq m None v) with (dl_insert_before m None v).
      destruct (dl_insert_before_nil _ _ _ v R) as (m' & E & R'). rewrite E. cbn [bind].
      exists m', p, (RErr e_nil). fin.
    + destruct G as (p1 & h & p2 & -> & Hl1 & E). rewrite E. cbn [bind].
      destruct (gsplit_at _ _ _ _ _ Gs) as (-> & Hy & Hfl).
      rewrite (gdl_insert_before_same _ _ _ _ _ _ _ v _ _ _ R Hl1 (gsplit_self Heq _ _ _ _ _ Gs)).
      destruct (dl_insert_before_rep _ _ _ _ _ _ _ v R Hl1) as (m' & p' & E' & R'). rewrite E'. cbn [bind].
      exists m', p', (RErr e_ok). fin.
  - (* Replace *)
    unfold gdl_replace.
    destruct (rep_inv _ _ _ _ R) as (p' & x & xs' & -> & -> & H0 & S' & N0 & ND' & L0 & B & Hfu).
    pose proof R as (Hh & ND & S).
    assert (Hf' : length p' < fuel_of m) by (cbn in Hfu; lia).
    pose proof (greplace_loop_spec pf_d m a v p' 0 (x :: xs') None (fuel_of m) S ND Hf') as G.
    destruct (gsplit eq a (x :: xs')) as [| |l y r] eqn:Gs.
    + rewrite G. reflexivity.
    + rewrite G. cbn [bind]. exists m, (0 :: p'), (RErr e_notfound). fin.
    + destruct G as (m' & E & S1 & _). rewrite E. cbn [bind].
      exists m', (0 :: p'), (RErr e_ok). split; [reflexivity|]. split; [|reflexivity].
      split; [exact Hh|]. split; [exact ND|exact S1].
  - (* Delete *)
    rewrite (gdl_find_rep _ _ _ a R).
    pose proof (gfind_addr_split a p xs Hlen) as G. destruct (gsplit eq a xs) as [| |l y r] eqn:Gs.
    + rewrite G. reflexivity.
    + rewrite G. cbn [bind]. exists m, p, RSkip. fin.
    + destruct G as (p1 & h & p2 & -> & Hl1 & E). rewrite E. cbn [bind].
      destruct (gsplit_at _ _ _ _ _ Gs) as (-> & Hy & Hfl).
      pose proof (gsplit_self Heq _ _ _ _ _ Gs) as Gy.
      rewrite (gdl_delete_same _ _ _ _ _ _ _ R Hl1 Gy (head_cmp _ _ _ Gy)).
      destruct (dl_delete_rep _ _ _ _ _ _ _ R Hl1 (gsplit_self_notin _ _ _ Gy)) as (m' & p' & E' & R').
      rewrite E'. cbn [bind].
      destruct (more_than_one (l ++ y :: r)).
      * exists m', p', (RErr e_ok). fin.
      * exists m', p', (RErr e_only). fin.
  - (* Find *)
    rewrite (gdl_find_rep _ _ _ a R).
    pose proof (gfind_addr_split a p xs Hlen) as G. destruct (gsplit eq a xs) as [| |l y r] eqn:Gs.
    + rewrite G. reflexivity.
    + rewrite G. cbn [bind]. exists m, p, (RFound false). fin.
    + destruct G as (p1 & h & p2 & -> & Hl1 & E). rewrite E. cbn [bind].
      eexists m, _, (RFound true). fin.
Qed.

(* ---------- histories ---------- *)

Lemma gsl_run_refines ops : forall m p xs,
  srep m p xs -> map proj_obs (run_from (gsl_step eq) sl_observe m ops) = grun_spec_from eq KS xs ops.
Proof.
  induction ops as [|o ops IH]; intros m p xs R; [reflexivity|].
  pose proof (gsl_step_refines _ _ _ o R) as St.
  cbn [run_from grun_spec_from].
  destruct (gspec_step eq KS xs o) as [[xs' r']|].
  - destruct St as (m' & p' & r & E & R' & Hr). rewrite E. rewrite (sl_observe_rep _ _ _ R').
    cbn [map proj_obs]. rewrite Hr. f_equal. eapply IH; eauto.
  - rewrite St. reflexivity.
Qed.

Lemma gdl_run_refines ops : forall m p xs,
  drep m p xs -> map proj_obs (run_from (gdl_step eq) dl_observe m ops) = grun_spec_from eq KD xs ops.
Proof.
  induction ops as [|o ops IH]; intros m p xs R; [reflexivity|].
  pose proof (gdl_step_refines _ _ _ o R) as St.
  cbn [run_from grun_spec_from].
  destruct (gspec_step eq KD xs o) as [[xs' r']|].
  - destruct St as (m' & p' & r & E & R' & Hr). rewrite E. rewrite (dl_observe_rep _ _ _ R').
    cbn [map proj_obs]. rewrite Hr. f_equal. eapply IH; eauto.
  - rewrite St. reflexivity.
Qed.

Theorem ghistory_refines_spec k v ops :
  map proj_obs (grun_model eq k v ops) = grun_spec eq k v ops.
Proof.
  destruct k; unfold grun_model, grun_spec.
  - eapply gsl_run_refines. apply sl_init_rep.
  - eapply gdl_run_refines. apply dl_init_rep.
Qed.

Lemma gsl_runq_refines ops : forall m p xs,
  srep m p xs -> map proj_qobs (runq_from (gsl_step eq) sl_observe m ops) = grunq_spec_from eq KS xs ops.
Proof.
  induction ops as [|[o|] ops IH]; intros m p xs R; [reflexivity| |].
  - pose proof (gsl_step_refines _ _ _ o R) as St.
    cbn [runq_from grunq_spec_from].
    destruct (gspec_step eq KS xs o) as [[xs' r']|].
    + destruct St as (m' & p' & r & E & R' & Hr). rewrite E.
      cbn [map proj_qobs]. rewrite Hr. f_equal. eapply IH; eauto.
    + rewrite St. reflexivity.
  - cbn [runq_from grunq_spec_from]. rewrite (sl_observe_rep _ _ _ R).
    cbn [map proj_qobs]. f_equal. eapply IH; eauto.
Qed.

Lemma gdl_runq_refines ops : forall m p xs,
  drep m p xs -> map proj_qobs (runq_from (gdl_step eq) dl_observe m ops) = grunq_spec_from eq KD xs ops.
Proof.
  induction ops as [|[o|] ops IH]; intros m p xs R; [reflexivity| |].
  - pose proof (gdl_step_refines _ _ _ o R) as St.
    cbn [runq_from grunq_spec_from].
    destruct (gspec_step eq KD xs o) as [[xs' r']|].
    + destruct St as (m' & p' & r & E & R' & Hr). rewrite E.
      cbn [map proj_qobs]. rewrite Hr. f_equal. eapply IH; eauto.
    + rewrite St. reflexivity.
  - cbn [runq_from grunq_spec_from]. rewrite (dl_observe_rep _ _ _ R).
    cbn [map proj_qobs]. f_equal. eapply IH; eauto.
Qed.

Theorem gcheckpointed_refines_spec k v ops :
  map proj_qobs (grunq_model eq k v ops) = grunq_spec eq k v ops.
Proof.
  destruct k; unfold grunq_model, grunq_spec.
  - eapply gsl_runq_refines. apply sl_init_rep.
  - eapply gdl_runq_refines. apply dl_init_rep.
Qed.

End Steps.

End G.

(* ====================================================================== *)
(* conservativity: at the == of ints the generic text is C19_Model's       *)
(* ====================================================================== *)

Lemma gfind_loop_z : forall fuel m n v, gfind_loop zeq fuel m n v = find_loop fuel m n v.
Proof.
  induction fuel as [|f IH]; intros m n v; [reflexivity|].
  cbn [gfind_loop find_loop]. destruct n as [a|]; [|reflexivity].
  destruct (ld m a) as [nd| |]; cbn [bind]; try reflexivity;
    unfold cmpv, zeq; cbn [bind]; destruct (val nd =? v)%Z; first [reflexivity|apply IH].
Qed.

Lemma greplace_loop_z : forall fuel m a o n, greplace_loop zeq fuel m a o n = replace_loop fuel m a o n.
Proof.
  induction fuel as [|f IH]; intros m a o n; [reflexivity|].
  cbn [greplace_loop replace_loop]. destruct (ld m a) as [h| |]; cbn [bind]; try reflexivity;
    unfold cmpv, zeq; cbn [bind]; destruct (next h); destruct (val h =? o)%Z; first [reflexivity|apply IH].
Qed.

Lemma gsl_find_z m v : gsl_find zeq m v = sl_find m v.
Proof. reflexivity. Qed.
Lemma gdl_find_z m v : gdl_find zeq m v = dl_find m v.
Proof. reflexivity. Qed.
Lemma gsl_insert_after_z m h v : gsl_insert_after zeq m h v = sl_insert_after m h v.
Proof. reflexivity. Qed.
Lemma gsl_replace_z m a v : gsl_replace zeq m a v = sl_replace m a v.
Proof. reflexivity. Qed.
Lemma gsl_delete_z m h : gsl_delete zeq m h = sl_delete m h.
Proof. reflexivity. Qed.
Lemma gdl_insert_after_z m h v : gdl_insert_after zeq m h v = dl_insert_after m h v.
Proof. reflexivity. Qed.
Lemma gdl_insert_before_z m h v : gdl_insert_before zeq m h v = dl_insert_before m h v.
Proof. reflexivity. Qed.
Lemma gdl_replace_z m a v : gdl_replace zeq m a v = dl_replace m a v.
Proof. reflexivity. Qed.
Lemma gdl_delete_z m h : gdl_delete zeq m h = dl_delete m h.
Proof. reflexivity. Qed.
Lemma gsl_step_z m o : gsl_step zeq m o = sl_step m o.
Proof. destruct o; reflexivity. Qed.
Lemma gdl_step_z m o : gdl_step zeq m o = dl_step m o.
Proof. destruct o; reflexivity. Qed.

Lemma run_from_ext (s1 s2 : mem -> op -> outcome (mem * ret)) obs :
  (forall m o, s1 m o = s2 m o) -> forall ops m, run_from s1 obs m ops = run_from s2 obs m ops.
Proof.
  intros H. induction ops as [|o ops IH]; intros m; [reflexivity|].
  cbn [run_from]. rewrite H. destruct (s2 m o) as [[m1 r]| |]; try reflexivity.
  destruct (obs m1) as [[[m2 vs] fl]| |]; try reflexivity. now rewrite IH.
Qed.

Lemma runq_from_ext (s1 s2 : mem -> op -> outcome (mem * ret)) obs :
  (forall m o, s1 m o = s2 m o) -> forall ops m, runq_from s1 obs m ops = runq_from s2 obs m ops.
Proof.
  intros H. induction ops as [|[o|] ops IH]; intros m; [reflexivity| |]; cbn [runq_from].
  - rewrite H. destruct (s2 m o) as [[m1 r]| |]; try reflexivity. now rewrite IH.
  - destruct (obs m) as [[[m2 vs] fl]| |]; try reflexivity. now rewrite IH.
Qed.

Theorem grun_model_z k v ops : grun_model zeq k v ops = run_model k v ops.
Proof. destruct k; unfold grun_model, run_model; apply run_from_ext; [apply gsl_step_z|apply gdl_step_z]. Qed.

Theorem grunq_model_z k v ops : grunq_model zeq k v ops = runq_model k v ops.
Proof. destruct k; unfold grunq_model, runq_model; apply runq_from_ext; [apply gsl_step_z|apply gdl_step_z]. Qed.

(* the generic list machine at the == of ints is C19_Model's *)
Lemma gsplit_z a : forall xs,
  match gsplit zeq a xs with
  | SPanic => False
  | SAbsent => mem_z a xs = false
  | SAt l y r => mem_z a xs = true /\ y = a /\ xs = l ++ a :: r /\ ~ In a l
  end.
Proof.
  induction xs as [|x xs IH]; cbn [gsplit mem_z]; [reflexivity|].
  unfold zeq at 1. destruct (x =? a)%Z eqn:E.
  - apply Z.eqb_eq in E. subst. cbn. auto.
  - apply Z.eqb_neq in E. destruct (gsplit zeq a xs) as [| |l y r]; auto.
    destruct IH as (Hm & -> & -> & Hn). cbn. repeat split; auto. intros [H|H]; auto.
Qed.

Theorem gspec_step_z k xs o : gspec_step zeq k xs o = Some (spec_step k xs o).
Proof.
  destruct o as [v|v|a v|a v|a v|a| | |a| | | ]; try reflexivity; cbn [gspec_step spec_step];
    try (destruct k; [reflexivity|]);
    pose proof (gsplit_z a xs) as G; destruct (gsplit zeq a xs) as [| |l y r]; try tauto;
    try (rewrite G; reflexivity);
    destruct G as (Hm & -> & -> & Hn); rewrite Hm.
  - now rewrite ins_after_split.
  - now rewrite ins_before_split.
  - now rewrite repl_first_split.
  - rewrite remove_first_split by exact Hn. destruct (more_than_one (l ++ a :: r)); reflexivity.
  - reflexivity.
Qed.

Theorem grun_spec_z k ops : forall xs, grun_spec_from zeq k xs ops = run_spec_from k xs ops.
Proof.
  induction ops as [|o ops IH]; intros xs; [reflexivity|].
  cbn [grun_spec_from run_spec_from]. rewrite gspec_step_z.
  destruct (spec_step k xs o) as [xs' r]. now rewrite IH.
Qed.

Theorem grunq_spec_z k ops : forall xs, grunq_spec_from zeq k xs ops = runq_spec_from k xs ops.
Proof.
  induction ops as [|[o|] ops IH]; intros xs; [reflexivity| |]; cbn [grunq_spec_from runq_spec_from].
  - rewrite gspec_step_z. destruct (spec_step k xs o) as [xs' r]. now rewrite IH.
  - now rewrite IH.
Qed.

Lemma go_eq_zeq : go_eq zeq.
Proof.
  unfold go_eq, zeq. repeat split.
  - intros a b H. injection H as H. apply Z.eqb_eq in H. subst. now rewrite Z.eqb_refl.
  - intros a b c H1 H2. injection H1 as H1. injection H2 as H2.
    apply Z.eqb_eq in H1, H2. subst. now rewrite Z.eqb_refl.
  - intros a b _ x. discriminate.
Qed.

(* ====================================================================== *)
(* the == of the harness codes satisfies the laws                          *)
(* ====================================================================== *)

Local Open Scope Z_scope.

Definition plain_code (a : Z) : Prop := a <> c_nan /\ a <> c_u1 /\ a <> c_u2 /\ a <> c_u3.

Ltac eqbs :=
  repeat match goal with
         | |- context [(?x =? ?y)%Z] => destruct (Z.eqb_spec x y); [subst|]; cbn [andb orb]; try lia
         end.

Lemma c19eq_true_iff a b :
  c19eq a b = Some true <-> plain_code a /\ plain_code b /\ norm_code a = norm_code b.
Proof.
  unfold c19eq, is_slice, plain_code, norm_code, c_nan, c_nz, c_u1, c_u2, c_u3.
  split.
  - eqbs; intros H; try discriminate; repeat split; try lia.
  - intros ((A1 & A2 & A3 & A4) & (B1 & B2 & B3 & B4) & N). revert N.
    eqbs; intros N; try reflexivity; try lia.
Qed.

Lemma c19eq_defined x a : plain_code a -> c19eq x a <> None.
Proof.
  unfold c19eq, is_slice, plain_code, c_nan, c_nz, c_u1, c_u2, c_u3.
  intros (A1 & A2 & A3 & A4). eqbs; try discriminate; try lia.
Qed.

Lemma go_eq_c19eq : go_eq c19eq.
Proof.
  unfold go_eq. repeat split.
  - intros a b H. apply c19eq_true_iff in H. apply c19eq_true_iff. destruct H as (A & B & N). auto.
  - intros a b c H1 H2. apply c19eq_true_iff in H1, H2. apply c19eq_true_iff.
    destruct H1 as (A & B & N1), H2 as (_ & C & N2). split; [exact A|]. split; [exact C|congruence].
  - intros a b H x. apply c19eq_true_iff in H. apply c19eq_defined. tauto.
Qed.

(* ====================================================================== *)
(* consequences: no panic for comparable look-up arguments, never empty,   *)
(* reachable heaps, the handle Find returns                                *)
(* ====================================================================== *)

Local Open Scope nat_scope.

Section More.
Variable eq : Z -> Z -> option bool.
Hypothesis Heq : go_eq eq.

Lemma gspec_step_nonempty k xs o xs' r :
  xs <> [] -> gspec_step eq k xs o = Some (xs', r) -> xs' <> [].
Proof.
  intros Hne H.
  assert (Plain : gspec_step eq k xs o = Some (spec_step k xs o) -> xs' <> []).
  { intros E. rewrite E in H. injection H as H. pose proof (spec_step_nonempty k xs o Hne) as N.
    rewrite H in N. exact N. }
  destruct o as [v|v|a v|a v|a v|a| | |a| | | ]; try (apply Plain; reflexivity); cbn [gspec_step] in H;
    try (destruct k; [injection H as <- <-; exact Hne|]);
    destruct (gsplit eq a xs) as [| |l y r0] eqn:G; try discriminate;
    try (injection H as <- <-; exact Hne);
    destruct (gsplit_at _ _ _ _ _ _ G) as (-> & _ & _).
  - injection H as <- <-. destruct l; discriminate.
  - injection H as <- <-. destruct l; discriminate.
  - injection H as <- <-. destruct l; discriminate.
  - destruct (more_than_one (l ++ y :: r0)) eqn:M; injection H as <- <-; [|exact Hne].
    destruct l as [|? [|? ?]], r0; cbn in *; discriminate.
Qed.

Lemma gspec_step_safe k xs o :
  (forall a, op_arg o = Some a -> safe_arg eq a) -> gspec_step eq k xs o <> None.
Proof.
  intros Hs.
  destruct o as [v|v|a v|a v|a v|a| | |a| | | ]; try discriminate; cbn [gspec_step];
    try (destruct k; [discriminate|]);
    pose proof (gsplit_safe eq a xs (Hs a eq_refl)) as G;
    destruct (gsplit eq a xs); try discriminate; try congruence.
  destruct (more_than_one xs); discriminate.
Qed.

Lemma grun_spec_fine k ops : forall xs,
  xs <> [] -> safe_ops eq ops ->
  length (grun_spec_from eq k xs ops) = length ops /\
  Forall (fun o => exists r vs fl, o = OStep r vs fl /\ vs <> []) (grun_spec_from eq k xs ops).
Proof.
  induction ops as [|o ops IH]; intros xs Hne Hs; [split; [reflexivity|constructor]|].
  cbn [grun_spec_from].
  assert (S1 : gspec_step eq k xs o <> None).
  { apply gspec_step_safe. intros a Ha. apply (Hs o a); cbn; auto. }
  destruct (gspec_step eq k xs o) as [[xs' r]|] eqn:E; [|congruence].
  pose proof (gspec_step_nonempty _ _ _ _ _ Hne E) as Hne'.
  destruct (IH xs' Hne') as (L & F).
  { intros o' a Hin. apply Hs. cbn; auto. }
  split; [cbn; now rewrite L|]. constructor; eauto.
Qed.

Theorem ghistory_no_panic k v ops :
  safe_ops eq ops ->
  length (grun_model eq k v ops) = length ops /\
  Forall (fun o => exists r vs fl, o = OStep r vs fl /\ vs <> []) (grun_model eq k v ops).
Proof.
  intros Hs. pose proof (ghistory_refines_spec eq Heq k v ops) as Hr.
  destruct (grun_spec_fine k ops [v] ltac:(discriminate) Hs) as (L & F).
  unfold grun_spec in Hr. rewrite <- Hr in L, F. rewrite map_length in L. split; [exact L|].
  rewrite Forall_forall in *. intros o Ho.
  destruct (F (proj_obs o) (in_map _ _ _ Ho)) as (r & vs & fl & E & Hv).
  destruct o as [r0 vs0 fl0| |]; cbn in E; try discriminate. injection E as _ <- _. eauto.
Qed.

(* every reachable heap represents the generic machine's sequence *)
Lemma gsl_final_refines ops : forall m p xs,
  srep m p xs ->
  match gspec_final_from eq KS xs ops with
  | Some xs' => exists m', final_from (gsl_step eq) sl_observe m ops = Done m' /\ is_seq pf_s m' xs'
  | None => True
  end.
Proof.
  induction ops as [|o ops IH]; intros m p xs R; cbn [gspec_final_from final_from].
  - exists m. split; [reflexivity|]. exists p. exact R.
  - pose proof (gsl_step_refines eq Heq _ _ _ o R) as St.
    destruct (gspec_step eq KS xs o) as [[xs' r']|]; [|exact I].
    destruct St as (m' & p' & r & E & R' & _). rewrite E. cbn [bind].
    rewrite (sl_observe_rep _ _ _ R'). cbn [bind]. exact (IH _ _ _ R').
Qed.

Lemma gdl_final_refines ops : forall m p xs,
  drep m p xs ->
  match gspec_final_from eq KD xs ops with
  | Some xs' => exists m', final_from (gdl_step eq) dl_observe m ops = Done m' /\ is_seq pf_d m' xs'
  | None => True
  end.
Proof.
  induction ops as [|o ops IH]; intros m p xs R; cbn [gspec_final_from final_from].
  - exists m. split; [reflexivity|]. exists p. exact R.
  - pose proof (gdl_step_refines eq Heq _ _ _ o R) as St.
    destruct (gspec_step eq KD xs o) as [[xs' r']|]; [|exact I].
    destruct St as (m' & p' & r & E & R' & _). rewrite E. cbn [bind].
    rewrite (dl_observe_rep _ _ _ R'). cbn [bind]. exact (IH _ _ _ R').
Qed.

Theorem greachable_represents k v ops xs :
  gspec_final_from eq k [v] ops = Some xs ->
  exists m, gfinal_model eq k v ops = Done m /\ is_seq (pf_of k) m xs /\ xs <> [].
Proof.
  intros H.
  assert (exists m, gfinal_model eq k v ops = Done m /\ is_seq (pf_of k) m xs) as (m & E & S).
  { destruct k; unfold gfinal_model.
    - pose proof (gsl_final_refines ops _ _ _ (sl_init_rep v)) as G. rewrite H in G. exact G.
    - pose proof (gdl_final_refines ops _ _ _ (dl_init_rep v)) as G. rewrite H in G. exact G. }
  exists m. split; [exact E|]. split; [exact S|]. eapply is_seq_nonempty; eauto.
Qed.

(* the handle Find returns: the first node whose value is == to the argument *)
Lemma g_find_handle pf (find : mem -> Z -> outcome (mem * option addr)) m xs a :
  (forall p, rep pf m p xs -> find m a = (r <- gfind_addr eq a p xs ;; Done (m, r))) ->
  is_seq pf m xs ->
  match gsplit eq a xs with
  | SPanic => find m a = Fault
  | SAbsent => find m a = Done (m, None)
  | SAt l y r => exists h nd, find m a = Done (m, Some h) /\ load m h = Some nd /\ val nd = y
  end.
Proof.
  intros Hf [p R]. rewrite (Hf p R).
  pose proof R as (_ & _ & SR). pose proof (seg_length _ _ _ _ _ _ SR) as Hlen.
  pose proof (gfind_addr_split eq a p xs Hlen) as G.
  destruct (gsplit eq a xs) as [| |l y r] eqn:Gs; try (rewrite G; reflexivity).
  destruct G as (p1 & h & p2 & -> & Hl1 & E). rewrite E. cbn [bind].
  destruct (gsplit_at _ _ _ _ _ _ Gs) as (-> & _ & _).
  destruct (rep_split _ _ _ _ _ _ _ _ R Hl1) as (_ & Ha & _).
  eexists h, _. split; [reflexivity|]. split; [exact Ha|reflexivity].
Qed.

End More.

(* every step of the generic machine touches one position *)
Theorem gspec_step_one_edit eq k xs o xs' r :
  xs <> [] -> o <> Clear -> gspec_step eq k xs o = Some (xs', r) -> one_edit xs xs'.
Proof.
  intros Hne Hc H.
  assert (Plain : gspec_step eq k xs o = Some (spec_step k xs o) -> one_edit xs xs').
  { intros E. rewrite E in H. injection H as H. pose proof (spec_step_one_edit k xs o Hne Hc) as N.
    rewrite H in N. exact N. }
  destruct o as [v|v|a v|a v|a v|a| | |a| | | ]; try (apply Plain; reflexivity); cbn [gspec_step] in H;
    try (destruct k; [injection H as <- <-; apply oe_same|]);
    destruct (gsplit eq a xs) as [| |l y r0] eqn:G; try discriminate;
    try (injection H as <- <-; apply oe_same);
    destruct (gsplit_at _ _ _ _ _ _ G) as (-> & _ & _).
  - injection H as <- <-.
    change (l ++ y :: v :: r0) with (l ++ [y] ++ v :: r0). rewrite app_assoc.
    apply oe_ins. rewrite <- app_assoc. reflexivity.
  - injection H as <- <-. apply oe_ins. reflexivity.
  - injection H as <- <-. eapply oe_set. reflexivity.
  - destruct (more_than_one (l ++ y :: r0)); injection H as <- <-; [|apply oe_same].
    eapply oe_del. reflexivity.
Qed.
