(* C19_ProofsSList.v — every method of list/slist.go refines its sequence
   meaning on heaps that represent a sequence ([rep pf_s]). *)

From Gogu Require Import Base Mem C19_Model C19_Proofs.
Local Open Scope nat_scope.

(* ---------- symbolic execution of straight-line heap code ---------- *)

Ltac len_goal := unfold fresh; repeat (rewrite store_length || rewrite alloc_length).

Lemma load_alloc_new' m n a : a = length m -> load (alloc m n) a = Some n.
Proof. intros ->. apply load_alloc_new. Qed.

Lemma load_store_eq' m a b n : a = b -> a < length m -> load (store m a n) b = Some n.
Proof. intros <-. apply load_store_eq. Qed.

Ltac ld_norm :=
  repeat first
    [ rewrite load_alloc_new
    | rewrite load_store_eq by (len_goal; lia)
    | rewrite load_store_neq by (len_goal; lia)
    | rewrite load_store_eq' by (len_goal; lia)
    | rewrite load_alloc_new' by (len_goal; lia)
    | rewrite load_alloc_old by (len_goal; lia) ].

Ltac use_load :=
  match goal with
  | H : load ?m ?a = Some _ |- context [load ?m ?a] => rewrite H
  end.

Ltac red_heap := cbn [bind val next prev set_next set_prev set_val new_node fst snd].

Ltac exec1 := unfold ld, upd, deref; ld_norm; try use_load; red_heap.
Ltac exec := repeat (progress exec1).

(* close a goal [Some node = Some node'] / [load ... = Some node'] *)
Ltac cell :=
  exec; unfold set_next, set_prev, set_val, new_node, fresh, pf_s, pf_d;
  cbn [val next prev hd_opt]; len_goal; try reflexivity.

Notation srep := (rep pf_s).
Notation sseg := (seg pf_s).

(* facts every proof starts from *)
Lemma rep_inv pf m p xs :
  rep pf m p xs ->
  exists p' x xs', p = 0 :: p' /\ xs = x :: xs' /\
    load m 0 = Some (mkNode x (hd_opt p' None) (pf None)) /\
    seg pf m (Some 0) p' xs' None /\ ~ In 0 p' /\ NoDup p' /\ 0 < length m /\
    (forall a, In a p' -> a < length m /\ a <> 0) /\ length p < fuel_of m.
Proof.
  intros (Hh & ND & S). destruct p as [|a p']; [discriminate|]. injection Hh as ->.
  destruct xs as [|x xs']; [cbn in S; tauto|].
  pose proof (seg_fuel _ _ _ _ _ _ ND S) as Hfu.
  apply seg_cons in S. destruct S as [H0 S'].
  inversion ND as [|? ? Hn ND']; subst.
  exists p', x, xs'. repeat split; auto.
  - eapply load_lt; eauto.
  - eapply seg_lt; eauto.
  - intros ->; auto.
Qed.

Lemma rep_nonempty pf m p xs : rep pf m p xs -> xs <> [].
Proof. intros H. destruct (rep_inv _ _ _ _ H) as (? & ? & ? & _ & -> & _). discriminate. Qed.

Lemma sseg_pv m pv pv' p xs e : sseg m pv p xs e -> sseg m pv' p xs e.
Proof. destruct p, xs; cbn; auto. Qed.

(* ---------- Find / Each ---------- *)

Lemma sl_find_rep m p xs v :
  srep m p xs -> sl_find m v = Done (m, find_addr v p xs).
Proof.
  intros R. destruct (rep_inv _ _ _ _ R) as (p' & x & xs' & -> & -> & H0 & S' & _ & _ & _ & _ & Hfu).
  destruct R as (_ & _ & S).
  unfold sl_find, ld. rewrite H0. cbn [bind].
  change (Some 0) with (hd_opt (0 :: p') None).
  rewrite (find_loop_spec pf_s m v (0 :: p') (x :: xs') None (fuel_of m) S Hfu).
  cbn [bind]. rewrite store_same by exact H0. reflexivity.
Qed.

Lemma each_rep pf m p xs :
  rep pf m p xs -> sl_each m = Done (xs, m).
Proof.
  intros R. destruct (rep_inv _ _ _ _ R) as (p' & x & xs' & -> & -> & H0 & S' & N0 & _ & L0 & _ & Hfu).
  destruct R as (_ & _ & S).
  unfold sl_each, ld. rewrite H0. cbn [bind].
  destruct (each_loop_spec pf m p' 0 (x :: xs') None _ (fuel_of m) [] L0 H0 S N0) as [nl E].
  { cbn in Hfu. lia. }
  rewrite store_same in E by exact H0. rewrite E. cbn [bind app].
  rewrite store_store, store_same by exact H0. reflexivity.
Qed.

(* ---------- Unshift ---------- *)

Lemma sl_unshift_rep m p xs v :
  srep m p xs ->
  exists m' p', sl_unshift m v = Done m' /\ srep m' p' (v :: xs).
Proof.
  intros R. destruct (rep_inv _ _ _ _ R) as (p' & x & xs' & -> & -> & H0 & S' & N0 & ND' & L0 & B & _).
  unfold sl_unshift. cbn zeta. exec.
  eexists. exists (0 :: S (length m) :: p'). split; [reflexivity|].
  split; [reflexivity|]. split.
  - constructor; [|constructor; auto].
    + intros [E|Hin]; [discriminate|]. auto.
    + intros Hin. apply B in Hin. lia.
  - apply seg_cons. split; [cell|].
    apply seg_cons. split; [cell|].
    apply seg_frame with m; [|eapply sseg_pv; eauto].
    intros a Ha. destruct (B a Ha). cell.
Qed.

(* ---------- Append ---------- *)

Lemma sl_append_rep m p xs v :
  srep m p xs ->
  exists m' p', sl_append m v = Done m' /\ srep m' p' (xs ++ [v]).
Proof.
  intros R. destruct (rep_inv _ _ _ _ R) as (p' & x & xs' & -> & -> & H0 & S' & N0 & ND' & L0 & B & Hfu).
  destruct R as (_ & ND & S).
  unfold sl_append. cbn zeta. exec.
  set (m1 := alloc m (new_node v)).
  assert (S1 : sseg m1 None (0 :: p') (x :: xs') None).
  { apply seg_frame with m; auto. intros a Ha. unfold m1.
    rewrite load_alloc_old; auto. exact (seg_lt _ _ _ _ _ _ _ S Ha). }
  assert (E2 : (match hd_opt p' None with
                | None => store m1 0 (mkNode x (hd_opt p' None) (pf_s None))
                | Some _ => m1 end) = m1).
  { destruct (hd_opt p' None); auto. apply store_same. unfold m1. cell. }
  rewrite E2.
  rewrite (walk_last_spec pf_s m1 p' 0 (x :: xs') None (fuel_of m1) S1).
  2:{ unfold fuel_of, m1. rewrite alloc_length. unfold fuel_of in Hfu. cbn in Hfu. lia. }
  cbn [bind].
  destruct (seg_last_cell pf_s m None p' 0 None (x :: xs') S) as (la & q & xs0 & xl & Ela & Eq & Exs & Hl & Sq & Hlast).
  rewrite Ela.
  assert (Hla : la < length m) by exact (load_lt _ _ _ Hlast).
  unfold m1. exec.
  eexists. exists ((0 :: p') ++ [length m]). split; [reflexivity|].
  split; [reflexivity|]. split.
  - rewrite Eq in ND |- *. apply nodup_snoc; auto.
    intros Hin. rewrite <- Eq in Hin. apply (seg_lt _ _ _ _ _ _ _ S) in Hin. lia.
  - rewrite Exs. rewrite Eq. rewrite <- !app_assoc. cbn [app].
    assert (NDq : NoDup (q ++ [la])) by (rewrite <- Eq; exact ND).
    apply seg_app; auto. split.
    + apply seg_frame with m; auto. intros a Ha.
      assert (a < length m) by (eapply seg_lt; eauto).
      assert (a <> la).
      { intros ->. eapply (nodup_app_disj q [la]); eauto. cbn; auto. }
      cell.
    + apply seg_cons. split; [cell|].
      apply seg_cons. split; [cell|]. exact I.
Qed.

(* ---------- InsertAfter ---------- *)

Lemma sl_insert_after_nil m v : sl_insert_after m None v = Done (m, e_nil).
Proof. reflexivity. Qed.

Lemma sl_insert_after_rep m p1 a p2 xs1 y xs2 v :
  srep m (p1 ++ a :: p2) (xs1 ++ y :: xs2) -> length p1 = length xs1 ->
  exists m' p', sl_insert_after m (Some a) v = Done (m', e_ok) /\
                srep m' p' (xs1 ++ y :: v :: xs2).
Proof.
  intros R Hl. pose proof R as (Hh & ND & S).
  destruct (rep_split _ _ _ _ _ _ _ _ R Hl) as (S1 & Ha & S2 & Na1 & Na2 & ND1 & ND2 & Dj & B).
  assert (La : a < length m) by (apply B; apply in_or_app; cbn; auto).
  unfold sl_insert_after. unfold ld at 1. rewrite Ha. cbn [bind val].
  rewrite (sl_find_rep _ _ _ y R).
  destruct (find_addr_in y (p1 ++ a :: p2) (xs1 ++ y :: xs2)) as [b Eb].
  { eapply seg_length; eauto. } { apply in_or_app; cbn; auto. }
  rewrite Eb. cbn [bind]. cbn zeta. exec.
  eexists. exists (p1 ++ a :: length m :: p2). split; [reflexivity|].
  split; [rewrite (hd_error_app_mid p1 a _ p2); exact Hh|]. split.
  - change (p1 ++ a :: length m :: p2) with (p1 ++ [a] ++ length m :: p2).
    rewrite app_assoc. apply nodup_insert; rewrite <- app_assoc; cbn [app]; auto.
    intros Hin. apply B in Hin. lia.
  - apply seg_app; auto. split.
    + apply seg_frame with m; auto. intros c Hc.
      assert (c < length m) by (apply B; apply in_or_app; auto).
      assert (c <> a) by (intros ->; auto). cell.
    + apply seg_cons. split; [cell|].
      apply seg_cons. split; [cell|].
      apply seg_frame with m; [|eapply sseg_pv; eauto]. intros c Hc.
      assert (c < length m) by (apply B; apply in_or_app; cbn; auto).
      assert (c <> a) by (intros ->; auto). cell.
Qed.

(* ---------- Replace ---------- *)

Lemma sl_replace_rep pf m p xs oldv newv :
  rep pf m p xs ->
  exists m', sl_replace m oldv newv = Done (m', if mem_z oldv xs then e_ok else e_notfound) /\
             rep pf m' p (repl_first oldv newv xs).
Proof.
  intros R. destruct (rep_inv _ _ _ _ R) as (p' & x & xs' & -> & -> & H0 & S' & N0 & ND' & L0 & B & Hfu).
  destruct R as (Hh & ND & S).
  destruct (replace_loop_spec pf m oldv newv p' 0 (x :: xs') None (fuel_of m) S ND) as (m' & E & S1 & _ & _).
  { cbn in Hfu; lia. }
  exists m'. split; [exact E|]. split; [exact Hh|]. split; auto.
Qed.

(* ---------- Pop ---------- *)

Lemma removelast_two {A} (l : list A) t z : removelast (l ++ [t; z]) = l ++ [t].
Proof. rewrite removelast_app by discriminate. reflexivity. Qed.

Lemma sl_pop_rep m p xs :
  srep m p xs ->
  exists m' p', sl_pop m = Done m' /\
                srep m' p' (if more_than_one xs then removelast xs else xs).
Proof.
  intros R. destruct (rep_inv _ _ _ _ R) as (p' & x & xs' & -> & -> & H0 & S' & N0 & ND' & L0 & B & Hfu).
  pose proof R as (Hh & ND & S).
  pose proof (seg_length _ _ _ _ _ _ S') as Hlen.
  unfold sl_pop. unfold ld at 1. rewrite H0. cbn [bind next].
  destruct p' as [|b p'].
  - destruct xs'; [|discriminate]. cbn [hd_opt more_than_one]. eauto.
  - destruct xs' as [|y xs']; [discriminate|]. cbn [hd_opt more_than_one].
    destruct (two_last_split (0 :: b :: p')) as (q & t & l & Eq); [cbn; lia|].
    destruct (two_last_split (x :: y :: xs')) as (xq & xt & xl & Ex); [cbn; lia|].
    assert (Hlq : length q = length xq).
    { apply (f_equal (@length _)) in Eq. apply (f_equal (@length _)) in Ex.
      rewrite app_length in Eq, Ex. cbn in Eq, Ex. cbn in Hlen. lia. }
    rewrite Eq in S, ND, Hh. rewrite Ex in S |- *.
    rewrite (pop_loop_spec pf_s m q 0 t l _ None (fuel_of m) S Hh).
    2:{ apply (f_equal (@length _)) in Eq. rewrite app_length in Eq. cbn in Eq, Hfu. lia. }
    cbn [bind].
    pose proof S as S0. apply seg_app in S0; auto. destruct S0 as [Sq St].
    apply seg_cons in St. destruct St as [Ht Sl]. cbn [hd_opt] in Sq, Ht.
    exec. rewrite removelast_two.
    eexists. exists (q ++ [t]). split; [reflexivity|]. split; [|split].
    + destruct q; cbn in Hh |- *; exact Hh.
    + change [t; l] with ([t] ++ [l]) in ND. rewrite app_assoc in ND.
      eapply nodup_app_l; eauto.
    + apply seg_app; auto. split.
      * apply seg_frame with m; auto. intros c Hc.
        assert (c <> t).
        { intros ->. eapply (nodup_app_disj q [t; l]); eauto. cbn; auto. }
        cell.
      * apply seg_cons. split; [|exact I].
        assert (t < length m) by (eapply load_lt; eauto). cell.
Qed.

(* ---------- Shift ---------- *)

Lemma sl_shift_rep m p xs :
  srep m p xs ->
  exists m' p', sl_shift m = Done m' /\
                srep m' p' (if more_than_one xs then tl xs else xs).
Proof.
  intros R. destruct (rep_inv _ _ _ _ R) as (p' & x & xs' & -> & -> & H0 & S' & N0 & ND' & L0 & B & Hfu).
  unfold sl_shift. unfold ld at 1. rewrite H0. cbn [bind next].
  destruct p' as [|b p'].
  - destruct xs'; [|cbn in S'; tauto]. cbn [hd_opt more_than_one]. eauto.
  - destruct xs' as [|y xs']; [cbn in S'; tauto|]. cbn [hd_opt more_than_one tl].
    apply seg_cons in S'. destruct S' as [Hb S'']. exec.
    inversion ND' as [|? ? Nb ND'']; subst.
    eexists. exists (0 :: p'). split; [reflexivity|]. split; [reflexivity|]. split.
    + constructor; auto. intros Hin; apply N0; cbn; auto.
    + apply seg_cons. split; [cell|].
      apply seg_frame with m; [|eapply sseg_pv; eauto]. intros c Hc.
      assert (c <> 0) by (intros ->; apply N0; cbn; auto). cell.
Qed.

(* ---------- Delete ---------- *)

Lemma sl_del_loop_spec m nd r2 : forall r1 c pvn pv xs fuel,
  sseg m pv (r1 ++ nd :: r2) xs None -> NoDup (r1 ++ nd :: r2) ->
  hd_error (r1 ++ nd :: r2) = Some c -> length r1 < fuel ->
  exists pvn', sl_del_loop fuel m nd pvn c = Done (pvn', nd) /\
               (r1 = [] -> pvn' = pvn) /\ (r1 <> [] -> next pvn' = Some nd).
Proof.
  induction r1 as [|c' r1 IH]; intros c pvn pv xs fuel S ND Hh Hf;
    (destruct fuel as [|f]; [cbn in Hf; lia|]); cbn in Hh; injection Hh as <-;
    (destruct xs as [|x xs]; [cbn in S; tauto|]); cbn [app] in S; apply seg_cons in S; destruct S as [H1 S'].
  - cbn [sl_del_loop]. unfold ld. rewrite H1. cbn [bind next].
    exists pvn. destruct (hd_opt r2 None); [rewrite Nat.eqb_refl|]; repeat split; auto; congruence.
  - cbn [sl_del_loop]. unfold ld. rewrite H1. cbn [bind next].
    cbn [app] in ND. inversion ND as [|? ? Nc ND']; subst.
    assert (Hc : c' <> nd) by (intros ->; apply Nc; apply in_or_app; cbn; auto).
    apply Nat.eqb_neq in Hc.
    assert (Hb : exists b, hd_opt (r1 ++ nd :: r2) None = Some b /\ hd_error (r1 ++ nd :: r2) = Some b)
      by (destruct r1; cbn; eauto).
    destruct Hb as (b & Hb1 & Hb2). rewrite Hb1, Hc.
    destruct (IH b (mkNode x (Some b) (pf_s pv)) (Some c') xs f S' ND' Hb2) as (pvn' & E & P1 & P2).
    { cbn in Hf; lia. }
    exists pvn'. split; [exact E|]. split; [discriminate|]. intros _.
    destruct r1 as [|c'' r1].
    + rewrite P1 by reflexivity. cbn [next]. cbn in Hb1. congruence.
    + apply P2. discriminate.
Qed.

Lemma sl_delete_rep m p1 a p2 xs1 y xs2 :
  srep m (p1 ++ a :: p2) (xs1 ++ y :: xs2) -> length p1 = length xs1 -> ~ In y xs1 ->
  exists m' p', sl_delete m (Some a) =
                  Done (m', if more_than_one (xs1 ++ y :: xs2) then e_ok else e_only) /\
                srep m' p' (if more_than_one (xs1 ++ y :: xs2) then xs1 ++ xs2 else xs1 ++ y :: xs2).
Proof.
  intros R Hl Hny. pose proof R as (Hh & ND & S).
  destruct (rep_split _ _ _ _ _ _ _ _ R Hl) as (S1 & Ha & S2 & Na1 & Na2 & ND1 & ND2 & Dj & B).
  assert (La : a < length m) by (apply B; apply in_or_app; cbn; auto).
  pose proof (seg_length _ _ _ _ _ _ S2) as Hl2.
  unfold sl_delete, deref. rewrite Ha. cbn [bind val].
  rewrite (sl_find_rep _ _ _ y R).
  destruct (find_addr_in y (p1 ++ a :: p2) (xs1 ++ y :: xs2)) as [b Eb].
  { eapply seg_length; eauto. } { apply in_or_app; cbn; auto. }
  rewrite Eb. cbn [bind].
  destruct p1 as [|c p1].
  - (* the head *)
    destruct xs1; [|discriminate]. cbn [app] in *. injection Hh as ->. cbn [Nat.eqb].
    unfold ld at 1. rewrite Ha. cbn [bind next].
    destruct p2 as [|s p2].
    + destruct xs2; [|discriminate]. cbn [hd_opt more_than_one]. eauto.
    + destruct xs2 as [|z xs2]; [discriminate|]. cbn [hd_opt more_than_one].
      apply seg_cons in S2. destruct S2 as [Hs S2']. exec.
      inversion ND2 as [|? ? Ns ND2']; subst.
      eexists. exists (0 :: p2). split; [reflexivity|]. split; [reflexivity|]. split.
      * constructor; auto. intros Hin; apply Na2; cbn; auto.
      * apply seg_cons. split; [cell|].
        apply seg_frame with m; [|eapply sseg_pv; eauto]. intros d Hd.
        assert (d <> 0) by (intros ->; apply Na2; cbn; auto). cell.
  - (* further along *)
    destruct xs1 as [|x1 xs1]; [discriminate|]. cbn [app] in Hh. injection Hh as ->.
    assert (Ha0 : a <> 0) by (intros ->; apply Na1; cbn; auto).
    assert (E0 : (0 =? a) = false) by (apply Nat.eqb_neq; auto). rewrite E0.
    destruct (sl_del_loop_spec m a p2 (0 :: p1) 0 zero_node None _ (fuel_of m) S ND eq_refl) as (pvn & E & _ & P2).
    { pose proof (seg_fuel _ _ _ _ _ _ ND S) as Hfu. rewrite app_length in Hfu. cbn in Hfu |- *. lia. }
    rewrite E. cbn [bind]. unfold ld at 1. rewrite Ha. cbn [bind next].
    assert (M1 : more_than_one ((x1 :: xs1) ++ y :: xs2) = true).
    { cbn. destruct xs1; reflexivity. }
    rewrite M1.
    destruct p2 as [|s p2].
    + (* the last node: Pop *)
      destruct xs2; [|discriminate]. cbn [hd_opt].
      destruct (sl_pop_rep _ _ _ R) as (m' & p' & Ep & Rp). rewrite Ep. cbn [bind].
      rewrite M1 in Rp.
      rewrite removelast_app in Rp by discriminate. cbn [removelast] in Rp.
      exists m', p'. split; [reflexivity|]. exact Rp.
    + destruct xs2 as [|z xs2]; [discriminate|]. cbn [hd_opt].
      apply seg_cons in S2. destruct S2 as [Hs S2'].
      unfold ld at 1. rewrite Hs. cbn [bind]. rewrite P2 by discriminate.
      unfold deref. rewrite Ha. cbn [bind].
      inversion ND2 as [|? ? Ns ND2']; subst.
      eexists. exists ((0 :: p1) ++ a :: p2). split; [reflexivity|]. split; [reflexivity|]. split.
      * change ((0 :: p1) ++ a :: s :: p2) with ((0 :: p1) ++ [a] ++ s :: p2) in ND.
        rewrite app_assoc in ND. apply NoDup_remove_1 in ND. rewrite <- app_assoc in ND. exact ND.
      * apply seg_app; auto. split.
        -- apply seg_frame with m; auto. intros d Hd.
           assert (d <> a) by (intros ->; auto). cell.
        -- apply seg_cons. split; [cell|].
           apply seg_frame with m; [|eapply sseg_pv; eauto]. intros d Hd.
           assert (d <> a) by (intros ->; apply Na2; cbn; auto). cell.
Qed.
