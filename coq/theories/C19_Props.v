(* C19_Props.v — property C19 "Linked lists behave as sequences under every
   edit", stated over the model of C19_Model.v (list/slist.go and list/dlist.go
   over the node heap of Mem.v; DList after the four repairs of
   fixes/builder-c19).  Only statements here; proofs are in C19_Proofs*.v.

   Vocabulary.
     is_seq pf m xs   the list struct at address 0 of heap m holds the sequence
                      xs: there is a duplicate-free (acyclic) chain of addresses
                      starting at 0, linked by next, ending in nil, whose values
                      are xs; with pf = pf_d each node's prev is its predecessor
                      and the head's prev is nil (DList); with pf = pf_s the
                      prev field is unused (SList).
     handles          "the address Find returns in this state": the hypothesis
                      [xx_find m a = Done (m1, Some h)].
     sequence meaning the plain list functions of C19_Model (ins_after,
                      ins_before, repl_first, remove_first act on the FIRST
                      occurrence; tl / removelast when more than one element).
     Done / Fault / Hang   normal return / nil-dereference panic / a loop that
                      does not terminate (fuel = heap size + 1 exhausted).

     checkpointed     [runq_model]: the same steps, the list looked at (Each,
     history          First/Last) only at the [QLook]s of the history, not after
                      every step — the form the harness uses for long lists.

   No theorem needs the inserted values to be distinct: a handle obtained from
   Find is the first occurrence of its value, and every statement speaks about
   first occurrences.  (With distinct values "first occurrence" is "the"
   occurrence, which is the property's wording.) *)

From Gogu Require Import Base Mem C19_Model C19_Proofs C19_ProofsSList C19_ProofsDList C19_ProofsHist C19_Wire.
From Gogu Require C19_PropsNaN.   (* the kinds 12..23 of the wire: C19_nan_checker_is_spec *)
Local Open Scope Z_scope.

(* ====================================================================== *)
(* 1. All histories: the lists ARE the reference list machine              *)
(* ====================================================================== *)

(* For both list types, every initial value and EVERY operation sequence
   (any length, any values, handles taken from Find immediately before use),
   what the harness observes on the model — each call's result, the Each
   sequence, First/Last after every step — is exactly what the plain list
   machine [run_spec] yields (errors compared as nil / non-nil). *)
Theorem C19_history_refines_spec : forall k v ops,
  map proj_obs (run_model k v ops) = run_spec k v ops.
Proof. exact history_refines_spec. Qed.
Print Assumptions C19_history_refines_spec.

(* never panics, never hangs, always non-empty: every step of every history
   produces an observation, none is a recovered panic or a hang, and every
   Each sequence is non-empty *)
Theorem C19_no_panic_no_hang_never_empty : forall k v ops,
  length (run_model k v ops) = length ops /\
  forall o, In o (run_model k v ops) -> exists r vs fl, o = OStep r vs fl /\ vs <> [].
Proof. intros k v ops. split; [apply history_complete | apply history_only_steps]. Qed.
Print Assumptions C19_no_panic_no_hang_never_empty.

(* invariant form: after every history the heap represents the reference
   machine's sequence (acyclic chain from the embedded head, prev pointers
   consistent for DList), and that sequence is non-empty *)
Theorem C19_reachable_heap_is_seq : forall k v ops,
  exists m, final_model k v ops = Done m /\
            is_seq (pf_of k) m (spec_final k v ops) /\ spec_final k v ops <> [].
Proof.
  intros k v ops. destruct (reachable_represents k v ops) as (m & E & R).
  exists m. split; [exact E|]. split; [exact R|]. apply spec_final_nonempty.
Qed.
Print Assumptions C19_reachable_heap_is_seq.

(* the property checker used by ./check is the model: on every wire input the
   model's observation is the specification's, hence c19_holds accepts exactly
   the observations c19_agree accepts (the kinds 12..23 — element types whose ==
   is not the identity — by C19_PropsNaN.C19_nan_checker_is_spec) *)
Theorem C19_checker_is_spec : forall w, c19_run w = c19_spec w.
Proof.
  intros w. unfold c19_run, c19_spec. destruct (decode w) as [[[k v] ops]|].
  - rewrite <- history_refines_spec.
    induction (run_model k v ops) as [|o os IH]; [reflexivity|].
    cbn [flat_map map]. rewrite IH. f_equal.
    destruct o as [r vs fl| |]; try reflexivity.
    destruct r; try reflexivity. cbn. destruct (k0 =? 0); reflexivity.
  - destruct (decode_q w) as [[[k v] ops]|]; [|apply C19_PropsNaN.C19_nan_checker_is_spec].
    rewrite <- checkpointed_refines_spec.
    induction (runq_model k v ops) as [|o os IH]; [reflexivity|].
    cbn [flat_map map]. rewrite IH. f_equal.
    destruct o as [r|vs fl| |]; try reflexivity.
    destruct r; try reflexivity. cbn. destruct (k0 =? 0); reflexivity.
Qed.
Print Assumptions C19_checker_is_spec.

(* ---------- checkpointed histories (lists of any size, looked at only where
   the history says so: the form the "large" stream of the harness uses) ---------- *)

(* every call's result and every checkpoint (Each sequence, First/Last) of
   every checkpointed history is the reference list machine's *)
Theorem C19_checkpointed_history_refines_spec : forall k v ops,
  map proj_qobs (runq_model k v ops) = runq_spec k v ops.
Proof. exact checkpointed_refines_spec. Qed.
Print Assumptions C19_checkpointed_history_refines_spec.

(* no panic, no hang; every checkpoint shows a non-empty sequence whose
   First/Last are its two ends *)
Theorem C19_checkpointed_no_panic_no_hang_never_empty : forall k v ops,
  length (runq_model k v ops) = length ops /\
  Forall (fun o => match o with
                   | QSeen vs fl => vs <> [] /\ fl = spec_fl k vs
                   | QRes _ => True
                   | QFault | QHang => False
                   end) (runq_model k v ops).
Proof.
  intros k v ops. split; [apply checkpointed_complete|].
  eapply Forall_impl; [|apply checkpointed_only_steps]. intros [r|vs fl| |]; cbn; auto.
Qed.
Print Assumptions C19_checkpointed_no_panic_no_hang_never_empty.

(* what a checkpoint shows does not depend on where the list was looked at
   before: it is the reference sequence after the calls made so far *)
Theorem C19_checkpoint_shows_sequence_so_far : forall k v ops,
  map proj_qobs (runq_model k v (ops ++ [QLook])) =
  map proj_qobs (runq_model k v ops) ++
  [let ys := spec_final k v (qops_ops ops) in QSeen ys (spec_fl k ys)].
Proof. exact checkpoint_shows_sequence_so_far. Qed.
Print Assumptions C19_checkpoint_shows_sequence_so_far.

(* "No edit loses, duplicates or reorders the other elements": between two
   consecutive states of ANY history the sequence is unchanged, or one value
   was put in at one place, or one element was taken out, or one element's
   value was changed — all other elements keep value, multiplicity and place.
   (Clear, which is outside the property's list of operations, keeps the
   first element only: C19_dlist_clear.) *)
Theorem C19_every_edit_touches_one_position : forall k v ops o,
  o <> Clear ->
  let xs := spec_final k v ops in
  let xs' := spec_final k v (ops ++ [o]) in
  xs' = xs \/
  (exists l1 l2 x, xs = l1 ++ l2 /\ xs' = l1 ++ x :: l2) \/
  (exists l1 x l2, xs = l1 ++ x :: l2 /\ xs' = l1 ++ l2) \/
  (exists l1 x l2 y, xs = l1 ++ x :: l2 /\ xs' = l1 ++ y :: l2).
Proof.
  intros k v ops o Hc. cbv zeta. destruct (history_one_edit k v ops o Hc) as [|l1 l2 x E|l1 x l2 E|l1 x l2 y E].
  - left; reflexivity.
  - right; left. exists l1, l2, x. split; [exact E|reflexivity].
  - right; right; left. exists l1, x, l2. split; [exact E|reflexivity].
  - right; right; right. exists l1, x, l2, y. split; [exact E|reflexivity].
Qed.
Print Assumptions C19_every_edit_touches_one_position.

(* ====================================================================== *)
(* 2. One step: every operation has exactly its sequence meaning           *)
(* ====================================================================== *)

(* one harness step (Find for the handle, then the call) from ANY heap that
   represents xs: returns normally, the new heap represents the reference
   machine's new sequence, the result is the reference machine's *)
Theorem C19_slist_step_refines : forall m xs o,
  is_seq pf_s m xs ->
  exists m' r, sl_step m o = Done (m', r) /\
               is_seq pf_s m' (fst (spec_step KS xs o)) /\ proj_ret r = snd (spec_step KS xs o).
Proof.
  intros m xs o [p R]. destruct (sl_step_refines _ _ _ o R) as (m' & p' & r & E & R' & Hr).
  exists m', r. split; [exact E|]. split; [exists p'; exact R'|exact Hr].
Qed.
Print Assumptions C19_slist_step_refines.

Theorem C19_dlist_step_refines : forall m xs o,
  is_seq pf_d m xs ->
  exists m' r, dl_step m o = Done (m', r) /\
               is_seq pf_d m' (fst (spec_step KD xs o)) /\ proj_ret r = snd (spec_step KD xs o).
Proof.
  intros m xs o [p R]. destruct (dl_step_refines _ _ _ o R) as (m' & p' & r & E & R' & Hr).
  exists m', r. split; [exact E|]. split; [exists p'; exact R'|exact Hr].
Qed.
Print Assumptions C19_dlist_step_refines.

(* the lists are never empty *)
Theorem C19_always_nonempty : forall pf m xs, is_seq pf m xs -> xs <> [].
Proof. exact is_seq_nonempty. Qed.
Print Assumptions C19_always_nonempty.

(* Node handles "obtained from Find immediately before use".  In every state
   that holds a sequence xs, Find of a present value returns a handle — so the
   hypothesis [xx_find m a = Done (m1, Some h)] of the handle theorems below
   is met for EVERY present value, and forces m1 = m — the handle is the
   address of a node that carries the value, and Find leaves the whole heap as
   it was; Find of an absent value returns nil.  (That the handle is the FIRST
   node carrying the value is what the insert / delete theorems say: they
   place / remove relative to the first occurrence.) *)
Theorem C19_slist_find_handle : forall m xs a,
  is_seq pf_s m xs ->
  (In a xs -> exists h nd, sl_find m a = Done (m, Some h) /\ load m h = Some nd /\ val nd = a) /\
  (~ In a xs -> sl_find m a = Done (m, None)).
Proof. exact s_find_handle. Qed.
Print Assumptions C19_slist_find_handle.

Theorem C19_dlist_find_handle : forall m xs a,
  is_seq pf_d m xs ->
  (In a xs -> exists h nd, dl_find m a = Done (m, Some h) /\ load m h = Some nd /\ val nd = a) /\
  (~ In a xs -> dl_find m a = Done (m, None)).
Proof. exact d_find_handle. Qed.
Print Assumptions C19_dlist_find_handle.

(* ---------- SList, method by method ---------- *)

Theorem C19_slist_init : forall v, is_seq pf_s (sl_init v) [v].
Proof. intros v. exists [0%nat]. apply sl_init_rep. Qed.
Print Assumptions C19_slist_init.

Theorem C19_slist_unshift : forall m xs v,
  is_seq pf_s m xs -> exists m', sl_unshift m v = Done m' /\ is_seq pf_s m' (v :: xs).
Proof. exact s_unshift. Qed.
Print Assumptions C19_slist_unshift.

Theorem C19_slist_append : forall m xs v,
  is_seq pf_s m xs -> exists m', sl_append m v = Done m' /\ is_seq pf_s m' (xs ++ [v]).
Proof. exact s_append. Qed.
Print Assumptions C19_slist_append.

(* InsertAfter with the handle Find returned for a: v is placed right after
   the first occurrence of a, nil error; with a nil handle: an error, nothing changes *)
Theorem C19_slist_insert_after : forall m xs a h m1 v,
  is_seq pf_s m xs -> sl_find m a = Done (m1, Some h) ->
  exists m', sl_insert_after m1 (Some h) v = Done (m', e_ok) /\ is_seq pf_s m' (ins_after a v xs).
Proof. exact s_insert_after. Qed.
Print Assumptions C19_slist_insert_after.

Theorem C19_slist_insert_after_nil : forall m v, sl_insert_after m None v = Done (m, e_nil).
Proof. exact sl_insert_after_nil. Qed.
Print Assumptions C19_slist_insert_after_nil.

(* Replace changes the first occurrence, or reports absence and changes nothing *)
Theorem C19_slist_replace : forall m xs a v,
  is_seq pf_s m xs ->
  exists m', sl_replace m a v = Done (m', if mem_z a xs then e_ok else e_notfound) /\
             is_seq pf_s m' (repl_first a v xs) /\
             (mem_z a xs = false -> repl_first a v xs = xs).
Proof.
  intros m xs a v H. destruct (s_replace m xs a v H) as (m' & E & S). exists m'.
  split; [exact E|]. split; [exact S|]. intros Hm. apply repl_first_absent. now apply mem_z_notin.
Qed.
Print Assumptions C19_slist_replace.

(* Delete with the handle Find returned for a removes exactly that (first)
   occurrence, and refuses to remove the only element *)
Theorem C19_slist_delete : forall m xs a h m1,
  is_seq pf_s m xs -> sl_find m a = Done (m1, Some h) ->
  exists m', sl_delete m1 (Some h) = Done (m', if more_than_one xs then e_ok else e_only) /\
             is_seq pf_s m' (if more_than_one xs then remove_first a xs else xs).
Proof. exact s_delete. Qed.
Print Assumptions C19_slist_delete.

Theorem C19_slist_shift : forall m xs,
  is_seq pf_s m xs ->
  exists m', sl_shift m = Done m' /\ is_seq pf_s m' (if more_than_one xs then tl xs else xs).
Proof. exact s_shift. Qed.
Print Assumptions C19_slist_shift.

Theorem C19_slist_pop : forall m xs,
  is_seq pf_s m xs ->
  exists m', sl_pop m = Done m' /\ is_seq pf_s m' (if more_than_one xs then removelast xs else xs).
Proof. exact s_pop. Qed.
Print Assumptions C19_slist_pop.

(* observers: Find and Each leave the WHOLE heap as it was (the head they
   overwrite while iterating is restored), Find answers membership, Each
   yields the sequence front to back *)
Theorem C19_slist_observers_do_not_change : forall m xs a,
  is_seq pf_s m xs ->
  sl_each m = Done (xs, m) /\
  exists r, sl_find m a = Done (m, r) /\ (match r with Some _ => In a xs | None => ~ In a xs end).
Proof. intros m xs a H. split; [apply s_each; exact H | apply s_find; exact H]. Qed.
Print Assumptions C19_slist_observers_do_not_change.

(* ---------- DList, method by method (after the repairs) ---------- *)

Theorem C19_dlist_init : forall v, is_seq pf_d (dl_init v) [v].
Proof. intros v. exists [0%nat]. apply dl_init_rep. Qed.
Print Assumptions C19_dlist_init.

Theorem C19_dlist_unshift : forall m xs v,
  is_seq pf_d m xs -> exists m', dl_unshift m v = Done m' /\ is_seq pf_d m' (v :: xs).
Proof. exact d_unshift. Qed.
Print Assumptions C19_dlist_unshift.

Theorem C19_dlist_append : forall m xs v,
  is_seq pf_d m xs -> exists m', dl_append m v = Done m' /\ is_seq pf_d m' (xs ++ [v]).
Proof. exact d_append. Qed.
Print Assumptions C19_dlist_append.

Theorem C19_dlist_insert_after : forall m xs a h m1 v,
  is_seq pf_d m xs -> dl_find m a = Done (m1, Some h) ->
  exists m', dl_insert_after m1 (Some h) v = Done (m', e_ok) /\ is_seq pf_d m' (ins_after a v xs).
Proof. exact d_insert_after. Qed.
Print Assumptions C19_dlist_insert_after.

Theorem C19_dlist_insert_before : forall m xs a h m1 v,
  is_seq pf_d m xs -> dl_find m a = Done (m1, Some h) ->
  exists m', dl_insert_before m1 (Some h) v = Done (m', e_ok) /\ is_seq pf_d m' (ins_before a v xs).
Proof. exact d_insert_before. Qed.
Print Assumptions C19_dlist_insert_before.

(* a nil handle (Find found nothing): an error, the sequence is unchanged *)
Theorem C19_dlist_insert_nil : forall m xs v,
  is_seq pf_d m xs ->
  dl_insert_after m None v = Done (m, e_nil) /\
  exists m', dl_insert_before m None v = Done (m', e_nil) /\ is_seq pf_d m' xs.
Proof. exact d_insert_nil. Qed.
Print Assumptions C19_dlist_insert_nil.

Theorem C19_dlist_replace : forall m xs a v,
  is_seq pf_d m xs ->
  exists m', dl_replace m a v = Done (m', if mem_z a xs then e_ok else e_notfound) /\
             is_seq pf_d m' (repl_first a v xs) /\
             (mem_z a xs = false -> repl_first a v xs = xs).
Proof.
  intros m xs a v H. destruct (d_replace m xs a v H) as (m' & E & S). exists m'.
  split; [exact E|]. split; [exact S|]. intros Hm. apply repl_first_absent. now apply mem_z_notin.
Qed.
Print Assumptions C19_dlist_replace.

Theorem C19_dlist_delete : forall m xs a h m1,
  is_seq pf_d m xs -> dl_find m a = Done (m1, Some h) ->
  exists m', dl_delete m1 (Some h) = Done (m', if more_than_one xs then e_ok else e_only) /\
             is_seq pf_d m' (if more_than_one xs then remove_first a xs else xs).
Proof. exact d_delete. Qed.
Print Assumptions C19_dlist_delete.

(* Shift removes the first element when more than one remains; on a single
   element it zeroes the value (the text of C19 leaves this case open; the
   returned node [nod] is what queue.LQueue reads — C05) *)
Theorem C19_dlist_shift : forall m xs,
  is_seq pf_d m xs ->
  exists m' nod, dl_shift m = Done (m', nod) /\
                 is_seq pf_d m' (if more_than_one xs then tl xs else [0]).
Proof. exact d_shift. Qed.
Print Assumptions C19_dlist_shift.

Theorem C19_dlist_pop : forall m xs,
  is_seq pf_d m xs ->
  exists m' nod, dl_pop m = Done (m', nod) /\
                 is_seq pf_d m' (if more_than_one xs then removelast xs else xs).
Proof. exact d_pop. Qed.
Print Assumptions C19_dlist_pop.

Theorem C19_dlist_clear : forall m xs,
  is_seq pf_d m xs -> exists m', dl_clear m = Done m' /\ is_seq pf_d m' [hd 0 xs].
Proof. exact d_clear. Qed.
Print Assumptions C19_dlist_clear.

(* observers: Find, First, Last, Each leave the WHOLE heap as it was *)
Theorem C19_dlist_observers_do_not_change : forall m xs a,
  is_seq pf_d m xs ->
  dl_each m = Done (xs, m) /\
  dl_first m = Done (hd 0 xs) /\
  dl_last m = Done (last xs 0, m) /\
  exists r, dl_find m a = Done (m, r) /\ (match r with Some _ => In a xs | None => ~ In a xs end).
Proof.
  intros m xs a H. split; [apply d_each; exact H|]. split; [apply d_first; exact H|].
  split; [apply d_last; exact H | apply d_find; exact H].
Qed.
Print Assumptions C19_dlist_observers_do_not_change.

(* ---------- the hypotheses are satisfiable (non-vacuity) ---------- *)

(* a DList state built by head-replacing edits, with a Find handle on an inner
   node, meets the hypotheses of the handle theorems; deleting through the
   handle gives [3; 4; 2] *)
Example C19_ex_dlist_state :
  exists m h, final_model KD 1 [Append 2; Unshift 3; InsertBefore 1 4] = Done m /\
              is_seq pf_d m [3; 4; 1; 2] /\ dl_find m 1 = Done (m, Some h) /\
              exists m', dl_delete m (Some h) = Done (m', e_ok) /\ is_seq pf_d m' [3; 4; 2].
Proof.
  destruct (reachable_represents KD 1 [Append 2; Unshift 3; InsertBefore 1 4]) as (m & E & R).
  change (spec_final KD 1 [Append 2; Unshift 3; InsertBefore 1 4]) with [3; 4; 1; 2] in R.
  destruct (d_find m _ 1 R) as ([h|] & Hf & Hin); [|exfalso; apply Hin; cbn; tauto].
  exists m, h. split; [exact E|]. split; [exact R|]. split; [exact Hf|].
  exact (d_delete m _ 1 h m R Hf).
Qed.

Example C19_ex_slist_state :
  exists m h, final_model KS 1 [Unshift 2; Append 3; Shift; Unshift 4] = Done m /\
              is_seq pf_s m [4; 1; 3] /\ sl_find m 3 = Done (m, Some h) /\
              exists m', sl_delete m (Some h) = Done (m', e_ok) /\ is_seq pf_s m' [4; 1].
Proof.
  destruct (reachable_represents KS 1 [Unshift 2; Append 3; Shift; Unshift 4]) as (m & E & R).
  change (spec_final KS 1 [Unshift 2; Append 3; Shift; Unshift 4]) with [4; 1; 3] in R.
  destruct (s_find m _ 3 R) as ([h|] & Hf & Hin); [|exfalso; apply Hin; cbn; tauto].
  exists m, h. split; [exact E|]. split; [exact R|]. split; [exact Hf|].
  exact (s_delete m _ 3 h m R Hf).
Qed.

(* values that repeat (outside the property's quantifier, inside every theorem
   above): a Find handle is the FIRST node carrying the value, so InsertAfter,
   Replace and Delete act on the first occurrence and leave the later ones *)
Example C19_ex_duplicates : forall k,
  map (fun o => match o with OStep r vs _ => (proj_ret r, vs) | _ => (RUnsup, []) end)
      (run_model k 1 [Append 2; Append 1; InsertAfter 1 9; Replace 1 7; Delete 1; Delete 1; Unshift 2; Delete 2]) =
  [(RVoid, [1; 2]); (RVoid, [1; 2; 1]); (err_if false, [1; 9; 2; 1]); (err_if false, [7; 9; 2; 1]);
   (err_if false, [7; 9; 2]); (RSkip, [7; 9; 2]); (RVoid, [2; 7; 9; 2]); (err_if false, [7; 9; 2])].
Proof. intros [|]; vm_compute; reflexivity. Qed.

(* the single-element list: Shift and Pop remove nothing (DList.Shift zeroes
   the value), Delete refuses, and the list is usable afterwards *)
Example C19_ex_singleton :
  map (fun o => match o with OStep r vs _ => (proj_ret r, vs) | _ => (RUnsup, []) end)
      (run_model KS 5 [Shift; Pop; Delete 5; Append 6; Pop; Delete 5]) =
    [(RVoid, [5]); (RVoid, [5]); (err_if true, [5]); (RVoid, [5; 6]); (RVoid, [5]); (err_if true, [5])] /\
  map (fun o => match o with OStep r vs _ => (proj_ret r, vs) | _ => (RUnsup, []) end)
      (run_model KD 5 [Pop; Delete 5; Shift; Append 6; Pop; Delete 0; Clear]) =
    [(RVoid, [5]); (err_if true, [5]); (RVoid, [0]); (RVoid, [0; 6]); (RVoid, [0]); (err_if true, [0]); (RVoid, [0])].
Proof. split; vm_compute; reflexivity. Qed.

(* ====================================================================== *)
(* 3. The DList code BEFORE the repairs violates C19 (why the patches exist) *)
(* ====================================================================== *)

(* [run_orig] runs the transcription of the unrepaired Unshift / InsertBefore /
   Delete / Shift (C19_Model.Orig).  Each witness is also in corpus/C19 and
   fails in the same way on the unrepaired Go code. *)

(* Unshift then Delete through the copied node: Delete returns nil and removes nothing *)
Theorem C19_dlist_before_repair_delete_removes_nothing :
  run_orig 1 [Unshift 2; Delete 1] =
    [OStep RVoid [2; 1] (Some (2, 1)); OStep (RErr 0) [2; 1] (Some (2, 1))] /\
  run_spec KD 1 [Unshift 2; Delete 1] =
    [OStep RVoid [2; 1] (Some (2, 1)); OStep (RErr 0) [2] (Some (2, 2))].
Proof. split; vm_compute; reflexivity. Qed.
Print Assumptions C19_dlist_before_repair_delete_removes_nothing.

(* Append, Unshift, Delete of the last node: the middle element is lost as well *)
Theorem C19_dlist_before_repair_element_lost :
  last (run_orig 1 [Append 2; Unshift 3; Delete 2]) OFault = OStep (RErr 0) [3] (Some (3, 3)) /\
  last (run_spec KD 1 [Append 2; Unshift 3; Delete 2]) OFault = OStep (RErr 0) [3; 1] (Some (3, 1)).
Proof. split; vm_compute; reflexivity. Qed.
Print Assumptions C19_dlist_before_repair_element_lost.

(* Shift (or Delete of the head) down to one element, then Delete: nil dereference *)
Theorem C19_dlist_before_repair_nil_dereference :
  last (run_orig 1 [Append 2; Shift; Delete 2]) (OStep RVoid [] None) = OFault /\
  last (run_orig 1 [Append 2; Delete 1; Delete 2]) (OStep RVoid [] None) = OFault.
Proof. split; vm_compute; reflexivity. Qed.
Print Assumptions C19_dlist_before_repair_nil_dereference.

(* Shift (or Delete of the head), then InsertBefore at the head: a cycle — Each never returns *)
Theorem C19_dlist_before_repair_cycle :
  last (run_orig 1 [Append 2; Append 3; Shift; InsertBefore 2 4]) OFault = OHang /\
  last (run_orig 1 [Append 2; Append 3; Delete 1; InsertBefore 2 4]) OFault = OHang.
Proof. split; vm_compute; reflexivity. Qed.
Print Assumptions C19_dlist_before_repair_cycle.

(* InsertBefore at the head leaves the same stale prev pointers as Unshift *)
Theorem C19_dlist_before_repair_insert_before_head :
  last (run_orig 1 [InsertBefore 1 2; Delete 1]) OFault = OStep (RErr 0) [2; 1] (Some (2, 1)) /\
  last (run_spec KD 1 [InsertBefore 1 2; Delete 1]) OFault = OStep (RErr 0) [2] (Some (2, 2)).
Proof. split; vm_compute; reflexivity. Qed.
Print Assumptions C19_dlist_before_repair_insert_before_head.
