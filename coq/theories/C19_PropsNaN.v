(* C19_PropsNaN.v — property C19 for element types whose `==` is NOT the
   identity of values (float64 with NaN and +0/-0, structs with float fields,
   interfaces holding a NaN or a value of a non-comparable dynamic type), stated
   over the generic transcription of C19_ModelNaN.v.  Only statements here;
   proofs are in C19_ProofsNaN.v.

   Vocabulary (in addition to C19_Props.v).
     eq a b           Go's  a == b  on two element values: Some true / Some false,
                      or None when the comparison PANICS (two values of the same
                      non-comparable dynamic type held in an interface).
     go_eq eq         all that is assumed of it: symmetric; transitive; a value
                      that some comparison found equal to something never makes a
                      comparison panic.  NOT assumed: reflexive (NaN), equal
                      implies identical (+0, -0).
     gsplit eq a xs   looking a up in xs front to back: SAt l y r — xs = l ++ y :: r,
                      y the FIRST element with y == a (every element of l was
                      compared and is not == a); SAbsent — no element is == a;
                      SPanic — a comparison on the way panics.
     gspec_step       the list machine: the by-value operations act at gsplit's
                      place (InsertAfter: l ++ y :: v :: r, InsertBefore: l ++ v :: y :: r,
                      Replace: l ++ v :: r, Delete: l ++ r unless it is the only
                      element), report absence on SAbsent, and are None — "the
                      `==` of the language panics" — on SPanic; all other
                      operations are those of C19_Model.spec_step.
     safe_arg eq a    a can be compared with everything (its dynamic type is
                      comparable): no look-up by a panics.

   Every theorem is for ALL eq with go_eq eq.  The two instances: [zeq], the ==
   of ints (C19_nan_conservative: the generic text IS C19_Model's text there, so
   C19_Props.v and this file are about the same code), and [c19eq], the == of the
   element codes the harness sends (C19_nan_codes_eq_ok). *)

From Gogu Require Import Base Mem C19_Model C19_Proofs C19_ProofsSList C19_ProofsDList C19_ProofsHist
  C19_ModelNaN C19_ProofsNaN C19_Wire.
Local Open Scope Z_scope.

(* ====================================================================== *)
(* 1. All histories                                                        *)
(* ====================================================================== *)

(* for both list types, every first element, EVERY operation sequence and
   every value (NaNs, signed zeros, non-comparable values included): each
   call's result, the Each sequence and First/Last after every step are the
   generic list machine's; the history ends in a panic exactly where a look-up
   compares two values whose == panics, and nowhere else *)
Theorem C19_nan_history_refines_spec : forall eq, go_eq eq -> forall k v ops,
  map proj_obs (grun_model eq k v ops) = grun_spec eq k v ops.
Proof. exact ghistory_refines_spec. Qed.
Print Assumptions C19_nan_history_refines_spec.

Theorem C19_nan_checkpointed_history_refines_spec : forall eq, go_eq eq -> forall k v ops,
  map proj_qobs (grunq_model eq k v ops) = grunq_spec eq k v ops.
Proof. exact gcheckpointed_refines_spec. Qed.
Print Assumptions C19_nan_checkpointed_history_refines_spec.

(* "none panics", "always holds a non-empty sequence": when every look-up
   argument of the history can be compared with everything (floats — NaN
   included —, structs of floats, interfaces holding comparable values; the
   ELEMENTS may be anything), every step yields an observation, none is a panic
   or hang marker, every Each sequence is non-empty *)
Theorem C19_nan_no_panic_no_hang_never_empty : forall eq, go_eq eq -> forall k v ops,
  safe_ops eq ops ->
  length (grun_model eq k v ops) = length ops /\
  Forall (fun o => exists r vs fl, o = OStep r vs fl /\ vs <> []) (grun_model eq k v ops).
Proof. exact ghistory_no_panic. Qed.
Print Assumptions C19_nan_no_panic_no_hang_never_empty.

(* every heap reached by a history (that no panicking look-up ended) is an
   acyclic chain from address 0, prev consistent for DList, holding the generic
   machine's sequence, which is non-empty *)
Theorem C19_nan_reachable_heap_is_seq : forall eq, go_eq eq -> forall k v ops xs,
  gspec_final_from eq k [v] ops = Some xs ->
  exists m, gfinal_model eq k v ops = Done m /\ is_seq (pf_of k) m xs /\ xs <> [].
Proof. exact greachable_represents. Qed.
Print Assumptions C19_nan_reachable_heap_is_seq.

(* ====================================================================== *)
(* 2. One step: every operation has exactly its sequence meaning           *)
(* ====================================================================== *)

(* one harness step (Find for the handle, then the call) from ANY heap that
   represents xs: the new heap represents the generic machine's new sequence
   and the result is the generic machine's; it panics iff the machine says the
   look-up's == panics *)
Theorem C19_nan_slist_step_refines : forall eq, go_eq eq -> forall m xs o,
  is_seq pf_s m xs ->
  match gspec_step eq KS xs o with
  | None => gsl_step eq m o = Fault
  | Some (xs', r') => exists m' r, gsl_step eq m o = Done (m', r) /\ is_seq pf_s m' xs' /\ proj_ret r = r'
  end.
Proof.
  intros eq Heq m xs o [p R]. pose proof (gsl_step_refines eq Heq _ _ _ o R) as St.
  destruct (gspec_step eq KS xs o) as [[xs' r']|]; [|exact St].
  destruct St as (m' & p' & r & E & R' & Hr). exists m', r. split; [exact E|]. split; [exists p'; exact R'|exact Hr].
Qed.
Print Assumptions C19_nan_slist_step_refines.

Theorem C19_nan_dlist_step_refines : forall eq, go_eq eq -> forall m xs o,
  is_seq pf_d m xs ->
  match gspec_step eq KD xs o with
  | None => gdl_step eq m o = Fault
  | Some (xs', r') => exists m' r, gdl_step eq m o = Done (m', r) /\ is_seq pf_d m' xs' /\ proj_ret r = r'
  end.
Proof.
  intros eq Heq m xs o [p R]. pose proof (gdl_step_refines eq Heq _ _ _ o R) as St.
  destruct (gspec_step eq KD xs o) as [[xs' r']|]; [|exact St].
  destruct St as (m' & p' & r & E & R' & Hr). exists m', r. split; [exact E|]. split; [exists p'; exact R'|exact Hr].
Qed.
Print Assumptions C19_nan_dlist_step_refines.

(* Unshift, Append, Shift, Pop, First, Last, Clear (and Each, which is part of
   the observation) compare NO element: the generic step and the generic
   machine do not depend on == at all, so C19_Props.C19_{slist,dlist}_unshift,
   _append, _shift, _pop, _observers_do_not_change, C19_dlist_clear hold
   verbatim for lists of NaNs, signed zeros and non-comparable values.  (A
   rewrite of one of them in terms of a by-value look-up breaks this.) *)
Theorem C19_nan_edits_that_compare_nothing : forall eq o,
  op_arg o = None ->
  (forall m, gsl_step eq m o = sl_step m o) /\
  (forall m, gdl_step eq m o = dl_step m o) /\
  (forall k xs, gspec_step eq k xs o = Some (spec_step k xs o)).
Proof.
  intros eq o H. destruct o; cbn in H; try discriminate; repeat split; reflexivity.
Qed.
Print Assumptions C19_nan_edits_that_compare_nothing.

(* "node handles obtained from Find", "Find observes without changing": from
   any heap holding xs, Find leaves the heap as it was and answers with the
   FIRST node whose value is == to the argument (the node carries that value,
   which need not be the argument: Find(-0) answers with a node holding +0),
   with nil when no element is ==, and panics when the comparison does *)
Theorem C19_nan_slist_find_handle : forall eq m xs a,
  is_seq pf_s m xs ->
  match gsplit eq a xs with
  | SPanic => gsl_find eq m a = Fault
  | SAbsent => gsl_find eq m a = Done (m, None)
  | SAt l y r => exists h nd, gsl_find eq m a = Done (m, Some h) /\ load m h = Some nd /\ val nd = y
  end.
Proof. intros eq m xs a. apply g_find_handle. intros p R. apply gsl_find_rep. exact R. Qed.
Print Assumptions C19_nan_slist_find_handle.

Theorem C19_nan_dlist_find_handle : forall eq m xs a,
  is_seq pf_d m xs ->
  match gsplit eq a xs with
  | SPanic => gdl_find eq m a = Fault
  | SAbsent => gdl_find eq m a = Done (m, None)
  | SAt l y r => exists h nd, gdl_find eq m a = Done (m, Some h) /\ load m h = Some nd /\ val nd = y
  end.
Proof. intros eq m xs a. apply g_find_handle. intros p R. apply gdl_find_rep. exact R. Qed.
Print Assumptions C19_nan_dlist_find_handle.

(* what gsplit's answers mean *)
Theorem C19_nan_lookup_meaning : forall eq a xs,
  (forall l y r, gsplit eq a xs = SAt l y r ->
     xs = l ++ y :: r /\ eq y a = Some true /\ Forall (fun x => eq x a = Some false) l) /\
  (gsplit eq a xs = SAbsent <-> Forall (fun x => eq x a = Some false) xs) /\
  (safe_arg eq a -> gsplit eq a xs <> SPanic).
Proof.
  intros eq a xs. split; [|split].
  - intros l y r. apply gsplit_at.
  - apply gsplit_absent.
  - apply gsplit_safe.
Qed.
Print Assumptions C19_nan_lookup_meaning.

(* a value that is not == to itself (a NaN) is never found, wherever and
   however often it occurs in the list: Find reports absence, InsertAfter /
   InsertBefore / Replace return an error, Delete is not reached, and the
   sequence stays as it was *)
Theorem C19_nan_not_self_equal_never_found : forall eq, go_eq eq -> forall a xs,
  eq a a <> Some true -> gsplit eq a xs <> SPanic ->
  gsplit eq a xs = SAbsent /\
  forall k v,
    gspec_step eq k xs (FindOp a) = Some (xs, RFound false) /\
    gspec_step eq k xs (InsertAfter a v) = Some (xs, err_if true) /\
    gspec_step eq KD xs (InsertBefore a v) = Some (xs, err_if true) /\
    gspec_step eq k xs (Replace a v) = Some (xs, err_if true) /\
    gspec_step eq k xs (Delete a) = Some (xs, RSkip).
Proof.
  intros eq Heq a xs Hn Hp.
  assert (G : gsplit eq a xs = SAbsent).
  { destruct (gsplit eq a xs) as [| |l y r] eqn:E; [congruence|reflexivity|].
    destruct (gsplit_at _ _ _ _ _ _ E) as (_ & Hy & _). destruct Heq as (Hs & Ht & _).
    exfalso. apply Hn. eapply Ht; eauto. }
  split; [exact G|]. intros k v. cbn [gspec_step]. rewrite G. repeat split; reflexivity.
Qed.
Print Assumptions C19_nan_not_self_equal_never_found.

(* "no edit loses, duplicates or reorders the other elements": one step of the
   generic machine leaves the sequence as it was, inserts one value at one
   place, removes one element, or changes one element's value *)
Theorem C19_nan_every_edit_touches_one_position : forall eq k xs o xs' r,
  xs <> [] -> o <> Clear -> gspec_step eq k xs o = Some (xs', r) ->
  xs' = xs \/
  (exists l1 l2 x, xs = l1 ++ l2 /\ xs' = l1 ++ x :: l2) \/
  (exists l1 x l2, xs = l1 ++ x :: l2 /\ xs' = l1 ++ l2) \/
  (exists l1 x l2 y, xs = l1 ++ x :: l2 /\ xs' = l1 ++ y :: l2).
Proof.
  intros eq k xs o xs' r Hne Hc H.
  destruct (gspec_step_one_edit eq k xs o xs' r Hne Hc H) as [|l1 l2 x E|l1 x l2 E|l1 x l2 y E].
  - left; reflexivity.
  - right; left. exists l1, l2, x. split; [exact E|reflexivity].
  - right; right; left. exists l1, x, l2. split; [exact E|reflexivity].
  - right; right; right. exists l1, x, l2, y. split; [exact E|reflexivity].
Qed.
Print Assumptions C19_nan_every_edit_touches_one_position.

(* ====================================================================== *)
(* 3. The two instances                                                    *)
(* ====================================================================== *)

(* at the == of ints the generic transcription IS the text of C19_Model.v
   (definitionally), and the generic machine is C19_Model's reference machine:
   the theorems of C19_Props.v and of this file are about the same code *)
Theorem C19_nan_conservative :
  go_eq zeq /\
  (forall m v, gsl_find zeq m v = sl_find m v) /\
  (forall m h v, gsl_insert_after zeq m h v = sl_insert_after m h v) /\
  (forall m a v, gsl_replace zeq m a v = sl_replace m a v) /\
  (forall m h, gsl_delete zeq m h = sl_delete m h) /\
  (forall m v, gdl_find zeq m v = dl_find m v) /\
  (forall m h v, gdl_insert_after zeq m h v = dl_insert_after m h v) /\
  (forall m h v, gdl_insert_before zeq m h v = dl_insert_before m h v) /\
  (forall m a v, gdl_replace zeq m a v = dl_replace m a v) /\
  (forall m h, gdl_delete zeq m h = dl_delete m h) /\
  (forall m o, gsl_step zeq m o = sl_step m o) /\
  (forall m o, gdl_step zeq m o = dl_step m o) /\
  (forall k v ops, grun_model zeq k v ops = run_model k v ops) /\
  (forall k v ops, grunq_model zeq k v ops = runq_model k v ops) /\
  (forall k xs o, gspec_step zeq k xs o = Some (spec_step k xs o)) /\
  (forall k v ops, grun_spec zeq k v ops = run_spec k v ops) /\
  (forall k v ops, grunq_spec zeq k v ops = runq_spec k v ops).
Proof.
  split; [exact go_eq_zeq|].
  repeat split; intros;
    first [ apply gsl_step_z | apply gdl_step_z | apply grun_model_z | apply grunq_model_z
          | apply gspec_step_z | apply grun_spec_z | apply grunq_spec_z | reflexivity ].
Qed.
Print Assumptions C19_nan_conservative.

(* the == of the element codes the harness sends (NaN, -0, two slices, a map,
   ordinary values) satisfies the laws; a code other than the slices and the
   map can be compared with everything *)
Theorem C19_nan_codes_eq_ok :
  go_eq c19eq /\
  (forall a, a <> c_u1 -> a <> c_u2 -> a <> c_u3 -> safe_arg c19eq a) /\
  c19eq c_nan c_nan = Some false /\ c19eq c_nz 0 = Some true /\ c19eq 0 c_nz = Some true /\
  c19eq c_nz c_nz = Some true /\ c19eq c_u1 c_u2 = None /\ c19eq c_u1 c_u1 = None /\
  c19eq c_u1 c_u3 = Some false /\ c19eq c_u3 c_u3 = None /\ c19eq c_u1 5 = Some false.
Proof.
  split; [exact go_eq_c19eq|]. split; [|repeat split; reflexivity].
  intros a H1 H2 H3 x. unfold c19eq, is_slice.
  destruct (Z.eqb_spec a c_u1); [congruence|]. destruct (Z.eqb_spec a c_u2); [congruence|].
  destruct (Z.eqb_spec a c_u3); [congruence|]. cbn [orb andb]. rewrite !andb_false_r. cbn [orb].
  destruct ((x =? c_nan) || (a =? c_nan)); discriminate.
Qed.
Print Assumptions C19_nan_codes_eq_ok.

(* the checker used by ./check on the kinds 12..23 is the generic machine at
   c19eq: on every wire input the model's observation is the specification's *)
Theorem C19_nan_checker_is_spec : forall w, c19_run_nan w = c19_spec_nan w.
Proof.
  intros w. unfold c19_run_nan, c19_spec_nan. destruct (decode_nan w) as [[[k v] ops]|].
  - rewrite <- (ghistory_refines_spec c19eq go_eq_c19eq).
    induction (grun_model c19eq k v ops) as [|o os IH]; [reflexivity|].
    cbn [flat_map map]. rewrite IH. f_equal.
    destruct o as [r vs fl| |]; try reflexivity.
    destruct r; try reflexivity. cbn. destruct (k0 =? 0); reflexivity.
  - destruct (decode_qnan w) as [[[k v] ops]|]; [|reflexivity].
    rewrite <- (gcheckpointed_refines_spec c19eq go_eq_c19eq).
    induction (grunq_model c19eq k v ops) as [|o os IH]; [reflexivity|].
    cbn [flat_map map]. rewrite IH. f_equal.
    destruct o as [r|vs fl| |]; try reflexivity.
    destruct r; try reflexivity. cbn. destruct (k0 =? 0); reflexivity.
Qed.
Print Assumptions C19_nan_checker_is_spec.

(* ====================================================================== *)
(* 4. Non-vacuity: the hypotheses are met, and what the statements say on   *)
(*    the special values                                                   *)
(* ====================================================================== *)

(* a list whose FIRST element is a NaN: Unshift adds at the front all the same
   (the change seeded in round 8 — Unshift through InsertBefore(head) — loses
   the new value here); the NaN is never found, whoever asks *)
Example C19_nan_ex_nan_head :
  grun_model c19eq KD c_nan [Unshift 1; FindOp c_nan; Delete c_nan; Replace c_nan 5; InsertBefore c_nan 5; Shift; Unshift c_nan] =
  [ OStep RVoid [1; c_nan] (Some (1, c_nan));
    OStep (RFound false) [1; c_nan] (Some (1, c_nan));
    OStep RSkip [1; c_nan] (Some (1, c_nan));
    OStep (RErr e_notfound) [1; c_nan] (Some (1, c_nan));
    OStep (RErr e_nil) [1; c_nan] (Some (1, c_nan));
    OStep RVoid [c_nan] (Some (c_nan, c_nan));
    OStep RVoid [c_nan; c_nan] (Some (c_nan, c_nan)) ].
Proof. vm_compute. reflexivity. Qed.

(* +0 and -0: a look-up by either finds the first of the two; the element
   found keeps its own sign, the other one is left alone *)
Example C19_nan_ex_signed_zero :
  grun_model c19eq KS 0 [Append c_nz; FindOp c_nz; InsertAfter c_nz 7; Replace c_nz 8; Delete 0] =
  [ OStep RVoid [0; c_nz] None;
    OStep (RFound true) [0; c_nz] None;
    OStep (RErr e_ok) [0; 7; c_nz] None;
    OStep (RErr e_ok) [8; 7; c_nz] None;
    OStep (RErr e_ok) [8; 7] None ].
Proof. vm_compute. reflexivity. Qed.

(* non-comparable elements: every edit that compares nothing works, a look-up
   by a comparable value walks past them, a look-up by one of them panics when
   it meets its like (and only then) *)
Example C19_nan_ex_uncomparable :
  grun_model c19eq KD c_u1 [Unshift c_u2; Append 3; FindOp 3; Delete 3; Pop; FindOp c_u3; Unshift 4; InsertAfter 4 c_u3; FindOp c_u1] =
  [ OStep RVoid [c_u2; c_u1] (Some (c_u2, c_u1));
    OStep RVoid [c_u2; c_u1; 3] (Some (c_u2, 3));
    OStep (RFound true) [c_u2; c_u1; 3] (Some (c_u2, 3));
    OStep (RErr e_ok) [c_u2; c_u1] (Some (c_u2, c_u1));
    OStep RVoid [c_u2] (Some (c_u2, c_u2));
    OStep (RFound false) [c_u2] (Some (c_u2, c_u2));
    OStep RVoid [4; c_u2] (Some (4, c_u2));
    OStep (RErr e_ok) [4; c_u3; c_u2] (Some (4, c_u2));
    OFault ].
Proof. vm_compute. reflexivity. Qed.

(* the hypothesis of C19_nan_no_panic_no_hang_never_empty is met by histories
   that look NaNs, zeros and ordinary values up in lists holding anything *)
Example C19_nan_ex_safe_ops :
  safe_ops c19eq [Unshift c_u1; Append c_u2; InsertAfter c_nan 1; Replace c_nz c_u1; Delete 0; FindOp 7; InsertBefore 1 c_nan].
Proof.
  intros o a Hin Ha.
  assert (Hs : forall a, a <> c_u1 -> a <> c_u2 -> a <> c_u3 -> safe_arg c19eq a) by apply C19_nan_codes_eq_ok.
  cbn in Hin. repeat (destruct Hin as [<-|Hin]; [cbn in Ha; try discriminate; injection Ha as <-; apply Hs; discriminate|]).
  destruct Hin.
Qed.
