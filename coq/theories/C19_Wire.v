(* C19_Wire.v — wire glue for C19 (no proofs; exercised by the correspondence).

   input  = kind :: init :: concat [code; a; b]          kind 0 = SList, 1 = DList
            codes: 1 Unshift a        2 Append a            3 InsertAfter(Find a, b)
                   4 InsertBefore(Find a, b)   5 Replace(a, b)   6 Delete(Find a)
                   7 Shift   8 Pop   9 Find a   10 First   11 Last   12 Clear
   output = per step:  result ++ enc_zs (Each sequence) ++ [First; Last] (DList only)
            result: [0] nil error / no result      [1;1] an error was returned
                    [0;b] Find found?              [0;v] First / Last
                    [1;2] Delete skipped: Find found no node
                    [1;9] the list type has no such method (nothing called)
            a recovered panic is [2], a hang [3]; either ends the case.

   Checkpointed histories (the "large" stream): kind 2 = SList, 3 = DList, the
   same records plus code 13 = Look.  Per record only the call's result is
   written; a Look writes enc_zs (Each sequence) ++ [First; Last] (DList only).
   Code 13 is not a record of the kinds 0 / 1.

   Instantiations: the lists are generic in a comparable element type.  The
   harness runs the same histories at other element types through an injective
   codec int <-> T and decodes what it sees back to ints; kind + 4 = the same
   at string, kind + 8 = at a comparable struct with a string field (kinds
   4..11).  The model has no element type but Z and ignores the instance: the
   projected observation must not depend on it.

   Element types whose == is not the identity of values (the NaN extension,
   C19_ModelNaN.v): kinds 12..15 = the four record formats at float64, 16..19 at
   struct{X float64; N int}, 20..23 at `any`.  The values on the wire are element
   CODES (C19_ModelNaN.c_nan, c_nz, c_u1, c_u2, c_u3; every other integer an
   ordinary value); these kinds are run by the generic transcription at
   [c19eq] and judged by the generic list machine at [c19eq].  The instance
   (which Go type carries the codes) is again ignored by the model.
   (mirror: harness/c19.go, harness/c19nan.go) *)

From Gogu Require Import Base Mem C19_Model C19_ModelNaN.

Definition op_of (r : list Z) : option op :=
  match r with
  | [c; a; b] =>
      match c with
      | 1 => Some (Unshift a)
      | 2 => Some (Append a)
      | 3 => Some (InsertAfter a b)
      | 4 => Some (InsertBefore a b)
      | 5 => Some (Replace a b)
      | 6 => Some (Delete a)
      | 7 => Some Shift
      | 8 => Some Pop
      | 9 => Some (FindOp a)
      | 10 => Some First
      | 11 => Some Last
      | 12 => Some Clear
      | _ => None
      end
  | _ => None
  end.

Fixpoint ops_of (rs : list (list Z)) : option (list op) :=
  match rs with
  | [] => Some []
  | r :: rs' =>
      match op_of r, ops_of rs' with
      | Some o, Some os => Some (o :: os)
      | _, _ => None
      end
  end.

Definition enc_ret (r : ret) : list Z :=
  match r with
  | RVoid => [0]
  | RErr k => if k =? 0 then [0] else [1; 1]
  | RFound b => 0 :: enc_bool b
  | RVal v => [0; v]
  | RSkip => [1; 2]
  | RUnsup => [1; 9]
  end.

Definition enc_obs (o : obs) : list Z :=
  match o with
  | OStep r vs fl =>
      enc_ret r ++ enc_zs vs ++ match fl with Some (f, l) => [f; l] | None => [] end
  | OFault => [2]
  | OHang => [3]
  end.

(* the list type named by a wire kind: per-step records / checkpointed records,
   at int (0..3), string (4..7) or the struct (8..11) *)
Definition kind_step (k : Z) : option kind :=
  if (k =? 0) || (k =? 4) || (k =? 8) then Some KS
  else if (k =? 1) || (k =? 5) || (k =? 9) then Some KD else None.
Definition kind_look (k : Z) : option kind :=
  if (k =? 2) || (k =? 6) || (k =? 10) then Some KS
  else if (k =? 3) || (k =? 7) || (k =? 11) then Some KD else None.

Definition decode (w : list Z) : option (kind * Z * list op) :=
  match w with
  | k :: v :: rest =>
      match kind_step k, ops_of (chunks 3 rest) with
      | Some kd, Some ops => Some (kd, v, ops)
      | _, _ => None
      end
  | _ => None
  end.

(* checkpointed histories *)
Definition qop_of (r : list Z) : option qop :=
  match r with
  | [13; _; _] => Some QLook
  | _ => match op_of r with Some o => Some (QDo o) | None => None end
  end.

Fixpoint qops_of (rs : list (list Z)) : option (list qop) :=
  match rs with
  | [] => Some []
  | r :: rs' =>
      match qop_of r, qops_of rs' with
      | Some o, Some os => Some (o :: os)
      | _, _ => None
      end
  end.

Definition enc_qobs (o : qobs) : list Z :=
  match o with
  | QRes r => enc_ret r
  | QSeen vs fl => enc_zs vs ++ match fl with Some (f, l) => [f; l] | None => [] end
  | QFault => [2]
  | QHang => [3]
  end.

Definition decode_q (w : list Z) : option (kind * Z * list qop) :=
  match w with
  | k :: v :: rest =>
      match kind_look k, qops_of (chunks 3 rest) with
      | Some kd, Some ops => Some (kd, v, ops)
      | _, _ => None
      end
  | _ => None
  end.

(* the NaN extension: kinds 12..23 *)
Definition kind_step_nan (k : Z) : option kind :=
  if (k =? 12) || (k =? 16) || (k =? 20) then Some KS
  else if (k =? 13) || (k =? 17) || (k =? 21) then Some KD else None.
Definition kind_look_nan (k : Z) : option kind :=
  if (k =? 14) || (k =? 18) || (k =? 22) then Some KS
  else if (k =? 15) || (k =? 19) || (k =? 23) then Some KD else None.

Definition decode_nan (w : list Z) : option (kind * Z * list op) :=
  match w with
  | k :: v :: rest =>
      match kind_step_nan k, ops_of (chunks 3 rest) with
      | Some kd, Some ops => Some (kd, v, ops)
      | _, _ => None
      end
  | _ => None
  end.

Definition decode_qnan (w : list Z) : option (kind * Z * list qop) :=
  match w with
  | k :: v :: rest =>
      match kind_look_nan k, qops_of (chunks 3 rest) with
      | Some kd, Some ops => Some (kd, v, ops)
      | _, _ => None
      end
  | _ => None
  end.

Definition c19_run_nan (w : list Z) : list Z :=
  match decode_nan w with
  | Some (k, v, ops) => flat_map enc_obs (grun_model c19eq k v ops)
  | None =>
      match decode_qnan w with
      | Some (k, v, ops) => flat_map enc_qobs (grunq_model c19eq k v ops)
      | None => wire_error
      end
  end.

Definition c19_spec_nan (w : list Z) : list Z :=
  match decode_nan w with
  | Some (k, v, ops) => flat_map enc_obs (grun_spec c19eq k v ops)
  | None =>
      match decode_qnan w with
      | Some (k, v, ops) => flat_map enc_qobs (grunq_spec c19eq k v ops)
      | None => wire_error
      end
  end.

Definition c19_run (w : list Z) : list Z :=
  match decode w with
  | Some (k, v, ops) => flat_map enc_obs (run_model k v ops)
  | None =>
      match decode_q w with
      | Some (k, v, ops) => flat_map enc_qobs (runq_model k v ops)
      | None => c19_run_nan w
      end
  end.

(* the specification's observation for the same input *)
Definition c19_spec (w : list Z) : list Z :=
  match decode w with
  | Some (k, v, ops) => flat_map enc_obs (run_spec k v ops)
  | None =>
      match decode_q w with
      | Some (k, v, ops) => flat_map enc_qobs (runq_spec k v ops)
      | None => c19_spec_nan w
      end
  end.

Definition c19_agree (w obs : list Z) : bool := zlist_eqb obs (c19_run w).

(* C19 fixes every observable (results, Each sequence, First/Last, no panic,
   no hang) as a function of the history: the property holds on an observation
   iff it is the reference list machine's.  (C19_Props.C19_history_refines_spec
   proves c19_run = c19_spec on decodable inputs, so on the repaired tree
   holds and agree coincide.) *)
Definition c19_holds (w obs : list Z) : bool := zlist_eqb obs (c19_spec w).

(* the unrepaired DList, for the witnesses of C19_Props *)
Definition c19_run_orig (w : list Z) : list Z :=
  match decode w with
  | Some (KD, v, ops) => flat_map enc_obs (run_orig v ops)
  | _ => wire_error
  end.
