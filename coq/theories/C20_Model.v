(* C20_Model.v — timed event systems for func.go: Delay (19-23), the debouncer
   (115-153) and the throttler (156-224, after the repair
   "fix: trailing throttle hands out the extra permission at the trailing edge").

   Time is Z nanoseconds.  The ONLY thing assumed about the Go runtime is the
   timer law, and it is not an axiom: it is the enabling condition of the
   [Fire] events and the clock condition of every event, i.e. a
   well-formedness predicate on event sequences ([*_run init h = Some _]):

     - the clock never goes back          (every event has  t >= now);
     - a timer never fires before its deadline   (Fire needs  t >= deadline);
     - a timer fires at most once, and never after a successful Stop
                                           (Fire needs the timer pending).

   Nothing bounds how LATE a timer fires or a goroutine wakes: that is the
   runtime behaviour the model does not exhibit (C20 is claimed as partial).

   No proofs in this file. *)

From Gogu Require Import Base.
Local Open Scope Z_scope.

(* ====================================================================== *)
(* 1. runtime timers                                                       *)
(* ====================================================================== *)

(* a *time.Timer created by time.AfterFunc(d, f) at instant t:
   deadline t+d, callback payload, pending until it fires or is stopped *)
Record timer := mkTimer {
  tm_id : nat;
  tm_deadline : Z;
  tm_payload : Z;
  tm_pending : bool
}.

(* Timer.Stop: prevents the firing if it has not fired yet *)
Definition tm_stop (tm : timer) : timer :=
  mkTimer (tm_id tm) (tm_deadline tm) (tm_payload tm) false.

(* the runtime may fire [tm] at instant [t] *)
Definition tm_can_fire (tm : timer) (t : Z) : bool :=
  tm_pending tm && (tm_deadline tm <=? t).

(* ====================================================================== *)
(* 2. Delay (func.go:20-23):  t := time.AfterFunc(delay, fn); return t      *)
(* ====================================================================== *)

(* one call of Delay; the caller may Stop the returned timer *)
Inductive levent :=
| LDelay (t w : Z)        (* Delay(w, fn) called at instant t *)
| LStop (t : Z)           (* the returned timer's Stop() *)
| LFire (t : Z).          (* the runtime starts fn *)

Record lstate := mkL {
  l_timer : option timer;
  l_now : Z;
  l_runs : list Z           (* instants at which fn was started, newest first *)
}.

Definition l_init : lstate := mkL None 0 [].

Definition levent_time (e : levent) : Z :=
  match e with LDelay t _ => t | LStop t => t | LFire t => t end.

Definition l_step (s : lstate) (e : levent) : option lstate :=
  if levent_time e <? l_now s then None else
  match e with
  | LDelay t w =>
      match l_timer s with
      | None => Some (mkL (Some (mkTimer 0 (t + w) 0 true)) t (l_runs s))
      | Some _ => None                       (* one Delay per instance of this system *)
      end
  | LStop t =>
      match l_timer s with
      | Some tm => Some (mkL (Some (tm_stop tm)) t (l_runs s))
      | None => None
      end
  | LFire t =>
      match l_timer s with
      | Some tm => if tm_can_fire tm t
                   then Some (mkL (Some (tm_stop tm)) t (t :: l_runs s))
                   else None
      | None => None
      end
  end.

Fixpoint l_run (s : lstate) (h : list levent) : option lstate :=
  match h with
  | [] => Some s
  | e :: h' => match l_step s e with Some s' => l_run s' h' | None => None end
  end.

(* ====================================================================== *)
(* 3. debouncer (func.go:115-153)                                          *)
(* ====================================================================== *)

(* d.timer is the ONE timer the debouncer still refers to.  add() and
   cancel() Stop it before dropping the reference (under d.mu), so a timer
   that is no longer referred to is not pending and enables nothing: it need
   not be remembered.  A fired timer stays referred to (d.timer is not reset
   by the firing), which is harmless: Stop on it does nothing. *)
Record dstate := mkD {
  d_wait : Z;                 (* d.duration *)
  d_timer : option timer;     (* d.timer (nil = None) *)
  d_next : nat;               (* id of the next timer to be created *)
  d_now : Z;
  d_runs : list (Z * Z)       (* (instant, payload) of started callbacks, newest first *)
}.

Definition d_init (wait : Z) : dstate := mkD wait None 0 0 [].

Inductive devent :=
| DCall (t f : Z)             (* debounce(f) at instant t; f identifies the callback *)
| DCancel (t : Z)
| DFire (id : nat) (t : Z).   (* the runtime starts the callback of timer id *)

Definition devent_time (e : devent) : Z :=
  match e with DCall t _ => t | DCancel t => t | DFire _ t => t end.

(* add:  lock; if d.timer != nil { d.timer.Stop() }; d.timer = AfterFunc(d.duration, f); unlock *)
Definition d_add (s : dstate) (t f : Z) : dstate :=
  mkD (d_wait s)
      (Some (mkTimer (d_next s) (t + d_wait s) f true))
      (S (d_next s)) t (d_runs s).

(* cancel: lock; if d.timer != nil { d.timer.Stop(); d.timer = nil }; unlock *)
Definition d_cancel (s : dstate) (t : Z) : dstate :=
  mkD (d_wait s) None (d_next s) t (d_runs s).

Definition d_step (s : dstate) (e : devent) : option dstate :=
  if devent_time e <? d_now s then None else
  match e with
  | DCall t f => Some (d_add s t f)
  | DCancel t => Some (d_cancel s t)
  | DFire id t =>
      match d_timer s with
      | Some tm =>
          if Nat.eqb (tm_id tm) id && tm_can_fire tm t
          then Some (mkD (d_wait s) (Some (tm_stop tm)) (d_next s) t
                         ((t, tm_payload tm) :: d_runs s))
          else None
      | None => None
      end
  end.

Fixpoint d_run (s : dstate) (h : list devent) : option dstate :=
  match h with
  | [] => Some s
  | e :: h' => match d_step s e with Some s' => d_run s' h' | None => None end
  end.

(* a history is complete when the runtime owes no firing *)
Definition d_complete (s : dstate) : bool :=
  match d_timer s with Some tm => negb (tm_pending tm) | None => true end.

(* ====================================================================== *)
(* 4. throttler (func.go:156-224)                                          *)
(* ====================================================================== *)

(* The flags of the struct, without the clock readings.  [k_sched] is the
   deadline of the pending trailing-edge timer (t.scheduled = true), None when
   t.scheduled = false.  The transitions below are shared by the exact timed
   system of this file and by the interval acceptor of C20_Wire.v. *)
Record tcore := mkK {
  k_trailing : bool;
  k_waiting : bool;
  k_stop : bool;
  k_sched : option Z
}.

Definition k_init (trailing : bool) : tcore := mkK trailing false false None.

Definition is_some {A} (o : option A) : bool := match o with Some _ => true | None => false end.

(* Call (func.go:186-209).  [gt] is the outcome of  time.Since(t.last) > t.duration
   and [dl] the deadline of the timer armed by the trailing branch.
     if !t.waiting && !t.scheduled && !t.stop {
        if delta > t.duration { t.waiting = true; Broadcast }
        else if t.trailing    { t.scheduled = true; AfterFunc(t.duration-delta, ...) } } *)
Definition k_call (gt : bool) (dl : Z) (k : tcore) : tcore :=
  if negb (k_waiting k) && negb (is_some (k_sched k)) && negb (k_stop k) then
    if gt then mkK (k_trailing k) true (k_stop k) (k_sched k)
    else if k_trailing k then mkK (k_trailing k) (k_waiting k) (k_stop k) (Some dl)
    else k
  else k.

(* the trailing-edge timer's function:  lock; scheduled = false; waiting = true; Broadcast; unlock *)
Definition k_fire (k : tcore) : tcore :=
  mkK (k_trailing k) true (k_stop k) None.

(* Next (func.go:212-226): the loop  for !t.waiting && !t.stop { t.cond.Wait() }
   is left exactly when waiting || stop.  Every assignment that makes this
   condition true (Call's first branch, the timer function, Cancel) broadcasts
   in the same critical section and sync.Cond loses no wake-up, so a blocked
   Next can leave the loop exactly when the condition holds. *)
Definition k_next_enabled (k : tcore) : bool := k_waiting k || k_stop k.

(* after the loop:  if !t.stop { t.waiting = false; t.last = time.Now() }; return !t.stop *)
Definition k_next_result (k : tcore) : bool := negb (k_stop k).
Definition k_next_leave (k : tcore) : tcore :=
  if k_stop k then k else mkK (k_trailing k) false (k_stop k) (k_sched k).

(* Cancel (func.go:229-235): stop = true; Broadcast *)
Definition k_cancel (k : tcore) : tcore :=
  mkK (k_trailing k) (k_waiting k) true (k_sched k).

(* --- the exact timed system --- *)

Record tstate := mkT {
  t_d : Z;                    (* t.duration *)
  t_core : tcore;
  t_last : option Z;          (* t.last; None = the zero time.Time of a fresh throttler *)
  t_active : list nat;        (* calls of Next that have started and not returned *)
  t_now : Z
}.

Definition t_init (d : Z) (trailing : bool) : tstate :=
  mkT d (k_init trailing) None [] 0.

Inductive tevent :=
| TCall (t : Z)
| TNextStart (id : nat) (t : Z)
| TNextReturn (id : nat) (t : Z) (b : bool)
| TFire (t : Z)               (* the trailing-edge timer's function runs *)
| TCancel (t : Z).

Definition tevent_time (e : tevent) : Z :=
  match e with
  | TCall t => t | TNextStart _ t => t | TNextReturn _ t _ => t | TFire t => t | TCancel t => t
  end.

Fixpoint mem_nat (x : nat) (l : list nat) : bool :=
  match l with [] => false | y :: l' => Nat.eqb x y || mem_nat x l' end.
Fixpoint remove_nat (x : nat) (l : list nat) : list nat :=
  match l with [] => [] | y :: l' => if Nat.eqb x y then remove_nat x l' else y :: remove_nat x l' end.

(* time.Since(t.last) > t.duration; the zero t.last of a fresh throttler is
   centuries in the past: the subtraction saturates and the test succeeds *)
Definition t_gt (s : tstate) (t : Z) : bool :=
  match t_last s with None => true | Some l => t - l >? t_d s end.

(* the timer is armed for  t.duration - delta  after the instant of Call, i.e.
   for  last + duration  (or a little later: the clock is read twice); the
   model takes the earliest instant, which only adds behaviours *)
Definition t_deadline (s : tstate) : Z :=
  match t_last s with None => 0 | Some l => l + t_d s end.

Definition t_step (s : tstate) (e : tevent) : option tstate :=
  if tevent_time e <? t_now s then None else
  match e with
  | TCall t =>
      Some (mkT (t_d s) (k_call (t_gt s t) (t_deadline s) (t_core s)) (t_last s) (t_active s) t)
  | TNextStart id t =>
      if mem_nat id (t_active s) then None
      else Some (mkT (t_d s) (t_core s) (t_last s) (id :: t_active s) t)
  | TNextReturn id t b =>
      if mem_nat id (t_active s) && k_next_enabled (t_core s) && Bool.eqb b (k_next_result (t_core s))
      then Some (mkT (t_d s) (k_next_leave (t_core s))
                     (if b then Some t else t_last s)
                     (remove_nat id (t_active s)) t)
      else None
  | TFire t =>
      match k_sched (t_core s) with
      | Some dl => if dl <=? t
                   then Some (mkT (t_d s) (k_fire (t_core s)) (t_last s) (t_active s) t)
                   else None
      | None => None
      end
  | TCancel t =>
      Some (mkT (t_d s) (k_cancel (t_core s)) (t_last s) (t_active s) t)
  end.

Fixpoint t_run (s : tstate) (h : list tevent) : option tstate :=
  match h with
  | [] => Some s
  | e :: h' => match t_step s e with Some s' => t_run s' h' | None => None end
  end.

(* instants of the permissions (Next returning true), in history order *)
Fixpoint grants (h : list tevent) : list Z :=
  match h with
  | [] => []
  | TNextReturn _ t true :: h' => t :: grants h'
  | _ :: h' => grants h'
  end.

(* consecutive elements at least [gap] apart (strictly more when [strict]) *)
Fixpoint spaced (strict : bool) (gap : Z) (l : list Z) : Prop :=
  match l with
  | [] => True
  | x :: l' =>
      match l' with
      | [] => True
      | y :: _ => (if strict then y - x > gap else y - x >= gap) /\ spaced strict gap l'
      end
  end.

(* --- the throttler BEFORE the repair (for the refutation only):
       } else if t.trailing { t.waiting = true; AfterFunc(d-delta, Broadcast) } --- *)
Definition k_call_orig (gt : bool) (k : tcore) : tcore :=
  if negb (k_waiting k) && negb (k_stop k) then
    if gt then mkK (k_trailing k) true (k_stop k) (k_sched k)
    else if k_trailing k then mkK (k_trailing k) true (k_stop k) (k_sched k)
    else k
  else k.

Definition t_step_orig (s : tstate) (e : tevent) : option tstate :=
  match e with
  | TCall t =>
      if t <? t_now s then None else
      Some (mkT (t_d s) (k_call_orig (t_gt s t) (t_core s)) (t_last s) (t_active s) t)
  | _ => t_step s e
  end.

Fixpoint t_run_orig (s : tstate) (h : list tevent) : option tstate :=
  match h with
  | [] => Some s
  | e :: h' => match t_step_orig s e with Some s' => t_run_orig s' h' | None => None end
  end.

(* ====================================================================== *)
(* 5. vocabulary of the theorem statements                                 *)
(* ====================================================================== *)

(* number of debounce calls in a history = id of the timer the next call creates *)
Fixpoint ncalls (h : list devent) : nat :=
  match h with
  | [] => O
  | DCall _ _ :: h' => S (ncalls h')
  | _ :: h' => ncalls h'
  end.

Definition d_is_fire (e : devent) : bool :=
  match e with DFire _ _ => true | _ => false end.
Definition d_is_call (e : devent) : bool :=
  match e with DCall _ _ => true | _ => false end.

(* the callbacks a history starts, oldest first, read off the events alone:
   a firing runs the function of the Call right before it ([prev] = function
   of the pending call, None after a Cancel or a firing) *)
Fixpoint d_fire_log (prev : option Z) (h : list devent) : list (Z * Z) :=
  match h with
  | [] => []
  | DCall _ f :: h' => d_fire_log (Some f) h'
  | DCancel _ :: h' => d_fire_log None h'
  | DFire _ t :: h' =>
      match prev with Some f => (t, f) :: d_fire_log None h' | None => d_fire_log None h' end
  end.

(* bursts of a history: maximal blocks of consecutive Calls, i.e. each call of
   the block arrives while the previous one's timer has not fired (a firing or
   a Cancel ends the block) *)
Fixpoint bursts_from (in_burst : bool) (h : list devent) : nat :=
  match h with
  | [] => O
  | DCall _ _ :: h' => ((if in_burst then 0 else 1) + bursts_from true h')%nat
  | _ :: h' => bursts_from false h'
  end.
Definition bursts (h : list devent) : nat := bursts_from false h.

Definition l_is_stop (e : levent) : bool :=
  match e with LStop _ => true | _ => false end.
Definition l_is_fire (e : levent) : bool :=
  match e with LFire _ => true | _ => false end.

(* the most recent permission of a history *)
Definition last_grant (h : list tevent) : option Z :=
  match rev (grants h) with [] => None | g :: _ => Some g end.

Definition t_is_fire (e : tevent) : bool :=
  match e with TFire _ => true | _ => false end.
Definition t_is_call (e : tevent) : bool :=
  match e with TCall _ => true | _ => false end.
Definition t_is_cancel (e : tevent) : bool :=
  match e with TCancel _ => true | _ => false end.

(* number of triggers (Call) of a history *)
Fixpoint tcalls (h : list tevent) : nat :=
  match h with
  | [] => O
  | TCall _ :: h' => S (tcalls h')
  | _ :: h' => tcalls h'
  end.

(* a permission is owed: a trigger has been accepted and not yet consumed *)
Definition k_owed (k : tcore) : bool := k_waiting k || is_some (k_sched k).
