(* C20_Proofs.v — lemmas for C20: invariants of the timed systems of
   C20_Model.v over all well-formed event sequences. *)
From Gogu Require Import Base C20_Model.
Local Open Scope Z_scope.

(* ====================================================================== *)
(* Delay                                                                   *)
(* ====================================================================== *)

Lemma l_run_app : forall h1 h2 s,
  l_run s (h1 ++ h2) = match l_run s h1 with Some s1 => l_run s1 h2 | None => None end.
Proof.
  induction h1 as [|e h1 IH]; intros h2 s; cbn; [reflexivity|].
  destruct (l_step s e); [apply IH | reflexivity].
Qed.

(* what a state reached after Delay(t, w) looks like *)
Definition l_inv (t w : Z) (s : lstate) : Prop :=
  exists tm, l_timer s = Some tm /\ tm_deadline tm = t + w /\
  (forall r, In r (l_runs s) -> r >= t + w) /\
  (if tm_pending tm then l_runs s = [] else (length (l_runs s) <= 1)%nat).

Lemma l_inv_step : forall t w s e s',
  l_inv t w s -> l_step s e = Some s' -> l_inv t w s'.
Proof.
  intros t w s e s' (tm & Htm & Hdl & Hr & Hp) Hs.
  unfold l_step in Hs. destruct (levent_time e <? l_now s); [discriminate|].
  rewrite Htm in Hs. destruct e as [t' w'|t'|t'].
  - discriminate.
  - injection Hs as <-. exists (tm_stop tm). cbn. repeat split; auto.
    destruct (tm_pending tm); [rewrite Hp; cbn; lia | exact Hp].
  - unfold tm_can_fire in Hs. destruct (tm_pending tm) eqn:Hpe; cbn in Hs; [|discriminate].
    destruct (tm_deadline tm <=? t') eqn:Hd; [|discriminate].
    injection Hs as <-. exists (tm_stop tm). cbn. repeat split; auto.
    + intros r [<-|H1]; [apply Z.leb_le in Hd; lia | auto].
    + rewrite Hp. cbn. lia.
Qed.

Lemma l_inv_run : forall t w h s s',
  l_inv t w s -> l_run s h = Some s' -> l_inv t w s'.
Proof.
  intros t w h. induction h as [|e h IH]; intros s s' Hi Hr; cbn in Hr.
  - injection Hr as <-. exact Hi.
  - destruct (l_step s e) as [s1|] eqn:Hs; [|discriminate].
    eapply IH; [eapply l_inv_step; eauto | exact Hr].
Qed.

Definition l_after_delay (t w : Z) : lstate := mkL (Some (mkTimer 0 (t + w) 0 true)) t [].

Lemma l_first : forall t w h s,
  l_run l_init (LDelay t w :: h) = Some s ->
  l_inv t w (l_after_delay t w) /\ l_run (l_after_delay t w) h = Some s.
Proof.
  intros t w h s Hr. simpl in Hr. unfold l_step in Hr. simpl in Hr.
  destruct (t <? 0); [discriminate|].
  split; [|exact Hr].
  eexists. cbn. repeat split; auto. intros r [].
Qed.

Lemma delay_never_early_l : forall t w h s r,
  l_run l_init (LDelay t w :: h) = Some s -> In r (l_runs s) -> r >= t + w.
Proof.
  intros t w h s r Hr Hin. destruct (l_first _ _ _ _ Hr) as (Hi & Hr1).
  destruct (l_inv_run _ _ _ _ _ Hi Hr1) as (tm & _ & _ & Hb & _). auto.
Qed.

Lemma delay_at_most_once_l : forall t w h s,
  l_run l_init (LDelay t w :: h) = Some s -> (length (l_runs s) <= 1)%nat.
Proof.
  intros t w h s Hr. destruct (l_first _ _ _ _ Hr) as (Hi & Hr1).
  destruct (l_inv_run _ _ _ _ _ Hi Hr1) as (tm & _ & _ & _ & Hp).
  destruct (tm_pending tm); [rewrite Hp; cbn; lia | exact Hp].
Qed.

(* once the timer is not pending nothing fires any more *)
Lemma l_no_fire_when_stopped : forall h s s',
  (exists tm, l_timer s = Some tm /\ tm_pending tm = false) ->
  l_run s h = Some s' -> forallb (fun e => negb (l_is_fire e)) h = true /\ l_runs s' = l_runs s.
Proof.
  induction h as [|e h IH]; intros s s' (tm & Htm & Hnp) Hr; cbn in Hr.
  - injection Hr as <-. auto.
  - destruct (l_step s e) as [s1|] eqn:Hs; [|discriminate].
    unfold l_step in Hs. destruct (levent_time e <? l_now s); [discriminate|].
    rewrite Htm in Hs.
    destruct e as [t' w'|t'|t']; [discriminate| |].
    + injection Hs as <-. cbn.
      destruct (IH (mkL (Some (tm_stop tm)) t' (l_runs s)) s') as [Ha Hb];
        [cbn; eexists; split; reflexivity | exact Hr | ].
      cbn in Hb. split; [exact Ha | exact Hb].
    + unfold tm_can_fire in Hs. rewrite Hnp in Hs. discriminate.
Qed.

Lemma delay_none_after_stop_l : forall t w h1 ts h2 s,
  l_run l_init (LDelay t w :: h1 ++ LStop ts :: h2) = Some s ->
  forallb (fun e => negb (l_is_fire e)) h2 = true /\
  (forall s1, l_run l_init (LDelay t w :: h1) = Some s1 -> l_runs s = l_runs s1).
Proof.
  intros t w h1 ts h2 s Hr.
  change (LDelay t w :: h1 ++ LStop ts :: h2) with ((LDelay t w :: h1) ++ LStop ts :: h2) in Hr.
  rewrite l_run_app in Hr.
  destruct (l_run l_init (LDelay t w :: h1)) as [s1|] eqn:H1; [|discriminate].
  cbn [l_run] in Hr. destruct (l_step s1 (LStop ts)) as [s2|] eqn:H2; [|discriminate].
  unfold l_step in H2. destruct (levent_time (LStop ts) <? l_now s1); [discriminate|].
  destruct (l_timer s1) as [tm|]; [|discriminate]. injection H2 as <-.
  destruct (l_no_fire_when_stopped h2 (mkL (Some (tm_stop tm)) ts (l_runs s1)) s) as [Ha Hb]; [| exact Hr |].
  - cbn. eexists; split; reflexivity.
  - split; [exact Ha|]. intros s1' [= <-]. exact Hb.
Qed.

(* complete history (the runtime owes nothing) without Stop: fn did run *)
Lemma l_no_stop_pending_or_ran : forall t w h s s',
  l_inv t w s -> (forall tm, l_timer s = Some tm -> tm_pending tm = false -> length (l_runs s) = 1%nat) ->
  forallb (fun e => negb (l_is_stop e)) h = true ->
  l_run s h = Some s' ->
  (forall tm, l_timer s' = Some tm -> tm_pending tm = false -> length (l_runs s') = 1%nat).
Proof.
  intros t w h. induction h as [|e h IH]; intros s s' Hi Hone Hns Hr; cbn in Hr.
  - injection Hr as <-. exact Hone.
  - destruct (l_step s e) as [s1|] eqn:Hs; [|discriminate].
    cbn in Hns. apply andb_prop in Hns as [He Hns].
    apply (IH s1 s'); [eapply l_inv_step; eauto | | exact Hns | exact Hr].
    destruct Hi as (tm & Htm & _ & _ & Hp).
    unfold l_step in Hs. destruct (levent_time e <? l_now s); [discriminate|].
    rewrite Htm in Hs. destruct e as [t' w'|t'|t']; [discriminate|discriminate|].
    unfold tm_can_fire in Hs. destruct (tm_pending tm) eqn:Hpe; cbn in Hs; [|discriminate].
    destruct (tm_deadline tm <=? t'); [|discriminate]. injection Hs as <-.
    cbn. intros _ _ _. rewrite Hp. reflexivity.
Qed.

Lemma delay_eventually_l : forall t w h s,
  l_run l_init (LDelay t w :: h) = Some s ->
  forallb (fun e => negb (l_is_stop e)) h = true ->
  (forall tm, l_timer s = Some tm -> tm_pending tm = false) ->
  exists r, l_runs s = [r] /\ r >= t + w.
Proof.
  intros t w h s Hr Hns Hc. destruct (l_first _ _ _ _ Hr) as (Hi & Hr1).
  pose proof (l_inv_run _ _ _ _ _ Hi Hr1) as (tm & Htm & _ & Hb & _).
  assert (Hlen : length (l_runs s) = 1%nat).
  { destruct (l_timer s) as [tm'|] eqn:Htm'; [|discriminate].
    eapply (l_no_stop_pending_or_ran t w h _ s Hi); eauto.
    cbn. intros tm1 [= <-]. cbn. discriminate. }
  destruct (l_runs s) as [|r [|r' l]] eqn:E; cbn in Hlen; try lia.
  exists r. split; [reflexivity|]. apply Hb. now left.
Qed.

(* ====================================================================== *)
(* Debounce                                                                *)
(* ====================================================================== *)

Lemma d_run_app : forall h1 h2 s,
  d_run s (h1 ++ h2) = match d_run s h1 with Some s1 => d_run s1 h2 | None => None end.
Proof.
  induction h1 as [|e h1 IH]; intros h2 s; cbn; [reflexivity|].
  destruct (d_step s e); [apply IH | reflexivity].
Qed.

Lemma d_run_snoc : forall h e s,
  d_run s (h ++ [e]) = match d_run s h with Some s1 => d_step s1 e | None => None end.
Proof.
  intros h e s. rewrite d_run_app. destruct (d_run s h) as [s1|]; [|reflexivity].
  cbn. destruct (d_step s1 e); reflexivity.
Qed.

Lemma ncalls_app : forall h1 h2, ncalls (h1 ++ h2) = (ncalls h1 + ncalls h2)%nat.
Proof.
  induction h1 as [|e h1 IH]; intros h2; cbn; [reflexivity|].
  destruct e; cbn; rewrite IH; reflexivity.
Qed.

(* the invariant: a timer is pending only right after the Call that created
   it, and then carries that call's deadline, id and payload *)
Definition d_inv (wait : Z) (h : list devent) (s : dstate) : Prop :=
  d_wait s = wait /\ d_next s = ncalls h /\
  (forall tm, d_timer s = Some tm -> tm_pending tm = true ->
     exists h0 tc f, h = h0 ++ [DCall tc f] /\ tm_deadline tm = tc + wait /\
                     tm_id tm = ncalls h0 /\ tm_payload tm = f /\ d_now s = tc).

Lemma d_inv_run : forall wait h s, d_run (d_init wait) h = Some s -> d_inv wait h s.
Proof.
  intros wait h. induction h as [|e h IH] using rev_ind; intros s Hr.
  - cbn in Hr. injection Hr as <-. repeat split; auto. cbn. discriminate.
  - rewrite d_run_snoc in Hr. destruct (d_run (d_init wait) h) as [s1|] eqn:H1; [|discriminate].
    destruct (IH s1 eq_refl) as (Hw & Hn & Hp).
    unfold d_step in Hr. destruct (devent_time e <? d_now s1); [discriminate|].
    destruct e as [t f|t|id t].
    + injection Hr as <-. unfold d_inv. cbn. rewrite ncalls_app. cbn.
      repeat split; auto; try lia.
      intros tm [= <-] _. exists h, t, f. cbn. repeat split; auto. congruence.
    + injection Hr as <-. unfold d_inv. cbn. rewrite ncalls_app. cbn.
      repeat split; auto; try lia. discriminate.
    + destruct (d_timer s1) as [tm|]; [|discriminate].
      destruct (Nat.eqb (tm_id tm) id && tm_can_fire tm t); [|discriminate].
      injection Hr as <-. unfold d_inv. cbn. rewrite ncalls_app. cbn.
      repeat split; auto; try lia. intros tm' [= <-]. cbn. discriminate.
Qed.

(* the event right before a firing is the Call that armed the timer *)
Lemma debounce_fire_follows_its_call_l : forall wait h1 id t h2 s,
  d_run (d_init wait) (h1 ++ DFire id t :: h2) = Some s ->
  exists h0 tc f, h1 = h0 ++ [DCall tc f] /\ t >= tc + wait /\ id = ncalls h0.
Proof.
  intros wait h1 id t h2 s Hr. rewrite d_run_app in Hr.
  destruct (d_run (d_init wait) h1) as [s1|] eqn:H1; [|discriminate].
  destruct (d_inv_run _ _ _ H1) as (_ & _ & Hp).
  cbn [d_run] in Hr. destruct (d_step s1 (DFire id t)) as [s2|] eqn:H2; [|discriminate].
  unfold d_step in H2. destruct (devent_time (DFire id t) <? d_now s1); [discriminate|].
  destruct (d_timer s1) as [tm|]; [|discriminate].
  destruct (Nat.eqb (tm_id tm) id) eqn:Hid; cbn in H2; [|discriminate].
  unfold tm_can_fire in H2. destruct (tm_pending tm) eqn:Hpe; cbn in H2; [|discriminate].
  destruct (tm_deadline tm <=? t) eqn:Hd; [|discriminate].
  destruct (Hp tm eq_refl Hpe) as (h0 & tc & f & E & Hdl & Hi & _).
  exists h0, tc, f. apply Nat.eqb_eq in Hid. apply Z.leb_le in Hd. repeat split; auto; lia.
Qed.

(* event times never decrease along a well-formed history *)
Lemma d_times_ge : forall h s s', d_run s h = Some s' ->
  d_now s <= d_now s' /\ forall e, In e h -> d_now s <= devent_time e <= d_now s'.
Proof.
  induction h as [|e h IH]; intros s s' Hr; cbn in Hr.
  - injection Hr as <-. split; [lia | intros e []].
  - destruct (d_step s e) as [s1|] eqn:Hs; [|discriminate].
    destruct (IH _ _ Hr) as [H1 H2].
    assert (Hn : d_now s <= devent_time e /\ d_now s1 = devent_time e).
    { unfold d_step in Hs. destruct (devent_time e <? d_now s) eqn:Hlt; [discriminate|].
      apply Z.ltb_ge in Hlt. split; [exact Hlt|].
      destruct e as [t f|t|id t]; cbn in *.
      - injection Hs as <-. reflexivity.
      - injection Hs as <-. reflexivity.
      - destruct (d_timer s); [|discriminate].
        destruct (_ && _); [|discriminate]. injection Hs as <-. reflexivity. }
    destruct Hn as [Hn1 Hn2]. split; [lia|].
    intros e' [<-|Hin]; [lia|]. specialize (H2 e' Hin). lia.
Qed.

(* a Call superseded or cancelled less than wait after it never runs *)
Lemma debounce_superseded_never_runs_l : forall wait h0 tc f h1 e h2 s,
  d_run (d_init wait) (h0 ++ DCall tc f :: h1 ++ e :: h2) = Some s ->
  d_is_fire e = false -> devent_time e < tc + wait ->
  forall t, ~ In (DFire (ncalls h0) t) (h1 ++ e :: h2).
Proof.
  intros wait h0 tc f h1 e h2 s Hr He Hlt t Hin.
  apply in_split in Hin as (ha & hb & E).
  (* the firing sits right after its own call *)
  assert (Hr' := Hr). rewrite E in Hr'.
  replace (h0 ++ DCall tc f :: ha ++ DFire (ncalls h0) t :: hb)
    with ((h0 ++ DCall tc f :: ha) ++ DFire (ncalls h0) t :: hb) in Hr'
    by (rewrite <- app_assoc; reflexivity).
  destruct (debounce_fire_follows_its_call_l _ _ _ _ _ _ Hr') as (h0' & tc' & f' & E1 & Ht & Hid).
  (* ids are positions: the call is this one, hence ha = [] *)
  assert (Hha : ha = [] /\ tc' = tc).
  { destruct ha as [|x ha] using rev_ind.
    - cbn in E1. apply app_inj_tail in E1 as [_ E2]. injection E2 as -> _. auto.
    - exfalso. clear IHha.
      replace (h0 ++ DCall tc f :: ha ++ [x]) with ((h0 ++ DCall tc f :: ha) ++ [x]) in E1
        by (rewrite <- app_assoc; reflexivity).
      apply app_inj_tail in E1 as [E2 _]. rewrite <- E2 in Hid.
      rewrite ncalls_app in Hid. cbn in Hid. lia. }
  destruct Hha as [-> ->]. cbn in E.
  (* so the firing is the first event after the call; e comes at or after it *)
  assert (He' : In e (DFire (ncalls h0) t :: hb)) by (rewrite <- E; apply in_elt).
  destruct He' as [<-|He']; [cbn in He; discriminate|].
  rewrite E in Hr. rewrite d_run_app in Hr.
  destruct (d_run (d_init wait) h0) as [s0|]; [|discriminate].
  cbn [d_run] in Hr. destruct (d_step s0 (DCall tc f)) as [s1|]; [|discriminate].
  destruct (d_step s1 (DFire (ncalls h0) t)) as [s2|] eqn:H2; [|discriminate].
  destruct (d_times_ge _ _ _ Hr) as [_ Hall]. specialize (Hall e He').
  assert (d_now s2 = t).
  { unfold d_step in H2. destruct (_ <? _); [discriminate|]. destruct (d_timer s1); [|discriminate].
    destruct (_ && _); [|discriminate]. injection H2 as <-. reflexivity. }
  lia.
Qed.

(* the runs recorded in the state are exactly the firings of the history *)
(* [d_fire_log] is defined in C20_Model.v *)

Lemma d_runs_log_gen : forall h s s',
  d_run s h = Some s' ->
  d_runs s' = rev (d_fire_log (match d_timer s with
                               | Some tm => if tm_pending tm then Some (tm_payload tm) else None
                               | None => None end) h) ++ d_runs s.
Proof.
  induction h as [|e h IH]; intros s s' Hr; cbn in Hr.
  - injection Hr as <-. reflexivity.
  - destruct (d_step s e) as [s1|] eqn:Hs; [|discriminate].
    rewrite (IH _ _ Hr). unfold d_step in Hs. destruct (_ <? _); [discriminate|].
    destruct e as [t f|t|id t].
    + injection Hs as <-. reflexivity.
    + injection Hs as <-. reflexivity.
    + destruct (d_timer s) as [tm|]; [|discriminate].
      destruct (Nat.eqb (tm_id tm) id); cbn in Hs; [|discriminate].
      unfold tm_can_fire in Hs. destruct (tm_pending tm); cbn in Hs; [|discriminate].
      destruct (_ <=? _); [|discriminate]. injection Hs as <-. cbn.
      rewrite <- app_assoc. reflexivity.
Qed.

Lemma d_runs_log : forall wait h s,
  d_run (d_init wait) h = Some s -> d_runs s = rev (d_fire_log None h).
Proof.
  intros wait h s Hr. rewrite (d_runs_log_gen _ _ _ Hr). cbn. apply app_nil_r.
Qed.

(* complete history whose last Call is not followed by a Cancel: that call's
   callback ran, as the last event, no sooner than wait after the call *)
Lemma debounce_eventually_l : forall wait h0 tc f h1 s,
  d_run (d_init wait) (h0 ++ DCall tc f :: h1) = Some s ->
  forallb d_is_fire h1 = true ->
  d_complete s = true ->
  exists t, h1 = [DFire (ncalls h0) t] /\ t >= tc + wait /\ In (t, f) (d_runs s).
Proof.
  intros wait h0 tc f h1 s Hr Hq Hc.
  destruct h1 as [|e h1].
  - (* no firing yet: the timer is still pending, the history is not complete *)
    exfalso. rewrite d_run_app in Hr. destruct (d_run (d_init wait) h0) as [s0|]; [|discriminate].
    cbn in Hr. unfold d_step in Hr. destruct (_ <? _); [discriminate|]. injection Hr as <-.
    cbn in Hc. discriminate.
  - cbn in Hq. apply andb_prop in Hq as [He Hq]. destruct e as [| |id t]; try discriminate.
    assert (Hr' := Hr).
    replace (h0 ++ DCall tc f :: DFire id t :: h1) with ((h0 ++ [DCall tc f]) ++ DFire id t :: h1) in Hr'
      by (rewrite <- app_assoc; reflexivity).
    destruct (debounce_fire_follows_its_call_l _ _ _ _ _ _ Hr') as (h0' & tc' & f' & E & Ht & Hid).
    apply app_inj_tail in E as [<- E2]. injection E2 as <- <-.
    (* nothing can follow: a second firing would need another Call *)
    destruct h1 as [|e' h1].
    + exists t. subst id. repeat split; auto.
      rewrite (d_runs_log _ _ _ Hr).
      assert (Hlog : forall p h, d_fire_log p (h ++ [DCall tc f; DFire (ncalls h0) t]) =
                                 d_fire_log p h ++ [(t, f)]).
      { intros p h; revert p; induction h as [|x h IHh]; intros p; cbn; [reflexivity|].
        destruct x; [apply IHh | apply IHh | destruct p; cbn; rewrite IHh; reflexivity]. }
      rewrite Hlog, rev_app_distr. cbn. now left.
    + exfalso. cbn in Hq. apply andb_prop in Hq as [He' _].
      destruct e' as [| |id' t']; try discriminate.
      replace (h0 ++ DCall tc f :: DFire id t :: DFire id' t' :: h1)
        with ((h0 ++ [DCall tc f; DFire id t]) ++ DFire id' t' :: h1) in Hr
        by (rewrite <- app_assoc; reflexivity).
      destruct (debounce_fire_follows_its_call_l _ _ _ _ _ _ Hr) as (h0' & tc' & f' & E & _).
      replace (h0 ++ [DCall tc f; DFire id t]) with ((h0 ++ [DCall tc f]) ++ [DFire id t]) in E
        by (rewrite <- app_assoc; reflexivity).
      apply app_inj_tail in E as [_ E2]. discriminate.
Qed.
