(* C20_Proofs2.v — further lemmas for C20: the remaining debounce clauses and
   the throttler (invariant of the timed system of C20_Model.v §4 over all
   well-formed event sequences). *)
From Gogu Require Import Base C20_Model C20_Proofs.
Local Open Scope Z_scope.

(* ====================================================================== *)
(* Debounce, continued                                                     *)
(* ====================================================================== *)

Lemma d_now_after_call : forall s tc f s1, d_step s (DCall tc f) = Some s1 -> d_now s1 = tc.
Proof.
  intros s tc f s1 H. unfold d_step in H. destruct (_ <? _); [discriminate|].
  injection H as <-. reflexivity.
Qed.

(* a firing is the most recent call's, no sooner than wait after it — hence
   no sooner than wait after ANY call that precedes it *)
Lemma debounce_never_early_l : forall wait h1 id t h2 s,
  d_run (d_init wait) (h1 ++ DFire id t :: h2) = Some s ->
  (exists h0 tc f, h1 = h0 ++ [DCall tc f] /\ id = ncalls h0 /\ t >= tc + wait) /\
  (forall tc f, In (DCall tc f) h1 -> t >= tc + wait).
Proof.
  intros wait h1 id t h2 s Hr.
  destruct (debounce_fire_follows_its_call_l _ _ _ _ _ _ Hr) as (h0 & tc & f & E & Ht & Hid).
  split; [exists h0, tc, f; auto|].
  intros tc' f' Hin.
  rewrite d_run_app in Hr. destruct (d_run (d_init wait) h1) as [s1|] eqn:H1; [|discriminate].
  destruct (d_times_ge _ _ _ H1) as [_ Hall]. specialize (Hall _ Hin). cbn in Hall.
  assert (Hn : d_now s1 = tc).
  { subst h1. rewrite d_run_snoc in H1. destruct (d_run (d_init wait) h0) as [s0|]; [|discriminate].
    eapply d_now_after_call; eauto. }
  lia.
Qed.

(* a firing after a Cancel belongs to a call made after that Cancel *)
Lemma debounce_none_after_cancel_l : forall wait h1 tc h2 s,
  d_run (d_init wait) (h1 ++ DCancel tc :: h2) = Some s ->
  (forall id t, In (DFire id t) h2 -> (ncalls h1 <= id)%nat) /\
  (forallb (fun e => negb (d_is_call e)) h2 = true ->
   forallb (fun e => negb (d_is_fire e)) h2 = true /\
   forall s1, d_run (d_init wait) h1 = Some s1 -> d_runs s = d_runs s1).
Proof.
  intros wait h1 tc h2 s Hr.
  assert (Hgen : forall id t ha hb, h2 = ha ++ DFire id t :: hb ->
            exists ha' tc' f', ha = ha' ++ [DCall tc' f'] /\ (ncalls h1 <= id)%nat).
  { intros id t ha hb E. rewrite E in Hr.
    replace (h1 ++ DCancel tc :: ha ++ DFire id t :: hb)
      with ((h1 ++ DCancel tc :: ha) ++ DFire id t :: hb) in Hr
      by (rewrite <- app_assoc; reflexivity).
    destruct (debounce_fire_follows_its_call_l _ _ _ _ _ _ Hr) as (h0 & tc' & f' & E1 & _ & Hid).
    destruct ha as [|x ha _] using rev_ind.
    - apply app_inj_tail in E1 as [_ E2]. discriminate.
    - replace (h1 ++ DCancel tc :: ha ++ [x]) with ((h1 ++ DCancel tc :: ha) ++ [x]) in E1
        by (rewrite <- app_assoc; reflexivity).
      apply app_inj_tail in E1 as [E2 ->]. exists ha, tc', f'. split; [reflexivity|].
      subst id. rewrite <- E2, ncalls_app. lia. }
  split.
  - intros id t Hin. apply in_split in Hin as (ha & hb & E).
    destruct (Hgen _ _ _ _ E) as (_ & _ & _ & _ & H). exact H.
  - intros Hnc.
    assert (Hnf : forallb (fun e => negb (d_is_fire e)) h2 = true).
    { apply forallb_forall. intros e Hin. destruct e as [| |id t]; try reflexivity. exfalso.
      apply in_split in Hin as (ha & hb & E).
      destruct (Hgen _ _ _ _ E) as (ha' & tc' & f' & E' & _).
      rewrite E, E' in Hnc. rewrite !forallb_app in Hnc. cbn in Hnc.
      rewrite !andb_false_r in Hnc. cbn in Hnc. discriminate. }
    split; [exact Hnf|].
    intros s1 H1. rewrite d_run_app, H1 in Hr.
    rewrite (d_runs_log_gen _ _ _ Hr). cbn.
    assert (Hlog : forall h, forallb (fun e => negb (d_is_fire e)) h = true ->
                     forall p, d_fire_log p h = []).
    { induction h as [|e h IH]; intros Hf p; [reflexivity|]. cbn in Hf.
      apply andb_prop in Hf as [He Hf]. destruct e; cbn in *; try discriminate; apply IH; exact Hf. }
    rewrite (Hlog h2 Hnf None). reflexivity.
Qed.

(* at most one run per burst *)
Lemma d_fire_log_bursts : forall h p,
  (length (d_fire_log p h) <= (if is_some p then 1 else 0) + bursts_from (is_some p) h)%nat.
Proof.
  induction h as [|e h IH]; intros p; cbn; [lia|].
  destruct e as [t f|t|id t].
  - specialize (IH (Some f)). cbn in IH. destruct p; cbn; lia.
  - specialize (IH None). cbn in IH. destruct p; cbn; lia.
  - specialize (IH None). cbn in IH. destruct p; cbn; lia.
Qed.

Lemma debounce_at_most_once_per_burst_l : forall wait h s,
  d_run (d_init wait) h = Some s -> (length (d_runs s) <= bursts h)%nat.
Proof.
  intros wait h s Hr. rewrite (d_runs_log _ _ _ Hr), rev_length.
  pose proof (d_fire_log_bursts h None) as H. cbn in H. exact H.
Qed.

(* two firings are never adjacent: a new Call separates them *)
Lemma debounce_call_between_fires_l : forall wait h1 id t hm id' t' h2 s,
  d_run (d_init wait) (h1 ++ DFire id t :: hm ++ DFire id' t' :: h2) = Some s ->
  exists hm' tc f, hm = hm' ++ [DCall tc f] /\ (id < id')%nat.
Proof.
  intros wait h1 id t hm id' t' h2 s Hr.
  assert (Hr1 := Hr).
  destruct (debounce_fire_follows_its_call_l _ _ _ _ _ _ Hr1) as (h0 & tc0 & f0 & E0 & _ & Hid0).
  replace (h1 ++ DFire id t :: hm ++ DFire id' t' :: h2)
    with ((h1 ++ DFire id t :: hm) ++ DFire id' t' :: h2) in Hr
    by (rewrite <- app_assoc; reflexivity).
  destruct (debounce_fire_follows_its_call_l _ _ _ _ _ _ Hr) as (h0' & tc & f & E & _ & Hid).
  destruct hm as [|x hm _] using rev_ind.
  - apply app_inj_tail in E as [_ E2]. discriminate.
  - replace (h1 ++ DFire id t :: hm ++ [x]) with ((h1 ++ DFire id t :: hm) ++ [x]) in E
      by (rewrite <- app_assoc; reflexivity).
    apply app_inj_tail in E as [E1 ->]. exists hm, tc, f. split; [reflexivity|].
    subst id id' h1. rewrite <- E1. rewrite !ncalls_app. cbn. lia.
Qed.

(* complete history whose last Call is followed by no Call or Cancel: exactly
   that call's function ran, once, as the latest run *)
Lemma debounce_eventually_last_l : forall wait h0 tc f h1 s,
  d_run (d_init wait) (h0 ++ DCall tc f :: h1) = Some s ->
  forallb d_is_fire h1 = true ->
  d_complete s = true ->
  exists t, h1 = [DFire (ncalls h0) t] /\ t >= tc + wait /\
            exists s0, d_run (d_init wait) h0 = Some s0 /\ d_runs s = (t, f) :: d_runs s0.
Proof.
  intros wait h0 tc f h1 s Hr Hq Hc.
  destruct (debounce_eventually_l _ _ _ _ _ _ Hr Hq Hc) as (t & E & Ht & _).
  exists t. repeat split; auto. subst h1.
  rewrite d_run_app in Hr. destruct (d_run (d_init wait) h0) as [s0|] eqn:H0; [|discriminate].
  exists s0. split; [reflexivity|].
  rewrite (d_runs_log_gen _ _ _ Hr). cbn. destruct (d_timer s0) as [tm|]; [destruct (tm_pending tm)|]; reflexivity.
Qed.

(* ====================================================================== *)
(* Throttle                                                                *)
(* ====================================================================== *)

Lemma t_run_app : forall h1 h2 s,
  t_run s (h1 ++ h2) = match t_run s h1 with Some s1 => t_run s1 h2 | None => None end.
Proof.
  induction h1 as [|e h1 IH]; intros h2 s; cbn; [reflexivity|].
  destruct (t_step s e); [apply IH | reflexivity].
Qed.

Lemma t_run_snoc : forall h e s,
  t_run s (h ++ [e]) = match t_run s h with Some s1 => t_step s1 e | None => None end.
Proof.
  intros h e s. rewrite t_run_app. destruct (t_run s h) as [s1|]; [|reflexivity].
  cbn. destruct (t_step s1 e); reflexivity.
Qed.

Lemma grants_app : forall h1 h2, grants (h1 ++ h2) = grants h1 ++ grants h2.
Proof.
  induction h1 as [|e h1 IH]; intros h2; cbn; [reflexivity|].
  destruct e as [| |id t b| |]; try apply IH. destruct b; cbn; [f_equal|]; apply IH.
Qed.

Lemma tcalls_app : forall h1 h2, tcalls (h1 ++ h2) = (tcalls h1 + tcalls h2)%nat.
Proof.
  induction h1 as [|e h1 IH]; intros h2; cbn; [reflexivity|].
  destruct e; cbn; rewrite IH; reflexivity.
Qed.

Lemma last_grant_snoc : forall (l : list Z) (t : Z),
  match rev (l ++ [t]) with [] => None | g :: _ => Some g end = Some t.
Proof. intros l t. rewrite rev_app_distr. reflexivity. Qed.

(* [b] is at least [gap] after [a] (strictly more when [strict]) *)
Definition apart (strict : bool) (gap a b : Z) : Prop :=
  if strict then b - a > gap else b - a >= gap.

Fixpoint all_apart (strict : bool) (gap : Z) (l : list Z) : Prop :=
  match l with
  | [] => True
  | x :: l' => Forall (apart strict gap x) l' /\ all_apart strict gap l'
  end.

Lemma apart_mono : forall st g a a' b b', apart st g a b -> a' <= a -> b <= b' -> apart st g a' b'.
Proof. intros [] g a a' b b'; unfold apart; lia. Qed.

Lemma all_apart_snoc : forall st g l x,
  all_apart st g l -> Forall (fun a => apart st g a x) l -> all_apart st g (l ++ [x]).
Proof.
  induction l as [|y l IH]; intros x Ha Hf; cbn; [auto|].
  destruct Ha as [H1 H2]. inversion Hf as [|? ? Hy Hf']; subst. split.
  - apply Forall_app. split; [exact H1 | constructor; [exact Hy | constructor]].
  - apply IH; assumption.
Qed.

Lemma all_apart_nth : forall st g l i j a b,
  all_apart st g l -> (i < j)%nat ->
  nth_error l i = Some a -> nth_error l j = Some b -> apart st g a b.
Proof.
  induction l as [|x l IH]; intros i j a b Ha Hij Hi Hj.
  - destruct i; discriminate.
  - destruct Ha as [H1 H2]. destruct j as [|j]; [lia|]. cbn in Hj. destruct i as [|i].
    + cbn in Hi. injection Hi as <-. rewrite Forall_forall in H1. apply H1.
      eapply nth_error_In; eauto.
    + cbn in Hi. apply (IH i j a b H2); [lia | exact Hi | exact Hj].
Qed.

Definition b2n (b : bool) : nat := if b then 1%nat else 0%nat.

(* the invariant of the throttler, relating a reachable state to its history *)
Record t_inv (d : Z) (tr : bool) (h : list tevent) (s : tstate) : Prop := mkTI {
  ti_d : t_d s = d;
  ti_tr : k_trailing (t_core s) = tr;
  ti_last : t_last s = last_grant h;
  ti_le : forall a, In a (grants h) -> exists l, t_last s = Some l /\ a <= l;
  ti_now : forall l, t_last s = Some l -> l <= t_now s;
  ti_apart : all_apart (negb tr) d (grants h);
  (* a raised waiting flag means the period of the last permission is over *)
  ti_wait : k_waiting (t_core s) = true ->
            forall l, t_last s = Some l -> apart (negb tr) d l (t_now s);
  (* an armed trailing-edge timer: nothing is waiting, and its deadline is the
     end of the period of the last permission *)
  ti_sched : forall dl, k_sched (t_core s) = Some dl ->
             k_waiting (t_core s) = false /\ tr = true /\
             exists l, t_last s = Some l /\ dl = l + d;
  ti_stop : k_stop (t_core s) = existsb t_is_cancel h;
  ti_count : (length (grants h) + b2n (k_waiting (t_core s)) + b2n (is_some (k_sched (t_core s)))
              <= tcalls h)%nat
}.

Lemma t_inv_init : forall d tr, t_inv d tr [] (t_init d tr).
Proof.
  intros d tr. constructor; cbn; auto; try discriminate.
  intros a [].
Qed.

Lemma last_grant_app_nil : forall h e, grants [e] = [] -> last_grant (h ++ [e]) = last_grant h.
Proof. intros h e H. unfold last_grant. rewrite grants_app, H, app_nil_r. reflexivity. Qed.

Ltac t_fin Inow Iw Icnt :=
  try discriminate;
  try (let l0 := fresh in let Hl0 := fresh in intros l0 Hl0; specialize (Inow l0 Hl0); lia);
  try (cbn in Icnt; cbn; lia);
  try (let Hw := fresh in let l0 := fresh in let Hl0 := fresh in
       intros Hw l0 Hl0; eapply apart_mono; [apply (Iw Hw l0 Hl0) | lia | lia]).

Lemma t_inv_step : forall d tr h s e s',
  t_inv d tr h s -> t_step s e = Some s' -> t_inv d tr (h ++ [e]) s'.
Proof.
  intros d tr h s e s' I Hs.
  unfold t_step in Hs. destruct (tevent_time e <? t_now s) eqn:Hclk; [discriminate|].
  apply Z.ltb_ge in Hclk.
  destruct I as [Id Itr Ilast Ile Inow Iap Iw Isc Istop Icnt].
  destruct s as [sd [ktr kw ks ksch] sl sa sn]. cbn in *.
  destruct e as [t|id t|id t b|t|t]; cbn in Hclk.
  - (* Call *)
    injection Hs as <-. unfold k_call; cbn.
    assert (G : grants [TCall t] = []) by reflexivity.
    assert (Hc : tcalls (h ++ [TCall t]) = S (tcalls h)) by (rewrite tcalls_app; cbn; lia).
    assert (Hst : existsb t_is_cancel (h ++ [TCall t]) = existsb t_is_cancel h)
      by (rewrite existsb_app; cbn; rewrite orb_false_r; reflexivity).
    destruct kw; cbn.
    { constructor; cbn; rewrite ?grants_app, ?G, ?app_nil_r, ?Hc, ?Hst, ?last_grant_app_nil by exact G; auto; t_fin Inow Iw Icnt.  }
    destruct ksch as [dl0|]; cbn.
    { constructor; cbn; rewrite ?grants_app, ?G, ?app_nil_r, ?Hc, ?Hst, ?last_grant_app_nil by exact G; auto; t_fin Inow Iw Icnt.  }
    destruct ks; cbn.
    { constructor; cbn; rewrite ?grants_app, ?G, ?app_nil_r, ?Hc, ?Hst, ?last_grant_app_nil by exact G; auto; t_fin Inow Iw Icnt.  }
    unfold t_gt; cbn. destruct sl as [l|]; cbn.
    + destruct (t - l >? sd) eqn:Hgt; cbn.
      * constructor; cbn; rewrite ?grants_app, ?G, ?app_nil_r, ?Hc, ?Hst, ?last_grant_app_nil by exact G; auto; t_fin Inow Iw Icnt. 
        intros _ l' [= <-]. apply Z.gtb_lt in Hgt. unfold apart. destruct (negb tr); lia.
      * destruct ktr; cbn.
        -- constructor; cbn; rewrite ?grants_app, ?G, ?app_nil_r, ?Hc, ?Hst, ?last_grant_app_nil by exact G; auto; t_fin Inow Iw Icnt. 
           intros dl [= <-]. repeat split; auto. exists l. split; [reflexivity|]. lia.
        -- constructor; cbn; rewrite ?grants_app, ?G, ?app_nil_r, ?Hc, ?Hst, ?last_grant_app_nil by exact G; auto; t_fin Inow Iw Icnt. 
    + constructor; cbn; rewrite ?grants_app, ?G, ?app_nil_r, ?Hc, ?Hst, ?last_grant_app_nil by exact G; auto; t_fin Inow Iw Icnt. 
  - (* NextStart *)
    destruct (mem_nat id sa); [discriminate|]. injection Hs as <-.
    assert (G : grants [TNextStart id t] = []) by reflexivity.
    assert (Hc : tcalls (h ++ [TNextStart id t]) = tcalls h) by (rewrite tcalls_app; cbn; lia).
    assert (Hst : existsb t_is_cancel (h ++ [TNextStart id t]) = existsb t_is_cancel h)
      by (rewrite existsb_app; cbn; rewrite orb_false_r; reflexivity).
    constructor; cbn; rewrite ?grants_app, ?G, ?app_nil_r, ?Hc, ?Hst, ?last_grant_app_nil by exact G; auto; t_fin Inow Iw Icnt. 
  - (* NextReturn *)
    destruct (mem_nat id sa); cbn in Hs; [|discriminate].
    unfold k_next_enabled, k_next_result, k_next_leave in Hs; cbn in Hs.
    assert (Hc : tcalls (h ++ [TNextReturn id t b]) = tcalls h) by (rewrite tcalls_app; cbn; lia).
    assert (Hst : existsb t_is_cancel (h ++ [TNextReturn id t b]) = existsb t_is_cancel h)
      by (rewrite existsb_app; cbn; rewrite orb_false_r; reflexivity).
    destruct ks; cbn in Hs.
    + rewrite orb_true_r in Hs. cbn in Hs. destruct b; cbn in Hs; [discriminate|].
      injection Hs as <-.
      assert (G : grants [TNextReturn id t false] = []) by reflexivity.
      constructor; cbn; rewrite ?grants_app, ?G, ?app_nil_r, ?Hc, ?Hst, ?last_grant_app_nil by exact G; auto; t_fin Inow Iw Icnt. 
    + rewrite orb_false_r in Hs. destruct kw; cbn in Hs; [|discriminate].
      destruct b; cbn in Hs; [|discriminate]. injection Hs as <-.
      assert (G : grants [TNextReturn id t true] = [t]) by reflexivity.
      assert (Hsch : ksch = None).
      { destruct ksch as [dl|]; [|reflexivity]. destruct (Isc dl eq_refl) as [H _]. discriminate. }
      subst ksch.
      constructor; cbn; rewrite ?grants_app, ?G, ?Hc, ?Hst; auto; try discriminate.
      
      * unfold last_grant. rewrite grants_app, G. symmetry. apply last_grant_snoc.
      * intros a Hin. exists t. split; [reflexivity|]. apply in_app_or in Hin as [Hin|[<-|[]]]; [|lia].
        destruct (Ile a Hin) as (l & Hl & Hal). specialize (Inow l Hl). lia.
      * intros l [= <-]. lia.
      * apply all_apart_snoc; [exact Iap|]. apply Forall_forall. intros a Hin.
        destruct (Ile a Hin) as (l & Hl & Hal).
        eapply apart_mono; [apply (Iw eq_refl l Hl) | lia | lia].
      * rewrite app_length. cbn in *. lia.
  - (* Fire *)
    destruct ksch as [dl|]; [|discriminate]. destruct (dl <=? t) eqn:Hdl; [|discriminate].
    apply Z.leb_le in Hdl. injection Hs as <-.
    destruct (Isc dl eq_refl) as (Hkw & Htr & l & Hl & Edl). subst kw.
    assert (G : grants [TFire t] = []) by reflexivity.
    assert (Hc : tcalls (h ++ [TFire t]) = tcalls h) by (rewrite tcalls_app; cbn; lia).
    assert (Hst : existsb t_is_cancel (h ++ [TFire t]) = existsb t_is_cancel h)
      by (rewrite existsb_app; cbn; rewrite orb_false_r; reflexivity).
    constructor; cbn; rewrite ?grants_app, ?G, ?app_nil_r, ?Hc, ?Hst, ?last_grant_app_nil by exact G; auto; t_fin Inow Iw Icnt. 
    intros _ l' Hl'. rewrite Hl in Hl'. injection Hl' as <-. rewrite Htr. unfold apart. cbn. lia.
  - (* Cancel *)
    injection Hs as <-.
    assert (G : grants [TCancel t] = []) by reflexivity.
    assert (Hc : tcalls (h ++ [TCancel t]) = tcalls h) by (rewrite tcalls_app; cbn; lia).
    assert (Hst : existsb t_is_cancel (h ++ [TCancel t]) = true)
      by (rewrite existsb_app; cbn; apply orb_true_r).
    constructor; cbn; rewrite ?grants_app, ?G, ?app_nil_r, ?Hc, ?Hst, ?last_grant_app_nil by exact G; auto; t_fin Inow Iw Icnt. 
Qed.

Lemma t_inv_run : forall d tr h s, t_run (t_init d tr) h = Some s -> t_inv d tr h s.
Proof.
  intros d tr h. induction h as [|e h IH] using rev_ind; intros s Hr.
  - cbn in Hr. injection Hr as <-. apply t_inv_init.
  - rewrite t_run_snoc in Hr. destruct (t_run (t_init d tr) h) as [s1|]; [|discriminate].
    eapply t_inv_step; [apply IH; reflexivity | exact Hr].
Qed.

(* ---------------------------------------------------------------------- *)
(* clause lemmas                                                           *)
(* ---------------------------------------------------------------------- *)

(* any two permissions are at least a period apart (more than a period when
   trailing = false) *)
Lemma throttle_one_per_period_l : forall d tr h s i j a b,
  t_run (t_init d tr) h = Some s -> (i < j)%nat ->
  nth_error (grants h) i = Some a -> nth_error (grants h) j = Some b ->
  b - a >= d /\ (tr = false -> b - a > d).
Proof.
  intros d tr h s i j a b Hr Hij Hi Hj.
  pose proof (ti_apart _ _ _ _ (t_inv_run _ _ _ _ Hr)) as Hap.
  pose proof (all_apart_nth _ _ _ _ _ _ _ Hap Hij Hi Hj) as H.
  unfold apart in H. destruct tr; cbn in H; split; try lia; intros; try discriminate; lia.
Qed.

(* never more permissions than triggers *)
Lemma throttle_grants_le_calls_l : forall d tr h s,
  t_run (t_init d tr) h = Some s -> (length (grants h) <= tcalls h)%nat.
Proof.
  intros d tr h s Hr. pose proof (ti_count _ _ _ _ (t_inv_run _ _ _ _ Hr)). lia.
Qed.

(* trailing = false, nothing waiting: triggers inside the period change nothing *)
Lemma t_quiet : forall l h' s s',
  k_waiting (t_core s) = false -> k_sched (t_core s) = None ->
  k_trailing (t_core s) = false -> t_last s = Some l ->
  (forall t, In (TCall t) h' -> t - l <= t_d s) ->
  t_run s h' = Some s' -> grants h' = [].
Proof.
  intros l h'. induction h' as [|e h' IH]; intros s s' Hw Hsc Htr Hl Hin Hr; [reflexivity|].
  cbn in Hr. destruct (t_step s e) as [s1|] eqn:Hs; [|discriminate].
  unfold t_step in Hs. destruct (tevent_time e <? t_now s); [discriminate|].
  destruct s as [sd [ktr kw ks ksch] sl sa sn]. cbn in *. subst kw ksch ktr sl.
  assert (Hin' : forall t, In (TCall t) h' -> t - l <= sd) by (intros t Ht; apply Hin; now right).
  destruct e as [t|id t|id t b|t|t].
  - injection Hs as <-. cbn.
    assert (Hgt : (t - l >? sd) = false).
    { pose proof (Hin t (or_introl eq_refl)). rewrite Z.gtb_ltb. apply Z.ltb_ge. lia. }
    refine (IH _ s' _ _ _ _ _ Hr); cbn; try exact Hin';
      unfold k_call, t_gt; cbn; rewrite ?Hgt; destruct ks; reflexivity.
  - destruct (mem_nat id sa); [discriminate|]. injection Hs as <-. cbn.
    refine (IH _ s' _ _ _ _ _ Hr); cbn; try exact Hin'; reflexivity.
  - destruct (mem_nat id sa); cbn in Hs; [|discriminate].
    unfold k_next_enabled, k_next_result, k_next_leave in Hs; cbn in Hs.
    destruct ks; cbn in Hs; [|discriminate]. destruct b; cbn in Hs; [discriminate|].
    injection Hs as <-. cbn.
    refine (IH _ s' _ _ _ _ _ Hr); cbn; try exact Hin'; reflexivity.
  - discriminate.
  - injection Hs as <-. cbn.
    refine (IH _ s' _ _ _ _ _ Hr); cbn; try exact Hin'; reflexivity.
Qed.

Lemma throttle_drops_inside_period_l : forall d h0 id l h' s,
  t_run (t_init d false) (h0 ++ TNextReturn id l true :: h') = Some s ->
  (forall t, In (TCall t) h' -> t - l <= d) ->
  grants h' = [].
Proof.
  intros d h0 id l h' s Hr Hin.
  replace (h0 ++ TNextReturn id l true :: h') with ((h0 ++ [TNextReturn id l true]) ++ h') in Hr
    by (rewrite <- app_assoc; reflexivity).
  rewrite t_run_app in Hr.
  destruct (t_run (t_init d false) (h0 ++ [TNextReturn id l true])) as [s1|] eqn:H1; [|discriminate].
  pose proof (t_inv_run _ _ _ _ H1) as I.
  rewrite t_run_snoc in H1. destruct (t_run (t_init d false) h0) as [s0|]; [|discriminate].
  unfold t_step in H1. destruct (_ <? _); [discriminate|].
  destruct (mem_nat id (t_active s0) && k_next_enabled (t_core s0) &&
            Bool.eqb true (k_next_result (t_core s0))) eqn:Hc; [|discriminate].
  apply andb_prop in Hc as [_ Hres]. unfold k_next_result in Hres.
  destruct (k_stop (t_core s0)) eqn:Hstop; [discriminate|].
  injection H1 as E.
  assert (Hsc : k_sched (t_core s1) = None).
  { destruct (k_sched (t_core s1)) as [dl|] eqn:E1; [|reflexivity].
    destruct (ti_sched _ _ _ _ I dl E1) as (_ & Hf & _). discriminate. }
  eapply (t_quiet l h' s1 s); [| exact Hsc | apply (ti_tr _ _ _ _ I) | | | exact Hr].
  - rewrite <- E. cbn. unfold k_next_leave. rewrite Hstop. reflexivity.
  - rewrite <- E. reflexivity.
  - rewrite (ti_d _ _ _ _ I). exact Hin.
Qed.

(* trailing = true, not cancelled: after ANY trigger a permission is owed, and
   it can be handed out at every instant from the trailing edge on *)
Lemma k_call_owed : forall gt dl k,
  k_trailing k = true -> k_stop k = false -> k_owed (k_call gt dl k) = true.
Proof.
  intros gt dl [ktr kw ks ksch] Ht Hs. cbn in *. subst. unfold k_call, k_owed. cbn.
  destruct kw, ksch, gt; reflexivity.
Qed.

Lemma throttle_keeps_trailing_l : forall d h t s,
  t_run (t_init d true) (h ++ [TCall t]) = Some s ->
  existsb t_is_cancel h = false ->
  k_owed (t_core s) = true /\
  forall id t1, mem_nat id (t_active s) = false -> t1 >= t ->
    (forall l, last_grant h = Some l -> t1 >= l + d) ->
    exists h2 s', (h2 = [] \/ h2 = [TFire t1]) /\
      t_run s (h2 ++ [TNextStart id t1; TNextReturn id t1 true]) = Some s'.
Proof.
  intros d h t s Hr Hnc.
  pose proof (t_inv_run _ _ _ _ Hr) as I.
  rewrite t_run_snoc in Hr. destruct (t_run (t_init d true) h) as [s0|] eqn:H0; [|discriminate].
  pose proof (t_inv_run _ _ _ _ H0) as I0.
  unfold t_step in Hr. destruct (_ <? _); [discriminate|]. injection Hr as E.
  assert (Hstop0 : k_stop (t_core s0) = false) by (rewrite (ti_stop _ _ _ _ I0); exact Hnc).
  assert (Howed : k_owed (t_core s) = true).
  { rewrite <- E. cbn. apply k_call_owed; [apply (ti_tr _ _ _ _ I0) | exact Hstop0]. }
  assert (Hstop : k_stop (t_core s) = false).
  { rewrite (ti_stop _ _ _ _ I), existsb_app, Hnc. reflexivity. }
  assert (Hnow : t_now s = t) by (rewrite <- E; reflexivity).
  assert (Hlast : t_last s = last_grant h).
  { rewrite (ti_last _ _ _ _ I). apply last_grant_app_nil. reflexivity. }
  split; [exact Howed|].
  intros id t1 Hid Ht1 Hedge.
  pose proof (ti_sched _ _ _ _ I) as Isc.
  clear E I I0 H0 Hstop0.
  destruct s as [sd [ktr kw ks ksch] sl sa sn]. cbn in *. subst ks sn.
  unfold k_owed in Howed. cbn in Howed.
  destruct ksch as [dl|].
  - destruct (Isc dl eq_refl) as (-> & _ & l & Hl & ->).
    rewrite Hl in Hlast. symmetry in Hlast. specialize (Hedge l Hlast).
    exists [TFire t1]. eexists. split; [right; reflexivity|].
    cbn. unfold t_step. cbn.
    destruct (Z.ltb_spec t1 t); [lia|]. destruct (Z.leb_spec (l + d) t1); [|lia].
    cbn. rewrite Z.ltb_irrefl, Hid. cbn. rewrite Z.ltb_irrefl, Nat.eqb_refl. cbn. reflexivity.
  - cbn in Howed. rewrite orb_false_r in Howed. subst kw.
    exists []. eexists. split; [left; reflexivity|].
    cbn. unfold t_step. cbn.
    destruct (Z.ltb_spec t1 t); [lia|]. rewrite Hid. cbn.
    rewrite Z.ltb_irrefl, Nat.eqb_refl. cbn. reflexivity.
Qed.

(* after Cancel: every Next returns false, and every pending or future Next
   may return at once *)
Lemma throttle_cancel_l : forall d tr h tc h' s,
  t_run (t_init d tr) (h ++ TCancel tc :: h') = Some s ->
  (forall id t b, In (TNextReturn id t b) h' -> b = false) /\
  (forall id t, t >= t_now s -> mem_nat id (t_active s) = true ->
     exists s', t_step s (TNextReturn id t false) = Some s') /\
  (forall id t, t >= t_now s -> mem_nat id (t_active s) = false ->
     exists s', t_run s [TNextStart id t; TNextReturn id t false] = Some s').
Proof.
  intros d tr h tc h' s Hr.
  assert (Hstopped : forall ha sa, t_run (t_init d tr) (h ++ TCancel tc :: ha) = Some sa ->
                       k_stop (t_core sa) = true).
  { intros ha sa Ha. rewrite (ti_stop _ _ _ _ (t_inv_run _ _ _ _ Ha)), existsb_app. cbn.
    apply orb_true_r. }
  split; [|split].
  - intros id t b Hin. apply in_split in Hin as (ha & hb & E). rewrite E in Hr.
    replace (h ++ TCancel tc :: ha ++ TNextReturn id t b :: hb)
      with ((h ++ TCancel tc :: ha) ++ TNextReturn id t b :: hb) in Hr
      by (rewrite <- app_assoc; reflexivity).
    rewrite t_run_app in Hr.
    destruct (t_run (t_init d tr) (h ++ TCancel tc :: ha)) as [sa|] eqn:Ha; [|discriminate].
    specialize (Hstopped ha sa Ha).
    cbn [t_run] in Hr. destruct (t_step sa (TNextReturn id t b)) as [sb|] eqn:Hs; [|discriminate].
    unfold t_step in Hs. destruct (_ <? _); [discriminate|].
    destruct (mem_nat id (t_active sa) && k_next_enabled (t_core sa) &&
              Bool.eqb b (k_next_result (t_core sa))) eqn:Hc; [|discriminate].
    apply andb_prop in Hc as [_ Hres]. unfold k_next_result in Hres. rewrite Hstopped in Hres.
    destruct b; [discriminate|reflexivity].
  - intros id t Ht Hid. specialize (Hstopped h' s Hr).
    unfold t_step. cbn. destruct (Z.ltb_spec t (t_now s)); [lia|].
    unfold k_next_enabled, k_next_result. rewrite Hid, Hstopped, orb_true_r. cbn. eexists; reflexivity.
  - intros id t Ht Hid. specialize (Hstopped h' s Hr).
    cbn. unfold t_step. cbn. destruct (Z.ltb_spec t (t_now s)); [lia|].
    rewrite Hid. cbn. rewrite Z.ltb_irrefl, Nat.eqb_refl.
    unfold k_next_enabled, k_next_result. rewrite Hstopped, orb_true_r. cbn. eexists; reflexivity.
Qed.

(* a fresh throttler: the first trigger is granted at once (leading edge) *)
Lemma throttle_leading_l : forall d tr t id t1,
  0 <= t -> t <= t1 ->
  exists s, t_run (t_init d tr) [TCall t; TNextStart id t1; TNextReturn id t1 true] = Some s.
Proof.
  intros d tr t id t1 H0 H1. cbn. unfold t_step. cbn.
  destruct (Z.ltb_spec t 0); [lia|]. cbn. destruct (Z.ltb_spec t1 t); [lia|]. cbn.
  rewrite Z.ltb_irrefl, Nat.eqb_refl. cbn. eexists; reflexivity.
Qed.

(* the code BEFORE the repair (t_step_orig): trailing = true, a trigger inside
   the period raised waiting at once — two permissions 1 ms apart with a 20 ms
   period *)
Definition orig_witness : list tevent :=
  [TCall 0; TNextStart 0 0; TNextReturn 0 0 true;
   TCall 1000000; TNextStart 1 1000000; TNextReturn 1 1000000 true].

Lemma throttle_orig_two_grants_l :
  exists s, t_run_orig (t_init 20000000 true) orig_witness = Some s /\
            grants orig_witness = [0; 1000000] /\
            t_run (t_init 20000000 true) orig_witness = None.
Proof. eexists. repeat split; vm_compute; reflexivity. Qed.
