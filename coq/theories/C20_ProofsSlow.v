(* C20_ProofsSlow.v — lemmas for the slow-consumer / slow-callback corner of C20:
   a permission that sits unconsumed for an arbitrary time before Next picks it
   up, and callbacks that are still running when the next call arrives.  The
   systems are those of C20_Model.v, unchanged; this file only draws the
   consequences that make the clause "at most one permission per period"
   explicit about WHERE the period starts (the instant Next hands the
   permission out), and defines the variant system in which the stamp is taken
   when the permission is issued (for the witness only). *)
From Gogu Require Import Base C20_Model C20_Proofs C20_Proofs2.
Local Open Scope Z_scope.

(* ---------------------------------------------------------------------- *)
(* throttle                                                                *)
(* ---------------------------------------------------------------------- *)

(* t.last is the instant of the most recent hand-out, in every reachable state *)
Lemma slow_last_is_last_grant_l : forall d tr h s,
  t_run (t_init d tr) h = Some s -> t_last s = last_grant h.
Proof. intros d tr h s Hr. exact (ti_last _ _ _ _ (t_inv_run _ _ _ _ Hr)). Qed.

(* the state right after a hand-out, whatever came before it *)
Lemma slow_after_handout_l : forall d tr h0 id tn s,
  t_run (t_init d tr) (h0 ++ [TNextReturn id tn true]) = Some s ->
  t_core s = mkK tr false false None /\ t_last s = Some tn /\ t_now s = tn /\ t_d s = d.
Proof.
  intros d tr h0 id tn s Hr. rewrite t_run_snoc in Hr.
  destruct (t_run (t_init d tr) h0) as [s0|] eqn:H0; [|discriminate].
  pose proof (t_inv_run _ _ _ _ H0) as I.
  unfold t_step in Hr. cbn [tevent_time] in Hr.
  destruct (tn <? t_now s0); [discriminate|].
  destruct (mem_nat id (t_active s0) && k_next_enabled (t_core s0) &&
            Bool.eqb true (k_next_result (t_core s0))) eqn:Hc; [|discriminate].
  apply andb_prop in Hc as [Hc Hres]. apply andb_prop in Hc as [_ Hen].
  unfold k_next_result in Hres. destruct (k_stop (t_core s0)) eqn:Hstop; [discriminate|].
  unfold k_next_enabled in Hen. rewrite Hstop, orb_false_r in Hen.
  assert (Hsc : k_sched (t_core s0) = None).
  { destruct (k_sched (t_core s0)) as [dl|] eqn:E1; [|reflexivity].
    destruct (ti_sched _ _ _ _ I dl E1) as (Hw & _). rewrite Hw in Hen. discriminate. }
  injection Hr as <-. cbn. unfold k_next_leave. rewrite Hstop.
  rewrite (ti_tr _ _ _ _ I), Hsc, (ti_d _ _ _ _ I). auto.
Qed.

(* a trigger after a hand-out at tn: inside the period (tc - tn <= d) nothing
   is raised at once — the trigger is dropped (trailing = false) or deferred to
   the trailing edge tn + d; outside the period it is granted at once.  The
   instant of the trigger (or timer) that the hand-out consumed plays no role. *)
Lemma slow_trigger_after_handout_l : forall d tr h0 id tn tc s,
  t_run (t_init d tr) (h0 ++ [TNextReturn id tn true; TCall tc]) = Some s ->
  t_last s = Some tn /\
  (tc - tn <= d ->
     k_waiting (t_core s) = false /\ k_sched (t_core s) = (if tr then Some (tn + d) else None)) /\
  (tc - tn > d -> k_waiting (t_core s) = true).
Proof.
  intros d tr h0 id tn tc s Hr.
  replace (h0 ++ [TNextReturn id tn true; TCall tc])
    with ((h0 ++ [TNextReturn id tn true]) ++ [TCall tc]) in Hr
    by (rewrite <- app_assoc; reflexivity).
  rewrite t_run_snoc in Hr.
  destruct (t_run (t_init d tr) (h0 ++ [TNextReturn id tn true])) as [s1|] eqn:H1; [|discriminate].
  destruct (slow_after_handout_l _ _ _ _ _ _ H1) as (Hk & Hl & Hn & Hd).
  unfold t_step in Hr. cbn [tevent_time] in Hr. destruct (tc <? t_now s1); [discriminate|].
  injection Hr as <-. cbn. unfold t_gt, t_deadline. rewrite Hk, Hl, Hd. unfold k_call. cbn.
  split; [reflexivity|]. split.
  - intros Hin. assert (E : (tc - tn >? d) = false) by (rewrite Z.gtb_ltb; apply Z.ltb_ge; lia).
    rewrite E. destruct tr; cbn; auto.
  - intros Hout. assert (E : (tc - tn >? d) = true) by (rewrite Z.gtb_ltb; apply Z.ltb_lt; lia).
    rewrite E. reflexivity.
Qed.

(* the next permission after a hand-out at tn, whatever lies between *)
Lemma slow_next_permission_l : forall d tr h0 id tn h1 id' t2 s,
  t_run (t_init d tr) (h0 ++ TNextReturn id tn true :: h1 ++ [TNextReturn id' t2 true]) = Some s ->
  t2 - tn >= d /\ (tr = false -> t2 - tn > d).
Proof.
  intros d tr h0 id tn h1 id' t2 s Hr.
  eapply (throttle_one_per_period_l d tr _ s (length (grants h0))
            (length (grants h0) + S (length (grants h1)))%nat tn t2 Hr); [lia| |].
  - rewrite grants_app. cbn. rewrite nth_error_app2 by lia. rewrite Nat.sub_diag. reflexivity.
  - rewrite grants_app. cbn. rewrite nth_error_app2 by lia.
    replace (length (grants h0) + S (length (grants h1)) - length (grants h0))%nat
      with (S (length (grants h1))) by lia.
    cbn. rewrite grants_app. cbn. rewrite nth_error_app2 by lia. rewrite Nat.sub_diag. reflexivity.
Qed.

(* the slow-consumer script in closed form: trigger at t, the permission is
   picked up p later (any p >= 0, however many periods), a trigger g <= d after
   that is inside the period *)
Lemma slow_script_l : forall d tr t p g id,
  0 <= t -> 0 <= p -> 0 <= g -> g <= d ->
  exists s,
    t_run (t_init d tr) [TCall t; TNextStart id (t + p); TNextReturn id (t + p) true; TCall (t + p + g)]
      = Some s /\
    t_last s = Some (t + p) /\ k_waiting (t_core s) = false /\
    k_sched (t_core s) = (if tr then Some (t + p + d) else None).
Proof.
  intros d tr t p g id Ht Hp Hg Hgd.
  destruct (throttle_leading_l d tr t id (t + p) Ht ltac:(lia)) as [s3 H3].
  change [TCall t; TNextStart id (t + p); TNextReturn id (t + p) true]
    with ([TCall t; TNextStart id (t + p)] ++ [TNextReturn id (t + p) true]) in H3.
  destruct (slow_after_handout_l _ _ _ _ _ _ H3) as (Hk & Hl & Hn & Hd).
  assert (H4 : exists s, t_run (t_init d tr)
            ([TCall t; TNextStart id (t + p)] ++ [TNextReturn id (t + p) true; TCall (t + p + g)]) = Some s).
  { replace ([TCall t; TNextStart id (t + p)] ++ [TNextReturn id (t + p) true; TCall (t + p + g)])
      with (([TCall t; TNextStart id (t + p)] ++ [TNextReturn id (t + p) true]) ++ [TCall (t + p + g)])
      by reflexivity.
    rewrite t_run_snoc, H3. unfold t_step. cbn [tevent_time]. rewrite Hn.
    destruct (Z.ltb_spec (t + p + g) (t + p)); [lia|]. eexists; reflexivity. }
  destruct H4 as [s H4]. exists s.
  destruct (slow_trigger_after_handout_l _ _ _ _ _ _ _ H4) as (Hl' & Hin & _).
  split; [exact H4|]. split; [exact Hl'|]. apply Hin. lia.
Qed.

(* --- the variant in which the stamp is taken when the permission is ISSUED
       (Call's leading branch, the trailing-edge timer) and Next only clears
       waiting.  For the witness below only: it is NOT the code in /repo. --- *)
Definition t_step_issue (s : tstate) (e : tevent) : option tstate :=
  if tevent_time e <? t_now s then None else
  match e with
  | TCall t =>
      let k' := k_call (t_gt s t) (t_deadline s) (t_core s) in
      let raised := negb (k_waiting (t_core s)) && k_waiting k' in
      Some (mkT (t_d s) k' (if raised then Some t else t_last s) (t_active s) t)
  | TNextReturn id t b =>
      if mem_nat id (t_active s) && k_next_enabled (t_core s) && Bool.eqb b (k_next_result (t_core s))
      then Some (mkT (t_d s) (k_next_leave (t_core s)) (t_last s) (remove_nat id (t_active s)) t)
      else None
  | TFire t =>
      match k_sched (t_core s) with
      | Some dl => if dl <=? t
                   then Some (mkT (t_d s) (k_fire (t_core s)) (Some t) (t_active s) t)
                   else None
      | None => None
      end
  | _ => t_step s e
  end.

Fixpoint t_run_issue (s : tstate) (h : list tevent) : option tstate :=
  match h with
  | [] => Some s
  | e :: h' => match t_step_issue s e with Some s' => t_run_issue s' h' | None => None end
  end.

(* period 20 ms; the permission issued at 0 is picked up at 30 ms; a trigger
   right after that and a second Next: in the variant the second permission
   follows the first at once *)
Definition slow_witness : list tevent :=
  [TCall 0; TNextStart 0 30000000; TNextReturn 0 30000000 true;
   TCall 30000000; TNextStart 1 30000000; TNextReturn 1 30000000 true].

(* the same through the trailing-edge timer: permission at 0, trigger at 5 ms,
   timer at 20 ms, the permission it raises is picked up at 45 ms *)
Definition slow_witness_trailing : list tevent :=
  [TCall 0; TNextStart 0 0; TNextReturn 0 0 true; TCall 5000000; TFire 20000000;
   TNextStart 1 45000000; TNextReturn 1 45000000 true;
   TCall 45000000; TNextStart 2 45000000; TNextReturn 2 45000000 true].

Lemma slow_issue_variant_l :
  (forall tr, is_some (t_run_issue (t_init 20000000 tr) slow_witness) = true /\
              t_run (t_init 20000000 tr) slow_witness = None) /\
  grants slow_witness = [30000000; 30000000] /\
  is_some (t_run_issue (t_init 20000000 true) slow_witness_trailing) = true /\
  t_run (t_init 20000000 true) slow_witness_trailing = None /\
  grants slow_witness_trailing = [0; 45000000; 45000000].
Proof.
  split; [intros []; split; vm_compute; reflexivity|].
  repeat split; vm_compute; reflexivity.
Qed.

(* ---------------------------------------------------------------------- *)
(* debounce / Delay with a slow callback                                   *)
(* ---------------------------------------------------------------------- *)

(* [DFire] / [LFire] are the instants a callback STARTS.  Nothing in func.go
   waits for a callback to finish (time.AfterFunc runs it in its own goroutine,
   outside d.mu), so a Call / Cancel / Stop that arrives while it is still
   running is an ordinary event after the firing. *)

(* a call made after a firing (e.g. while that callback is still running) and
   followed by no further call or cancel runs, once, no sooner than wait later *)
Lemma slow_callback_call_l : forall wait h0 id t tc f h1 s,
  d_run (d_init wait) (h0 ++ DFire id t :: DCall tc f :: h1) = Some s ->
  forallb d_is_fire h1 = true -> d_complete s = true ->
  exists t', h1 = [DFire (ncalls h0) t'] /\ t' >= tc + wait /\ tc >= t /\
             exists s0, d_run (d_init wait) (h0 ++ [DFire id t]) = Some s0 /\
                        d_runs s = (t', f) :: d_runs s0.
Proof.
  intros wait h0 id t tc f h1 s Hr Hf Hc.
  replace (h0 ++ DFire id t :: DCall tc f :: h1)
    with ((h0 ++ [DFire id t]) ++ DCall tc f :: h1) in Hr by (rewrite <- app_assoc; reflexivity).
  destruct (debounce_eventually_last_l _ _ _ _ _ _ Hr Hf Hc) as (t' & E & Hge & s0 & H0 & Hruns).
  rewrite ncalls_app in E. cbn in E. rewrite Nat.add_0_r in E.
  exists t'. split; [exact E|]. split; [exact Hge|]. split; [|exists s0; auto].
  (* the clock: the call comes after the firing *)
  rewrite d_run_app in Hr. rewrite H0 in Hr. cbn in Hr.
  destruct (d_step s0 (DCall tc f)) as [s1|] eqn:Hs; [|discriminate].
  unfold d_step in Hs. cbn [devent_time] in Hs.
  destruct (Z.ltb_spec tc (d_now s0)) as [|Hle]; [discriminate|].
  rewrite d_run_snoc in H0. destruct (d_run (d_init wait) h0) as [sp|]; [|discriminate].
  unfold d_step in H0. cbn [devent_time] in H0. destruct (t <? d_now sp); [discriminate|].
  destruct (d_timer sp) as [tm|]; [|discriminate].
  destruct (Nat.eqb (tm_id tm) id && tm_can_fire tm t); [|discriminate].
  injection H0 as <-. cbn in Hle. lia.
Qed.

(* Delay: a Stop that arrives after the firing (e.g. while the callback is
   still running) changes nothing: the function ran exactly once, on time, and
   nothing fires afterwards *)
Lemma slow_callback_delay_stop_l : forall t w r ts h2 s,
  l_run l_init (LDelay t w :: LFire r :: LStop ts :: h2) = Some s ->
  l_runs s = [r] /\ r >= t + w /\ ts >= r /\ forallb (fun e => negb (l_is_fire e)) h2 = true.
Proof.
  intros t w r ts h2 s Hr.
  destruct (delay_none_after_stop_l t w [LFire r] ts h2 s Hr) as [Hnf Hruns].
  assert (H1 : exists s1, l_run l_init [LDelay t w; LFire r] = Some s1 /\ l_runs s1 = [r] /\ l_now s1 = r).
  { change (LDelay t w :: LFire r :: LStop ts :: h2) with ([LDelay t w; LFire r] ++ LStop ts :: h2) in Hr.
    rewrite l_run_app in Hr. destruct (l_run l_init [LDelay t w; LFire r]) as [s1|] eqn:E; [|discriminate].
    exists s1. split; [reflexivity|]. cbn in E. unfold l_step in E. cbn in E.
    destruct (t <? 0); [discriminate|]. cbn in E. destruct (r <? t); [discriminate|].
    cbn in E. destruct (t + w <=? r); [|discriminate]. cbn in E. injection E as <-. auto. }
  destruct H1 as (s1 & E1 & R1 & N1).
  split; [rewrite (Hruns s1 E1); exact R1|]. split.
  - eapply (delay_never_early_l t w _ s r Hr). rewrite (Hruns s1 E1), R1. now left.
  - split; [|exact Hnf].
    change (LDelay t w :: LFire r :: LStop ts :: h2) with ([LDelay t w; LFire r] ++ LStop ts :: h2) in Hr.
    rewrite l_run_app, E1 in Hr. cbn in Hr. unfold l_step at 1 in Hr. cbn [levent_time] in Hr.
    destruct (Z.ltb_spec ts (l_now s1)); [discriminate|]. lia.
Qed.
