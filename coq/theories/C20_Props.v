(* C20_Props.v — property C20, stated over the timed systems of C20_Model.v.

   "A delayed or debounced function never runs sooner than the configured wait
    after the call that scheduled it (for debounce: after the most recent
    call), runs at most once per burst of calls and not at all after cancel; if
    no further call or cancel arrives it does run.  A throttle hands out at
    most one permission (Next returning true) per period regardless of how many
    triggers arrive and in what order they interleave with Next, keeps a
    trailing trigger only when configured to, and after Cancel every pending
    and future Next returns false promptly."

   Every theorem quantifies over ALL well-formed event sequences
   ([l_run]/[d_run]/[t_run] … = Some _): every interleaving of the API calls
   with the runtime's firings and wake-ups at arbitrary instants that respects
   the timer law (clock monotone; no firing before the deadline; no firing of
   a stopped or already fired timer).  Nothing bounds how LATE the runtime acts:
   "does run" is stated for complete histories (the runtime owes no firing),
   "promptly" as "the return is enabled at once" — latency is runtime
   behaviour (C20 is claimed PARTIAL for that reason). *)
From Gogu Require Import Base C20_Model C20_Proofs C20_Proofs2.
Local Open Scope Z_scope.

(* ====================================================================== *)
(* Delay                                                                   *)
(* ====================================================================== *)

(* never sooner than the wait after the call *)
Theorem C20_delay_never_early : forall t w h s r,
  l_run l_init (LDelay t w :: h) = Some s -> In r (l_runs s) -> r >= t + w.
Proof. exact delay_never_early_l. Qed.
Print Assumptions C20_delay_never_early.

(* at most once *)
Theorem C20_delay_at_most_once : forall t w h s,
  l_run l_init (LDelay t w :: h) = Some s -> (length (l_runs s) <= 1)%nat.
Proof. exact delay_at_most_once_l. Qed.
Print Assumptions C20_delay_at_most_once.

(* not at all after Stop: no firing follows a Stop, the runs are those before it *)
Theorem C20_delay_none_after_stop : forall t w h1 ts h2 s,
  l_run l_init (LDelay t w :: h1 ++ LStop ts :: h2) = Some s ->
  forallb (fun e => negb (l_is_fire e)) h2 = true /\
  (forall s1, l_run l_init (LDelay t w :: h1) = Some s1 -> l_runs s = l_runs s1).
Proof. exact delay_none_after_stop_l. Qed.
Print Assumptions C20_delay_none_after_stop.

(* never stopped, complete history (no pending timer): it ran, exactly once *)
Theorem C20_delay_eventually : forall t w h s,
  l_run l_init (LDelay t w :: h) = Some s ->
  forallb (fun e => negb (l_is_stop e)) h = true ->
  (forall tm, l_timer s = Some tm -> tm_pending tm = false) ->
  exists r, l_runs s = [r] /\ r >= t + w.
Proof. exact delay_eventually_l. Qed.
Print Assumptions C20_delay_eventually.

(* non-vacuity: a run at the deadline; a Stop before it (then a firing is not a
   well-formed continuation); a complete unstopped history *)
Example C20_delay_ex_runs :
  option_map l_runs (l_run l_init [LDelay 10 5; LFire 15]) = Some [15] /\
  l_run l_init [LDelay 10 5; LFire 14] = None /\
  l_run l_init [LDelay 10 5; LFire 15; LFire 16] = None.
Proof. vm_compute. auto. Qed.
Example C20_delay_ex_stop :
  option_map l_runs (l_run l_init [LDelay 10 5; LStop 12; LStop 30]) = Some [] /\
  l_run l_init [LDelay 10 5; LStop 12; LFire 15] = None /\
  option_map l_runs (l_run l_init [LDelay 10 5; LFire 20; LStop 21]) = Some [20].
Proof. vm_compute. auto. Qed.
Example C20_delay_ex_complete :
  exists s, l_run l_init [LDelay 10 5; LFire 17] = Some s /\
            (forall tm, l_timer s = Some tm -> tm_pending tm = false) /\ l_runs s = [17].
Proof. eexists. split; [vm_compute; reflexivity|]. cbn. split; [|reflexivity]. intros tm [= <-]. reflexivity. Qed.

(* ====================================================================== *)
(* Debounce                                                                *)
(* ====================================================================== *)

(* [DFire id t]: the runtime starts the function passed to call number [id]
   (calls are numbered 0, 1, … in history order) at instant [t]. *)

(* never early: a firing is the MOST RECENT call's (the event right before
   it), no sooner than wait after it — hence no sooner than wait after any
   call that precedes it *)
Theorem C20_debounce_never_early : forall wait h1 id t h2 s,
  d_run (d_init wait) (h1 ++ DFire id t :: h2) = Some s ->
  (exists h0 tc f, h1 = h0 ++ [DCall tc f] /\ id = ncalls h0 /\ t >= tc + wait) /\
  (forall tc f, In (DCall tc f) h1 -> t >= tc + wait).
Proof. exact debounce_never_early_l. Qed.
Print Assumptions C20_debounce_never_early.

(* the runs recorded in the state are exactly the firings of the history,
   each with the function of the call right before it *)
Theorem C20_debounce_runs_are_the_firings : forall wait h s,
  d_run (d_init wait) h = Some s -> d_runs s = rev (d_fire_log None h).
Proof. exact d_runs_log. Qed.
Print Assumptions C20_debounce_runs_are_the_firings.

(* at most one run per burst (burst = maximal block of consecutive calls,
   each arriving while the previous one's timer has not fired) … *)
Theorem C20_debounce_at_most_once_per_burst : forall wait h s,
  d_run (d_init wait) h = Some s -> (length (d_runs s) <= bursts h)%nat.
Proof. exact debounce_at_most_once_per_burst_l. Qed.
Print Assumptions C20_debounce_at_most_once_per_burst.

(* … because two firings are never adjacent: a later call separates them … *)
Theorem C20_debounce_call_between_fires : forall wait h1 id t hm id' t' h2 s,
  d_run (d_init wait) (h1 ++ DFire id t :: hm ++ DFire id' t' :: h2) = Some s ->
  exists hm' tc f, hm = hm' ++ [DCall tc f] /\ (id < id')%nat.
Proof. exact debounce_call_between_fires_l. Qed.
Print Assumptions C20_debounce_call_between_fires.

(* … and a call followed by another Call or a Cancel before its deadline
   (i.e. any call of a burst but the last) never runs *)
Theorem C20_debounce_superseded_never_runs : forall wait h0 tc f h1 e h2 s,
  d_run (d_init wait) (h0 ++ DCall tc f :: h1 ++ e :: h2) = Some s ->
  d_is_fire e = false -> devent_time e < tc + wait ->
  forall t, ~ In (DFire (ncalls h0) t) (h1 ++ e :: h2).
Proof. exact debounce_superseded_never_runs_l. Qed.
Print Assumptions C20_debounce_superseded_never_runs.

(* none after cancel: whatever fires after a Cancel belongs to a call made
   after it; with no such call nothing fires and the runs are those before *)
Theorem C20_debounce_none_after_cancel : forall wait h1 tc h2 s,
  d_run (d_init wait) (h1 ++ DCancel tc :: h2) = Some s ->
  (forall id t, In (DFire id t) h2 -> (ncalls h1 <= id)%nat) /\
  (forallb (fun e => negb (d_is_call e)) h2 = true ->
   forallb (fun e => negb (d_is_fire e)) h2 = true /\
   forall s1, d_run (d_init wait) h1 = Some s1 -> d_runs s = d_runs s1).
Proof. exact debounce_none_after_cancel_l. Qed.
Print Assumptions C20_debounce_none_after_cancel.

(* if no further call or cancel arrives it does run: in a complete history
   (no pending timer) whose last Call is followed by no Call or Cancel, what
   follows is exactly one firing of THAT call, no sooner than wait after it,
   running the function passed to it *)
Theorem C20_debounce_eventually : forall wait h0 tc f h1 s,
  d_run (d_init wait) (h0 ++ DCall tc f :: h1) = Some s ->
  forallb d_is_fire h1 = true ->
  d_complete s = true ->
  exists t, h1 = [DFire (ncalls h0) t] /\ t >= tc + wait /\
            exists s0, d_run (d_init wait) h0 = Some s0 /\ d_runs s = (t, f) :: d_runs s0.
Proof. exact debounce_eventually_last_l. Qed.
Print Assumptions C20_debounce_eventually.

(* non-vacuity: wait 10; a burst of three calls (functions 7, 8, 9), the last
   one runs at 25; a second burst of two, cancelled; a third of one, run at 80 *)
Definition C20_deb_ex : list devent :=
  [DCall 0 7; DCall 4 8; DCall 12 9; DFire 2 25;
   DCall 30 1; DCall 31 2; DCancel 35;
   DCall 60 3; DFire 5 80].
Example C20_debounce_ex_runs :
  option_map d_runs (d_run (d_init 10) C20_deb_ex) = Some [(80, 3); (25, 9)] /\
  option_map d_complete (d_run (d_init 10) C20_deb_ex) = Some true /\
  bursts C20_deb_ex = 3%nat.
Proof. vm_compute. auto. Qed.
(* early, superseded, cancelled and repeated firings are not well-formed *)
Example C20_debounce_ex_refused :
  d_run (d_init 10) [DCall 0 7; DFire 0 9] = None /\
  d_run (d_init 10) [DCall 0 7; DCall 4 8; DFire 0 20] = None /\
  d_run (d_init 10) [DCall 0 7; DCancel 4; DFire 0 20] = None /\
  d_run (d_init 10) [DCall 0 7; DFire 0 10; DFire 0 11] = None.
Proof. vm_compute. auto. Qed.

(* ====================================================================== *)
(* Throttle                                                                *)
(* ====================================================================== *)

(* [grants h]: the instants at which a Next returned true, in history order. *)

(* at most one permission per period, whatever the triggers and however they
   interleave with Next: ANY two permissions are at least d apart — more than
   d apart when trailing = false (with trailing = true the extra permission
   is handed out exactly from the trailing edge last + d on) *)
Theorem C20_throttle_one_permission_per_period : forall d trailing h s i j a b,
  t_run (t_init d trailing) h = Some s -> (i < j)%nat ->
  nth_error (grants h) i = Some a -> nth_error (grants h) j = Some b ->
  b - a >= d /\ (trailing = false -> b - a > d).
Proof. exact throttle_one_per_period_l. Qed.
Print Assumptions C20_throttle_one_permission_per_period.

(* regardless of how many triggers arrive: never more permissions than triggers *)
Theorem C20_throttle_permissions_le_triggers : forall d trailing h s,
  t_run (t_init d trailing) h = Some s -> (length (grants h) <= tcalls h)%nat.
Proof. exact throttle_grants_le_calls_l. Qed.
Print Assumptions C20_throttle_permissions_le_triggers.

(* trailing = false: after a permission at instant l, triggers that arrive
   inside its period (t - l <= d), however many, are dropped — no permission
   follows until a trigger arrives outside the period *)
Theorem C20_throttle_drops_triggers_inside_period : forall d h0 id l h' s,
  t_run (t_init d false) (h0 ++ TNextReturn id l true :: h') = Some s ->
  (forall t, In (TCall t) h' -> t - l <= d) ->
  grants h' = [].
Proof. exact throttle_drops_inside_period_l. Qed.
Print Assumptions C20_throttle_drops_triggers_inside_period.

(* trailing = true, not cancelled: after ANY trigger a permission is owed
   (waiting raised, or the trailing-edge timer armed), and it can be handed
   out at every instant t1 from the trigger / the trailing edge on: either a
   Next returns true at once, or the timer fires and then a Next returns true *)
Theorem C20_throttle_keeps_trailing_trigger : forall d h t s,
  t_run (t_init d true) (h ++ [TCall t]) = Some s ->
  existsb t_is_cancel h = false ->
  k_owed (t_core s) = true /\
  forall id t1, mem_nat id (t_active s) = false -> t1 >= t ->
    (forall l, last_grant h = Some l -> t1 >= l + d) ->
    exists h2 s', (h2 = [] \/ h2 = [TFire t1]) /\
      t_run s (h2 ++ [TNextStart id t1; TNextReturn id t1 true]) = Some s'.
Proof. exact throttle_keeps_trailing_l. Qed.
Print Assumptions C20_throttle_keeps_trailing_trigger.

(* after Cancel: every Next that returns returns false; a pending Next (started,
   not returned) may return at once, and so may a Next started later *)
Theorem C20_throttle_cancel_releases : forall d trailing h tc h' s,
  t_run (t_init d trailing) (h ++ TCancel tc :: h') = Some s ->
  (forall id t b, In (TNextReturn id t b) h' -> b = false) /\
  (forall id t, t >= t_now s -> mem_nat id (t_active s) = true ->
     exists s', t_step s (TNextReturn id t false) = Some s') /\
  (forall id t, t >= t_now s -> mem_nat id (t_active s) = false ->
     exists s', t_run s [TNextStart id t; TNextReturn id t false] = Some s').
Proof. exact throttle_cancel_l. Qed.
Print Assumptions C20_throttle_cancel_releases.

(* leading edge: the first trigger of a fresh throttler is granted at once *)
Theorem C20_throttle_leading_permission : forall d trailing t id t1,
  0 <= t -> t <= t1 ->
  exists s, t_run (t_init d trailing) [TCall t; TNextStart id t1; TNextReturn id t1 true] = Some s.
Proof. exact throttle_leading_l. Qed.
Print Assumptions C20_throttle_leading_permission.

(* regression witness of the repaired defect (DESIGN §7 #31): in the code
   BEFORE the repair ([t_run_orig]: trailing Call raised waiting at once)
   this history — period 20 ms, two permissions 1 ms apart — was possible;
   the repaired system refuses it *)
Theorem C20_throttle_original_code_two_permissions_in_period :
  exists s, t_run_orig (t_init 20000000 true) orig_witness = Some s /\
            grants orig_witness = [0; 1000000] /\
            t_run (t_init 20000000 true) orig_witness = None.
Proof. exact throttle_orig_two_grants_l. Qed.
Print Assumptions C20_throttle_original_code_two_permissions_in_period.

(* non-vacuity.  Period 20.  trailing = false: leading permission at 1, two
   triggers inside the period are dropped (a Next started at 6 stays blocked),
   a trigger at 30 releases it: permissions [1; 30], 29 > 20 apart *)
Definition C20_thr_ex_nt : list tevent :=
  [TCall 0; TNextStart 0 1; TNextReturn 0 1 true;
   TCall 5; TNextStart 1 6; TCall 21;
   TCall 30; TNextReturn 1 30 true].
Example C20_throttle_ex_no_trailing :
  is_some (t_run (t_init 20 false) C20_thr_ex_nt) = true /\
  grants C20_thr_ex_nt = [1; 30] /\ tcalls C20_thr_ex_nt = 4%nat /\
  (* the dropped trigger does not enable the blocked Next *)
  t_run (t_init 20 false) [TCall 0; TNextStart 0 1; TNextReturn 0 1 true;
                           TCall 5; TNextStart 1 6; TNextReturn 1 40 true] = None.
Proof. vm_compute. auto. Qed.

(* trailing = true: the trigger at 5 is kept — the timer fires at the trailing
   edge 21 (not before) and the blocked Next is then granted: [1; 21], exactly
   d apart; a second trigger inside the period adds nothing *)
Definition C20_thr_ex_tr : list tevent :=
  [TCall 0; TNextStart 0 1; TNextReturn 0 1 true;
   TCall 5; TCall 7; TNextStart 1 8; TFire 21; TNextReturn 1 21 true].
Example C20_throttle_ex_trailing :
  is_some (t_run (t_init 20 true) C20_thr_ex_tr) = true /\
  grants C20_thr_ex_tr = [1; 21] /\
  (* not before the trailing edge, neither the timer nor the permission *)
  t_run (t_init 20 true) [TCall 0; TNextStart 0 1; TNextReturn 0 1 true; TCall 5; TFire 20] = None /\
  t_run (t_init 20 true) [TCall 0; TNextStart 0 1; TNextReturn 0 1 true;
                          TCall 5; TNextStart 1 8; TNextReturn 1 8 true] = None /\
  (* and only one extra permission *)
  t_run (t_init 20 true) (C20_thr_ex_tr ++ [TNextStart 2 22; TNextReturn 2 22 true]) = None.
Proof. vm_compute. auto. Qed.

(* the hypotheses of C20_throttle_keeps_trailing_trigger / _drops_triggers_inside_period on one
   concrete history: a permission at 1, a trigger at 5 — kept (timer armed for 21) when
   trailing = true, dropped (nothing owed) when trailing = false *)
Example C20_throttle_ex_keep_vs_drop :
  option_map (fun s => (k_owed (t_core s), k_sched (t_core s)))
    (t_run (t_init 20 true) ([TCall 0; TNextStart 0 1; TNextReturn 0 1 true] ++ [TCall 5]))
    = Some (true, Some 21) /\
  existsb t_is_cancel [TCall 0; TNextStart 0 1; TNextReturn 0 1 true] = false /\
  option_map (fun s => (k_owed (t_core s), k_sched (t_core s)))
    (t_run (t_init 20 false) ([TCall 0; TNextStart 0 1] ++ TNextReturn 0 1 true :: [TCall 5]))
    = Some (false, None).
Proof. vm_compute. auto. Qed.

(* Cancel with one Next pending and one started afterwards: both return false;
   `true` is not a possible result any more, even with a trigger waiting *)
Definition C20_thr_ex_cancel : list tevent :=
  [TCall 0; TNextStart 0 1; TNextReturn 0 1 true; TNextStart 1 2;
   TCancel 3; TNextReturn 1 3 false; TCall 40; TNextStart 2 41; TNextReturn 2 41 false].
Example C20_throttle_ex_cancel :
  is_some (t_run (t_init 20 true) C20_thr_ex_cancel) = true /\
  t_run (t_init 20 true) [TCall 0; TCancel 3; TNextStart 2 41; TNextReturn 2 41 true] = None.
Proof. vm_compute. auto. Qed.
