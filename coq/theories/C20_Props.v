(* C20_Props.v — property C20, stated over the timed systems of C20_Model.v. *)
From Gogu Require Import Base C20_Model C20_Proofs.
Local Open Scope Z_scope.

Theorem C20_delay_never_early : forall t w h s r,
  l_run l_init (LDelay t w :: h) = Some s -> In r (l_runs s) -> r >= t + w.
Proof. exact delay_never_early_l. Qed.
Print Assumptions C20_delay_never_early.
