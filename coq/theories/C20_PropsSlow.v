(* C20_PropsSlow.v — property C20 for SLOW consumers and SLOW callbacks.  Only
   statements; every proof is an application of a lemma of C20_ProofsSlow.v.

   The territory: the consumer of a throttle is slower than the interval — a
   permission made available by a trigger (or by the trailing-edge timer) sits
   unconsumed for an arbitrary time before Next picks it up — and, for
   Delay / debounce, the callback is still running when the next call, cancel
   or Stop arrives.  The timed systems are those of C20_Model.v, unchanged
   (their events already carry arbitrary instants), and the theorems of
   C20_Props.v already quantify over these histories; the statements below make
   the clause explicit about the one thing a slow consumer can tell apart:

     "at most one permission per period": the period STARTS at the instant
     Next hands the permission out (returns true) — not at the instant of the
     trigger that made it available, not at the instant the timer raised it.
     A trigger that arrives within d of a hand-out is dropped (trailing off) or
     deferred to hand-out + d (trailing on), however long before that hand-out
     the consumed trigger had arrived.

   All theorems are over ALL well-formed event sequences (every interleaving,
   arbitrary instants, any period d, both trailing settings). *)
From Gogu Require Import Base C20_Model C20_Proofs C20_Proofs2 C20_ProofsSlow.
Local Open Scope Z_scope.

(* ====================================================================== *)
(* Throttle, slow consumer                                                 *)
(* ====================================================================== *)

(* t.last — the start of the current period — is, in every reachable state, the
   instant of the most recent Next that returned true (None: no permission yet) *)
Theorem C20_slow_period_starts_at_handout : forall d trailing h s,
  t_run (t_init d trailing) h = Some s -> t_last s = last_grant h.
Proof. exact slow_last_is_last_grant_l. Qed.
Print Assumptions C20_slow_period_starts_at_handout.

(* at most one permission per period, counted from the hand-out: after a Next
   returned true at tn — whenever the trigger it consumed had arrived (h0 is
   arbitrary: the trigger may be many periods older than tn) — no Next returns
   true before tn + d (strictly after it when trailing = false), whatever
   triggers, Nexts and timer firings lie between *)
Theorem C20_slow_next_permission_a_period_after_handout : forall d trailing h0 id tn h1 id' t2 s,
  t_run (t_init d trailing) (h0 ++ TNextReturn id tn true :: h1 ++ [TNextReturn id' t2 true]) = Some s ->
  t2 - tn >= d /\ (trailing = false -> t2 - tn > d).
Proof. exact slow_next_permission_l. Qed.
Print Assumptions C20_slow_next_permission_a_period_after_handout.

(* keeps a trailing trigger only when configured to — relative to the hand-out:
   a trigger at tc right after a hand-out at tn.  Inside the period
   (tc - tn <= d) it raises nothing at once: with trailing = false nothing is
   owed (dropped), with trailing = true the timer is armed for exactly tn + d.
   Outside the period it is granted at once.  The history h0 before the
   hand-out (in particular the age of the consumed trigger) plays no role. *)
Theorem C20_slow_trigger_after_handout : forall d trailing h0 id tn tc s,
  t_run (t_init d trailing) (h0 ++ [TNextReturn id tn true; TCall tc]) = Some s ->
  t_last s = Some tn /\
  (tc - tn <= d ->
     k_waiting (t_core s) = false /\
     k_sched (t_core s) = (if trailing then Some (tn + d) else None)) /\
  (tc - tn > d -> k_waiting (t_core s) = true).
Proof. exact slow_trigger_after_handout_l. Qed.
Print Assumptions C20_slow_trigger_after_handout.

(* the slow-consumer script in closed form, for every period d, every pause p
   (any number of periods) and every gap g <= d:
       Call at t ; Next picks the permission up at t + p ; Call at t + p + g
   is a run of the system, and the second trigger is inside the period of the
   hand-out: nothing waiting, the trailing-edge timer (if configured) armed for
   t + p + d — not for t + d, which may be long past *)
Theorem C20_slow_consumer_script : forall d trailing t p g id,
  0 <= t -> 0 <= p -> 0 <= g -> g <= d ->
  exists s,
    t_run (t_init d trailing)
          [TCall t; TNextStart id (t + p); TNextReturn id (t + p) true; TCall (t + p + g)] = Some s /\
    t_last s = Some (t + p) /\ k_waiting (t_core s) = false /\
    k_sched (t_core s) = (if trailing then Some (t + p + d) else None).
Proof. exact slow_script_l. Qed.
Print Assumptions C20_slow_consumer_script.

(* witness for the variant "stamp the period when the permission is ISSUED, not
   when Next hands it out" ([t_step_issue]; NOT the code in /repo): period
   20 ms, permission issued at 0 and picked up at 30 ms, trigger and Next right
   after: the variant hands out two permissions at the same instant — for both
   trailing settings, and also when the late permission was raised by the
   trailing-edge timer; the system of C20_Model.v refuses these histories *)
Theorem C20_slow_issue_stamp_variant_two_permissions_in_period :
  (forall trailing,
     is_some (t_run_issue (t_init 20000000 trailing) slow_witness) = true /\
     t_run (t_init 20000000 trailing) slow_witness = None) /\
  grants slow_witness = [30000000; 30000000] /\
  is_some (t_run_issue (t_init 20000000 true) slow_witness_trailing) = true /\
  t_run (t_init 20000000 true) slow_witness_trailing = None /\
  grants slow_witness_trailing = [0; 45000000; 45000000].
Proof. exact slow_issue_variant_l. Qed.
Print Assumptions C20_slow_issue_stamp_variant_two_permissions_in_period.

(* non-vacuity.  Period 20; a permission issued at 0 is picked up at 50 (2.5
   periods later); a trigger at 55 is inside the period [50, 70]:
   trailing = false — dropped, a Next started at 56 is not enabled, the next
   permission needs a trigger after 70; trailing = true — the timer cannot fire
   before 70, the second permission is at 70 at the earliest *)
Example C20_slow_ex_no_trailing :
  is_some (t_run (t_init 20 false)
     [TCall 0; TCall 30; TNextStart 0 50; TNextReturn 0 50 true; TCall 55; TNextStart 1 56;
      TCall 71; TNextReturn 1 71 true]) = true /\
  t_run (t_init 20 false)
     [TCall 0; TNextStart 0 50; TNextReturn 0 50 true; TCall 55; TNextStart 1 56; TNextReturn 1 56 true] = None /\
  t_run (t_init 20 false)
     [TCall 0; TNextStart 0 50; TNextReturn 0 50 true; TCall 55; TNextStart 1 56; TNextReturn 1 90 true] = None.
Proof. vm_compute. auto. Qed.
Example C20_slow_ex_trailing :
  is_some (t_run (t_init 20 true)
     [TCall 0; TCall 30; TNextStart 0 50; TNextReturn 0 50 true; TCall 55; TNextStart 1 56;
      TFire 70; TNextReturn 1 70 true]) = true /\
  t_run (t_init 20 true)
     [TCall 0; TNextStart 0 50; TNextReturn 0 50 true; TCall 55; TNextStart 1 56; TNextReturn 1 56 true] = None /\
  t_run (t_init 20 true)
     [TCall 0; TNextStart 0 50; TNextReturn 0 50 true; TCall 55; TFire 69] = None /\
  (* the permission raised by the timer at 70 and picked up at 100: the period restarts at 100 *)
  option_map (fun s => (t_last s, k_sched (t_core s)))
    (t_run (t_init 20 true)
       ([TCall 0; TNextStart 0 50; TNextReturn 0 50 true; TCall 55; TFire 70; TNextStart 1 100]
        ++ [TNextReturn 1 100 true; TCall 101])) = Some (Some 100, Some 120).
Proof. vm_compute. auto. Qed.

(* ====================================================================== *)
(* Debounce / Delay, slow callback                                         *)
(* ====================================================================== *)

(* [DFire] / [LFire] mark the instant a callback STARTS; nothing in func.go
   waits for it to finish.  A call made after a firing — in particular while
   that callback is still running — and followed by no further call or cancel
   does run: exactly one firing follows, it is that call's, no sooner than wait
   after it, and the earlier run is kept *)
Theorem C20_slow_callback_debounce_call_during_callback : forall wait h0 id t tc f h1 s,
  d_run (d_init wait) (h0 ++ DFire id t :: DCall tc f :: h1) = Some s ->
  forallb d_is_fire h1 = true -> d_complete s = true ->
  exists t', h1 = [DFire (ncalls h0) t'] /\ t' >= tc + wait /\ tc >= t /\
             exists s0, d_run (d_init wait) (h0 ++ [DFire id t]) = Some s0 /\
                        d_runs s = (t', f) :: d_runs s0.
Proof. exact slow_callback_call_l. Qed.
Print Assumptions C20_slow_callback_debounce_call_during_callback.

(* Delay: a Stop that arrives after the firing (while the callback is still
   running, or later) changes nothing: the function ran exactly once, no sooner
   than the wait, and nothing fires afterwards *)
Theorem C20_slow_callback_delay_stop_during_callback : forall t w r ts h2 s,
  l_run l_init (LDelay t w :: LFire r :: LStop ts :: h2) = Some s ->
  l_runs s = [r] /\ r >= t + w /\ ts >= r /\ forallb (fun e => negb (l_is_fire e)) h2 = true.
Proof. exact slow_callback_delay_stop_l. Qed.
Print Assumptions C20_slow_callback_delay_stop_during_callback.

(* non-vacuity: wait 10; the callback of call 0 starts at 10 (and, say, runs
   until 40); calls at 12 and 15 arrive meanwhile — the last one runs at 25 *)
Example C20_slow_callback_ex :
  option_map (fun s => (d_runs s, d_complete s))
    (d_run (d_init 10) ([DCall 0 7] ++ DFire 0 10 :: DCall 12 8 :: [DFire 1 22]))
    = Some ([(22, 8); (10, 7)], true) /\
  option_map d_runs (d_run (d_init 10) [DCall 0 7; DFire 0 10; DCall 12 8; DCall 15 9; DFire 2 25])
    = Some [(25, 9); (10, 7)] /\
  d_run (d_init 10) [DCall 0 7; DFire 0 10; DCall 12 8; DFire 1 21] = None /\
  option_map l_runs (l_run l_init [LDelay 0 10; LFire 10; LStop 20]) = Some [10].
Proof. vm_compute. auto. Qed.
