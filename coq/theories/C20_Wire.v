(* C20_Wire.v — wire glue for C20 (no proofs; exercised by the correspondence).

   The INPUT is a script (what the harness does); every duration is in
   microseconds.  The OBSERVATION is what the harness measured while running
   the script on the real code: monotonic-clock instants (ns since the start
   of the case) taken immediately before/after every call and inside every
   callback, plus the outcomes.  Time is what C20 speaks about, so here the
   instants ARE the projected observables.

     Delay     in : 0 wait stop slack margin [cb]          (stop < 0: never stopped; cb: the callback keeps
                                                            running for cb after it has recorded its start)
               obs: b a nruns trun sb sa sret F
     Debounce  in : 1 wait slack margin  (op arg)*          op 0 Call, 1 Cancel, 2 Sleep arg,
                                                            3 Call with a slow callback (it keeps running
                                                            for arg after it has recorded its start)
               obs: per Call  b a nruns trun ; per Cancel  b a ; then F
     Throttle  in : 2 d trailing slack margin  (op arg)*    op 0 Call, 1 Next (main waits <= arg for it),
                                                            2 Cancel, 3 Sleep arg
               obs: per Call/Cancel  b a ; per Next  b a r  (taken inside the goroutine that calls
                    Next; r = 0 false, 1 true, 3 never returned) ; then the bracket Fb Fa of the
                    harness's final Cancel (issued after a quiescence of d + 2*margin)

   c20_agree: the observation is a possible timed run of the MODEL with every
     event inside its measured bracket widened by [slack] — for Delay/debounce
     the exact system of C20_Model accepts the earliest-instant trace built
     from the observation; for the throttle an interval search over the
     orderings the brackets allow, built from the same k_* transitions.  The
     only upper bounds ever required are the "eventually" ones: an owed timer
     firing / wake-up must have happened once [margin] (>= 10*wait + 200 ms) has
     passed.
   c20_holds: a monitor of the property itself on the timed observation
     (never early, at most once, none after cancel / stop, eventually; at most
     one permission per period, dropped trailing trigger, cancel releases),
     written without the model.
   c20_run: the model's observation under nominal timing (calls take no time,
     sleeps are exact, timers fire and goroutines wake exactly when due). *)

From Gogu Require Import Base C20_Model.
Local Open Scope Z_scope.

Definition us (x : Z) : Z := x * 1000.
Definition INF : Z := 4611686018427387904.

Definition hd_op (r : list Z) : Z := zget r 0.
Definition arg_op (r : list Z) : Z := zget r 1.

(* ====================================================================== *)
(* Delay                                                                   *)
(* ====================================================================== *)

Definition lrun_ok (h : list levent) : bool := is_some (l_run l_init h).

Definition delay_agree (wait stop sl m : Z) (obs : list Z) : bool :=
  match obs with
  | [b; a; n; tr; sb; sa; sret; F] =>
      let x0 := Z.max 0 (b - sl) in
      let y := x0 + wait in                          (* earliest firing *)
      let fires := if n =? 0 then [] else if n =? 1 then [LFire y] else [LFire y; LFire y] in
      (b <=? a) &&
      (if stop <? 0 then
         lrun_ok (LDelay x0 wait :: fires) &&
         (if n =? 0 then F <=? a + sl + wait + m else y <=? tr + sl)
       else
         let xs := Z.max (sb - sl) x0 in
         (xs <=? sa + sl) &&
         (if sret =? 1
          then (n =? 0) && lrun_ok [LDelay x0 wait; LStop xs]
          else (n =? 1) && (y <=? sa + sl) && (y <=? tr + sl) &&
               lrun_ok [LDelay x0 wait; LFire y; LStop (Z.max xs y)]))
  | _ => false
  end.

Definition delay_holds (wait stop sl m : Z) (obs : list Z) : bool :=
  match obs with
  | [b; a; n; tr; sb; sa; sret; F] =>
      (n <=? 1) &&
      (* never early *)
      ((n =? 0) || (b + wait <=? tr + sl)) &&
      (if stop <? 0
       then (* eventually *) (n =? 1) || (F <=? a + sl + wait + m)
       else
         (* a successful Stop prevents the run; an unsuccessful one means it ran *)
         (if sret =? 1 then n =? 0 else n =? 1) &&
         (* Stop that completed before the deadline is successful *)
         ((b + wait <? sa + sl) || (sret =? 1)))
  | _ => false
  end.

Definition delay_run (wait stop sl m : Z) : list Z :=
  let w := us wait in
  if stop <? 0 then [0; 0; 1; w; -1; -1; 0; w + us m]
  else let s := us stop in
       if s <? w then [0; 0; 0; -1; s; s; 1; w + us m]
       else [0; 0; 1; w; s; s; 0; s + w + us m].

(* ====================================================================== *)
(* Debounce                                                                *)
(* ====================================================================== *)

Inductive dop :=
| DoCall (k : Z) (b a n tr : Z)
| DoCancel (b a : Z).

Fixpoint d_parse (k : Z) (ops : list (list Z)) (obs : list Z) : option (list dop * list Z) :=
  match ops with
  | [] => Some ([], obs)
  | r :: ops' =>
      let o := hd_op r in
      (* op 3: a Call whose callback is slow.  [trun] is the instant the callback STARTED, which is
         what the events DFire of the model and every clause of C20 speak about; how long it then
         runs is not part of the system (nothing in func.go waits for it), so it is a Call. *)
      if (o =? 0) || (o =? 3) then
        match obs with
        | b :: a :: n :: tr :: obs' =>
            match d_parse (k + 1) ops' obs' with
            | Some (l, rest) => Some (DoCall k b a n tr :: l, rest)
            | None => None
            end
        | _ => None
        end
      else if o =? 1 then
        match obs with
        | b :: a :: obs' =>
            match d_parse (k + 1) ops' obs' with
            | Some (l, rest) => Some (DoCancel b a :: l, rest)
            | None => None
            end
        | _ => None
        end
      else d_parse (k + 1) ops' obs
  end.

Definition dop_lo (o : dop) : Z := match o with DoCall _ b _ _ _ => b | DoCancel b _ => b end.
Definition dop_hi (o : dop) : Z := match o with DoCall _ _ a _ _ => a | DoCancel _ a => a end.

(* the earliest-instant trace of the exact model that matches the observation;
   None when some event cannot be placed inside its bracket *)
Fixpoint d_build (wait sl m F : Z) (now : Z) (id : nat) (ops : list dop) : option (list devent) :=
  match ops with
  | [] => Some []
  | DoCall k b a n tr :: rest =>
      let x := Z.max (b - sl) now in
      let nextlo := match rest with o :: _ => dop_lo o - sl | [] => F end in
      if a + sl <? x then None
      else if n =? 0 then
        (* the firing is owed once margin has passed *)
        if a + sl + wait + m <? nextlo then None
        else match d_build wait sl m F x (S id) rest with
             | Some h => Some (DCall x k :: h) | None => None end
      else
        let y := x + wait in
        if tr + sl <? y then None
        else match d_build wait sl m F y (S id) rest with
             | Some h => Some (DCall x k :: DFire id y :: (if n =? 1 then h else DFire id y :: h))
             | None => None end
  | DoCancel b a :: rest =>
      let x := Z.max (b - sl) now in
      if a + sl <? x then None
      else match d_build wait sl m F x id rest with
           | Some h => Some (DCancel x :: h) | None => None end
  end.

Definition deb_agree (wait sl m : Z) (ops : list (list Z)) (obs : list Z) : bool :=
  match d_parse 0 ops obs with
  | Some (l, [F]) =>
      match d_build wait sl m F 0 0%nat l with
      | Some h => is_some (d_run (d_init wait) h)
      | None => false
      end
  | _ => false
  end.

(* the property on the observation, without the model *)
Fixpoint deb_holds_ops (wait sl m F : Z) (ops : list dop) : bool :=
  match ops with
  | [] => true
  | DoCall k b a n tr :: rest =>
      let next := match rest with o :: _ => Some o | [] => None end in
      (n <=? 1) &&
      (* never sooner than wait after the call that scheduled it *)
      ((n =? 0) || (b + wait <=? tr + sl)) &&
      (* superseded or cancelled before its deadline: must not run *)
      (match next with
       | Some o => (n =? 0) || (b + wait <? dop_hi o + sl)
       | None => true
       end) &&
      (* otherwise it does run (within the quiescence margin) *)
      ((n =? 1) ||
       (match next with
        | Some o => dop_lo o - sl <=? a + sl + wait + m
        | None => F <=? a + sl + wait + m
        end)) &&
      deb_holds_ops wait sl m F rest
  | DoCancel _ _ :: rest => deb_holds_ops wait sl m F rest
  end.

Definition deb_holds (wait sl m : Z) (ops : list (list Z)) (obs : list Z) : bool :=
  match d_parse 0 ops obs with
  | Some (l, [F]) => deb_holds_ops wait sl m F l
  | _ => false
  end.

(* time of the next Call/Cancel *)
Fixpoint nxt (t : Z) (l : list (list Z)) : option Z :=
  match l with
  | [] => None
  | r' :: l' => if hd_op r' =? 2 then nxt (t + us (arg_op r')) l' else Some t
  end.

(* nominal run: the pending timer (call index k scheduled at T) fires iff the
   next Call/Cancel comes later than T + wait *)
Fixpoint deb_run_ops (wait : Z) (now : Z) (ops : list (list Z)) : list Z :=
  match ops with
  | [] => []
  | r :: ops' =>
      let o := hd_op r in
      if o =? 2 then deb_run_ops wait (now + us (arg_op r)) ops'
      else if o =? 1 then now :: now :: deb_run_ops wait now ops'
      else
        let fired := match nxt now ops' with Some t => now + wait <? t | None => true end in
        now :: now :: (if fired then 1 else 0) :: (if fired then now + wait else -1)
            :: deb_run_ops wait now ops'
  end.

Fixpoint total_sleep (code : Z) (ops : list (list Z)) : Z :=
  match ops with
  | [] => 0
  | r :: ops' => (if hd_op r =? code then us (arg_op r) else 0) + total_sleep code ops'
  end.

Definition deb_run (wait m : Z) (ops : list (list Z)) : list Z :=
  deb_run_ops (us wait) 0 ops ++ [total_sleep 2 ops + us wait + us m].

(* ====================================================================== *)
(* Throttle                                                                *)
(* ====================================================================== *)

Inductive mitem :=
| MCall (lo hi : Z)
| MCancel (lo hi : Z)
| MSpawn (j : nat)
| MFinal (lo hi : Z).

Record nrec := mkN { n_id : nat; n_lo : Z; n_hi : Z; n_r : Z }.

(* brackets are widened by the slack while parsing *)
Fixpoint t_parse (sl : Z) (j : nat) (ops : list (list Z)) (obs : list Z)
  : option (list mitem * list nrec) :=
  match ops with
  | [] =>
      match obs with
      | [fb; fa] => Some ([MFinal (fb - sl) (fa + sl)], [])
      | _ => None
      end
  | r :: ops' =>
      let o := hd_op r in
      if (o =? 0) || (o =? 2) then
        match obs with
        | b :: a :: obs' =>
            match t_parse sl (S j) ops' obs' with
            | Some (ms, ns) =>
                Some ((if o =? 0 then MCall (b - sl) (a + sl) else MCancel (b - sl) (a + sl)) :: ms, ns)
            | None => None
            end
        | _ => None
        end
      else if o =? 1 then
        match obs with
        | b :: a :: rr :: obs' =>
            match t_parse sl (S j) ops' obs' with
            | Some (ms, ns) =>
                Some (MSpawn j :: ms, mkN j (b - sl) (if rr =? 3 then INF else a + sl) rr :: ns)
            | None => None
            end
        | _ => None
        end
      else t_parse sl (S j) ops' obs
  end.

Fixpoint nfind (j : nat) (ns : list nrec) : option nrec :=
  match ns with
  | [] => None
  | n :: ns' => if Nat.eqb (n_id n) j then Some n else nfind j ns'
  end.

(* acceptor state *)
Record astate := mkA {
  a_k : tcore;                 (* k_sched carries the LOWER bound of the deadline *)
  a_last : option (Z * Z);     (* bracket of the instant stamped into t.last *)
  a_now : Z;                   (* lower bound of the current instant *)
  a_raise_hi : Z;              (* upper bound of the instant waiting/stop was last raised *)
  a_sched_hi : Z;              (* upper bound of the armed deadline *)
  a_pend : list nat;           (* spawned Nexts that have not entered yet *)
  a_blocked : list nat;        (* Nexts inside the wait loop *)
  a_main : list mitem
}.

Definition res_matches (k : tcore) (r : Z) : bool :=
  r =? (if k_next_result k then 1 else 0).

(* Lazy connectives for the search below.  Under vm_compute (call by value) [orb],
   [andb] and [existsb] evaluate all their arguments, which would turn the
   backtracking search into a full exploration of the tree; [if] evaluates only
   the branch it selects.  (The extracted OCaml is lazy either way.) *)
Notation "a ||| b" := (if a then true else b) (at level 50, left associativity).
Notation "a &&& b" := (if a then b else false) (at level 40, left associativity).
Fixpoint lexistsb {A} (f : A -> bool) (l : list A) : bool :=
  match l with [] => false | x :: l' => if f x then true else lexistsb f l' end.

Section Acceptor.
  Variables (d m : Z) (ns : list nrec).

  (* leaving Next (at entry or from the wait loop) *)
  Definition a_leave (A : astate) (j : nat) (now' : Z) (n : nrec) (pend' blocked' : list nat) : astate :=
    mkA (k_next_leave (a_k A))
        (if k_next_result (a_k A) then Some (now', n_hi n) else a_last A)
        now' (a_raise_hi A) (a_sched_hi A) pend' blocked' (a_main A).

  Fixpoint acc (fuel : nat) (A : astate) : bool :=
    match fuel with
    | O => false
    | S f =>
        let k := a_k A in
        (* all placed *)
        (match a_main A, a_pend A, a_blocked A with [], [], [] => true | _, _, _ => false end)
        |||
        (* the next item of the main goroutine *)
        (match a_main A with
         | [] => false
         | MSpawn j :: rest =>
             acc f (mkA k (a_last A) (a_now A) (a_raise_hi A) (a_sched_hi A)
                        (a_pend A ++ [j]) (a_blocked A) rest)
         | MCall lo hi :: rest =>
             (a_now A <=? hi) &&&
             let now' := Z.max (a_now A) lo in
             let guard := negb (k_waiting k) &&& negb (is_some (k_sched k)) &&& negb (k_stop k) in
             if negb guard then
               acc f (mkA k (a_last A) now' (a_raise_hi A) (a_sched_hi A) (a_pend A) (a_blocked A) rest)
             else
               match a_last A with
               | None =>
                   acc f (mkA (k_call true 0 k) None now' hi (a_sched_hi A) (a_pend A) (a_blocked A) rest)
               | Some (llo, lhi) =>
                   ((d <? hi - llo) &&&
                    acc f (mkA (k_call true 0 k) (a_last A) now' hi (a_sched_hi A)
                               (a_pend A) (a_blocked A) rest))
                   |||
                   ((now' - lhi <=? d) &&&
                    acc f (mkA (k_call false (llo + d) k) (a_last A) now' (a_raise_hi A) (lhi + d)
                               (a_pend A) (a_blocked A) rest))
               end
         | MCancel lo hi :: rest =>
             (a_now A <=? hi) &&&
             acc f (mkA (k_cancel k) (a_last A) (Z.max (a_now A) lo)
                        (if k_stop k then a_raise_hi A else hi) (a_sched_hi A)
                        (a_pend A) (a_blocked A) rest)
         | MFinal lo hi :: rest =>
             (a_now A <=? hi) &&&
             (* what is owed must have happened before the final Cancel *)
             negb (is_some (k_sched k) &&& (a_sched_hi A + m <? lo)) &&&
             negb (negb (match a_blocked A with [] => true | _ => false end)
                   &&& k_next_enabled k &&& (a_raise_hi A + m <? lo)) &&&
             acc f (mkA (k_cancel k) (a_last A) (Z.max (a_now A) lo)
                        (if k_stop k then a_raise_hi A else hi) (a_sched_hi A)
                        (a_pend A) (a_blocked A) rest)
         end)
        |||
        (* a spawned Next enters *)
        lexistsb (fun j =>
          match nfind j ns with
          | None => false
          | Some n =>
              (a_now A <=? n_hi n) &&&
              let now' := Z.max (a_now A) (n_lo n) in
              let pend' := remove_nat j (a_pend A) in
              if k_next_enabled k
              then res_matches k (n_r n) &&& acc f (a_leave A j now' n pend' (a_blocked A))
              else acc f (mkA k (a_last A) now' (a_raise_hi A) (a_sched_hi A)
                              pend' (a_blocked A ++ [j]) (a_main A))
          end) (a_pend A)
        |||
        (* a blocked Next leaves the loop *)
        (k_next_enabled k &&&
         lexistsb (fun j =>
           match nfind j ns with
           | None => false
           | Some n =>
               (a_now A <=? n_hi n) &&& res_matches k (n_r n) &&&
               acc f (a_leave A j (a_now A) n (a_pend A) (remove_nat j (a_blocked A)))
           end) (a_blocked A))
        |||
        (* the trailing-edge timer fires *)
        (match k_sched k with
         | Some dl =>
             acc f (mkA (k_fire k) (a_last A) (Z.max (a_now A) dl) (a_sched_hi A + m) (a_sched_hi A)
                        (a_pend A) (a_blocked A) (a_main A))
         | None => false
         end)
    end.
End Acceptor.

Definition thr_agree (d sl m : Z) (trailing : bool) (ops : list (list Z)) (obs : list Z) : bool :=
  match t_parse sl 0 ops obs with
  | Some (ms, ns) =>
      acc d m ns (4 * length ops + 8)
          (mkA (k_init trailing) None 0 0 0 [] [] ms)
  | None => false
  end.

(* --- the property on the observation, without the model --- *)

Definition calls_of (ms : list mitem) : list (Z * Z) :=
  flat_map (fun i => match i with MCall lo hi => [(lo, hi)] | _ => [] end) ms.
Definition cancels_of (ms : list mitem) : list (Z * Z) :=
  flat_map (fun i => match i with MCancel lo hi => [(lo, hi)] | MFinal lo hi => [(lo, hi)] | _ => [] end) ms.
Definition granted (ns : list nrec) : list nrec := filter (fun n => n_r n =? 1) ns.

(* (T1) at most one permission per period: the two stamps lie in their
   brackets, so both orders must be impossible for a violation *)
Definition t1_ok (d : Z) (strict : bool) (ns : list nrec) : bool :=
  forallb (fun x =>
    forallb (fun y =>
      Nat.eqb (n_id x) (n_id y) ||
      (if strict then (d <? n_hi y - n_lo x) || (d <? n_hi x - n_lo y)
       else (d <=? n_hi y - n_lo x) || (d <=? n_hi x - n_lo y)))
      (granted ns)) (granted ns).

(* (T2) every permission consumes a trigger: a Call that may lie between the
   previous permission (any other permission that may precede it) and this
   one — and, when trailing = false, may lie outside that permission's period *)
Definition t2_ok (d : Z) (trailing : bool) (ms : list mitem) (ns : list nrec) : bool :=
  forallb (fun y =>
    (* some Call may precede the permission *)
    existsb (fun c => fst c <=? n_hi y) (calls_of ms) &&
    forallb (fun x =>
      Nat.eqb (n_id x) (n_id y) ||
      (* x definitely before y ? *)
      negb (n_hi x <? n_lo y) ||
      existsb (fun c => (fst c <=? n_hi y) && (n_lo x <=? snd c) &&
                        (trailing || (d <? snd c - n_lo x))) (calls_of ms))
      (granted ns)) (granted ns).

(* (T3) after Cancel: no permission can have been stamped after it, a Next
   started after it returns false, and every Next has returned *)
Definition t3_ok (ms : list mitem) (ns : list nrec) : bool :=
  forallb (fun n => negb (n_r n =? 3)) ns &&
  forallb (fun c =>
    forallb (fun n => negb (n_r n =? 1) || (n_lo n <=? snd c)) ns) (cancels_of ms).

(* a permission cannot have been stamped before the first trigger: tighten the
   lower end of the bracket of a Next that was blocked for a long time *)
Definition first_call_lo (ms : list mitem) : Z :=
  fold_right (fun c acc => Z.min (fst c) acc) INF (calls_of ms).
Definition tighten (ms : list mitem) (ns : list nrec) : list nrec :=
  map (fun n => mkN (n_id n) (Z.max (n_lo n) (first_call_lo ms)) (n_hi n) (n_r n)) ns.

Definition thr_holds (d sl m : Z) (trailing : bool) (ops : list (list Z)) (obs : list Z) : bool :=
  match t_parse sl 0 ops obs with
  | Some (ms, ns) =>
      t1_ok d (negb trailing) (tighten ms ns) && t2_ok d trailing ms ns && t3_ok ms ns
  | None => false
  end.

(* --- nominal run through the exact timed system --- *)

Record sim := mkS {
  s_st : option tstate;               (* None: the exact system refused an event (never expected) *)
  s_blocked : list nat;               (* FIFO *)
  s_recs : list (nat * (Z * Z))       (* Next j returned at instant with result *)
}.

Definition s_apply (X : sim) (e : tevent) : sim :=
  mkS (match s_st X with Some st => t_step st e | None => None end) (s_blocked X) (s_recs X).

Definition s_now (X : sim) : Z := match s_st X with Some st => t_now st | None => 0 end.
Definition s_core (X : sim) : tcore := match s_st X with Some st => t_core st | None => k_init false end.

(* blocked Nexts leave, oldest first, while the loop condition allows *)
Fixpoint s_settle (fuel : nat) (X : sim) : sim :=
  match fuel with
  | O => X
  | S f =>
      match s_blocked X with
      | [] => X
      | j :: bl =>
          if k_next_enabled (s_core X) then
            let r := k_next_result (s_core X) in
            let X1 := s_apply X (TNextReturn j (s_now X) r) in
            s_settle f (mkS (s_st X1) bl ((j, (s_now X, if r then 1 else 0)) :: s_recs X))
          else X
      end
  end.

(* let the clock reach T (>= now), firing the armed timer on the way *)
Definition s_advance (X : sim) (T : Z) : sim :=
  let X1 :=
    match k_sched (s_core X) with
    | Some dl => if dl <=? T
                 then s_settle (length (s_blocked X)) (s_apply X (TFire (Z.max dl (s_now X))))
                 else X
    | None => X
    end in
  X1.

Fixpoint rec_find (j : nat) (l : list (nat * (Z * Z))) : option (Z * Z) :=
  match l with
  | [] => None
  | (i, v) :: l' => if Nat.eqb i j then Some v else rec_find j l'
  end.

(* main goroutine; returns the sim and the list of (op index, kind, b, a) *)
Fixpoint s_main (j : nat) (T : Z) (ops : list (list Z)) (X : sim) (acc_out : list (nat * Z * Z * Z))
  : sim * list (nat * Z * Z * Z) * Z :=
  match ops with
  | [] => (X, rev acc_out, T)
  | r :: ops' =>
      let o := hd_op r in
      if o =? 0 then
        let X1 := s_settle (length (s_blocked X)) (s_apply X (TCall T)) in
        s_main (S j) T ops' X1 ((j, 0, T, T) :: acc_out)
      else if o =? 2 then
        let X1 := s_settle (length (s_blocked X)) (s_apply X (TCancel T)) in
        s_main (S j) T ops' X1 ((j, 2, T, T) :: acc_out)
      else if o =? 3 then
        let T' := T + us (arg_op r) in
        s_main (S j) T' ops' (s_advance X T') acc_out
      else
        (* Next: enters at once; the main goroutine waits up to arg for it *)
        let X0 := s_apply X (TNextStart j T) in
        let X1 := s_settle (S (length (s_blocked X0)))
                           (mkS (s_st X0) (s_blocked X0 ++ [j]) (s_recs X0)) in
        match rec_find j (s_recs X1) with
        | Some _ => s_main (S j) T ops' X1 ((j, 1, T, T) :: acc_out)
        | None =>
            let T' := T + us (arg_op r) in
            let X2 := s_advance X1 T' in
            let T'' := match rec_find j (s_recs X2) with Some (t, _) => t | None => T' end in
            s_main (S j) T'' ops' X2 ((j, 1, T, T) :: acc_out)
        end
  end.

Definition thr_run (d m : Z) (trailing : bool) (ops : list (list Z)) : list Z :=
  match s_main 0 0 ops (mkS (Some (t_init (us d) trailing)) [] []) [] with
  | (X, outs, T) =>
      let F := T + us d + 2 * us m in
      let X1 := s_advance X F in
      let X2 := s_settle (length (s_blocked X1)) (s_apply X1 (TCancel F)) in
      match s_st X2 with
      | None => wire_error
      | Some _ =>
          flat_map (fun x =>
            match x with
            | (j, kind, b, a) =>
                if kind =? 1 then
                  match rec_find j (s_recs X2) with
                  | Some (t, r) => [b; t; r]
                  | None => [b; -1; 3]
                  end
                else [b; a]
            end) outs ++ [F; F]
      end
  end.

(* ====================================================================== *)
(* dispatch                                                                *)
(* ====================================================================== *)

Definition c20_run (w : list Z) : list Z :=
  match w with
  | 0 :: wait :: stop :: sl :: m :: [] => delay_run wait stop sl m
  | 0 :: wait :: stop :: sl :: m :: _ :: [] => delay_run wait stop sl m
  | 1 :: wait :: sl :: m :: ops => deb_run wait m (chunks 2 ops)
  | 2 :: d :: tr :: sl :: m :: ops => thr_run d m (negb (tr =? 0)) (chunks 2 ops)
  | _ => wire_error
  end.

Definition c20_agree (w obs : list Z) : bool :=
  match w with
  | 0 :: wait :: stop :: sl :: m :: [] => delay_agree (us wait) stop (us sl) (us m) obs
  | 0 :: wait :: stop :: sl :: m :: _ :: [] => delay_agree (us wait) stop (us sl) (us m) obs
  | 1 :: wait :: sl :: m :: ops => deb_agree (us wait) (us sl) (us m) (chunks 2 ops) obs
  | 2 :: d :: tr :: sl :: m :: ops => thr_agree (us d) (us sl) (us m) (negb (tr =? 0)) (chunks 2 ops) obs
  | _ => false
  end.

Definition c20_holds (w obs : list Z) : bool :=
  match w with
  | 0 :: wait :: stop :: sl :: m :: [] => delay_holds (us wait) stop (us sl) (us m) obs
  | 0 :: wait :: stop :: sl :: m :: _ :: [] => delay_holds (us wait) stop (us sl) (us m) obs
  | 1 :: wait :: sl :: m :: ops => deb_holds (us wait) (us sl) (us m) (chunks 2 ops) obs
  | 2 :: d :: tr :: sl :: m :: ops => thr_holds (us d) (us sl) (us m) (negb (tr =? 0)) (chunks 2 ops) obs
  | _ => false
  end.
