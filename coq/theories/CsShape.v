(* CsShape.v — what the two automata of Lock.v accept, spelled out, and why a
   path they accept is a critical-section call in the sense of Atomic.v.

   [cs_shape]: a path accepted by [single_cs_path] (at most one acquisition,
   every access inside it) and by [wb] (bracketing discipline) either touches
   neither the mutex nor the guarded state, or has the form

        pre ++ acquire w :: body ++ release w :: post

   with pre/post made of external calls only and body made of reads, external
   calls and — only if w, the write lock — writes.

   [call_of_body_ok]: for ANY interpretation of the actions as state
   transformers in which only [AWr] actions modify the shared state, the
   critical section [body] is a [call_ok] call of Atomic.v — so the reduction
   theorem applies to every path of every checked method. *)

From Coq Require Import List Bool.
From Gogu Require Import Lock Atomic.
Import ListNotations.

Definition is_ext (a : act) : bool := match a with AExt => true | _ => false end.
Definition is_body (w : bool) (a : act) : bool :=
  match a with ARd _ | AExt => true | AWr _ => w | _ => false end.
Definition acq (w : bool) : act := if w then ALock else ARLock.
Definition rel (w : bool) : act := if w then AUnlock else ARUnlock.
Definition in_mode (w : bool) : mode := if w then InW else InR.

Inductive shape : list act -> Prop :=
| shape_nolock p : forallb is_ext p = true -> shape p
| shape_cs pre w body post :
    forallb is_ext pre = true -> forallb (is_body w) body = true -> forallb is_ext post = true ->
    shape (pre ++ acq w :: body ++ rel w :: post).

Lemma shape_cons_ext p : shape p -> shape (AExt :: p).
Proof.
  intros [p' H | pre w body post H1 H2 H3].
  - apply shape_nolock. cbn. exact H.
  - change (AExt :: pre ++ acq w :: body ++ rel w :: post) with ((AExt :: pre) ++ acq w :: body ++ rel w :: post).
    apply shape_cs; auto.
Qed.

Definition ends_ok (o : option phase) : Prop := o = Some Before \/ o = Some After.

(* after the release only external calls remain *)
Lemma after_only_ext p : ends_ok (qrun phase cs_step After p) -> forallb is_ext p = true.
Proof.
  induction p as [|a p IH]; intros H; [reflexivity|].
  cbn [qrun] in H. destruct a; cbn in H; try (destruct H; discriminate).
  cbn. now apply IH.
Qed.

(* inside the section: accesses until the matching release *)
Lemma inside_split w p :
  ends_ok (qrun phase cs_step Inside p) -> wb_from (in_mode w) p = true ->
  exists body post, p = body ++ rel w :: post /\ forallb (is_body w) body = true /\ forallb is_ext post = true.
Proof.
  induction p as [|a p IH]; intros Hc Hw.
  - cbn in Hc. destruct Hc; discriminate.
  - cbn [qrun] in Hc. cbn [wb_from] in Hw.
    destruct a; cbn in Hc; try (destruct Hc; discriminate).
    + (* AUnlock *) destruct w; cbn in Hw; [|discriminate].
      exists [], p. split; [reflexivity|]. split; [reflexivity|]. now apply after_only_ext.
    + (* ARUnlock *) destruct w; cbn in Hw; [discriminate|].
      exists [], p. split; [reflexivity|]. split; [reflexivity|]. now apply after_only_ext.
    + (* ARd *) assert (Hw' : wb_from (in_mode w) p = true) by (destruct w; exact Hw).
      destruct (IH Hc Hw') as (body & post & -> & Hb & Hp).
      exists (ARd l :: body), post. split; [reflexivity|]. split; [exact Hb | exact Hp].
    + (* AWr *) destruct w; cbn in Hw; [|discriminate].
      destruct (IH Hc Hw) as (body & post & -> & Hb & Hp).
      exists (AWr l :: body), post. split; [reflexivity|]. split; [exact Hb | exact Hp].
    + (* AExt *) assert (Hw' : wb_from (in_mode w) p = true) by (destruct w; exact Hw).
      destruct (IH Hc Hw') as (body & post & -> & Hb & Hp).
      exists (AExt :: body), post. split; [reflexivity|]. split; [exact Hb | exact Hp].
Qed.

Lemma before_shape p :
  ends_ok (qrun phase cs_step Before p) -> wb_from Out p = true -> shape p.
Proof.
  induction p as [|a p IH]; intros Hc Hw.
  - apply shape_nolock. reflexivity.
  - cbn [qrun] in Hc. cbn [wb_from] in Hw.
    destruct a; cbn in Hc, Hw; try discriminate; try (destruct Hc; discriminate).
    + (* ALock *) destruct (inside_split true p Hc Hw) as (body & post & -> & Hb & Hp).
      apply (shape_cs [] true body post); auto.
    + (* ARLock *) destruct (inside_split false p Hc Hw) as (body & post & -> & Hb & Hp).
      apply (shape_cs [] false body post); auto.
    + (* AExt *) apply shape_cons_ext. now apply IH.
Qed.

Theorem cs_shape p : single_cs_path p = true -> wb p = true -> shape p.
Proof.
  unfold single_cs_path, wb. intros Hc Hw. apply before_shape; [|exact Hw].
  destruct (qrun phase cs_step Before p) as [[| |]|]; try discriminate; [now left | now right].
Qed.

(* ---------------- from a body to a call of Atomic.v ---------------- *)

Section Interp.
  Variables (S L R : Type).
  Variable sem : act -> S -> L -> S * L.
  (* the only assumption on the meaning of the actions: what is not a write does not
     modify the guarded state *)
  Hypothesis sem_frame : forall a, (forall l, a <> AWr l) -> forall s l, fst (sem a s l) = s.

  Definition is_wr (a : act) : bool := match a with AWr _ => true | _ => false end.
  Definition ms_of (a : act) : mstep S L := Build_mstep S L (is_wr a) (sem a).
  Definition call_of_body (w : bool) (body : list act) (l0 : L) (ret : L -> R) : ccall S L R :=
    Build_ccall S L R w (map ms_of body) l0 ret.

  Theorem call_of_body_ok w body l0 ret :
    forallb (is_body w) body = true -> call_ok S L R (call_of_body w body l0 ret).
  Proof.
    intros Hb. unfold call_ok, code_ok. cbn. split.
    - apply Forall_forall. intros m Hm. apply in_map_iff in Hm as (a & <- & _).
      intros Hnw s l. cbn in *. apply sem_frame. intros l' ->. discriminate.
    - intros ->. apply Forall_forall. intros m Hm. apply in_map_iff in Hm as (a & <- & Ha).
      rewrite forallb_forall in Hb. specialize (Hb a Ha). destruct a; cbn in *; congruence.
  Qed.
End Interp.
