(* Lin.v — calls that commit atomically are linearizable.

   Parametric in a sequential machine (S, stepm : S -> C -> S * Rt).  A
   concurrent execution is a list of events  Inv t c | Commit t | Res t r : every
   thread alternates Inv, Commit, Res; the Commit of a call applies [stepm]
   to the shared state in one indivisible step (this is what Lock.v's
   [cs_isolation] + [single_cs] give for a method that is one critical section
   under the instance mutex; that connection is argued in DESIGN.md, not proved
   here).  Theorem: the calls in commit order form a legal sequential run that
   produces exactly the results returned in the concurrent execution, and every
   call's commit lies between its invocation and its response, so the order
   respects real time. *)

From Coq Require Import List Arith Bool Lia.
Import ListNotations.

Section Lin.
  Variables (S C Rt : Type).
  Variable stepm : S -> C -> S * Rt.
  Variable s0 : S.

  Inductive event : Type :=
  | Inv (t : nat) (c : C)
  | Commit (t : nat)
  | Res (t : nat) (r : Rt).

  Inductive tstat : Type := Idle | Pending (c : C) | Done (c : C) (r : Rt).

  Record cstate := { sigma : S; stat : nat -> tstat; log : list (nat * C * Rt) (* newest first *) }.

  Definition setst (f : nat -> tstat) (t : nat) (v : tstat) : nat -> tstat :=
    fun u => if Nat.eqb u t then v else f u.

  Definition init_st : cstate := {| sigma := s0; stat := fun _ => Idle; log := [] |}.

  (* [Res t r] carries the result the caller saw; the step is only valid when
     it is the committed one — checked with a decidable equality on results *)
  Variable rt_eqb : Rt -> Rt -> bool.
  Hypothesis rt_eqb_eq : forall a b, rt_eqb a b = true <-> a = b.

  Definition estep (st : cstate) (e : event) : option cstate :=
    match e with
    | Inv t c =>
        match stat st t with
        | Idle => Some {| sigma := sigma st; stat := setst (stat st) t (Pending c); log := log st |}
        | _ => None
        end
    | Commit t =>
        match stat st t with
        | Pending c =>
            let (s', r) := stepm (sigma st) c in
            Some {| sigma := s'; stat := setst (stat st) t (Done c r); log := (t, c, r) :: log st |}
        | _ => None
        end
    | Res t r =>
        match stat st t with
        | Done c r' => if rt_eqb r r'
                       then Some {| sigma := sigma st; stat := setst (stat st) t Idle; log := log st |}
                       else None
        | _ => None
        end
    end.

  Fixpoint erun (st : cstate) (es : list event) : option cstate :=
    match es with
    | [] => Some st
    | e :: es' => match estep st e with Some st' => erun st' es' | None => None end
    end.

  Definition valid (es : list event) : Prop := exists st, erun init_st es = Some st.

  (* sequential replay of a list of calls *)
  Fixpoint replay (s : S) (cs : list C) : S * list Rt :=
    match cs with
    | [] => (s, [])
    | c :: cs' => let (s', r) := stepm s c in let (s'', rs) := replay s' cs' in (s'', r :: rs)
    end.

  Definition lin_calls (st : cstate) : list C := map (fun x => snd (fst x)) (rev (log st)).
  Definition lin_results (st : cstate) : list Rt := map snd (rev (log st)).

  Lemma replay_app s cs1 cs2 :
    replay s (cs1 ++ cs2) =
    let (s1, r1) := replay s cs1 in let (s2, r2) := replay s1 cs2 in (s2, r1 ++ r2).
  Proof.
    revert s; induction cs1 as [|c cs1 IH]; intros s; cbn [app replay].
    - destruct (replay s cs2); reflexivity.
    - destruct (stepm s c) as [s' r]. rewrite IH.
      destruct (replay s' cs1) as [s1 r1]. destruct (replay s1 cs2) as [s2 r2]. reflexivity.
  Qed.

  (* invariant: the log, replayed from s0, yields the logged results and the current shared state *)
  Definition LinInv (st : cstate) : Prop :=
    replay s0 (lin_calls st) = (sigma st, lin_results st) /\
    (forall t c r, stat st t = Done c r -> exists l1 l2, log st = l1 ++ (t, c, r) :: l2 /\
                                            forall x, In x l1 -> fst (fst x) <> t).

  Lemma lininv_init : LinInv init_st.
  Proof. split; [reflexivity | intros t c r H; discriminate]. Qed.

  Lemma lininv_step st e st' : LinInv st -> estep st e = Some st' -> LinInv st'.
  Proof.
    intros [Hrep Hdone] He. destruct e as [t c | t | t r]; cbn [estep] in He.
    - destruct (stat st t) eqn:Et; try discriminate. injection He as <-. split; [exact Hrep|].
      cbn [stat log]. intros u c' r' Hu. unfold setst in Hu.
      destruct (Nat.eqb u t); [discriminate | now apply Hdone].
    - destruct (stat st t) as [|c|] eqn:Et; try discriminate.
      destruct (stepm (sigma st) c) as [s' r] eqn:Es. injection He as <-. split.
      + unfold lin_calls, lin_results in *. cbn [log sigma rev]. rewrite !map_app. cbn [map].
        rewrite replay_app. rewrite Hrep. cbn [replay fst snd]. rewrite Es. reflexivity.
      + cbn [stat log]. intros u c' r' Hu. unfold setst in Hu.
        destruct (Nat.eqb_spec u t) as [-> | Hne].
        * injection Hu as <- <-. exists [], (log st). split; [reflexivity | intros x []].
        * destruct (Hdone u c' r' Hu) as (l1 & l2 & E & Hl1).
          exists ((t, c, r) :: l1), l2. split; [cbn; now rewrite E|].
          intros x [<- | Hx]; [cbn; congruence | now apply Hl1].
    - destruct (stat st t) as [| |c r'] eqn:Et; try discriminate.
      destruct (rt_eqb r r'); [|discriminate]. injection He as <-. split; [exact Hrep|].
      cbn [stat log]. intros u c' r'' Hu. unfold setst in Hu.
      destruct (Nat.eqb u t); [discriminate | now apply Hdone].
  Qed.

  Lemma lininv_run es : forall st st', LinInv st -> erun st es = Some st' -> LinInv st'.
  Proof.
    induction es as [|e es IH]; intros st st' HI Hr; cbn [erun] in Hr.
    - now injection Hr as <-.
    - destruct (estep st e) as [st1|] eqn:E; [|discriminate].
      eapply IH; [eapply lininv_step; eauto | exact Hr].
  Qed.

  (* (1) the commit order is a legal sequential history with the same results and final state *)
  Theorem atomic_linearizable_legal es st :
    erun init_st es = Some st ->
    replay s0 (lin_calls st) = (sigma st, lin_results st).
  Proof. intros H. exact (proj1 (lininv_run es _ _ lininv_init H)). Qed.

  (* (2) every response returns the result its call committed: a valid execution
     ending in [Res t r] has (t, c, r) as the most recent log entry of thread t *)
  Theorem atomic_linearizable_results es t r st :
    erun init_st (es ++ [Res t r]) = Some st ->
    exists c l1 l2, log st = l1 ++ (t, c, r) :: l2 /\ forall x, In x l1 -> fst (fst x) <> t.
  Proof.
    intros H.
    assert (Hsplit : exists st1, erun init_st es = Some st1 /\ estep st1 (Res t r) = Some st).
    { clear -H. revert H. generalize init_st as s. induction es as [|e es IH]; intros s H; cbn [app erun] in *.
      - destruct (estep s (Res t r)) as [s'|] eqn:E; [|discriminate]. injection H as <-. eauto.
      - destruct (estep s e) as [s1|]; [|discriminate]. destruct (IH s1 H) as (st1 & H1 & H2). eauto. }
    destruct Hsplit as (st1 & H1 & H2).
    pose proof (lininv_run es _ _ lininv_init H1) as [_ Hdone].
    cbn [estep] in H2. destruct (stat st1 t) as [| |c r'] eqn:Et; try discriminate.
    destruct (rt_eqb r r') eqn:Er; [|discriminate]. apply rt_eqb_eq in Er. subst r'.
    injection H2 as <-. cbn [log]. destruct (Hdone t c r Et) as (l1 & l2 & E & Hl1). eauto.
  Qed.

  (* (3) real-time order: per thread the events alternate Inv, Commit, Res — so
     each call's commit (its position in the linearization) lies inside the
     call's own interval; a call that returned before another was invoked is
     therefore linearized first *)
  Fixpoint proj_thread (t : nat) (es : list event) : list nat :=   (* 0 Inv, 1 Commit, 2 Res *)
    match es with
    | [] => []
    | Inv u _ :: es' => if Nat.eqb u t then 0 :: proj_thread t es' else proj_thread t es'
    | Commit u :: es' => if Nat.eqb u t then 1 :: proj_thread t es' else proj_thread t es'
    | Res u _ :: es' => if Nat.eqb u t then 2 :: proj_thread t es' else proj_thread t es'
    end.

  Fixpoint alternates (phase : nat) (l : list nat) : bool :=
    match l with
    | [] => true
    | k :: l' => Nat.eqb k phase && alternates (match phase with 0 => 1 | 1 => 2 | _ => 0 end) l'
    end.

  Definition phase_of (s : tstat) : nat := match s with Idle => 0 | Pending _ => 1 | Done _ _ => 2 end.

  Lemma alternates_run es : forall st st' t, erun st es = Some st' ->
    alternates (phase_of (stat st t)) (proj_thread t es) = true.
  Proof.
    induction es as [|e es IH]; intros st st' t Hr; cbn [erun proj_thread] in *; [reflexivity|].
    destruct (estep st e) as [st1|] eqn:E; [|discriminate].
    specialize (IH st1 st' t Hr).
    destruct e as [u c | u | u r]; cbn [estep] in E.
    - destruct (stat st u) eqn:Eu; try discriminate. injection E as <-. cbn [stat] in IH. unfold setst in IH.
      destruct (Nat.eqb_spec u t) as [-> | Hne].
      + rewrite Nat.eqb_refl in IH. rewrite Eu. cbn. exact IH.
      + destruct (Nat.eqb_spec t u); [congruence | exact IH].
    - destruct (stat st u) as [|c|] eqn:Eu; try discriminate.
      destruct (stepm (sigma st) c) as [s' r]. injection E as <-. cbn [stat] in IH. unfold setst in IH.
      destruct (Nat.eqb_spec u t) as [-> | Hne].
      + rewrite Nat.eqb_refl in IH. rewrite Eu. cbn. exact IH.
      + destruct (Nat.eqb_spec t u); [congruence | exact IH].
    - destruct (stat st u) as [| |c r'] eqn:Eu; try discriminate.
      destruct (rt_eqb r r'); [|discriminate]. injection E as <-. cbn [stat] in IH. unfold setst in IH.
      destruct (Nat.eqb_spec u t) as [-> | Hne].
      + rewrite Nat.eqb_refl in IH. rewrite Eu. cbn. exact IH.
      + destruct (Nat.eqb_spec t u); [congruence | exact IH].
  Qed.

  Theorem atomic_linearizable_real_time es : valid es -> forall t, alternates 0 (proj_thread t es) = true.
  Proof. intros [st H] t. exact (alternates_run es init_st st t H). Qed.
  (* every logged call was invoked: the linearization contains only calls of the execution *)
  Definition InvokedInv (seen : list event) (st : cstate) : Prop :=
    (forall t c r, In (t, c, r) (log st) -> In (Inv t c) seen) /\
    (forall t c, stat st t = Pending c -> In (Inv t c) seen).

  Lemma invoked_run es : forall seen st st', InvokedInv seen st -> erun st es = Some st' ->
    InvokedInv (seen ++ es) st'.
  Proof.
    induction es as [|e es IH]; intros seen st st' HI Hr; cbn [erun] in Hr.
    - injection Hr as <-. now rewrite app_nil_r.
    - destruct (estep st e) as [st1|] eqn:E; [|discriminate].
      replace (seen ++ e :: es) with ((seen ++ [e]) ++ es) by (now rewrite <- app_assoc).
      apply (IH _ st1 st'); [|exact Hr]. destruct HI as [Hlog Hpend].
      destruct e as [t c | t | t r]; cbn [estep] in E.
      + destruct (stat st t) eqn:Et; try discriminate. injection E as <-. split; cbn [log stat].
        * intros u c' r' H. apply in_or_app. left. eauto.
        * intros u c' Hu. unfold setst in Hu. apply in_or_app. destruct (Nat.eqb_spec u t) as [-> | Hne].
          -- injection Hu as <-. right. now left.
          -- left. eauto.
      + destruct (stat st t) as [|c|] eqn:Et; try discriminate.
        destruct (stepm (sigma st) c) as [s' r]. injection E as <-. split; cbn [log stat].
        * intros u c' r' [H | H]; apply in_or_app; left; [injection H as <- <- <-; eauto | eauto].
        * intros u c' Hu. unfold setst in Hu. apply in_or_app. left.
          destruct (Nat.eqb u t); [discriminate | eauto].
      + destruct (stat st t) as [| |c r'] eqn:Et; try discriminate.
        destruct (rt_eqb r r'); [|discriminate]. injection E as <-. split; cbn [log stat].
        * intros u c' r'' H. apply in_or_app. left. eauto.
        * intros u c' Hu. unfold setst in Hu. apply in_or_app. left.
          destruct (Nat.eqb u t); [discriminate | eauto].
  Qed.

  Theorem linearization_calls_invoked es st :
    erun init_st es = Some st -> forall c, In c (lin_calls st) -> exists t, In (Inv t c) es.
  Proof.
    intros H c Hc. assert (HI : InvokedInv [] init_st) by (split; cbn; [intros ? ? ? [] | intros; discriminate]).
    destruct (invoked_run es [] init_st st HI H) as [Hlog _]. cbn [app] in Hlog.
    unfold lin_calls in Hc. apply in_map_iff in Hc as ([[t c'] r] & <- & Hin). cbn.
    apply in_rev in Hin. eauto.
  Qed.
End Lin.
