(* Lock.v — a generic theory of RWMutex-bracketed programs.

   A thread is a list of actions on ONE instance: lock operations on the
   instance's RWMutex, reads/writes of numbered guarded locations, escapes of a
   reference to guarded data, and external calls.  Configurations interleave
   any number of threads.  The three-state automaton [wb] ("well bracketed")
   accepts exactly the disciplined threads; the theorems say that a program all
   of whose threads are [wb] has, under EVERY interleaving, no data race, no
   unlock-of-unlocked panic and no deadlock, and that critical sections are
   isolated.  Structured skeletons (what the translator emits from the Go
   source) are checked by the abstract interpreter [check], proved sound
   w.r.t. all their paths.

   What is NOT modelled: writer preference of sync.RWMutex (a waiting writer
   blocks new readers) — it cannot create a race, and without nested
   acquisition (excluded by [wb]) it cannot create a deadlock either, because
   every current holder can always run to its release; external calls are
   assumed to terminate, not to touch guarded state and not to re-enter. *)

From Coq Require Import List Arith Bool Lia PeanoNat.
Import ListNotations.

Inductive act : Type :=
| ALock | AUnlock | ARLock | ARUnlock
| ARd (l : nat) | AWr (l : nat)
| AEscape (l : nat)          (* a reference to mutable guarded data leaves the method *)
| AExt.                      (* call of a function value / interface method / other instance *)

(* ------------------------------------------------------------------ *)
(* The bracketing automaton                                            *)

Inductive mode : Type := Out | InR | InW.

Definition mode_eqb (a b : mode) : bool :=
  match a, b with Out, Out | InR, InR | InW, InW => true | _, _ => false end.

Lemma mode_eqb_eq a b : mode_eqb a b = true <-> a = b.
Proof. destruct a, b; cbn; split; congruence. Qed.

(* one transition; None = discipline broken *)
Definition wb_step (m : mode) (a : act) : option mode :=
  match m, a with
  | Out, ALock => Some InW
  | Out, ARLock => Some InR
  | Out, AExt => Some Out
  | InR, ARd _ => Some InR
  | InR, ARUnlock => Some Out
  | InR, AExt => Some InR
  | InW, ARd _ => Some InW
  | InW, AWr _ => Some InW
  | InW, AUnlock => Some Out
  | InW, AExt => Some InW
  | _, _ => None
  end.

Fixpoint wb_from (m : mode) (p : list act) : bool :=
  match p with
  | [] => mode_eqb m Out
  | a :: p' => match wb_step m a with Some m' => wb_from m' p' | None => false end
  end.

Definition wb (p : list act) : bool := wb_from Out p.

Lemma wb_from_app m p q :
  wb_from m (p ++ q) = true ->
  exists m', (forall r, wb_from m' r = true -> wb_from m (p ++ r) = true) /\ wb_from m' q = true.
Proof.
  revert m; induction p as [|a p IH]; intros m H; cbn [app] in *.
  - exists m. split; auto.
  - cbn [wb_from] in *. destruct (wb_step m a) as [m1|]; [|discriminate].
    destruct (IH m1 H) as (m' & H1 & H2). exists m'. split; auto.
Qed.

(* closed under concatenation: any sequence of disciplined method calls is disciplined *)
Lemma wb_app p q : wb p = true -> wb q = true -> wb (p ++ q) = true.
Proof.
  unfold wb. generalize Out at 1 3 as m. revert q.
  induction p as [|a p IH]; intros q m Hp Hq; cbn [app wb_from] in *.
  - apply mode_eqb_eq in Hp. now subst.
  - destruct (wb_step m a); [|discriminate]. now apply IH.
Qed.

(* ------------------------------------------------------------------ *)
(* Interleaving semantics                                              *)

(* the RWMutex: held by a writer, or by a multiset of readers (R [] = free) *)
Inductive lockst : Type := W (t : nat) | R (ts : list nat).

Record config := { lk : lockst; thr : list (list act) }.

Fixpoint upd {A} (l : list A) (i : nat) (x : A) {struct l} : list A :=
  match l, i with
  | [], _ => []
  | _ :: l', O => x :: l'
  | y :: l', S i' => y :: upd l' i' x
  end.

Lemma upd_length {A} (l : list A) i x : length (upd l i x) = length l.
Proof. revert i; induction l as [|y l IH]; intros [|i]; cbn; auto. Qed.

Lemma nth_error_upd_eq {A} (l : list A) i x : i < length l -> nth_error (upd l i x) i = Some x.
Proof. revert i; induction l as [|y l IH]; intros [|i] H; cbn in *; try lia; auto. apply IH; lia. Qed.

Lemma nth_error_upd_neq {A} (l : list A) i j x : i <> j -> nth_error (upd l i x) j = nth_error l j.
Proof.
  revert i j; induction l as [|y l IH]; intros [|i] [|j] H; cbn; auto; try congruence.
Qed.

Fixpoint remove1 (t : nat) (ts : list nat) : list nat :=
  match ts with
  | [] => []
  | u :: ts' => if Nat.eqb t u then ts' else u :: remove1 t ts'
  end.

(* thread t (whose remaining actions are a :: rest) performs a *)
Inductive step : config -> config -> Prop :=
| St_lock t rest c : nth_error (thr c) t = Some (ALock :: rest) -> lk c = R [] ->
    step c {| lk := W t; thr := upd (thr c) t rest |}
| St_unlock t rest c : nth_error (thr c) t = Some (AUnlock :: rest) -> lk c = W t ->
    step c {| lk := R []; thr := upd (thr c) t rest |}
| St_rlock t rest ts c : nth_error (thr c) t = Some (ARLock :: rest) -> lk c = R ts ->
    step c {| lk := R (t :: ts); thr := upd (thr c) t rest |}
| St_runlock t rest ts c : nth_error (thr c) t = Some (ARUnlock :: rest) -> lk c = R ts -> In t ts ->
    step c {| lk := R (remove1 t ts); thr := upd (thr c) t rest |}
| St_rd t l rest c : nth_error (thr c) t = Some (ARd l :: rest) ->
    step c {| lk := lk c; thr := upd (thr c) t rest |}
| St_wr t l rest c : nth_error (thr c) t = Some (AWr l :: rest) ->
    step c {| lk := lk c; thr := upd (thr c) t rest |}
| St_esc t l rest c : nth_error (thr c) t = Some (AEscape l :: rest) ->
    step c {| lk := lk c; thr := upd (thr c) t rest |}
| St_ext t rest c : nth_error (thr c) t = Some (AExt :: rest) ->
    step c {| lk := lk c; thr := upd (thr c) t rest |}.

Inductive steps : config -> config -> Prop :=
| steps_refl c : steps c c
| steps_step c1 c2 c3 : steps c1 c2 -> step c2 c3 -> steps c1 c3.

Definition init (ps : list (list act)) : config := {| lk := R []; thr := ps |}.
Definition reachable (ps : list (list act)) (c : config) : Prop := steps (init ps) c.

(* the bad things *)
Definition next_act (c : config) (t : nat) : option act :=
  match nth_error (thr c) t with Some (a :: _) => Some a | _ => None end.

Definition accesses (a : act) (l : nat) (is_write : bool) : Prop :=
  match a with
  | ARd l' => l' = l /\ is_write = false
  | AWr l' => l' = l /\ is_write = true
  | _ => False
  end.

(* two distinct threads are about to touch the same location, one of them writing *)
Definition race (c : config) : Prop :=
  exists t1 t2 a1 a2 l w1 w2, t1 <> t2 /\ next_act c t1 = Some a1 /\ next_act c t2 = Some a2 /\
    accesses a1 l w1 /\ accesses a2 l w2 /\ (w1 = true \/ w2 = true).

(* sync: Unlock of an unlocked mutex / RUnlock without RLock is a fatal error *)
Definition lock_panic (c : config) : Prop :=
  exists t, (next_act c t = Some AUnlock /\ lk c <> W t) \/
            (next_act c t = Some ARUnlock /\ forall ts, lk c = R ts -> ~ In t ts) .

Definition unfinished (c : config) : Prop := exists t a, next_act c t = Some a.

(* ------------------------------------------------------------------ *)
(* The invariant                                                       *)

(* the mode thread t is in, as recorded by the lock *)
Definition mode_of (l : lockst) (t : nat) : mode :=
  match l with
  | W u => if Nat.eqb t u then InW else Out
  | R ts => if existsb (Nat.eqb t) ts then InR else Out
  end.

Definition Inv (c : config) : Prop :=
  (forall t p, nth_error (thr c) t = Some p -> wb_from (mode_of (lk c) t) p = true) /\
  (match lk c with
   | W u => u < length (thr c)
   | R ts => NoDup ts /\ forall t, In t ts -> t < length (thr c)
   end).

Lemma existsb_eqb_In t ts : existsb (Nat.eqb t) ts = true <-> In t ts.
Proof.
  rewrite existsb_exists. split.
  - intros (u & Hu & E). apply Nat.eqb_eq in E. now subst.
  - intros H. exists t. split; auto. apply Nat.eqb_refl.
Qed.

Lemma existsb_eqb_notIn t ts : existsb (Nat.eqb t) ts = false <-> ~ In t ts.
Proof.
  rewrite <- existsb_eqb_In. destruct (existsb (Nat.eqb t) ts); split; congruence.
Qed.

Lemma In_remove1 t u ts : NoDup ts -> (In u (remove1 t ts) <-> In u ts /\ u <> t).
Proof.
  induction ts as [|v ts IH]; intros Hnd; cbn [remove1]; [cbn; tauto|].
  inversion Hnd as [|? ? Hv Hnd']; subst.
  destruct (Nat.eqb_spec t v) as [-> | Hne].
  - cbn. split; [intros H; split; [now right| intros ->; contradiction] | intros [[->|H] Hn]; [congruence|exact H]].
  - cbn. rewrite (IH Hnd'). split.
    + intros [-> | [H1 H2]]; [split; [now left | congruence] | split; [now right | exact H2]].
    + intros [[-> | H1] H2]; [now left | right; auto].
Qed.

Lemma NoDup_remove1 t ts : NoDup ts -> NoDup (remove1 t ts).
Proof.
  induction ts as [|v ts IH]; intros Hnd; cbn [remove1]; [constructor|].
  inversion Hnd as [|? ? Hv Hnd']; subst.
  destruct (Nat.eqb t v); [exact Hnd'|].
  constructor; [|auto]. intros Hin. apply In_remove1 in Hin; [|exact Hnd']. tauto.
Qed.

Lemma inv_init ps : (forall p, In p ps -> wb p = true) -> Inv (init ps).
Proof.
  intros H. split; cbn.
  - intros t p Hp. apply H. eapply nth_error_In; eauto.
  - split; [constructor | intros t []].
Qed.

Lemma nth_error_lt {A} (l : list A) i x : nth_error l i = Some x -> i < length l.
Proof. intros H. apply nth_error_Some. congruence. Qed.

Ltac inv_thread Hthr t t' :=
  destruct (Nat.eq_dec t t') as [<- | Hne];
  [ rewrite nth_error_upd_eq in * by (eapply nth_error_lt; eauto)
  | rewrite nth_error_upd_neq in * by exact Hne ].

Lemma inv_step c c' : Inv c -> step c c' -> Inv c'.
Proof.
  intros [Hwb Hlk] Hs.
  destruct Hs as [t rest c Ht Hl | t rest c Ht Hl | t rest ts c Ht Hl | t rest ts c Ht Hl Hin
                  | t l rest c Ht | t l rest c Ht | t l rest c Ht | t rest c Ht];
    pose proof (nth_error_lt _ _ _ Ht) as Hlt;
    pose proof (Hwb t _ Ht) as Hme; cbn [wb_from] in Hme; split; cbn [lk thr];
    try rewrite upd_length.
  - (* Lock *)
    rewrite Hl in *. cbn in Hme.
    intros t' p Hp. destruct (Nat.eq_dec t t') as [<- | Hne].
    + rewrite nth_error_upd_eq in Hp by exact Hlt. injection Hp as <-. cbn. now rewrite Nat.eqb_refl.
    + rewrite nth_error_upd_neq in Hp by exact Hne. specialize (Hwb t' p Hp). cbn in Hwb |- *.
      destruct (Nat.eqb_spec t' t); [congruence | exact Hwb].
  - exact Hlt.
  - (* Unlock *)
    rewrite Hl in *. cbn in Hme. rewrite Nat.eqb_refl in Hme.
    intros t' p Hp. destruct (Nat.eq_dec t t') as [<- | Hne].
    + rewrite nth_error_upd_eq in Hp by exact Hlt. injection Hp as <-. exact Hme.
    + rewrite nth_error_upd_neq in Hp by exact Hne. specialize (Hwb t' p Hp). cbn in Hwb |- *.
      destruct (Nat.eqb_spec t' t); [congruence | exact Hwb].
  - split; [constructor | intros ? []].
  - (* RLock *)
    rewrite Hl in *. destruct Hlk as [Hnd Hb]. cbn [mode_of] in Hme.
    destruct (existsb (Nat.eqb t) ts) eqn:E; cbn in Hme; [discriminate|].
    intros t' p Hp. destruct (Nat.eq_dec t t') as [<- | Hne].
    + rewrite nth_error_upd_eq in Hp by exact Hlt. injection Hp as <-. cbn. now rewrite Nat.eqb_refl.
    + rewrite nth_error_upd_neq in Hp by exact Hne. specialize (Hwb t' p Hp). cbn in Hwb |- *.
      destruct (Nat.eqb_spec t' t); [congruence | exact Hwb].
  - rewrite Hl in *. destruct Hlk as [Hnd Hb]. cbn [mode_of] in Hme.
    destruct (existsb (Nat.eqb t) ts) eqn:E; cbn in Hme; [discriminate|].
    apply existsb_eqb_notIn in E. split; [now constructor|]. intros u [<- | Hu]; auto.
  - (* RUnlock *)
    rewrite Hl in *. destruct Hlk as [Hnd Hb]. cbn [mode_of] in Hme.
    rewrite (proj2 (existsb_eqb_In t ts) Hin) in Hme. cbn in Hme.
    intros t' p Hp. destruct (Nat.eq_dec t t') as [<- | Hne].
    + rewrite nth_error_upd_eq in Hp by exact Hlt. injection Hp as <-. cbn.
      assert (E : existsb (Nat.eqb t) (remove1 t ts) = false).
      { apply existsb_eqb_notIn. intros H. apply In_remove1 in H; [tauto | exact Hnd]. }
      now rewrite E.
    + rewrite nth_error_upd_neq in Hp by exact Hne. specialize (Hwb t' p Hp). cbn in Hwb |- *.
      destruct (existsb (Nat.eqb t') ts) eqn:E1.
      * assert (E2 : existsb (Nat.eqb t') (remove1 t ts) = true).
        { apply existsb_eqb_In. apply In_remove1; [exact Hnd|]. split; [now apply existsb_eqb_In | congruence]. }
        now rewrite E2.
      * assert (E2 : existsb (Nat.eqb t') (remove1 t ts) = false).
        { apply existsb_eqb_notIn. intros H. apply In_remove1 in H; [|exact Hnd].
          apply existsb_eqb_notIn in E1. tauto. }
        now rewrite E2.
  - rewrite Hl in *. destruct Hlk as [Hnd Hb]. split; [now apply NoDup_remove1|].
    intros u Hu. apply In_remove1 in Hu; [|exact Hnd]. apply Hb. tauto.
  - (* Rd *)
    intros t' p Hp. destruct (Nat.eq_dec t t') as [<- | Hne].
    + rewrite nth_error_upd_eq in Hp by exact Hlt. injection Hp as <-.
      destruct (mode_of (lk c) t); cbn in Hme; try discriminate; exact Hme.
    + rewrite nth_error_upd_neq in Hp by exact Hne. now apply Hwb.
  - exact Hlk.
  - (* Wr *)
    intros t' p Hp. destruct (Nat.eq_dec t t') as [<- | Hne].
    + rewrite nth_error_upd_eq in Hp by exact Hlt. injection Hp as <-.
      destruct (mode_of (lk c) t); cbn in Hme; try discriminate; exact Hme.
    + rewrite nth_error_upd_neq in Hp by exact Hne. now apply Hwb.
  - exact Hlk.
  - (* Escape: never accepted by wb *)
    destruct (mode_of (lk c) t); cbn in Hme; discriminate.
  - exact Hlk.
  - (* Ext *)
    intros t' p Hp. destruct (Nat.eq_dec t t') as [<- | Hne].
    + rewrite nth_error_upd_eq in Hp by exact Hlt. injection Hp as <-.
      destruct (mode_of (lk c) t); cbn in Hme; exact Hme.
    + rewrite nth_error_upd_neq in Hp by exact Hne. now apply Hwb.
  - exact Hlk.
Qed.

Lemma inv_reachable ps c : (forall p, In p ps -> wb p = true) -> reachable ps c -> Inv c.
Proof.
  intros H Hr. unfold reachable in Hr. remember (init ps) as c0 eqn:E.
  induction Hr as [c | c1 c2 c3 _ IH Hs]; subst.
  - now apply inv_init.
  - eapply inv_step; eauto.
Qed.

(* ------------------------------------------------------------------ *)
(* Consequences of the invariant                                       *)

Lemma next_act_thread c t a : next_act c t = Some a -> exists rest, nth_error (thr c) t = Some (a :: rest).
Proof.
  unfold next_act. destruct (nth_error (thr c) t) as [[|b rest]|]; try discriminate.
  intros [= ->]. now exists rest.
Qed.

Lemma inv_next_mode c t a :
  Inv c -> next_act c t = Some a -> exists m', wb_step (mode_of (lk c) t) a = Some m'.
Proof.
  intros [Hwb _] Hn. apply next_act_thread in Hn as (rest & Ht).
  specialize (Hwb t _ Ht). cbn [wb_from] in Hwb.
  destruct (wb_step (mode_of (lk c) t) a) as [m'|]; [now exists m' | discriminate].
Qed.

(* at most one thread is in write mode, and then nobody is in read mode *)
Lemma modes_exclusive c t1 t2 :
  t1 <> t2 -> mode_of (lk c) t1 = InW -> mode_of (lk c) t2 = Out.
Proof.
  intros Hne. destruct (lk c) as [u | ts]; cbn.
  - destruct (Nat.eqb_spec t1 u); [|discriminate]. intros _.
    destruct (Nat.eqb_spec t2 u); [congruence | reflexivity].
  - destruct (existsb _ ts); discriminate.
Qed.

Lemma read_mode_excludes_writers c t1 t2 :
  mode_of (lk c) t1 = InR -> mode_of (lk c) t2 <> InW.
Proof.
  destruct (lk c) as [u | ts]; cbn.
  - destruct (Nat.eqb t1 u); discriminate.
  - intros _. destruct (existsb _ ts); discriminate.
Qed.

Lemma inv_no_race c : Inv c -> ~ race c.
Proof.
  intros HI (t1 & t2 & a1 & a2 & l & w1 & w2 & Hne & H1 & H2 & A1 & A2 & Hw).
  destruct (inv_next_mode c t1 a1 HI H1) as (m1 & S1).
  destruct (inv_next_mode c t2 a2 HI H2) as (m2 & S2).
  destruct Hw as [-> | ->].
  - destruct a1; cbn in A1; try contradiction; destruct A1 as [_ ?]; try discriminate.
    assert (M1 : mode_of (lk c) t1 = InW) by (destruct (mode_of (lk c) t1); cbn in S1; congruence).
    pose proof (modes_exclusive c t1 t2 Hne M1) as M2. rewrite M2 in S2.
    destruct a2; cbn in A2; try contradiction; cbn in S2; discriminate.
  - destruct a2; cbn in A2; try contradiction; destruct A2 as [_ ?]; try discriminate.
    assert (M2 : mode_of (lk c) t2 = InW) by (destruct (mode_of (lk c) t2); cbn in S2; congruence).
    assert (Hne' : t2 <> t1) by congruence.
    pose proof (modes_exclusive c t2 t1 Hne' M2) as M1. rewrite M1 in S1.
    destruct a1; cbn in A1; try contradiction; cbn in S1; discriminate.
Qed.

Lemma inv_no_lock_panic c : Inv c -> ~ lock_panic c.
Proof.
  intros HI (t & [[Hn Hl] | [Hn Hl]]).
  - destruct (inv_next_mode c t _ HI Hn) as (m & S).
    destruct (lk c) as [u | ts] eqn:E; cbn in S.
    + destruct (Nat.eqb_spec t u); [subst; congruence | discriminate].
    + destruct (existsb _ ts); discriminate.
  - destruct (inv_next_mode c t _ HI Hn) as (m & S).
    destruct (lk c) as [u | ts] eqn:E; cbn in S.
    + destruct (Nat.eqb t u); discriminate.
    + destruct (existsb (Nat.eqb t) ts) eqn:E2; [|discriminate].
      apply existsb_eqb_In in E2. exact (Hl ts eq_refl E2).
Qed.

(* progress: some thread can always move while anything is left to do *)
Lemma inv_progress c : Inv c -> unfinished c -> exists c', step c c'.
Proof.
  intros HI (t0 & a0 & Hn0).
  pose proof HI as [Hwb Hlk].
  destruct (lk c) as [u | ts] eqn:El.
  - (* a writer holds the lock: it is in InW, so it has a next action, and that action is enabled *)
    destruct (nth_error (thr c) u) as [p|] eqn:Eu; [|apply nth_error_None in Eu; lia].
    pose proof (Hwb u p Eu) as Hu. try rewrite El in Hu. cbn in Hu. rewrite Nat.eqb_refl in Hu.
    destruct p as [|a rest]; [discriminate|]. cbn [wb_from] in Hu.
    destruct a; cbn in Hu; try discriminate.
    + eexists. eapply St_unlock; eauto.
    + eexists. eapply St_rd; eauto.
    + eexists. eapply St_wr; eauto.
    + eexists. eapply St_ext; eauto.
  - destruct ts as [|r ts'].
    + (* free: every thread is Out; the unfinished one can move *)
      apply next_act_thread in Hn0 as (rest & Ht0).
      pose proof (Hwb t0 _ Ht0) as H0. try rewrite El in H0. cbn in H0.
      destruct a0; cbn in H0; try discriminate.
      * eexists. eapply St_lock; eauto.
      * eexists. eapply St_rlock; eauto.
      * eexists. eapply St_ext; eauto.
    + (* a reader r holds it: r is InR, has a next action, which is enabled *)
      destruct Hlk as [Hnd Hb].
      assert (Hr : r < length (thr c)) by (apply Hb; now left).
      destruct (nth_error (thr c) r) as [p|] eqn:Er; [|apply nth_error_None in Er; lia].
      pose proof (Hwb r p Er) as Hu. try rewrite El in Hu. cbn in Hu. rewrite Nat.eqb_refl in Hu. cbn in Hu.
      destruct p as [|a rest]; [discriminate|]. cbn [wb_from] in Hu.
      destruct a; cbn in Hu; try discriminate.
      * eexists. eapply St_runlock; eauto. now left.
      * eexists. eapply St_rd; eauto.
      * eexists. eapply St_ext; eauto.
Qed.

(* ------------------------------------------------------------------ *)
(* The theorems about programs                                         *)

Section Programs.
  Variable ps : list (list act).
  Hypothesis all_wb : forall p, In p ps -> wb p = true.

  Theorem wb_race_free : forall c, reachable ps c -> ~ race c.
  Proof. intros c Hr. apply inv_no_race. eapply inv_reachable; eauto. Qed.

  Theorem wb_no_lock_panic : forall c, reachable ps c -> ~ lock_panic c.
  Proof. intros c Hr. apply inv_no_lock_panic. eapply inv_reachable; eauto. Qed.

  Theorem wb_no_deadlock : forall c, reachable ps c -> unfinished c -> exists c', step c c'.
  Proof. intros c Hr. apply inv_progress. eapply inv_reachable; eauto. Qed.

  (* isolation of critical sections: while a thread is about to write, every
     other thread is outside any section (its next action is no access); while
     a thread is about to read, no other thread is about to write *)
  Theorem cs_isolation : forall c t a l w, reachable ps c -> next_act c t = Some a -> accesses a l w ->
    forall t' a' l' w', t' <> t -> next_act c t' = Some a' -> accesses a' l' w' -> w = false /\ w' = false.
  Proof.
    intros c t a l w Hr Hn Ha t' a' l' w' Hne Hn' Ha'.
    pose proof (inv_reachable ps c all_wb Hr) as HI.
    destruct (inv_next_mode c t a HI Hn) as (m1 & S1).
    destruct (inv_next_mode c t' a' HI Hn') as (m2 & S2).
    destruct a; cbn in Ha; try contradiction; destruct Ha as [_ ->];
      destruct a'; cbn in Ha'; try contradiction; destruct Ha' as [_ ->]; auto; exfalso.
    - assert (M2 : mode_of (lk c) t' = InW) by (destruct (mode_of (lk c) t'); cbn in S2; congruence).
      rewrite (modes_exclusive c t' t Hne M2) in S1. discriminate.
    - assert (M1 : mode_of (lk c) t = InW) by (destruct (mode_of (lk c) t); cbn in S1; congruence).
      assert (Hne' : t <> t') by congruence.
      rewrite (modes_exclusive c t t' Hne' M1) in S2. discriminate.
    - assert (M1 : mode_of (lk c) t = InW) by (destruct (mode_of (lk c) t); cbn in S1; congruence).
      assert (Hne' : t <> t') by congruence.
      rewrite (modes_exclusive c t t' Hne' M1) in S2. discriminate.
  Qed.
End Programs.

(* ------------------------------------------------------------------ *)
(* Structured skeletons and their abstract interpretation              *)

Inductive sk : Type :=
| SAct (a : act)
| SSkip
| SSeq (s1 s2 : sk)
| SIf (s1 s2 : sk)        (* either branch *)
| SLoop (s : sk)          (* zero or more iterations *)
| SRet                    (* return from the innermost enclosing SCall (or from the method) *)
| SCall (s : sk).         (* an inlined callee: an SRet inside ends the callee only *)

(* [path s p ret]: p is the action sequence of one run of s; ret = it ended in SRet *)
Inductive path : sk -> list act -> bool -> Prop :=
| P_act a : path (SAct a) [a] false
| P_skip : path SSkip [] false
| P_seq_ret s1 s2 p : path s1 p true -> path (SSeq s1 s2) p true
| P_seq s1 s2 p1 p2 b : path s1 p1 false -> path s2 p2 b -> path (SSeq s1 s2) (p1 ++ p2) b
| P_if_l s1 s2 p b : path s1 p b -> path (SIf s1 s2) p b
| P_if_r s1 s2 p b : path s2 p b -> path (SIf s1 s2) p b
| P_loop_0 s : path (SLoop s) [] false
| P_loop_ret s p : path s p true -> path (SLoop s) p true
| P_loop_n s p1 p2 b : path s p1 false -> path (SLoop s) p2 b -> path (SLoop s) (p1 ++ p2) b
| P_ret : path SRet [] true
| P_call s p b : path s p b -> path (SCall s) p false.

(* A generic abstract interpreter over a deterministic automaton (Q, qstep)
   equipped with a simulation preorder [le] (le a b: whatever b may still do, a
   may do too, staying related) and a partial upper bound [join].
   Result of running s from abstract state q:
     None                 some path may break the automaton's discipline
     Some (f, r)          f bounds the states in which paths that fall through end (None: none does)
                          r bounds the states in which paths that return end       (None: none does) *)
Section AbsInt.
  Variable Q : Type.
  Variable qstep : Q -> act -> option Q.
  Variable le : Q -> Q -> bool.
  Variable join : Q -> Q -> option Q.
  Hypothesis le_refl : forall a, le a a = true.
  Hypothesis le_trans : forall a b c, le a b = true -> le b c = true -> le a c = true.
  Hypothesis le_sim : forall a b x b', le a b = true -> qstep b x = Some b' ->
                                       exists a', qstep a x = Some a' /\ le a' b' = true.
  Hypothesis join_ub : forall a b c, join a b = Some c -> le a c = true /\ le b c = true.

  Definition merge (a b : option Q) : option (option Q) :=
    match a, b with
    | None, x | x, None => Some x
    | Some x, Some y => match join x y with Some z => Some (Some z) | None => None end
    end.

  Fixpoint gexec (s : sk) (q : Q) : option (option Q * option Q) :=
    match s with
    | SAct a => match qstep q a with Some q' => Some (Some q', None) | None => None end
    | SSkip => Some (Some q, None)
    | SSeq s1 s2 =>
        match gexec s1 q with
        | None => None
        | Some (None, r1) => Some (None, r1)
        | Some (Some q1, r1) =>
            match gexec s2 q1 with
            | None => None
            | Some (f2, r2) => match merge r1 r2 with Some r => Some (f2, r) | None => None end
            end
        end
    | SIf s1 s2 =>
        match gexec s1 q, gexec s2 q with
        | Some (f1, r1), Some (f2, r2) =>
            match merge f1 f2, merge r1 r2 with
            | Some f, Some r => Some (f, r)
            | _, _ => None
            end
        | _, _ => None
        end
    | SLoop s1 =>
        match gexec s1 q with
        | None => None
        | Some (f1, r1) =>
            (* the body must come back below the state it started in *)
            match f1 with
            | None => Some (Some q, r1)
            | Some q1 => if le q1 q then Some (Some q, r1) else None
            end
        end
    | SRet => Some (None, Some q)
    | SCall s1 =>
        match gexec s1 q with
        | None => None
        | Some (f1, r1) => match merge f1 r1 with Some f => Some (f, None) | None => None end
        end
    end.

  Fixpoint qrun (q : Q) (p : list act) : option Q :=
    match p with
    | [] => Some q
    | a :: p' => match qstep q a with Some q' => qrun q' p' | None => None end
    end.

  Lemma qrun_app q p p' : qrun q (p ++ p') = match qrun q p with Some q' => qrun q' p' | None => None end.
  Proof.
    revert q; induction p as [|a p IH]; intros q; cbn; [reflexivity|].
    destruct (qstep q a); [apply IH | reflexivity].
  Qed.

  (* [bounded o q']: the concrete end state q' is below the abstract bound o *)
  Definition bounded (o : option Q) (q' : Q) : Prop := exists z, o = Some z /\ le q' z = true.

  Lemma merge_l a b c q' : merge a b = Some c -> bounded a q' -> bounded c q'.
  Proof.
    intros H (x & -> & Hx). destruct b as [y|]; cbn in H.
    - destruct (join x y) as [z|] eqn:E; [|discriminate]. injection H as <-.
      exists z. split; auto. destruct (join_ub _ _ _ E). eauto.
    - injection H as <-. exists x. auto.
  Qed.
  Lemma merge_r a b c q' : merge a b = Some c -> bounded b q' -> bounded c q'.
  Proof.
    intros H (y & -> & Hy). destruct a as [x|]; cbn in H.
    - destruct (join x y) as [z|] eqn:E; [|discriminate]. injection H as <-.
      exists z. split; auto. destruct (join_ub _ _ _ E). eauto.
    - injection H as <-. exists y. auto.
  Qed.

  Lemma gexec_sound s p b : path s p b -> forall q qa f r, le q qa = true -> gexec s qa = Some (f, r) ->
    exists q', qrun q p = Some q' /\ (if b then bounded r q' else bounded f q').
  Proof.
    induction 1 as [a | | s1 s2 p H1 IH1 | s1 s2 p1 p2 b H1 IH1 H2 IH2 | s1 s2 p b H1 IH1 | s1 s2 p b H1 IH1
                    | s | s p H1 IH1 | s p1 p2 b H1 IH1 H2 IH2 | | s p b H1 IH1 ]; intros q qa f r Hle Hr; cbn [gexec] in Hr.
    - destruct (qstep qa a) as [qa'|] eqn:E; [|discriminate]. injection Hr as <- <-.
      destruct (le_sim _ _ _ _ Hle E) as (q' & Hq & Hle'). exists q'. cbn. rewrite Hq. split; auto.
      exists qa'. auto.
    - injection Hr as <- <-. exists q. split; auto. exists qa. auto.
    - destruct (gexec s1 qa) as [[[q1|] r1]|] eqn:E; try discriminate.
      + destruct (gexec s2 q1) as [[f2 r2]|]; [|discriminate].
        destruct (merge r1 r2) as [r'|] eqn:Em; [|discriminate]. injection Hr as <- <-.
        destruct (IH1 q qa _ _ Hle E) as (q' & Hq & Hr1). exists q'. split; [exact Hq|]. eapply merge_l; eauto.
      + injection Hr as <- <-. eapply IH1; eauto.
    - destruct (gexec s1 qa) as [[[q1|] r1]|] eqn:E; try discriminate.
      + destruct (gexec s2 q1) as [[f2 r2]|] eqn:E2; [|discriminate].
        destruct (merge r1 r2) as [r'|] eqn:Em; [|discriminate]. injection Hr as <- <-.
        destruct (IH1 q qa _ _ Hle E) as (q' & Hq & (z & Hz & Hlez)). injection Hz as <-.
        destruct (IH2 q' q1 _ _ Hlez E2) as (q'' & Hq2 & Hb).
        exists q''. rewrite qrun_app, Hq. split; [exact Hq2|].
        destruct b; [eapply merge_r; eauto | exact Hb].
      + destruct (IH1 q qa _ _ Hle E) as (q' & _ & (z & Hz & _)). discriminate.
    - destruct (gexec s1 qa) as [[f1 r1]|] eqn:E1; [|discriminate].
      destruct (gexec s2 qa) as [[f2 r2]|] eqn:E2; [|discriminate].
      destruct (merge f1 f2) as [f'|] eqn:Ef; [|discriminate].
      destruct (merge r1 r2) as [r'|] eqn:Em; [|discriminate]. injection Hr as <- <-.
      destruct (IH1 q qa _ _ Hle E1) as (q' & Hq & Hb). exists q'. split; [exact Hq|].
      destruct b; eapply merge_l; eauto.
    - destruct (gexec s1 qa) as [[f1 r1]|] eqn:E1; [|discriminate].
      destruct (gexec s2 qa) as [[f2 r2]|] eqn:E2; [|discriminate].
      destruct (merge f1 f2) as [f'|] eqn:Ef; [|discriminate].
      destruct (merge r1 r2) as [r'|] eqn:Em; [|discriminate]. injection Hr as <- <-.
      destruct (IH1 q qa _ _ Hle E2) as (q' & Hq & Hb). exists q'. split; [exact Hq|].
      destruct b; eapply merge_r; eauto.
    - destruct (gexec s qa) as [[f1 r1]|]; [|discriminate].
      assert (Hres : f = Some qa).
      { destruct f1 as [q1|]; [destruct (le q1 qa); [|discriminate]|]; now injection Hr as <- <-. }
      subst f. exists q. split; auto. exists qa. auto.
    - destruct (gexec s qa) as [[f1 r1]|] eqn:E; [|discriminate].
      assert (Hres : r = r1).
      { destruct f1 as [q1|]; [destruct (le q1 qa); [|discriminate]|]; now injection Hr as <- <-. }
      subst r. eapply IH1; eauto.
    - destruct (gexec s qa) as [[f1 r1]|] eqn:E; [|discriminate].
      destruct (IH1 q qa _ _ Hle E) as (q' & Hq & (z & Hz & Hlez)). subst f1.
      destruct (le z qa) eqn:Ez; [|discriminate]. injection Hr as <- <-.
      destruct (IH2 q' qa (Some qa) r1) as (q'' & Hq2 & Hb).
      { eapply le_trans; eauto. }
      { cbn [gexec]. rewrite E, Ez. reflexivity. }
      exists q''. rewrite qrun_app, Hq. auto.
    - injection Hr as <- <-. exists q. split; auto. exists qa. auto.
    - destruct (gexec s qa) as [[f1 r1]|] eqn:E; [|discriminate].
      destruct (merge f1 r1) as [m|] eqn:Em; [|discriminate]. injection Hr as <- <-.
      destruct (IH1 q qa _ _ Hle E) as (q' & Hq & Hb). exists q'. split; [exact Hq|].
      destruct b; [eapply merge_r; eauto | eapply merge_l; eauto].
  Qed.
End AbsInt.

(* --- instance 1: the bracketing discipline (le = equality) --- *)

Definition mode_join (a b : mode) : option mode := if mode_eqb a b then Some a else None.

Lemma mode_le_refl a : mode_eqb a a = true. Proof. now apply mode_eqb_eq. Qed.
Lemma mode_le_trans a b c : mode_eqb a b = true -> mode_eqb b c = true -> mode_eqb a c = true.
Proof. rewrite !mode_eqb_eq. congruence. Qed.
Lemma mode_le_sim a b x b' : mode_eqb a b = true -> wb_step b x = Some b' ->
  exists a', wb_step a x = Some a' /\ mode_eqb a' b' = true.
Proof. rewrite mode_eqb_eq. intros -> H. exists b'. split; auto. apply mode_le_refl. Qed.
Lemma mode_join_ub a b c : mode_join a b = Some c -> mode_eqb a c = true /\ mode_eqb b c = true.
Proof.
  unfold mode_join. destruct (mode_eqb a b) eqn:E; [|discriminate]. intros [= <-].
  apply mode_eqb_eq in E. subst. split; apply mode_le_refl.
Qed.

Definition ok_end_mode (o : option mode) : bool :=
  match o with None => true | Some m => mode_eqb m Out end.

Definition check (s : sk) : bool :=
  match gexec mode wb_step mode_eqb mode_join s Out with
  | Some (f, r) => ok_end_mode f && ok_end_mode r
  | None => false
  end.

Lemma wb_from_qrun m p : wb_from m p = true <-> qrun mode wb_step m p = Some Out.
Proof.
  revert m; induction p as [|a p IH]; intros m; cbn.
  - rewrite mode_eqb_eq. split; congruence.
  - destruct (wb_step m a); [apply IH | split; discriminate].
Qed.

(* every path of a checked skeleton is well bracketed *)
Theorem check_sound s : check s = true -> forall p b, path s p b -> wb p = true.
Proof.
  unfold check, wb. intros Hc p b Hp.
  destruct (gexec mode wb_step mode_eqb mode_join s Out) as [[f r]|] eqn:E; [|discriminate].
  apply andb_prop in Hc as [Hf Hr].
  destruct (gexec_sound mode wb_step mode_eqb mode_join mode_le_trans mode_le_sim mode_join_ub
              s p b Hp Out Out f r (mode_le_refl Out) E) as (q' & Hq & Hb).
  apply wb_from_qrun. rewrite Hq. f_equal.
  destruct b; destruct Hb as (z & -> & Hz); cbn in *; apply mode_eqb_eq in Hz; subst;
    now apply mode_eqb_eq.
Qed.

(* ------------------------------------------------------------------ *)
(* One critical section per call (used by C02)                         *)

(* phases of a call: before any acquisition / inside the section / after it *)
Inductive phase : Type := Before | Inside | After.
Definition phase_eqb (a b : phase) : bool :=
  match a, b with Before, Before | Inside, Inside | After, After => true | _, _ => false end.
Lemma phase_eqb_eq a b : phase_eqb a b = true <-> a = b.
Proof. destruct a, b; cbn; split; congruence. Qed.

Definition cs_step (ph : phase) (a : act) : option phase :=
  match ph, a with
  | Before, (ALock | ARLock) => Some Inside
  | Before, AExt => Some Before
  | Inside, (AUnlock | ARUnlock) => Some After
  | Inside, (ARd _ | AWr _ | AExt) => Some Inside
  | After, AExt => Some After
  | _, _ => None                      (* a second acquisition, or an access outside *)
  end.

(* Before is below After: a call that has not acquired yet may still do
   everything a call that already finished its section may do (external calls) *)
Definition phase_le (a b : phase) : bool :=
  match a, b with
  | Before, After => true
  | _, _ => phase_eqb a b
  end.
Definition phase_join (a b : phase) : option phase :=
  match a, b with
  | Before, After | After, Before => Some After
  | _, _ => if phase_eqb a b then Some a else None
  end.

Lemma phase_le_refl a : phase_le a a = true. Proof. destruct a; reflexivity. Qed.
Lemma phase_le_trans a b c : phase_le a b = true -> phase_le b c = true -> phase_le a c = true.
Proof. destruct a, b, c; cbn; congruence. Qed.
Lemma phase_le_sim a b x b' : phase_le a b = true -> cs_step b x = Some b' ->
  exists a', cs_step a x = Some a' /\ phase_le a' b' = true.
Proof.
  destruct a, b; cbn; try discriminate; intros _ H.
  - exists b'. split; auto. apply phase_le_refl.
  - destruct x; cbn in *; try discriminate. injection H as <-. exists Before. auto.
  - exists b'. split; auto. apply phase_le_refl.
  - exists b'. split; auto. apply phase_le_refl.
Qed.
Lemma phase_join_ub a b c : phase_join a b = Some c -> phase_le a c = true /\ phase_le b c = true.
Proof. destruct a, b; cbn; intros [= <-]; auto. Qed.

(* a call is a single critical section: it acquires at most once and all its
   accesses lie inside that one acquisition *)
Definition single_cs_path (p : list act) : bool :=
  match qrun phase cs_step Before p with Some (Before | After) => true | _ => false end.

Definition ok_end_phase (o : option phase) : bool :=
  match o with None | Some Before | Some After => true | Some Inside => false end.

Definition single_cs (s : sk) : bool :=
  match gexec phase cs_step phase_le phase_join s Before with
  | Some (f, r) => ok_end_phase f && ok_end_phase r
  | None => false
  end.

Theorem single_cs_sound s : single_cs s = true -> forall p b, path s p b -> single_cs_path p = true.
Proof.
  unfold single_cs, single_cs_path. intros Hc p b Hp.
  destruct (gexec phase cs_step phase_le phase_join s Before) as [[f r]|] eqn:E; [|discriminate].
  apply andb_prop in Hc as [Hf Hr].
  destruct (gexec_sound phase cs_step phase_le phase_join phase_le_trans phase_le_sim phase_join_ub
              s p b Hp Before Before f r (phase_le_refl Before) E) as (q' & Hq & Hb).
  rewrite Hq. destruct b; destruct Hb as (z & -> & Hz); cbn in *; destruct q', z; cbn in *; congruence.
Qed.
