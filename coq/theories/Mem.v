(* Mem.v — explicit node heap for code that performs pointer surgery with
   sharing and struct copies (list/slist.go, list/dlist.go).

     mem   = list node           address a  =  index a  (allocation is monotone, nothing is freed)
     node  = {val; next; prev}   a Go *Node is an [option addr]  (nil = None)

   Every Go statement is one heap update:  [x := *p] is a [load], [*p = x] a
   [store], [v := someStruct] whose address is taken later is an [alloc] of a
   copy, [&l.Node] of the embedded head is address 0.  A nil / dangling
   dereference is [Fault] (the Go panic), a loop that exhausts its fuel is
   [Hang] (distinct from Fault; theorems prove it away by giving enough fuel).

   SList nodes have no [prev] field in Go; here they carry [prev = None], never
   read and never written (only copied along) by the SList model.

   The file contains the definitions and the elementary laws of load / store /
   alloc.  Nothing here is specific to one list type. *)

From Gogu Require Import Base.
Local Open Scope nat_scope.

Notation addr := nat (only parsing).

Record node := mkNode { val : Z; next : option addr; prev : option addr }.

Definition mem := list node.

Definition load (m : mem) (a : addr) : option node := nth_error m a.

Fixpoint store (m : mem) (a : addr) (n : node) : mem :=
  match m, a with
  | [], _ => []
  | _ :: m', O => n :: m'
  | x :: m', S a' => x :: store m' a' n
  end.

(* new(node): the fresh address is the old size;  a := fresh m; m' := alloc m n *)
Definition fresh (m : mem) : addr := length m.
Definition alloc (m : mem) (n : node) : mem := m ++ [n].

Definition set_val (n : node) (v : Z) : node := mkNode v (next n) (prev n).
Definition set_next (n : node) (p : option addr) : node := mkNode (val n) p (prev n).
Definition set_prev (n : node) (p : option addr) : node := mkNode (val n) (next n) p.

(* ---------- outcomes ---------- *)

Inductive outcome (A : Type) : Type :=
| Done (a : A)
| Fault          (* nil dereference: the Go panic *)
| Hang.          (* fuel exhausted: the Go loop does not terminate *)
Arguments Done {A} a.
Arguments Fault {A}.
Arguments Hang {A}.

Definition bind {A B} (x : outcome A) (k : A -> outcome B) : outcome B :=
  match x with
  | Done a => k a
  | Fault => Fault
  | Hang => Hang
  end.

Notation "x <- e ;; k" := (bind e (fun x => k))
  (at level 61, e at next level, right associativity).
Notation "' p <- e ;; k" := (bind e (fun p => k))
  (at level 61, p pattern, e at next level, right associativity).

(* *p for a pointer known to be non-nil syntactically (&l.Node, a fresh node) *)
Definition ld (m : mem) (a : addr) : outcome node :=
  match load m a with Some n => Done n | None => Fault end.

(* *p for an arbitrary pointer: nil dereference faults *)
Definition deref (m : mem) (p : option addr) : outcome (addr * node) :=
  match p with
  | None => Fault
  | Some a => match load m a with Some n => Done (a, n) | None => Fault end
  end.

(* p.f = x *)
Definition upd (m : mem) (a : addr) (f : node -> node) : outcome mem :=
  match load m a with Some n => Done (store m a (f n)) | None => Fault end.

(* the fuel given to every loop that walks the heap *)
Definition fuel_of (m : mem) : nat := S (length m).

(* ---------- laws ---------- *)

Lemma store_length m a n : length (store m a n) = length m.
Proof. revert a; induction m as [|x m IH]; intros [|a]; cbn; auto. Qed.

Lemma load_store_eq m a n : a < length m -> load (store m a n) a = Some n.
Proof.
  unfold load. revert a; induction m as [|x m IH]; intros [|a] H; cbn in *; try lia; auto.
  apply IH; lia.
Qed.

Lemma load_store_neq m a b n : a <> b -> load (store m a n) b = load m b.
Proof.
  unfold load. revert a b; induction m as [|x m IH]; intros [|a] [|b] H; cbn; auto; try congruence.
Qed.

Lemma load_lt m a n : load m a = Some n -> a < length m.
Proof. unfold load. intros H. apply nth_error_Some. congruence. Qed.

Lemma load_ge m a : length m <= a -> load m a = None.
Proof. unfold load. apply nth_error_None. Qed.

Lemma load_some_of_lt m a : a < length m -> exists n, load m a = Some n.
Proof.
  intros H. unfold load. destruct (nth_error m a) eqn:E; eauto.
  apply nth_error_None in E. lia.
Qed.

Lemma store_same m a n : load m a = Some n -> store m a n = m.
Proof.
  unfold load. revert a; induction m as [|x m IH]; intros [|a] H; cbn in *; try discriminate; auto.
  - congruence.
  - f_equal; auto.
Qed.

Lemma store_store m a n1 n2 : store (store m a n1) a n2 = store m a n2.
Proof. revert a; induction m as [|x m IH]; intros [|a]; cbn; auto. f_equal; auto. Qed.

Lemma load_alloc_old m n a : a < length m -> load (alloc m n) a = load m a.
Proof. intros H. unfold load, alloc. now rewrite nth_error_app1. Qed.

Lemma load_alloc_new m n : load (alloc m n) (fresh m) = Some n.
Proof. unfold load, alloc, fresh. rewrite nth_error_app2 by lia. now rewrite Nat.sub_diag. Qed.

Lemma alloc_length m n : length (alloc m n) = S (length m).
Proof. unfold alloc. rewrite app_length; cbn; lia. Qed.
