(* SliceMem.v — Go slices and maps over an explicit object memory (used by C16).

   memory  = list of objects, an object is identified by its position; an object
             is an array (the backing store of slices) or a map, stored as the
             flat list k1 v1 k2 v2 ... of its entries in iteration order;
   a slice = a window {arr; off; len; cap} into one array (cap counted from off,
             as Go's cap());
   make    allocates a new array;
   s[i]    reads / s[i] = v writes inside [0, len) — outside is a run-time panic;
   s[lo:hi] re-slices (0 <= lo <= hi <= cap), sharing the array;
   append(s, vs...) writes IN PLACE right behind the window when len+k <= cap
            and otherwise copies into a freshly allocated array — the Go rule,
            the only part of the growth policy that matters for aliasing.  How
            much spare capacity a reallocating append leaves is the runtime's
            business: it is the parameter [slack] of every function below and no
            theorem assumes anything about it.

   make(map) allocates a new (empty) object; m[k] = v and delete(m, k) replace
   the object of THAT map; lookups and `range` (a snapshot of the entries, in
   the stored order — Go leaves the order open, no theorem depends on it) only
   read.  Maps and arrays share the id space but a Go program can never use one
   as the other; the theorems hold for every descriptor anyway.

   Computations are  M A := mem -> option A * mem ; the answer [None] is a Go
   run-time panic (index out of range, explicit panic) or, for the fuel-driven
   loops, exhausted fuel.  The memory is kept in BOTH cases: what a call has
   written before it panics stays written, exactly as in Go, so the theorems
   can speak about the arguments after a call that failed.  Definitions only;
   the lemmas are in C16_Proofs.v. *)

From Gogu Require Import Base C14_Model.
Local Open Scope nat_scope.

Definition mem := list (list Z).

Record slice := mkSlice { s_arr : nat; s_off : nat; s_len : nat; s_cap : nat }.

Definition arr_of (m : mem) (id : nat) : list Z := nth id m [].
Definition cell (m : mem) (id i : nat) : Z := nth i (arr_of m id) 0%Z.

Fixpoint set_nth {A} (l : list A) (i : nat) (x : A) : list A :=
  match l, i with
  | [], _ => []
  | _ :: t, O => x :: t
  | h :: t, S i' => h :: set_nth t i' x
  end.

Definition write_cell (m : mem) (id i : nat) (v : Z) : mem :=
  set_nth m id (set_nth (arr_of m id) i v).

(* vs written over arr from position i on (what falls behind the end of arr is dropped) *)
Definition splice (arr : list Z) (i : nat) (vs : list Z) : list Z :=
  firstn i arr ++ firstn (length arr - i) vs ++ skipn (i + length vs) arr.

Definition write_from (m : mem) (id i : nat) (vs : list Z) : mem :=
  set_nth m id (splice (arr_of m id) i vs).

(* the elements a slice currently shows *)
Definition read_all (m : mem) (s : slice) : list Z :=
  firstn (s_len s) (skipn (s_off s) (arr_of m (s_arr s))).

(* a slice descriptor makes sense in a memory *)
Definition valid (m : mem) (s : slice) : Prop :=
  s_arr s < length m /\ s_len s <= s_cap s /\ s_off s + s_cap s <= length (arr_of m (s_arr s)).

(* ---------- the monad ---------- *)

Definition M (A : Type) := mem -> option A * mem.
Definition ret {A} (a : A) : M A := fun m => (Some a, m).
Definition fail {A} : M A := fun m => (None, m).
Definition bind {A B} (c : M A) (k : A -> M B) : M B :=
  fun m => match c m with (Some a, m') => k a m' | (None, m') => (None, m') end.

Declare Scope mem_scope.
Delimit Scope mem_scope with mem.
Notation "x <- c ;; k" := (bind c (fun x => k)) (at level 61, c at next level, right associativity) : mem_scope.
Notation "c ;;; k" := (bind c (fun _ => k)) (at level 61, right associativity) : mem_scope.
Local Open Scope mem_scope.

(* for x over xs { st = body(x, st) }  — xs: indices, entries of a map, a list of descriptors *)
Fixpoint for_each {X S} (xs : list X) (body : X -> S -> M S) (st : S) : M S :=
  match xs with
  | [] => ret st
  | x :: rest => st' <- body x st ;; for_each rest body st'
  end.

(* a loop whose number of iterations is not an obvious function of the input:
   [step] is run until it answers [inr result], at most p times (p in binary, so
   a bound like 2^40 costs nothing; the result is reached after the same steps
   whatever the bound).  [inl] after p steps = out of fuel = [fail]. *)
Fixpoint iter_until {S R} (p : positive) (step : S -> M (S + R)) (x : S) : M (S + R) :=
  match p with
  | xH => step x
  | xO p' =>
      r <- iter_until p' step x ;;
      match r with inl x' => iter_until p' step x' | inr d => ret (inr d) end
  | xI p' =>
      r <- step x ;;
      match r with
      | inl x1 =>
          r2 <- iter_until p' step x1 ;;
          match r2 with inl x2 => iter_until p' step x2 | inr d => ret (inr d) end
      | inr d => ret (inr d)
      end
  end.
Definition run_loop {S R} (p : positive) (step : S -> M (S + R)) (x : S) : M R :=
  r <- iter_until p step x ;; match r with inr d => ret d | inl _ => fail end.
Definition big_fuel : positive := 1099511627776.   (* 2^40 *)

(* ---------- primitives ---------- *)

(* a new array *)
Definition alloc (a : list Z) : M nat := fun m => (Some (length m), m ++ [a]).

(* make([]T, len, cap) *)
Definition make_slice (len cap : nat) : M slice :=
  if len <=? cap then id <- alloc (repeat 0%Z cap) ;; ret (mkSlice id 0 len cap) else fail.

(* s[i] *)
Definition rd (s : slice) (i : nat) : M Z := fun m =>
  if i <? s_len s then (Some (cell m (s_arr s) (s_off s + i)), m) else (None, m).

(* s[i] = v *)
Definition wr (s : slice) (i : nat) (v : Z) : M unit := fun m =>
  if i <? s_len s then (Some tt, write_cell m (s_arr s) (s_off s + i) v) else (None, m).

(* s[lo:hi] *)
Definition reslice (s : slice) (lo hi : nat) : M slice :=
  if (lo <=? hi) && (hi <=? s_cap s)
  then ret (mkSlice (s_arr s) (s_off s + lo) (hi - lo) (s_cap s - lo))
  else fail.

(* the values of a slice, as `t...` hands them to append / copy *)
Definition values (s : slice) : M (list Z) := fun m => (Some (read_all m s), m).

Section Growth.
  (* spare capacity left by a reallocating append: (old cap) (needed len) -> extra *)
  Variable slack : nat -> nat -> nat.

  (* append(s, vs...) *)
  Definition append (s : slice) (vs : list Z) : M slice := fun m =>
    let need := s_len s + length vs in
    if need <=? s_cap s
    then (Some (mkSlice (s_arr s) (s_off s) need (s_cap s)),
               write_from m (s_arr s) (s_off s + s_len s) vs)
    else
      let extra := slack (s_cap s) need in
      (Some (mkSlice (length m) 0 need (need + extra)),
            m ++ [read_all m s ++ vs ++ repeat 0%Z extra]).
End Growth.

(* copy(dst, vs...) : min(len dst, len vs) elements *)
Definition copy_go (dst : slice) (vs : list Z) : M unit := fun m =>
  (Some tt, write_from m (s_arr dst) (s_off dst) (firstn (s_len dst) vs)).

(* swap(data, i, j)  /  s[i], s[j] = s[j], s[i] *)
Definition swap (s : slice) (i j : nat) : M unit :=
  a <- rd s i ;; b <- rd s j ;; wr s i b ;;; wr s j a.

(* ---------- maps ---------- *)

(* the flat form of a map and back *)
Fixpoint unflat (l : list Z) : amap :=
  match l with
  | k :: v :: l' => (k, v) :: unflat l'
  | _ => []
  end.
Definition kvflat (a : amap) : list Z := flat_map (fun kv => [fst kv; snd kv]) a.

(* the entries of map id, in iteration order *)
Definition map_of (m : mem) (id : nat) : amap := unflat (arr_of m id).
Definition put_map (m : mem) (id : nat) (a : amap) : mem := set_nth m id (kvflat a).

(* make(map[K]V) / a map literal *)
Definition make_map : M nat := alloc [].
Definition lit_map (a : amap) : M nat := alloc (kvflat a).
(* for k, v := range m — the entries when the loop starts (the helpers only ever
   delete the entry they are looking at, or write the entry they have just read) *)
Definition m_entries (id : nat) : M amap := fun m => (Some (map_of m id), m).
(* v, ok := m[k] *)
Definition m_lookup (id : nat) (k : Z) : M (option Z) := fun m => (Some (lookup (map_of m id) k), m).
(* m[k] = v *)
Definition m_store (id : nat) (k v : Z) : M unit := fun m => (Some tt, put_map m id (map_set (map_of m id) k v)).
(* delete(m, k) *)
Definition m_delete (id : nat) (k : Z) : M unit := fun m => (Some tt, put_map m id (map_delete (map_of m id) k)).

(* the Go runtime's policy for small slices, used by the executable instance *)
Definition go_slack (oldcap need : nat) : nat := Nat.max need (2 * oldcap) - need.
