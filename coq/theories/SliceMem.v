(* SliceMem.v — Go slices over an explicit array memory (used by C16).

   memory  = list of arrays, an array is identified by its position;
   a slice = a window {arr; off; len; cap} into one array (cap counted from off,
             as Go's cap());
   make    allocates a new array;
   s[i]    reads / s[i] = v writes inside [0, len) — outside is a run-time panic;
   s[lo:hi] re-slices (0 <= lo <= hi <= cap), sharing the array;
   append(s, vs...) writes IN PLACE right behind the window when len+k <= cap
            and otherwise copies into a freshly allocated array — the Go rule,
            the only part of the growth policy that matters for aliasing.  How
            much spare capacity a reallocating append leaves is the runtime's
            business: it is the parameter [slack] of every function below and no
            theorem assumes anything about it.

   Computations are  M A := mem -> option (A * mem) ; [None] is a Go run-time
   panic (index out of range, explicit panic) or, for the two fuel-driven heap
   loops, exhausted fuel.  Definitions only; the lemmas are in C16_Proofs.v. *)

From Gogu Require Import Base.
Local Open Scope nat_scope.

Definition mem := list (list Z).

Record slice := mkSlice { s_arr : nat; s_off : nat; s_len : nat; s_cap : nat }.

Definition arr_of (m : mem) (id : nat) : list Z := nth id m [].
Definition cell (m : mem) (id i : nat) : Z := nth i (arr_of m id) 0%Z.

Fixpoint set_nth {A} (l : list A) (i : nat) (x : A) : list A :=
  match l, i with
  | [], _ => []
  | _ :: t, O => x :: t
  | h :: t, S i' => h :: set_nth t i' x
  end.

Definition write_cell (m : mem) (id i : nat) (v : Z) : mem :=
  set_nth m id (set_nth (arr_of m id) i v).

Fixpoint write_from (m : mem) (id i : nat) (vs : list Z) : mem :=
  match vs with
  | [] => m
  | v :: vs' => write_from (write_cell m id i v) id (S i) vs'
  end.

(* the elements a slice currently shows *)
Definition read_all (m : mem) (s : slice) : list Z :=
  firstn (s_len s) (skipn (s_off s) (arr_of m (s_arr s))).

(* a slice descriptor makes sense in a memory *)
Definition valid (m : mem) (s : slice) : Prop :=
  s_arr s < length m /\ s_len s <= s_cap s /\ s_off s + s_cap s <= length (arr_of m (s_arr s)).

(* ---------- the monad ---------- *)

Definition M (A : Type) := mem -> option (A * mem).
Definition ret {A} (a : A) : M A := fun m => Some (a, m).
Definition fail {A} : M A := fun _ => None.
Definition bind {A B} (c : M A) (k : A -> M B) : M B :=
  fun m => match c m with Some (a, m') => k a m' | None => None end.

Declare Scope mem_scope.
Delimit Scope mem_scope with mem.
Notation "x <- c ;; k" := (bind c (fun x => k)) (at level 61, c at next level, right associativity) : mem_scope.
Notation "c ;;; k" := (bind c (fun _ => k)) (at level 61, right associativity) : mem_scope.
Local Open Scope mem_scope.

(* for i over idxs { st = body(i, st) } *)
Fixpoint for_each {S} (idxs : list nat) (body : nat -> S -> M S) (st : S) : M S :=
  match idxs with
  | [] => ret st
  | i :: rest => st' <- body i st ;; for_each rest body st'
  end.

(* ---------- primitives ---------- *)

(* a new array *)
Definition alloc (a : list Z) : M nat := fun m => Some (length m, m ++ [a]).

(* make([]T, len, cap) *)
Definition make_slice (len cap : nat) : M slice :=
  if len <=? cap then id <- alloc (repeat 0%Z cap) ;; ret (mkSlice id 0 len cap) else fail.

(* s[i] *)
Definition rd (s : slice) (i : nat) : M Z := fun m =>
  if i <? s_len s then Some (cell m (s_arr s) (s_off s + i), m) else None.

(* s[i] = v *)
Definition wr (s : slice) (i : nat) (v : Z) : M unit := fun m =>
  if i <? s_len s then Some (tt, write_cell m (s_arr s) (s_off s + i) v) else None.

(* s[lo:hi] *)
Definition reslice (s : slice) (lo hi : nat) : M slice :=
  if (lo <=? hi) && (hi <=? s_cap s)
  then ret (mkSlice (s_arr s) (s_off s + lo) (hi - lo) (s_cap s - lo))
  else fail.

(* the values of a slice, as `t...` hands them to append / copy *)
Definition values (s : slice) : M (list Z) := fun m => Some (read_all m s, m).

Section Growth.
  (* spare capacity left by a reallocating append: (old cap) (needed len) -> extra *)
  Variable slack : nat -> nat -> nat.

  (* append(s, vs...) *)
  Definition append (s : slice) (vs : list Z) : M slice := fun m =>
    let need := s_len s + length vs in
    if need <=? s_cap s
    then Some (mkSlice (s_arr s) (s_off s) need (s_cap s),
               write_from m (s_arr s) (s_off s + s_len s) vs)
    else
      let extra := slack (s_cap s) need in
      Some (mkSlice (length m) 0 need (need + extra),
            m ++ [read_all m s ++ vs ++ repeat 0%Z extra]).
End Growth.

(* copy(dst, vs...) : min(len dst, len vs) elements *)
Definition copy_go (dst : slice) (vs : list Z) : M unit := fun m =>
  Some (tt, write_from m (s_arr dst) (s_off dst) (firstn (s_len dst) vs)).

(* swap(data, i, j)  /  s[i], s[j] = s[j], s[i] *)
Definition swap (s : slice) (i j : nat) : M unit :=
  a <- rd s i ;; b <- rd s j ;; wr s i b ;;; wr s j a.

(* the Go runtime's policy for small slices, used by the executable instance *)
Definition go_slack (oldcap need : nat) : nat := Nat.max need (2 * oldcap) - need.
