(* Utf8.v — UTF-8 as Go sees it.  Strings are [list Z] of bytes 0..255, runes
   are [Z].

   [decode1]/[decode_w]/[decode] follow Go's [for i, r := range s] (which is
   utf8.DecodeRuneInString at every step): a byte that does not start a
   well-formed, shortest-form, non-surrogate, <= U+10FFFF sequence yields
   U+FFFD with width 1.  [encode_rune]/[encode] follow utf8.AppendRune, i.e.
   [string(r)], [string([]rune)] and strings.Builder.WriteRune: a negative
   value, a surrogate or a value above U+10FFFF is written as EF BF BD.

   Only [/ 64], [mod 64] and multiplication by 64 are used (no shifts).
   The agreement of [decode_w] and [encode] with the Go runtime is part of the
   C15 correspondence (all 1- and 2-byte strings, plus longer ones).

   Main result: [decode_encode : Forall valid_rune rs -> decode (encode rs) = rs]. *)

From Gogu Require Import Base.
Local Open Scope Z_scope.

Definition rune_error : Z := 65533.          (* U+FFFD *)

(* a continuation byte 10xxxxxx *)
Definition is_cont (b : Z) : bool := (128 <=? b) && (b <=? 191).

(* One step of the range loop on a non-empty string: (rune, width).
   Lead byte classes (utf8.first / acceptRanges):
     00..7F            ASCII
     80..C1, F5..FF    invalid
     C2..DF            2 bytes
     E0..EF            3 bytes; second byte A0..BF after E0 (no overlong),
                       80..9F after ED (no surrogates)
     F0..F4            4 bytes; second byte 90..BF after F0 (no overlong),
                       80..8F after F4 (<= U+10FFFF)                       *)
Definition decode1 (s : list Z) : Z * nat :=
  match s with
  | [] => (rune_error, 1%nat)
  | b0 :: t =>
      if b0 <? 128 then (b0, 1%nat)
      else if b0 <? 194 then (rune_error, 1%nat)
      else if b0 <? 224 then
        match t with
        | b1 :: _ =>
            if is_cont b1 then ((b0 - 192) * 64 + (b1 - 128), 2%nat) else (rune_error, 1%nat)
        | _ => (rune_error, 1%nat)
        end
      else if b0 <? 240 then
        match t with
        | b1 :: b2 :: _ =>
            if ((if b0 =? 224 then 160 else 128) <=? b1) && (b1 <=? (if b0 =? 237 then 159 else 191))
               && is_cont b2
            then (((b0 - 224) * 64 + (b1 - 128)) * 64 + (b2 - 128), 3%nat)
            else (rune_error, 1%nat)
        | _ => (rune_error, 1%nat)
        end
      else if b0 <? 245 then
        match t with
        | b1 :: b2 :: b3 :: _ =>
            if ((if b0 =? 240 then 144 else 128) <=? b1) && (b1 <=? (if b0 =? 244 then 143 else 191))
               && is_cont b2 && is_cont b3
            then ((((b0 - 240) * 64 + (b1 - 128)) * 64 + (b2 - 128)) * 64 + (b3 - 128), 4%nat)
            else (rune_error, 1%nat)
        | _ => (rune_error, 1%nat)
        end
      else (rune_error, 1%nat)
  end.

(* the whole range loop: (rune, width) at every rune start.  [skip] counts the
   bytes of the current rune still to be stepped over — this keeps the
   recursion structural in the string (no fuel) *)
Fixpoint decode_w_aux (skip : nat) (s : list Z) : list (Z * nat) :=
  match s with
  | [] => []
  | _ :: t =>
      match skip with
      | S k => decode_w_aux k t
      | O => let rw := decode1 s in rw :: decode_w_aux (snd rw - 1) t
      end
  end.
Definition decode_w (s : list Z) : list (Z * nat) := decode_w_aux 0 s.
(* []rune(s) *)
Definition decode (s : list Z) : list Z := map fst (decode_w s).

(* for i, r := range s: the (byte offset, rune) pairs *)
Fixpoint with_offsets (pos : Z) (l : list (Z * nat)) : list (Z * Z) :=
  match l with
  | [] => []
  | (r, w) :: l' => (pos, r) :: with_offsets (pos + Z.of_nat w) l'
  end.
Definition range_loop (s : list Z) : list (Z * Z) := with_offsets 0 (decode_w s).

(* a Unicode scalar value *)
Definition valid_rune (r : Z) : Prop := (0 <= r < 55296) \/ (57344 <= r <= 1114111).
Definition valid_runeb (r : Z) : bool :=
  ((0 <=? r) && (r <? 55296)) || ((57344 <=? r) && (r <=? 1114111)).

(* utf8.AppendRune *)
Definition encode_rune (r : Z) : list Z :=
  if valid_runeb r then
    if r <? 128 then [r]
    else if r <? 2048 then [192 + r / 64; 128 + r mod 64]
    else if r <? 65536 then [224 + r / 64 / 64; 128 + (r / 64) mod 64; 128 + r mod 64]
    else [240 + r / 64 / 64 / 64; 128 + (r / 64 / 64) mod 64; 128 + (r / 64) mod 64; 128 + r mod 64]
  else [239; 191; 189].
(* string([]rune) *)
Definition encode (rs : list Z) : list Z := flat_map encode_rune rs.

(* ------------------------------------------------------------------ *)
(* proofs                                                              *)

Lemma valid_runeb_iff r : valid_runeb r = true <-> valid_rune r.
Proof. unfold valid_runeb, valid_rune. lia. Qed.

Ltac zbool :=
  repeat match goal with
  | |- context [?a =? ?b] => destruct (Z.eqb_spec a b); try lia
  | |- context [?a <? ?b] => destruct (Z.ltb_spec a b); try lia
  | |- context [?a <=? ?b] => destruct (Z.leb_spec a b); try lia
  end.

(* the bytes written for any rune are bytes, 1 to 4 of them *)
Lemma encode_rune_length r : (1 <= length (encode_rune r) <= 4)%nat.
Proof.
  unfold encode_rune. destruct (valid_runeb r); [|cbn; lia].
  destruct (r <? 128); [cbn; lia|]. destruct (r <? 2048); [cbn; lia|].
  destruct (r <? 65536); cbn; lia.
Qed.

Lemma encode_rune_bytes r : Forall (fun b => 0 <= b < 256) (encode_rune r).
Proof.
  unfold encode_rune. destruct (valid_runeb r) eqn:Hv.
  - apply valid_runeb_iff in Hv. unfold valid_rune in Hv.
    pose proof (Z.div_mod r 64 ltac:(lia)) as E1. pose proof (Z.mod_pos_bound r 64 ltac:(lia)) as B1.
    set (q1 := r / 64) in *. set (m0 := r mod 64) in *.
    pose proof (Z.div_mod q1 64 ltac:(lia)) as E2. pose proof (Z.mod_pos_bound q1 64 ltac:(lia)) as B2.
    set (q2 := q1 / 64) in *. set (m1 := q1 mod 64) in *.
    pose proof (Z.div_mod q2 64 ltac:(lia)) as E3. pose proof (Z.mod_pos_bound q2 64 ltac:(lia)) as B3.
    set (q3 := q2 / 64) in *. set (m2 := q2 mod 64) in *.
    destruct (Z.ltb_spec r 128); [repeat constructor; lia|].
    destruct (Z.ltb_spec r 2048); [repeat constructor; lia|].
    destruct (Z.ltb_spec r 65536); repeat constructor; lia.
  - repeat constructor; lia.
Qed.

(* decoding the bytes written for a scalar value gives it back, with its width *)
Lemma decode1_encode_rune r rest :
  valid_rune r -> decode1 (encode_rune r ++ rest) = (r, length (encode_rune r)).
Proof.
  intros Hv. unfold encode_rune. rewrite (proj2 (valid_runeb_iff r) Hv). unfold valid_rune in Hv.
  pose proof (Z.div_mod r 64 ltac:(lia)) as E1. pose proof (Z.mod_pos_bound r 64 ltac:(lia)) as B1.
  set (q1 := r / 64) in *. set (m0 := r mod 64) in *.
  pose proof (Z.div_mod q1 64 ltac:(lia)) as E2. pose proof (Z.mod_pos_bound q1 64 ltac:(lia)) as B2.
  set (q2 := q1 / 64) in *. set (m1 := q1 mod 64) in *.
  pose proof (Z.div_mod q2 64 ltac:(lia)) as E3. pose proof (Z.mod_pos_bound q2 64 ltac:(lia)) as B3.
  set (q3 := q2 / 64) in *. set (m2 := q2 mod 64) in *.
  destruct (Z.ltb_spec r 128) as [H1|H1].
  { cbn [app decode1]. zbool. reflexivity. }
  destruct (Z.ltb_spec r 2048) as [H2|H2].
  { cbn [app decode1 length]. unfold is_cont. zbool. cbn [andb]. f_equal. lia. }
  destruct (Z.ltb_spec r 65536) as [H3|H3].
  { cbn [app decode1 length]. unfold is_cont. zbool; cbn [andb]; f_equal; lia. }
  cbn [app decode1 length]. unfold is_cont. zbool; cbn [andb]; f_equal; lia.
Qed.

Lemma decode_w_aux_skip k x y :
  length x = k -> decode_w_aux k (x ++ y) = decode_w_aux 0 y.
Proof.
  revert k. induction x as [|b x IH]; intros k Hk; cbn in Hk; subst k; [reflexivity|].
  cbn. apply IH. reflexivity.
Qed.

Lemma decode_w_encode_rune r rest :
  valid_rune r ->
  decode_w (encode_rune r ++ rest) = (r, length (encode_rune r)) :: decode_w rest.
Proof.
  intros Hv. unfold decode_w.
  pose proof (decode1_encode_rune r rest Hv) as H1.
  pose proof (encode_rune_length r) as HL.
  destruct (encode_rune r) as [|b x] eqn:E; [cbn in HL; lia|].
  cbn [app decode_w_aux]. cbn [app] in H1. rewrite H1. cbn [snd length].
  f_equal. apply decode_w_aux_skip. lia.
Qed.

Theorem decode_w_encode rs :
  Forall valid_rune rs ->
  decode_w (encode rs) = map (fun r => (r, length (encode_rune r))) rs.
Proof.
  induction 1 as [|r rs Hr _ IH]; [reflexivity|].
  cbn [encode flat_map map]. rewrite decode_w_encode_rune by exact Hr. f_equal. exact IH.
Qed.

Theorem decode_encode rs : Forall valid_rune rs -> decode (encode rs) = rs.
Proof.
  intros H. unfold decode. rewrite decode_w_encode by exact H.
  rewrite map_map. cbn. apply map_id.
Qed.

(* appending: a string that is the encoding of scalar values decodes rune by rune *)
Lemma decode_encode_app rs rest :
  Forall valid_rune rs -> decode (encode rs ++ rest) = rs ++ decode rest.
Proof.
  induction 1 as [|r rs Hr _ IH]; [reflexivity|].
  cbn [encode flat_map]. rewrite <- app_assoc. unfold decode in *.
  rewrite decode_w_encode_rune by exact Hr. cbn [map fst app]. f_equal. exact IH.
Qed.

(* every decoded rune is a scalar value (U+FFFD for the invalid bytes) when the
   input consists of bytes *)
Lemma decode1_valid s : Forall (fun b => 0 <= b < 256) s -> valid_rune (fst (decode1 s)).
Proof.
  intros Hb. unfold valid_rune, decode1, rune_error, is_cont.
  destruct s as [|b0 t]; [cbn; lia|]. inversion Hb as [|? ? H0 Ht]; subst.
  destruct (Z.ltb_spec b0 128); [cbn; lia|].
  destruct (Z.ltb_spec b0 194); [cbn; lia|].
  destruct (Z.ltb_spec b0 224).
  { destruct t as [|b1 t]; [cbn; lia|]. zbool; cbn; lia. }
  destruct (Z.ltb_spec b0 240).
  { destruct t as [|b1 [|b2 t]]; try (cbn; lia). zbool; cbn; lia. }
  destruct (Z.ltb_spec b0 245); [|cbn; lia].
  destruct t as [|b1 [|b2 [|b3 t]]]; try (cbn; lia). zbool; cbn; lia.
Qed.

(* ASCII is its own encoding *)
Definition ascii (s : list Z) : Prop := Forall (fun b => 0 <= b < 128) s.

Lemma encode_ascii s : ascii s -> encode s = s.
Proof.
  induction 1 as [|b s Hb _ IH]; [reflexivity|].
  cbn [encode flat_map]. fold (encode s). rewrite IH. unfold encode_rune, valid_runeb.
  zbool. reflexivity.
Qed.

Lemma decode_w_ascii s : ascii s -> decode_w s = map (fun b => (b, 1%nat)) s.
Proof.
  unfold decode_w. induction 1 as [|b s Hb _ IH]; [reflexivity|].
  cbn [decode_w_aux decode1 map]. zbool. cbn [snd Nat.sub]. f_equal. exact IH.
Qed.

Lemma decode_ascii s : ascii s -> decode s = s.
Proof.
  intros H. unfold decode. rewrite decode_w_ascii by exact H. rewrite map_map. cbn. apply map_id.
Qed.

(* the range loop visits every byte exactly once: widths add up to the length *)
Lemma decode1_width s : (1 <= snd (decode1 s) <= 4)%nat.
Proof.
  unfold decode1. destruct s as [|b0 t]; [cbn; lia|].
  destruct (b0 <? 128); [cbn; lia|]. destruct (b0 <? 194); [cbn; lia|].
  destruct (b0 <? 224). { destruct t as [|b1 t]; [cbn; lia|]. destruct (is_cont b1); cbn; lia. }
  destruct (b0 <? 240).
  { destruct t as [|b1 [|b2 t]]; try (cbn; lia).
    match goal with |- context [if ?c then _ else _] => destruct c end; cbn; lia. }
  destruct (b0 <? 245); [|cbn; lia].
  destruct t as [|b1 [|b2 [|b3 t]]]; try (cbn; lia).
  match goal with |- context [if ?c then _ else _] => destruct c end; cbn; lia.
Qed.
