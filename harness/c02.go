//go:build vsched

package main

// C02 — concurrent container operations are linearizable.
//
// Built only by the C02 flow (tags "verif vsched") against a scratch copy of the
// tree under test in which the containers' `import "sync"` is redirected to the
// controlled-scheduler package vsync (harness/shim/vsync.go.txt).  Every
// RWMutex operation of a goroutine under test is then a scheduling point and
// the interleaving of critical sections is dictated by the schedule that is
// part of the wire input, so a case replays exactly.
//
// Wire format: coq/theories/C02_Wire.v (kept in step).
//
// Generation: for every container type, small initial contents and every
// program of 2 goroutines x 1 call (exhaustive), 3 x 1 and 2 x 2 (exhaustive in
// the thorough tier, seeded sample in the quick tier) over the type's
// single-element operations, EVERY schedule of the program is enumerated by
// depth-first search over the scheduler's decisions.

import (
	"strconv"
	"fmt"
	"os"
	"strings"
	"time"

	"github.com/esimov/gogu/bstree"
	"github.com/esimov/gogu/cache"
	"github.com/esimov/gogu/heap"
	"github.com/esimov/gogu/queue"
	"github.com/esimov/gogu/stack"
	"github.com/esimov/gogu/trie"
	"github.com/esimov/gogu/vsync"
)

type c02Op [3]int
type c02Res [3]int64

var (
	c02Unit  = c02Res{0, 0, 0}
	c02Panic = c02Res{9, 0, 0}
	c02NoRet = c02Res{8, 0, 0}
	c02BadOp = c02Res{7, 0, 0}
)

func c02Val(v int) c02Res       { return c02Res{1, int64(v), 0} }
func c02VErr(v int, e int) c02Res { return c02Res{2, int64(v), int64(e)} }
func c02Bool(b bool) c02Res     { return c02Res{3, b2i(b), 0} }

type c02Type struct {
	name  string
	mk    func(p int) any
	call  func(inst any, o c02Op) c02Res
	ops   []c02Op   // the alphabet of generated programs
	inits [][]c02Op // initial contents (as calls made before the goroutines start)
	tail  []c02Op   // calls made afterwards: contents and element count
	names func(o c02Op) string
}

var c02TrieKeys = []string{"a", "ab", "b", "abc", "", "z"}

func c02TrieKey(k int) string {
	if k >= 0 && k < len(c02TrieKeys) {
		return c02TrieKeys[k]
	}
	return "z"
}

func c02HeapErr(err error) int {
	if err == nil {
		return 0
	}
	if strings.Contains(err.Error(), "heap empty") {
		return 1
	}
	if strings.Contains(err.Error(), "not found") {
		return 2
	}
	return 9
}

func c02Types() []c02Type {
	lt := func(a, b int) bool { return a < b }
	qcall := func(enq func(int), deq func() (int, bool), peek func() int, search func(int) bool, size func() int, clear func()) func(o c02Op) c02Res {
		return func(o c02Op) c02Res {
			switch o[0] {
			case 0:
				enq(o[1])
				return c02Unit
			case 1:
				v, e := deq()
				return c02VErr(v, int(b2i(e)))
			case 2:
				return c02Val(peek())
			case 3:
				return c02Bool(search(o[1]))
			case 4:
				return c02Val(size())
			case 5:
				clear()
				return c02Unit
			}
			return c02BadOp
		}
	}
	qnames := func(o c02Op) string {
		return []string{fmt.Sprintf("Enqueue(%d)", o[1]), "Dequeue()", "Peek()", fmt.Sprintf("Search(%d)", o[1]), "Size()", "Clear()"}[o[0]%6]
	}
	snames := func(o c02Op) string {
		return []string{fmt.Sprintf("Push(%d)", o[1]), "Pop()", "Peek()", fmt.Sprintf("Search(%d)", o[1]), "Size()"}[o[0]%5]
	}
	qops := []c02Op{{0, 1, 0}, {0, 2, 0}, {1, 0, 0}, {2, 0, 0}, {3, 1, 0}, {4, 0, 0}, {5, 0, 0}}
	qtail := []c02Op{{4, 0, 0}, {1, 0, 0}, {1, 0, 0}, {1, 0, 0}, {1, 0, 0}, {1, 0, 0}, {4, 0, 0}}
	sops := []c02Op{{0, 1, 0}, {0, 2, 0}, {1, 0, 0}, {2, 0, 0}, {3, 1, 0}, {4, 0, 0}}
	stail := []c02Op{{4, 0, 0}, {1, 0, 0}, {1, 0, 0}, {1, 0, 0}, {1, 0, 0}, {1, 0, 0}, {4, 0, 0}}
	return []c02Type{
		{name: "heap.Heap",
			mk: func(p int) any { return heap.NewHeap(lt) },
			call: func(i any, o c02Op) c02Res {
				h := i.(*heap.Heap[int])
				switch o[0] {
				case 0:
					h.Push(o[1])
					return c02Unit
				case 1:
					return c02Val(h.Pop())
				case 2:
					return c02Val(h.Peek())
				case 3:
					return c02Val(h.Size())
				case 4:
					h.Clear()
					return c02Unit
				case 5:
					ok, err := h.Delete(o[1])
					return c02VErr(int(b2i(ok)), c02HeapErr(err))
				case 6:
					return c02Bool(h.IsEmpty())
				}
				return c02BadOp
			},
			ops:   []c02Op{{0, 1, 0}, {0, 3, 0}, {1, 0, 0}, {2, 0, 0}, {3, 0, 0}, {4, 0, 0}, {5, 2, 0}},
			inits: [][]c02Op{{}, {{0, 2, 0}, {0, 4, 0}, {0, 2, 0}}, {{0, 5, 0}, {0, 2, 0}, {0, 4, 0}}},
			tail:  []c02Op{{3, 0, 0}, {1, 0, 0}, {1, 0, 0}, {1, 0, 0}, {1, 0, 0}, {1, 0, 0}, {1, 0, 0}, {3, 0, 0}},
			names: func(o c02Op) string {
				return []string{fmt.Sprintf("Push(%d)", o[1]), "Pop()", "Peek()", "Size()", "Clear()", fmt.Sprintf("Delete(%d)", o[1]), "IsEmpty()"}[o[0]%7]
			}},
		{name: "queue.Queue",
			mk: func(p int) any { return queue.New[int]() },
			call: func(i any, o c02Op) c02Res {
				q := i.(*queue.Queue[int])
				return qcall(q.Enqueue, func() (int, bool) { v, err := q.Dequeue(); return v, err != nil }, q.Peek, q.Search, q.Size, q.Clear)(o)
			},
			ops: qops, inits: [][]c02Op{{}, {{0, 1, 0}, {0, 3, 0}}}, tail: qtail, names: qnames},
		{name: "queue.LQueue",
			mk: func(p int) any { return queue.NewLinked(p) },
			call: func(i any, o c02Op) c02Res {
				q := i.(*queue.LQueue[int])
				return qcall(q.Enqueue, func() (int, bool) { return q.Dequeue(), false }, q.Peek, q.Search, q.Size, q.Clear)(o)
			},
			ops: qops, inits: [][]c02Op{{}, {{0, 1, 0}}, {{1, 0, 0}}}, tail: qtail, names: qnames},
		{name: "stack.Stack",
			mk: func(p int) any { return stack.New[int]() },
			call: func(i any, o c02Op) c02Res {
				s := i.(*stack.Stack[int])
				switch o[0] {
				case 0:
					s.Push(o[1])
					return c02Unit
				case 1:
					return c02Val(s.Pop())
				case 2:
					return c02Val(s.Peek())
				case 3:
					return c02Bool(s.Search(o[1]))
				case 4:
					return c02Val(s.Size())
				}
				return c02BadOp
			},
			ops: sops, inits: [][]c02Op{{}, {{0, 1, 0}, {0, 3, 0}}}, tail: stail, names: snames},
		{name: "stack.LStack",
			mk: func(p int) any { return stack.NewLinked(p) },
			call: func(i any, o c02Op) c02Res {
				s := i.(*stack.LStack[int])
				switch o[0] {
				case 0:
					s.Push(o[1])
					return c02Unit
				case 1:
					return c02Val(s.Pop())
				case 2:
					return c02Val(s.Peek())
				case 3:
					return c02Bool(s.Search(o[1]))
				case 4:
					return c02Val(s.Size())
				}
				return c02BadOp
			},
			ops: sops, inits: [][]c02Op{{}, {{0, 1, 0}, {0, 3, 0}}}, tail: stail, names: snames},
		{name: "bstree.BsTree",
			mk: func(p int) any { return bstree.New[int, int](lt) },
			call: func(i any, o c02Op) c02Res {
				b := i.(*bstree.BsTree[int, int])
				switch o[0] {
				case 0:
					b.Upsert(o[1], o[2])
					return c02Unit
				case 1:
					it, err := b.Get(o[1])
					if err != nil {
						return c02VErr(0, 1)
					}
					return c02VErr(it.Val, 0)
				case 2:
					err := b.Delete(o[1])
					return c02VErr(0, int(b2i(err != nil)))
				case 3:
					return c02Val(b.Size())
				}
				return c02BadOp
			},
			ops:   []c02Op{{0, 1, 10}, {0, 1, 11}, {0, 3, 30}, {1, 1, 0}, {2, 1, 0}, {2, 2, 0}, {3, 0, 0}, {1, 2, 0}},
			inits: [][]c02Op{{}, {{0, 2, 20}, {0, 1, 12}, {0, 4, 40}}},
			tail:  []c02Op{{3, 0, 0}, {1, 1, 0}, {1, 2, 0}, {1, 3, 0}, {1, 4, 0}},
			names: func(o c02Op) string {
				return []string{fmt.Sprintf("Upsert(%d,%d)", o[1], o[2]), fmt.Sprintf("Get(%d)", o[1]), fmt.Sprintf("Delete(%d)", o[1]), "Size()"}[o[0]%4]
			}},
		{name: "trie.Trie",
			mk: func(p int) any { return trie.New[string, int](queue.New[string]()) },
			call: func(i any, o c02Op) c02Res {
				t := i.(*trie.Trie[string, int])
				switch o[0] {
				case 0:
					t.Put(c02TrieKey(o[1]), o[2])
					return c02Unit
				case 1:
					v, ok := t.Get(c02TrieKey(o[1]))
					if !ok {
						return c02VErr(0, 0)
					}
					return c02VErr(v, 1)
				case 2:
					return c02Bool(t.Contains(c02TrieKey(o[1])))
				case 3:
					return c02Val(t.Size())
				}
				return c02BadOp
			},
			ops:   []c02Op{{0, 0, 1}, {0, 0, 2}, {0, 1, 3}, {1, 0, 0}, {2, 1, 0}, {3, 0, 0}},
			inits: [][]c02Op{{}, {{0, 1, 5}, {0, 2, 6}}},
			tail:  []c02Op{{3, 0, 0}, {1, 0, 0}, {1, 1, 0}, {1, 2, 0}, {1, 3, 0}},
			names: func(o c02Op) string {
				return []string{fmt.Sprintf("Put(%q,%d)", c02TrieKey(o[1]), o[2]), fmt.Sprintf("Get(%q)", c02TrieKey(o[1])), fmt.Sprintf("Contains(%q)", c02TrieKey(o[1])), "Size()"}[o[0]%4]
			}},
		{name: "cache.Cache",
			mk: func(p int) any { return cache.New[string, int](cache.NoExpiration, 0) },
			call: func(i any, o c02Op) c02Res {
				c := i.(*cache.Cache[string, int])
				key := fmt.Sprintf("k%d", o[1])
				ek := func(err error) int {
					if err == nil {
						return 0
					}
					return int(c08ErrKind(err))
				}
				switch o[0] {
				case 0:
					return c02VErr(0, ek(c.Set(key, o[2], cache.NoExpiration)))
				case 1:
					it, err := c.Get(key)
					if it == nil {
						return c02VErr(0, ek(err))
					}
					return c02VErr(it.Val(), ek(err))
				case 2:
					return c02VErr(0, ek(c.Update(key, o[2], cache.NoExpiration)))
				case 3:
					return c02VErr(0, ek(c.Delete(key)))
				case 4:
					return c02Val(c.Count())
				case 5:
					return c02VErr(0, ek(c.DeleteExpired()))
				case 6:
					return c02Bool(c.IsExpired(key))
				case 7:
					c.Flush()
					return c02Unit
				case 8: // set-up only: an entry that expires one nanosecond later
					return c02VErr(0, ek(c.Set(key, o[2], time.Nanosecond)))
				case 9: // set-up only: let that nanosecond (and much more) pass
					time.Sleep(time.Millisecond)
					return c02Unit
				}
				return c02BadOp
			},
			ops:   []c02Op{{0, 1, 10}, {0, 1, 11}, {2, 1, 12}, {1, 1, 0}, {3, 1, 0}, {4, 0, 0}, {5, 0, 0}},
			inits: [][]c02Op{{}, {{0, 1, 9}, {0, 2, 8}}, {{8, 1, 5}, {0, 2, 8}, {9, 0, 0}}},
			tail:  []c02Op{{4, 0, 0}, {1, 1, 0}, {1, 2, 0}, {6, 1, 0}},
			names: func(o c02Op) string {
				return []string{fmt.Sprintf("Set(k%d,%d)", o[1], o[2]), fmt.Sprintf("Get(k%d)", o[1]), fmt.Sprintf("Update(k%d,%d)", o[1], o[2]), fmt.Sprintf("Delete(k%d)", o[1]), "Count()",
					"DeleteExpired()", fmt.Sprintf("IsExpired(k%d)", o[1]), "Flush()", fmt.Sprintf("Set(k%d,%d,1ns)", o[1], o[2]), "sleep(1ms)"}[o[0]%10]
			}},
	}
}

// ---- wire ----

type c02Case struct {
	ty, p int
	init  []c02Op
	prog  [][]c02Op
	tail  []c02Op
	sched []int
}

func c02WriteOps(w *W, ops []c02Op) {
	w.Int(len(ops))
	for _, o := range ops {
		w.Int(o[0]).Int(o[1]).Int(o[2])
	}
}

func (c *c02Case) encode() []int64 {
	w := &W{}
	w.Int(c.ty).Int(c.p)
	c02WriteOps(w, c.init)
	w.Int(len(c.prog))
	for _, t := range c.prog {
		c02WriteOps(w, t)
	}
	c02WriteOps(w, c.tail)
	w.Ints(c.sched)
	return w.Out()
}

func c02ReadOps(r *R) []c02Op {
	n := r.Int()
	if n < 0 || n > 10000 {
		r.bad = true
		return nil
	}
	ops := make([]c02Op, n)
	for i := range ops {
		ops[i] = c02Op{r.Int(), r.Int(), r.Int()}
	}
	return ops
}

func c02Decode(in []int64) (*c02Case, bool) {
	r := &R{w: in}
	c := &c02Case{ty: r.Int(), p: r.Int()}
	c.init = c02ReadOps(r)
	nt := r.Int()
	if nt < 0 || nt > 64 {
		return nil, false
	}
	for i := 0; i < nt; i++ {
		c.prog = append(c.prog, c02ReadOps(r))
	}
	c.tail = c02ReadOps(r)
	c.sched = r.Ints()
	return c, r.Done()
}

func c02SafeCall(t *c02Type, inst any, o c02Op) (res c02Res) {
	defer func() {
		if recover() != nil {
			res = c02Panic
		}
	}()
	return t.call(inst, o)
}

// c02Run executes one case under its schedule.
func c02Run(c *c02Case) (obs []int64, out vsync.Outcome) {
	types := c02Types()
	if c.ty < 0 || c.ty >= len(types) {
		return []int64{-1}, out
	}
	t := &types[c.ty]
	inst := t.mk(c.p)
	for _, o := range c.init {
		c02SafeCall(t, inst, o)
	}
	res := make([][]c02Res, len(c.prog))
	for i, p := range c.prog {
		res[i] = make([]c02Res, len(p))
		for j := range res[i] {
			res[i][j] = c02NoRet
		}
	}
	// one preemption right after an unlock per execution (C02_PREEMPT overrides): catches results computed
	// from guarded memory AFTER the critical section was left
	// — in the 2 x 1 programs only (a function of the program, so that a replay takes the same decisions);
	// the 3 x 1 and 2 x 2 programs switch at lock operations and call boundaries only
	vsync.Preempt = 0
	if len(c.prog) == 2 && len(c.prog[0]) == 1 && len(c.prog[1]) == 1 {
		vsync.Preempt = 1
	}
	if v, err := strconv.Atoi(os.Getenv("C02_PREEMPT")); err == nil {
		vsync.Preempt = v
	}
	out = vsync.Run(len(c.prog), c.sched, func(th int) {
		for j, o := range c.prog[th] {
			vsync.Begin(th)
			res[th][j] = c02SafeCall(t, inst, o)
			vsync.End(th)
		}
	})
	w := &W{}
	w.Int(len(out.Events))
	for _, e := range out.Events {
		w.Int(3*e.Thread + e.Kind)
	}
	w.Bool(out.Deadlock).Bool(out.Hang).Bool(out.LockPanic).Bool(out.Diverged)
	for _, rs := range res {
		for _, r := range rs {
			w.I64(r[0]).I64(r[1]).I64(r[2])
		}
	}
	for _, o := range c.tail {
		r := c02NoRet
		if !out.Hang {
			r = c02SafeCall(t, inst, o)
		}
		w.I64(r[0]).I64(r[1]).I64(r[2])
	}
	return w.Out(), out
}

func c02Exec(in []int64) []int64 {
	c, ok := c02Decode(in)
	if !ok {
		return []int64{-1}
	}
	obs, _ := c02Run(c)
	return obs
}

func c02Describe(in []int64) string {
	c, ok := c02Decode(in)
	types := c02Types()
	if !ok || c.ty < 0 || c.ty >= len(types) {
		return "malformed"
	}
	t := &types[c.ty]
	var sb strings.Builder
	fmt.Fprintf(&sb, "%s", t.name)
	if c.ty == 2 || c.ty == 4 {
		fmt.Fprintf(&sb, " NewLinked(%d)", c.p)
	}
	show := func(ops []c02Op) string {
		var s []string
		for _, o := range ops {
			s = append(s, t.names(o))
		}
		return strings.Join(s, "; ")
	}
	fmt.Fprintf(&sb, " init[%s]", show(c.init))
	for i, p := range c.prog {
		fmt.Fprintf(&sb, " || T%d[%s]", i, show(p))
	}
	fmt.Fprintf(&sb, " then[%s] schedule%v", show(c.tail), c.sched)
	return sb.String()
}

// c02Explore enumerates every schedule of the program (depth-first over the
// scheduler's decisions), up to max executions; reports whether it was complete.
func c02Explore(g *Gen, stream string, c *c02Case, max int) bool {
	prefix := []int{}
	for n := 0; n < max; n++ {
		c.sched = prefix
		obs, out := c02Run(c)
		full := make([]int, len(out.Trace))
		for i, ch := range out.Trace {
			full[i] = ch.Chosen
		}
		c.sched = full
		// non-trivial: two calls of different goroutines overlap in time
		overlap := false
		open := map[int]bool{}
		for _, e := range out.Events {
			switch e.Kind {
			case vsync.EvInv:
				if len(open) > 0 {
					overlap = true
				}
				open[e.Thread] = true
			case vsync.EvRes:
				delete(open, e.Thread)
			}
		}
		g.Count(fmt.Sprintf("type_%d", c.ty))
		g.Count(fmt.Sprintf("decisions_%02d", len(out.Trace)))
		if out.Deadlock {
			g.Count("deadlock")
		}
		if out.Hang {
			g.Count("hang")
		}
		g.Raw(stream, overlap, c.encode(), obs)
		if out.Hang || out.Diverged {
			return false
		}
		i := len(out.Trace) - 1
		for i >= 0 && out.Trace[i].Chosen+1 >= out.Trace[i].Enabled {
			i--
		}
		if i < 0 {
			return true
		}
		prefix = append(append([]int{}, full[:i]...), full[i]+1)
	}
	return false
}

// c02Large adds one large initial content per type (a structure that has grown through its
// capacity thresholds): the same operation pairs are then explored on it.
func c02Large(ty int) []c02Op {
	var ops []c02Op
	switch ty {
	case 0, 1, 2, 3, 4: // heap / queues / stacks: 70 insertions, values spread so that ties and order matter
		for i := 0; i < 70; i++ {
			ops = append(ops, c02Op{0, (i*7)%23 + 1, 0})
		}
	case 5: // bstree: 70 keys, zig-zag insertion order
		for i := 0; i < 70; i++ {
			k := 10 + i/2
			if i%2 == 1 {
				k = 1000 - i/2
			}
			ops = append(ops, c02Op{0, k, k * 10})
		}
		ops = append(ops, c02Op{0, 2, 20}, c02Op{0, 4, 40})
	case 6: // trie: the key table is small; re-put the nested keys many times
		for i := 0; i < 60; i++ {
			ops = append(ops, c02Op{0, i % 4, i})
		}
	case 7: // cache: 70 keys
		for i := 0; i < 70; i++ {
			ops = append(ops, c02Op{0, 100 + i, i})
		}
		ops = append(ops, c02Op{0, 2, 8})
	}
	return ops
}

func c02Gen(g *Gen) {
	types := c02Types()
	for ty := range types {
		types[ty].inits = append(types[ty].inits, c02Large(ty))
	}
	complete := map[string]bool{"pairs": true, "triples": true, "two_by_two": true}
	only := os.Getenv("C02_TYPES") // e.g. "7": restrict to some machines (used as a stage of other checks)
	for ty := range types {
		if only != "" && !strings.Contains(","+only+",", fmt.Sprintf(",%d,", ty)) {
			continue
		}
		t := &types[ty]
		p := 7
		for _, ini := range t.inits {
			// 2 goroutines x 1 call: every ordered pair, every schedule
			for _, a := range t.ops {
				for _, b := range t.ops {
					c := &c02Case{ty: ty, p: p, init: ini, prog: [][]c02Op{{a}, {b}}, tail: t.tail}
					if !c02Explore(g, "pairs", c, 100000) {
						complete["pairs"] = false
					}
				}
			}
		}
		// 3 x 1 and 2 x 2: all programs in the thorough tier, a seeded sample in the quick tier
		n := len(t.ops)
		pick := func() c02Op { return t.ops[g.Rng.Intn(n)] }
		if g.Quick() {
			complete["triples"], complete["two_by_two"] = false, false
			for k := 0; k < 6; k++ {
				ini := t.inits[g.Rng.Intn(len(t.inits))]
				c := &c02Case{ty: ty, p: p, init: ini, prog: [][]c02Op{{pick()}, {pick()}, {pick()}}, tail: t.tail}
				c02Explore(g, "triples", c, 100000)
			}
			for k := 0; k < 6; k++ {
				ini := t.inits[g.Rng.Intn(len(t.inits))]
				c := &c02Case{ty: ty, p: p, init: ini, prog: [][]c02Op{{pick(), pick()}, {pick(), pick()}}, tail: t.tail}
				c02Explore(g, "two_by_two", c, 100000)
			}
		} else {
			ini := t.inits[len(t.inits)-1]
			for _, a := range t.ops {
				for _, b := range t.ops {
					for _, d := range t.ops {
						if !(a[0] <= b[0] && b[0] <= d[0]) && g.Rng.Intn(4) != 0 {
							continue // goroutines are symmetric: keep sorted triples, sample the rest
						}
						c := &c02Case{ty: ty, p: p, init: ini, prog: [][]c02Op{{a}, {b}, {d}}, tail: t.tail}
						if !c02Explore(g, "triples", c, 100000) {
							complete["triples"] = false
						}
					}
				}
			}
			complete["triples"] = false // sampled outside the sorted triples
			complete["two_by_two"] = false
			for k := 0; k < 150; k++ {
				ini := t.inits[g.Rng.Intn(len(t.inits))]
				c := &c02Case{ty: ty, p: p, init: ini, prog: [][]c02Op{{pick(), pick()}, {pick(), pick()}}, tail: t.tail}
				c02Explore(g, "two_by_two", c, 100000)
			}
		}
	}
	for s, ok := range complete {
		if ok {
			g.Exhaustive(s)
		}
	}
}

func init() {
	register(&Prop{
		ID: "C02",
		Rule: "controlled scheduler: the containers are rebuilt with sync.RWMutex replaced by a cooperative mutex whose every operation is a scheduling point; " +
			"for each of the 8 guarded types, 2-3 initial contents and every ordered pair of single-element operations from a 6-8 call alphabet (2 goroutines x 1 call) EVERY schedule is enumerated, " +
			"including those with one preemption right after an Unlock/RUnlock (so that a result computed from guarded memory after the critical section was left is exposed); " +
			"3 x 1 and 2 x 2 programs: seeded sample (quick) / all sorted triples + 150 random 2 x 2 programs per type (thorough), again every schedule of each. " +
			"evaluations = executions (program x schedule); non-trivial = two calls of different goroutines overlap in time",
		Exec: c02Exec, Gen: c02Gen, Describe: c02Describe,
	})
}
