package main

import (
	"fmt"
	"sort"
	"strconv"
	"strings"
	"sync"
	"time"

	"github.com/esimov/gogu"
	"github.com/esimov/gogu/heap"
)

// C03 — binary heap + heapsort.  Wire format: see coq/theories/C03_Wire.v
// (kept in step).
//
//	mode 0 (history): 0 ty c0 c1 ops...      h0 = NewHeap(c0), h1 = NewHeap(c1), h2 = NewHeap(c1)
//	   1 x Push      2 Pop       3 Peek      4 Clear     5 c Convert   6 x Delete
//	   7 Size        8 IsEmpty   9 GetValues 10 c n xs.. FromSlice     11 Merge
//	  12 Meld       13 Swap     14 n xs.. Push(xs...)     15 Swap2
//	Every operation acts on h0; Merge/Meld take h1 as argument, put the result in
//	h0 and KEEP THE RECEIVER as h2, so that result, argument and receiver are all
//	used and observed again afterwards (storage shared between them shows up as a
//	wrong value in one of the three); Swap / Swap2 exchange h0 with h1 / h2.
//	mode 1 (sort):    1 ty c n xs...
//	modes 2 / 3: the same as 0 / 1 for LARGE inputs; the Coq side judges them against the
//	specification only (the list model is too slow to be run on them), see C03_Wire.v.
//
// ty 0: Heap[int]; ty 1: Heap[c03KP] (struct{key, payload}); the integer e on
// the wire stands for {key: e / 10, payload: e % 10}.
// comparators: 0 a<b, 1 a>b, 2 a/10 < b/10 (by key, ties), 3 a/10 > b/10.
type c03KP struct{ key, payload int }

func c03IntCmp(c int) gogu.CompFn[int] {
	switch c {
	case 0:
		return func(a, b int) bool { return a < b }
	case 1:
		return func(a, b int) bool { return a > b }
	case 2:
		return func(a, b int) bool { return a/10 < b/10 }
	default:
		return func(a, b int) bool { return a/10 > b/10 }
	}
}

func c03KPEnc(v c03KP) int64 { return int64(v.key*10 + v.payload) }
func c03KPDec(e int64) c03KP { return c03KP{key: int(e) / 10, payload: int(e) % 10} }
func c03KPCmp(c int) gogu.CompFn[c03KP] {
	switch c {
	case 0:
		return func(a, b c03KP) bool { return c03KPEnc(a) < c03KPEnc(b) }
	case 1:
		return func(a, b c03KP) bool { return c03KPEnc(a) > c03KPEnc(b) }
	case 2:
		return func(a, b c03KP) bool { return a.key < b.key }
	default:
		return func(a, b c03KP) bool { return a.key > b.key }
	}
}

// ---------- string instances (ty 2, ty 3) ----------
//
// ty 2: Heap[string]; the integer e on the wire stands for the 20-digit decimal string of
// uint64(e) ^ 1<<63 (injective, and string order = integer order).  ty 3:
// Heap[c03SP] (struct{key string; payload int}) with key = that string for e / 10 and
// payload = e % 10.  Every string is BUILT AT RUN TIME for every single use (strconv +
// concatenation: a fresh backing array each time), so two equal values never share storage:
// code that compares or hashes them by address instead of by content (Delete's ==) goes wrong
// here and only here.  The zero value ("" / the zero struct) is 0 on the wire.
type c03SP struct {
	key     string
	payload int
}

func c03Str(e int64) string {
	d := strconv.FormatUint(uint64(e)^(1<<63), 10)
	return strings.Repeat("0", 20-len(d)) + d // always a freshly allocated string
}

func c03Unstr(s string) int64 {
	if s == "" {
		return 0
	}
	u, err := strconv.ParseUint(s, 10, 64)
	if err != nil {
		return -777002 // not a string we ever built
	}
	return int64(u ^ (1 << 63))
}

func c03StrCmp(c int) gogu.CompFn[string] {
	switch c {
	case 0:
		return func(a, b string) bool { return a < b }
	case 1:
		return func(a, b string) bool { return a > b }
	case 2:
		return func(a, b string) bool { return c03Unstr(a)/10 < c03Unstr(b)/10 }
	default:
		return func(a, b string) bool { return c03Unstr(a)/10 > c03Unstr(b)/10 }
	}
}

func c03SPEnc(v c03SP) int64 {
	if v.key == "" {
		return int64(v.payload) // the zero struct is 0
	}
	return c03Unstr(v.key)*10 + int64(v.payload)
}
func c03SPDec(e int64) c03SP { return c03SP{key: c03Str(e / 10), payload: int(e % 10)} }
func c03SPCmp(c int) gogu.CompFn[c03SP] {
	switch c {
	case 0:
		return func(a, b c03SP) bool { return c03SPEnc(a) < c03SPEnc(b) }
	case 1:
		return func(a, b c03SP) bool { return c03SPEnc(a) > c03SPEnc(b) }
	case 2:
		return func(a, b c03SP) bool { return a.key < b.key } // string order of the keys
	default:
		return func(a, b c03SP) bool { return a.key > b.key }
	}
}

// c03BadZero is reported instead of a Pop/Peek result when the string instances see the zero
// value come out of a non-empty heap, or anything else out of an empty one.
const c03BadZero = -777001

// c03Obs is the observation buffer shared between the worker goroutine and
// the watchdog.
type c03Obs struct {
	mu  sync.Mutex
	out []int64
}

func (o *c03Obs) add(xs ...int64) {
	o.mu.Lock()
	o.out = append(o.out, xs...)
	o.mu.Unlock()
}
func (o *c03Obs) snapshot() []int64 {
	o.mu.Lock()
	defer o.mu.Unlock()
	return append([]int64{}, o.out...)
}

var c03Timeout = 3 * time.Second

// c03Stats is filled by the run for the generator's distribution counters.
type c03Stats struct {
	maxSize     int
	delRoot     int
	delLast     int
	delInner    int
	delAbsent   int
	delEmpty    int
	orderBroken int // successful Deletes after which the array violates heap order (defect #20)
	popTies     int // Pops while another element ties with the root under the comparator
	panicked    bool
	hung        bool
}

func c03Sorted[T any](vals []T, enc func(T) int64) []int64 {
	out := make([]int64, len(vals))
	for i, v := range vals {
		out[i] = enc(v)
	}
	sort.Slice(out, func(i, j int) bool { return out[i] < out[j] })
	return out
}

func c03EncList(o *c03Obs, xs []int64) {
	o.add(int64(len(xs)))
	o.add(xs...)
}

// c03History interprets a history against real heaps of element type T.
func c03History[T comparable](r *R, o *c03Obs, st *c03Stats, dec func(int64) T, enc func(T) int64, cmpOf func(int) gogu.CompFn[T], zeroDistinct bool) {
	// encAt: the result of a Pop/Peek made when the heap was (not) empty.  For the element types
	// whose zero value cannot be a held element (strings) the zero value must come out exactly
	// when the heap is empty.
	encAt := func(v T, wasEmpty bool) int64 {
		var zero T
		if zeroDistinct && wasEmpty != (v == zero) {
			return c03BadZero
		}
		return enc(v)
	}
	c0, c1 := r.Int(), r.Int()
	h0 := heap.NewHeap(cmpOf(c0))
	h1 := heap.NewHeap(cmpOf(c1))
	h2 := heap.NewHeap(cmpOf(c1))
	cur0, cur1, cur2 := cmpOf(c0), cmpOf(c1), cmpOf(c1) // comparator currently installed (for statistics only)
	readVals := func() []T {
		n := r.Int()
		if n < 0 || n > len(r.w) {
			r.bad = true
			return nil
		}
		vs := make([]T, n)
		for i := range vs {
			vs[i] = dec(r.I64())
		}
		return vs
	}
	for len(r.w) > 0 && !r.bad {
		code := r.Int()
		var payload []int64
		p := try(func() {
			switch code {
			case 1:
				h0.Push(dec(r.I64()))
			case 2:
				vals := h0.GetValues()
				for i := 1; i < len(vals); i++ {
					if !cur0(vals[0], vals[i]) && !cur0(vals[i], vals[0]) {
						st.popTies++
						break
					}
				}
				wasEmpty := len(vals) == 0
				payload = []int64{encAt(h0.Pop(), wasEmpty)}
			case 3:
				wasEmpty := h0.IsEmpty()
				payload = []int64{encAt(h0.Peek(), wasEmpty)}
			case 4:
				h0.Clear()
			case 5:
				c := r.Int()
				cur0 = cmpOf(c)
				h0.Convert(cur0)
			case 6:
				x := dec(r.I64())
				// classify the victim position (statistics only; read-only look at the array)
				vals := h0.GetValues()
				idx := -1
				for i, v := range vals {
					if v == x {
						idx = i
						break
					}
				}
				switch {
				case len(vals) == 0:
					st.delEmpty++
				case idx < 0:
					st.delAbsent++
				case idx == 0:
					st.delRoot++
				case idx == len(vals)-1:
					st.delLast++
				default:
					st.delInner++
				}
				ok, err := h0.Delete(x)
				payload = []int64{b2i(ok), b2i(err != nil)}
				if ok {
					vals = h0.GetValues()
					for i := 1; i < len(vals); i++ {
						if cur0(vals[i], vals[(i-1)/2]) {
							st.orderBroken++
							break
						}
					}
				}
			case 7:
				payload = []int64{int64(h0.Size())}
			case 8:
				payload = []int64{b2i(h0.IsEmpty())}
			case 9:
				s := c03Sorted(h0.GetValues(), enc)
				payload = append([]int64{int64(len(s))}, s...)
			case 10:
				c := r.Int()
				vs := readVals() // a fresh slice: FromSlice takes ownership of it
				cur0 = cmpOf(c)
				h0 = heap.FromSlice(vs, cur0)
			case 11, 12, 16, 17:
				var t *heap.Heap[T]
				switch code {
				case 11:
					t = h0.Merge(h1)
				case 12:
					t = h0.Meld(h1)
				case 16:
					// the receiver as its own argument.  The model has no notion of two handles on one
					// heap: the generator places these calls only where h1 is a separately built heap with
					// the contents the code will find in the argument (a twin of h0 for Merge, an empty
					// heap for Meld, whose receiver is emptied before the argument is read), and the wire
					// decoder reads 16 / 17 as Merge / Meld with h1
					t = h0.Merge(h0)
				default:
					t = h0.Meld(h0)
				}
				a := c03Sorted(h0.GetValues(), enc)
				b := c03Sorted(h1.GetValues(), enc)
				payload = append([]int64{int64(len(a))}, a...)
				payload = append(payload, int64(len(b)))
				payload = append(payload, b...)
				h2, cur2 = h0, cur0 // the receiver stays alive as h2
				h0 = t              // the result carries the receiver's comparator
			case 13:
				h0, h1 = h1, h0
				cur0, cur1 = cur1, cur0
			case 15:
				h0, h2 = h2, h0
				cur0, cur2 = cur2, cur0
			case 14:
				h0.Push(readVals()...)
			default:
				r.bad = true
			}
		})
		if p {
			st.panicked = true
			o.add(2)
			return
		}
		if r.bad {
			return
		}
		var sz int
		if try(func() { sz = h0.Size() }) {
			st.panicked = true
			o.add(2)
			return
		}
		if sz > st.maxSize {
			st.maxSize = sz
		}
		o.add(0)
		o.add(payload...)
		o.add(int64(sz))
	}
	// end of case: drain the three heaps by Pop
	drain := func(h *heap.Heap[T]) bool {
		var popped []int64
		var empty bool
		p := try(func() {
			bound := h.Size() + 8
			for k := 0; k < bound && !h.IsEmpty(); k++ {
				popped = append(popped, encAt(h.Pop(), false))
			}
			empty = h.IsEmpty()
		})
		if p {
			st.panicked = true
			o.add(2)
			return false
		}
		o.add(0)
		c03EncList(o, popped)
		o.add(b2i(empty))
		return true
	}
	if !drain(h0) || !drain(h1) || !drain(h2) {
		return
	}
	if try(func() {
		e0 := h0.IsEmpty()
		o.add(int64(h0.Size()), int64(h1.Size()), int64(h2.Size()), encAt(h0.Pop(), e0), encAt(h0.Peek(), e0))
	}) {
		st.panicked = true
		o.add(2)
	}
}

func c03Sort[T comparable](r *R, o *c03Obs, st *c03Stats, dec func(int64) T, enc func(T) int64, cmpOf func(int) gogu.CompFn[T]) {
	c := r.Int()
	n := r.Int()
	if n < 0 || n != len(r.w) {
		r.bad = true
		return
	}
	vs := make([]T, n)
	for i := range vs {
		vs[i] = dec(r.I64())
	}
	st.maxSize = n
	var res []T
	if try(func() { res = heap.Sort(vs, cmpOf(c)) }) {
		st.panicked = true
		o.add(2)
		return
	}
	o.add(0, int64(len(res)))
	for _, v := range res {
		o.add(enc(v))
	}
}

func c03Run(in []int64) ([]int64, *c03Stats) {
	o := &c03Obs{}
	st := &c03Stats{}
	done := make(chan struct{})
	go func() {
		defer close(done)
		r := &R{w: in}
		mode, ty := r.Int(), r.Int()
		if r.bad || ty < 0 || ty > 3 {
			o.add(-999999)
			return
		}
		if mode == 2 || mode == 3 {
			mode -= 2 // spec-only modes: executed exactly like 0 / 1
		}
		idI := func(x int64) int { return int(x) }
		encI := func(x int) int64 { return int64(x) }
		switch {
		case mode == 0 && ty == 0:
			c03History(r, o, st, idI, encI, c03IntCmp, false)
		case mode == 0 && ty == 1:
			c03History(r, o, st, c03KPDec, c03KPEnc, c03KPCmp, false)
		case mode == 0 && ty == 2:
			c03History(r, o, st, c03Str, c03Unstr, c03StrCmp, true)
		case mode == 0 && ty == 3:
			c03History(r, o, st, c03SPDec, c03SPEnc, c03SPCmp, true)
		case mode == 1 && ty == 0:
			c03Sort(r, o, st, idI, encI, c03IntCmp)
		case mode == 1 && ty == 1:
			c03Sort(r, o, st, c03KPDec, c03KPEnc, c03KPCmp)
		case mode == 1 && ty == 2:
			c03Sort(r, o, st, c03Str, c03Unstr, c03StrCmp)
		case mode == 1 && ty == 3:
			c03Sort(r, o, st, c03SPDec, c03SPEnc, c03SPCmp)
		default:
			r.bad = true
		}
		if r.bad {
			o.mu.Lock()
			o.out = []int64{-999999}
			o.mu.Unlock()
		}
	}()
	t := time.NewTimer(c03Timeout + time.Duration(len(in)/500)*time.Second)
	defer t.Stop()
	select {
	case <-done:
		return o.snapshot(), st
	case <-t.C:
		// hang: an operation blocked (lock left held) or loops; report what was observed, then 3
		out := append(o.snapshot(), 3)
		return out, &c03Stats{hung: true}
	}
}

func execC03(in []int64) []int64 {
	out, _ := c03Run(in)
	return out
}

var c03OpNames = map[int]string{1: "Push", 2: "Pop", 3: "Peek", 4: "Clear", 5: "Convert", 6: "Delete", 7: "Size",
	8: "IsEmpty", 9: "GetValues", 10: "FromSlice", 11: "Merge", 12: "Meld", 13: "Swap", 14: "PushN", 15: "Swap2", 16: "MergeSelf", 17: "MeldSelf"}
var c03CmpNames = map[int]string{0: "<", 1: ">", 2: "key<", 3: "key>"}

func c03CmpName(c int) string {
	if s, ok := c03CmpNames[c]; ok {
		return s
	}
	return "key>"
}

func describeC03(in []int64) string {
	r := &R{w: in}
	mode, ty := r.Int(), r.Int()
	specOnly := ""
	if mode == 2 || mode == 3 {
		mode -= 2
		specOnly = "[judged by the specification only] "
	}
	tn := "int"
	switch ty {
	case 1:
		tn = "struct{key,payload} coded key*10+payload"
	case 2:
		tn = "string (20-digit decimal of the code, built at run time)"
	case 3:
		tn = "struct{key string,payload} coded key*10+payload"
	}
	var sb strings.Builder
	sb.WriteString(specOnly)
	if mode == 1 {
		c := r.Int()
		xs := r.Ints()
		if len(xs) > 24 {
			fmt.Fprintf(&sb, "Sort[%s](%v... %d values, %s)", tn, xs[:24], len(xs), c03CmpName(c))
		} else {
			fmt.Fprintf(&sb, "Sort[%s](%v, %s)", tn, xs, c03CmpName(c))
		}
		return sb.String()
	}
	c0, c1 := r.Int(), r.Int()
	fmt.Fprintf(&sb, "Heap[%s] h0=NewHeap(%s) h1=NewHeap(%s):", tn, c03CmpName(c0), c03CmpName(c1))
	nops := 0
	for len(r.w) > 0 && !r.bad {
		if nops++; nops > 80 {
			fmt.Fprintf(&sb, " ... (%d more words)", len(r.w))
			break
		}
		code := r.Int()
		switch code {
		case 1, 6:
			fmt.Fprintf(&sb, " %s(%d)", c03OpNames[code], r.Int())
		case 5:
			fmt.Fprintf(&sb, " Convert(%s)", c03CmpName(r.Int()))
		case 10:
			c := r.Int()
			xs := r.Ints()
			if len(xs) > 12 {
				fmt.Fprintf(&sb, " h0=FromSlice(%v... %d values,%s)", xs[:12], len(xs), c03CmpName(c))
			} else {
				fmt.Fprintf(&sb, " h0=FromSlice(%v,%s)", xs, c03CmpName(c))
			}
		case 14:
			xs := r.Ints()
			if len(xs) > 12 {
				fmt.Fprintf(&sb, " Push(%v... %d values)", xs[:12], len(xs))
			} else {
				fmt.Fprintf(&sb, " Push(%v...)", xs)
			}
		case 11:
			sb.WriteString(" h2,h0=h0,h0.Merge(h1)")
		case 12:
			sb.WriteString(" h2,h0=h0,h0.Meld(h1)")
		case 16:
			sb.WriteString(" h2,h0=h0,h0.Merge(h0) [h1 is a twin of h0]")
		case 17:
			sb.WriteString(" h2,h0=h0,h0.Meld(h0) [h1 is empty]")
		case 13:
			sb.WriteString(" swap(h0,h1)")
		case 15:
			sb.WriteString(" swap(h0,h2)")
		default:
			if n, ok := c03OpNames[code]; ok {
				sb.WriteString(" " + n)
			} else {
				fmt.Fprintf(&sb, " ?%d", code)
			}
		}
	}
	sb.WriteString("; then drain h0, h1, h2 by Pop")
	return sb.String()
}

// ---------- generator ----------

type c03Op []int // one encoded operation

func c03Emit(g *Gen, stream string, in []int64) {
	obs, st := c03Run(in)
	// distribution
	switch {
	case st.maxSize == 0:
		g.Count("maxsize=0")
	case st.maxSize <= 2:
		g.Count("maxsize=1-2")
	case st.maxSize <= 6:
		g.Count("maxsize=3-6")
	case st.maxSize <= 14:
		g.Count("maxsize=7-14")
	case st.maxSize <= 99:
		g.Count("maxsize=15-99")
	case st.maxSize <= 999:
		g.Count("maxsize=100-999")
	default:
		g.Count("maxsize>=1000")
	}
	add := func(k string, n int) {
		for i := 0; i < n; i++ {
			g.Count(k)
		}
	}
	add("delete:root", st.delRoot)
	add("delete:last", st.delLast)
	add("delete:inner", st.delInner)
	add("delete:absent", st.delAbsent)
	add("delete:empty-heap", st.delEmpty)
	add("delete:leaves-order-broken(#20)", st.orderBroken)
	add("pop:with-tie-at-root", st.popTies)
	if st.panicked {
		g.Count("panic")
	}
	if st.hung {
		g.Count("hang")
	}
	if in[0] == 2 || in[0] == 3 {
		g.Count("mode:spec-only(large)")
	}
	if in[0] == 1 || in[0] == 3 {
		g.Count("op:Sort")
	} else {
		r := &R{w: in[4:]}
		for len(r.w) > 0 && !r.bad {
			code := r.Int()
			g.Count("op:" + c03OpNames[code])
			switch code {
			case 1, 5, 6:
				r.Int()
			case 10:
				r.Int()
				r.Ints()
			case 14:
				r.Ints()
			}
		}
	}
	// non-trivial: some heap (or the slice to sort) held >= 3 elements, so that a
	// sift had a choice between two children; every case ends in a full drain by Pop
	g.Raw(stream, st.maxSize >= 3, in, obs)
}

func c03Hist(ty, c0, c1 int, ops []c03Op) []int64 {
	w := &W{}
	w.Int(0).Int(ty).Int(c0).Int(c1)
	for _, o := range ops {
		for _, x := range o {
			w.Int(x)
		}
	}
	return w.Out()
}

func c03FromSliceOp(c int, xs []int) c03Op {
	o := c03Op{10, c, len(xs)}
	return append(o, xs...)
}

func genC03(g *Gen) {
	vals := []int{0, 10, 20, 21} // {0, 1, 2, 2'}: 20 and 21 tie by key
	// comparator set-ups: (ty, c0, c1, the comparator Convert switches to)
	type setup struct{ ty, c0, c1, conv int }
	setups := []setup{{0, 0, 1, 1}, {0, 1, 0, 0}, {1, 2, 3, 3}}
	mkAlpha := func(s setup, names ...string) []c03Op {
		var a []c03Op
		for _, n := range names {
			switch n {
			case "push":
				for _, v := range vals {
					a = append(a, c03Op{1, v})
				}
			case "delete":
				for _, v := range vals {
					a = append(a, c03Op{6, v})
				}
			case "delete2":
				a = append(a, c03Op{6, 10}, c03Op{6, 21})
			case "delete1":
				a = append(a, c03Op{6, 21})
			case "pop":
				a = append(a, c03Op{2})
			case "peek":
				a = append(a, c03Op{3})
			case "clear":
				a = append(a, c03Op{4})
			case "convert":
				a = append(a, c03Op{5, s.conv})
			case "values":
				a = append(a, c03Op{9})
			case "merge":
				a = append(a, c03Op{11})
			case "meld":
				a = append(a, c03Op{12})
			case "swap":
				a = append(a, c03Op{13})
			case "swap2":
				a = append(a, c03Op{15})
			}
		}
		return a
	}
	stream := "exhaustive"
	enum := func(s setup, alpha []c03Op, lo, hi int, prefix []c03Op) {
		for n := lo; n <= hi; n++ {
			seqsExact(len(alpha), n, func(seq []int) {
				ops := append([]c03Op{}, prefix...)
				for _, k := range seq {
					ops = append(ops, alpha[k])
				}
				c03Emit(g, stream, c03Hist(s.ty, s.c0, s.c1, ops))
			})
		}
	}
	// 1. exhaustive op sequences from two empty heaps.
	//    full alphabet (17 ops) up to length 3 (4); 10 ops up to 4 (5); 7 ops at 5 (6); 6 ops at - (7)
	for _, s := range setups {
		full := mkAlpha(s, "push", "pop", "peek", "clear", "convert", "delete", "values", "merge", "meld", "swap", "swap2")
		mid := mkAlpha(s, "push", "pop", "convert", "delete2", "merge", "swap")
		core := mkAlpha(s, "push", "pop", "convert", "delete1")
		small := mkAlpha(s, "push", "pop", "delete1")
		lf := g.Pick(3, 4)
		enum(s, full, 0, lf, nil)
		enum(s, mid, lf+1, lf+1, nil)
		enum(s, core, lf+2, lf+2, nil)
		if !g.Quick() {
			enum(s, small, lf+3, lf+3, nil)
		}
	}
	// 2. exhaustive op sequences from pre-built heaps of depth 3 (FromSlice of 7 / 6 elements with duplicates)
	seeds := [][]int{{0, 10, 20, 21, 10, 20, 0}, {21, 20, 10, 0, 21, 10}, {20, 21, 20, 21, 20, 21, 20}}
	for _, s := range setups {
		alpha := mkAlpha(s, "push", "pop", "convert", "delete", "peek")
		for _, sd := range seeds {
			enum(s, alpha, 0, g.Pick(3, 4), []c03Op{c03FromSliceOp(s.c0, sd)})
		}
	}
	// 3. every slice up to length 6 (8) over the 4 values: FromSlice + drain, FromSlice + one more op, Sort
	maxS := g.Pick(6, 8)
	varS := g.Pick(5, 6)
	slicesOver(vals, maxS, func(sl []int) {
		for c := 0; c < 4; c++ {
			if !g.Quick() && len(sl) > 6 && (c == 0 || c == 3) {
				continue // lengths 7, 8: comparators > and key< only
			}
			ty := 0
			if c >= 2 {
				ty = 1
			}
			c03Emit(g, "exhaustive", c03Hist(ty, c, c, []c03Op{c03FromSliceOp(c, sl)}))
			w := &W{}
			w.Int(1).Int(ty).Int(c).Ints(sl)
			c03Emit(g, "exhaustive", w.Out())
			if len(sl) <= varS && len(sl) > 0 {
				for _, v := range vals {
					c03Emit(g, "exhaustive", c03Hist(ty, c, c, []c03Op{c03FromSliceOp(c, sl), {6, v}}))
				}
				c03Emit(g, "exhaustive", c03Hist(ty, c, c, []c03Op{c03FromSliceOp(c, sl), {5, c ^ 1}}))
			}
		}
	})
	// 4. Merge / Meld where the RECEIVER has spare capacity (Go's append growth 1,2,4,8: three
	//    pushes leave len 3 cap 4; Pop, Clear and Delete keep the array) or not, with every small
	//    argument (slices up to length 2 (3), built by FromSlice = exact capacity, or by pushes),
	//    followed by operations on the result, on the receiver (h2) and on the argument (h1);
	//    the final drains observe all three.  Storage shared between any two of them cannot
	//    survive this: the shortest such case is the replay.
	pushes := func(vs ...int) []c03Op {
		var o []c03Op
		for _, v := range vs {
			o = append(o, c03Op{1, v})
		}
		return o
	}
	cat := func(parts ...[]c03Op) []c03Op {
		var o []c03Op
		for _, p := range parts {
			o = append(o, p...)
		}
		return o
	}
	mm := g.Pick(2, 3)
	for _, s := range setups {
		preps := [][]c03Op{
			{},                                    // fresh: cap 0
			pushes(10, 20, 21),                    // len 3 cap 4
			pushes(21, 10, 0),                     // len 3 cap 4, sifted
			cat(pushes(10, 20), []c03Op{{2}}),     // len 1 cap 2
			pushes(0, 10, 20, 21, 10),             // len 5 cap 8
			cat(pushes(10, 20, 21), []c03Op{{4}}), // cleared: len 0 cap 4
			cat(pushes(21, 10, 20, 0), []c03Op{{2}, {2}}),                                  // len 2 cap 4
			{c03FromSliceOp(s.c0, []int{10, 20, 21, 0}), {2}},                              // FromSlice then Pop: len 3 cap 4
			{c03FromSliceOp(s.c0, []int{20, 10, 21})},                                      // exact capacity: nothing to share
			cat(pushes(10, 20, 21, 0), []c03Op{{6, 20}}),                                   // Delete: len 3 cap 4
			{{14, 3, 20, 21, 10}},                                                          // variadic push: len 3 cap 4
			{c03FromSliceOp(s.c0, []int{0, 10, 20, 21, 10, 20, 0}), {5, s.conv}, {2}, {2}}, // converted, len 5 cap 7
		}
		// a receiver whose order was broken by the pinned Delete (defect #20: inner victim, the moved
		// element does not fit): Merge/Meld must still hand out an ORDERED result (they re-push);
		// the receiver kept by Merge stays as it is (its out-of-order Pops are the known finding)
		asc := []int{10, 20, 30, 40, 50, 60, 70, 80}
		if s.c0 == 1 {
			asc = []int{80, 70, 60, 50, 40, 30, 20, 10}
		}
		preps = append(preps, []c03Op{c03FromSliceOp(s.c0, asc), {6, asc[1]}})
		follows := [][]c03Op{
			{},
			{{1, 0}}, {{1, 21}}, {{2}}, // on the result
			{{15}, {1, 0}}, {{15}, {1, 21}}, {{15}, {2}}, // on the receiver
			{{13}, {1, 0}}, {{13}, {1, 21}}, {{13}, {2}}, // on the argument
			{{1, 0}, {15}, {1, 21}, {15}, {2}},       // result, receiver, result
			{{15}, {1, 0}, {13}, {1, 21}, {13}, {2}}, // receiver, argument, receiver
			{{2}, {15}, {2}, {13}, {2}},              // a Pop on each
		}
		slicesOver(vals, mm, func(b []int) {
			b = cloneInts(b)
			args := [][]c03Op{{c03FromSliceOp(s.c1, b)}}
			if len(b) > 0 {
				args = append(args, pushes(b...))
			}
			for _, arg := range args {
				for _, prep := range preps {
					for _, code := range []int{11, 12} {
						for _, f := range follows {
							ops := cat([]c03Op{{13}}, arg, []c03Op{{13}}, prep, []c03Op{{code}}, f)
							g.Count("alias-probe:merge/meld-with-all-three-heaps-reused")
							c03Emit(g, "exhaustive", c03Hist(s.ty, s.c0, s.c1, ops))
						}
					}
				}
			}
		})
	}
	// 4b. the former pair scope: Merge / Meld of every pair of small FromSlice heaps, differing comparators
	slicesOver(vals, mm, func(a []int) {
		a = cloneInts(a)
		slicesOver(vals, mm, func(b []int) {
			for _, s := range setups {
				for _, code := range []int{11, 12} {
					ops := []c03Op{c03FromSliceOp(s.c1, b), {13}, c03FromSliceOp(s.c0, a), {code}, {9}, {13}, {1, 10}}
					c03Emit(g, "exhaustive", c03Hist(s.ty, s.c0, s.c1, ops))
				}
			}
		})
	})
	// 5. Convert on a heap of 0 or 1 elements — fresh, popped empty, cleared, FromSlice of 0/1
	//    elements, reduced by Delete, emptied by Meld (as receiver and as argument) — once or twice,
	//    followed by every sequence of 2 and 3 pushes over the 4 values, then Peek / Merge / Meld:
	//    the new comparator must govern the later pushes and be handed on to a merged heap.
	for _, s := range setups {
		small := [][]c03Op{
			{},
			cat(pushes(10), []c03Op{{2}}),
			cat(pushes(10), []c03Op{{4}}),
			{c03FromSliceOp(s.c0, nil)},
			pushes(0), pushes(10), pushes(20), pushes(21),
			{c03FromSliceOp(s.c0, []int{10})},
			{c03FromSliceOp(s.c0, []int{21})},
			cat(pushes(10, 20), []c03Op{{2}}),
			cat(pushes(20, 10), []c03Op{{6, 20}}),
			cat(pushes(10), []c03Op{{6, 10}}),
			cat(pushes(10, 21), []c03Op{{12}, {15}}),                     // the emptied receiver of a Meld
			cat([]c03Op{{13}}, pushes(10, 0), []c03Op{{13}, {12}, {13}}), // the emptied argument of a Meld
			cat(pushes(10), []c03Op{{11}, {2}, {15}}),                    // the receiver kept by a Merge (1 element)
		}
		convs := [][]c03Op{{{5, s.conv}}, {{5, s.conv}, {5, s.c0}, {5, s.conv}}, {{5, s.c0}}}
		tails := [][]c03Op{
			{},
			{{3}},
			{{11}, {3}},
			{{13}, {1, 10}, {1, 0}, {1, 21}, {13}, {12}, {3}},
		}
		for _, pre := range small {
			for _, cv := range convs {
				for n := 2; n <= 3; n++ {
					seqsExact(len(vals), n, func(seq []int) {
						var ps []c03Op
						for _, k := range seq {
							ps = append(ps, c03Op{1, vals[k]})
						}
						for _, tl := range tails {
							g.Count("convert-on-size-0/1-then-pushes")
							c03Emit(g, "exhaustive", c03Hist(s.ty, s.c0, s.c1, cat(pre, cv, ps, tl)))
						}
					})
				}
			}
		}
	}
	// 5a. SELF: the receiver as its own argument (two handles on one heap).  h.Merge(h) must hand out every
	//     element twice and leave h alone; h.Meld(h) must hand out every element ONCE (the receiver is emptied
	//     before the argument is read) and leave h empty.  h1 is prepared as the twin / the empty heap the
	//     model's Merge / Meld takes as argument (see exec, codes 16 and 17).
	for _, s := range setups {
		for n := 0; n <= 4; n++ {
			seqsExact(len(vals), n, func(seq []int) {
				xs := make([]int, len(seq))
				for i, k := range seq {
					xs[i] = vals[k]
				}
				twin := []c03Op{c03FromSliceOp(s.c0, xs), {13}, c03FromSliceOp(s.c0, xs)}
				empty := []c03Op{c03FromSliceOp(s.c0, nil), {13}, c03FromSliceOp(s.c0, xs)}
				for _, tl := range [][]c03Op{{}, {{2}}, {{1, 10}, {2}}, {{15}, {1, 0}, {15}, {2}}} {
					g.Count("self-merge/meld")
					c03Emit(g, "exhaustive", c03Hist(s.ty, s.c0, s.c1, cat(twin, []c03Op{{16}}, tl)))
					c03Emit(g, "exhaustive", c03Hist(s.ty, s.c0, s.c1, cat(empty, []c03Op{{17}}, tl)))
				}
			})
		}
	}
	g.Exhaustive("exhaustive")

	// 5b. INSTANCES: the same wire histories on Heap[string] (ty 2) and on Heap[struct{key string;
	//     payload int}] (ty 3).  Every string is built at run time for every use, so equal values
	//     never share a backing array: Delete's ==, the zero value ("" / zero struct) returned by
	//     Peek/Pop on an empty heap, copying in Merge/Meld/GetValues/FromSlice/Sort are exercised on
	//     a type where content and address differ.  Model and wire are the ones of ty 0/1.
	stream = "instances"
	isetups := []setup{{2, 0, 1, 1}, {2, 1, 0, 0}, {2, 2, 3, 3}, {3, 2, 3, 3}, {3, 0, 1, 1}}
	for si, s := range isetups {
		full := mkAlpha(s, "push", "pop", "peek", "clear", "convert", "delete", "values", "merge", "meld", "swap", "swap2")
		core := mkAlpha(s, "push", "pop", "convert", "delete2", "merge")
		li := 3
		if !g.Quick() && (si == 0 || si == 3) {
			li = 4 // thorough: one set-up per element type goes one operation further
		}
		enum(s, full, 0, li, nil)
		enum(s, core, li+1, li+1, nil)
		// from pre-built depth-3 heaps: Delete of every value, Pops, Convert, Peek
		alpha := mkAlpha(s, "push", "pop", "convert", "delete", "peek")
		for _, sd := range seeds[:2] {
			enum(s, alpha, 0, 3, []c03Op{c03FromSliceOp(s.c0, sd)})
		}
	}
	// every slice up to length 5 (6): FromSlice + drain, Sort, FromSlice + Delete of each value,
	// FromSlice + GetValues + Convert; all four comparators on both instances
	slicesOver(vals, g.Pick(5, 6), func(sl []int) {
		for ty := 2; ty <= 3; ty++ {
			for c := 0; c < 4; c++ {
				c03Emit(g, stream, c03Hist(ty, c, c, []c03Op{c03FromSliceOp(c, sl)}))
				w := &W{}
				w.Int(1).Int(ty).Int(c).Ints(sl)
				c03Emit(g, stream, w.Out())
				if len(sl) > 0 && len(sl) <= 4 {
					for _, v := range vals {
						c03Emit(g, stream, c03Hist(ty, c, c, []c03Op{c03FromSliceOp(c, sl), {6, v}, {6, v}}))
					}
					c03Emit(g, stream, c03Hist(ty, c, c, []c03Op{c03FromSliceOp(c, sl), {9}, {5, c ^ 1}, {9}}))
				}
			}
		}
	})
	// Merge / Meld with all three heaps re-used, small arguments
	for _, s := range isetups {
		slicesOver(vals, 2, func(b []int) {
			b = cloneInts(b)
			for _, prep := range [][]c03Op{{}, pushes(10, 20, 21), cat(pushes(21, 10, 20, 0), []c03Op{{2}, {2}}), {c03FromSliceOp(s.c0, []int{20, 10, 21})}} {
				for _, code := range []int{11, 12} {
					for _, f := range [][]c03Op{{}, {{1, 0}, {15}, {1, 21}, {15}, {2}}, {{15}, {6, 10}, {13}, {6, 21}, {13}, {6, 0}}} {
						c03Emit(g, stream, c03Hist(s.ty, s.c0, s.c1, cat([]c03Op{{13}}, pushes(b...), []c03Op{{13}}, prep, []c03Op{{code}}, f)))
					}
				}
			}
		})
	}
	g.Exhaustive("instances")
	// random histories and random Sorts on the string instances (values 0..50; negative and huge ones too)
	for k := 0; k < g.Pick(120, 1200); k++ {
		ty := 2 + g.Rng.Intn(2)
		var ops []c03Op
		var held []int
		for i := 0; i < 120; i++ {
			v := g.Rng.Intn(51)
			if g.Rng.Intn(20) == 0 {
				v = []int{-7, -70, 1 << 40, -(1 << 40)}[g.Rng.Intn(4)]
			}
			switch x := g.Rng.Intn(100); {
			case x < 36:
				ops = append(ops, c03Op{1, v})
				held = append(held, v)
			case x < 50:
				ops = append(ops, c03Op{2})
			case x < 55:
				ops = append(ops, c03Op{3})
			case x < 72:
				if len(held) > 0 && g.Rng.Intn(5) > 0 {
					v = held[g.Rng.Intn(len(held))]
				}
				ops = append(ops, c03Op{6, v})
			case x < 77:
				ops = append(ops, c03Op{5, g.Rng.Intn(4)})
			case x < 80:
				sl := randSlice(g.Rng, 20, 0, 50)
				ops = append(ops, c03FromSliceOp(g.Rng.Intn(4), sl))
				held = cloneInts(sl)
			case x < 84:
				ops = append(ops, c03Op{11})
			case x < 87:
				ops = append(ops, c03Op{12})
			case x < 91:
				ops = append(ops, c03Op{13})
				held = nil
			case x < 93:
				ops = append(ops, c03Op{15})
				held = nil
			case x < 95:
				ops = append(ops, c03Op{9})
			case x < 96:
				ops = append(ops, c03Op{4})
				held = nil
			default:
				sl := randSlice(g.Rng, 5, 0, 50)
				ops = append(ops, append(c03Op{14, len(sl)}, sl...))
				held = append(held, sl...)
			}
		}
		c03Emit(g, "instances-random", c03Hist(ty, g.Rng.Intn(4), g.Rng.Intn(4), ops))
		w := &W{}
		w.Int(1).Int(ty).Int(g.Rng.Intn(4)).Ints(randSlice(g.Rng, 60, -5, []int{3, 50, 1000}[g.Rng.Intn(3)]))
		c03Emit(g, "instances-random", w.Out())
	}
	// a few large ones: string heaps of 130 and 1030 elements (the latter judged by the specification only)
	for _, n := range []int{130, 1030} {
		for ty := 2; ty <= 3; ty++ {
			vs := make([]int, n)
			for i := range vs {
				vs[i] = g.Rng.Intn(5 * n)
			}
			ops := []c03Op{c03FromSliceOp(ty-2, vs[:n/2])}
			for _, v := range vs[n/2:] {
				ops = append(ops, c03Op{1, v})
			}
			in := c03Hist(ty, ty-2, 1, ops)
			mode := 1
			if n > 130 {
				in[0] = 2
				mode = 3
			}
			c03Emit(g, "instances-random", in)
			w := &W{}
			w.Int(mode).Int(ty).Int(5 - ty).Ints(vs)
			c03Emit(g, "instances-random", w.Out())
		}
	}
	stream = "exhaustive"

	// 6. seeded random histories of length 200 over 0..50, Convert in the mix
	nr := g.Pick(300, 3000)
	for k := 0; k < nr; k++ {
		ty := g.Rng.Intn(2)
		ncmp := 4
		c0, c1 := g.Rng.Intn(ncmp), g.Rng.Intn(ncmp)
		var ops []c03Op
		var held []int // rough shadow of h0's contents to aim Delete at present values
		sz0, sz1 := 0, 0
		n := 200
		for i := 0; i < n; i++ {
			x := g.Rng.Intn(100)
			v := g.Rng.Intn(51)
			switch {
			case x < 34:
				ops = append(ops, c03Op{1, v})
				held = append(held, v)
				sz0++
			case x < 48:
				ops = append(ops, c03Op{2})
				if sz0 > 0 {
					sz0--
				}
			case x < 53:
				ops = append(ops, c03Op{3})
			case x < 66:
				if len(held) > 0 && g.Rng.Intn(5) > 0 {
					v = held[g.Rng.Intn(len(held))]
				}
				ops = append(ops, c03Op{6, v})
			case x < 72:
				ops = append(ops, c03Op{5, g.Rng.Intn(ncmp)})
			case x < 75:
				sl := randSlice(g.Rng, 40, 0, 50)
				ops = append(ops, c03FromSliceOp(g.Rng.Intn(ncmp), sl))
				held = cloneInts(sl)
				sz0 = len(sl)
			case x < 78:
				if sz0+sz1 > 250 {
					ops = append(ops, c03Op{4})
					sz0 = 0
					held = nil
				} else {
					ops = append(ops, c03Op{11})
					sz0 += sz1
				}
			case x < 80:
				ops = append(ops, c03Op{12})
				sz0 += sz1
				sz1 = 0
			case x < 83:
				ops = append(ops, c03Op{13})
				sz0, sz1 = sz1, sz0
				held = nil
			case x < 84:
				ops = append(ops, c03Op{15}) // bring the receiver of the last Merge/Meld back
				held = nil
			case x < 85:
				ops = append(ops, c03Op{4})
				sz0 = 0
				held = nil
			case x < 88:
				ops = append(ops, c03Op{7})
			case x < 90:
				ops = append(ops, c03Op{8})
			case x < 93:
				ops = append(ops, c03Op{9})
			default:
				sl := randSlice(g.Rng, 6, 0, 50)
				o := c03Op{14, len(sl)}
				ops = append(ops, append(o, sl...))
				held = append(held, sl...)
				sz0 += len(sl)
			}
		}
		c03Emit(g, "random", c03Hist(ty, c0, c1, ops))
	}
	// random Sort / FromSlice on longer slices, narrow and wide alphabets
	ns := g.Pick(400, 4000)
	for k := 0; k < ns; k++ {
		hi := []int{3, 9, 50, 1000}[g.Rng.Intn(4)]
		sl := randSlice(g.Rng, 60, 0, hi)
		c := g.Rng.Intn(4)
		ty := g.Rng.Intn(2)
		if k%2 == 0 {
			w := &W{}
			w.Int(1).Int(ty).Int(c).Ints(sl)
			c03Emit(g, "random", w.Out())
		} else {
			c03Emit(g, "random", c03Hist(ty, c, c, []c03Op{c03FromSliceOp(c, sl)}))
		}
	}

	// 7. LARGE: heaps of 40, 130, 300, 1030 (thorough: + 3000, 10000) elements — sift paths of
	//    depth 6-10 (14), every capacity growth of append and any shrink threshold are crossed.
	genC03Large(g)

	// 8. degenerate / boundary inputs
	for _, s := range setups {
		for _, ops := range [][]c03Op{
			{},
			{{2}, {3}, {6, 0}, {4}, {5, s.conv}, {9}, {8}, {7}},
			{c03FromSliceOp(s.c0, nil), {2}, {6, 0}},
			{{11}, {12}, {2}},
			{{1, 10}, {12}, {13}, {1, 20}, {2}, {2}, {13}, {1, 0}},
			{{1, 10}, {1, 20}, {12}, {13}, {4}, {6, 10}, {1, 21}, {11}},
			{{14, 0}, {14, 1, 0}, {6, 0}, {6, 0}},
			{{1, -7}, {1, 1 << 40}, {1, -(1 << 40)}, {2}, {6, -7}, {1, 0}, {3}},
			{{1, 0}, {2}, {2}, {3}, {1, 0}, {6, 0}, {6, 0}},
			{{1, 10}, {1, 10}, {1, 10}, {6, 10}, {6, 10}, {6, 10}, {6, 10}},
		} {
			c03Emit(g, "malformed", c03Hist(s.ty, s.c0, s.c1, ops))
		}
	}
	for c := 0; c < 4; c++ {
		for _, sl := range [][]int{{}, {5}, {5, 5}, {-3, 1 << 40, 0, -(1 << 40)}} {
			w := &W{}
			w.Int(1).Int(c / 2).Int(c).Ints(sl)
			c03Emit(g, "malformed", w.Out())
		}
	}
}

// genC03Large emits the "large" stream.  Values come from g.Rng (wide range, a
// narrow range with many ties) or are ascending / descending / all tied; every
// history ends in the full drain of all heaps, so a heap of n elements costs n
// Pops with sift-down paths of depth log2(n).
//
// The Gallina list model costs O(n) per array access with unary indices (a drain
// of 1000 elements takes it ~20 s), so only the cases up to modelMax elements are
// sent in modes 0/1 (model + specification); the larger ones go in the spec-only
// modes 2/3.  Histories with Deletes always go in mode 0 (the known finding can only
// be attributed there) and are kept at sizes the model can afford.
func genC03Large(g *Gen) {
	type cfg struct{ ty, c0, c1 int }
	cfgs := []cfg{{0, 0, 1}, {0, 1, 0}, {1, 2, 3}, {1, 3, 2}}
	modelMax := g.Pick(130, 300)     // heaps up to this size are also run on the model
	sortModelMax := g.Pick(257, 600) // the same for Sort
	mkVals := func(n, kind int) []int {
		v := make([]int, n)
		for i := range v {
			switch kind {
			case 0: // wide
				v[i] = g.Rng.Intn(1000000)
			case 1: // many ties (and ties by key: 10 keys x 10 payloads)
				v[i] = g.Rng.Intn(100)
			case 2: // ascending
				v[i] = 3 * i
			case 3: // descending
				v[i] = 3 * (n - i)
			default: // all equal by key, payloads cycling
				v[i] = 500 + i%10
			}
		}
		return v
	}
	pushEach := func(vs []int) []c03Op {
		o := make([]c03Op, len(vs))
		for i, v := range vs {
			o[i] = c03Op{1, v}
		}
		return o
	}
	pushBatch := func(vs []int) c03Op { return append(c03Op{14, len(vs)}, vs...) }
	pops := func(k int) []c03Op {
		o := make([]c03Op, k)
		for i := range o {
			o[i] = c03Op{2}
		}
		return o
	}
	// emit: size = the largest heap of the history (decides the mode)
	emit := func(c cfg, size int, key string, parts ...[]c03Op) {
		var ops []c03Op
		for _, p := range parts {
			ops = append(ops, p...)
		}
		g.Count("large:" + key)
		in := c03Hist(c.ty, c.c0, c.c1, ops)
		if size > modelMax {
			in[0] = 2
		}
		c03Emit(g, "large", in)
	}
	sizes := []int{40, 130, 300, 1030}
	if !g.Quick() {
		sizes = append(sizes, 3000)
	}
	k := 0
	pick := func() cfg { k++; return cfgs[k%len(cfgs)] }
	for _, n := range sizes {
		kinds := []int{0, 1, 2, 3}
		if n >= 1000 {
			kinds = []int{0, 1} // the big ones: random wide and random with ties
		}
		for _, kind := range kinds {
			reps := 1
			if n <= 130 {
				reps = 2
			}
			for r := 0; r < reps; r++ {
				c := pick()
				vs := mkVals(n, kind)
				// built by single Pushes, by FromSlice, by one batch Push; drained completely
				emit(c, n, "push-each+drain", pushEach(vs))
				emit(c, n, "fromslice+drain", []c03Op{c03FromSliceOp(c.c0, vs)})
				emit(c, n, "push-batch+drain", []c03Op{pushBatch(vs)})
				// Convert of a large heap, then drain
				emit(c, n, "convert+drain", []c03Op{c03FromSliceOp(c.c0, vs), {5, c.c0 ^ 1}})
				// Merge / Meld of two large heaps (one pushed, one from a slice); then the result,
				// the receiver and the argument are used again; all three drained
				ws := mkVals(n/2+1, kind)
				for _, code := range []int{11, 12} {
					emit(c, n+1, "merge/meld-two-large", []c03Op{{13}, c03FromSliceOp(c.c1, ws), {13}}, pushEach(vs[:n/2]),
						[]c03Op{{code}, {3}, {1, 7}, {15}, {1, 8}, {15}, {13}, {1, 9}, {13}})
				}
				// saw-tooth: grow to n, then 4 rounds of (push n/4, pop n/4) so that n elements pass
				// through while ~n are held; fall to n/8 (any shrink threshold), grow back, drain
				q := n / 4
				var saw []c03Op
				saw = append(saw, pushEach(vs)...)
				for round := 0; round < 4; round++ {
					saw = append(saw, pushEach(mkVals(q, kind%2))...)
					saw = append(saw, pops(q)...)
				}
				saw = append(saw, pops(n-n/8)...)
				saw = append(saw, c03Op{3}, c03Op{7})
				saw = append(saw, pushEach(mkVals(n/2, kind%2))...)
				emit(c, n+q, "saw-tooth", saw)
			}
		}
	}
	// Delete in a large heap: inner victims (defect #20 may strike: the known-finding matcher must
	// attribute exactly those cases), the root, the last slot, absent values; Pops in between.
	// Always mode 0 (model + matcher), hence at sizes the model can afford.
	delSizes := []int{40, 130, 300}
	if !g.Quick() {
		delSizes = append(delSizes, 1030)
	}
	for _, n := range delSizes {
		for r := 0; r < 2; r++ {
			c := pick()
			vs := mkVals(n, r) // r=0 wide (mostly distinct), r=1 ties
			ops := []c03Op{c03FromSliceOp(c.c0, vs)}
			for d := 0; d < 12; d++ {
				ops = append(ops, c03Op{6, vs[g.Rng.Intn(len(vs))]})
				if d%3 == 2 {
					ops = append(ops, c03Op{2}, c03Op{3})
				}
			}
			ops = append(ops, c03Op{6, -5})
			g.Count("large:deletes-in-large-heap")
			c03Emit(g, "large", c03Hist(c.ty, c.c0, c.c1, ops))
			// absent values only: nothing may be attributed, the property must simply hold
			emit(c, n, "delete-absent-in-large-heap", []c03Op{c03FromSliceOp(c.c0, vs), {6, -5}, {6, -6}, {2}, {6, -7}})
		}
	}
	// batch Push(v1..vk) onto a heap that already holds sz elements (built by pushes or FromSlice)
	for _, sz := range []int{0, 1, 8, 50, 300} {
		for _, kk := range []int{2, 9, 17, 33, 100} {
			for kind := 0; kind < 2; kind++ {
				c := pick()
				base := mkVals(sz, kind)
				batch := mkVals(kk, kind)
				emit(c, sz+kk, "batch-push-onto-heap", pushEach(base), []c03Op{pushBatch(batch), {3}})
				emit(c, sz+2*kk, "batch-push-onto-heap", []c03Op{c03FromSliceOp(c.c0, base), pushBatch(batch), {3}, pushBatch(mkVals(kk, kind)), {2}})
				// the same sizes through Merge and Meld: receiver of size sz, argument of size kk
				for _, code := range []int{11, 12} {
					emit(c, sz+kk, "merge/meld-sizes", []c03Op{{13}, pushBatch(batch), {13}, c03FromSliceOp(c.c0, base), {code}, {3}})
				}
			}
		}
	}
	if !g.Quick() {
		// ~10^4: one push-built and one FromSlice-built heap each, drained
		for kind := 0; kind < 2; kind++ {
			vs := mkVals(10000, kind)
			emit(cfgs[kind], 10000, "push-each+drain", pushEach(vs))
			emit(cfgs[kind+2], 10000, "fromslice+drain", []c03Op{c03FromSliceOp(cfgs[kind+2].c0, vs)})
		}
	}
	// Sort of 100..2000 (thorough: 10000) elements: random, many ties, sorted, reversed, all tied
	ssz := []int{100, 257, 600, 2000}
	if !g.Quick() {
		ssz = append(ssz, 5000, 10000)
	}
	for _, n := range ssz {
		for kind := 0; kind < 5; kind++ {
			for c := 0; c < 4; c++ {
				if n >= 5000 && (kind+c)%4 != 0 {
					continue
				}
				mode := 1
				if n > sortModelMax {
					mode = 3
				} else if n > 100 && (kind+c)%2 == 1 {
					continue // the model is slow: half of the combinations above 100 elements
				}
				w := &W{}
				w.Int(mode).Int(c / 2).Int(c).Ints(mkVals(n, kind))
				g.Count("large:sort")
				c03Emit(g, "large", w.Out())
			}
		}
	}
}

func init() {
	register(&Prop{ID: "C03", Exec: execC03, Gen: genC03, Describe: describeC03,
		Rule: "three heap variables: h0 (operated on), h1 (argument of Merge/Meld), h2 (the receiver of the last Merge/Meld, kept alive). " +
			"corpus first; exhaustive: every operation sequence from empty heaps over values {0,1,2,2'} (coded 0,10,20,21; 20/21 tie by key) — " +
			"17-op alphabet (Push x4, Pop, Peek, Clear, Convert, Delete x4, GetValues, Merge, Meld, Swap, Swap2) up to length 3 (thorough 4), 10-op alphabet at the next length, 7-op alphabet at the one after (thorough: 6-op at length 7) — " +
			"for Heap[int] with < and >, and Heap[struct] ordered by key; the same from three pre-built depth-3 heaps; every slice up to length 6 (8) over the 4 values through FromSlice (+ one Delete/Convert) and Sort under all four comparators; " +
			"Merge/Meld of a receiver prepared in 13 ways (with and without spare capacity: after Push growth, Pop, Clear, Delete, FromSlice, Convert; order broken by the pinned Delete) with every argument built from a slice up to length 2 (3) by FromSlice or by pushes, followed by 13 continuations that push/pop on the result, the receiver and the argument; " +
			"Merge/Meld of every pair of FromSlice heaps up to length 2 (3); Convert (once, thrice, to the same comparator) on 16 kinds of heaps of 0 or 1 elements followed by every sequence of 2 and 3 pushes and Peek/Merge/Meld; " +
			"then seeded random histories of 200 operations over 0..50 (all 15 operations) and random Sort/FromSlice inputs up to length 60; " +
			"a LARGE stream: heaps of 40, 130, 300, 1030 (thorough 3000, 10000) elements built by Push, one batch Push, FromSlice, Convert, Merge and Meld of two large heaps, saw-tooth histories, batch Push of 2..100 values onto heaps of 0..300, Deletes in heaps of 40..300 (1030), all drained completely, and Sort of 100..2000 (10000) elements (random, many ties, sorted, reversed, all tied) — the cases above 130 (300) heap elements / 257 (600) sort elements are judged against the specification only (modes 2/3), the others also against the model; " +
			"an INSTANCES stream: the same wire histories on Heap[string] and Heap[struct{key string; payload int}] (strings built at run time for every use, equal values never share storage; zero value on the wire 0, a misplaced zero value reported as -777001) — 17-op alphabet up to length 3 (thorough: 4 for one set-up per type), 8-op alphabet at the next length, two pre-built depth-3 heaps + 11-op alphabet up to 3, every slice up to length 5 (6) through FromSlice/Sort/Delete/GetValues/Convert under all four comparators, Merge/Meld with the three heaps re-used — plus 120 (1200) random 120-op histories and Sorts with negative and huge values and string heaps of 130 and 1030 elements; " +
			"plus degenerate inputs (operations on empty and melded-away heaps, absent and repeated Deletes, negative and huge values). " +
			"Observed: every return value, Size after every operation, GetValues as a sorted multiset, the contents of both inputs right after Merge/Meld, and a final drain of all three heaps by Pop. " +
			"A case counts as non-trivial when a heap (or the slice to sort) held at least 3 elements, i.e. a sift had two children to choose from."})
}
