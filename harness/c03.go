package main

import (
	"fmt"
	"sort"
	"strings"
	"sync"
	"time"

	"github.com/esimov/gogu"
	"github.com/esimov/gogu/heap"
)

// C03 — binary heap + heapsort.  Wire format: see coq/theories/C03_Wire.v
// (kept in step).
//
//	mode 0 (history): 0 ty c0 c1 ops...      h0 = NewHeap(c0), h1 = NewHeap(c1)
//	   1 x Push      2 Pop       3 Peek      4 Clear     5 c Convert   6 x Delete
//	   7 Size        8 IsEmpty   9 GetValues 10 c n xs.. FromSlice     11 Merge
//	  12 Meld       13 Swap     14 n xs.. Push(xs...)
//	mode 1 (sort):    1 ty c n xs...
//
// ty 0: Heap[int]; ty 1: Heap[c03KP] (struct{key, payload}); the integer e on
// the wire stands for {key: e / 10, payload: e % 10}.
// comparators: 0 a<b, 1 a>b, 2 a/10 < b/10 (by key, ties), 3 a/10 > b/10.
type c03KP struct{ key, payload int }

func c03IntCmp(c int) gogu.CompFn[int] {
	switch c {
	case 0:
		return func(a, b int) bool { return a < b }
	case 1:
		return func(a, b int) bool { return a > b }
	case 2:
		return func(a, b int) bool { return a/10 < b/10 }
	default:
		return func(a, b int) bool { return a/10 > b/10 }
	}
}

func c03KPEnc(v c03KP) int64 { return int64(v.key*10 + v.payload) }
func c03KPDec(e int64) c03KP { return c03KP{key: int(e) / 10, payload: int(e) % 10} }
func c03KPCmp(c int) gogu.CompFn[c03KP] {
	switch c {
	case 0:
		return func(a, b c03KP) bool { return c03KPEnc(a) < c03KPEnc(b) }
	case 1:
		return func(a, b c03KP) bool { return c03KPEnc(a) > c03KPEnc(b) }
	case 2:
		return func(a, b c03KP) bool { return a.key < b.key }
	default:
		return func(a, b c03KP) bool { return a.key > b.key }
	}
}

// c03Obs is the observation buffer shared between the worker goroutine and
// the watchdog.
type c03Obs struct {
	mu  sync.Mutex
	out []int64
}

func (o *c03Obs) add(xs ...int64) {
	o.mu.Lock()
	o.out = append(o.out, xs...)
	o.mu.Unlock()
}
func (o *c03Obs) snapshot() []int64 {
	o.mu.Lock()
	defer o.mu.Unlock()
	return append([]int64{}, o.out...)
}

var c03Timeout = 3 * time.Second

// c03Stats is filled by the run for the generator's distribution counters.
type c03Stats struct {
	maxSize     int
	delRoot     int
	delLast     int
	delInner    int
	delAbsent   int
	delEmpty    int
	orderBroken int // successful Deletes after which the array violates heap order (defect #20)
	popTies     int // Pops while another element ties with the root under the comparator
	panicked    bool
	hung        bool
}

func c03Sorted[T any](vals []T, enc func(T) int64) []int64 {
	out := make([]int64, len(vals))
	for i, v := range vals {
		out[i] = enc(v)
	}
	sort.Slice(out, func(i, j int) bool { return out[i] < out[j] })
	return out
}

func c03EncList(o *c03Obs, xs []int64) {
	o.add(int64(len(xs)))
	o.add(xs...)
}

// c03History interprets a history against real heaps of element type T.
func c03History[T comparable](r *R, o *c03Obs, st *c03Stats, dec func(int64) T, enc func(T) int64, cmpOf func(int) gogu.CompFn[T]) {
	c0, c1 := r.Int(), r.Int()
	h0 := heap.NewHeap(cmpOf(c0))
	h1 := heap.NewHeap(cmpOf(c1))
	cur0, cur1 := cmpOf(c0), cmpOf(c1) // comparator currently installed (for statistics only)
	readVals := func() []T {
		n := r.Int()
		if n < 0 || n > len(r.w) {
			r.bad = true
			return nil
		}
		vs := make([]T, n)
		for i := range vs {
			vs[i] = dec(r.I64())
		}
		return vs
	}
	for len(r.w) > 0 && !r.bad {
		code := r.Int()
		var payload []int64
		p := try(func() {
			switch code {
			case 1:
				h0.Push(dec(r.I64()))
			case 2:
				vals := h0.GetValues()
				for i := 1; i < len(vals); i++ {
					if !cur0(vals[0], vals[i]) && !cur0(vals[i], vals[0]) {
						st.popTies++
						break
					}
				}
				payload = []int64{enc(h0.Pop())}
			case 3:
				payload = []int64{enc(h0.Peek())}
			case 4:
				h0.Clear()
			case 5:
				c := r.Int()
				cur0 = cmpOf(c)
				h0.Convert(cur0)
			case 6:
				x := dec(r.I64())
				// classify the victim position (statistics only; read-only look at the array)
				vals := h0.GetValues()
				idx := -1
				for i, v := range vals {
					if v == x {
						idx = i
						break
					}
				}
				switch {
				case len(vals) == 0:
					st.delEmpty++
				case idx < 0:
					st.delAbsent++
				case idx == 0:
					st.delRoot++
				case idx == len(vals)-1:
					st.delLast++
				default:
					st.delInner++
				}
				ok, err := h0.Delete(x)
				payload = []int64{b2i(ok), b2i(err != nil)}
				if ok {
					vals = h0.GetValues()
					for i := 1; i < len(vals); i++ {
						if cur0(vals[i], vals[(i-1)/2]) {
							st.orderBroken++
							break
						}
					}
				}
			case 7:
				payload = []int64{int64(h0.Size())}
			case 8:
				payload = []int64{b2i(h0.IsEmpty())}
			case 9:
				s := c03Sorted(h0.GetValues(), enc)
				payload = append([]int64{int64(len(s))}, s...)
			case 10:
				c := r.Int()
				vs := readVals() // a fresh slice: FromSlice takes ownership of it
				cur0 = cmpOf(c)
				h0 = heap.FromSlice(vs, cur0)
			case 11, 12:
				var t *heap.Heap[T]
				if code == 11 {
					t = h0.Merge(h1)
				} else {
					t = h0.Meld(h1)
				}
				a := c03Sorted(h0.GetValues(), enc)
				b := c03Sorted(h1.GetValues(), enc)
				payload = append([]int64{int64(len(a))}, a...)
				payload = append(payload, int64(len(b)))
				payload = append(payload, b...)
				h0 = t
			case 13:
				h0, h1 = h1, h0
				cur0, cur1 = cur1, cur0
			case 14:
				h0.Push(readVals()...)
			default:
				r.bad = true
			}
		})
		if p {
			st.panicked = true
			o.add(2)
			return
		}
		if r.bad {
			return
		}
		var sz int
		if try(func() { sz = h0.Size() }) {
			st.panicked = true
			o.add(2)
			return
		}
		if sz > st.maxSize {
			st.maxSize = sz
		}
		o.add(0)
		o.add(payload...)
		o.add(int64(sz))
	}
	// end of case: drain both heaps by Pop
	drain := func(h *heap.Heap[T]) bool {
		var popped []int64
		var empty bool
		p := try(func() {
			bound := h.Size() + 8
			for k := 0; k < bound && !h.IsEmpty(); k++ {
				popped = append(popped, enc(h.Pop()))
			}
			empty = h.IsEmpty()
		})
		if p {
			st.panicked = true
			o.add(2)
			return false
		}
		o.add(0)
		c03EncList(o, popped)
		o.add(b2i(empty))
		return true
	}
	if !drain(h0) || !drain(h1) {
		return
	}
	if try(func() {
		o.add(int64(h0.Size()), int64(h1.Size()), enc(h0.Pop()), enc(h0.Peek()))
	}) {
		st.panicked = true
		o.add(2)
	}
}

func c03Sort[T comparable](r *R, o *c03Obs, st *c03Stats, dec func(int64) T, enc func(T) int64, cmpOf func(int) gogu.CompFn[T]) {
	c := r.Int()
	n := r.Int()
	if n < 0 || n != len(r.w) {
		r.bad = true
		return
	}
	vs := make([]T, n)
	for i := range vs {
		vs[i] = dec(r.I64())
	}
	st.maxSize = n
	var res []T
	if try(func() { res = heap.Sort(vs, cmpOf(c)) }) {
		st.panicked = true
		o.add(2)
		return
	}
	o.add(0, int64(len(res)))
	for _, v := range res {
		o.add(enc(v))
	}
}

func c03Run(in []int64) ([]int64, *c03Stats) {
	o := &c03Obs{}
	st := &c03Stats{}
	done := make(chan struct{})
	go func() {
		defer close(done)
		r := &R{w: in}
		mode, ty := r.Int(), r.Int()
		if r.bad || (ty != 0 && ty != 1) {
			o.add(-999999)
			return
		}
		idI := func(x int64) int { return int(x) }
		encI := func(x int) int64 { return int64(x) }
		switch {
		case mode == 0 && ty == 0:
			c03History(r, o, st, idI, encI, c03IntCmp)
		case mode == 0 && ty == 1:
			c03History(r, o, st, c03KPDec, c03KPEnc, c03KPCmp)
		case mode == 1 && ty == 0:
			c03Sort(r, o, st, idI, encI, c03IntCmp)
		case mode == 1 && ty == 1:
			c03Sort(r, o, st, c03KPDec, c03KPEnc, c03KPCmp)
		default:
			r.bad = true
		}
		if r.bad {
			o.mu.Lock()
			o.out = []int64{-999999}
			o.mu.Unlock()
		}
	}()
	t := time.NewTimer(c03Timeout)
	defer t.Stop()
	select {
	case <-done:
		return o.snapshot(), st
	case <-t.C:
		// hang: an operation blocked (lock left held) or loops; report what was observed, then 3
		out := append(o.snapshot(), 3)
		return out, &c03Stats{hung: true}
	}
}

func execC03(in []int64) []int64 {
	out, _ := c03Run(in)
	return out
}

var c03OpNames = map[int]string{1: "Push", 2: "Pop", 3: "Peek", 4: "Clear", 5: "Convert", 6: "Delete", 7: "Size",
	8: "IsEmpty", 9: "GetValues", 10: "FromSlice", 11: "Merge", 12: "Meld", 13: "Swap", 14: "PushN"}
var c03CmpNames = map[int]string{0: "<", 1: ">", 2: "key<", 3: "key>"}

func c03CmpName(c int) string {
	if s, ok := c03CmpNames[c]; ok {
		return s
	}
	return "key>"
}

func describeC03(in []int64) string {
	r := &R{w: in}
	mode, ty := r.Int(), r.Int()
	tn := "int"
	if ty == 1 {
		tn = "struct{key,payload} coded key*10+payload"
	}
	var sb strings.Builder
	if mode == 1 {
		c := r.Int()
		fmt.Fprintf(&sb, "Sort[%s](%v, %s)", tn, r.Ints(), c03CmpName(c))
		return sb.String()
	}
	c0, c1 := r.Int(), r.Int()
	fmt.Fprintf(&sb, "Heap[%s] h0=NewHeap(%s) h1=NewHeap(%s):", tn, c03CmpName(c0), c03CmpName(c1))
	for len(r.w) > 0 && !r.bad {
		code := r.Int()
		switch code {
		case 1, 6:
			fmt.Fprintf(&sb, " %s(%d)", c03OpNames[code], r.Int())
		case 5:
			fmt.Fprintf(&sb, " Convert(%s)", c03CmpName(r.Int()))
		case 10:
			c := r.Int()
			fmt.Fprintf(&sb, " h0=FromSlice(%v,%s)", r.Ints(), c03CmpName(c))
		case 14:
			fmt.Fprintf(&sb, " Push(%v...)", r.Ints())
		case 11:
			sb.WriteString(" h0=h0.Merge(h1)")
		case 12:
			sb.WriteString(" h0=h0.Meld(h1)")
		case 13:
			sb.WriteString(" swap(h0,h1)")
		default:
			if n, ok := c03OpNames[code]; ok {
				sb.WriteString(" " + n)
			} else {
				fmt.Fprintf(&sb, " ?%d", code)
			}
		}
	}
	sb.WriteString("; then drain h0, h1 by Pop")
	return sb.String()
}

// ---------- generator ----------

type c03Op []int // one encoded operation

func c03Emit(g *Gen, stream string, in []int64) {
	obs, st := c03Run(in)
	// distribution
	switch {
	case st.maxSize == 0:
		g.Count("maxsize=0")
	case st.maxSize <= 2:
		g.Count("maxsize=1-2")
	case st.maxSize <= 6:
		g.Count("maxsize=3-6")
	case st.maxSize <= 14:
		g.Count("maxsize=7-14")
	default:
		g.Count("maxsize>=15")
	}
	add := func(k string, n int) {
		for i := 0; i < n; i++ {
			g.Count(k)
		}
	}
	add("delete:root", st.delRoot)
	add("delete:last", st.delLast)
	add("delete:inner", st.delInner)
	add("delete:absent", st.delAbsent)
	add("delete:empty-heap", st.delEmpty)
	add("delete:leaves-order-broken(#20)", st.orderBroken)
	add("pop:with-tie-at-root", st.popTies)
	if st.panicked {
		g.Count("panic")
	}
	if st.hung {
		g.Count("hang")
	}
	if in[0] == 1 {
		g.Count("op:Sort")
	} else {
		r := &R{w: in[4:]}
		for len(r.w) > 0 && !r.bad {
			code := r.Int()
			g.Count("op:" + c03OpNames[code])
			switch code {
			case 1, 5, 6:
				r.Int()
			case 10:
				r.Int()
				r.Ints()
			case 14:
				r.Ints()
			}
		}
	}
	// non-trivial: some heap (or the slice to sort) held >= 3 elements, so that a
	// sift had a choice between two children; every case ends in a full drain by Pop
	g.Raw(stream, st.maxSize >= 3, in, obs)
}

func c03Hist(ty, c0, c1 int, ops []c03Op) []int64 {
	w := &W{}
	w.Int(0).Int(ty).Int(c0).Int(c1)
	for _, o := range ops {
		for _, x := range o {
			w.Int(x)
		}
	}
	return w.Out()
}

func c03FromSliceOp(c int, xs []int) c03Op {
	o := c03Op{10, c, len(xs)}
	return append(o, xs...)
}

func genC03(g *Gen) {
	vals := []int{0, 10, 20, 21} // {0, 1, 2, 2'}: 20 and 21 tie by key
	// comparator set-ups: (ty, c0, c1, the comparator Convert switches to)
	type setup struct{ ty, c0, c1, conv int }
	setups := []setup{{0, 0, 1, 1}, {0, 1, 0, 0}, {1, 2, 3, 3}}
	mkAlpha := func(s setup, names ...string) []c03Op {
		var a []c03Op
		for _, n := range names {
			switch n {
			case "push":
				for _, v := range vals {
					a = append(a, c03Op{1, v})
				}
			case "delete":
				for _, v := range vals {
					a = append(a, c03Op{6, v})
				}
			case "delete2":
				a = append(a, c03Op{6, 10}, c03Op{6, 21})
			case "delete1":
				a = append(a, c03Op{6, 21})
			case "pop":
				a = append(a, c03Op{2})
			case "peek":
				a = append(a, c03Op{3})
			case "clear":
				a = append(a, c03Op{4})
			case "convert":
				a = append(a, c03Op{5, s.conv})
			case "values":
				a = append(a, c03Op{9})
			case "merge":
				a = append(a, c03Op{11})
			case "meld":
				a = append(a, c03Op{12})
			case "swap":
				a = append(a, c03Op{13})
			}
		}
		return a
	}
	enum := func(s setup, alpha []c03Op, lo, hi int, prefix []c03Op) {
		for n := lo; n <= hi; n++ {
			seqsExact(len(alpha), n, func(seq []int) {
				ops := append([]c03Op{}, prefix...)
				for _, k := range seq {
					ops = append(ops, alpha[k])
				}
				c03Emit(g, "exhaustive", c03Hist(s.ty, s.c0, s.c1, ops))
			})
		}
	}
	// 1. exhaustive op sequences from two empty heaps.
	//    full alphabet (16 ops) up to length 3 (4); 10 ops up to 4 (5); 7 ops at 5 (6); 6 ops at - (7)
	for _, s := range setups {
		full := mkAlpha(s, "push", "pop", "peek", "clear", "convert", "delete", "values", "merge", "meld", "swap")
		mid := mkAlpha(s, "push", "pop", "convert", "delete2", "merge", "swap")
		core := mkAlpha(s, "push", "pop", "convert", "delete1")
		small := mkAlpha(s, "push", "pop", "delete1")
		lf := g.Pick(3, 4)
		enum(s, full, 0, lf, nil)
		enum(s, mid, lf+1, lf+1, nil)
		enum(s, core, lf+2, lf+2, nil)
		if !g.Quick() {
			enum(s, small, lf+3, lf+3, nil)
		}
	}
	// 2. exhaustive op sequences from pre-built heaps of depth 3 (FromSlice of 7 / 6 elements with duplicates)
	seeds := [][]int{{0, 10, 20, 21, 10, 20, 0}, {21, 20, 10, 0, 21, 10}, {20, 21, 20, 21, 20, 21, 20}}
	for _, s := range setups {
		alpha := mkAlpha(s, "push", "pop", "convert", "delete", "peek")
		for _, sd := range seeds {
			enum(s, alpha, 0, g.Pick(3, 4), []c03Op{c03FromSliceOp(s.c0, sd)})
		}
	}
	// 3. every slice up to length 6 (8) over the 4 values: FromSlice + drain, FromSlice + one more op, Sort
	maxS := g.Pick(6, 8)
	varS := g.Pick(5, 6)
	slicesOver(vals, maxS, func(sl []int) {
		for c := 0; c < 4; c++ {
			if !g.Quick() && len(sl) > 6 && (c == 0 || c == 3) {
				continue // lengths 7, 8: comparators > and key< only
			}
			ty := 0
			if c >= 2 {
				ty = 1
			}
			c03Emit(g, "exhaustive", c03Hist(ty, c, c, []c03Op{c03FromSliceOp(c, sl)}))
			w := &W{}
			w.Int(1).Int(ty).Int(c).Ints(sl)
			c03Emit(g, "exhaustive", w.Out())
			if len(sl) <= varS && len(sl) > 0 {
				for _, v := range vals {
					c03Emit(g, "exhaustive", c03Hist(ty, c, c, []c03Op{c03FromSliceOp(c, sl), {6, v}}))
				}
				c03Emit(g, "exhaustive", c03Hist(ty, c, c, []c03Op{c03FromSliceOp(c, sl), {5, c ^ 1}}))
			}
		}
	})
	// 4. Merge / Meld of every pair of small heaps (slices up to length 2 (3)), differing comparators
	mm := g.Pick(2, 3)
	slicesOver(vals, mm, func(a []int) {
		a = cloneInts(a)
		slicesOver(vals, mm, func(b []int) {
			for _, s := range setups {
				for _, code := range []int{11, 12} {
					ops := []c03Op{c03FromSliceOp(s.c1, b), {13}, c03FromSliceOp(s.c0, a), {code}, {9}, {13}, {1, 10}}
					c03Emit(g, "exhaustive", c03Hist(s.ty, s.c0, s.c1, ops))
				}
			}
		})
	})
	g.Exhaustive("exhaustive")

	// 5. seeded random histories of length 200 over 0..50, Convert in the mix
	nr := g.Pick(300, 3000)
	for k := 0; k < nr; k++ {
		ty := g.Rng.Intn(2)
		ncmp := 4
		c0, c1 := g.Rng.Intn(ncmp), g.Rng.Intn(ncmp)
		var ops []c03Op
		var held []int // rough shadow of h0's contents to aim Delete at present values
		sz0, sz1 := 0, 0
		n := 200
		for i := 0; i < n; i++ {
			x := g.Rng.Intn(100)
			v := g.Rng.Intn(51)
			switch {
			case x < 34:
				ops = append(ops, c03Op{1, v})
				held = append(held, v)
				sz0++
			case x < 48:
				ops = append(ops, c03Op{2})
				if sz0 > 0 {
					sz0--
				}
			case x < 53:
				ops = append(ops, c03Op{3})
			case x < 66:
				if len(held) > 0 && g.Rng.Intn(5) > 0 {
					v = held[g.Rng.Intn(len(held))]
				}
				ops = append(ops, c03Op{6, v})
			case x < 72:
				ops = append(ops, c03Op{5, g.Rng.Intn(ncmp)})
			case x < 75:
				sl := randSlice(g.Rng, 40, 0, 50)
				ops = append(ops, c03FromSliceOp(g.Rng.Intn(ncmp), sl))
				held = cloneInts(sl)
				sz0 = len(sl)
			case x < 78:
				if sz0+sz1 > 250 {
					ops = append(ops, c03Op{4})
					sz0 = 0
					held = nil
				} else {
					ops = append(ops, c03Op{11})
					sz0 += sz1
				}
			case x < 80:
				ops = append(ops, c03Op{12})
				sz0 += sz1
				sz1 = 0
			case x < 84:
				ops = append(ops, c03Op{13})
				sz0, sz1 = sz1, sz0
				held = nil
			case x < 85:
				ops = append(ops, c03Op{4})
				sz0 = 0
				held = nil
			case x < 88:
				ops = append(ops, c03Op{7})
			case x < 90:
				ops = append(ops, c03Op{8})
			case x < 93:
				ops = append(ops, c03Op{9})
			default:
				sl := randSlice(g.Rng, 6, 0, 50)
				o := c03Op{14, len(sl)}
				ops = append(ops, append(o, sl...))
				held = append(held, sl...)
				sz0 += len(sl)
			}
		}
		c03Emit(g, "random", c03Hist(ty, c0, c1, ops))
	}
	// random Sort / FromSlice on longer slices, narrow and wide alphabets
	ns := g.Pick(400, 4000)
	for k := 0; k < ns; k++ {
		hi := []int{3, 9, 50, 1000}[g.Rng.Intn(4)]
		sl := randSlice(g.Rng, 60, 0, hi)
		c := g.Rng.Intn(4)
		ty := g.Rng.Intn(2)
		if k%2 == 0 {
			w := &W{}
			w.Int(1).Int(ty).Int(c).Ints(sl)
			c03Emit(g, "random", w.Out())
		} else {
			c03Emit(g, "random", c03Hist(ty, c, c, []c03Op{c03FromSliceOp(c, sl)}))
		}
	}

	// 6. degenerate / boundary inputs
	for _, s := range setups {
		for _, ops := range [][]c03Op{
			{},
			{{2}, {3}, {6, 0}, {4}, {5, s.conv}, {9}, {8}, {7}},
			{c03FromSliceOp(s.c0, nil), {2}, {6, 0}},
			{{11}, {12}, {2}},
			{{1, 10}, {12}, {13}, {1, 20}, {2}, {2}, {13}, {1, 0}},
			{{1, 10}, {1, 20}, {12}, {13}, {4}, {6, 10}, {1, 21}, {11}},
			{{14, 0}, {14, 1, 0}, {6, 0}, {6, 0}},
			{{1, -7}, {1, 1 << 40}, {1, -(1 << 40)}, {2}, {6, -7}, {1, 0}, {3}},
			{{1, 0}, {2}, {2}, {3}, {1, 0}, {6, 0}, {6, 0}},
			{{1, 10}, {1, 10}, {1, 10}, {6, 10}, {6, 10}, {6, 10}, {6, 10}},
		} {
			c03Emit(g, "malformed", c03Hist(s.ty, s.c0, s.c1, ops))
		}
	}
	for c := 0; c < 4; c++ {
		for _, sl := range [][]int{{}, {5}, {5, 5}, {-3, 1 << 40, 0, -(1 << 40)}} {
			w := &W{}
			w.Int(1).Int(c / 2).Int(c).Ints(sl)
			c03Emit(g, "malformed", w.Out())
		}
	}
}

func init() {
	register(&Prop{ID: "C03", Exec: execC03, Gen: genC03, Describe: describeC03,
		Rule: "corpus first; exhaustive: every operation sequence from two empty heaps over values {0,1,2,2'} (coded 0,10,20,21; 20/21 tie by key) — " +
			"16-op alphabet (Push x4, Pop, Peek, Clear, Convert, Delete x4, GetValues, Merge, Meld, Swap) up to length 3 (thorough 4), 10-op alphabet at the next length, 7-op alphabet at the one after (thorough: 6-op at length 7) — " +
			"for Heap[int] with < and >, and Heap[struct] ordered by key; the same from three pre-built depth-3 heaps; every slice up to length 6 (8) over the 4 values through FromSlice (+ one Delete/Convert) and Sort under all four comparators; " +
			"Merge/Meld of every pair of heaps built from slices up to length 2 (3); then seeded random histories of 200 operations over 0..50 (all 14 operations, Convert/FromSlice/Merge/Meld in the mix) and random Sort/FromSlice inputs up to length 60; " +
			"plus degenerate inputs (operations on empty and melded-away heaps, absent and repeated Deletes, negative and huge values). " +
			"Observed: every return value, Size after every operation, GetValues as a sorted multiset, and a final drain of both heaps by Pop. " +
			"A case counts as non-trivial when a heap (or the slice to sort) held at least 3 elements, i.e. a sift had two children to choose from."})
}
