package main

import (
	"fmt"
	"strings"
	"time"

	"github.com/esimov/gogu/bstree"
)

// C04 wire (mirror of coq/theories/C04_Wire.v)
//
//	input    = cmp :: concat [op a b]     cmp 0: ascending (a<b), else descending (a>b)
//	           op 0 Upsert a b | 1 Delete a | 2 Get a | 3 Size | 4 Traverse
//	observed = per-op results ++ [final Size] ++ final Traverse
//	           Upsert [0] ([2] panic) | Delete [0] / [1 1] | Get [0 key val] / [1 1]
//	           Size [n] | Traverse n k1 v1 .. kn vn ([3] hang, [2] panic)
const (
	c04Upsert = iota
	c04Delete
	c04Get
	c04Size
	c04Traverse
)

func c04Comp(c int) func(a, b int) bool {
	if c == 0 {
		return func(a, b int) bool { return a < b }
	}
	return func(a, b int) bool { return a > b }
}

func c04Trav(t *bstree.BsTree[int, int]) []int64 {
	var items []int64
	n := 0
	panicked, hung := tryTimeout(5*time.Second, func() {
		t.Traverse(func(it bstree.Item[int, int]) {
			items = append(items, int64(it.Key), int64(it.Val))
			n++
		})
	})
	if hung {
		return []int64{3}
	}
	if panicked {
		return []int64{2}
	}
	return append([]int64{int64(n)}, items...)
}

func execC04(in []int64) []int64 {
	if len(in) == 0 || (len(in)-1)%3 != 0 {
		return []int64{-1}
	}
	t := bstree.New[int, int](c04Comp(int(in[0])))
	var out []int64
	for i := 1; i+2 < len(in); i += 3 {
		op, a, b := int(in[i]), int(in[i+1]), int(in[i+2])
		var res []int64
		panicked := false
		switch op {
		case c04Upsert:
			panicked = try(func() { t.Upsert(a, b); res = []int64{0} })
		case c04Delete:
			panicked = try(func() {
				if err := t.Delete(a); err != nil {
					res = resErr(1)
				} else {
					res = []int64{0}
				}
			})
		case c04Get:
			panicked = try(func() {
				it, err := t.Get(a)
				if err != nil {
					res = resErr(1)
				} else {
					res = resOk(int64(it.Key), int64(it.Val))
				}
			})
		case c04Size:
			panicked = try(func() { res = []int64{int64(t.Size())} })
		case c04Traverse:
			res = c04Trav(t)
		default:
			return []int64{-1}
		}
		if panicked {
			res = resPanic()
		}
		out = append(out, res...)
	}
	size := int64(-777)
	try(func() { size = int64(t.Size()) })
	out = append(out, size)
	out = append(out, c04Trav(t)...)
	return out
}

func describeC04(in []int64) string {
	if len(in) == 0 {
		return ""
	}
	var sb strings.Builder
	if in[0] == 0 {
		sb.WriteString("New(a<b)")
	} else {
		sb.WriteString("New(a>b)")
	}
	for i := 1; i+2 < len(in); i += 3 {
		switch in[i] {
		case c04Upsert:
			fmt.Fprintf(&sb, "; Upsert(%d,%d)", in[i+1], in[i+2])
		case c04Delete:
			fmt.Fprintf(&sb, "; Delete(%d)", in[i+1])
		case c04Get:
			fmt.Fprintf(&sb, "; Get(%d)", in[i+1])
		case c04Size:
			sb.WriteString("; Size()")
		case c04Traverse:
			sb.WriteString("; Traverse()")
		default:
			fmt.Fprintf(&sb, "; ?%d", in[i])
		}
	}
	sb.WriteString("; [Size(); Traverse()]")
	return sb.String()
}

// ---- generator-side shadow tree: used ONLY to classify cases (which kind of
// node a Delete hits, whether the successor is looked up afterwards) for the
// non-triviality rule and the distribution counters.  It judges nothing.
type c04Shadow struct {
	l, r *c04Shadow
	k    int
}

func (n *c04Shadow) insert(k int, less func(a, b int) bool) *c04Shadow {
	if n == nil {
		return &c04Shadow{k: k}
	}
	if less(k, n.k) {
		n.l = n.l.insert(k, less)
	} else if less(n.k, k) {
		n.r = n.r.insert(k, less)
	}
	return n
}

// remove returns the new subtree, the kind of node removed ("absent", "leaf",
// "one-child", "two-child") and, for a two-child node, the successor key and
// whether the successor itself had a right child ("deep" splice).
func (n *c04Shadow) remove(k int, less func(a, b int) bool) (*c04Shadow, string, int, bool) {
	if n == nil {
		return nil, "absent", 0, false
	}
	if less(k, n.k) {
		var kind string
		var s int
		var deep bool
		n.l, kind, s, deep = n.l.remove(k, less)
		return n, kind, s, deep
	} else if less(n.k, k) {
		var kind string
		var s int
		var deep bool
		n.r, kind, s, deep = n.r.remove(k, less)
		return n, kind, s, deep
	}
	switch {
	case n.l == nil && n.r == nil:
		return nil, "leaf", 0, false
	case n.r == nil:
		return n.l, "one-child", 0, false
	case n.l == nil:
		return n.r, "one-child", 0, false
	}
	m := n.r
	for m.l != nil {
		m = m.l
	}
	deep := m.r != nil || m != n.r
	n.k = m.k
	n.r, _, _, _ = n.r.remove(m.k, less)
	return n, "two-child", m.k, deep
}

// c04Classify replays the op list on the shadow tree, bumps the distribution
// counters and reports whether the case is non-trivial: it contains a Delete
// of a two-child node that is followed by a Get of that node's successor key.
func c04Classify(g *Gen, in []int64) bool {
	less := c04Comp(int(in[0]))
	var root *c04Shadow
	pendingSucc := map[int]bool{}
	nontrivial := false
	nops := 0
	for i := 1; i+2 < len(in); i += 3 {
		op, a := int(in[i]), int(in[i+1])
		nops++
		switch op {
		case c04Upsert:
			g.Count("op:Upsert")
			root = root.insert(a, less)
		case c04Delete:
			var kind string
			var s int
			var deep bool
			root, kind, s, deep = root.remove(a, less)
			g.Count("op:Delete/" + kind)
			if kind == "two-child" {
				pendingSucc[s] = true
				if deep {
					g.Count("two-child delete with a non-adjacent or non-leaf successor")
				}
			}
		case c04Get:
			g.Count("op:Get")
			if pendingSucc[a] {
				nontrivial = true
			}
		case c04Size:
			g.Count("op:Size")
		case c04Traverse:
			g.Count("op:Traverse")
		}
	}
	switch {
	case nops <= 8:
		g.Count(fmt.Sprintf("len:%d", nops))
	case nops <= 64:
		g.Count("len:9-64")
	default:
		g.Count("len:65+")
	}
	if nontrivial {
		g.Count("two-child delete followed by successor lookup")
	}
	return nontrivial
}

func genC04(g *Gen) {
	emit := func(stream string, w []int64) {
		g.Case(stream, c04Classify(g, w), w)
	}
	nk := 5 // keys 0..4
	val := func(i, k int) int { return 10*(i+1) + k }
	probes := func(w []int64) []int64 {
		for k := 0; k < nk; k++ {
			w = append(w, c04Get, int64(k), 0)
		}
		return w
	}

	// --- exhaustive A: every Upsert/Delete sequence up to length L over keys
	// 0..4 (value of the i-th op = 10(i+1)+key, so every write is
	// distinguishable), then Get of every key; final Size and Traverse are part
	// of every observation.  Every prefix is its own case, so this observes
	// Get/Size/Traverse after every history of mutators up to the bound.
	for cmp := 0; cmp <= 1; cmp++ {
		seqsUpTo(2*nk, g.Pick(5, 6), func(seq []int) {
			w := []int64{int64(cmp)}
			for i, s := range seq {
				if s < nk {
					w = append(w, c04Upsert, int64(s), int64(val(i, s)))
				} else {
					w = append(w, c04Delete, int64(s-nk), 0)
				}
			}
			emit("exhaustive", probes(w))
		})
	}
	// --- exhaustive B: every sequence of all five operations (17 symbols over
	// keys 0..4) up to length 4, results observed per operation.
	for cmp := 0; cmp <= 1; cmp++ {
		seqsUpTo(3*nk+2, g.Pick(4, 4), func(seq []int) {
			w := []int64{int64(cmp)}
			for i, s := range seq {
				switch {
				case s < nk:
					w = append(w, c04Upsert, int64(s), int64(val(i, s)))
				case s < 2*nk:
					w = append(w, c04Delete, int64(s-nk), 0)
				case s < 3*nk:
					w = append(w, c04Get, int64(s-2*nk), 0)
				case s == 3*nk:
					w = append(w, c04Size, 0, 0)
				default:
					w = append(w, c04Traverse, 0, 0)
				}
			}
			emit("exhaustive", w)
		})
	}
	// --- exhaustive C: build / delete / re-insert: every insertion order of
	// every subset of 0..4 (distinct keys), then every Delete sequence of length
	// <= 2 (thorough 3) over 0..4, then at most one re-Upsert, then Get of every
	// key.  Reaches every tree shape on <= 5 keys and every structural case of
	// the successor splice (histories up to length 8, thorough 9).
	var perms [][]int
	var rec func(cur []int, used int)
	rec = func(cur []int, used int) {
		perms = append(perms, append([]int{}, cur...))
		for k := 0; k < nk; k++ {
			if used&(1<<k) == 0 {
				rec(append(cur, k), used|1<<k)
			}
		}
	}
	rec(nil, 0)
	for cmp := 0; cmp <= 1; cmp++ {
		for _, p := range perms {
			seqsUpTo(nk, g.Pick(2, 3), func(dels []int) {
				for re := -1; re < nk; re++ {
					w := []int64{int64(cmp)}
					i := 0
					for _, k := range p {
						w = append(w, c04Upsert, int64(k), int64(val(i, k)))
						i++
					}
					for _, k := range dels {
						w = append(w, c04Delete, int64(k), 0)
						i++
					}
					if re >= 0 {
						w = append(w, c04Upsert, int64(re), int64(val(i, re)))
					}
					emit("exhaustive", probes(w))
				}
			})
		}
	}
	g.Exhaustive("exhaustive")

	// --- seeded random: length-300 histories over keys 0..63; the tree is
	// first filled in sorted, reversed or random order.
	nr := g.Pick(400, 6000)
	for it := 0; it < nr; it++ {
		cmp := g.Rng.Intn(2)
		span := []int{8, 16, 64}[g.Rng.Intn(3)]
		w := []int64{int64(cmp)}
		present := map[int]bool{}
		nfill := g.Rng.Intn(span + 1)
		order := g.Rng.Intn(3)
		g.Count([]string{"fill:sorted", "fill:reversed", "fill:random"}[order])
		fill := g.Rng.Perm(span)[:nfill]
		if order != 2 {
			// sorted or reversed insertion of a random subset
			for i := 0; i < len(fill); i++ {
				for j := i + 1; j < len(fill); j++ {
					if (order == 0 && fill[j] < fill[i]) || (order == 1 && fill[j] > fill[i]) {
						fill[i], fill[j] = fill[j], fill[i]
					}
				}
			}
		}
		n := 0
		for _, k := range fill {
			w = append(w, c04Upsert, int64(k), int64(g.Rng.Intn(1000)))
			present[k] = true
			n++
		}
		var lastDel []int
		for n < 300 {
			n++
			k := g.Rng.Intn(span)
			switch x := g.Rng.Intn(100); {
			case x < 27:
				w = append(w, c04Upsert, int64(k), int64(g.Rng.Intn(1000)))
				present[k] = true
			case x < 57:
				if g.Rng.Intn(10) < 7 && len(present) > 0 { // mostly present keys
					ks := sortedKeys(present)
					k = ks[g.Rng.Intn(len(ks))]
				}
				w = append(w, c04Delete, int64(k), 0)
				delete(present, k)
				lastDel = append(lastDel, k)
			case x < 90:
				// look near a recently deleted key (its successor/predecessor) half of the time
				if len(lastDel) > 0 && g.Rng.Intn(2) == 0 {
					back := 3
					if len(lastDel) < back {
						back = len(lastDel)
					}
					k = lastDel[len(lastDel)-1-g.Rng.Intn(back)] + g.Rng.Intn(5) - 2
				}
				w = append(w, c04Get, int64(k), 0)
			case x < 95:
				w = append(w, c04Size, 0, 0)
			default:
				w = append(w, c04Traverse, 0, 0)
			}
		}
		emit("random", w)
	}

	// --- malformed / boundary: operations on the empty tree, extreme keys
	big := int64(1) << 60 // the OCaml runner reads 63-bit integers
	for cmp := int64(0); cmp <= 1; cmp++ {
		emit("malformed", []int64{cmp})
		emit("malformed", []int64{cmp, c04Delete, 0, 0, c04Size, 0, 0, c04Get, 0, 0, c04Traverse, 0, 0})
		emit("malformed", []int64{cmp, c04Delete, 3, 0, c04Delete, 3, 0, c04Upsert, 3, 1, c04Size, 0, 0, c04Delete, 3, 0, c04Delete, 3, 0, c04Size, 0, 0})
		emit("malformed", []int64{cmp, c04Upsert, big, 1, c04Upsert, -big, 2, c04Upsert, 0, 3, c04Get, big, 0, c04Get, -big, 0,
			c04Delete, 0, 0, c04Get, big, 0, c04Delete, -big - 1, 0, c04Traverse, 0, 0})
	}
}

func sortedKeys(m map[int]bool) []int {
	ks := make([]int, 0, len(m))
	for k := range m {
		ks = append(ks, k)
	}
	for i := 1; i < len(ks); i++ {
		for j := i; j > 0 && ks[j] < ks[j-1]; j-- {
			ks[j], ks[j-1] = ks[j-1], ks[j]
		}
	}
	return ks
}

func init() {
	register(&Prop{ID: "C04", Exec: execC04, Gen: genC04, Describe: describeC04,
		Rule: "exhaustive, for the ascending and the descending comparator: (A) every Upsert/Delete sequence of length <= 5 (thorough 6) over keys 0..4 followed by Get of every key, final Size and Traverse; (B) every sequence of length <= 4 over all 17 operations Upsert k/Delete k/Get k/Size/Traverse, k in 0..4, observed per operation; (C) every insertion order of every subset of 0..4, then every Delete sequence of length <= 2 (thorough 3), then at most one re-Upsert, then Get of every key. random: length-300 histories over 8/16/64 keys, tree pre-filled in sorted, reversed or random order, deletes biased to present keys, lookups biased to neighbours of deleted keys. non-trivial = the history contains a Delete of a node with two children that is followed by a Get of that node's in-order successor key; distinct = distinct wire input"})
}
