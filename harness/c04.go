package main

import (
	"fmt"
	"math"
	"strconv"
	"strings"
	"time"

	"github.com/esimov/gogu/bstree"
	"golang.org/x/exp/constraints"
)

// C04 wire (mirror of coq/theories/C04_Wire.v)
//
//	input    = cmp :: concat [op a b]     cmp 0: ascending (a<b), 2: ascending over EXTREME keys,
//	                                      3: descending over extreme keys, 4/5 and 6/7: ascending/descending
//	                                      at other TYPE INSTANCES, anything else: descending (a>b)
//	           op 0 Upsert a b | 1 Delete a | 2 Get a | 3 Size | 4 Traverse
//	observed = per-op results ++ [final Size] ++ final Traverse
//	           Upsert [0] ([2] panic) | Delete [0] / [1 1] | Get [0 key val] / [1 1]
//	           Size [n] | Traverse n k1 v1 .. kn vn ([3] hang, [2] panic)
//
// Extreme keys (cmp 2, 3): the model runner reads 63-bit integers, so MinInt64, MaxInt64 and
// +-2^62 cannot be written on the wire.  In these modes a wire key k in 0..4999 stands for the real
// key c04Ext(k) handed to the tree (five windows of 1000 consecutive integers: around 0, up to
// MaxInt64, from MinInt64, around 2^62, around -2^62); keys coming back from the tree are mapped
// back with c04Unext.  The Coq side runs the model on the wire keys under the comparator pulled
// back along the same (injective) map, C04_Wire.ext_key.
const (
	c04Upsert = iota
	c04Delete
	c04Get
	c04Size
	c04Traverse
)

func c04Comp(c int) func(a, b int) bool {
	switch c {
	case 0, 2, 4, 6:
		return func(a, b int) bool { return a < b }
	case 8: // ties: keys compared on key/2 (Go's truncating division)
		return func(a, b int) bool { return a/2 < b/2 }
	case 9:
		return func(a, b int) bool { return a/2 > b/2 }
	case 10: // ties: keys compared on key%3 (the classes interleave)
		return func(a, b int) bool { return a%3 < b%3 }
	case 11:
		return func(a, b int) bool { return a%3 > b%3 }
	case 12: // the wire view of the case-insensitive string instance (see c04CaseKey)
		return func(a, b int) bool { return a/4 < b/4 }
	case 13:
		return func(a, b int) bool { return a/4 > b/4 }
	case 14: // NON-strict
		return func(a, b int) bool { return a <= b }
	case 15:
		return func(a, b int) bool { return a >= b }
	}
	return func(a, b int) bool { return a > b }
}

// c04Asc: the modes whose comparator is an ascending one.
func c04Asc(c int) bool { return c%2 == 0 }

// ---- comparators with ties (modes 8..13) and non-strict comparators (14, 15), see C04_Wire.v
//
//	8, 9    BsTree[int, int]         a/2 < b/2, a/2 > b/2
//	10, 11  BsTree[int, int]         a%3 < b%3, a%3 > b%3
//	12, 13  BsTree[string, string]   strings.ToLower(a) < / > strings.ToLower(b)
//	14, 15  BsTree[int, int]         a <= b, a >= b
//
// Modes 12/13: a wire key k in 0..4*26^4-1 stands for a 4-letter word; the letters spell k/4 in
// base 26 ('a' = 0, most significant first) and k%4 says which of the first two letters are upper
// case (bit 0: the first, bit 1: the second).  So k and k' tie under the comparator iff k/4 == k'/4
// and lower-case order is the numeric order of k/4.  Built afresh for every call.
const c04CaseKeys = int64(4 * 26 * 26 * 26 * 26)

func c04Ties(c int) bool { return c >= 8 && c <= 15 }

func c04CaseKey(k int64) string {
	c, u := k/4, k%4
	b := make([]byte, 4)
	for i := 3; i >= 0; i-- {
		b[i] = byte('a' + c%26)
		c /= 26
	}
	if u&1 != 0 {
		b[0] -= 'a' - 'A'
	}
	if u&2 != 0 {
		b[1] -= 'a' - 'A'
	}
	return string(b)
}

func c04CaseUnkey(s string) int64 {
	if len(s) != 4 {
		return -888
	}
	var c, u int64
	for i := 0; i < 4; i++ {
		ch := s[i]
		if ch >= 'A' && ch <= 'Z' {
			if i > 1 {
				return -888
			}
			u |= 1 << uint(i)
			ch += 'a' - 'A'
		}
		if ch < 'a' || ch > 'z' {
			return -888
		}
		c = c*26 + int64(ch-'a')
	}
	return c*4 + u
}

const (
	c04MaxInt = int64(math.MaxInt64)
	c04MinInt = int64(math.MinInt64)
	c04P62    = int64(1) << 62
)

func c04Extreme(c int) bool { return c == 2 || c == 3 }

// c04Ext: wire key 0..4999 -> real key (mirror of C04_Wire.ext_key); identity elsewhere.
func c04Ext(k int64) int64 {
	if k < 0 || k >= 5000 {
		return k
	}
	r := k % 1000
	switch k / 1000 {
	case 0:
		return r - 500
	case 1:
		return c04MaxInt - 999 + r
	case 2:
		return c04MinInt + r
	case 3:
		return c04P62 - 500 + r
	default:
		return -c04P62 - 500 + r
	}
}

// c04Unext: the inverse on the five windows.
func c04Unext(x int64) int64 {
	switch {
	case x >= -500 && x < 500:
		return x + 500
	case x >= c04MaxInt-999:
		return 1000 + (x - (c04MaxInt - 999))
	case x <= c04MinInt+999:
		return 2000 + (x - c04MinInt)
	case x >= c04P62-500 && x < c04P62+500:
		return 3000 + (x - (c04P62 - 500))
	case x >= -c04P62-500 && x < -c04P62+500:
		return 4000 + (x - (-c04P62 - 500))
	}
	return x
}

// ---- type instances (comparator modes 4..7, see C04_Wire.v)
//
//	0..3  BsTree[int, int]
//	4, 5  BsTree[string, string]            a < b / a > b on the strings
//	6, 7  BsTree[c04Key, c04Val]            a named string type and a non-comparable struct
//
// A wire key k stands for the 13-digit decimal string of k + 10^12 (injective, order
// preserving for |k| < 10^12), a wire value v for strconv.Itoa(v) resp. the struct built
// from it.  Every string is produced by fmt/strconv at the moment it is used: two equal
// keys never share a backing array, and never are literals.
type c04Key string

type c04Val struct {
	n int
	s string
	b []byte // makes the type non-comparable
}

const c04KeyBias = int64(1000000000000)

func c04Instance(c int) bool { return c >= 4 && c <= 7 }

func c04StrKey(k int64) string { return fmt.Sprintf("%013d", k+c04KeyBias) }
func c04StrUnkey(s string) int64 {
	v, err := strconv.ParseInt(s, 10, 64)
	if err != nil || len(s) != 13 {
		return -888
	}
	return v - c04KeyBias
}
func c04StrVal(v int64) string { return strconv.FormatInt(v, 10) }
func c04StrUnval(s string) int64 {
	v, err := strconv.ParseInt(s, 10, 64)
	if err != nil {
		return -888
	}
	return v
}
func c04MkVal(v int64) c04Val {
	s := strconv.FormatInt(v, 10)
	return c04Val{n: int(v), s: s, b: []byte(s)}
}
func c04UnVal(x c04Val) int64 {
	if x.s != strconv.Itoa(x.n) || string(x.b) != x.s {
		return -888
	}
	return int64(x.n)
}

func c04Trav[K constraints.Ordered, V any](t *bstree.BsTree[K, V], unkey func(K) int64, unval func(V) int64) []int64 {
	var items []int64
	n := 0
	panicked, hung := tryTimeout(20*time.Second, func() {
		t.Traverse(func(it bstree.Item[K, V]) {
			items = append(items, unkey(it.Key), unval(it.Val))
			n++
		})
	})
	if hung {
		return []int64{3}
	}
	if panicked {
		return []int64{2}
	}
	return append([]int64{int64(n)}, items...)
}

func c04Run[K constraints.Ordered, V any](in []int64, comp func(a, b K) bool,
	key func(int64) K, unkey func(K) int64, val func(int64) V, unval func(V) int64) []int64 {
	t := bstree.New[K, V](comp)
	var out []int64
	for i := 1; i+2 < len(in); i += 3 {
		op, a, b := int(in[i]), in[i+1], in[i+2]
		var res []int64
		panicked := false
		switch op {
		case c04Upsert:
			panicked = try(func() { t.Upsert(key(a), val(b)); res = []int64{0} })
		case c04Delete:
			panicked = try(func() {
				if err := t.Delete(key(a)); err != nil {
					res = resErr(1)
				} else {
					res = []int64{0}
				}
			})
		case c04Get:
			panicked = try(func() {
				it, err := t.Get(key(a))
				if err != nil {
					res = resErr(1)
				} else {
					res = resOk(unkey(it.Key), unval(it.Val))
				}
			})
		case c04Size:
			panicked = try(func() { res = []int64{int64(t.Size())} })
		case c04Traverse:
			res = c04Trav(t, unkey, unval)
		default:
			return []int64{-1}
		}
		if panicked {
			res = resPanic()
		}
		out = append(out, res...)
	}
	size := int64(-777)
	try(func() { size = int64(t.Size()) })
	out = append(out, size)
	out = append(out, c04Trav(t, unkey, unval)...)
	return out
}

func execC04(in []int64) []int64 {
	if len(in) == 0 || (len(in)-1)%3 != 0 {
		return []int64{-1}
	}
	mode := int(in[0])
	asc := mode == 0 || mode == 2 || mode == 4 || mode == 6
	if mode == 12 || mode == 13 {
		for i := 1; i+2 < len(in); i += 3 {
			if in[i] <= c04Get && (in[i+1] < 0 || in[i+1] >= c04CaseKeys) {
				return []int64{-1} // outside the range of the 4-letter key codec
			}
		}
		comp := func(a, b string) bool { return strings.ToLower(a) < strings.ToLower(b) }
		if mode == 13 {
			comp = func(a, b string) bool { return strings.ToLower(a) > strings.ToLower(b) }
		}
		return c04Run[string, string](in, comp, c04CaseKey, c04CaseUnkey, c04StrVal, c04StrUnval)
	}
	if c04Instance(mode) {
		for i := 1; i+2 < len(in); i += 3 {
			if in[i] <= c04Get && (in[i+1] <= -c04KeyBias || in[i+1] >= c04KeyBias) {
				return []int64{-1} // outside the range of the fixed-width key codec
			}
		}
		if mode <= 5 {
			comp := func(a, b string) bool { return a > b }
			if asc {
				comp = func(a, b string) bool { return a < b }
			}
			return c04Run[string, string](in, comp, c04StrKey, c04StrUnkey, c04StrVal, c04StrUnval)
		}
		comp := func(a, b c04Key) bool { return a > b }
		if asc {
			comp = func(a, b c04Key) bool { return a < b }
		}
		return c04Run[c04Key, c04Val](in, comp,
			func(k int64) c04Key { return c04Key(c04StrKey(k)) }, func(k c04Key) int64 { return c04StrUnkey(string(k)) },
			c04MkVal, c04UnVal)
	}
	fwd, back := func(k int64) int64 { return k }, func(k int64) int64 { return k }
	if c04Extreme(mode) {
		for i := 1; i+2 < len(in); i += 3 {
			if in[i] <= c04Get && (in[i+1] < 0 || in[i+1] >= 5000) {
				return []int64{-1} // outside the windows of the extreme-key modes
			}
		}
		fwd, back = c04Ext, c04Unext
	}
	return c04Run[int, int](in, c04Comp(mode),
		func(k int64) int { return int(fwd(k)) }, func(k int) int64 { return back(int64(k)) },
		func(v int64) int { return int(v) }, func(v int) int64 { return int64(v) })
}

func describeC04(in []int64) string {
	if len(in) == 0 {
		return ""
	}
	var sb strings.Builder
	switch {
	case in[0] == 4 || in[0] == 5 || in[0] == 12 || in[0] == 13:
		sb.WriteString("New[string,string]")
	case in[0] == 6 || in[0] == 7:
		sb.WriteString("New[Key(named string),struct]")
	default:
		sb.WriteString("New")
	}
	switch in[0] {
	case 0, 2, 4, 6:
		sb.WriteString("(a<b)")
	case 8:
		sb.WriteString("(a/2<b/2)")
	case 9:
		sb.WriteString("(a/2>b/2)")
	case 10:
		sb.WriteString("(a%3<b%3)")
	case 11:
		sb.WriteString("(a%3>b%3)")
	case 12:
		sb.WriteString("(ToLower(a)<ToLower(b)) [key k = word k/4 in base 26, case pattern k%4: 0 abcd, 1 Abcd, 2 aBcd, 3 ABcd]")
	case 13:
		sb.WriteString("(ToLower(a)>ToLower(b)) [key k = word k/4 in base 26, case pattern k%4: 0 abcd, 1 Abcd, 2 aBcd, 3 ABcd]")
	case 14:
		sb.WriteString("(a<=b)")
	case 15:
		sb.WriteString("(a>=b)")
	default:
		sb.WriteString("(a>b)")
	}
	key := func(k int64) int64 { return k }
	if c04Extreme(int(in[0])) {
		key = c04Ext
	}
	nshown := 0
	for i := 1; i+2 < len(in); i += 3 {
		if nshown++; nshown > 60 {
			fmt.Fprintf(&sb, "; ... (%d operations)", (len(in)-1)/3)
			break
		}
		switch in[i] {
		case c04Upsert:
			fmt.Fprintf(&sb, "; Upsert(%d,%d)", key(in[i+1]), in[i+2])
		case c04Delete:
			fmt.Fprintf(&sb, "; Delete(%d)", key(in[i+1]))
		case c04Get:
			fmt.Fprintf(&sb, "; Get(%d)", key(in[i+1]))
		case c04Size:
			sb.WriteString("; Size()")
		case c04Traverse:
			sb.WriteString("; Traverse()")
		default:
			fmt.Fprintf(&sb, "; ?%d", in[i])
		}
	}
	sb.WriteString("; [Size(); Traverse()]")
	return sb.String()
}

// ---- generator-side shadow tree: used ONLY to classify cases (which kind of
// node a Delete hits, whether the successor is looked up afterwards) for the
// non-triviality rule and the distribution counters.  It judges nothing.
type c04Shadow struct {
	l, r *c04Shadow
	k    int
}

func (n *c04Shadow) insert(k int, less func(a, b int) bool) *c04Shadow {
	if n == nil {
		return &c04Shadow{k: k}
	}
	if less(k, n.k) {
		n.l = n.l.insert(k, less)
	} else if less(n.k, k) {
		n.r = n.r.insert(k, less)
	}
	return n
}

// remove returns the new subtree, the kind of node removed ("absent", "leaf",
// "one-child", "two-child") and, for a two-child node, the successor key and
// whether the successor itself had a right child ("deep" splice).
func (n *c04Shadow) remove(k int, less func(a, b int) bool) (*c04Shadow, string, int, bool) {
	if n == nil {
		return nil, "absent", 0, false
	}
	if less(k, n.k) {
		var kind string
		var s int
		var deep bool
		n.l, kind, s, deep = n.l.remove(k, less)
		return n, kind, s, deep
	} else if less(n.k, k) {
		var kind string
		var s int
		var deep bool
		n.r, kind, s, deep = n.r.remove(k, less)
		return n, kind, s, deep
	}
	switch {
	case n.l == nil && n.r == nil:
		return nil, "leaf", 0, false
	case n.r == nil:
		return n.l, "one-child", 0, false
	case n.l == nil:
		return n.r, "one-child", 0, false
	}
	m := n.r
	for m.l != nil {
		m = m.l
	}
	deep := m.r != nil || m != n.r
	n.k = m.k
	n.r, _, _, _ = n.r.remove(m.k, less)
	return n, "two-child", m.k, deep
}

// c04Classify replays the op list on the shadow tree, bumps the distribution
// counters and reports whether the case is non-trivial: it contains a Delete
// of a two-child node that is followed by a Get of that node's successor key.
func c04Classify(g *Gen, in []int64) bool {
	less := c04Comp(int(in[0]))
	ext := c04Extreme(int(in[0]))
	var root *c04Shadow
	pendingSucc := map[int]bool{}
	nontrivial := false
	nops := 0
	live, maxLive := map[int]bool{}, 0
	for i := 1; i+2 < len(in); i += 3 {
		op, a := int(in[i]), int(in[i+1])
		if ext {
			a = int(c04Ext(int64(a)))
		}
		nops++
		switch op {
		case c04Upsert:
			if live[a] {
				g.Count("Upsert of a present key (overwrite)")
			}
			live[a] = true
			if len(live) > maxLive {
				maxLive = len(live)
			}
		case c04Delete:
			delete(live, a)
		case c04Traverse:
			if len(live) >= 256 {
				g.Count("Traverse of a tree with >= 256 keys")
			}
		}
		switch op {
		case c04Upsert:
			g.Count("op:Upsert")
			root = root.insert(a, less)
		case c04Delete:
			var kind string
			var s int
			var deep bool
			root, kind, s, deep = root.remove(a, less)
			g.Count("op:Delete/" + kind)
			if kind == "two-child" {
				pendingSucc[s] = true
				if deep {
					g.Count("two-child delete with a non-adjacent or non-leaf successor")
				}
			}
		case c04Get:
			g.Count("op:Get")
			if pendingSucc[a] {
				nontrivial = true
			}
		case c04Size:
			g.Count("op:Size")
		case c04Traverse:
			g.Count("op:Traverse")
		}
	}
	switch {
	case nops <= 8:
		g.Count(fmt.Sprintf("len:%d", nops))
	case nops <= 64:
		g.Count("len:9-64")
	case nops <= 1000:
		g.Count("len:65-1000")
	default:
		g.Count("len:1001+")
	}
	switch {
	case maxLive <= 5:
	case maxLive <= 64:
		g.Count("peak keys:6-64")
	case maxLive < 256:
		g.Count("peak keys:65-255")
	case maxLive <= 1000:
		g.Count("peak keys:256-1000")
	default:
		g.Count("peak keys:1001+")
	}
	if nontrivial {
		g.Count("two-child delete followed by successor lookup")
	}
	return nontrivial
}

func genC04(g *Gen) {
	emit := func(stream string, w []int64) {
		g.Case(stream, c04Classify(g, w), w)
	}
	nk := 5 // keys 0..4
	val := func(i, k int) int { return 10*(i+1) + k }
	probes := func(w []int64) []int64 {
		for k := 0; k < nk; k++ {
			w = append(w, c04Get, int64(k), 0)
		}
		return w
	}

	// --- exhaustive A: every Upsert/Delete sequence up to length L over keys
	// 0..4 (value of the i-th op = 10(i+1)+key, so every write is
	// distinguishable), then Get of every key; final Size and Traverse are part
	// of every observation.  Every prefix is its own case, so this observes
	// Get/Size/Traverse after every history of mutators up to the bound.
	for cmp := 0; cmp <= 1; cmp++ {
		seqsUpTo(2*nk, g.Pick(5, 6), func(seq []int) {
			w := []int64{int64(cmp)}
			for i, s := range seq {
				if s < nk {
					w = append(w, c04Upsert, int64(s), int64(val(i, s)))
				} else {
					w = append(w, c04Delete, int64(s-nk), 0)
				}
			}
			emit("exhaustive", probes(w))
		})
	}
	// --- exhaustive B: every sequence of all five operations (17 symbols over
	// keys 0..4) up to length 4, results observed per operation.
	for cmp := 0; cmp <= 1; cmp++ {
		seqsUpTo(3*nk+2, g.Pick(4, 4), func(seq []int) {
			w := []int64{int64(cmp)}
			for i, s := range seq {
				switch {
				case s < nk:
					w = append(w, c04Upsert, int64(s), int64(val(i, s)))
				case s < 2*nk:
					w = append(w, c04Delete, int64(s-nk), 0)
				case s < 3*nk:
					w = append(w, c04Get, int64(s-2*nk), 0)
				case s == 3*nk:
					w = append(w, c04Size, 0, 0)
				default:
					w = append(w, c04Traverse, 0, 0)
				}
			}
			emit("exhaustive", w)
		})
	}
	// --- exhaustive C: build / delete / re-insert: every insertion order of
	// every subset of 0..4 (distinct keys), then every Delete sequence of length
	// <= 2 (thorough 3) over 0..4, then at most one re-Upsert, then Get of every
	// key.  Reaches every tree shape on <= 5 keys and every structural case of
	// the successor splice (histories up to length 8, thorough 9).
	var perms [][]int
	var rec func(cur []int, used int)
	rec = func(cur []int, used int) {
		perms = append(perms, append([]int{}, cur...))
		for k := 0; k < nk; k++ {
			if used&(1<<k) == 0 {
				rec(append(cur, k), used|1<<k)
			}
		}
	}
	rec(nil, 0)
	for cmp := 0; cmp <= 1; cmp++ {
		for _, p := range perms {
			seqsUpTo(nk, g.Pick(2, 3), func(dels []int) {
				for re := -1; re < nk; re++ {
					w := []int64{int64(cmp)}
					i := 0
					for _, k := range p {
						w = append(w, c04Upsert, int64(k), int64(val(i, k)))
						i++
					}
					for _, k := range dels {
						w = append(w, c04Delete, int64(k), 0)
						i++
					}
					if re >= 0 {
						w = append(w, c04Upsert, int64(re), int64(val(i, re)))
					}
					emit("exhaustive", probes(w))
				}
			})
		}
	}
	// --- exhaustive D: a read in the middle.  Every insertion order of every
	// subset of 0..4, then ONE read (Get k, Size or Traverse; thorough: two),
	// one Delete, at most one re-Upsert, then Get of every key.  (State kept
	// by read operations — a remembered node, a cached count — goes stale
	// exactly on such histories.)
	nreads := nk + 2
	for cmp := 0; cmp <= 1; cmp++ {
		for _, p := range perms {
			if len(p) < 2 {
				continue
			}
			seqsExact(nreads, g.Pick(1, 2), func(reads []int) {
				for d := 0; d < nk; d++ {
					for re := -1; re < nk; re++ {
						w := []int64{int64(cmp)}
						i := 0
						for _, k := range p {
							w = append(w, c04Upsert, int64(k), int64(val(i, k)))
							i++
						}
						for _, r := range reads {
							switch {
							case r < nk:
								w = append(w, c04Get, int64(r), 0)
							case r == nk:
								w = append(w, c04Size, 0, 0)
							default:
								w = append(w, c04Traverse, 0, 0)
							}
						}
						w = append(w, c04Delete, int64(d), 0)
						i++
						if re >= 0 {
							w = append(w, c04Upsert, int64(re), int64(val(i, re)))
						}
						emit("exhaustive", probes(w))
					}
				}
			})
		}
	}
	// --- exhaustive E: delete / re-insert / delete again: every insertion
	// order of every subset of 0..4 with >= 2 keys, Delete d1, Upsert u,
	// Delete d2 (thorough: a second Upsert u2), Get of every key.
	for cmp := 0; cmp <= 1; cmp++ {
		for _, p := range perms {
			if len(p) < 2 {
				continue
			}
			seqsExact(nk, g.Pick(3, 4), func(s []int) {
				w := []int64{int64(cmp)}
				i := 0
				for _, k := range p {
					w = append(w, c04Upsert, int64(k), int64(val(i, k)))
					i++
				}
				w = append(w, c04Delete, int64(s[0]), 0)
				i++
				w = append(w, c04Upsert, int64(s[1]), int64(val(i, s[1])))
				i++
				w = append(w, c04Delete, int64(s[2]), 0)
				i++
				if len(s) > 3 {
					w = append(w, c04Upsert, int64(s[3]), int64(val(i, s[3])))
				}
				emit("exhaustive", probes(w))
			})
		}
	}
	g.Exhaustive("exhaustive")

	// --- seeded random: length-300 histories over keys 0..63; the tree is
	// first filled in sorted, reversed or random order.
	randHist := func(cmpOf func(r int) int) []int64 {
		cmp := cmpOf(g.Rng.Intn(2))
		span := []int{8, 16, 64}[g.Rng.Intn(3)]
		w := []int64{int64(cmp)}
		present := map[int]bool{}
		nfill := g.Rng.Intn(span + 1)
		order := g.Rng.Intn(3)
		g.Count([]string{"fill:sorted", "fill:reversed", "fill:random"}[order])
		fill := g.Rng.Perm(span)[:nfill]
		if order != 2 {
			// sorted or reversed insertion of a random subset
			for i := 0; i < len(fill); i++ {
				for j := i + 1; j < len(fill); j++ {
					if (order == 0 && fill[j] < fill[i]) || (order == 1 && fill[j] > fill[i]) {
						fill[i], fill[j] = fill[j], fill[i]
					}
				}
			}
		}
		n := 0
		for _, k := range fill {
			w = append(w, c04Upsert, int64(k), int64(g.Rng.Intn(1000)))
			present[k] = true
			n++
		}
		var lastDel []int
		for n < 300 {
			n++
			k := g.Rng.Intn(span)
			switch x := g.Rng.Intn(100); {
			case x < 27:
				w = append(w, c04Upsert, int64(k), int64(g.Rng.Intn(1000)))
				present[k] = true
			case x < 57:
				if g.Rng.Intn(10) < 7 && len(present) > 0 { // mostly present keys
					ks := sortedKeys(present)
					k = ks[g.Rng.Intn(len(ks))]
				}
				w = append(w, c04Delete, int64(k), 0)
				delete(present, k)
				lastDel = append(lastDel, k)
			case x < 90:
				// look near a recently deleted key (its successor/predecessor) half of the time
				if len(lastDel) > 0 && g.Rng.Intn(2) == 0 {
					back := 3
					if len(lastDel) < back {
						back = len(lastDel)
					}
					k = lastDel[len(lastDel)-1-g.Rng.Intn(back)] + g.Rng.Intn(5) - 2
					if k < 0 && (cmp == 12 || cmp == 13) {
						k = 0 // the 4-letter key codec of the case-insensitive instance has no negative keys
					}
				}
				w = append(w, c04Get, int64(k), 0)
			case x < 95:
				w = append(w, c04Size, 0, 0)
			default:
				w = append(w, c04Traverse, 0, 0)
			}
		}
		return w
	}
	for it, nr := 0, g.Pick(400, 6000); it < nr; it++ {
		emit("random", randHist(func(r int) int { return r }))
	}

	// --- instances: BsTree[string, string] (modes 4, 5) and BsTree[named string type,
	// non-comparable struct] (modes 6, 7), keys and values built afresh by fmt/strconv for
	// every call (see execC04): every sequence of <= 3 (thorough 4) of the 17 operations over
	// keys 0..4; every insertion order of every subset of 0..4, one Delete, at most one
	// re-Upsert, Get of every key; seeded random histories; keys near the ends of the codec's range.
	for mode := 4; mode <= 7; mode++ {
		g.Count(fmt.Sprintf("instance:mode %d", mode))
		seqsUpTo(3*nk+2, g.Pick(3, 4), func(seq []int) {
			w := []int64{int64(mode)}
			for i, s := range seq {
				switch {
				case s < nk:
					w = append(w, c04Upsert, int64(s), int64(val(i, s)))
				case s < 2*nk:
					w = append(w, c04Delete, int64(s-nk), 0)
				case s < 3*nk:
					w = append(w, c04Get, int64(s-2*nk), 0)
				case s == 3*nk:
					w = append(w, c04Size, 0, 0)
				default:
					w = append(w, c04Traverse, 0, 0)
				}
			}
			emit("instances", w)
		})
		for _, p := range perms {
			if g.Quick() && (mode == 5 || mode == 6) {
				break // quick tier: this family at one comparator per instance
			}
			for d := 0; d < nk; d++ {
				for re := -1; re < nk; re++ {
					if g.Quick() && re >= 0 && re != d && re != (d+1)%nk {
						continue // quick tier: re-upsert the deleted key or its neighbour
					}
					w := []int64{int64(mode)}
					i := 0
					for _, k := range p {
						w = append(w, c04Upsert, int64(k), int64(val(i, k)))
						i++
					}
					w = append(w, c04Delete, int64(d), 0)
					i++
					if re >= 0 {
						w = append(w, c04Upsert, int64(re), int64(val(i, re)))
					}
					emit("instances", probes(w))
				}
			}
		}
		// a read in the middle: every insertion order of 3 (thorough: 3 or 4) of the keys, Get g,
		// Delete d, Upsert u, Get of every key
		for _, p := range perms {
			if len(p) != 3 && (g.Quick() || len(p) != 4) {
				continue
			}
			seqsExact(nk, 3, func(s []int) {
				w := []int64{int64(mode)}
				i := 0
				for _, k := range p {
					w = append(w, c04Upsert, int64(k), int64(val(i, k)))
					i++
				}
				w = append(w, c04Get, int64(s[0]), 0, c04Delete, int64(s[1]), 0)
				i++
				w = append(w, c04Upsert, int64(s[2]), int64(val(i, s[2])))
				emit("instances", probes(w))
			})
		}
		for it, nr := 0, g.Pick(60, 1500); it < nr; it++ {
			emit("instances", randHist(func(r int) int { return mode }))
		}
		edge := c04KeyBias - 1
		emit("instances", []int64{int64(mode), c04Upsert, edge, 1, c04Upsert, -edge, 2, c04Upsert, 0, 3, c04Upsert, -1, 4, c04Upsert, 1, 5,
			c04Get, edge, 0, c04Get, -edge, 0, c04Delete, 0, 0, c04Get, -1, 0, c04Upsert, edge, 6, c04Delete, -edge, 0, c04Delete, -edge, 0, c04Traverse, 0, 0})
	}

	// --- ties: comparators under which DISTINCT keys tie (modes 8..13: a/2, a%3, case-insensitive
	// strings) and non-strict comparators (14, 15: a <= b, a >= b).  Over keys 0..4 the classes are
	// {0,1} {2,3} {4} (a/2), {0,3} {1,4} {2} (a%3), {0,1,2,3} {4} (strings, a/4).
	//   TA  every Upsert/Delete sequence of length <= 4 (thorough 5) over keys 0..4, Get of every key
	//       (quick: length <= 3 for the descending modes and for a <= b)
	//   TB  every sequence of length <= 3 (thorough 4) over the 17 operations, observed per operation
	//       (quick: length <= 2 for the descending modes)
	//   TC  every insertion order of every subset of 0..4, one Delete, at most one re-Upsert, Get of
	//       every key (quick, modes other than 8 and 12: re-Upsert of the deleted key only)
	//   TD  (modes 8, 9, 12, 13) four classes with two members each: every insertion order of the
	//       classes, every choice of the member inserted, Delete of each of the 8 keys, Upsert of the
	//       OTHER member of the deleted class, Get of all 8 keys
	//   random histories (as above) and histories over the keys -4..4 (modes 8..11, 14, 15)
	for mode := 8; mode <= 13; mode++ /* 14, 15 (non-strict <=, >=) are outside the property: modelled and proved, not generated */ {
		g.Count(fmt.Sprintf("ties:mode %d", mode))
		la := g.Pick(4, 5)
		if g.Quick() && (!c04Asc(mode) || mode == 14) {
			la = 3
		}
		lb := g.Pick(3, 4)
		if g.Quick() && !c04Asc(mode) {
			lb = 2
		}
		seqsUpTo(2*nk, la, func(seq []int) {
			w := []int64{int64(mode)}
			for i, s := range seq {
				if s < nk {
					w = append(w, c04Upsert, int64(s), int64(val(i, s)))
				} else {
					w = append(w, c04Delete, int64(s-nk), 0)
				}
			}
			emit("ties", probes(w))
		})
		seqsUpTo(3*nk+2, lb, func(seq []int) {
			w := []int64{int64(mode)}
			for i, s := range seq {
				switch {
				case s < nk:
					w = append(w, c04Upsert, int64(s), int64(val(i, s)))
				case s < 2*nk:
					w = append(w, c04Delete, int64(s-nk), 0)
				case s < 3*nk:
					w = append(w, c04Get, int64(s-2*nk), 0)
				case s == 3*nk:
					w = append(w, c04Size, 0, 0)
				default:
					w = append(w, c04Traverse, 0, 0)
				}
			}
			emit("ties", w)
		})
		for _, p := range perms {
			for d := 0; d < nk; d++ {
				for re := -1; re < nk; re++ {
					if g.Quick() && mode != 8 && mode != 12 && re >= 0 && re != d {
						continue
					}
					w := []int64{int64(mode)}
					i := 0
					for _, k := range p {
						w = append(w, c04Upsert, int64(k), int64(val(i, k)))
						i++
					}
					w = append(w, c04Delete, int64(d), 0)
					i++
					if re >= 0 {
						w = append(w, c04Upsert, int64(re), int64(val(i, re)))
					}
					emit("ties", probes(w))
				}
			}
		}
		if mode == 8 || mode == 9 || mode == 12 || mode == 13 {
			member := func(c, j int) int64 { // the j-th member (0, 1) of class c
				if mode >= 12 {
					return int64(4*c + 3*j)
				}
				return int64(2*c + j)
			}
			var all []int64
			for c := 0; c < 4; c++ {
				all = append(all, member(c, 0), member(c, 1))
			}
			for _, p := range perms {
				if len(p) != 4 || p[0] == 4 || p[1] == 4 || p[2] == 4 || p[3] == 4 {
					continue
				}
				for choice := 0; choice < 16; choice++ {
					for d := 0; d < 8; d++ {
						w := []int64{int64(mode)}
						for i, c := range p {
							w = append(w, c04Upsert, member(c, choice>>uint(c)&1), int64(10*(i+1)+c))
						}
						w = append(w, c04Delete, all[d], 0, c04Upsert, all[d^1], 99)
						for _, k := range all {
							w = append(w, c04Get, k, 0)
						}
						emit("ties", w)
					}
				}
			}
		}
		for it, nr := 0, g.Pick(60, 1500); it < nr; it++ {
			emit("ties-random", randHist(func(r int) int { return mode }))
		}
		if mode != 12 && mode != 13 {
			for it, nr := 0, g.Pick(100, 2000); it < nr; it++ {
				w := []int64{int64(mode)}
				for n := 0; n < 30; n++ {
					k := int64(g.Rng.Intn(9) - 4)
					switch x := g.Rng.Intn(100); {
					case x < 40:
						w = append(w, c04Upsert, k, int64(g.Rng.Intn(1000)))
					case x < 65:
						w = append(w, c04Delete, k, 0)
					case x < 92:
						w = append(w, c04Get, k, 0)
					case x < 96:
						w = append(w, c04Size, 0, 0)
					default:
						w = append(w, c04Traverse, 0, 0)
					}
				}
				emit("ties-random", w)
			}
		}
	}
	g.Exhaustive("ties")

	// --- large: trees of 100..2000 keys (thorough: ..5000) built in sorted,
	// reversed, zig-zag (lo, hi, lo+1, hi-1, ..: one path that turns at every
	// node) and random insertion order — the first three are degenerate, depth =
	// number of keys — under both comparators; three scripts per tree:
	//   half:    Size, Traverse, Get of every key (and of two absent ones);
	//            Delete of every second key (by rank); Size, Traverse, Get of
	//            every key; re-Upsert of the deleted keys in reverse order with new
	//            values; Size, Traverse, Get of every key (above 513 keys the two
	//            intermediate look-up rounds take 96 spread keys instead of all)
	//   forward: Delete in insertion order, Size and Traverse at four checkpoints
	//            and on the empty tree, Get of 16 spread keys at each; refill of 3 keys
	//   reverse: the same, deleting in reverse insertion order
	// Smallest sizes first (the evidence keeps the first samples of a stream).
	for _, n := range []int{128, 255, 256, 257, 511, 512, 513, 1023, 1024, 1025} {
		for cmp := 0; cmp <= 1; cmp++ {
			w := []int64{int64(cmp)}
			for i, r := range g.Rng.Perm(n) {
				w = append(w, c04Upsert, int64(r), int64(i+1))
			}
			g.Count("large:count boundary (build, Size, Traverse)")
			emit("large", append(w, c04Size, 0, 0, c04Traverse, 0, 0))
		}
	}
	type c04Large struct {
		n       int
		order   int // 0 sorted 1 reversed 2 zig-zag 3 random
		cmps    int // bit 0: ascending comparator, bit 1: descending
		scripts int // bit 0: half, bit 1: forward, bit 2: reverse
	}
	var larges []c04Large
	for _, n := range []int{100, 256, 257, 513} {
		for order := 0; order < 4; order++ {
			larges = append(larges, c04Large{n, order, 3, 7})
		}
	}
	if g.Quick() {
		larges = append(larges,
			c04Large{1000, 0, 1, 2}, c04Large{1000, 1, 2, 1}, c04Large{1000, 2, 1, 1}, c04Large{1000, 2, 2, 4}, c04Large{1000, 3, 2, 2},
			c04Large{2000, 2, 1, 2}, c04Large{2000, 3, 2, 4})
	} else {
		// the model and the specification machine cost O(n) per operation on these trees:
		// the full matrix up to 1025 keys, a thinned one above
		for _, n := range []int{255, 512, 1000, 1025} {
			for order := 0; order < 4; order++ {
				larges = append(larges, c04Large{n, order, 3, 7})
			}
		}
		for order := 0; order < 4; order++ {
			larges = append(larges, c04Large{2000, order, 1 + order%2, 7})
		}
		larges = append(larges,
			c04Large{3000, 0, 1, 6}, c04Large{3000, 1, 2, 6}, c04Large{3000, 2, 1, 6},
			c04Large{5000, 2, 1, 2}, c04Large{5000, 0, 2, 4})
	}
	for _, L := range larges {
		n := L.n
		ins := make([]int, n) // insertion order of the keys 0..n-1 (spread: key = 3*rank+1, so absent keys lie between)
		switch L.order {
		case 0:
			for i := range ins {
				ins[i] = i
			}
		case 1:
			for i := range ins {
				ins[i] = n - 1 - i
			}
		case 2:
			for i, lo, hi := 0, 0, n-1; i < n; i++ {
				if i%2 == 0 {
					ins[i] = lo
					lo++
				} else {
					ins[i] = hi
					hi--
				}
			}
		default:
			copy(ins, g.Rng.Perm(n))
		}
		key := func(rank int) int64 { return int64(3*rank + 1) }
		for cmp := 0; cmp <= 1; cmp++ {
			if L.cmps&(1<<cmp) == 0 {
				continue // quick tier: the largest trees under one comparator each
			}
			g.Count(fmt.Sprintf("large:%s", []string{"sorted", "reversed", "zig-zag", "random"}[L.order]))
			build := func() []int64 {
				w := []int64{int64(cmp)}
				for i, r := range ins {
					w = append(w, c04Upsert, key(r), int64(i+1))
				}
				return w
			}
			getAll := func(w []int64) []int64 {
				for r := 0; r < n; r++ {
					w = append(w, c04Get, key(r), 0)
				}
				return append(w, c04Get, 0, 0, c04Get, key(n-1)+1, 0)
			}
			// intermediate look-ups: every key up to 513 keys, 96 spread keys (both ends included) above
			getMid := func(w []int64) []int64 {
				if n <= 513 {
					return getAll(w)
				}
				for j := 0; j < 96; j++ {
					w = append(w, c04Get, key(j*(n-1)/95), 0)
				}
				return append(w, c04Get, 0, 0, c04Get, key(n-1)+1, 0)
			}
			look := func(w []int64) []int64 { return append(w, c04Size, 0, 0, c04Traverse, 0, 0) }
			// half
			if L.scripts&1 != 0 {
				w := getMid(look(build()))
				for r := 0; r < n; r += 2 {
					w = append(w, c04Delete, key(r), 0)
				}
				w = getMid(look(w))
				for r := (n - 1) / 2 * 2; r >= 0; r -= 2 {
					w = append(w, c04Upsert, key(r), int64(100000+r))
				}
				emit("large", getAll(look(w)))
			}
			// forward / reverse
			for dir := 0; dir < 2; dir++ {
				if L.scripts&(2<<dir) == 0 {
					continue
				}
				w := build()
				for i := 0; i < n; i++ {
					r := ins[i]
					if dir == 1 {
						r = ins[n-1-i]
					}
					w = append(w, c04Delete, key(r), 0)
					if (i+1)%(n/4) == 0 || i == n-1 {
						w = look(w)
						for j := 0; j < 16; j++ {
							w = append(w, c04Get, key(j*(n-1)/15), 0)
						}
					}
				}
				w = append(w, c04Delete, key(0), 0, c04Upsert, key(n/2), 7, c04Upsert, key(0), 8, c04Upsert, key(n-1), 9)
				emit("large", getAll(w))
			}
		}
	}

	// --- extreme: keys at MinInt64, MaxInt64, +-2^62, 0 and their neighbours
	// (comparator modes 2 and 3, see c04Ext), mixed in one tree: every ordered
	// triple of the 13 pivot keys inserted, the first deleted, every pivot
	// looked up; then seeded random histories over the pivots.
	pivots := []int64{500, 499, 501, 1999, 1998, 2000, 2001, 3500, 3499, 3501, 4500, 4499, 4501} // 0 -1 1 Max Max-1 Min Min+1 2^62 .. -2^62 ..
	for cmp := int64(2); cmp <= 3; cmp++ {
		for a := range pivots {
			for b := range pivots {
				for c := range pivots {
					if a == b || b == c || a == c {
						continue
					}
					w := []int64{cmp, c04Upsert, pivots[a], 1, c04Upsert, pivots[b], 2, c04Upsert, pivots[c], 3, c04Delete, pivots[a], 0}
					for _, p := range pivots {
						w = append(w, c04Get, p, 0)
					}
					emit("extreme", w)
				}
			}
		}
	}
	for it, nx := 0, g.Pick(1500, 20000); it < nx; it++ {
		w := []int64{int64(2 + g.Rng.Intn(2))}
		for n := 0; n < 40; n++ {
			k := pivots[g.Rng.Intn(len(pivots))]
			if g.Rng.Intn(8) == 0 {
				k = int64(g.Rng.Intn(5000)) // anywhere in the five windows
			}
			switch x := g.Rng.Intn(100); {
			case x < 40:
				w = append(w, c04Upsert, k, int64(g.Rng.Intn(1000)))
			case x < 65:
				w = append(w, c04Delete, k, 0)
			case x < 92:
				w = append(w, c04Get, k, 0)
			case x < 96:
				w = append(w, c04Size, 0, 0)
			default:
				w = append(w, c04Traverse, 0, 0)
			}
		}
		emit("extreme", w)
	}

	// --- malformed / boundary: operations on the empty tree, extreme keys
	big := int64(1) << 60 // the OCaml runner reads 63-bit integers
	for cmp := int64(0); cmp <= 1; cmp++ {
		emit("malformed", []int64{cmp})
		emit("malformed", []int64{cmp, c04Delete, 0, 0, c04Size, 0, 0, c04Get, 0, 0, c04Traverse, 0, 0})
		emit("malformed", []int64{cmp, c04Delete, 3, 0, c04Delete, 3, 0, c04Upsert, 3, 1, c04Size, 0, 0, c04Delete, 3, 0, c04Delete, 3, 0, c04Size, 0, 0})
		emit("malformed", []int64{cmp, c04Upsert, big, 1, c04Upsert, -big, 2, c04Upsert, 0, 3, c04Get, big, 0, c04Get, -big, 0,
			c04Delete, 0, 0, c04Get, big, 0, c04Delete, -big - 1, 0, c04Traverse, 0, 0})
	}
}

func sortedKeys(m map[int]bool) []int {
	ks := make([]int, 0, len(m))
	for k := range m {
		ks = append(ks, k)
	}
	for i := 1; i < len(ks); i++ {
		for j := i; j > 0 && ks[j] < ks[j-1]; j-- {
			ks[j], ks[j-1] = ks[j-1], ks[j]
		}
	}
	return ks
}

func init() {
	register(&Prop{ID: "C04", Exec: execC04, Gen: genC04, Describe: describeC04,
		Rule: "exhaustive, for the ascending and the descending comparator: (A) every Upsert/Delete sequence of length <= 5 (thorough 6) over keys 0..4 followed by Get of every key, final Size and Traverse; (B) every sequence of length <= 4 over all 17 operations Upsert k/Delete k/Get k/Size/Traverse, k in 0..4, observed per operation; (C) every insertion order of every subset of 0..4, then every Delete sequence of length <= 2 (thorough 3), then at most one re-Upsert, then Get of every key; (D) every insertion order of every subset of >= 2 keys, one read (Get k, Size or Traverse; thorough two), one Delete, at most one re-Upsert, Get of every key; (E) every such insertion order, then Delete, Upsert, Delete (thorough: and Upsert) over all keys, Get of every key. random: length-300 histories over 8/16/64 keys, tree pre-filled in sorted, reversed or random order, deletes biased to present keys, lookups biased to neighbours of deleted keys. large: trees of 128..1025 keys built at random then Size and Traverse; trees of 100, 256, 257, 513, 1000, 2000 keys (thorough: also 255, 512, 1025, 3000, 5000) built in sorted, reversed, zig-zag (all three of depth = size) and random order with three scripts (delete every second key / re-upsert; delete in insertion order; delete in reverse order) observing Size, Traverse and Get of every key. extreme: keys MinInt64, MaxInt64, +-2^62, 0 and neighbours mixed in one tree (every ordered triple inserted, first deleted, all looked up; seeded random histories), both comparators. instances: BsTree[string,string] and BsTree[named string type, non-comparable struct] with string comparators, keys = 13-digit decimal strings and values built by fmt/strconv afresh for every call: every sequence of <= 3 (thorough 4) of the 17 operations, every insertion order of every subset of 0..4 then one Delete and at most one re-Upsert (quick: of the deleted key or its neighbour, one comparator per instance), every insertion order of 3 (thorough 3 or 4) keys then Get g, Delete d, Upsert u for all g, d, u, 60 (1500) random histories per mode. ties: comparators under which distinct keys tie - a/2<b/2, a/2>b/2, a%3<b%3, a%3>b%3 on int keys, strings.ToLower(a)</>strings.ToLower(b) on BsTree[string,string] with 4-letter keys in four case patterns - and the non-strict a<=b, a>=b (comparator modes 8..15): every Upsert/Delete sequence of length <= 4 (thorough 5; quick: 3 for the descending modes and a<=b) over keys 0..4 with Get of every key, every sequence of length <= 3 (thorough 4; quick: 2 for the descending modes) of the 17 operations, every insertion order of every subset of 0..4 then one Delete and at most one re-Upsert (quick: of the deleted key only, except for a/2<b/2 and the ascending string mode), four two-member classes in every insertion order with every choice of the inserted member, a Delete through each of the 8 keys and an Upsert of the other member (a/2 and string modes); ties-random: 60 (1500) length-300 histories per mode and 100 (2000) length-30 histories over keys -4..4. non-trivial = the history contains a Delete of a node with two children that is followed by a Get of that node's in-order successor key; distinct = distinct wire input"})
}
