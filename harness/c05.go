package main

import (
	"fmt"
	"strings"
	"time"

	"github.com/esimov/gogu/queue"
)

// C05 wire (mirror of coq/theories/C05_Wire.v)
//
//	input    = cfg t (op arg)*
//	           cfg = impl + 2*inst: impl 0 = queue.New[T]() (t ignored), impl 1 = queue.NewLinked[T](t);
//	           inst 0: T = int, 1: T = string, 2: T = struct{K int; S string} (c05_instances.go:
//	           elements go through an injective codec int <-> T, the model ignores inst)
//	           op 1 Enqueue arg | 2 Dequeue | 3 Peek | 4 Search arg | 5 Size | 6 Clear
//	observed = result of every op, then the end of the case:
//	           Size (= n), min(n,4096) x Dequeue, Size, Dequeue, Size, Peek
//	           Enqueue/Clear -> nothing, Dequeue -> err item, Peek -> item,
//	           Search -> 0|1, Size -> n; a panic -> -777 0 and the case stops;
//	           a hang (no answer within 10 s) -> -778 alone.
const (
	c05Enqueue = 1
	c05Dequeue = 2
	c05Peek    = 3
	c05Search  = 4
	c05Size    = 5
	c05Clear   = 6
)

type c05Queue interface {
	Enqueue(int)
	Deq() (int, bool)
	Peek() int
	Search(int) bool
	Size() int
	Clear()
}

type c05Slice struct{ *queue.Queue[int] }

func (q c05Slice) Deq() (int, bool) { v, err := q.Dequeue(); return v, err != nil }

type c05Linked struct{ *queue.LQueue[int] }

func (q c05Linked) Deq() (int, bool) { return q.Dequeue(), false }

// the same containers at another element type, behind the int codec
type c05SliceG[T comparable] struct {
	q   *queue.Queue[T]
	enc func(int) T
	dec func(T) int
}

func (a c05SliceG[T]) Enqueue(v int)     { a.q.Enqueue(a.enc(v)) }
func (a c05SliceG[T]) Deq() (int, bool)  { v, err := a.q.Dequeue(); return a.dec(v), err != nil }
func (a c05SliceG[T]) Peek() int         { return a.dec(a.q.Peek()) }
func (a c05SliceG[T]) Search(v int) bool { return a.q.Search(a.enc(v)) }
func (a c05SliceG[T]) Size() int         { return a.q.Size() }
func (a c05SliceG[T]) Clear()            { a.q.Clear() }

type c05LinkedG[T comparable] struct {
	q   *queue.LQueue[T]
	enc func(int) T
	dec func(T) int
}

func (a c05LinkedG[T]) Enqueue(v int)     { a.q.Enqueue(a.enc(v)) }
func (a c05LinkedG[T]) Deq() (int, bool)  { return a.dec(a.q.Dequeue()), false }
func (a c05LinkedG[T]) Peek() int         { return a.dec(a.q.Peek()) }
func (a c05LinkedG[T]) Search(v int) bool { return a.q.Search(a.enc(v)) }
func (a c05LinkedG[T]) Size() int         { return a.q.Size() }
func (a c05LinkedG[T]) Clear()            { a.q.Clear() }

func c05New(cfg, t int) c05Queue {
	impl, inst := cfg%2, cfg/2
	switch inst {
	case 1:
		if impl == 0 {
			return c05SliceG[string]{queue.New[string](), instEncString, instDecString}
		}
		return c05LinkedG[string]{queue.NewLinked[string](instEncString(t)), instEncString, instDecString}
	case 2:
		if impl == 0 {
			return c05SliceG[instKS]{queue.New[instKS](), instEncKS, instDecKS}
		}
		return c05LinkedG[instKS]{queue.NewLinked[instKS](instEncKS(t)), instEncKS, instDecKS}
	case 3:
		if impl == 0 {
			return c05SliceG[float64]{queue.New[float64](), nanEncF, nanDecF}
		}
		return c05LinkedG[float64]{queue.NewLinked[float64](nanEncF(t)), nanEncF, nanDecF}
	case 4:
		if impl == 0 {
			return c05SliceG[instXY]{queue.New[instXY](), nanEncXY, nanDecXY}
		}
		return c05LinkedG[instXY]{queue.NewLinked[instXY](nanEncXY(t)), nanEncXY, nanDecXY}
	case 5:
		if impl == 0 {
			return c05SliceG[any]{queue.New[any](), nanEncAny, nanDecAny}
		}
		return c05LinkedG[any]{queue.NewLinked[any](nanEncAny(t)), nanEncAny, nanDecAny}
	}
	if impl == 0 {
		return c05Slice{queue.New[int]()}
	}
	return c05Linked{queue.NewLinked[int](t)}
}

func c05Apply(q c05Queue, op, arg int, out *[]int64) {
	switch op {
	case c05Enqueue:
		q.Enqueue(arg)
	case c05Dequeue:
		v, e := q.Deq()
		*out = append(*out, b2i(e), int64(v))
	case c05Peek:
		*out = append(*out, int64(q.Peek()))
	case c05Search:
		*out = append(*out, b2i(q.Search(arg)))
	case c05Size:
		*out = append(*out, int64(q.Size()))
	case c05Clear:
		q.Clear()
	}
}

func execC05(in []int64) []int64 {
	var out []int64
	body := func() {
		r := &R{w: in}
		cfg, t := r.Int(), r.Int()
		if cfg < 0 || cfg > 11 {
			cfg = ((cfg % 2) + 2) % 2 // the model answers wire_error; run something deterministic
		}
		q := c05New(cfg, t)
		for len(r.w) >= 2 {
			op, arg := r.Int(), r.Int()
			c05Apply(q, op, arg, &out)
		}
		n := q.Size()
		out = append(out, int64(n))
		if n > 4096 {
			n = 4096
		}
		for i := 0; i < n; i++ {
			c05Apply(q, c05Dequeue, 0, &out)
		}
		c05Apply(q, c05Size, 0, &out)
		c05Apply(q, c05Dequeue, 0, &out)
		c05Apply(q, c05Size, 0, &out)
		c05Apply(q, c05Peek, 0, &out)
	}
	panicked, hung := tryTimeout(10*time.Second, body)
	if hung {
		return []int64{-778}
	}
	if panicked {
		out = append(out, -777, 0)
	}
	return out
}

var c05LargeOps = largeOps{opAdd: c05Enqueue, opRem: c05Dequeue, opPeek: c05Peek, opSearch: c05Search, opSize: c05Size}

// the exhaustive alphabet: index -> (op, arg)
var c05Alpha = [][2]int{
	{c05Enqueue, 1}, {c05Enqueue, 2}, {c05Enqueue, 3},
	{c05Dequeue, 0}, {c05Peek, 0},
	{c05Search, 1}, {c05Search, 2}, {c05Search, 3},
	{c05Size, 0}, {c05Clear, 0},
}

// c05Nontrivial: the history drains the queue to empty (by Dequeue or Clear,
// from a non-empty state) and enqueues again afterwards.
func c05Nontrivial(size0 int, ops [][2]int) bool {
	size, drained := size0, false
	for _, o := range ops {
		switch o[0] {
		case c05Enqueue:
			if drained {
				return true
			}
			size++
		case c05Dequeue:
			if size > 0 {
				size--
				if size == 0 {
					drained = true
				}
			}
		case c05Clear:
			if size > 0 {
				drained = true
			}
			size = 0
		}
	}
	return false
}

func c05Wire(cfg, t int, ops [][2]int) []int64 {
	w := make([]int64, 0, 2+2*len(ops))
	w = append(w, int64(cfg), int64(t))
	for _, o := range ops {
		w = append(w, int64(o[0]), int64(o[1]))
	}
	return w
}

func c05Emit(g *Gen, stream string, cfg, t int, ops [][2]int) {
	size0 := 0
	if cfg%2 == 1 {
		size0 = 1
	}
	nt := c05Nontrivial(size0, ops)
	g.Case(stream, nt, c05Wire(cfg, t, ops))
	if cfg%2 == 0 {
		g.Count("impl.slice")
	} else {
		g.Count("impl.linked")
	}
	g.Count("inst." + instName(cfg/2))
	g.Count(largeLenBucket(len(ops)))
	if nt {
		g.Count("drain+refill")
	}
	// boundary hits, by abstract simulation
	size, emptyDeq, clears := size0, 0, 0
	for _, o := range ops {
		switch o[0] {
		case c05Enqueue:
			size++
		case c05Dequeue:
			if size > 0 {
				size--
			} else {
				emptyDeq++
			}
		case c05Clear:
			size = 0
			clears++
		}
	}
	if emptyDeq > 0 {
		g.Count("has.dequeue-on-empty")
	}
	if clears > 0 {
		g.Count("has.clear")
	}
	if size == 0 {
		g.Count("ends.empty")
	}
}

// c05RandomHistory: length 400, phases that fill, drain (over-drain) and churn.
func c05RandomHistory(g *Gen, val func() int) [][2]int {
	var ops [][2]int
	for len(ops) < 400 {
		phase := g.Rng.Intn(4)
		plen := 1 + g.Rng.Intn(24)
		for i := 0; i < plen && len(ops) < 400; i++ {
			x := g.Rng.Intn(100)
			var o [2]int
			switch {
			case x < 12:
				o = [2]int{c05Peek, 0}
			case x < 24:
				o = [2]int{c05Search, val()}
			case x < 32:
				o = [2]int{c05Size, 0}
			case x < 34:
				o = [2]int{c05Clear, 0}
			default:
				enq := false
				switch phase {
				case 0: // fill
					enq = x < 85
				case 1, 2: // drain, overshooting into the empty queue
					enq = x < 42
				default: // churn
					enq = x < 67
				}
				if enq {
					o = [2]int{c05Enqueue, val()}
				} else {
					o = [2]int{c05Dequeue, 0}
				}
			}
			ops = append(ops, o)
		}
	}
	return ops
}

func genC05(g *Gen) {
	// 1. exhaustive: every sequence over the 10-op alphabet up to the bound,
	// shortest first, for both implementations (linked started at element 1)
	bound := g.Pick(5, 6)
	seqsUpTo(len(c05Alpha), bound, func(seq []int) {
		ops := make([][2]int, len(seq))
		for i, v := range seq {
			ops[i] = c05Alpha[v]
		}
		c05Emit(g, "exhaustive", 0, 0, ops)
		c05Emit(g, "exhaustive", 1, 1, ops)
	})
	g.Exhaustive("exhaustive")

	// 1b. deeper, over the 5 ops that change or expose the front
	// {Enqueue 1, Enqueue 2, Dequeue, Peek, Clear}: every sequence of length 6 and
	// 7 (quick) / 7 and 8 (thorough; length 6 is covered above); the end of the
	// case shows Size and the drained contents
	{
		deep := [][2]int{{c05Enqueue, 1}, {c05Enqueue, 2}, {c05Dequeue, 0}, {c05Peek, 0}, {c05Clear, 0}}
		for n := g.Pick(6, 7); n <= g.Pick(7, 8); n++ {
			seqsExact(len(deep), n, func(seq []int) {
				ops := make([][2]int, len(seq))
				for i, v := range seq {
					ops[i] = deep[v]
				}
				c05Emit(g, "exhaustive-deep", 0, 0, ops)
				c05Emit(g, "exhaustive-deep", 1, 1, ops)
			})
		}
		g.Exhaustive("exhaustive-deep")
	}

	// 2. seeded random: length 400, phases that fill, drain (over-drain) and
	// refill; values 1..5 and, rarely, the zero value
	val := func() int {
		if g.Rng.Intn(25) == 0 {
			return 0
		}
		return 1 + g.Rng.Intn(5)
	}
	nrand := g.Pick(400, 6000)
	for c := 0; c < nrand; c++ {
		ops := c05RandomHistory(g, val)
		cfg := c % 2
		t := val()
		c05Emit(g, "random", cfg, t, ops)
	}

	// 2b. large: structured long histories (c05_large.go) for both implementations:
	// bulk grow-then-drain up to 1030 (thorough: 4000) elements, saw-tooth across
	// the powers of two up to 1024 (4096), sliding windows through which up to
	// 1100 (5000) elements pass while the queue holds 1..4
	for cfg := 0; cfg <= 1; cfg++ {
		cfg := cfg
		limit := 0
		if cfg == 1 {
			// the node-heap model of the linked queue pays O(size x heap) per Enqueue
			// (DList.Append walks the list): cubic in the size of a bulk history
			limit = g.Pick(1030, 2050)
		}
		largePlans(g.Quick(), limit, func(name string, build func(b *largeBuilder)) {
			var b *largeBuilder
			if cfg == 0 {
				b = newLargeBuilder(true, c05LargeOps, nil, 1)
			} else {
				b = newLargeBuilder(true, c05LargeOps, []int{1}, 2)
			}
			build(b)
			c05Emit(g, "large", cfg, 1, b.ops)
			g.Count("large." + name)
			g.Count(largeBucket(b.maxHeld))
			if b.removed >= 128 {
				g.Count("large.removals>=128")
			}
		})
	}

	// 2c. instances: the same kinds of histories on Queue[T] / LQueue[T] for
	// T = string and T = struct{K int; S string} (c05_instances.go): every
	// sequence over the 10-op alphabet up to length 4 (thorough 5), random
	// length-400 histories, and the long structured histories up to 130 elements
	for _, inst := range instOther {
		for impl := 0; impl <= 1; impl++ {
			cfg := impl + 2*inst
			seqsUpTo(len(c05Alpha), g.Pick(4, 5), func(seq []int) {
				ops := make([][2]int, len(seq))
				for i, v := range seq {
					ops[i] = c05Alpha[v]
				}
				c05Emit(g, "instances", cfg, 1, ops)
			})
			for c := 0; c < g.Pick(150, 1500); c++ {
				ops := c05RandomHistory(g, val)
				c05Emit(g, "instances", cfg, val(), ops)
			}
			largePlans(g.Quick(), 130, func(name string, build func(b *largeBuilder)) {
				var b *largeBuilder
				if impl == 0 {
					b = newLargeBuilder(true, c05LargeOps, nil, 1)
				} else {
					b = newLargeBuilder(true, c05LargeOps, []int{1}, 2)
				}
				build(b)
				c05Emit(g, "instances", cfg, 1, b.ops)
			})
		}
	}

	// 2d. nan: element types whose == is not the identity of values (c05_nan.go)
	genC05NaN(g)

	// 3. "malformed" use: everything a caller should not do — long runs of
	// reads and removals on an empty / emptied / cleared queue, extreme values,
	// searching for the zero value
	extremes := []int{0, -1, 1 << 40, -(1 << 40)}
	for cfg := 0; cfg <= 5; cfg++ {
		for _, t := range extremes {
			for k := 0; k <= 3; k++ { // k elements enqueued first
				for _, killer := range []int{c05Dequeue, c05Clear} {
					var ops [][2]int
					for i := 0; i < k; i++ {
						ops = append(ops, [2]int{c05Enqueue, extremes[(i+1)%len(extremes)]})
					}
					if killer == c05Clear {
						ops = append(ops, [2]int{c05Clear, 0})
					} else {
						for i := 0; i < k+cfg%2; i++ {
							ops = append(ops, [2]int{c05Dequeue, 0})
						}
					}
					for rep := 0; rep < 3; rep++ {
						ops = append(ops, [2]int{c05Dequeue, 0}, [2]int{c05Peek, 0}, [2]int{c05Search, 0},
							[2]int{c05Search, t}, [2]int{c05Size, 0}, [2]int{c05Clear, 0})
					}
					ops = append(ops, [2]int{c05Enqueue, t}, [2]int{c05Peek, 0}, [2]int{c05Search, t},
						[2]int{c05Search, 0}, [2]int{c05Size, 0})
					c05Emit(g, "malformed", cfg, t, ops)
				}
			}
		}
	}
}

func c05OpName(op, arg int) string { return c05OpNameI(0, op, arg) }

func c05OpNameI(inst, op, arg int) string {
	switch op {
	case c05Enqueue:
		return fmt.Sprintf("Enqueue(%s)", nanCodeName(inst, arg))
	case c05Dequeue:
		return "Dequeue()"
	case c05Peek:
		return "Peek()"
	case c05Search:
		return fmt.Sprintf("Search(%s)", nanCodeName(inst, arg))
	case c05Size:
		return "Size()"
	case c05Clear:
		return "Clear()"
	}
	return fmt.Sprintf("?%d(%d)", op, arg)
}

func describeC05(in []int64) string {
	if len(in) < 2 {
		return "malformed"
	}
	var sb strings.Builder
	impl, inst := int(in[0])%2, int(in[0])/2
	if impl == 0 {
		fmt.Fprintf(&sb, "queue.New[%s]()", instName(inst))
	} else {
		fmt.Fprintf(&sb, "queue.NewLinked[%s](%s)", instName(inst), nanCodeName(inst, int(in[1])))
	}
	if inst >= 3 {
		sb.WriteString(" [integers are codes of values, c05_nan.go]")
	} else if inst != 0 {
		sb.WriteString(" [elements through the int codec of c05_instances.go]")
	}
	rest := in[2:]
	for i := 0; i+1 < len(rest) && i < 80; i += 2 {
		sb.WriteString("; ")
		sb.WriteString(c05OpNameI(inst, int(rest[i]), int(rest[i+1])))
	}
	if len(rest) > 80 {
		fmt.Fprintf(&sb, "; ... (%d ops)", len(rest)/2)
	}
	sb.WriteString("; then Size, drain, Size, Dequeue, Size, Peek")
	return sb.String()
}

func init() {
	register(&Prop{
		ID: "C05",
		Rule: "exhaustive: every op sequence up to length 5 (quick) / 6 (thorough) over {Enqueue 1|2|3, Dequeue, Peek, Search 1|2|3, Size, Clear} " +
			"for queue.New and for queue.NewLinked(1), result of every op observed, then Size + drain + Dequeue/Size/Peek on the emptied queue; " +
			"exhaustive-deep: every sequence of length 6 and 7 (thorough: 7 and 8) over {Enqueue 1|2, Dequeue, Peek, Clear}; " +
			"random: length-400 histories in fill / over-drain / churn phases over values 0..5; " +
			"instances: for T = string and T = struct{K int; S string} (elements through an injective int codec whose strings are built afresh at run time for every use, zero value = 0) and both implementations: every sequence up to length 4 (thorough 5) over the same alphabet, 150 (1500) random length-400 histories each, long structured histories up to 130 elements, and the malformed stream; " +
			"nan: element types whose == is not the identity of values, T = float64, struct{X, Y float64} and any (integers are codes: NaN and a second NaN-like value are not equal to themselves, -0 is a second value equal to the zero value, []int{1}, []int{2}, map are values of uncomparable dynamic types inside an any; observations canonicalised by NaN payload bits / sign bit / slice content), both implementations, the linked one from an ordinary first element and from a NaN: every sequence up to length 4 (thorough 5) over {Enqueue 1|NaN|-0 (any: []int{1}), Dequeue, Peek, Search 1|NaN|0 (any: map), Size, Clear} and up to length 3 (4) over a second alphabet with the other NaN and the other uncomparable type; nan-random: 120 (1500) length-400 histories per element type over {0,1,2,3,NaN,NaN',-0 or the three uncomparable values}; a case never both stores and searches for values of one uncomparable dynamic type (Go's == itself panics there); " +
			"large: structured long histories over distinct increasing values for both implementations, Peek/Size/Search observed at several points and a full drain at the end: " +
			"bulk grow to N in {40,130,300,1030} (thorough also 2050 and, slice queue only, 4000) then remove 3N/4+2, N or N+3; saw-tooth p+1 -> p/4-1 over the powers of two p up to 1024 (thorough 4096; linked queue 2048) with thrashing across each capacity boundary; " +
			"sliding windows holding 1..4 elements while 130, 300, 1100 (5000) elements pass through; malformed: reads and removals on empty, emptied and cleared queues with extreme values. " +
			"Non-trivial = the history drains the queue to empty (Dequeue or Clear from a non-empty state) and enqueues again afterwards.",
		Exec:     execC05,
		Gen:      genC05,
		Describe: describeC05,
	})
}
