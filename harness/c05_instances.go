package main

import "strconv"

// Element-type instances shared by C05 (queues) and C06 (stacks).
//
// The wire and the Gallina model speak integers.  The cfg word of a case is
//
//	cfg = impl + 2*inst    impl 0 = slice-backed, 1 = linked
//	                       inst 0 = T = int (the value itself)
//	                       inst 1 = T = string
//	                       inst 2 = T = instKS (a small comparable struct with a string field)
//
// and the model ignores inst: the containers are generic in a comparable T and
// the property does not depend on T, so the SAME history must give the SAME
// observation at every instance once the elements are mapped through an
// injective codec  int <-> T  whose zero value is the wire's 0.
//
// The strings of the codec are BUILT AT RUN TIME FOR EVERY USE (a fresh byte
// buffer converted to a string, at least two bytes long so that the runtime's
// static single-byte strings are never used): two equal elements never share
// their backing array, and a value handed to Search never shares storage with
// the equal value that was pushed.  An implementation that compares
// representations (pointers, raw memory), takes a fast path for one dynamic
// type, or tests for the zero value in a type-dependent way is therefore exposed.

const instJunk = -987654321 // decoded from a value no encoder produces

// ---- inst 1: string.  0 <-> "", v <-> "v:<v>"
func instEncString(v int) string {
	if v == 0 {
		return ""
	}
	buf := make([]byte, 0, 24)
	buf = append(buf, 'v', ':')
	buf = strconv.AppendInt(buf, int64(v), 10)
	return string(buf) // copies: fresh backing array on every call
}

func instDecString(s string) int {
	if s == "" {
		return 0
	}
	if len(s) < 3 || s[0] != 'v' || s[1] != ':' {
		return instJunk
	}
	n, err := strconv.ParseInt(s[2:], 10, 64)
	if err != nil || n == 0 {
		return instJunk
	}
	return int(n)
}

// ---- inst 2: struct{K int; S string}.  0 <-> the zero struct; otherwise,
// by v mod 3:  0 -> {0, "s:<v>"}   (K is zero, S is not)
//
//	1 -> {v, ""}        (S is zero, K is not)
//	2 -> {v, "s:<v>"}
type instKS struct {
	K int
	S string
}

func instFreshS(v int) string {
	buf := make([]byte, 0, 24)
	buf = append(buf, 's', ':')
	buf = strconv.AppendInt(buf, int64(v), 10)
	return string(buf)
}

func instEncKS(v int) instKS {
	if v == 0 {
		return instKS{}
	}
	switch ((v % 3) + 3) % 3 {
	case 0:
		return instKS{K: 0, S: instFreshS(v)}
	case 1:
		return instKS{K: v, S: ""}
	default:
		return instKS{K: v, S: instFreshS(v)}
	}
}

func instDecKS(x instKS) int {
	if x.S == "" {
		if x.K != 0 && ((x.K%3)+3)%3 != 1 {
			return instJunk
		}
		return x.K
	}
	if len(x.S) < 3 || x.S[0] != 's' || x.S[1] != ':' {
		return instJunk
	}
	n, err := strconv.ParseInt(x.S[2:], 10, 64)
	if err != nil || n == 0 {
		return instJunk
	}
	v := int(n)
	switch ((v % 3) + 3) % 3 {
	case 0:
		if x.K != 0 {
			return instJunk
		}
	case 2:
		if x.K != v {
			return instJunk
		}
	default:
		return instJunk
	}
	return v
}

func instName(inst int) string {
	switch inst {
	case 0:
		return "int"
	case 1:
		return "string"
	case 2:
		return "struct{K int; S string}"
	case 3:
		return "float64" // inst 3..5: c05_nan.go
	case 4:
		return "struct{X, Y float64}"
	case 5:
		return "any"
	}
	return "?"
}

// instances enumerated by the "instances" stream (int is everything else)
var instOther = []int{1, 2}
