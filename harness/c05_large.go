package main

import "fmt"

// Structured LONG histories shared by C05 (queues) and C06 (stacks): the
// "large" stream.  Bounded-exhaustive sequences and length-400 random walks
// never hold more than a few dozen elements, so a change that only shows once
// the backing array has grown past some capacity, or once some number of
// removed slots has piled up (shrink / compaction thresholds), is invisible to
// them.  The histories below are built from three shapes, all over DISTINCT
// increasing values (so a lost, duplicated, reordered or phantom element is
// visible in the value of the next removal) and with Peek / Size / Search
// observed at several points; the end of every case drains what is left:
//
//	bulk(N, r)    grow to N in four steps, remove r (in four steps, r may exceed
//	              N: over-drain), add 5 more
//	saw(P)        saw-tooth over the powers of two up to P: grow to p+1, thrash
//	              3 x (remove 2, add 2) across the capacity boundary, shrink to
//	              p/4-1, for p = 16, 32, ..., P
//	window(k, W)  hold k elements, then W x (add 1, remove 1): hundreds of
//	              elements pass through while the size stays k..k+1; then
//	              over-drain and refill
//
// The builder tracks the values held so that Search is aimed at the oldest, the
// newest, a middle, the last removed (absent) and a never added value.

type largeOps struct {
	opAdd, opRem, opPeek, opSearch, opSize int
}

type largeBuilder struct {
	fifo        bool // removal takes the oldest (queue) or the newest (stack)
	code        largeOps
	held        []int
	next        int
	lastRemoved int
	maxHeld     int
	removed     int
	ops         [][2]int
}

func newLargeBuilder(fifo bool, code largeOps, initial []int, first int) *largeBuilder {
	b := &largeBuilder{fifo: fifo, code: code, next: first, lastRemoved: first - 1}
	b.held = append(b.held, initial...)
	b.maxHeld = len(b.held)
	return b
}

func (b *largeBuilder) add(k int) {
	for i := 0; i < k; i++ {
		b.ops = append(b.ops, [2]int{b.code.opAdd, b.next})
		b.held = append(b.held, b.next)
		b.next++
	}
	if len(b.held) > b.maxHeld {
		b.maxHeld = len(b.held)
	}
}

// rem issues k removals, also on an empty container (over-drain).
func (b *largeBuilder) rem(k int) {
	for i := 0; i < k; i++ {
		b.ops = append(b.ops, [2]int{b.code.opRem, 0})
		if len(b.held) == 0 {
			continue
		}
		b.removed++
		if b.fifo {
			b.lastRemoved = b.held[0]
			b.held = b.held[1:]
		} else {
			b.lastRemoved = b.held[len(b.held)-1]
			b.held = b.held[:len(b.held)-1]
		}
	}
}

// to grows or shrinks to exactly n elements.
func (b *largeBuilder) to(n int) {
	if n < 0 {
		n = 0
	}
	if len(b.held) < n {
		b.add(n - len(b.held))
	} else {
		b.rem(len(b.held) - n)
	}
}

func (b *largeBuilder) observe() {
	c := b.code
	b.ops = append(b.ops, [2]int{c.opPeek, 0}, [2]int{c.opSize, 0})
	if n := len(b.held); n > 0 {
		b.ops = append(b.ops, [2]int{c.opSearch, b.held[0]}, [2]int{c.opSearch, b.held[n-1]}, [2]int{c.opSearch, b.held[n/2]})
	}
	b.ops = append(b.ops, [2]int{c.opSearch, b.lastRemoved}, [2]int{c.opSearch, b.next}, [2]int{c.opSearch, 0})
}

func (b *largeBuilder) bulk(n, r int) {
	for q := 1; q <= 4; q++ {
		b.to(n * q / 4)
		b.observe()
	}
	done := 0
	for q := 1; q <= 4; q++ {
		b.rem(r*q/4 - done)
		done = r * q / 4
		b.observe()
	}
	b.add(5)
	b.observe()
}

func (b *largeBuilder) saw(maxPeak int) {
	for p := 16; p <= maxPeak; p *= 2 {
		b.to(p + 1)
		b.observe()
		for i := 0; i < 3; i++ {
			b.rem(2)
			b.add(2)
		}
		b.observe()
		b.to(p/4 - 1)
		b.observe()
	}
	b.add(3)
	b.observe()
}

func (b *largeBuilder) window(k, w int) {
	b.to(k)
	b.observe()
	step := w / 4
	if step == 0 {
		step = 1
	}
	for i := 1; i <= w; i++ {
		b.add(1)
		b.rem(1)
		if i%step == 0 {
			b.observe()
		}
	}
	b.rem(len(b.held) + 2)
	b.observe()
	b.add(3)
	b.observe()
}

// largePlans calls fn once per structured long history of the tier, smallest
// first (name = shape; build = the shape applied to a builder).  limit > 0
// bounds the number of elements held at once (bulk sizes above it are skipped,
// saw-tooth peaks are clipped to it): the node-heap model of the linked STACK
// costs O(depth x heap) per Pop, i.e. cubic in the size of a bulk history.
func largePlans(quick bool, limit int, fn func(name string, build func(b *largeBuilder))) {
	bulkN := []int{40, 130, 300, 1030}
	sawP := []int{64, 1024}
	winW := []int{130, 300, 1100}
	winK := []int{1, 3}
	if !quick {
		bulkN = append(bulkN, 2050, 4000)
		sawP = append(sawP, 4096)
		winW = append(winW, 5000)
	}
	if limit > 0 {
		var bn, sp []int
		for _, n := range bulkN {
			if n <= limit {
				bn = append(bn, n)
			}
		}
		for _, p := range sawP {
			for p > limit {
				p /= 2
			}
			if len(sp) == 0 || sp[len(sp)-1] != p {
				sp = append(sp, p)
			}
		}
		bulkN, sawP = bn, sp
	}
	for _, n := range bulkN {
		for _, r := range []int{n*3/4 + 2, n, n + 3} {
			n, r := n, r
			fn("bulk", func(b *largeBuilder) { b.bulk(n, r) })
		}
	}
	for _, p := range sawP {
		p := p
		fn("saw", func(b *largeBuilder) { b.saw(p) })
	}
	for _, w := range winW {
		for _, k := range winK {
			w, k := w, k
			fn("window", func(b *largeBuilder) { b.window(k, w) })
		}
	}
}

// largeLenBucket names the length class of a history (steps of 50 below 500).
func largeLenBucket(n int) string {
	switch {
	case n >= 10000:
		return "len.>=10000"
	case n >= 5000:
		return "len.>=5000"
	case n >= 2000:
		return "len.>=2000"
	case n >= 1000:
		return "len.>=1000"
	case n >= 500:
		return "len.>=500"
	}
	return fmt.Sprintf("len.%03d", n/50*50)
}

// largeBucket names the size class of a history for the evidence histogram.
func largeBucket(maxHeld int) string {
	switch {
	case maxHeld >= 2049:
		return "large.max-size>=2049"
	case maxHeld >= 1025:
		return "large.max-size>=1025"
	case maxHeld >= 257:
		return "large.max-size>=257"
	case maxHeld >= 129:
		return "large.max-size>=129"
	default:
		return "large.max-size<129"
	}
}
