package main

import (
	"fmt"
	"math"
)

// Element types whose `==` is NOT the identity of values, shared by C05 (queues)
// and C06 (stacks) — mirror of coq/theories/C05_ModelNaN.v.
//
//	cfg = impl + 2*inst    inst 3 = T = float64
//	                       inst 4 = T = instXY (struct{X, Y float64})
//	                       inst 5 = T = any
//
// The wire still speaks integers, but here they are CODES of values:
//
//	nanC1 (-999999999)  a value that is not equal to itself
//	                    float64: NaN (payload 1)   instXY: {NaN, 0}    any: float64 NaN
//	nanC2 (-999999998)  another one
//	                    float64: NaN (payload 2)   instXY: {1, NaN}    any: float32 NaN
//	nanNZ (-999999997)  a second value that is == the zero value (code 0)
//	                    float64: -0.0              instXY: {-0.0, 0}   any: none (not used)
//	nanU1 (-999999996)  any([]int{1})               uncomparable dynamic type []int
//	nanU2 (-999999995)  any([]int{2})               the same dynamic type
//	nanM1 (-999999994)  any(map[string]int{"k": 1}) another uncomparable dynamic type
//	0                   the zero value (0.0, instXY{}, nil)
//	any other v         an ordinary value, equal to itself only:
//	                    float64(v); instXY{v, v/2}; any: by v mod 3 int(v) / "v:<v>" / float64(v)
//
// The decoders canonicalise what comes out of the container back to a code (NaN
// payloads by their bits, -0 by its sign bit, slices by their content); a value
// no encoder produces decodes to instJunk.
//
// Go's `==` panics when two values of the SAME uncomparable dynamic type are
// compared.  The unchanged containers compare elements only in Search, so the
// only panicking call of the unchanged code is Search(slice) on a container that
// holds a slice before any match (same for maps).  The generators below never
// produce such a case (static rule nanCaseOK: a case does not both hold and
// search for values of one uncomparable dynamic type).
const (
	nanC1 = -999999999
	nanC2 = -999999998
	nanNZ = -999999997
	nanU1 = -999999996
	nanU2 = -999999995
	nanM1 = -999999994
)

var (
	nanF1 = math.Float64frombits(0x7FF8000000000001)
	nanF2 = math.Float64frombits(0x7FF8000000000002)
	negZ  = math.Copysign(0, -1)
)

// ---- inst 3: float64
func nanEncF(v int) float64 {
	switch v {
	case nanC1:
		return nanF1
	case nanC2:
		return nanF2
	case nanNZ:
		return negZ
	}
	return float64(v)
}

func nanDecF(x float64) int {
	switch {
	case x != x:
		switch math.Float64bits(x) {
		case 0x7FF8000000000001:
			return nanC1
		case 0x7FF8000000000002:
			return nanC2
		}
		return instJunk
	case x == 0:
		if math.Signbit(x) {
			return nanNZ
		}
		return 0
	case x != math.Trunc(x) || math.Abs(x) > 1<<52:
		return instJunk
	}
	return int(x)
}

// ---- inst 4: struct{X, Y float64}
type instXY struct{ X, Y float64 }

func nanEncXY(v int) instXY {
	switch v {
	case 0:
		return instXY{}
	case nanC1:
		return instXY{nanF1, 0}
	case nanC2:
		return instXY{1, nanF1}
	case nanNZ:
		return instXY{negZ, 0}
	}
	return instXY{float64(v), float64(v) / 2}
}

func nanDecXY(p instXY) int {
	switch {
	case p.X != p.X:
		if p.Y == 0 && !math.Signbit(p.Y) {
			return nanC1
		}
		return instJunk
	case p.Y != p.Y:
		if p.X == 1 {
			return nanC2
		}
		return instJunk
	case p.X == 0:
		if p.Y != 0 || math.Signbit(p.Y) {
			return instJunk
		}
		if math.Signbit(p.X) {
			return nanNZ
		}
		return 0
	}
	if p.X != math.Trunc(p.X) || math.Abs(p.X) > 1<<52 || p.Y != p.X/2 {
		return instJunk
	}
	return int(p.X)
}

// ---- inst 5: any
func nanEncAny(v int) any {
	switch v {
	case 0:
		return nil
	case nanC1:
		return nanF1
	case nanC2:
		return float32(math.NaN())
	case nanU1:
		return []int{1}
	case nanU2:
		return []int{2}
	case nanM1:
		return map[string]int{"k": 1}
	case nanNZ:
		panic("c05_nan: the code of negative zero is not used at T = any")
	}
	switch ((v % 3) + 3) % 3 {
	case 0:
		return v
	case 1:
		return instEncString(v)
	}
	return float64(v)
}

func nanDecAny(x any) int {
	switch y := x.(type) {
	case nil:
		return 0
	case int:
		if y == 0 || ((y%3)+3)%3 != 0 {
			return instJunk
		}
		return y
	case string:
		v := instDecString(y)
		if v == 0 || v == instJunk || ((v%3)+3)%3 != 1 {
			return instJunk
		}
		return v
	case float64:
		if y != y {
			if math.Float64bits(y) == 0x7FF8000000000001 {
				return nanC1
			}
			return instJunk
		}
		if y == 0 || y != math.Trunc(y) || math.Abs(y) > 1<<52 || ((int(y)%3)+3)%3 != 2 {
			return instJunk
		}
		return int(y)
	case float32:
		if y != y {
			return nanC2
		}
		return instJunk
	case []int:
		if len(y) == 1 && y[0] == 1 {
			return nanU1
		}
		if len(y) == 1 && y[0] == 2 {
			return nanU2
		}
		return instJunk
	case map[string]int:
		if len(y) == 1 && y["k"] == 1 {
			return nanM1
		}
		return instJunk
	}
	return instJunk
}

// nanCodeName renders a code for the replay lines.
func nanCodeName(inst, v int) string {
	if inst < 3 {
		return fmt.Sprint(v)
	}
	switch v {
	case nanC1:
		return "NaN"
	case nanC2:
		return "NaN'"
	case nanNZ:
		return "-0"
	case nanU1:
		return "[]int{1}"
	case nanU2:
		return "[]int{2}"
	case nanM1:
		return "map[k:1]"
	}
	return fmt.Sprint(v)
}

// dynamic-type class of an uncomparable code (0 = comparable)
func nanUncClass(v int) int {
	switch v {
	case nanU1, nanU2:
		return 1
	case nanM1:
		return 2
	}
	return 0
}

// nanCaseOK: the static rule that keeps Go's own `==` panic out of the streams.
// ops are (op, arg) records; addOp / searchOp are the codes of Enqueue|Push and
// Search.  A case is dropped when it searches for a value of an uncomparable
// dynamic type that it also stores (as t or by an add) anywhere in the case.
func nanCaseOK(t int, hasT bool, ops [][2]int, addOp, searchOp int) bool {
	var held, searched [3]bool
	if hasT {
		held[nanUncClass(t)] = true
	}
	for _, o := range ops {
		switch o[0] {
		case addOp:
			held[nanUncClass(o[1])] = true
		case searchOp:
			searched[nanUncClass(o[1])] = true
		}
	}
	return !(held[1] && searched[1]) && !(held[2] && searched[2])
}

// nanSanitize makes a random history obey nanCaseOK: for each uncomparable
// dynamic type that the case both stores and searches for, either the searches
// (-> NaN) or the stored values (-> the ordinary 3) are replaced, by a coin.
// Returns the (possibly replaced) first element.
func nanSanitize(g *Gen, t int, ops [][2]int, addOp, searchOp int) int {
	for k := 1; k <= 2; k++ {
		held, searched := nanUncClass(t) == k, false
		for _, o := range ops {
			if o[0] == addOp && nanUncClass(o[1]) == k {
				held = true
			}
			if o[0] == searchOp && nanUncClass(o[1]) == k {
				searched = true
			}
		}
		if !(held && searched) {
			continue
		}
		fixSearch := g.Rng.Intn(2) == 0
		for i := range ops {
			if nanUncClass(ops[i][1]) != k {
				continue
			}
			if fixSearch && ops[i][0] == searchOp {
				ops[i][1] = nanC1
			}
			if !fixSearch && ops[i][0] == addOp {
				ops[i][1] = 3
			}
		}
		if !fixSearch && nanUncClass(t) == k {
			t = 3
		}
	}
	if !nanCaseOK(t, true, ops, addOp, searchOp) {
		panic("c05_nan: nanSanitize left a forbidden comparison")
	}
	return t
}

// the values the random streams draw from, per instance
func nanVals(inst int) []int {
	if inst == 5 {
		return []int{0, 1, 2, 3, nanC1, nanC1, nanC2, nanU1, nanU2, nanM1}
	}
	return []int{0, 1, 2, 3, nanC1, nanC1, nanC2, nanNZ, nanNZ}
}

// the exhaustive alphabets: three values to add, three to search for
//
//	float64 / instXY:  add {1, NaN, -0}      search {1, NaN, 0}
//	any (a):           add {1, NaN, []int{1}} search {1, NaN, map}
//	any (b):           add {2, NaN', map}     search {2, []int{2}, 0}
func nanAlphaVals(inst, variant int) (add, search []int) {
	if inst == 5 {
		if variant == 0 {
			return []int{1, nanC1, nanU1}, []int{1, nanC1, nanM1}
		}
		return []int{2, nanC2, nanM1}, []int{2, nanU2, 0}
	}
	if variant == 0 {
		return []int{1, nanC1, nanNZ}, []int{1, nanC1, 0}
	}
	return []int{2, nanC2, nanC1}, []int{nanNZ, nanC2, 2}
}

// ---------------------------------------------------------------- C05

func genC05NaN(g *Gen) {
	for inst := 3; inst <= 5; inst++ {
		for variant := 0; variant <= 1; variant++ {
			add, search := nanAlphaVals(inst, variant)
			alpha := [][2]int{
				{c05Enqueue, add[0]}, {c05Enqueue, add[1]}, {c05Enqueue, add[2]},
				{c05Dequeue, 0}, {c05Peek, 0},
				{c05Search, search[0]}, {c05Search, search[1]}, {c05Search, search[2]},
				{c05Size, 0}, {c05Clear, 0},
			}
			bound := g.Pick(4, 5)
			if variant == 1 {
				bound = g.Pick(3, 4)
			}
			// the linked queue from an ordinary first element and from one that is
			// not equal to itself
			ts := []int{add[0], add[1]}
			seqsUpTo(len(alpha), bound, func(seq []int) {
				ops := make([][2]int, len(seq))
				for i, v := range seq {
					ops[i] = alpha[v]
				}
				c05Emit(g, "nan", 2*inst, 0, ops)
				for _, t := range ts {
					c05Emit(g, "nan", 2*inst+1, t, ops)
				}
			})
		}
		// random: length-400 histories in fill / over-drain / churn phases
		vals := nanVals(inst)
		val := func() int { return vals[g.Rng.Intn(len(vals))] }
		for c := 0; c < g.Pick(120, 1500); c++ {
			ops := c05RandomHistory(g, val)
			t := val()
			t = nanSanitize(g, t, ops, c05Enqueue, c05Search)
			c05Emit(g, "nan-random", 2*inst+c%2, t, ops)
		}
	}
	g.Exhaustive("nan")
}

// ---------------------------------------------------------------- C06

func genC06NaN(g *Gen) {
	for inst := 3; inst <= 5; inst++ {
		for variant := 0; variant <= 1; variant++ {
			add, search := nanAlphaVals(inst, variant)
			alpha := [][2]int{
				{c06Push, add[0]}, {c06Push, add[1]}, {c06Push, add[2]},
				{c06Pop, 0}, {c06Peek, 0},
				{c06Search, search[0]}, {c06Search, search[1]}, {c06Search, search[2]},
				{c06Size, 0},
			}
			bound := g.Pick(4, 5)
			if variant == 1 {
				bound = g.Pick(3, 4)
			}
			ts := []int{add[0], add[1]}
			seqsUpTo(len(alpha), bound, func(seq []int) {
				ops := make([][2]int, len(seq))
				for i, v := range seq {
					ops[i] = alpha[v]
				}
				c06Emit(g, "nan", 2*inst, 0, ops)
				for _, t := range ts {
					c06Emit(g, "nan", 2*inst+1, t, ops)
				}
			})
		}
		vals := nanVals(inst)
		val := func() int { return vals[g.Rng.Intn(len(vals))] }
		for c := 0; c < g.Pick(120, 1500); c++ {
			ops := c06RandomHistory(g, val)
			t := val()
			t = nanSanitize(g, t, ops, c06Push, c06Search)
			c06Emit(g, "nan-random", 2*inst+c%2, t, ops)
		}
	}
	g.Exhaustive("nan")
}
