package main

import (
	"fmt"
	"strings"
	"time"

	"github.com/esimov/gogu/stack"
)

// C06 wire (mirror of coq/theories/C06_Wire.v)
//
//	input    = cfg t (op arg)*
//	           cfg = impl + 2*inst: impl 0 = stack.New[T]() (t ignored), impl 1 = stack.NewLinked[T](t);
//	           inst 0: T = int, 1: T = string, 2: T = struct{K int; S string} (c05_instances.go:
//	           elements go through an injective codec int <-> T, the model ignores inst)
//	           op 1 Push arg | 2 Pop | 3 Peek | 4 Search arg | 5 Size
//	observed = result of every op, then the end of the case:
//	           Size (= n), min(n,4096) x Pop, Size, Pop, Size, Peek
//	           Push -> nothing, Pop -> item, Peek -> item, Search -> 0|1, Size -> n;
//	           a panic -> -777 0 and the case stops; a hang (10 s) -> -778 alone.
const (
	c06Push   = 1
	c06Pop    = 2
	c06Peek   = 3
	c06Search = 4
	c06Size   = 5
)

type c06Stack interface {
	Push(int)
	Pop() int
	Peek() int
	Search(int) bool
	Size() int
}

// the same containers at another element type, behind the int codec
type c06GStack[T comparable] interface {
	Push(T)
	Pop() T
	Peek() T
	Search(T) bool
	Size() int
}

type c06G[T comparable] struct {
	s   c06GStack[T]
	enc func(int) T
	dec func(T) int
}

func (a c06G[T]) Push(v int)        { a.s.Push(a.enc(v)) }
func (a c06G[T]) Pop() int          { return a.dec(a.s.Pop()) }
func (a c06G[T]) Peek() int         { return a.dec(a.s.Peek()) }
func (a c06G[T]) Search(v int) bool { return a.s.Search(a.enc(v)) }
func (a c06G[T]) Size() int         { return a.s.Size() }

func c06New(cfg, t int) c06Stack {
	impl, inst := cfg%2, cfg/2
	switch inst {
	case 1:
		if impl == 0 {
			return c06G[string]{stack.New[string](), instEncString, instDecString}
		}
		return c06G[string]{stack.NewLinked[string](instEncString(t)), instEncString, instDecString}
	case 2:
		if impl == 0 {
			return c06G[instKS]{stack.New[instKS](), instEncKS, instDecKS}
		}
		return c06G[instKS]{stack.NewLinked[instKS](instEncKS(t)), instEncKS, instDecKS}
	case 3:
		if impl == 0 {
			return c06G[float64]{stack.New[float64](), nanEncF, nanDecF}
		}
		return c06G[float64]{stack.NewLinked[float64](nanEncF(t)), nanEncF, nanDecF}
	case 4:
		if impl == 0 {
			return c06G[instXY]{stack.New[instXY](), nanEncXY, nanDecXY}
		}
		return c06G[instXY]{stack.NewLinked[instXY](nanEncXY(t)), nanEncXY, nanDecXY}
	case 5:
		if impl == 0 {
			return c06G[any]{stack.New[any](), nanEncAny, nanDecAny}
		}
		return c06G[any]{stack.NewLinked[any](nanEncAny(t)), nanEncAny, nanDecAny}
	}
	if impl == 0 {
		return stack.New[int]()
	}
	return stack.NewLinked[int](t)
}

func c06Apply(s c06Stack, op, arg int, out *[]int64) {
	switch op {
	case c06Push:
		s.Push(arg)
	case c06Pop:
		*out = append(*out, int64(s.Pop()))
	case c06Peek:
		*out = append(*out, int64(s.Peek()))
	case c06Search:
		*out = append(*out, b2i(s.Search(arg)))
	case c06Size:
		*out = append(*out, int64(s.Size()))
	}
}

func execC06(in []int64) []int64 {
	var out []int64
	body := func() {
		r := &R{w: in}
		cfg, t := r.Int(), r.Int()
		if cfg < 0 || cfg > 11 {
			cfg = ((cfg % 2) + 2) % 2 // the model answers wire_error; run something deterministic
		}
		s := c06New(cfg, t)
		for len(r.w) >= 2 {
			op, arg := r.Int(), r.Int()
			c06Apply(s, op, arg, &out)
		}
		n := s.Size()
		out = append(out, int64(n))
		if n > 4096 {
			n = 4096
		}
		for i := 0; i < n; i++ {
			c06Apply(s, c06Pop, 0, &out)
		}
		c06Apply(s, c06Size, 0, &out)
		c06Apply(s, c06Pop, 0, &out)
		c06Apply(s, c06Size, 0, &out)
		c06Apply(s, c06Peek, 0, &out)
	}
	panicked, hung := tryTimeout(10*time.Second, body)
	if hung {
		return []int64{-778}
	}
	if panicked {
		out = append(out, -777, 0)
	}
	return out
}

var c06LargeOps = largeOps{opAdd: c06Push, opRem: c06Pop, opPeek: c06Peek, opSearch: c06Search, opSize: c06Size}

// the exhaustive alphabet: index -> (op, arg)
var c06Alpha = [][2]int{
	{c06Push, 1}, {c06Push, 2}, {c06Push, 3},
	{c06Pop, 0}, {c06Peek, 0},
	{c06Search, 1}, {c06Search, 2}, {c06Search, 3},
	{c06Size, 0},
}

// c06Nontrivial: the history pops the stack empty (from a non-empty state) and
// pushes again afterwards.
func c06Nontrivial(size0 int, ops [][2]int) bool {
	size, emptied := size0, false
	for _, o := range ops {
		switch o[0] {
		case c06Push:
			if emptied {
				return true
			}
			size++
		case c06Pop:
			if size > 0 {
				size--
				if size == 0 {
					emptied = true
				}
			}
		}
	}
	return false
}

func c06Emit(g *Gen, stream string, cfg, t int, ops [][2]int) {
	size0 := 0
	if cfg%2 == 1 {
		size0 = 1
	}
	nt := c06Nontrivial(size0, ops)
	w := make([]int64, 0, 2+2*len(ops))
	w = append(w, int64(cfg), int64(t))
	for _, o := range ops {
		w = append(w, int64(o[0]), int64(o[1]))
	}
	g.Case(stream, nt, w)
	if cfg%2 == 0 {
		g.Count("impl.slice")
	} else {
		g.Count("impl.linked")
	}
	g.Count("inst." + instName(cfg/2))
	g.Count(largeLenBucket(len(ops)))
	if nt {
		g.Count("empty+refill")
	}
	size, emptyPop, maxSize := size0, 0, size0
	for _, o := range ops {
		switch o[0] {
		case c06Push:
			size++
			if size > maxSize {
				maxSize = size
			}
		case c06Pop:
			if size > 0 {
				size--
			} else {
				emptyPop++
			}
		}
	}
	if emptyPop > 0 {
		g.Count("has.pop-on-empty")
	}
	if size == 0 {
		g.Count("ends.empty")
	}
	if maxSize >= 3 {
		g.Count("reaches.depth>=3")
	}
}

// c06RandomHistory: length 400, phases that fill, empty (over-pop) and churn.
func c06RandomHistory(g *Gen, val func() int) [][2]int {
	var ops [][2]int
	for len(ops) < 400 {
		phase := g.Rng.Intn(4)
		plen := 1 + g.Rng.Intn(24)
		for i := 0; i < plen && len(ops) < 400; i++ {
			x := g.Rng.Intn(100)
			var o [2]int
			switch {
			case x < 12:
				o = [2]int{c06Peek, 0}
			case x < 24:
				o = [2]int{c06Search, val()}
			case x < 33:
				o = [2]int{c06Size, 0}
			default:
				push := false
				switch phase {
				case 0: // fill
					push = x < 85
				case 1, 2: // empty, overshooting
					push = x < 42
				default: // churn
					push = x < 67
				}
				if push {
					o = [2]int{c06Push, val()}
				} else {
					o = [2]int{c06Pop, 0}
				}
			}
			ops = append(ops, o)
		}
	}
	return ops
}

func genC06(g *Gen) {
	// 1. exhaustive: every sequence over the 9-op alphabet up to the bound,
	// shortest first, for both implementations (linked started at element 1)
	bound := g.Pick(5, 6)
	seqsUpTo(len(c06Alpha), bound, func(seq []int) {
		ops := make([][2]int, len(seq))
		for i, v := range seq {
			ops[i] = c06Alpha[v]
		}
		c06Emit(g, "exhaustive", 0, 0, ops)
		c06Emit(g, "exhaustive", 1, 1, ops)
	})
	g.Exhaustive("exhaustive")

	// 1b. deeper, over {Push 1, Push 2, Pop, Peek}: every sequence of length 6 to 8
	// (quick) / 7 to 9 (thorough; length 6 is covered above)
	{
		deep := [][2]int{{c06Push, 1}, {c06Push, 2}, {c06Pop, 0}, {c06Peek, 0}}
		for n := g.Pick(6, 7); n <= g.Pick(8, 9); n++ {
			seqsExact(len(deep), n, func(seq []int) {
				ops := make([][2]int, len(seq))
				for i, v := range seq {
					ops[i] = deep[v]
				}
				c06Emit(g, "exhaustive-deep", 0, 0, ops)
				c06Emit(g, "exhaustive-deep", 1, 1, ops)
			})
		}
		g.Exhaustive("exhaustive-deep")
	}

	// 2. seeded random: length 400, phases that fill, empty (over-pop) and
	// refill; values 1..5 and, rarely, the zero value
	val := func() int {
		if g.Rng.Intn(25) == 0 {
			return 0
		}
		return 1 + g.Rng.Intn(5)
	}
	nrand := g.Pick(400, 6000)
	for c := 0; c < nrand; c++ {
		ops := c06RandomHistory(g, val)
		c06Emit(g, "random", c%2, val(), ops)
	}

	// 2b. large: structured long histories (c05_large.go) for both implementations:
	// bulk grow-then-pop up to 1030 (thorough: 4000) elements, saw-tooth across the
	// powers of two up to 1024 (4096), push/pop windows at depth 1..4
	for cfg := 0; cfg <= 1; cfg++ {
		cfg := cfg
		limit := 0
		if cfg == 1 {
			// the linked stack's model is cubic in the size of a bulk history
			limit = g.Pick(300, 1030)
		}
		largePlans(g.Quick(), limit, func(name string, build func(b *largeBuilder)) {
			var b *largeBuilder
			if cfg == 0 {
				b = newLargeBuilder(false, c06LargeOps, nil, 1)
			} else {
				b = newLargeBuilder(false, c06LargeOps, []int{1}, 2)
			}
			build(b)
			c06Emit(g, "large", cfg, 1, b.ops)
			g.Count("large." + name)
			g.Count(largeBucket(b.maxHeld))
			if b.removed >= 128 {
				g.Count("large.removals>=128")
			}
		})
	}

	// 2c. instances: the same kinds of histories on Stack[T] / LStack[T] for
	// T = string and T = struct{K int; S string} (c05_instances.go): every
	// sequence over the 9-op alphabet up to length 4 (thorough 5), random
	// length-400 histories, and the long structured histories up to 130 elements
	for _, inst := range instOther {
		for impl := 0; impl <= 1; impl++ {
			cfg := impl + 2*inst
			seqsUpTo(len(c06Alpha), g.Pick(4, 5), func(seq []int) {
				ops := make([][2]int, len(seq))
				for i, v := range seq {
					ops[i] = c06Alpha[v]
				}
				c06Emit(g, "instances", cfg, 1, ops)
			})
			for c := 0; c < g.Pick(150, 1500); c++ {
				ops := c06RandomHistory(g, val)
				c06Emit(g, "instances", cfg, val(), ops)
			}
			largePlans(g.Quick(), 130, func(name string, build func(b *largeBuilder)) {
				var b *largeBuilder
				if impl == 0 {
					b = newLargeBuilder(false, c06LargeOps, nil, 1)
				} else {
					b = newLargeBuilder(false, c06LargeOps, []int{1}, 2)
				}
				build(b)
				c06Emit(g, "instances", cfg, 1, b.ops)
			})
		}
	}

	// 2d. nan: element types whose == is not the identity of values (c05_nan.go)
	genC06NaN(g)

	// 3. "malformed" use: reads and pops on an empty / emptied stack, extreme
	// values, searching for the zero value
	extremes := []int{0, -1, 1 << 40, -(1 << 40)}
	for cfg := 0; cfg <= 5; cfg++ {
		for _, t := range extremes {
			for k := 0; k <= 3; k++ {
				var ops [][2]int
				for i := 0; i < k; i++ {
					ops = append(ops, [2]int{c06Push, extremes[(i+1)%len(extremes)]})
				}
				for i := 0; i < k+cfg%2; i++ {
					ops = append(ops, [2]int{c06Pop, 0})
				}
				for rep := 0; rep < 3; rep++ {
					ops = append(ops, [2]int{c06Pop, 0}, [2]int{c06Peek, 0}, [2]int{c06Search, 0},
						[2]int{c06Search, t}, [2]int{c06Size, 0})
				}
				ops = append(ops, [2]int{c06Push, t}, [2]int{c06Peek, 0}, [2]int{c06Search, t},
					[2]int{c06Search, 0}, [2]int{c06Size, 0})
				c06Emit(g, "malformed", cfg, t, ops)
			}
		}
	}
}

func c06OpName(op, arg int) string { return c06OpNameI(0, op, arg) }

func c06OpNameI(inst, op, arg int) string {
	switch op {
	case c06Push:
		return fmt.Sprintf("Push(%s)", nanCodeName(inst, arg))
	case c06Pop:
		return "Pop()"
	case c06Peek:
		return "Peek()"
	case c06Search:
		return fmt.Sprintf("Search(%s)", nanCodeName(inst, arg))
	case c06Size:
		return "Size()"
	}
	return fmt.Sprintf("?%d(%d)", op, arg)
}

func describeC06(in []int64) string {
	if len(in) < 2 {
		return "malformed"
	}
	var sb strings.Builder
	impl, inst := int(in[0])%2, int(in[0])/2
	if impl == 0 {
		fmt.Fprintf(&sb, "stack.New[%s]()", instName(inst))
	} else {
		fmt.Fprintf(&sb, "stack.NewLinked[%s](%s)", instName(inst), nanCodeName(inst, int(in[1])))
	}
	if inst >= 3 {
		sb.WriteString(" [integers are codes of values, c05_nan.go]")
	} else if inst != 0 {
		sb.WriteString(" [elements through the int codec of c05_instances.go]")
	}
	rest := in[2:]
	for i := 0; i+1 < len(rest) && i < 80; i += 2 {
		sb.WriteString("; ")
		sb.WriteString(c06OpNameI(inst, int(rest[i]), int(rest[i+1])))
	}
	if len(rest) > 80 {
		fmt.Fprintf(&sb, "; ... (%d ops)", len(rest)/2)
	}
	sb.WriteString("; then Size, pop all, Size, Pop, Size, Peek")
	return sb.String()
}

func init() {
	register(&Prop{
		ID: "C06",
		Rule: "exhaustive: every op sequence up to length 5 (quick) / 6 (thorough) over {Push 1|2|3, Pop, Peek, Search 1|2|3, Size} " +
			"for stack.New and for stack.NewLinked(1), result of every op observed, then Size + pop-all + Pop/Size/Peek on the emptied stack; " +
			"exhaustive-deep: every sequence of length 6 to 8 (thorough: 7 to 9) over {Push 1|2, Pop, Peek}; " +
			"random: length-400 histories in fill / over-pop / churn phases over values 0..5; " +
			"instances: for T = string and T = struct{K int; S string} (elements through an injective int codec whose strings are built afresh at run time for every use, zero value = 0) and both implementations: every sequence up to length 4 (thorough 5) over the same alphabet, 150 (1500) random length-400 histories each, long structured histories up to 130 elements, and the malformed stream; " +
			"nan: element types whose == is not the identity of values, T = float64, struct{X, Y float64} and any (integers are codes: NaN and a second NaN-like value are not equal to themselves, -0 is a second value equal to the zero value, []int{1}, []int{2}, map are values of uncomparable dynamic types inside an any; observations canonicalised by NaN payload bits / sign bit / slice content), both implementations, the linked one from an ordinary first element and from a NaN: every sequence up to length 4 (thorough 5) over {Push 1|NaN|-0 (any: []int{1}), Pop, Peek, Search 1|NaN|0 (any: map), Size} and up to length 3 (4) over a second alphabet with the other NaN and the other uncomparable type; nan-random: 120 (1500) length-400 histories per element type over {0,1,2,3,NaN,NaN',-0 or the three uncomparable values}; a case never both stores and searches for values of one uncomparable dynamic type (Go's == itself panics there); " +
			"large: structured long histories over distinct increasing values for both implementations, Peek/Size/Search observed at several points and a pop-all at the end: " +
			"bulk grow to N in {40,130,300,1030} (thorough also 2050, 4000; linked stack: N <= 300 and saw-tooth up to 256 in the quick tier, its node-heap model being cubic in N) then pop 3N/4+2, N or N+3; saw-tooth p+1 -> p/4-1 over the powers of two p up to 1024 (4096) with thrashing across each capacity boundary; " +
			"push/pop windows at depth 1..4 repeated 130, 300, 1100 (5000) times; malformed: reads and pops on empty and emptied stacks with extreme values. " +
			"Non-trivial = the history pops the stack empty (from a non-empty state) and pushes again afterwards.",
		Exec:     execC06,
		Gen:      genC06,
		Describe: describeC06,
	})
}
