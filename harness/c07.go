package main

import (
	"fmt"
	"strings"

	"github.com/esimov/gogu/cache"
)

// C07 wire (mirror of coq/theories/C07_Wire.v)
//
//	input    = cap :: nkeys :: concat [code; k; v]
//	           code 0 Add(k,v) 1 Get(k) 2 GetOldest 3 GetYoungest 4 Remove(k)
//	                5 RemoveOldest 6 RemoveYoungest 7 Flush
//	observed = [1 1]                       NewLRU(cap) returned an error
//	         | 0 :: per-op ++ drain ++ gets ++ [Count()]
//	  per-op : Add/GetOldest/GetYoungest/RemoveOldest/RemoveYoungest [key value ok Count()]
//	           Get/Remove [value ok Count()]        Flush [Count()]
//	  drain  : RemoveOldest until it reports false, at most #ops+2 calls,
//	           each [key value ok Count()]; [-1] if the bound was hit
//	  gets   : Get(k) for k = 0..nkeys-1, each [value ok]
//	a panic inside the implementation ends the observation with -777.
const (
	c07Add = iota
	c07Get
	c07GetOldest
	c07GetYoungest
	c07Remove
	c07RemoveOldest
	c07RemoveYoungest
	c07Flush
)

var c07Names = []string{"Add", "Get", "GetOldest", "GetYoungest", "Remove", "RemoveOldest", "RemoveYoungest", "Flush"}

func execC07(in []int64) []int64 {
	r := &R{w: in}
	capacity, nkeys := r.Int(), r.Int()
	ops := r.Rest()
	c, err := cache.NewLRU[int, int](capacity)
	if err != nil {
		return resErr(1)
	}
	out := []int64{0}
	kvb := func(k, v int, ok bool) { out = append(out, int64(k), int64(v), b2i(ok), int64(c.Count())) }
	vb := func(v int, ok bool) { out = append(out, int64(v), b2i(ok), int64(c.Count())) }
	panicked := try(func() {
		nops := len(ops) / 3
		for i := 0; i+2 < len(ops); i += 3 {
			k, v := int(ops[i+1]), int(ops[i+2])
			switch ops[i] {
			case c07Add:
				kvb(c.Add(k, v))
			case c07Get:
				vb(c.Get(k))
			case c07GetOldest:
				kvb(c.GetOldest())
			case c07GetYoungest:
				kvb(c.GetYoungest())
			case c07Remove:
				vb(c.Remove(k))
			case c07RemoveOldest:
				kvb(c.RemoveOldest())
			case c07RemoveYoungest:
				kvb(c.RemoveYoungest())
			case c07Flush:
				c.Flush()
				out = append(out, int64(c.Count()))
			}
		}
		// full drain from the old end
		done := false
		for i := 0; i < nops+2; i++ {
			k, v, ok := c.RemoveOldest()
			kvb(k, v, ok)
			if !ok {
				done = true
				break
			}
		}
		if !done {
			out = append(out, -1)
		}
		for k := 0; k < nkeys; k++ {
			v, ok := c.Get(k)
			out = append(out, int64(v), b2i(ok))
		}
		out = append(out, int64(c.Count()))
	})
	if panicked {
		out = append(out, -777)
	}
	return out
}

func describeC07(in []int64) string {
	if len(in) < 2 {
		return "malformed"
	}
	var sb strings.Builder
	fmt.Fprintf(&sb, "NewLRU(%d)", in[0])
	for i := 2; i+2 < len(in); i += 3 {
		code := in[i]
		name := "?"
		if code >= 0 && int(code) < len(c07Names) {
			name = c07Names[code]
		}
		switch code {
		case c07Add:
			fmt.Fprintf(&sb, "; Add(%d,%d)", in[i+1], in[i+2])
		case c07Get, c07Remove:
			fmt.Fprintf(&sb, "; %s(%d)", name, in[i+1])
		default:
			fmt.Fprintf(&sb, "; %s()", name)
		}
	}
	fmt.Fprintf(&sb, "; drain by RemoveOldest; Get(0..%d); Count", in[1]-1)
	return sb.String()
}

// c07Shadow is a throw-away recency list used ONLY to classify generated cases
// (non-triviality, distribution counters) and to steer the random generator
// towards hits; it takes no part in judging.
type c07Shadow struct {
	cap                  int
	keys                 []int // most recent first
	evictions            int
	reorderThenEvict     bool // an eviction happened after a recency-changing Get/GetOldest hit
	reorders             int
	hitFull, hitEmpty    bool
	removeYoungestNonTop bool // RemoveYoungest on a cache with >= 2 entries
}

func (s *c07Shadow) idx(k int) int {
	for i, x := range s.keys {
		if x == k {
			return i
		}
	}
	return -1
}
func (s *c07Shadow) touch(i int) {
	k := s.keys[i]
	copy(s.keys[1:i+1], s.keys[:i])
	s.keys[0] = k
}
func (s *c07Shadow) apply(code, k int) {
	switch code {
	case c07Add:
		if i := s.idx(k); i >= 0 {
			s.touch(i)
		} else {
			s.keys = append([]int{k}, s.keys...)
			if len(s.keys) > s.cap {
				s.keys = s.keys[:len(s.keys)-1]
				s.evictions++
				if s.reorders > 0 {
					s.reorderThenEvict = true
				}
			}
		}
	case c07Get:
		if i := s.idx(k); i > 0 {
			s.touch(i)
			s.reorders++
		}
	case c07GetOldest:
		if n := len(s.keys); n > 1 {
			s.touch(n - 1)
			s.reorders++
		}
	case c07Remove:
		if i := s.idx(k); i >= 0 {
			s.keys = append(s.keys[:i], s.keys[i+1:]...)
		}
	case c07RemoveOldest:
		if n := len(s.keys); n > 0 {
			s.keys = s.keys[:n-1]
		}
	case c07RemoveYoungest:
		if n := len(s.keys); n > 0 {
			if n > 1 {
				s.removeYoungestNonTop = true
			}
			s.keys = s.keys[1:]
		}
	case c07Flush:
		s.keys = s.keys[:0]
	}
	if len(s.keys) == s.cap {
		s.hitFull = true
	}
	if len(s.keys) == 0 {
		s.hitEmpty = true
	}
}

type c07Op struct{ code, k int }

func c07Emit(g *Gen, stream string, capacity, nkeys int, ops []c07Op) {
	w := &W{}
	w.Int(capacity).Int(nkeys)
	sh := &c07Shadow{cap: capacity}
	for i, o := range ops {
		v := 0
		if o.code == c07Add {
			v = 101 + i // distinct per Add, never the zero value
		}
		w.Int(o.code).Int(o.k).Int(v)
		if capacity >= 1 {
			sh.apply(o.code, o.k)
		}
		g.Count("op:" + c07Names[o.code])
	}
	g.Count(fmt.Sprintf("%s:cap=%d", stream, capacity))
	if stream != "random" {
		g.Count(fmt.Sprintf("%s:len=%d", stream, len(ops)))
	}
	if sh.evictions > 0 {
		g.Count("with-eviction")
	}
	if sh.reorderThenEvict {
		g.Count("with-reorder-then-eviction")
	}
	if sh.removeYoungestNonTop {
		g.Count("with-RemoveYoungest-on>=2")
	}
	if sh.hitFull {
		g.Count("reaches-full")
	}
	if capacity <= 0 {
		g.Count("rejected-capacity")
	}
	g.Case(stream, sh.reorderThenEvict, w.Out())
}

// c07Canonical enumerates every op sequence prefix ++ (n further calls) over
// keys 0..nk-1 in which keys are numbered in the order of their first use (the
// code is generic in K: any other sequence is a renaming of one of these).
// The prefix must itself be numbered that way.
func c07Canonical(prefix []c07Op, n, nk int, fn func(ops []c07Op)) {
	ops := make([]c07Op, len(prefix)+n)
	copy(ops, prefix)
	used0 := 0
	for _, o := range prefix {
		if (o.code == c07Add || o.code == c07Get || o.code == c07Remove) && o.k >= used0 {
			used0 = o.k + 1
		}
	}
	var rec func(i, used int)
	rec = func(i, used int) {
		if i == len(ops) {
			fn(ops)
			return
		}
		for code := 0; code < 8; code++ {
			if code == c07Add || code == c07Get || code == c07Remove {
				top := used
				if top >= nk {
					top = nk - 1
				}
				for k := 0; k <= top; k++ {
					ops[i] = c07Op{code, k}
					nu := used
					if k == used {
						nu++
					}
					rec(i+1, nu)
				}
			} else {
				ops[i] = c07Op{code, 0}
				rec(i+1, used)
			}
		}
	}
	rec(len(prefix), used0)
}

// c07Full enumerates every op sequence of length exactly n over the full
// alphabet (3 keyed ops x nk keys + 5 key-less ops), no symmetry reduction.
func c07Full(n, nk int, fn func(ops []c07Op)) {
	alpha := []c07Op{}
	for code := 0; code < 8; code++ {
		if code == c07Add || code == c07Get || code == c07Remove {
			for k := 0; k < nk; k++ {
				alpha = append(alpha, c07Op{code, k})
			}
		} else {
			alpha = append(alpha, c07Op{code, 0})
		}
	}
	seqsExact(len(alpha), n, func(seq []int) {
		ops := make([]c07Op, n)
		for i, a := range seq {
			ops[i] = alpha[a]
		}
		fn(ops)
	})
}

func genC07(g *Gen) {
	const nk = 5
	// rejected capacities
	for _, capacity := range []int{0, -1, -7} {
		c07Emit(g, "malformed", capacity, nk, nil)
		c07Emit(g, "malformed", capacity, nk, []c07Op{{c07Add, 1}, {c07Get, 1}})
	}
	// exhaustive 1: the full alphabet, no symmetry reduction
	fullLen := g.Pick(3, 4)
	for n := 0; n <= fullLen; n++ {
		for capacity := 1; capacity <= 4; capacity++ {
			c07Full(n, nk, func(ops []c07Op) { c07Emit(g, "exhaustive", capacity, nk, ops) })
		}
	}
	// exhaustive 2: keys numbered by first use
	canLen := 5
	for n := fullLen + 1; n <= canLen; n++ {
		for capacity := 1; capacity <= 4; capacity++ {
			c07Canonical(nil, n, nk, func(ops []c07Op) { c07Emit(g, "exhaustive", capacity, nk, ops) })
		}
	}
	g.Exhaustive("exhaustive")
	if g.Quick() {
		// every 4-sequence from the two-entry cache (length 6)
		for capacity := 1; capacity <= 4; capacity++ {
			c07Canonical([]c07Op{{c07Add, 0}, {c07Add, 1}}, 4, nk, func(ops []c07Op) { c07Emit(g, "exhaustive-from-2", capacity, nk, ops) })
		}
		g.Exhaustive("exhaustive-from-2")
	} else {
		// length 6, first call an Add (any other first call meets a fresh empty
		// cache and is covered, followed by every 5-sequence, above)
		for capacity := 1; capacity <= 4; capacity++ {
			c07Canonical([]c07Op{{c07Add, 0}}, 5, nk, func(ops []c07Op) { c07Emit(g, "exhaustive6", capacity, nk, ops) })
		}
		g.Exhaustive("exhaustive6")
		// every 4-sequence from the three-entry cache (length 7)
		for capacity := 1; capacity <= 4; capacity++ {
			c07Canonical([]c07Op{{c07Add, 0}, {c07Add, 1}, {c07Add, 2}}, 4, nk, func(ops []c07Op) { c07Emit(g, "exhaustive-from-3", capacity, nk, ops) })
		}
		g.Exhaustive("exhaustive-from-3")
	}
	// seeded random: long histories, larger capacities and key ranges
	nrand := g.Pick(1500, 15000)
	for i := 0; i < nrand; i++ {
		capacity := 1 + g.Rng.Intn(16)
		nkeys := 25
		keyRange := capacity + 1 + g.Rng.Intn(nkeys-capacity) // capacity+1 .. 25
		n := 300
		if i%10 == 0 {
			n = 20 + g.Rng.Intn(60)
		}
		ops := make([]c07Op, n)
		// op mix: per-case weights so that some cases are add-heavy, others remove-heavy
		wAdd := 30 + g.Rng.Intn(35)
		wGet := 10 + g.Rng.Intn(25)
		for j := range ops {
			x := g.Rng.Intn(100)
			k := g.Rng.Intn(keyRange)
			switch {
			case x < wAdd:
				ops[j] = c07Op{c07Add, k}
			case x < wAdd+wGet:
				ops[j] = c07Op{c07Get, k}
			default:
				rest := []int{c07GetOldest, c07GetOldest, c07GetOldest, c07GetYoungest, c07GetYoungest, c07Remove, c07RemoveOldest, c07RemoveYoungest}
				if g.Rng.Intn(40) == 0 {
					ops[j] = c07Op{c07Flush, 0}
				} else {
					ops[j] = c07Op{rest[g.Rng.Intn(len(rest))], k}
					if ops[j].code != c07Remove {
						ops[j].k = 0
					}
				}
			}
		}
		c07Emit(g, "random", capacity, nkeys, ops)
	}
	// malformed / unusual: negative and huge keys, zero key, operations on a never-filled cache
	for i := 0; i < g.Pick(200, 2000); i++ {
		capacity := 1 + g.Rng.Intn(3)
		pool := []int{0, -1, -5, 1 << 40, -(1 << 40), 7, 3}
		n := 1 + g.Rng.Intn(12)
		ops := make([]c07Op, n)
		for j := range ops {
			code := g.Rng.Intn(8)
			ops[j] = c07Op{code, 0}
			if code == c07Add || code == c07Get || code == c07Remove {
				ops[j].k = pool[g.Rng.Intn(len(pool))]
			}
		}
		c07Emit(g, "malformed", capacity, 8, ops)
	}
}

func init() {
	register(&Prop{
		ID: "C07",
		Rule: "capacities 1..4 x (every op sequence of length <= 3 (thorough 4) over the 20 calls {Add,Get,Remove}x keys 0..4 + 5 key-less calls, " +
			"then every sequence up to length 5 with keys numbered by first use, and every 4-sequence after Add(0);Add(1) (length 6); " +
			"thorough instead adds every such sequence of length 6 that starts with an Add and every 4-sequence after Add(0);Add(1);Add(2) (length 7)), " +
			"values distinct per Add; observed: every return value, Count() after every call, a full RemoveOldest drain, Get of every key, final Count(); " +
			"random: 300-call histories, capacity 1..16, keys 0..24; malformed: capacities 0,-1,-7 and odd keys. " +
			"non-trivial = at least one eviction preceded by a Get/GetOldest hit that changed the recency order",
		Exec:     execC07,
		Gen:      genC07,
		Describe: describeC07,
	})
}
