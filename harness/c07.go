package main

import (
	"fmt"
	"os"
	"strconv"
	"strings"
	"unsafe"

	"github.com/esimov/gogu/cache"
)

// C07 wire (mirror of coq/theories/C07_Wire.v)
//
//	input    = cap :: nkeys :: concat [code; k; v]
//	           code 0 Add(k,v) 1 Get(k) 2 GetOldest 3 GetYoungest 4 Remove(k)
//	                5 RemoveOldest 6 RemoveYoungest 7 Flush
//	observed = [1 1]                       NewLRU(cap) returned an error
//	         | 0 :: per-op ++ drain ++ gets ++ [Count()]
//	  per-op : Add/GetOldest/GetYoungest/RemoveOldest/RemoveYoungest [key value ok Count()]
//	           Get/Remove [value ok Count()]        Flush [Count()]
//	  drain  : RemoveOldest until it reports false, at most #ops+2 calls,
//	           each [key value ok Count()]; [-1] if the bound was hit
//	  gets   : Get(k) for k = 0..nkeys-1, each [value ok]
//	a panic inside the implementation ends the observation with -777.
const (
	c07Add = iota
	c07Get
	c07GetOldest
	c07GetYoungest
	c07Remove
	c07RemoveOldest
	c07RemoveYoungest
	c07Flush
)

var c07Names = []string{"Add", "Get", "GetOldest", "GetYoungest", "Remove", "RemoveOldest", "RemoveYoungest", "Flush"}

// Instantiations.  The wire and both model layers speak integers; the SAME wire
// history is also run on LRUCache[string, string] and LRUCache[c07SK, string]
// through an injective codec int -> K / int -> V, and the observation is
// decoded back to integers, so nothing on the model side changes.  The Go side
// picks the instantiation from the nkeys word of the wire (to the model merely
// the number of final lookups): nkeys = 6 -> string keys, nkeys = 7 -> struct
// keys, anything else -> int (VERIF_C07_INSTANCE=int|string|struct overrides).
// A failing case therefore replays and shrinks on the instantiation it failed on.
//
//	string key   k -> "k:" + decimal(k)                 zero value ""        -> 0
//	struct key   k -> c07SK{K: k % 2, S: "s" + decimal(k / 2)}  (neither field
//	             alone determines the key)              zero value c07SK{}   -> 0
//	value        v -> "v=" + decimal(v)                 zero value ""        -> 0
//
// Every string is BUILT AT RUN TIME for every single use (c07Fresh: bytes
// appended to a new buffer, then converted, always >= 2 bytes so that the
// runtime's table of one-byte strings is never used): two equal keys never
// share a backing array, so an implementation that compares keys or values by
// address / raw memory instead of by == behaves differently here.  A string
// the codec cannot parse decodes to -888888.
type c07SK struct {
	K int
	S string
}

const (
	c07InstInt = iota
	c07InstString
	c07InstStruct
)

var c07InstNames = []string{"int", "string", "struct", "float64", "any", "fstruct"}

// nkeys words that select an instantiation
const (
	c07NkString = 6
	c07NkStruct = 7
)

func c07Fresh(prefix string, n int) string {
	b := make([]byte, 0, 24)
	b = append(b, prefix...)
	b = strconv.AppendInt(b, int64(n), 10)
	return string(b)
}

func c07Unfresh(prefix, s string) (int, bool) {
	if s == "" {
		return 0, true
	}
	if !strings.HasPrefix(s, prefix) {
		return -888888, false
	}
	n, err := strconv.ParseInt(s[len(prefix):], 10, 64)
	if err != nil {
		return -888888, false
	}
	return int(n), true
}

type c07Codec[K comparable, V any] struct {
	encK func(int) K
	decK func(K) int
	encV func(int) V
	decV func(V) int
}

func c07IntCodec() c07Codec[int, int] {
	id := func(x int) int { return x }
	return c07Codec[int, int]{id, id, id, id}
}

func c07DecStr(prefix string) func(string) int {
	return func(s string) int { n, _ := c07Unfresh(prefix, s); return n }
}

func c07StringCodec() c07Codec[string, string] {
	return c07Codec[string, string]{
		encK: func(k int) string { return c07Fresh("k:", k) },
		decK: c07DecStr("k:"),
		encV: func(v int) string { return c07Fresh("v=", v) },
		decV: c07DecStr("v="),
	}
}

func c07StructCodec() c07Codec[c07SK, string] {
	return c07Codec[c07SK, string]{
		encK: func(k int) c07SK { return c07SK{K: k % 2, S: c07Fresh("s", k/2)} },
		decK: func(x c07SK) int {
			if x == (c07SK{}) {
				return 0
			}
			h, ok := c07Unfresh("s", x.S)
			if !ok || x.S == "" || x.K < -1 || x.K > 1 {
				return -888888
			}
			return 2*h + x.K
		},
		encV: func(v int) string { return c07Fresh("v=", v) },
		decV: c07DecStr("v="),
	}
}

func c07Instance(nkeys int) int {
	switch os.Getenv("VERIF_C07_INSTANCE") {
	case "int":
		return c07InstInt
	case "string":
		return c07InstString
	case "struct":
		return c07InstStruct
	case "float64":
		return c07InstFloat
	case "any":
		return c07InstAny
	case "fstruct":
		return c07InstFStruct
	}
	switch nkeys {
	case c07NkString:
		return c07InstString
	case c07NkStruct:
		return c07InstStruct
	case c07NkFloat: // key types with irreflexive keys (NaN): c07_nan.go
		return c07InstFloat
	case c07NkAny:
		return c07InstAny
	case c07NkFStruct:
		return c07InstFStruct
	}
	return c07InstInt
}

func execC07(in []int64) []int64 {
	nkeys := 0
	if len(in) >= 2 {
		nkeys = int(in[1])
	}
	switch c07Instance(nkeys) {
	case c07InstString:
		return runC07(in, c07StringCodec())
	case c07InstStruct:
		return runC07(in, c07StructCodec())
	case c07InstFloat:
		return runC07(in, c07FloatCodec())
	case c07InstAny:
		return runC07(in, c07AnyCodec())
	case c07InstFStruct:
		return runC07(in, c07FStructCodec())
	}
	return runC07(in, c07IntCodec())
}

func runC07[K comparable, V any](in []int64, cd c07Codec[K, V]) []int64 {
	r := &R{w: in}
	capacity, nkeys := r.Int(), r.Int()
	ops := r.Rest()
	c, err := cache.NewLRU[K, V](capacity)
	if err != nil {
		return resErr(1)
	}
	out := []int64{0}
	kvb := func(k K, v V, ok bool) {
		out = append(out, int64(cd.decK(k)), int64(cd.decV(v)), b2i(ok), int64(c.Count()))
	}
	vb := func(v V, ok bool) { out = append(out, int64(cd.decV(v)), b2i(ok), int64(c.Count())) }
	panicked := try(func() {
		nops := len(ops) / 3
		for i := 0; i+2 < len(ops); i += 3 {
			k, v := int(ops[i+1]), int(ops[i+2])
			switch ops[i] {
			case c07Add:
				kvb(c.Add(cd.encK(k), cd.encV(v)))
			case c07Get:
				vb(c.Get(cd.encK(k)))
			case c07GetOldest:
				kvb(c.GetOldest())
			case c07GetYoungest:
				kvb(c.GetYoungest())
			case c07Remove:
				vb(c.Remove(cd.encK(k)))
			case c07RemoveOldest:
				kvb(c.RemoveOldest())
			case c07RemoveYoungest:
				kvb(c.RemoveYoungest())
			case c07Flush:
				c.Flush()
				out = append(out, int64(c.Count()))
			}
		}
		// full drain from the old end
		done := false
		for i := 0; i < nops+2; i++ {
			k, v, ok := c.RemoveOldest()
			kvb(k, v, ok)
			if !ok {
				done = true
				break
			}
		}
		if !done {
			out = append(out, -1)
		}
		for k := 0; k < nkeys; k++ {
			v, ok := c.Get(cd.encK(k))
			out = append(out, int64(cd.decV(v)), b2i(ok))
		}
		out = append(out, int64(c.Count()))
	})
	if panicked {
		out = append(out, -777)
	}
	return out
}

func describeC07(in []int64) string {
	if len(in) < 2 {
		return "malformed"
	}
	var sb strings.Builder
	inst := c07Instance(int(in[1]))
	if inst != c07InstInt {
		fmt.Fprintf(&sb, "[%s keys] ", c07InstNames[inst])
	}
	fmt.Fprintf(&sb, "NewLRU(%d)", in[0])
	for i := 2; i+2 < len(in); i += 3 {
		code := in[i]
		name := "?"
		if code >= 0 && int(code) < len(c07Names) {
			name = c07Names[code]
		}
		switch code {
		case c07Add:
			fmt.Fprintf(&sb, "; Add(%s,%d)", c07KeyText(inst, in[i+1]), in[i+2])
		case c07Get, c07Remove:
			fmt.Fprintf(&sb, "; %s(%s)", name, c07KeyText(inst, in[i+1]))
		default:
			fmt.Fprintf(&sb, "; %s()", name)
		}
	}
	fmt.Fprintf(&sb, "; drain by RemoveOldest; Get(0..%d); Count", in[1]-1)
	return sb.String()
}

// c07Shadow is a throw-away recency list used ONLY to classify generated cases
// (non-triviality, distribution counters) and to steer the random generator
// towards hits; it takes no part in judging.  With nan set, the key codes
// <= c07NaNTop are NaN keys: never found, every Add a new entry; leaked counts
// the map entries such entries leave behind when they are evicted or removed.
type c07Shadow struct {
	cap                  int
	nan                  bool
	leaked               int
	nanAdds, nanEvicted  int
	leakOverCap          bool
	keys                 []int // most recent first
	evictions            int
	reorderThenEvict     bool // an eviction happened after a recency-changing Get/GetOldest hit
	reorders             int
	hitFull, hitEmpty    bool
	removeYoungestNonTop bool // RemoveYoungest on a cache with >= 2 entries
}

func (s *c07Shadow) gone(k int) { // the entry with key k leaves the list
	if s.nan && c07IsNaNCode(k) {
		s.leaked++
	}
}
func (s *c07Shadow) idx(k int) int {
	if s.nan && c07IsNaNCode(k) {
		return -1
	}
	for i, x := range s.keys {
		if x == k {
			return i
		}
	}
	return -1
}
func (s *c07Shadow) touch(i int) {
	k := s.keys[i]
	copy(s.keys[1:i+1], s.keys[:i])
	s.keys[0] = k
}
func (s *c07Shadow) apply(code, k int) {
	switch code {
	case c07Add:
		if i := s.idx(k); i >= 0 {
			s.touch(i)
		} else {
			s.keys = append([]int{k}, s.keys...)
			if s.nan && c07IsNaNCode(k) {
				s.nanAdds++
			}
			if len(s.keys) > s.cap {
				if ek := s.keys[len(s.keys)-1]; s.nan && c07IsNaNCode(ek) {
					s.nanEvicted++
				}
				s.gone(s.keys[len(s.keys)-1])
				s.keys = s.keys[:len(s.keys)-1]
				s.evictions++
				if s.reorders > 0 {
					s.reorderThenEvict = true
				}
			}
		}
	case c07Get:
		if i := s.idx(k); i > 0 {
			s.touch(i)
			s.reorders++
		}
	case c07GetOldest:
		if n := len(s.keys); n > 1 {
			s.touch(n - 1)
			s.reorders++
		}
	case c07Remove:
		if i := s.idx(k); i >= 0 {
			s.keys = append(s.keys[:i], s.keys[i+1:]...)
		}
	case c07RemoveOldest:
		if n := len(s.keys); n > 0 {
			s.gone(s.keys[n-1])
			s.keys = s.keys[:n-1]
		}
	case c07RemoveYoungest:
		if n := len(s.keys); n > 0 {
			if n > 1 {
				s.removeYoungestNonTop = true
			}
			s.gone(s.keys[0])
			s.keys = s.keys[1:]
		}
	case c07Flush:
		s.keys = s.keys[:0]
		s.leaked = 0
	}
	if s.leaked > s.cap {
		s.leakOverCap = true
	}
	if len(s.keys) == s.cap {
		s.hitFull = true
	}
	if len(s.keys) == 0 {
		s.hitEmpty = true
	}
}

type c07Op struct{ code, k int }

func c07Emit(g *Gen, stream string, capacity, nkeys int, ops []c07Op) {
	w := &W{}
	w.Int(capacity).Int(nkeys)
	sh := &c07Shadow{cap: capacity, nan: c07NaNInst(c07Instance(nkeys))}
	for i, o := range ops {
		v := 0
		if o.code == c07Add {
			v = 101 + i // distinct per Add, never the zero value
		}
		w.Int(o.code).Int(o.k).Int(v)
		if capacity >= 1 {
			sh.apply(o.code, o.k)
		}
		g.Count("op:" + c07Names[o.code])
	}
	g.Count(fmt.Sprintf("%s:cap=%d", stream, capacity))
	if inst := c07Instance(nkeys); inst != c07InstInt {
		g.Count(stream + ":type=" + c07InstNames[inst])
	}
	switch stream {
	case "random", "instances-random", "nan-random":
	case "large", "instances-long", "nan-long":
		g.Count(stream + ":" + c07Bucket("len", len(ops)))
		g.Count(stream + ":" + c07Bucket("evictions", sh.evictions))
	default:
		g.Count(fmt.Sprintf("%s:len=%d", stream, len(ops)))
	}
	if sh.evictions > 0 {
		g.Count("with-eviction")
	}
	if sh.reorderThenEvict {
		g.Count("with-reorder-then-eviction")
	}
	if sh.removeYoungestNonTop {
		g.Count("with-RemoveYoungest-on>=2")
	}
	if sh.hitFull {
		g.Count("reaches-full")
	}
	if capacity <= 0 {
		g.Count("rejected-capacity")
	}
	if sh.nan {
		if sh.nanAdds > 0 {
			g.Count("nan:with-Add-of-a-NaN-key")
		}
		if sh.nanEvicted > 0 {
			g.Count("nan:with-eviction-of-a-NaN-entry")
		}
		if sh.leaked > 0 || sh.leakOverCap {
			g.Count("nan:with-leaked-map-entries")
		}
		if sh.leakOverCap {
			g.Count("nan:with-more-leaked-map-entries-than-capacity")
		}
	}
	g.Case(stream, sh.reorderThenEvict, w.Out())
}

// c07Canonical enumerates every op sequence prefix ++ (n further calls) over
// keys 0..nk-1 in which keys are numbered in the order of their first use (the
// code is generic in K: any other sequence is a renaming of one of these).
// The prefix must itself be numbered that way.
func c07Canonical(prefix []c07Op, n, nk int, fn func(ops []c07Op)) {
	ops := make([]c07Op, len(prefix)+n)
	copy(ops, prefix)
	used0 := 0
	for _, o := range prefix {
		if (o.code == c07Add || o.code == c07Get || o.code == c07Remove) && o.k >= used0 {
			used0 = o.k + 1
		}
	}
	var rec func(i, used int)
	rec = func(i, used int) {
		if i == len(ops) {
			fn(ops)
			return
		}
		for code := 0; code < 8; code++ {
			if code == c07Add || code == c07Get || code == c07Remove {
				top := used
				if top >= nk {
					top = nk - 1
				}
				for k := 0; k <= top; k++ {
					ops[i] = c07Op{code, k}
					nu := used
					if k == used {
						nu++
					}
					rec(i+1, nu)
				}
			} else {
				ops[i] = c07Op{code, 0}
				rec(i+1, used)
			}
		}
	}
	rec(len(prefix), used0)
}

// c07Full enumerates every op sequence of length exactly n over the full
// alphabet (3 keyed ops x nk keys + 5 key-less ops), no symmetry reduction.
func c07Full(n, nk int, fn func(ops []c07Op)) {
	alpha := []c07Op{}
	for code := 0; code < 8; code++ {
		if code == c07Add || code == c07Get || code == c07Remove {
			for k := 0; k < nk; k++ {
				alpha = append(alpha, c07Op{code, k})
			}
		} else {
			alpha = append(alpha, c07Op{code, 0})
		}
	}
	seqsExact(len(alpha), n, func(seq []int) {
		ops := make([]c07Op, n)
		for i, a := range seq {
			ops[i] = alpha[a]
		}
		fn(ops)
	})
}

// ---------------------------------------------------------------------------
// The "large" stream: structured LONG histories at LARGE capacities.
//
// The exhaustive streams stop at capacity 4 and length 7, the random one at
// capacity 16 and 300 calls: a change that only shows once the cache holds a
// few hundred entries, or once some number of evictions has happened, is
// invisible to them.  The histories below run at capacities around the powers
// of two (and 1000), every one starting from a cache filled with distinct keys:
//
//	overflow-1     fill, one new key (one eviction), GetOldest, GetYoungest
//	overflow-half  fill, capacity/2 new keys
//	overflow-3x    fill, max(3 x capacity, 300) new keys: hundreds / thousands of
//	               evictions in one history, every one returned and observed
//	reverse        fill, Get sweep from the youngest to the oldest key (reverses
//	               the whole recency order), capacity/2+1 new keys (evictions
//	               must come out in the reversed order), Get of every 3rd key,
//	               a sweep from the oldest to the youngest (order unchanged),
//	               capacity/4 new keys
//	chains         fill, capacity+3 x GetOldest (a full rotation), RemoveOldest
//	               down to empty and twice more, accessors on the empty cache,
//	               refill half new / half old keys, RemoveYoungest down to
//	               empty and twice more, fill again, 3 new keys
//	flush          fill, 5 new keys, Flush, accessors/removers on the flushed
//	               cache, the old keys again (capacity+7 Adds), a sweep over half
//	               of them, Flush, 3 new keys
//	update         fill, Add of every other present key (value and recency
//	               change, no eviction), capacity/2 new keys (the refreshed keys
//	               must survive), Remove of every 3rd entry, new keys up to full
//	               (no eviction) and capacity/4 more
//	mixed          seeded random calls (Add-heavy, keys from 1.5 x capacity) on
//	               the full cache, 2 x capacity of them (at most 1500)
//
// Key layouts: "dense" 0,1,2,...; "far" cycles MinKey+j, MaxKey-j, -1-j,
// 1000003*j (so 0, -1 and both ends of the key range occur, and neighbouring
// insertions are ~2^62 apart).  MaxKey is 2^62-1, not MaxInt64: the model
// runner reads integers as OCaml 63-bit ints (runner/driver.ml).
//
// The drain that ends every observation removes the remaining entries one by
// one from the old end, so the complete final recency order is observed.
// Every wire input stays below 120 000 characters (one argv word on replay).

const c07MaxKey = 1<<62 - 1

func c07Dense(i int) int { return i }
func c07Far(i int) int {
	j := i / 4
	switch i % 4 {
	case 0:
		return -c07MaxKey + j
	case 1:
		return c07MaxKey - j
	case 2:
		return -1 - j
	}
	return 1000003 * j
}

func c07Bucket(what string, n int) string {
	for _, t := range []int{4096, 2048, 1024, 512, 256, 128} {
		if n >= t {
			return fmt.Sprintf("%s>=%d", what, t)
		}
	}
	return fmt.Sprintf("%s<128", what)
}

// c07Builder accumulates a history while tracking the recency list, so that
// calls can be aimed at the oldest / youngest / every n-th present key.
type c07Builder struct {
	capacity int
	key      func(i int) int // i-th distinct key of the layout
	next     int             // distinct keys used so far
	sh       *c07Shadow
	ops      []c07Op
}

func newC07Builder(capacity int, key func(int) int) *c07Builder {
	return &c07Builder{capacity: capacity, key: key, sh: &c07Shadow{cap: capacity}}
}
func (b *c07Builder) op(code, k int) {
	b.ops = append(b.ops, c07Op{code, k})
	b.sh.apply(code, k)
}
func (b *c07Builder) held() int { return len(b.sh.keys) }
func (b *c07Builder) addNew(n int) {
	for i := 0; i < n; i++ {
		b.op(c07Add, b.key(b.next))
		b.next++
	}
}
func (b *c07Builder) addOld(from, n int) { // keys number from .. from+n-1 of the layout again
	for i := 0; i < n; i++ {
		b.op(c07Add, b.key(from+i))
	}
	if from+n > b.next {
		b.next = from + n
	}
}
func (b *c07Builder) fill() { b.addNew(b.capacity - b.held()) }
func (b *c07Builder) accessors() {
	b.op(c07GetYoungest, 0)
	b.op(c07GetOldest, 0)
	b.op(c07GetYoungest, 0)
	b.op(c07Get, b.key(b.next)) // never added
}

// sweep Gets every step-th present key of a snapshot of the recency list,
// youngest first (fromYoungest: a full sweep reverses the order) or oldest
// first (a full sweep leaves the order as it was).
func (b *c07Builder) sweep(fromYoungest bool, step, limit int) {
	snap := cloneInts(b.sh.keys) // most recent first
	n := 0
	for i := 0; i < len(snap) && n < limit; i += step {
		k := snap[i]
		if !fromYoungest {
			k = snap[len(snap)-1-i]
		}
		b.op(c07Get, k)
		n++
	}
}
func (b *c07Builder) chain(code, n int) {
	for i := 0; i < n; i++ {
		b.op(code, 0)
	}
}

type c07Shape struct {
	name  string
	far   bool // also run with the far-apart key layout
	build func(b *c07Builder, g *Gen)
}

func c07Shapes(maxOps int) []c07Shape {
	return []c07Shape{
		{"overflow-1", false, func(b *c07Builder, g *Gen) {
			b.fill()
			b.addNew(1)
			b.accessors()
		}},
		{"overflow-half", false, func(b *c07Builder, g *Gen) {
			b.fill()
			b.addNew(b.capacity / 2)
			b.accessors()
		}},
		{"overflow-3x", true, func(b *c07Builder, g *Gen) {
			b.fill()
			n := 3 * b.capacity
			if n < 300 {
				n = 300
			}
			if n > maxOps-b.capacity {
				n = maxOps - b.capacity
			}
			b.addNew(n)
			b.accessors()
		}},
		{"reverse", true, func(b *c07Builder, g *Gen) {
			b.fill()
			b.sweep(true, 1, b.capacity)
			b.op(c07GetOldest, 0)
			b.op(c07GetYoungest, 0)
			b.addNew(b.capacity/2 + 1)
			b.sweep(true, 3, b.capacity)
			b.sweep(false, 1, b.capacity)
			b.addNew(b.capacity / 4)
		}},
		{"chains", false, func(b *c07Builder, g *Gen) {
			b.fill()
			b.op(c07GetYoungest, 0)
			b.chain(c07GetOldest, b.capacity+3)
			b.op(c07GetYoungest, 0)
			b.chain(c07RemoveOldest, b.held()+2)
			b.accessors()
			b.addNew(b.capacity / 2)
			b.addOld(0, b.capacity-b.held())
			b.op(c07GetYoungest, 0)
			b.chain(c07RemoveYoungest, b.held()+2)
			b.accessors()
			b.fill()
			b.addNew(3)
		}},
		{"flush", false, func(b *c07Builder, g *Gen) {
			b.fill()
			b.addNew(5)
			b.op(c07Flush, 0)
			b.accessors()
			b.op(c07RemoveOldest, 0)
			b.op(c07RemoveYoungest, 0)
			b.op(c07Remove, b.key(0))
			b.addOld(0, b.capacity+7)
			b.sweep(true, 2, b.capacity)
			b.op(c07Flush, 0)
			b.addNew(3)
		}},
		{"update", true, func(b *c07Builder, g *Gen) {
			b.fill()
			snap := cloneInts(b.sh.keys)
			for i := len(snap) - 1; i >= 0; i -= 2 { // from the oldest, every other key
				b.op(c07Add, snap[i])
			}
			b.addNew(b.capacity / 2)
			snap = cloneInts(b.sh.keys)
			for i := 1; i < len(snap); i += 3 {
				b.op(c07Remove, snap[i])
			}
			b.op(c07Remove, b.key(b.next)) // absent
			b.fill()
			b.addNew(b.capacity / 4)
		}},
		{"mixed", true, func(b *c07Builder, g *Gen) {
			b.fill()
			n := 2 * b.capacity
			if n > 1500 {
				n = 1500
			}
			keyRange := b.capacity + b.capacity/2 + 1
			rest := []int{c07GetOldest, c07GetOldest, c07GetYoungest, c07Remove, c07Remove, c07RemoveOldest, c07RemoveYoungest}
			for i := 0; i < n; i++ {
				x := g.Rng.Intn(100)
				k := b.key(g.Rng.Intn(keyRange))
				switch {
				case x < 55:
					b.op(c07Add, k)
				case x < 80:
					b.op(c07Get, k)
				default:
					code := rest[g.Rng.Intn(len(rest))]
					if code != c07Remove {
						k = 0
					}
					b.op(code, k)
				}
			}
			if b.next < keyRange {
				b.next = keyRange
			}
		}},
	}
}

// c07WireChars is the length of the decimal rendering of a wire input.
func c07WireChars(capacity, nkeys int, ops []c07Op) int {
	n := len(fmt.Sprint(capacity)) + len(fmt.Sprint(nkeys)) + 2
	for i, o := range ops {
		v := 0
		if o.code == c07Add {
			v = 101 + i
		}
		n += 4 + len(fmt.Sprint(o.k)) + len(fmt.Sprint(v))
	}
	return n
}

func genC07Large(g *Gen) {
	caps := []int{17, 64, 100, 128, 129, 256, 300, 1000}
	if !g.Quick() {
		caps = append(caps, 255, 257, 512, 513, 1024, 2048)
	}
	for _, capacity := range caps {
		for _, far := range []bool{false, true} {
			maxOps := 8000 // keeps the wire input below 120 000 characters
			layout, key := "dense", c07Dense
			if far {
				maxOps, layout, key = 3300, "far", c07Far
			}
			for _, s := range c07Shapes(maxOps) {
				if far && !s.far {
					continue
				}
				// the model's cost grows with (calls x allocations so far): at
				// capacity >= 1000 the quick tier runs six of the eight shapes
				// (not update, mixed) with dense keys only, the thorough tier all
				// of them; at capacity >= 2000 dense keys only
				if g.Quick() && capacity >= 1000 && (far || s.name == "update" || s.name == "mixed") {
					continue
				}
				if capacity >= 2000 && far {
					continue
				}
				b := newC07Builder(capacity, key)
				s.build(b, g)
				nkeys := 8
				if !far {
					nkeys = b.next
					if nkeys > 1000 {
						nkeys = 1000
					}
				}
				if c07WireChars(capacity, nkeys, b.ops) > 120000 {
					// one argv word on replay (128 KiB): never emitted; counted so that it shows
					g.Count("large:skipped-too-long")
					continue
				}
				g.Count("large:shape=" + s.name)
				g.Count("large:keys=" + layout)
				c07Emit(g, "large", capacity, nkeys, b.ops)
			}
		}
	}
}

// ---------------------------------------------------------------------------
// The "instances" streams: the wire histories on LRUCache[string, string] and
// LRUCache[c07SK, string] (see the codec above execC07).
//
//	instances         capacities 1..3 x every call sequence of length <= 3
//	                  (thorough 4) over the 14 calls {Add,Get,Remove} x keys 0..2
//	                  + 5 key-less calls, and every sequence of length 4
//	                  (thorough 5) with keys numbered by first use — exhaustive,
//	                  both key types.  With struct keys 0 and 1 share the string
//	                  field, 0 and 2 the int field, 1 and 2 nothing.
//	instances-random  seeded 300-call histories, capacity 1..16, keys -3..24 and
//	                  (one case in four, both types) the far-apart layout (19-digit strings)
//	instances-long    the large stream's overflow-3x, reverse, update and mixed
//	                  shapes at capacities 17 and 64 (thorough 256), dense and far
func c07CodecSelfCheck(g *Gen) {
	sc, tc := c07StringCodec(), c07StructCodec()
	for _, k := range []int{0, 1, 2, 5, 10, -1, -2, -3, 99, 100, c07MaxKey, -c07MaxKey, 1000003} {
		a, b := sc.encK(k), sc.encK(k)
		x, y := tc.encK(k), tc.encK(k)
		v, w := sc.encV(k), sc.encV(k)
		if a != b || x != y || v != w || sc.decK(a) != k || tc.decK(x) != k || sc.decV(v) != k {
			panic("C07 codec: not a round trip")
		}
		if unsafe.StringData(a) == unsafe.StringData(b) || unsafe.StringData(x.S) == unsafe.StringData(y.S) ||
			unsafe.StringData(v) == unsafe.StringData(w) {
			panic("C07 codec: two encodings of one key share their backing array")
		}
		g.Count("instances:codec-selfcheck(round trip, distinct backing arrays)")
	}
	if sc.decK("") != 0 || tc.decK(c07SK{}) != 0 || sc.decV("") != 0 {
		panic("C07 codec: zero value does not decode to 0")
	}
}

func genC07Instances(g *Gen) {
	c07CodecSelfCheck(g)
	const nk = 3
	sel := []int{c07NkString, c07NkStruct}
	fullLen := g.Pick(3, 4)
	for n := 0; n <= fullLen; n++ {
		for capacity := 1; capacity <= 3; capacity++ {
			for _, nkeys := range sel {
				c07Full(n, nk, func(ops []c07Op) { c07Emit(g, "instances", capacity, nkeys, ops) })
			}
		}
	}
	// one call longer with keys numbered by first use
	for capacity := 1; capacity <= 3; capacity++ {
		for _, nkeys := range sel {
			c07Canonical(nil, fullLen+1, nk, func(ops []c07Op) { c07Emit(g, "instances", capacity, nkeys, ops) })
		}
	}
	g.Exhaustive("instances")
	// seeded random histories
	rest := []int{c07GetOldest, c07GetOldest, c07GetYoungest, c07Remove, c07Remove, c07RemoveOldest, c07RemoveYoungest}
	for i := 0; i < g.Pick(300, 3000); i++ {
		capacity := 1 + g.Rng.Intn(16)
		keyRange := capacity + 1 + g.Rng.Intn(25-capacity)
		key := func(j int) int { return j - 3 }
		if (i/2)%4 == 3 {
			key = c07Far
		}
		wAdd := 30 + g.Rng.Intn(35)
		wGet := 10 + g.Rng.Intn(25)
		ops := make([]c07Op, 300)
		for j := range ops {
			x := g.Rng.Intn(100)
			k := key(g.Rng.Intn(keyRange))
			switch {
			case x < wAdd:
				ops[j] = c07Op{c07Add, k}
			case x < wAdd+wGet:
				ops[j] = c07Op{c07Get, k}
			case g.Rng.Intn(40) == 0:
				ops[j] = c07Op{c07Flush, 0}
			default:
				code := rest[g.Rng.Intn(len(rest))]
				if code != c07Remove {
					k = 0
				}
				ops[j] = c07Op{code, k}
			}
		}
		c07Emit(g, "instances-random", capacity, sel[i%2], ops)
	}
	// long structured histories
	caps := []int{17, 64}
	if !g.Quick() {
		caps = append(caps, 256)
	}
	for _, capacity := range caps {
		for _, far := range []bool{false, true} {
			key := c07Dense
			if far {
				key = c07Far
			}
			for _, s := range c07Shapes(3300) {
				if !s.far {
					continue
				}
				for _, nkeys := range sel {
					b := newC07Builder(capacity, key)
					s.build(b, g)
					g.Count("instances-long:shape=" + s.name)
					c07Emit(g, "instances-long", capacity, nkeys, b.ops)
				}
			}
		}
	}
}

func genC07(g *Gen) {
	const nk = 5
	// rejected capacities
	for _, capacity := range []int{0, -1, -7} {
		c07Emit(g, "malformed", capacity, nk, nil)
		c07Emit(g, "malformed", capacity, nk, []c07Op{{c07Add, 1}, {c07Get, 1}})
	}
	// exhaustive 1: the full alphabet, no symmetry reduction
	fullLen := g.Pick(3, 4)
	for n := 0; n <= fullLen; n++ {
		for capacity := 1; capacity <= 4; capacity++ {
			c07Full(n, nk, func(ops []c07Op) { c07Emit(g, "exhaustive", capacity, nk, ops) })
		}
	}
	// exhaustive 2: keys numbered by first use
	canLen := 5
	for n := fullLen + 1; n <= canLen; n++ {
		for capacity := 1; capacity <= 4; capacity++ {
			c07Canonical(nil, n, nk, func(ops []c07Op) { c07Emit(g, "exhaustive", capacity, nk, ops) })
		}
	}
	g.Exhaustive("exhaustive")
	if g.Quick() {
		// every 4-sequence from the two-entry cache (length 6)
		for capacity := 1; capacity <= 4; capacity++ {
			c07Canonical([]c07Op{{c07Add, 0}, {c07Add, 1}}, 4, nk, func(ops []c07Op) { c07Emit(g, "exhaustive-from-2", capacity, nk, ops) })
		}
		g.Exhaustive("exhaustive-from-2")
	} else {
		// length 6, first call an Add (any other first call meets a fresh empty
		// cache and is covered, followed by every 5-sequence, above)
		for capacity := 1; capacity <= 4; capacity++ {
			c07Canonical([]c07Op{{c07Add, 0}}, 5, nk, func(ops []c07Op) { c07Emit(g, "exhaustive6", capacity, nk, ops) })
		}
		g.Exhaustive("exhaustive6")
		// every 4-sequence from the three-entry cache (length 7)
		for capacity := 1; capacity <= 4; capacity++ {
			c07Canonical([]c07Op{{c07Add, 0}, {c07Add, 1}, {c07Add, 2}}, 4, nk, func(ops []c07Op) { c07Emit(g, "exhaustive-from-3", capacity, nk, ops) })
		}
		g.Exhaustive("exhaustive-from-3")
	}
	// seeded random: long histories, larger capacities and key ranges
	nrand := g.Pick(1500, 15000)
	for i := 0; i < nrand; i++ {
		capacity := 1 + g.Rng.Intn(16)
		nkeys := 25
		keyRange := capacity + 1 + g.Rng.Intn(nkeys-capacity) // capacity+1 .. 25
		n := 300
		if i%10 == 0 {
			n = 20 + g.Rng.Intn(60)
		}
		ops := make([]c07Op, n)
		// op mix: per-case weights so that some cases are add-heavy, others remove-heavy
		wAdd := 30 + g.Rng.Intn(35)
		wGet := 10 + g.Rng.Intn(25)
		for j := range ops {
			x := g.Rng.Intn(100)
			k := g.Rng.Intn(keyRange)
			switch {
			case x < wAdd:
				ops[j] = c07Op{c07Add, k}
			case x < wAdd+wGet:
				ops[j] = c07Op{c07Get, k}
			default:
				rest := []int{c07GetOldest, c07GetOldest, c07GetOldest, c07GetYoungest, c07GetYoungest, c07Remove, c07RemoveOldest, c07RemoveYoungest}
				if g.Rng.Intn(40) == 0 {
					ops[j] = c07Op{c07Flush, 0}
				} else {
					ops[j] = c07Op{rest[g.Rng.Intn(len(rest))], k}
					if ops[j].code != c07Remove {
						ops[j].k = 0
					}
				}
			}
		}
		c07Emit(g, "random", capacity, nkeys, ops)
	}
	// malformed / unusual: negative and huge keys, zero key, operations on a never-filled cache
	for i := 0; i < g.Pick(200, 2000); i++ {
		capacity := 1 + g.Rng.Intn(3)
		pool := []int{0, -1, -5, 1 << 40, -(1 << 40), 7, 3}
		n := 1 + g.Rng.Intn(12)
		ops := make([]c07Op, n)
		for j := range ops {
			code := g.Rng.Intn(8)
			ops[j] = c07Op{code, 0}
			if code == c07Add || code == c07Get || code == c07Remove {
				ops[j].k = pool[g.Rng.Intn(len(pool))]
			}
		}
		c07Emit(g, "malformed", capacity, 8, ops)
	}
	// structured long histories at large capacities (after everything else, so
	// that the seeded streams above do not depend on it)
	genC07Large(g)
	// the same wire on LRUCache[string, string] and LRUCache[struct, string]
	genC07Instances(g)
	// key types with irreflexive keys: NaN as a float64 key, inside an interface, inside a struct (c07_nan.go)
	genC07NaN(g)
}

func init() {
	register(&Prop{
		ID: "C07",
		Rule: "capacities 1..4 x (every op sequence of length <= 3 (thorough 4) over the 20 calls {Add,Get,Remove}x keys 0..4 + 5 key-less calls, " +
			"then every sequence up to length 5 with keys numbered by first use, and every 4-sequence after Add(0);Add(1) (length 6); " +
			"thorough instead adds every such sequence of length 6 that starts with an Add and every 4-sequence after Add(0);Add(1);Add(2) (length 7)), " +
			"values distinct per Add; observed: every return value, Count() after every call, a full RemoveOldest drain, Get of every key, final Count(); " +
			"random: 300-call histories, capacity 1..16, keys 0..24; malformed: capacities 0,-1,-7 and odd keys; " +
			"large: structured long histories at capacities 17, 64, 100, 128, 129, 256, 300, 1000 (thorough also 255, 257, 512, 513, 1024, 2048), each from a cache filled with distinct keys: " +
			"overflow by 1, by capacity/2, by max(3 x capacity, 300) new keys (up to 3000 evictions in one history, thorough 5952); Get sweep youngest-to-oldest reversing the recency order then evictions, every-3rd and oldest-to-youngest sweeps; " +
			"capacity+3 x GetOldest, RemoveOldest chain to empty (+2), refill, RemoveYoungest chain to empty (+2), refill; Flush in the middle and re-Add of the old keys; re-Add of every other present key, Remove of every 3rd, refill; " +
			"seeded mixed calls on the full cache; keys dense 0.. and (capacity <= 300 in quick, < 2000 in thorough) far apart -(2^62-1)+j, 2^62-1-j, -1-j, 1000003*j; at capacity 1000 the quick tier runs the six dense non-random shapes. " +
			"instances: the same wire on LRUCache[string,string] (nkeys word 6) and LRUCache[struct{K int; S string},string] (nkeys word 7) through an injective codec whose strings are built at run time for every use (equal keys never share a backing array; zero values decode to 0), observation decoded back to integers: " +
			"capacities 1..3 x every sequence of length <= 3 (thorough 4) over 14 calls (keys 0..2) and every sequence of length 4 (thorough 5) with keys numbered by first use, both types; instances-random: 300 (thorough 3000) seeded 300-call histories, capacity 1..16, keys -3..21 or far apart; " +
			"instances-long: overflow-3x, reverse, update, mixed at capacities 17, 64 (thorough 256), dense and far keys, both types. " +
			"nan (irreflexive keys; nkeys word 9 LRUCache[float64,int], 10 LRUCache[any,int], 11 LRUCache[struct{K int; F float64},int]; key codes <= -1000001 are NaNs, the code carries the payload, returned NaN keys are decoded back): " +
			"capacities 1..3 x every sequence of length <= 4 (thorough 5) over the 14 calls with keys {0, 1, NaN} on float64 and of length <= 3 (thorough 4) over the 17 calls with keys {0, NaN#0, NaN#1, NaN#2} on any (float64 / float32 / [1]float64 NaN inside the interface) and struct; " +
			"nan-from-leak: after capacity+1 Adds of NaN every sequence of length 3 (thorough 4); nan-random: 300 (thorough 3000) seeded 300-call histories, capacity 1..16, 10-60% of the keyed calls on 8 NaN payloads; " +
			"nan-long: capacities 17, 64, 300 (thorough 256, 600): fill, flood of 3 x capacity NaN adds, Get/Remove of NaN, regular keys again, RemoveOldest / RemoveYoungest chains to empty, refill on the leaked map, Flush, mixed calls. " +
			"non-trivial = at least one eviction preceded by a Get/GetOldest hit that changed the recency order",
		Exec:     execC07,
		Gen:      genC07,
		Describe: describeC07,
	})
}
