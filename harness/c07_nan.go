package main

import (
	"fmt"
	"math"
)

// C07 with key types whose == is NOT reflexive (mirror of coq/theories/C07_NaN.v
// and of the irreflexive-key part of C07_Wire.v).
//
// The wire is the one of c07.go.  Three more nkeys words select three more
// instantiations, and for them — and only for them — every key code
// k <= c07NaNTop (-1000001) is a NaN; the code keeps the NaN's payload p apart:
// k = c07NaNTop - p.
//
//	nkeys  9  LRUCache[float64, int]   k -> float64(k);  NaN code -> a quiet NaN
//	          with mantissa payload p (sign bit set for odd p)
//	nkeys 10  LRUCache[any, int]       k -> any(int(k)); NaN code -> an interface
//	          holding, by p%3, a float64 NaN, a float32 NaN or a [1]float64{NaN}
//	nkeys 11  LRUCache[c07FK, int], c07FK = struct{K int; F float64}
//	          k -> {k, 0};  NaN code -> {p%2, NaN(p)}: the K field of such a key
//	          coincides with the regular keys 0 and 1
//
// A NaN key is equal to no key, itself included: in Go's map `c.items[k]` never
// finds it, `c.items[k] = node` always inserts and `delete(c.items, k)` does
// nothing.  Returned NaN keys are decoded back to their code through the
// payload (which Go preserves: keys are copied, never computed with), so the
// observation says WHICH NaN entry came back.  The model side (C07_Wire.v)
// treats the codes <= -1000001 of a case with nkeys 9..11 as irreflexive.
const (
	c07NaNTop = -1000001

	c07NkFloat   = 9
	c07NkAny     = 10
	c07NkFStruct = 11

	c07InstFloat   = 3
	c07InstAny     = 4
	c07InstFStruct = 5
)

type c07FK struct {
	K int
	F float64
}

func c07IsNaNCode(k int) bool { return k <= c07NaNTop }
func c07NaNInst(inst int) bool {
	return inst == c07InstFloat || inst == c07InstAny || inst == c07InstFStruct
}
func c07NaNCode(p int) int { return c07NaNTop - p }

const c07Mant64 = 1<<51 - 1 // payload bits of a quiet float64 NaN
const c07Mant32 = 1<<22 - 1

func c07NaN64(p int) float64 {
	bits := uint64(0x7FF8000000000000) | (uint64(p) & c07Mant64)
	if p&1 == 1 {
		bits |= 1 << 63
	}
	return math.Float64frombits(bits)
}
func c07NaN32(p int) float32 {
	bits := uint32(0x7FC00000) | (uint32(p) & c07Mant32)
	if p&1 == 1 {
		bits |= 1 << 31
	}
	return math.Float32frombits(bits)
}
func c07Payload64(f float64) int { return int(math.Float64bits(f) & c07Mant64) }
func c07Payload32(f float32) int { return int(math.Float32bits(f) & c07Mant32) }

func c07IntID(x int) int { return x }

func c07FloatCodec() c07Codec[float64, int] {
	return c07Codec[float64, int]{
		encK: func(k int) float64 {
			if c07IsNaNCode(k) {
				return c07NaN64(c07NaNTop - k)
			}
			return float64(k)
		},
		decK: func(f float64) int {
			if f != f {
				return c07NaNCode(c07Payload64(f))
			}
			if math.IsInf(f, 0) || math.Abs(f) > 1<<53 || float64(int(f)) != f {
				return -888888
			}
			return int(f)
		},
		encV: c07IntID, decV: c07IntID,
	}
}

func c07AnyCodec() c07Codec[any, int] {
	return c07Codec[any, int]{
		encK: func(k int) any {
			if c07IsNaNCode(k) {
				p := c07NaNTop - k
				switch p % 3 {
				case 0:
					return c07NaN64(p)
				case 1:
					return c07NaN32(p)
				}
				return [1]float64{c07NaN64(p)}
			}
			return k
		},
		decK: func(x any) int {
			switch v := x.(type) {
			case nil:
				return 0 // the zero value of the key type
			case int:
				return v
			case float64:
				if v != v {
					return c07NaNCode(c07Payload64(v))
				}
			case float32:
				if v != v {
					return c07NaNCode(c07Payload32(v))
				}
			case [1]float64:
				if v[0] != v[0] {
					return c07NaNCode(c07Payload64(v[0]))
				}
			}
			return -888888
		},
		encV: c07IntID, decV: c07IntID,
	}
}

func c07FStructCodec() c07Codec[c07FK, int] {
	return c07Codec[c07FK, int]{
		encK: func(k int) c07FK {
			if c07IsNaNCode(k) {
				p := c07NaNTop - k
				return c07FK{K: p % 2, F: c07NaN64(p)}
			}
			return c07FK{K: k}
		},
		decK: func(x c07FK) int {
			if x.F != x.F {
				p := c07Payload64(x.F)
				if x.K != p%2 {
					return -888888
				}
				return c07NaNCode(p)
			}
			if x.F != 0 {
				return -888888
			}
			return x.K
		},
		encV: c07IntID, decV: c07IntID,
	}
}

// c07KeyText renders a key of a described case.
func c07KeyText(inst int, k int64) string {
	if c07NaNInst(inst) && c07IsNaNCode(int(k)) {
		return fmt.Sprintf("NaN#%d", c07NaNTop-int(k))
	}
	return fmt.Sprint(k)
}

func c07NaNSelfCheck(g *Gen) {
	fc, ac, sc := c07FloatCodec(), c07AnyCodec(), c07FStructCodec()
	for _, k := range []int{0, 1, 2, -1, 17, 1 << 40, -(1 << 40), c07NaNTop, c07NaNTop - 1, c07NaNTop - 2, c07NaNTop - 3, c07NaNTop - 7, c07NaNTop - 1000} {
		a, b, c := fc.encK(k), ac.encK(k), sc.encK(k)
		if fc.decK(a) != k || ac.decK(b) != k || sc.decK(c) != k {
			panic("C07 NaN codec: not a round trip")
		}
		if c07IsNaNCode(k) != (a != a) || c07IsNaNCode(k) != (b != b) || c07IsNaNCode(k) != (c != c) {
			panic("C07 NaN codec: a NaN code must encode to a key with k != k, any other code to one with k == k")
		}
		g.Count("nan:codec-selfcheck(round trip, irreflexive exactly on the NaN codes)")
	}
	if fc.decK(0) != 0 || ac.decK(nil) != 0 || sc.decK(c07FK{}) != 0 {
		panic("C07 NaN codec: zero value does not decode to 0")
	}
}

// c07FullKeys enumerates every op sequence prefix ++ (n further calls) over the
// alphabet {Add, Get, Remove} x keys + the 5 key-less calls.
func c07FullKeys(prefix []c07Op, n int, keys []int, fn func(ops []c07Op)) {
	alpha := []c07Op{}
	for code := 0; code < 8; code++ {
		if code == c07Add || code == c07Get || code == c07Remove {
			for _, k := range keys {
				alpha = append(alpha, c07Op{code, k})
			}
		} else {
			alpha = append(alpha, c07Op{code, 0})
		}
	}
	seqsExact(len(alpha), n, func(seq []int) {
		ops := make([]c07Op, len(prefix)+n)
		copy(ops, prefix)
		for i, a := range seq {
			ops[len(prefix)+i] = alpha[a]
		}
		fn(ops)
	})
}

// The "nan" streams (all on the three instantiations above unless stated):
//
//	nan            exhaustive: capacities 1..3 x every call sequence of length <= 4
//	               (thorough 5) over the 14 calls {Add,Get,Remove} x {0, 1, NaN#0} +
//	               5 key-less calls on LRUCache[float64,int]; length <= 3 (thorough 4)
//	               over the 17 calls with keys {0, NaN#0, NaN#1, NaN#2} on the any
//	               and struct instantiations (three NaN representations / K fields)
//	nan-from-leak  exhaustive: capacity c = 1..3, after c+1 Adds of NaN#0 (the map
//	               then holds more entries than the capacity) every sequence of
//	               length 3 (thorough 4) over the 14 calls, float64
//	nan-random     seeded 300-call histories, capacity 1..16, about a third of the
//	               keyed calls on one of 8 NaN payloads, the rest on keys 0..24
//	nan-long       capacities 17, 64, 300 (thorough also 256, 600): fill with
//	               regular keys, flood with 3 x capacity NaN adds (every eviction
//	               observed), Get / Remove of NaN, accessors, regular keys again,
//	               RemoveOldest / RemoveYoungest chains to empty, Flush, refill,
//	               seeded mixed calls
func genC07NaN(g *Gen) {
	c07NaNSelfCheck(g)
	n0, n1, n2 := c07NaNCode(0), c07NaNCode(1), c07NaNCode(2)
	emit := func(stream string, capacity, nkeys int) func(ops []c07Op) {
		return func(ops []c07Op) { c07Emit(g, stream, capacity, nkeys, ops) }
	}
	// exhaustive, float64 keys
	fl := g.Pick(4, 5)
	for n := 0; n <= fl; n++ {
		for capacity := 1; capacity <= 3; capacity++ {
			c07FullKeys(nil, n, []int{0, 1, n0}, emit("nan", capacity, c07NkFloat))
		}
	}
	// exhaustive, NaN inside an interface / a struct
	ol := g.Pick(3, 4)
	for n := 0; n <= ol; n++ {
		for capacity := 1; capacity <= 3; capacity++ {
			for _, nk := range []int{c07NkAny, c07NkFStruct} {
				c07FullKeys(nil, n, []int{0, n0, n1, n2}, emit("nan", capacity, nk))
			}
		}
	}
	g.Exhaustive("nan")
	// exhaustive from the state in which the map has leaked more entries than the capacity
	for capacity := 1; capacity <= 3; capacity++ {
		prefix := []c07Op{}
		for i := 0; i <= capacity; i++ {
			prefix = append(prefix, c07Op{c07Add, n0})
		}
		c07FullKeys(prefix, g.Pick(3, 4), []int{0, 1, n0}, emit("nan-from-leak", capacity, c07NkFloat))
	}
	g.Exhaustive("nan-from-leak")
	// seeded random
	nks := []int{c07NkFloat, c07NkAny, c07NkFStruct}
	rest := []int{c07GetOldest, c07GetOldest, c07GetYoungest, c07Remove, c07Remove, c07RemoveOldest, c07RemoveYoungest}
	for i := 0; i < g.Pick(300, 3000); i++ {
		capacity := 1 + g.Rng.Intn(16)
		keyRange := capacity + 1 + g.Rng.Intn(25-capacity)
		pNaN := 10 + g.Rng.Intn(50) // per cent of the keyed calls that use a NaN
		key := func() int {
			if g.Rng.Intn(100) < pNaN {
				return c07NaNCode(g.Rng.Intn(8))
			}
			return g.Rng.Intn(keyRange)
		}
		wAdd := 30 + g.Rng.Intn(35)
		wGet := 10 + g.Rng.Intn(25)
		ops := make([]c07Op, 300)
		for j := range ops {
			x := g.Rng.Intn(100)
			k := key()
			switch {
			case x < wAdd:
				ops[j] = c07Op{c07Add, k}
			case x < wAdd+wGet:
				ops[j] = c07Op{c07Get, k}
			case g.Rng.Intn(40) == 0:
				ops[j] = c07Op{c07Flush, 0}
			default:
				code := rest[g.Rng.Intn(len(rest))]
				if code != c07Remove {
					k = 0
				}
				ops[j] = c07Op{code, k}
			}
		}
		c07Emit(g, "nan-random", capacity, nks[i%3], ops)
	}
	// long structured histories
	caps := []int{17, 64, 300}
	if !g.Quick() {
		caps = append(caps, 256, 600)
	}
	for ci, capacity := range caps {
		for v := 0; v < 2; v++ {
			b := newC07Builder(capacity, c07Dense)
			b.sh.nan = true
			nan := func(i int) int { return c07NaNCode(i % 5) }
			b.fill()
			for i := 0; i < 3*capacity; i++ { // the flood: evicts every regular key, then NaN entries
				b.op(c07Add, nan(i))
				if v == 1 && i%7 == 3 {
					b.op(c07Get, b.key(i%capacity)) // a regular key, present only early on
				}
			}
			b.op(c07Get, nan(0))
			b.op(c07Remove, nan(1))
			b.accessors()
			b.addNew(capacity / 2) // regular keys evict NaN entries
			b.sweep(true, 2, capacity)
			if v == 0 {
				b.chain(c07RemoveOldest, b.held()+2)
			} else {
				b.chain(c07RemoveYoungest, b.held()+2)
			}
			b.accessors()
			b.addOld(0, capacity/2) // a drained cache whose map has leaked > capacity entries
			for i := 0; i < capacity; i++ {
				b.op(c07Add, nan(i))
			}
			b.op(c07Flush, 0) // the only call that drops the leaked entries
			b.accessors()
			b.fill()
			for i := 0; i < capacity+3; i++ {
				if i%3 == 0 {
					b.op(c07Add, nan(i))
				} else {
					b.op(c07Add, b.key(b.next))
					b.next++
				}
			}
			n := capacity
			if n > 400 {
				n = 400
			}
			for i := 0; i < n; i++ { // seeded mixed calls
				x := g.Rng.Intn(100)
				k := b.key(g.Rng.Intn(capacity + capacity/2 + 1))
				if g.Rng.Intn(3) == 0 {
					k = nan(g.Rng.Intn(5))
				}
				switch {
				case x < 55:
					b.op(c07Add, k)
				case x < 75:
					b.op(c07Get, k)
				default:
					code := rest[g.Rng.Intn(len(rest))]
					if code != c07Remove {
						k = 0
					}
					b.op(code, k)
				}
			}
			c07Emit(g, "nan-long", capacity, nks[(ci+v)%3], b.ops)
		}
	}
}
