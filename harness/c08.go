package main

import (
	"fmt"
	"os"
	"sort"
	"strconv"
	"strings"
	"sync"
	"time"

	"github.com/esimov/gogu/cache"
)

// C08 — the expiring cache (cache/cache.go).  Mirror of coq/theories/C08_Wire.v.
//
// wire input = [mode expTime cleanupInt nk] ++ op records [code a b c d]
//
//	mode 0 time-free (no clock value on the wire), 1 timed (measured clock
//	records, no janitor), 2 janitor (cleanup interval of a few ms)
//	durations are nanoseconds (0 DefaultExpiration, -1 NoExpiration)
//
//	 1 Set k v d         2 SetDefault k v     3 Update k v d      4 Get k
//	 5 Delete k          6 DeleteExpired      7 Flush             8 List
//	 9 Count            10 MapToCache v0 v1 v2 d (vi < 0: key i absent)
//	11 IsExpired k      12 Sleep ns          13 Await k maxwait (poll until key k is no longer stored)
//	14 MapToCache {k0+i: val(vpat,i) | i<n} d  as [14 k0 n vpat d]   (ONE call, n-entry map)
//	15 Set / 16 Update / 17 Delete of the n keys k0..k0+n-1 as [code k0 n vpat d]  (n calls)
//	   val(vpat,i) = vpat+i if vpat > 0, else 0 ("") when i%5 == 2 and 100+i otherwise
//
// keys k ↦ "k<k>"; values: code 0 ↦ "", 1 ↦ "a", 2 ↦ "b", n ↦ "v<n>".
//
// observation = [clock records, modes 1 and 2] ++ main ++ kinds
//
//	clock record per non-Sleep call and one for the final observation:
//	  [before after deadline]  (absolute UnixNano; deadline = the stored deadline
//	  of the touched key read through the verif hook after a storing call, -2
//	  absent, 0 for other calls);
//	  Await: [lastSeenStored firstSeenAbsent machineTooSlow]  (-1 = never)
//	main  = per-op results (nil ↦ 0, error ↦ 1 1, Get ↦ 0 v | 1 1, List ↦ n (k v)* sorted,
//	        Count ↦ n, IsExpired ↦ 0|1) ++ Count, List, then Get and IsExpired of every key
//	        (mode 2: only the Gets)
//	kinds = length-prefixed list of the error enum of every error in main
const (
	c08Hour  = int64(time.Hour)
	c08Slack = int64(20 * time.Millisecond)
)

var c08OpNames = []string{"?", "Set", "SetDefault", "Update", "Get", "Delete", "DeleteExpired", "Flush", "List",
	"Count", "MapToCache", "IsExpired", "Sleep", "Await", "MapToCacheRange", "SetRange", "UpdateRange", "DeleteRange"}

func c08Key(k int64) string { return "k" + strconv.FormatInt(k, 10) }

func c08Val(v int64) string {
	switch v {
	case 0:
		return ""
	case 1:
		return "a"
	case 2:
		return "b"
	}
	return "v" + strconv.FormatInt(v, 10)
}

func c08ValCode(s string) int64 {
	switch s {
	case "":
		return 0
	case "a":
		return 1
	case "b":
		return 2
	}
	if strings.HasPrefix(s, "v") {
		if n, err := strconv.ParseInt(s[1:], 10, 64); err == nil {
			return n
		}
	}
	return -7
}

func c08KeyCode(s string) int64 {
	if strings.HasPrefix(s, "k") {
		if n, err := strconv.ParseInt(s[1:], 10, 64); err == nil {
			return n
		}
	}
	return -7
}

// the error enum of C08_Model.v
func c08ErrKind(err error) int64 {
	if _, ok := err.(interface{ Unwrap() []error }); ok {
		return 6
	}
	m := err.Error()
	switch {
	case strings.Contains(m, "already exists"):
		return 1
	case strings.Contains(m, "cannot be empty"):
		return 2
	case strings.Contains(m, "expired"):
		return 3
	case strings.Contains(m, "not found"):
		return 4
	case strings.Contains(m, "does not exist"):
		return 5
	}
	return 9
}

type c08Info struct {
	stores, errs, removals, expiries, panics int
	ambiguous                                bool // a stored deadline fell inside a call's bracket; an Await gave up too early; late on a machine that was too slow
	late                                     bool // janitor: an expired entry was still SEEN stored after deadline + 2*interval + 20ms
	maxKeys                                  int
	ops                                      []int64
	kinds                                    []int64
	finalCount                               int
}

// the add-only verif hook of cache/cache_verif.go, probed by type assertion so
// that the harness still builds against a tree that does not carry it
type c08Hook interface {
	VerifExpirations() map[string]int64
	VerifStop()
}

func c08HookOf(c *cache.Cache[string, string]) c08Hook {
	h, _ := any(c).(c08Hook)
	return h
}

func c08HavePresent() bool { return c08HookOf(cache.New[string, string](0, 0)) != nil }

// a reference ticker with the cache's cleanup interval, run next to the
// cache's own: when IT is delayed the machine is too loaded to blame the janitor
type c08Ref struct {
	mu     sync.Mutex
	last   int64
	maxGap int64
	stop   chan struct{}
	done   chan struct{}
}

func c08StartRef(ci int64) *c08Ref {
	r := &c08Ref{last: time.Now().UnixNano(), stop: make(chan struct{}), done: make(chan struct{})}
	go func() {
		t := time.NewTicker(time.Duration(ci))
		defer close(r.done)
		for {
			select {
			case <-t.C:
				now := time.Now().UnixNano()
				r.mu.Lock()
				if now-r.last > r.maxGap {
					r.maxGap = now - r.last
				}
				r.last = now
				r.mu.Unlock()
			case <-r.stop:
				t.Stop()
				return
			}
		}
	}()
	return r
}

// the longest time the reference ticker went without firing, so far
func (r *c08Ref) gap() int64 {
	now := time.Now().UnixNano()
	r.mu.Lock()
	defer r.mu.Unlock()
	g := r.maxGap
	if now-r.last > g {
		g = now - r.last
	}
	return g
}

type c08Run struct {
	c     *cache.Cache[string, string]
	hook  c08Hook
	ref   *c08Ref
	mode  int64
	ci    int64
	main  []int64
	kinds []int64
	clk   []int64
	seen  []int64 // every positive deadline observed so far (relative)
	info  c08Info
}

func (r *c08Run) now() int64 { return time.Now().UnixNano() }

func (r *c08Run) err(e error) {
	if e == nil {
		r.main = append(r.main, 0)
		return
	}
	k := c08ErrKind(e)
	r.main = append(r.main, 1, 1)
	r.kinds = append(r.kinds, k)
	r.info.errs++
}

func (r *c08Run) get(k int64) {
	it, e := r.c.Get(c08Key(k))
	if e != nil || it == nil {
		kind := int64(0)
		if e != nil {
			kind = c08ErrKind(e)
		}
		if kind == 3 {
			r.info.expiries++
			if r.mode == 2 {
				kind = 4 // janitor stream: "expired" (still stored) or "not found" (purged) depends on the ticker
			}
		}
		r.main = append(r.main, 1, 1)
		r.kinds = append(r.kinds, kind)
		return
	}
	r.main = append(r.main, 0, c08ValCode(it.Val()))
}

func (r *c08Run) list() {
	m := r.c.List()
	keys := make([]string, 0, len(m))
	for k := range m {
		keys = append(keys, k)
	}
	sort.Slice(keys, func(i, j int) bool { return c08KeyCode(keys[i]) < c08KeyCode(keys[j]) })
	r.main = append(r.main, int64(len(keys)))
	for _, k := range keys {
		r.main = append(r.main, c08KeyCode(k), c08ValCode(m[k].Val()))
	}
}

func (r *c08Run) isExpired(k int64) {
	b := r.c.IsExpired(c08Key(k))
	if b {
		r.info.expiries++
	}
	r.main = append(r.main, b2i(b))
}

// deadline of key k as stored now, -2 absent
func (r *c08Run) expOf(k int64) int64 {
	e, ok := r.hook.VerifExpirations()[c08Key(k)]
	if !ok {
		return -2
	}
	return e
}

func c08RngVal(vpat, i int64) int64 {
	if vpat > 0 {
		return vpat + i
	}
	if i%5 == 2 {
		return 0
	}
	return 100 + i
}

func c08RngLen(n int64) int64 {
	if n < 0 {
		return 0
	}
	if n > 4096 {
		return 4096
	}
	return n
}

func (r *c08Run) bracket(before, after int64) {
	for _, d := range r.seen {
		if before <= d && d <= after {
			r.info.ambiguous = true
		}
	}
}

func c08MapOf(a, b, c int64) (map[string]string, int64, int) {
	m := map[string]string{}
	single := int64(-1)
	for i, v := range []int64{a, b, c} {
		if v >= 0 {
			m[c08Key(int64(i))] = c08Val(v)
			single = int64(i)
		}
	}
	return m, single, len(m)
}

// one API call (codes 1..11); returns the key whose deadline the call may have stored (-1 none)
func (r *c08Run) call(op []int64) int64 {
	code, a, b, c, d := op[0], op[1], op[2], op[3], op[4]
	stored := int64(-1)
	n0 := 0
	if code >= 5 && code <= 7 {
		n0 = r.c.Count()
	}
	nerr := r.info.errs
	switch code {
	case 1:
		r.err(r.c.Set(c08Key(a), c08Val(b), time.Duration(c)))
		stored = a
	case 2:
		r.err(r.c.SetDefault(c08Key(a), c08Val(b)))
		stored = a
	case 3:
		r.err(r.c.Update(c08Key(a), c08Val(b), time.Duration(c)))
		stored = a
	case 4:
		r.get(a)
	case 5:
		r.err(r.c.Delete(c08Key(a)))
	case 6:
		r.err(r.c.DeleteExpired())
	case 7:
		r.c.Flush()
	case 8:
		r.list()
	case 9:
		r.main = append(r.main, int64(r.c.Count()))
	case 10:
		m, single, n := c08MapOf(a, b, c)
		r.err(r.c.MapToCache(m, time.Duration(d)))
		if n == 1 {
			stored = single
		}
		if n > 0 && r.info.errs == nerr {
			r.info.stores++
		}
	case 11:
		r.isExpired(a)
	case 14:
		n := c08RngLen(b)
		m := make(map[string]string, n)
		for i := int64(0); i < n; i++ {
			m[c08Key(a+i)] = c08Val(c08RngVal(c, i))
		}
		r.err(r.c.MapToCache(m, time.Duration(d)))
		if n == 1 {
			stored = a
		}
		if n > 0 && r.info.errs == nerr {
			r.info.stores++
		}
	default:
		r.main = append(r.main, -999998)
	}
	if code >= 1 && code <= 3 && r.info.errs == nerr {
		r.info.stores++
	}
	if code >= 5 && code <= 7 && r.c.Count() < n0 {
		r.info.removals++
	}
	return stored
}

func (r *c08Run) await(k, maxw int64) {
	key := c08Key(k)
	ex := int64(0)
	if e, ok := r.hook.VerifExpirations()[key]; ok && e > 0 {
		ex = e
	}
	start := r.now()
	tl, tg := int64(-1), int64(-1)
	for {
		t := r.now()
		_, present := r.hook.VerifExpirations()[key]
		t2 := r.now()
		if !present {
			tg = t2
			break
		}
		tl = t
		if t-start > maxw {
			break
		}
		time.Sleep(200 * time.Microsecond)
	}
	// the janitor is late iff the key was still SEEN stored after the bound
	bound := ex + 2*r.ci + c08Slack
	slow := int64(0)
	if r.ref != nil && r.ref.gap() > r.ci+c08Slack/2 {
		slow = 1
	}
	r.clk = append(r.clk, tl, tg, slow)
	if tg >= 0 {
		r.info.expiries++
	}
	if ex > 0 && tl > bound {
		if slow == 1 {
			r.info.ambiguous = true // the machine was too slow to blame the janitor
		} else {
			r.info.late = true
		}
	} else if tg < 0 && ex > 0 && tl > ex {
		r.info.ambiguous = true // gave up too early to decide
	}
}

func (r *c08Run) final(nk int64) {
	var before int64
	if r.mode != 0 {
		before = r.now()
	}
	if r.mode != 2 {
		r.info.finalCount = r.c.Count()
		r.main = append(r.main, int64(r.info.finalCount))
		r.list()
	}
	for k := int64(0); k < nk; k++ {
		r.get(k)
		if r.mode != 2 {
			r.isExpired(k)
		}
	}
	if r.mode != 0 {
		after := r.now()
		r.clk = append(r.clk, before, after, 0)
		r.bracket(before, after)
	}
}

// c08RunOnce interprets one wire input against a fresh cache.
func c08RunOnce(in []int64) ([]int64, c08Info) {
	var info c08Info
	if len(in) < 4 || (len(in)-4)%5 != 0 || in[0] < 0 || in[0] > 2 || in[3] < 0 || in[3] > 4096 {
		return []int64{-999998}, info
	}
	r := &c08Run{mode: in[0], ci: in[2]}
	r.c = cache.New[string, string](time.Duration(in[1]), time.Duration(in[2]))
	r.hook = c08HookOf(r.c)
	if r.hook != nil {
		defer r.hook.VerifStop()
	} else if r.mode != 0 {
		return []int64{-999997}, info // the timed streams need the hook
	}
	if r.mode == 2 && r.ci > 0 {
		r.ref = c08StartRef(r.ci)
		defer func() { close(r.ref.stop); <-r.ref.done }()
	}
	one := func(op []int64) {
		if r.mode == 0 {
			r.call(op)
			return
		}
		nerr := r.info.errs
		before := r.now()
		k := r.call(op)
		after := r.now()
		// the deadlines stored BEFORE this call decide whether the bracket is
		// ambiguous: the call consults the old entry of its key, never the new one
		r.bracket(before, after)
		e := int64(0)
		if k >= 0 {
			e = r.expOf(k)
			if e > 0 {
				r.seen = append(r.seen, e)
			}
			if r.mode == 2 && e == -2 && r.info.errs == nerr {
				// the call stored, but by the time the deadline was read the entry had
				// expired and the janitor had removed it (slow machine): undecidable
				r.info.ambiguous = true
			}
		}
		r.clk = append(r.clk, before, after, e)
	}
	ops := in[4:]
	panicked := try(func() {
		for i := 0; i+5 <= len(ops); i += 5 {
			op := ops[i : i+5]
			r.info.ops = append(r.info.ops, op[0])
			switch {
			case op[0] == 12:
				if r.mode != 0 && op[1] > 0 {
					time.Sleep(time.Duration(op[1]))
				}
			case op[0] == 13:
				if r.mode == 2 {
					r.await(op[1], op[2])
				}
			case op[0] >= 15 && op[0] <= 17:
				// n single calls on consecutive keys
				single := map[int64]int64{15: 1, 16: 3, 17: 5}[op[0]]
				n := c08RngLen(op[2])
				for j := int64(0); j < n; j++ {
					one([]int64{single, op[1] + j, c08RngVal(op[3], j), op[4], 0})
				}
			default:
				one(op)
			}
			if n := r.c.Count(); n > r.info.maxKeys {
				r.info.maxKeys = n
			}
		}
		r.final(in[3])
	})
	if panicked {
		r.info.panics++
		r.main = append(r.main, 2)
	}
	obs := append([]int64{}, r.clk...)
	obs = append(obs, r.main...)
	obs = append(obs, int64(len(r.kinds)))
	obs = append(obs, r.kinds...)
	r.info.kinds = r.kinds
	return obs, r.info
}

// timed cases are re-run (at most 3 attempts) when wall-clock bracketing
// cannot decide them or when the janitor was late
func c08RunRetry(in []int64) (obs []int64, info c08Info, attempts int) {
	for attempts = 1; ; attempts++ {
		obs, info = c08RunOnce(in)
		if len(in) == 0 || in[0] == 0 || attempts >= 3 || !(info.ambiguous || info.late) {
			return
		}
		time.Sleep(time.Duration(attempts) * 2 * time.Millisecond)
	}
}

func execC08(in []int64) []int64 {
	obs, _, _ := c08RunRetry(in)
	return obs
}

func c08Dur(d int64) string {
	switch {
	case d == 0:
		return "Default"
	case d == -1:
		return "NoExp"
	}
	return time.Duration(d).String()
}

func describeC08(in []int64) string {
	if len(in) < 4 {
		return "malformed"
	}
	var sb strings.Builder
	fmt.Fprintf(&sb, "mode=%d New(%s,%s) keys=%d:", in[0], c08Dur(in[1]), time.Duration(in[2]), in[3])
	ops := in[4:]
	for i := 0; i+5 <= len(ops); i += 5 {
		o := ops[i : i+5]
		name := "?"
		if o[0] >= 1 && int(o[0]) < len(c08OpNames) {
			name = c08OpNames[o[0]]
		}
		switch o[0] {
		case 1, 3:
			fmt.Fprintf(&sb, " %s(%s,%q,%s)", name, c08Key(o[1]), c08Val(o[2]), c08Dur(o[3]))
		case 2:
			fmt.Fprintf(&sb, " %s(%s,%q)", name, c08Key(o[1]), c08Val(o[2]))
		case 4, 5, 11:
			fmt.Fprintf(&sb, " %s(%s)", name, c08Key(o[1]))
		case 10:
			m, _, _ := c08MapOf(o[1], o[2], o[3])
			keys := []string{}
			for k := range m {
				keys = append(keys, k)
			}
			sort.Strings(keys)
			parts := []string{}
			for _, k := range keys {
				parts = append(parts, fmt.Sprintf("%s:%q", k, m[k]))
			}
			fmt.Fprintf(&sb, " %s({%s},%s)", name, strings.Join(parts, ","), c08Dur(o[4]))
		case 12:
			fmt.Fprintf(&sb, " Sleep(%s)", time.Duration(o[1]))
		case 13:
			fmt.Fprintf(&sb, " Await(%s gone, max %s)", c08Key(o[1]), time.Duration(o[2]))
		case 14:
			fmt.Fprintf(&sb, " MapToCache({%s..%s: pattern %d},%s)", c08Key(o[1]), c08Key(o[1]+c08RngLen(o[2])-1), o[3], c08Dur(o[4]))
		case 15, 16:
			fmt.Fprintf(&sb, " %s*%d(%s..,pattern %d,%s)", []string{"Set", "Update"}[o[0]-15], c08RngLen(o[2]), c08Key(o[1]), o[3], c08Dur(o[4]))
		case 17:
			fmt.Fprintf(&sb, " Delete*%d(%s..)", c08RngLen(o[2]), c08Key(o[1]))
		default:
			fmt.Fprintf(&sb, " %s()", name)
		}
	}
	return sb.String()
}

// ---------- generation ----------

func c08Op(code, a, b, c, d int64) []int64 { return []int64{code, a, b, c, d} }

func c08Input(mode, e, ci, nk int64, ops [][]int64) []int64 {
	in := []int64{mode, e, ci, nk}
	for _, o := range ops {
		in = append(in, o...)
	}
	return in
}

// the full time-free alphabet over 3 keys, durations {default, none, 1h}, values {"", a, b}
func c08FullAlphabet() [][]int64 {
	var al [][]int64
	durs := []int64{0, -1, c08Hour}
	for k := int64(0); k < 3; k++ {
		for v := int64(0); v < 3; v++ {
			for _, d := range durs {
				al = append(al, c08Op(1, k, v, d, 0))
				al = append(al, c08Op(3, k, v, d, 0))
			}
			if v < 2 {
				al = append(al, c08Op(2, k, v, 0, 0))
			}
		}
		al = append(al, c08Op(4, k, 0, 0, 0), c08Op(5, k, 0, 0, 0), c08Op(11, k, 0, 0, 0))
	}
	al = append(al, c08Op(6, 0, 0, 0, 0), c08Op(7, 0, 0, 0, 0), c08Op(8, 0, 0, 0, 0), c08Op(9, 0, 0, 0, 0))
	for _, m := range [][3]int64{{-1, -1, -1}, {1, -1, -1}, {1, 2, -1}, {0, 1, -1}, {2, 1, 1}, {-1, -1, 0}} {
		for _, d := range durs {
			al = append(al, c08Op(10, m[0], m[1], m[2], d))
		}
	}
	return al
}

// the reduced alphabet for long sequences
func c08SmallAlphabet() [][]int64 {
	return [][]int64{
		c08Op(1, 0, 1, 0, 0),         // Set k0 a default
		c08Op(1, 0, 2, -1, 0),        // Set k0 b none
		c08Op(1, 1, 1, c08Hour, 0),   // Set k1 a 1h
		c08Op(1, 1, 0, 0, 0),         // Set k1 "" default
		c08Op(3, 0, 2, c08Hour, 0),   // Update k0 b 1h
		c08Op(3, 1, 0, -1, 0),        // Update k1 "" none
		c08Op(4, 0, 0, 0, 0),         // Get k0
		c08Op(5, 0, 0, 0, 0),         // Delete k0
		c08Op(6, 0, 0, 0, 0),         // DeleteExpired
		c08Op(7, 0, 0, 0, 0),         // Flush
		c08Op(10, 1, 2, -1, 0),       // MapToCache {k0:a,k1:b} default
		c08Op(10, -1, 0, 1, c08Hour), // MapToCache {k1:"",k2:a} 1h
	}
}

func c08Nontrivial(info *c08Info) bool {
	return info.stores >= 1 && (info.errs >= 1 || info.removals >= 1 || info.expiries >= 1)
}

var c08KindNames = []string{"err_kind0", "err_exists", "err_empty", "err_expired", "err_notfound", "err_nokey", "err_joined", "err_7", "err_8", "err_unclassified"}

func c08CountCase(g *Gen, stream string, in []int64, info *c08Info) {
	for _, o := range info.ops {
		if o >= 1 && int(o) < len(c08OpNames) {
			g.Count("op_" + c08OpNames[o])
		}
	}
	for _, k := range info.kinds {
		if k >= 0 && int(k) < len(c08KindNames) {
			g.Count(c08KindNames[k])
		}
	}
	n := len(info.ops)
	switch {
	case n <= 6:
		g.Count("len_" + strconv.Itoa(n))
	case n <= 20:
		g.Count("len_7_20")
	default:
		g.Count("len_over_20")
	}
	e, ci := "pos", "pos"
	if in[1] == 0 {
		e = "0"
	} else if in[1] < 0 {
		e = "neg"
	}
	if in[2] <= 0 {
		ci = "0"
	}
	g.Count("cfg_default_" + e + "_cleanup_" + ci)
	if info.finalCount == 0 && in[0] != 2 {
		g.Count("final_empty")
	}
	if info.expiries > 0 {
		g.Count("cases_with_expiry_observed")
	}
	if info.removals > 0 {
		g.Count("cases_with_removal")
	}
	if info.panics > 0 {
		g.Count("cases_with_panic")
	}
	switch k := info.maxKeys; {
	case k >= 2000:
		g.Count("max_keys_ge_2000")
	case k >= 500:
		g.Count("max_keys_500_1999")
	case k >= 100:
		g.Count("max_keys_100_499")
	case k > 5:
		g.Count("max_keys_6_99")
	}
	_ = stream
}

func c08Emit(g *Gen, stream string, in []int64) {
	obs, info := c08RunOnce(in)
	c08CountCase(g, stream, in, &info)
	g.Raw(stream, c08Nontrivial(&info), in, obs)
}

// timed scripts run in parallel on separate caches; results are recorded in
// script order
func c08EmitTimed(g *Gen, stream string, scripts [][]int64, workers int) {
	type res struct {
		obs      []int64
		info     c08Info
		attempts int
	}
	out := make([]res, len(scripts))
	var wg sync.WaitGroup
	next := make(chan int, len(scripts))
	for i := range scripts {
		next <- i
	}
	close(next)
	for w := 0; w < workers; w++ {
		wg.Add(1)
		go func() {
			defer wg.Done()
			for i := range next {
				o, inf, a := c08RunRetry(scripts[i])
				out[i] = res{o, inf, a}
			}
		}()
	}
	wg.Wait()
	// what is still undecided after three attempts under the load of the other
	// workers is tried again, alone
	for i := range scripts {
		for extra := 0; extra < 3 && (out[i].info.ambiguous || out[i].info.late); extra++ {
			g.Count(stream + "_serial_reruns")
			o, inf := c08RunOnce(scripts[i])
			out[i] = res{o, inf, out[i].attempts + 1}
		}
	}
	for i, in := range scripts {
		r := out[i]
		if r.attempts > 1 {
			g.Count(stream + "_reruns")
		}
		if r.info.ambiguous {
			// wall-clock bracketing cannot decide this case (a deadline inside a
			// call's bracket, an Await that gave up too early, a late janitor on a
			// machine whose reference ticker was late too): discarded
			g.Count(stream + "_discarded_undecidable")
			continue
		}
		g.Count(stream + "_decided")
		if r.info.late {
			g.Count(stream + "_janitor_late")
		}
		c08CountCase(g, stream, in, &r.info)
		g.Raw(stream, c08Nontrivial(&r.info), in, r.obs)
	}
}

func genC08(g *Gen) {
	full := c08FullAlphabet()
	small := c08SmallAlphabet()
	type cfg struct{ e, ci int64 }
	cfgs0 := []cfg{{-1, 0}, {0, 0}, {c08Hour, 0}}
	cfgs1 := []cfg{{-1, c08Hour}, {0, c08Hour}, {c08Hour, c08Hour}}
	have := c08HavePresent()
	if !have {
		// Without cache/cache_verif.go the stored deadlines cannot be read and the
		// janitor goroutines cannot be stopped: the timed and janitor streams are
		// skipped and the configurations with a cleanup interval get a smaller scope.
		g.Count("VERIF_HOOK_ABSENT_timed_and_janitor_streams_skipped")
		fmt.Fprintln(os.Stderr, "c08: cache/cache_verif.go (verif hook) absent: timed and janitor streams skipped")
	}

	seqOver := func(al [][]int64, maxLen int, c cfg, stream string) {
		seqsUpTo(len(al), maxLen, func(seq []int) {
			ops := make([][]int64, len(seq))
			for i, s := range seq {
				ops[i] = al[s]
			}
			c08Emit(g, stream, c08Input(0, c.e, c.ci, 3, ops))
		})
	}

	// --- time-free, exhaustive ---
	// (a) every sequence up to length 2 (thorough 3, cleanup-free configurations) over the full alphabet
	for _, c := range cfgs0 {
		seqOver(full, g.Pick(2, 3), c, "exhaustive")
	}
	for _, c := range cfgs1 {
		if have {
			seqOver(full, 2, c, "exhaustive")
		} else {
			seqOver(full, 1, c, "exhaustive")
		}
	}
	// (b) every stored state over 3 keys (each key absent or stored with value a/b and
	//     duration default/none/1h: 7^3 prefixes) followed by every operation of the full alphabet
	states := [][]int64{nil}
	for _, v := range []int64{1, 2} {
		for _, d := range []int64{0, -1, c08Hour} {
			states = append(states, []int64{v, d})
		}
	}
	stateCfgs := append([]cfg{}, cfgs0...)
	if have {
		stateCfgs = append(stateCfgs, cfgs1...)
	}
	for _, c := range stateCfgs {
		seqsExact(len(states), 3, func(seq []int) {
			var pre [][]int64
			for k, s := range seq {
				if states[s] != nil {
					pre = append(pre, c08Op(1, int64(k), states[s][0], states[s][1], 0))
				}
			}
			for _, o := range full {
				ops := append(append([][]int64{}, pre...), o)
				c08Emit(g, "exhaustive", c08Input(0, c.e, c.ci, 3, ops))
			}
		})
	}
	// (c) every sequence up to length 5 (thorough 6) over the reduced alphabet
	for _, c := range cfgs0 {
		seqOver(small, g.Pick(5, 6), c, "exhaustive")
	}
	for _, c := range cfgs1 {
		seqOver(small, g.Pick(3, 4), c, "exhaustive")
	}
	g.Exhaustive("exhaustive")

	// --- time-free, random: longer histories, more keys/values/durations/configurations ---
	rdurs := []int64{0, 0, -1, c08Hour, int64(time.Minute), 24 * c08Hour, -5}
	rcfg := []int64{-1, 0, c08Hour, int64(time.Minute), -9}
	nrand := g.Pick(3000, 40000)
	for i := 0; i < nrand; i++ {
		nk := int64(2 + g.Rng.Intn(4))
		nv := int64(2 + g.Rng.Intn(4))
		n := 4 + g.Rng.Intn(g.Pick(40, 200))
		ops := make([][]int64, n)
		for j := range ops {
			k := g.Rng.Int63n(nk)
			v := g.Rng.Int63n(nv)
			d := rdurs[g.Rng.Intn(len(rdurs))]
			switch x := g.Rng.Intn(20); {
			case x < 5:
				ops[j] = c08Op(1, k, v, d, 0)
			case x < 6:
				ops[j] = c08Op(2, k, v, 0, 0)
			case x < 9:
				ops[j] = c08Op(3, k, v, d, 0)
			case x < 12:
				ops[j] = c08Op(4, k, 0, 0, 0)
			case x < 14:
				ops[j] = c08Op(5, k, 0, 0, 0)
			case x < 15:
				ops[j] = c08Op(6, 0, 0, 0, 0)
			case x < 16:
				if g.Rng.Intn(4) == 0 {
					ops[j] = c08Op(7, 0, 0, 0, 0)
				} else {
					ops[j] = c08Op(9, 0, 0, 0, 0)
				}
			case x < 17:
				ops[j] = c08Op(8, 0, 0, 0, 0)
			case x < 19:
				mv := [3]int64{}
				for t := range mv {
					mv[t] = g.Rng.Int63n(nv+1) - 1
				}
				ops[j] = c08Op(10, mv[0], mv[1], mv[2], d)
			default:
				ops[j] = c08Op(11, k, 0, 0, 0)
			}
		}
		ci := int64(0)
		if g.Rng.Intn(4) == 0 {
			ci = c08Hour
		}
		c08Emit(g, "random", c08Input(0, rcfg[g.Rng.Intn(len(rcfg))], ci, nk, ops))
	}

	// --- malformed: odd durations and configurations, operations on an empty cache, only rejected values ---
	odd := []int64{-2, -1000000000, -1 << 40}
	for _, e := range []int64{-2, -1 << 40, 0} {
		for _, d := range odd {
			for _, first := range [][]int64{c08Op(1, 0, 1, d, 0), c08Op(3, 0, 1, d, 0), c08Op(10, 1, 0, -1, d), c08Op(1, 0, 0, d, 0), c08Op(2, 0, 0, 0, 0)} {
				for _, second := range [][]int64{c08Op(6, 0, 0, 0, 0), c08Op(5, 1, 0, 0, 0), c08Op(11, 0, 0, 0, 0), c08Op(10, -1, -1, -1, d), c08Op(1, 0, 2, d, 0)} {
					c08Emit(g, "malformed", c08Input(0, e, 0, 3, [][]int64{first, second}))
					c08Emit(g, "malformed", c08Input(0, e, 0, 3, [][]int64{second, first, second}))
				}
			}
		}
	}

	// --- large (time-free): 100-2000 keys, MapToCache of hundreds of entries, Count/List afterwards ---
	const maxI64, minI64 = int64(1<<63 - 1), int64(-1 << 63)
	sizes := []int64{100, 257, 600, 2000}
	if !g.Quick() {
		sizes = []int64{100, 257, 600, 1000, 1500, 2000}
	}
	for _, n := range sizes {
		for ci, c := range []cfg{{-1, 0}, {0, c08Hour}, {c08Hour, 0}} {
			if n == 2000 && ci != int(g.Seed%3) && g.Quick() {
				continue // one configuration at the largest size in the quick tier
			}
			d := []int64{0, -1, c08Hour}[(int(n)+ci)%3]
			h := n / 2
			ops := [][]int64{
				c08Op(15, 0, n, 0, d), // n Sets, every fifth value rejected
				c08Op(9, 0, 0, 0, 0),  // Count
				c08Op(8, 0, 0, 0, 0),  // List
				c08Op(14, h, n, 7, d), // MapToCache of n entries, the lower half has live keys: one joined error
				c08Op(9, 0, 0, 0, 0),  // Count
			}
			if n < 1000 {
				// MapToCache over everything, pattern shifted by one: fills the gaps left by rejected values, and fails
				ops = append(ops, c08Op(14, 1, n+h-1, 0, -1))
			}
			ops = append(ops,
				c08Op(6, 0, 0, 0, 0), // DeleteExpired: removes nothing
				c08Op(9, 0, 0, 0, 0),
				c08Op(17, h/2, h, 0, 0),     // h Deletes (some of missing keys)
				c08Op(16, n, h, 3, c08Hour), // h Updates
				c08Op(4, n+h-1, 0, 0, 0),    // Get of the last key
				c08Op(5, n+h-1, 0, 0, 0),    // Delete it
				c08Op(11, 0, 0, 0, 0),
				c08Op(8, 0, 0, 0, 0), // List
				c08Op(9, 0, 0, 0, 0),
				c08Op(7, 0, 0, 0, 0), // Flush
				c08Op(9, 0, 0, 0, 0),
				c08Op(14, 0, n, 5, 0), // refill by one MapToCache without rejected values: nil
				c08Op(9, 0, 0, 0, 0))
			if n < 1000 {
				ops = append(ops, c08Op(14, 0, n, 5, 0)) // again: every key is live, an error and no change
			}
			nk := n + h
			if nk > 400 {
				nk = 400 // List shows every key; Get/IsExpired of the first 400
			}
			c08Emit(g, "large", c08Input(0, c.e, c.ci, nk, ops))
		}
	}
	nlarge := g.Pick(10, 80)
	for i := 0; i < nlarge; i++ {
		span := int64(100 + g.Rng.Intn(701))
		if i%5 == 0 {
			span = int64(800 + g.Rng.Intn(1201))
		}
		n := 6 + g.Rng.Intn(10)
		ops := make([][]int64, 0, n+2)
		ops = append(ops, c08Op(14+int64(g.Rng.Intn(2)), 0, span, int64(g.Rng.Intn(2)*9), rdurs[g.Rng.Intn(len(rdurs))]))
		for j := 0; j < n; j++ {
			k0 := g.Rng.Int63n(span)
			ln := 1 + g.Rng.Int63n(span-k0+50)
			if g.Rng.Intn(3) == 0 {
				ln = 100 + g.Rng.Int63n(600)
			}
			d := rdurs[g.Rng.Intn(len(rdurs))]
			vp := int64(g.Rng.Intn(3) * 11)
			switch x := g.Rng.Intn(14); {
			case x < 3:
				ops = append(ops, c08Op(14, k0, ln, vp, d))
			case x < 5:
				ops = append(ops, c08Op(15, k0, ln, vp, d))
			case x < 6:
				ops = append(ops, c08Op(16, k0, ln, vp, d))
			case x < 8:
				ops = append(ops, c08Op(17, k0, ln, 0, 0))
			case x < 9:
				ops = append(ops, c08Op(6, 0, 0, 0, 0))
			case x < 10:
				ops = append(ops, c08Op(8, 0, 0, 0, 0))
			case x < 12:
				ops = append(ops, c08Op(9, 0, 0, 0, 0))
			case x < 13:
				ops = append(ops, c08Op(4, k0, 0, 0, 0), c08Op(11, k0, 0, 0, 0))
			default:
				if g.Rng.Intn(3) == 0 {
					ops = append(ops, c08Op(7, 0, 0, 0, 0))
				} else {
					ops = append(ops, c08Op(5, k0, 0, 0, 0))
				}
			}
		}
		ops = append(ops, c08Op(9, 0, 0, 0, 0))
		ci := int64(0)
		if g.Rng.Intn(3) == 0 {
			ci = c08Hour
		}
		nk := span + 50
		if nk > 400 {
			nk = 400
		}
		c08Emit(g, "large", c08Input(0, rcfg[g.Rng.Intn(len(rcfg))], ci, nk, ops))
	}

	// --- extreme (time-free): durations, default expiries, cleanup intervals, keys and values at the int64 limits ---
	// (now + d overflows int64 for d > MaxInt64 - now: the stored deadline wraps to a negative number and the
	// entry never expires; none of these histories gets near a deadline, 1 ns durations are in the timed part)
	xd := []int64{maxI64, maxI64 - 1, minI64, minI64 + 1, 1 << 62, -(1 << 62), -2, 7e18, 8e18, maxI64 - 1790000000000000000}
	xe := []int64{maxI64, minI64, maxI64 - 5, 1 << 62, -2, 0}
	xci := []int64{0, maxI64, minI64, -1}
	xk := []int64{maxI64, minI64, -1, 0}
	xv := []int64{maxI64, minI64, -1, 1}
	for ei, e := range xe {
		for cii, ci := range xci {
			for di, d := range xd {
				k := xk[(ei+di)%len(xk)]
				v := xv[(cii+di)%len(xv)]
				nd := -d // -MinInt64 is MinInt64
				if nd > 0 && nd < c08Hour {
					nd = c08Hour // nothing in a time-free history gets near a deadline
				}
				ops := [][]int64{
					c08Op(1, 0, v, d, 0),  // Set k0 v d
					c08Op(2, 1, 1, 0, 0),  // SetDefault k1 a
					c08Op(3, k, v, d, 0),  // Update k v d   (k at a limit)
					c08Op(4, 0, 0, 0, 0),  // Get k0
					c08Op(11, 0, 0, 0, 0), // IsExpired k0
					c08Op(11, 1, 0, 0, 0), // IsExpired k1
					c08Op(6, 0, 0, 0, 0),  // DeleteExpired
					c08Op(9, 0, 0, 0, 0),  // Count
					c08Op(10, 1, 2, 1, d), // MapToCache {k0:a,k1:b,k2:a} d: k0, k1 live
					c08Op(1, 0, 2, d, 0),  // Set k0 again: exists
					c08Op(4, k, 0, 0, 0),  // Get k
					c08Op(8, 0, 0, 0, 0),  // List
					c08Op(5, k, 0, 0, 0),  // Delete k
					c08Op(3, 0, 0, d, 0),  // Update k0 "": rejected
					c08Op(3, 0, v, nd, 0), // Update k0 v -d
				}
				c08Emit(g, "extreme", c08Input(0, e, ci, 3, ops))
			}
		}
	}

	if !have {
		return
	}

	// --- timed, no janitor: deadlines of 2-3 ms, sleeps of 6 ms ---
	ms := int64(time.Millisecond)
	timedAl := [][]int64{
		c08Op(1, 0, 1, 3*ms, 0),    // Set k0 a 3ms
		c08Op(1, 0, 2, 0, 0),       // Set k0 b default
		c08Op(3, 0, 2, 2*ms, 0),    // Update k0 b 2ms
		c08Op(3, 0, 1, 0, 0),       // Update k0 a default
		c08Op(1, 1, 1, -1, 0),      // Set k1 a none
		c08Op(4, 0, 0, 0, 0),       // Get k0
		c08Op(11, 0, 0, 0, 0),      // IsExpired k0
		c08Op(6, 0, 0, 0, 0),       // DeleteExpired
		c08Op(12, 6*ms, 0, 0, 0),   // Sleep 6ms
		c08Op(5, 0, 0, 0, 0),       // Delete k0
		c08Op(1, 0, 2, c08Hour, 0), // Set k0 b 1h
		c08Op(10, 1, -1, -1, 3*ms), // MapToCache {k0:a} 3ms
	}
	var scripts [][]int64
	for _, e := range []int64{-1, 0, 3 * ms} {
		seqsUpTo(len(timedAl), g.Pick(3, 4), func(seq []int) {
			ops := make([][]int64, len(seq))
			for i, s := range seq {
				ops[i] = timedAl[s]
			}
			scripts = append(scripts, c08Input(1, e, 0, 2, ops))
		})
	}
	// random placements: durations 2-5 ms, sleeps 1-8 ms
	nt := g.Pick(400, 4000)
	for i := 0; i < nt; i++ {
		n := 3 + g.Rng.Intn(6)
		ops := make([][]int64, n)
		for j := range ops {
			k := g.Rng.Int63n(3)
			v := g.Rng.Int63n(3)
			d := []int64{0, -1, c08Hour, 2 * ms, 3 * ms, 4 * ms, 5 * ms}[g.Rng.Intn(7)]
			switch x := g.Rng.Intn(12); {
			case x < 3:
				ops[j] = c08Op(1, k, v, d, 0)
			case x < 4:
				ops[j] = c08Op(3, k, v, d, 0)
			case x < 6:
				ops[j] = c08Op(4, k, 0, 0, 0)
			case x < 7:
				ops[j] = c08Op(11, k, 0, 0, 0)
			case x < 8:
				ops[j] = c08Op(6, 0, 0, 0, 0)
			case x < 9:
				ops[j] = c08Op(9, 0, 0, 0, 0)
			default:
				ops[j] = c08Op(12, int64(1+g.Rng.Intn(8))*ms, 0, 0, 0)
			}
		}
		scripts = append(scripts, c08Input(1, []int64{-1, 0, 2 * ms, 4 * ms}[g.Rng.Intn(4)], 0, 3, ops))
	}
	c08EmitTimed(g, "timed", scripts, 12)

	// --- extreme (timed): 1 ns / 2 ns / 1 us durations; deadlines next to MaxInt64 on either side of the
	//     int64 wrap-around (absolute instants on the wire: the model adds what the code adds) ---
	scripts = nil
	tgen := time.Now().UnixNano()
	for _, d := range []int64{1, 2, 1000, maxI64 - tgen - c08Hour, maxI64 - tgen + int64(time.Second), maxI64, 1 << 62} {
		for _, e := range []int64{-1, 0, 1, maxI64 - tgen - c08Hour, maxI64} {
			scripts = append(scripts, c08Input(1, e, 0, 3, [][]int64{
				c08Op(1, 0, 1, d, 0),   // Set k0 a d
				c08Op(2, 1, 2, 0, 0),   // SetDefault k1 b
				c08Op(12, ms, 0, 0, 0), // Sleep 1 ms
				c08Op(4, 0, 0, 0, 0),   // Get k0
				c08Op(11, 0, 0, 0, 0),  // IsExpired k0
				c08Op(11, 1, 0, 0, 0),  // IsExpired k1
				c08Op(1, 0, 2, d, 0),   // Set k0 b d: succeeds iff the first one has expired
				c08Op(3, 2, 1, d, 0),   // Update k2 a d
				c08Op(12, ms, 0, 0, 0), // Sleep 1 ms
				c08Op(9, 0, 0, 0, 0),   // Count
				c08Op(6, 0, 0, 0, 0),   // DeleteExpired
				c08Op(9, 0, 0, 0, 0),   // Count
				c08Op(8, 0, 0, 0, 0),   // List
			}))
		}
	}
	c08EmitTimed(g, "extreme", scripts, 8)

	// --- large (timed): DeleteExpired over hundreds of expired + live + never-expiring entries, mixed ---
	// variant A: a quarter of the entries expires; variant B: most of them do
	scripts = nil
	type lv struct {
		blocks, pe, pl, pn, extra int64 // per block: expiring / live / never; one more MapToCache of `extra` never-expiring entries
		es                        []int64
	}
	bigB := int64(g.Pick(20, 60))
	for _, v := range []lv{
		{10, 10, 10, 10, 100, []int64{-1, 0, 1}},
		{10, 26, 2, 2, 5, []int64{-1, 0, 1}},
		{bigB, 10, 10, 10, 10 * bigB, []int64{-1}},
		{bigB, 26, 2, 2, 5, []int64{0, 1}},
	} {
		dl := (40 + 4*v.blocks) * ms // long enough to store everything before the first deadline
		for _, e := range v.es {
			if e == 1 {
				e = dl
			}
			var ops [][]int64
			for b := int64(0); b < v.blocks; b++ {
				ops = append(ops,
					c08Op(15, b*30, v.pe, 1, dl),           // entries that expire in dl
					c08Op(15, b*30+v.pe, v.pl, 1, c08Hour), // entries that stay live
					c08Op(15, b*30+v.pe+v.pl, v.pn, 1, -1)) // entries that never expire
			}
			nx := v.blocks * 30
			noexp := int64(-1)
			if e <= 0 {
				noexp = 0 // the default: no expiry either
			}
			ops = append(ops,
				c08Op(14, nx, v.extra, 1, noexp), // one MapToCache of never-expiring entries
				c08Op(9, 0, 0, 0, 0),
				c08Op(6, 0, 0, 0, 0), // DeleteExpired before the deadlines: removes nothing
				c08Op(9, 0, 0, 0, 0),
				c08Op(12, dl+30*ms, 0, 0, 0), // Sleep past the deadlines
				c08Op(11, 0, 0, 0, 0),        // IsExpired k0: true
				c08Op(9, 0, 0, 0, 0),         // Count: everything still stored
				c08Op(6, 0, 0, 0, 0),         // DeleteExpired: exactly the expired ones go
				c08Op(9, 0, 0, 0, 0),
				c08Op(8, 0, 0, 0, 0),         // List
				c08Op(15, 0, 10, 5, c08Hour), // the first block's keys can be Set again
				c08Op(6, 0, 0, 0, 0),
				c08Op(9, 0, 0, 0, 0))
			nk := nx + v.extra
			if nk > 400 {
				nk = 400
			}
			scripts = append(scripts, c08Input(1, e, 0, nk, ops))
		}
	}
	c08EmitTimed(g, "large", scripts, 3)

	// --- janitor: cleanup interval 5 / 10 ms ---
	scripts = nil
	for _, ci := range []int64{5 * ms, 10 * ms} {
		maxw := 4*ms + 2*ci + c08Slack + 15*ms
		janAl := [][]int64{
			c08Op(1, 0, 1, 3*ms, 0),         // Set k0 a 3ms
			c08Op(2, 1, 1, 0, 0),            // SetDefault k1 a
			c08Op(1, 2, 2, -1, 0),           // Set k2 b none
			c08Op(3, 0, 2, 4*ms, 0),         // Update k0 b 4ms
			c08Op(1, 0, 2, c08Hour, 0),      // Set k0 b 1h
			c08Op(4, 0, 0, 0, 0),            // Get k0
			c08Op(4, 1, 0, 0, 0),            // Get k1
			c08Op(12, 5*ci/2+4*ms, 0, 0, 0), // Sleep past a deadline and two ticks
			c08Op(13, 0, maxw, 0, 0),        // Await k0 gone
		}
		for _, e := range []int64{-1, 0, 3 * ms} {
			seqsUpTo(len(janAl), g.Pick(3, 4), func(seq []int) {
				ops := make([][]int64, len(seq))
				for i, s := range seq {
					ops[i] = janAl[s]
				}
				// every script ends by sleeping past two ticks, so that the final Gets
				// see what the janitor left
				ops = append(ops, c08Op(12, 5*ci/2+4*ms, 0, 0, 0))
				scripts = append(scripts, c08Input(2, e, ci, 3, ops))
			})
		}
	}
	c08EmitTimed(g, "janitor", scripts, 16)

	// --- large (janitor): one tick of the cleanup goroutine sweeps a cache in which most of 300-600 entries
	//     have expired; the live and the never-expiring ones must still be there ---
	scripts = nil
	for _, n := range []int64{300, int64(g.Pick(300, 1200))} {
		for _, e := range []int64{-1, 0} {
			ci := 10 * ms
			dl := (30 + n/10) * ms
			ops := [][]int64{
				c08Op(15, 0, n, 1, dl),                       // n entries that expire in dl
				c08Op(15, n, 5, 1, -1),                       // 5 that never expire
				c08Op(15, n+5, 5, 1, c08Hour),                // 5 live
				c08Op(2, n+10, 1, 0, 0),                      // SetDefault: no expiry either (default <= 0)
				c08Op(12, dl+5*ci/2, 0, 0, 0),                // Sleep past the deadlines and two ticks
				c08Op(13, 0, 4*ms+2*ci+c08Slack+15*ms, 0, 0), // Await k0 gone
				c08Op(4, n, 0, 0, 0),                         // Get of a never-expiring entry
				c08Op(4, n+5, 0, 0, 0),                       // Get of a live entry
				c08Op(4, n+10, 0, 0, 0),
			}
			scripts = append(scripts, c08Input(2, e, ci, n+11, ops))
		}
	}
	c08EmitTimed(g, "large", scripts, 2)
}

func init() {
	register(&Prop{
		ID:       "C08",
		Rule:     "time-free: (a) every sequence up to length 2 (thorough 3) over the full 91-operation alphabet (3 keys x values {\"\",a,b} x durations {default,none,1h}; Set/SetDefault/Update/Get/Delete/IsExpired/DeleteExpired/Flush/List/Count/6 MapToCache maps), (b) each of the 7^3 stored states followed by every operation, (c) every sequence up to length 5 (thorough 6) over a 12-operation alphabet, in the configurations default {-1,0,1h} x cleanup {0,1h}; then random histories up to length 44 (thorough 204) over up to 5 keys; odd durations/configurations; large: fixed and random histories of range operations over 100-2000 keys (n Sets with every fifth value rejected, MapToCache of 100-2000 entries over live and missing keys, n Deletes/Updates, DeleteExpired, Flush, refill, Count/List after each phase, Get/IsExpired of the first 400 keys at the end) and, timed, DeleteExpired over 300-800 (thorough 2400) entries, inserted interleaved, of which a quarter (variant A) or 85 % (variant B) expired 30 ms ago and the rest is live or never expires, and one janitor sweep over 300 (thorough 1200) expired entries next to live and never-expiring ones; extreme: durations/default expiries/cleanup intervals/keys/values at MaxInt64, MinInt64, +-2^62, -2, 7e18, 8e18 (time-free) and, timed at absolute instants, durations of 1 ns, 2 ns, 1 us and deadlines one hour below / one second above the int64 wrap-around of now+d; timed: every script up to length 3 (thorough 4) over a 12-operation alphabet with 2-3 ms deadlines and 6 ms sleeps plus random placements, judged at the measured instants, discarded when a deadline lies inside a call's clock bracket; janitor: every script up to length 3 (thorough 4) over 9 operations with cleanup every 5/10 ms. Each case ends with Count, List and Get/IsExpired of every key. Non-trivial: at least one successful store and at least one of: an error result, a removal by Delete/Flush/DeleteExpired, an observed expiry.",
		Exec:     execC08,
		Gen:      genC08,
		Describe: describeC08,
	})
}
