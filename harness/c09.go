package main

import (
	"fmt"
	"sort"
	"strings"

	"github.com/esimov/gogu/queue"
	"github.com/esimov/gogu/trie"
)

// C09 wire (mirror of coq/theories/C09_Wire.v)
//
//	input    = concat [op len b1..blen val]
//	           op 0 Put key val | 1 Get key | 2 Contains key | 3 Size | 4 Keys | 5 StartsWith p | 6 LongestPrefix q
//	observed = per-op results ++ [final Size] ++ enc_zss(final Keys, drained)
//	           Put [0] ([2] panic) | Get [found value] | Contains [b] | Size [n]
//	           Keys err::enc_zss | StartsWith err::enc_zss | LongestPrefix [0 len bytes..] / [1 1]
const (
	c09Put = iota
	c09Get
	c09Contains
	c09Size
	c09Keys
	c09StartsWith
	c09LongestPrefix
)

type c09Op struct {
	op  int
	key string
	val int
}

func c09Enc(ops []c09Op) []int64 {
	w := &W{}
	for _, o := range ops {
		w.Int(o.op).Bytes(o.key).Int(o.val)
	}
	return w.Out()
}

func c09Dec(in []int64) ([]c09Op, bool) {
	r := &R{w: in}
	var ops []c09Op
	for len(r.w) > 0 && !r.bad {
		op := r.Int()
		key := r.Bytes()
		val := r.Int()
		ops = append(ops, c09Op{op, key, val})
	}
	return ops, !r.bad
}

// c09Drain empties the result queue, in order, as enc_zss.
func c09Drain(q trie.Queuer[string]) []int64 {
	var ks []string
	for i := 0; q.Size() > 0 && i < 1<<20; i++ {
		k, err := q.Dequeue()
		if err != nil {
			break
		}
		ks = append(ks, k)
	}
	w := &W{}
	w.Int(len(ks))
	for _, k := range ks {
		w.Bytes(k)
	}
	return w.Out()
}

func execC09(in []int64) []int64 {
	ops, ok := c09Dec(in)
	if !ok {
		return []int64{-1}
	}
	t := trie.New[string, int](queue.New[string]())
	var out []int64
	for _, o := range ops {
		var res []int64
		o := o
		panicked := try(func() {
			switch o.op {
			case c09Put:
				t.Put(o.key, o.val)
				res = []int64{0}
			case c09Get:
				v, found := t.Get(o.key)
				res = []int64{b2i(found), int64(v)}
			case c09Contains:
				res = []int64{b2i(t.Contains(o.key))}
			case c09Size:
				res = []int64{int64(t.Size())}
			case c09Keys:
				q, err := t.Keys()
				res = append([]int64{b2i(err != nil)}, c09Drain(q)...)
			case c09StartsWith:
				q, err := t.StartsWith(o.key)
				res = append([]int64{b2i(err != nil)}, c09Drain(q)...)
			case c09LongestPrefix:
				p, err := t.LongestPrefix(o.key)
				if err != nil {
					res = resErr(1)
				} else {
					res = (&W{}).Int(0).Bytes(p).Out()
				}
			default:
				res = []int64{-1}
			}
		})
		if panicked {
			res = resPanic()
		}
		out = append(out, res...)
	}
	if try(func() {
		out = append(out, int64(t.Size()))
		q, _ := t.Keys()
		out = append(out, c09Drain(q)...)
	}) {
		out = append(out, resPanic()...)
	}
	return out
}

func describeC09(in []int64) string {
	ops, ok := c09Dec(in)
	if !ok {
		return "?"
	}
	names := []string{"Put", "Get", "Contains", "Size", "Keys", "StartsWith", "LongestPrefix"}
	var sb strings.Builder
	sb.WriteString("New()")
	for _, o := range ops {
		switch o.op {
		case c09Put:
			fmt.Fprintf(&sb, "; Put(%q,%d)", o.key, o.val)
		case c09Size, c09Keys:
			fmt.Fprintf(&sb, "; %s()", names[o.op])
		default:
			if o.op >= 0 && o.op < len(names) {
				fmt.Fprintf(&sb, "; %s(%q)", names[o.op], o.key)
			} else {
				fmt.Fprintf(&sb, "; ?%d", o.op)
			}
		}
	}
	sb.WriteString("; [Size(); Keys()]")
	return sb.String()
}

// c09Strings returns every string of length lo..hi over the alphabet, shortest first.
func c09Strings(alpha string, lo, hi int) []string {
	var out []string
	for n := lo; n <= hi; n++ {
		seqsExact(len(alpha), n, func(seq []int) {
			b := make([]byte, n)
			for i, v := range seq {
				b[i] = alpha[v]
			}
			out = append(out, string(b))
		})
	}
	return out
}

// c09Classify bumps the distribution counters and decides non-triviality
// (generator-side bookkeeping only; it judges nothing): the history stores two
// keys one of which is a proper prefix of the other, or asks Get/Contains for
// an unstored proper prefix of a stored key.
func c09Classify(g *Gen, ops []c09Op) bool {
	stored := map[string]bool{}
	nested, prefixQuery, hiByte, reput := false, false, false, false
	names := []string{"Put", "Get", "Contains", "Size", "Keys", "StartsWith", "LongestPrefix"}
	for _, o := range ops {
		g.Count("op:" + names[o.op])
		if o.op != c09Size && o.op != c09Keys && o.key == "" {
			g.Count("empty argument")
		}
		switch o.op {
		case c09Put:
			if stored[o.key] {
				reput = true
			}
			for k := range stored {
				if k != o.key && (strings.HasPrefix(k, o.key) || strings.HasPrefix(o.key, k)) {
					nested = true
				}
			}
			stored[o.key] = true
			for i := 0; i < len(o.key); i++ {
				if o.key[i] >= 0x80 {
					hiByte = true
				}
			}
		case c09Get, c09Contains:
			if !stored[o.key] && o.key != "" {
				for k := range stored {
					if strings.HasPrefix(k, o.key) {
						prefixQuery = true
					}
				}
			}
		}
	}
	if nested {
		g.Count("stores a key and a proper prefix of it")
	}
	if prefixQuery {
		g.Count("Get/Contains of an unstored proper prefix of a stored key")
	}
	if hiByte {
		g.Count("stores a key with a byte >= 0x80")
	}
	if reput {
		g.Count("re-Put of a stored key")
	}
	switch n := len(stored); {
	case n <= 5:
		g.Count(fmt.Sprintf("distinct keys:%d", n))
	default:
		g.Count("distinct keys:6+")
	}
	return nested || prefixQuery
}

// c09Suite: one query kind (Get, Contains, StartsWith or LongestPrefix) per
// case, to keep cases short: the empty-argument call first (it must change
// nothing), then the call for every query string, then Size and Keys.
func c09Suite(ops []c09Op, queries []string, kind int) []c09Op {
	out := append([]c09Op{}, ops...)
	out = append(out, c09Op{kind, "", 0})
	for _, q := range queries {
		out = append(out, c09Op{kind, q, 0})
	}
	return append(out, c09Op{c09Size, "", 0}, c09Op{c09Keys, "", 0})
}

var c09Kinds = []int{c09Get, c09Contains, c09StartsWith, c09LongestPrefix}

func genC09(g *Gen) {
	emit := func(stream string, ops []c09Op) {
		g.Case(stream, c09Classify(g, ops), c09Enc(ops))
	}
	puts := func(keys []string) []c09Op {
		ops := make([]c09Op, len(keys))
		for i, k := range keys {
			ops[i] = c09Op{c09Put, k, 10*(i+1) + len(k)}
		}
		return ops
	}
	// multisets of size n over the index range [0,k): non-decreasing index sequences
	multisets := func(k, n int, fn func(idx []int)) {
		idx := make([]int, n)
		var rec func(i, from int)
		rec = func(i, from int) {
			if i == n {
				fn(idx)
				return
			}
			for v := from; v < k; v++ {
				idx[i] = v
				rec(i+1, v)
			}
		}
		rec(0, 0)
	}
	family := func(alpha string, maxKeyLen, maxSeq, maxMulti, maxQuery int) {
		pool := c09Strings(alpha, 1, maxKeyLen)
		queries := c09Strings(alpha, 1, maxQuery)
		// every insertion sequence (with repetitions) of up to maxSeq keys
		seqsUpTo(len(pool), maxSeq, func(seq []int) {
			keys := make([]string, len(seq))
			for i, v := range seq {
				keys[i] = pool[v]
			}
			for _, kind := range c09Kinds {
				emit("exhaustive", c09Suite(puts(keys), queries, kind))
			}
		})
		// every multiset of maxSeq+1 .. maxMulti keys, inserted ascending, descending and middle-out
		for n := maxSeq + 1; n <= maxMulti; n++ {
			multisets(len(pool), n, func(idx []int) {
				asc := make([]string, n)
				for i, v := range idx {
					asc[i] = pool[v]
				}
				sort.Strings(asc)
				desc := make([]string, n)
				mid := make([]string, 0, n)
				for i := range asc {
					desc[n-1-i] = asc[i]
				}
				for lo, hi := (n-1)/2, (n-1)/2+1; lo >= 0 || hi < n; lo, hi = lo-1, hi+1 {
					if lo >= 0 {
						mid = append(mid, asc[lo])
					}
					if hi < n {
						mid = append(mid, asc[hi])
					}
				}
				for _, kind := range c09Kinds {
					emit("exhaustive", c09Suite(puts(asc), queries, kind))
					emit("exhaustive", c09Suite(puts(desc), queries, kind))
					emit("exhaustive", c09Suite(puts(mid), queries, kind))
				}
			})
		}
	}
	// --- exhaustive small scope
	if g.Quick() {
		family("ab", 3, 3, 4, 4)           // keys 1..3 over {a,b}: all sequences <= 3, multisets of 4; queries <= 4
		family("a\xc3\xa9", 2, 3, 3, 3)    // keys 1..2 over {a,0xC3,0xA9}: all sequences <= 3; queries <= 3
	} else {
		family("ab", 4, 3, 5, 4)           // keys 1..4 over {a,b}: all sequences <= 3, multisets of 4 and 5
		family("ab\xc3", 3, 3, 3, 3)       // keys 1..3 over {a,b,0xC3}: all sequences <= 3; queries <= 3
		family("ab\xc3", 2, 3, 5, 4)       // keys 1..2 over {a,b,0xC3}: multisets of 4 and 5; queries <= 4
		family("a\xc3\xa9", 2, 4, 4, 3)    // keys 1..2 over {a,0xC3,0xA9}: all sequences <= 4
	}
	g.Exhaustive("exhaustive")

	// --- seeded random: key sets grown by extending / truncating / mutating
	// earlier keys (shared prefixes, nested keys), bytes >= 0x80, interleaved queries
	alpha := []byte{'a', 'b', 'c', 0x00, 0x7f, 0x80, 0xa9, 0xc3, 0xff}
	nr := g.Pick(1500, 20000)
	for it := 0; it < nr; it++ {
		na := 2 + g.Rng.Intn(len(alpha)-1)
		al := make([]byte, na)
		for i, p := range g.Rng.Perm(len(alpha))[:na] {
			al[i] = alpha[p]
		}
		var pool []string
		newKey := func() string {
			if len(pool) == 0 || g.Rng.Intn(5) == 0 {
				n := 1 + g.Rng.Intn(4)
				b := make([]byte, n)
				for i := range b {
					b[i] = al[g.Rng.Intn(na)]
				}
				return string(b)
			}
			k := pool[g.Rng.Intn(len(pool))]
			switch g.Rng.Intn(4) {
			case 0: // extend
				return k + string([]byte{al[g.Rng.Intn(na)]})
			case 1: // truncate
				if len(k) > 1 {
					return k[:1+g.Rng.Intn(len(k)-1)]
				}
				return k + string([]byte{al[g.Rng.Intn(na)]})
			case 2: // mutate the last byte
				return k[:len(k)-1] + string([]byte{al[g.Rng.Intn(na)]})
			default: // the same key again
				return k
			}
		}
		var ops []c09Op
		nops := 10 + g.Rng.Intn(50)
		for i := 0; i < nops; i++ {
			switch x := g.Rng.Intn(100); {
			case x < 40:
				k := newKey()
				pool = append(pool, k)
				ops = append(ops, c09Op{c09Put, k, g.Rng.Intn(1000)})
			case x < 55:
				ops = append(ops, c09Op{c09Get, newKey(), 0})
			case x < 65:
				ops = append(ops, c09Op{c09Contains, newKey(), 0})
			case x < 70:
				ops = append(ops, c09Op{c09Size, "", 0})
			case x < 75:
				ops = append(ops, c09Op{c09Keys, "", 0})
			case x < 88:
				p := newKey()
				if g.Rng.Intn(2) == 0 && len(p) > 1 {
					p = p[:1+g.Rng.Intn(len(p)-1)]
				}
				ops = append(ops, c09Op{c09StartsWith, p, 0})
			default:
				q := newKey()
				for j := g.Rng.Intn(3); j > 0; j-- {
					q += string([]byte{al[g.Rng.Intn(na)]})
				}
				ops = append(ops, c09Op{c09LongestPrefix, q, 0})
			}
		}
		emit("random", ops)
	}

	// --- malformed / boundary: empty trie, empty arguments, byte 0, long keys
	emit("malformed", nil)
	long := strings.Repeat("ab\xc3", 200)
	for _, kind := range c09Kinds {
		emit("malformed", c09Suite(nil, []string{"a", "\x00", "\xff\xff"}, kind))
		emit("malformed", c09Suite(puts([]string{"\x00", "\x00\x00", "\xff", "\xff\x00"}), []string{"\x00", "\x00\x00", "\x00\x00\x00", "\xff", "\xff\x00", "\xfe"}, kind))
		emit("malformed", c09Suite(puts([]string{long, long[:300], long + "a"}), []string{long, long[:299], long[:300], long[:301], long + "a", long + "ab", "a"}, kind))
	}
}

func init() {
	register(&Prop{ID: "C09", Exec: execC09, Gen: genC09, Describe: describeC09,
		Rule: "exhaustive: keys of length 1..3 over {a,b}: every Put sequence (with repetitions) of <= 3 keys and every multiset of 4 keys inserted in ascending, descending and middle-out order; keys of length 1..2 over {a,0xC3,0xA9}: every Put sequence of <= 3 keys (thorough: keys 1..4 over {a,b} with multisets of 4 and 5, keys 1..3 over {a,b,0xC3}, multisets of 5, sequences of 4); every key sequence is followed, in four separate cases (one per query kind Get, Contains, StartsWith, LongestPrefix), by the empty-argument call and then the call for EVERY string of length 1..4 (resp. 1..3) over the alphabet, Size and Keys (queues drained). random: 10..60 interleaved operations on key sets grown by extending, truncating, mutating and repeating earlier keys over a random sub-alphabet of {a,b,c,0x00,0x7f,0x80,0xa9,0xc3,0xff}. non-trivial = the history stores a key together with a proper prefix of it, or asks Get/Contains for an unstored proper prefix of a stored key; distinct = distinct wire input"})
}
