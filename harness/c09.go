package main

import (
	"fmt"
	"sort"
	"strconv"
	"strings"

	"github.com/esimov/gogu/queue"
	"github.com/esimov/gogu/trie"
)

// C09 wire (mirror of coq/theories/C09_Wire.v)
//
//	input    = concat [op len b1..blen val]
//	           op 0 Put key val | 1 Get key | 2 Contains key | 3 Size | 4 Keys | 5 StartsWith p | 6 LongestPrefix q
//	observed = per-op results ++ [final Size] ++ enc_zss(final Keys, drained)
//	           Put [0] ([2] panic) | Get [found value] | Contains [b] | Size [n]
//	           Keys err::enc_zss | StartsWith err::enc_zss | LongestPrefix [0 len bytes..] / [1 1]
const (
	c09Put = iota
	c09Get
	c09Contains
	c09Size
	c09Keys
	c09StartsWith
	c09LongestPrefix
)

type c09Op struct {
	op  int
	key string
	val int
}

func c09Enc(ops []c09Op) []int64 {
	w := &W{}
	for _, o := range ops {
		w.Int(o.op).Bytes(o.key).Int(o.val)
	}
	return w.Out()
}

func c09Dec(in []int64) ([]c09Op, bool) {
	r := &R{w: in}
	var ops []c09Op
	for len(r.w) > 0 && !r.bad {
		op := r.Int()
		key := r.Bytes()
		val := r.Int()
		ops = append(ops, c09Op{op, key, val})
	}
	return ops, !r.bad
}

// c09Drain empties the result queue, in order, as enc_zss — and then (refill)
// puts the keys back, so that the trie's queue is NOT empty when the next Keys
// or StartsWith begins: what the next call hands back must be its own result
// only (the code clears the queue first; a call that forgot to would show).
func c09Drain[K ~string](q trie.Queuer[K], refill bool) []int64 {
	var ks []K
	for i := 0; q.Size() > 0 && i < 1<<20; i++ {
		k, err := q.Dequeue()
		if err != nil {
			break
		}
		ks = append(ks, k)
	}
	if refill {
		for _, k := range ks {
			q.Enqueue(k)
		}
	}
	w := &W{}
	w.Int(len(ks))
	for _, k := range ks {
		w.Bytes(string(k))
	}
	return w.Out()
}

// ---- type instances (selected by a leading pseudo-record [7 0 i], dropped by C09_Wire.strip_instance)
//
//	i = 0 / no record: Trie[string, int] over queue.Queue, drained results put back
//	i = 16 + bits:     1 V = string (else the struct c09Val)   2 queue.LQueue behind c09LQ (else queue.Queue)
//	                   4 drained results are NOT put back       8 K = the named type c09Key (else string)
//
// Keys are rebuilt from a fresh byte slice for every call, values are produced by
// strconv at run time: equal keys / values never share a backing array.
const c09Instance = 7

type c09Key string

// the named key type has String and Error methods: a trie that prints its keys through fmt would
// return the methods' text instead of the stored bytes
func (k c09Key) String() string { return "KEY<" + strings.ToUpper(string(k)) + ">" }
func (k c09Key) Error() string  { return "error key " + string(k) }

type c09Val struct {
	n int
	s string
	b []byte // makes the type non-comparable
}

// c09LQ adapts queue.LQueue to trie.Queuer: LQueue.Dequeue returns only the item
// (no error), so — contrary to the comment on trie.Queuer — *queue.LQueue does not
// implement the interface as it is.  Enqueue, Size and Clear, the methods the trie
// itself calls, are LQueue's own.
type c09LQ[K ~string] struct{ q *queue.LQueue[K] }

func (a c09LQ[K]) Enqueue(k K) { a.q.Enqueue(k) }
func (a c09LQ[K]) Dequeue() (K, error) {
	if a.q.Size() == 0 {
		var zero K
		return zero, fmt.Errorf("queue is empty")
	}
	return a.q.Dequeue(), nil
}
func (a c09LQ[K]) Size() int { return a.q.Size() }
func (a c09LQ[K]) Clear()    { a.q.Clear() }

func c09EncStr(v int) string { return strconv.Itoa(v) }
func c09DecStr(s string) int64 {
	if s == "" {
		return 0
	}
	v, err := strconv.Atoi(s)
	if err != nil || strconv.Itoa(v) != s {
		return -1
	}
	return int64(v)
}
func c09EncVal(v int) c09Val {
	s := strconv.Itoa(v)
	return c09Val{n: v, s: s, b: []byte(s)}
}
func c09DecVal(x c09Val) int64 {
	if x.n == 0 && x.s == "" && x.b == nil {
		return 0
	}
	if x.s != strconv.Itoa(x.n) || string(x.b) != x.s {
		return -1
	}
	return int64(x.n)
}

func c09Run[K ~string, V any](ops []c09Op, q trie.Queuer[K], enc func(int) V, dec func(V) int64, refill bool) []int64 {
	key := func(s string) K { return K(append([]byte(nil), s...)) } // a fresh backing array per call
	t := trie.New[K, V](q)
	var out []int64
	for _, o := range ops {
		var res []int64
		o := o
		panicked := try(func() {
			switch o.op {
			case c09Put:
				t.Put(key(o.key), enc(o.val))
				res = []int64{0}
			case c09Get:
				v, found := t.Get(key(o.key))
				res = []int64{b2i(found), dec(v)}
			case c09Contains:
				res = []int64{b2i(t.Contains(key(o.key)))}
			case c09Size:
				res = []int64{int64(t.Size())}
			case c09Keys:
				q, err := t.Keys()
				res = append([]int64{b2i(err != nil)}, c09Drain(q, refill)...)
			case c09StartsWith:
				q, err := t.StartsWith(key(o.key))
				res = append([]int64{b2i(err != nil)}, c09Drain(q, refill)...)
			case c09LongestPrefix:
				p, err := t.LongestPrefix(key(o.key))
				if err != nil {
					res = resErr(1)
				} else {
					res = (&W{}).Int(0).Bytes(string(p)).Out()
				}
			default:
				res = []int64{-1}
			}
		})
		if panicked {
			res = resPanic()
		}
		out = append(out, res...)
	}
	if try(func() {
		out = append(out, int64(t.Size()))
		q, _ := t.Keys()
		out = append(out, c09Drain(q, refill)...)
	}) {
		out = append(out, resPanic()...)
	}
	return out
}

func c09RunQ[K ~string](ops []c09Op, inst int) []int64 {
	var q trie.Queuer[K] = queue.New[K]()
	if inst&2 != 0 {
		q = c09LQ[K]{queue.NewLinked(K("seed element of NewLinked"))}
	}
	refill := inst&4 == 0
	if inst&1 != 0 {
		return c09Run[K, string](ops, q, c09EncStr, c09DecStr, refill)
	}
	return c09Run[K, c09Val](ops, q, c09EncVal, c09DecVal, refill)
}

func execC09(in []int64) []int64 {
	ops, ok := c09Dec(in)
	if !ok {
		return []int64{-1}
	}
	inst := 0
	if len(ops) > 0 && ops[0].op == c09Instance {
		if ops[0].key != "" {
			return []int64{-1}
		}
		inst, ops = ops[0].val, ops[1:]
	}
	switch {
	case inst == 0:
		return c09Run[string, int](ops, queue.New[string](), func(v int) int { return v }, func(v int) int64 { return int64(v) }, true)
	case inst < 16 || inst >= 32:
		return []int64{-1}
	case inst&8 != 0:
		return c09RunQ[c09Key](ops, inst)
	default:
		return c09RunQ[string](ops, inst)
	}
}

func describeC09(in []int64) string {
	ops, ok := c09Dec(in)
	if !ok {
		return "?"
	}
	names := []string{"Put", "Get", "Contains", "Size", "Keys", "StartsWith", "LongestPrefix"}
	var sb strings.Builder
	if len(ops) > 0 && ops[0].op == c09Instance {
		i := ops[0].val
		ops = ops[1:]
		k, v, q, r := "string", "struct", "queue.Queue", ""
		if i&8 != 0 {
			k = "Key(named string)"
		}
		if i&1 != 0 {
			v = "string"
		}
		if i&2 != 0 {
			q = "queue.LQueue"
		}
		if i&4 != 0 {
			r = ", results not put back"
		}
		fmt.Fprintf(&sb, "New[%s,%s](%s%s)", k, v, q, r)
	} else {
		sb.WriteString("New()")
	}
	short := func(k string) string {
		if len(k) <= 40 {
			return fmt.Sprintf("%q", k)
		}
		return fmt.Sprintf("%q..%q(%d bytes)", k[:12], k[len(k)-8:], len(k))
	}
	for i, o := range ops {
		if i >= 60 {
			fmt.Fprintf(&sb, "; ... (%d operations)", len(ops))
			break
		}
		switch o.op {
		case c09Put:
			fmt.Fprintf(&sb, "; Put(%s,%d)", short(o.key), o.val)
		case c09Size, c09Keys:
			fmt.Fprintf(&sb, "; %s()", names[o.op])
		default:
			if o.op >= 0 && o.op < len(names) {
				fmt.Fprintf(&sb, "; %s(%s)", names[o.op], short(o.key))
			} else {
				fmt.Fprintf(&sb, "; ?%d", o.op)
			}
		}
	}
	sb.WriteString("; [Size(); Keys()]")
	return sb.String()
}

// c09Strings returns every string of length lo..hi over the alphabet, shortest first.
func c09Strings(alpha string, lo, hi int) []string {
	var out []string
	for n := lo; n <= hi; n++ {
		seqsExact(len(alpha), n, func(seq []int) {
			b := make([]byte, n)
			for i, v := range seq {
				b[i] = alpha[v]
			}
			out = append(out, string(b))
		})
	}
	return out
}

// c09Classify bumps the distribution counters and decides non-triviality
// (generator-side bookkeeping only; it judges nothing): the history stores two
// keys one of which is a proper prefix of the other, or asks Get/Contains for
// an unstored proper prefix of a stored key.
func c09Classify(g *Gen, ops []c09Op) bool {
	stored := map[string]bool{}
	prefixes := map[string]bool{} // every proper prefix of a stored key
	nested, prefixQuery, hiByte, reput, readBeforePut := false, false, false, false, false
	names := []string{"Put", "Get", "Contains", "Size", "Keys", "StartsWith", "LongestPrefix"}
	maxLen, reads := 0, 0
	for _, o := range ops {
		g.Count("op:" + names[o.op])
		if o.op != c09Size && o.op != c09Keys && o.key == "" {
			g.Count("empty argument")
		}
		switch o.op {
		case c09Put:
			if reads > 0 {
				readBeforePut = true
			}
			if stored[o.key] {
				reput = true
			}
			if prefixes[o.key] {
				nested = true
			}
			for i := 1; i < len(o.key); i++ {
				if stored[o.key[:i]] {
					nested = true
				}
				prefixes[o.key[:i]] = true
			}
			stored[o.key] = true
			if len(o.key) > maxLen {
				maxLen = len(o.key)
			}
			for i := 0; i < len(o.key); i++ {
				if o.key[i] >= 0x80 {
					hiByte = true
				}
			}
		case c09Get, c09Contains:
			reads++
			if !stored[o.key] && o.key != "" && prefixes[o.key] {
				prefixQuery = true
			}
		default:
			reads++
		}
	}
	if readBeforePut {
		g.Count("a query precedes a Put (interleaved)")
	}
	switch {
	case maxLen >= 1000:
		g.Count("longest key: 1000+ bytes")
	case maxLen >= 257:
		g.Count("longest key: 257..999 bytes")
	case maxLen >= 64:
		g.Count("longest key: 64..256 bytes")
	}
	if nested {
		g.Count("stores a key and a proper prefix of it")
	}
	if prefixQuery {
		g.Count("Get/Contains of an unstored proper prefix of a stored key")
	}
	if hiByte {
		g.Count("stores a key with a byte >= 0x80")
	}
	if reput {
		g.Count("re-Put of a stored key")
	}
	switch n := len(stored); {
	case n <= 5:
		g.Count(fmt.Sprintf("distinct keys:%d", n))
	case n < 100:
		g.Count("distinct keys:6-99")
	default:
		g.Count("distinct keys:100+")
	}
	return nested || prefixQuery
}

// c09Suite: one query kind (Get, Contains, StartsWith or LongestPrefix) per
// case, to keep cases short: the empty-argument call first (it must change
// nothing), then the call for every query string, then Size and Keys.
func c09Suite(ops []c09Op, queries []string, kind int) []c09Op {
	out := append([]c09Op{}, ops...)
	out = append(out, c09Op{kind, "", 0})
	for _, q := range queries {
		out = append(out, c09Op{kind, q, 0})
	}
	return append(out, c09Op{c09Size, "", 0}, c09Op{c09Keys, "", 0})
}

var c09Kinds = []int{c09Get, c09Contains, c09StartsWith, c09LongestPrefix}

func genC09(g *Gen) {
	emit := func(stream string, ops []c09Op) {
		g.Case(stream, c09Classify(g, ops), c09Enc(ops))
	}
	puts := func(keys []string) []c09Op {
		ops := make([]c09Op, len(keys))
		for i, k := range keys {
			ops[i] = c09Op{c09Put, k, 10*(i+1) + len(k)}
		}
		return ops
	}
	// multisets of size n over the index range [0,k): non-decreasing index sequences
	multisets := func(k, n int, fn func(idx []int)) {
		idx := make([]int, n)
		var rec func(i, from int)
		rec = func(i, from int) {
			if i == n {
				fn(idx)
				return
			}
			for v := from; v < k; v++ {
				idx[i] = v
				rec(i+1, v)
			}
		}
		rec(0, 0)
	}
	family := func(alpha string, maxKeyLen, maxSeq, maxMulti, maxQuery int) {
		pool := c09Strings(alpha, 1, maxKeyLen)
		queries := c09Strings(alpha, 1, maxQuery)
		// every insertion sequence (with repetitions) of up to maxSeq keys
		seqsUpTo(len(pool), maxSeq, func(seq []int) {
			keys := make([]string, len(seq))
			for i, v := range seq {
				keys[i] = pool[v]
			}
			for _, kind := range c09Kinds {
				emit("exhaustive", c09Suite(puts(keys), queries, kind))
			}
		})
		// every multiset of maxSeq+1 .. maxMulti keys, inserted ascending, descending and middle-out
		for n := maxSeq + 1; n <= maxMulti; n++ {
			nms := 0
			multisets(len(pool), n, func(idx []int) {
				asc := make([]string, n)
				for i, v := range idx {
					asc[i] = pool[v]
				}
				sort.Strings(asc)
				desc := make([]string, n)
				mid := make([]string, 0, n)
				for i := range asc {
					desc[n-1-i] = asc[i]
				}
				for lo, hi := (n-1)/2, (n-1)/2+1; lo >= 0 || hi < n; lo, hi = lo-1, hi+1 {
					if lo >= 0 {
						mid = append(mid, asc[lo])
					}
					if hi < n {
						mid = append(mid, asc[hi])
					}
				}
				nms++
				for _, kind := range c09Kinds {
					// multisets of 5 (thorough tier only): middle-out always, ascending and
					// descending alternately — keeps the thorough tier near 10 minutes
					if n < 5 || nms%2 == 0 {
						emit("exhaustive", c09Suite(puts(asc), queries, kind))
					}
					if n < 5 || nms%2 == 1 {
						emit("exhaustive", c09Suite(puts(desc), queries, kind))
					}
					emit("exhaustive", c09Suite(puts(mid), queries, kind))
				}
			})
		}
	}
	// --- exhaustive small scope
	if g.Quick() {
		family("ab", 3, 3, 4, 4)        // keys 1..3 over {a,b}: all sequences <= 3, multisets of 4; queries <= 4
		family("a\xc3\xa9", 2, 3, 3, 3) // keys 1..2 over {a,0xC3,0xA9}: all sequences <= 3; queries <= 3
	} else {
		family("ab", 4, 3, 5, 4)        // keys 1..4 over {a,b}: all sequences <= 3, multisets of 4 and 5
		family("ab\xc3", 3, 3, 3, 3)    // keys 1..3 over {a,b,0xC3}: all sequences <= 3; queries <= 3
		family("ab\xc3", 2, 3, 5, 4)    // keys 1..2 over {a,b,0xC3}: multisets of 4 and 5; queries <= 4
		family("a\xc3\xa9", 2, 4, 4, 3) // keys 1..2 over {a,0xC3,0xA9}: all sequences <= 4
	}
	// --- exhaustive, interleaved: every sequence of <= 3 (thorough 4) operations
	// over Put k / Get k / StartsWith k / LongestPrefix k (k one of the six keys
	// of length 1..2 over {a,b}), Keys and Size — queries BEFORE and BETWEEN the
	// Puts, results observed per operation — followed by Get of the six keys.
	// (State that a query leaves behind — the shared result queue, anything a
	// lookup might remember — meets a later Put only on such histories.)
	{
		pool := c09Strings("ab", 1, 2)
		np := len(pool)
		seqsUpTo(4*np+2, g.Pick(3, 4), func(seq []int) {
			ops := make([]c09Op, 0, len(seq)+np)
			for i, v := range seq {
				switch {
				case v < np:
					ops = append(ops, c09Op{c09Put, pool[v], 10*(i+1) + len(pool[v])})
				case v < 2*np:
					ops = append(ops, c09Op{c09Get, pool[v-np], 0})
				case v < 3*np:
					ops = append(ops, c09Op{c09StartsWith, pool[v-2*np], 0})
				case v < 4*np:
					ops = append(ops, c09Op{c09LongestPrefix, pool[v-3*np] + "b", 0})
				case v == 4*np:
					ops = append(ops, c09Op{c09Keys, "", 0})
				default:
					ops = append(ops, c09Op{c09Size, "", 0})
				}
			}
			for _, k := range pool {
				ops = append(ops, c09Op{c09Get, k, 0})
			}
			emit("exhaustive", ops)
		})
	}
	g.Exhaustive("exhaustive")

	// --- seeded random: key sets grown by extending / truncating / mutating
	// earlier keys (shared prefixes, nested keys), bytes >= 0x80, interleaved queries
	for it, nr := 0, g.Pick(1500, 20000); it < nr; it++ {
		emit("random", c09RandomOps(g))
	}

	// --- large: hundreds of keys, long keys, long shared prefixes, prefix chains
	c09Large(g, emit)

	// --- extreme: every byte value 0x00..0xFF, at the first and at the last position
	c09Extreme(g, emit)

	// --- instances: the same behaviour at other type instantiations (see execC09)
	c09Instances(g)

	// --- malformed / boundary: empty trie, empty arguments, byte 0, long keys
	emit("malformed", nil)
	long := strings.Repeat("ab\xc3", 200)
	for _, kind := range c09Kinds {
		emit("malformed", c09Suite(nil, []string{"a", "\x00", "\xff\xff"}, kind))
		emit("malformed", c09Suite(puts([]string{"\x00", "\x00\x00", "\xff", "\xff\x00"}), []string{"\x00", "\x00\x00", "\x00\x00\x00", "\xff", "\xff\x00", "\xfe"}, kind))
		emit("malformed", c09Suite(puts([]string{long, long[:300], long + "a"}), []string{long, long[:299], long[:300], long[:301], long + "a", long + "ab", "a"}, kind))
	}
}

// c09RandomOps: one seeded random history (10..60 interleaved operations on a key
// set grown by extending, truncating, mutating and repeating earlier keys).
func c09RandomOps(g *Gen) []c09Op {
	alpha := []byte{'a', 'b', 'c', 0x00, 0x7f, 0x80, 0xa9, 0xc3, 0xff}
	na := 2 + g.Rng.Intn(len(alpha)-1)
	al := make([]byte, na)
	for i, p := range g.Rng.Perm(len(alpha))[:na] {
		al[i] = alpha[p]
	}
	var pool []string
	newKey := func() string {
		if len(pool) == 0 || g.Rng.Intn(5) == 0 {
			n := 1 + g.Rng.Intn(4)
			b := make([]byte, n)
			for i := range b {
				b[i] = al[g.Rng.Intn(na)]
			}
			return string(b)
		}
		k := pool[g.Rng.Intn(len(pool))]
		switch g.Rng.Intn(4) {
		case 0: // extend
			return k + string([]byte{al[g.Rng.Intn(na)]})
		case 1: // truncate
			if len(k) > 1 {
				return k[:1+g.Rng.Intn(len(k)-1)]
			}
			return k + string([]byte{al[g.Rng.Intn(na)]})
		case 2: // mutate the last byte
			return k[:len(k)-1] + string([]byte{al[g.Rng.Intn(na)]})
		default: // the same key again
			return k
		}
	}
	var ops []c09Op
	nops := 10 + g.Rng.Intn(50)
	for i := 0; i < nops; i++ {
		switch x := g.Rng.Intn(100); {
		case x < 40:
			k := newKey()
			pool = append(pool, k)
			ops = append(ops, c09Op{c09Put, k, g.Rng.Intn(1000)})
		case x < 55:
			ops = append(ops, c09Op{c09Get, newKey(), 0})
		case x < 65:
			ops = append(ops, c09Op{c09Contains, newKey(), 0})
		case x < 70:
			ops = append(ops, c09Op{c09Size, "", 0})
		case x < 75:
			ops = append(ops, c09Op{c09Keys, "", 0})
		case x < 88:
			p := newKey()
			if g.Rng.Intn(2) == 0 && len(p) > 1 {
				p = p[:1+g.Rng.Intn(len(p)-1)]
			}
			ops = append(ops, c09Op{c09StartsWith, p, 0})
		default:
			q := newKey()
			for j := g.Rng.Intn(3); j > 0; j-- {
				q += string([]byte{al[g.Rng.Intn(na)]})
			}
			ops = append(ops, c09Op{c09LongestPrefix, q, 0})
		}
	}
	return ops
}

// c09Orders returns the key set in ascending, descending, middle-out and
// (seeded) random insertion order.  Ascending/descending insertion of a sorted
// set degenerates the left/right links of the ternary tree into lists.
func c09Orders(g *Gen, keys []string) [][]string {
	asc := append([]string{}, keys...)
	sort.Strings(asc)
	n := len(asc)
	desc := make([]string, n)
	for i := range asc {
		desc[n-1-i] = asc[i]
	}
	mid := make([]string, 0, n)
	for lo, hi := (n-1)/2, (n-1)/2+1; lo >= 0 || hi < n; lo, hi = lo-1, hi+1 {
		if lo >= 0 {
			mid = append(mid, asc[lo])
		}
		if hi < n {
			mid = append(mid, asc[hi])
		}
	}
	rnd := make([]string, n)
	for i, p := range g.Rng.Perm(n) {
		rnd[i] = asc[p]
	}
	return [][]string{asc, desc, mid, rnd}
}

// c09Probe: after the Puts — Size, Keys, the given StartsWith prefixes and
// LongestPrefix queries, Get and Contains of every listed key, then a second
// Put of every third key (new values; Size must not move), Size, Get of those.
func c09Probe(puts []c09Op, keys, prefixes, queries, lookups []string) []c09Op {
	ops := append([]c09Op{}, puts...)
	ops = append(ops, c09Op{c09Size, "", 0}, c09Op{c09Keys, "", 0})
	for _, p := range prefixes {
		ops = append(ops, c09Op{c09StartsWith, p, 0})
	}
	for _, q := range queries {
		ops = append(ops, c09Op{c09LongestPrefix, q, 0})
	}
	for _, k := range lookups {
		ops = append(ops, c09Op{c09Get, k, 0}, c09Op{c09Contains, k, 0})
	}
	for i := 0; i < len(keys); i += 3 {
		ops = append(ops, c09Op{c09Put, keys[i], 5000 + i})
	}
	ops = append(ops, c09Op{c09Size, "", 0})
	for i := 0; i < len(keys); i += 3 {
		ops = append(ops, c09Op{c09Get, keys[i], 0})
	}
	return ops
}

func c09Puts(keys []string) []c09Op {
	ops := make([]c09Op, len(keys))
	for i, k := range keys {
		ops[i] = c09Op{c09Put, k, i + 1}
	}
	return ops
}

func c09Large(g *Gen, emit func(stream string, ops []c09Op)) {
	rep := func(s string, n int) string { return strings.Repeat(s, n/len(s)+1)[:n] }
	// (1) prefix chains of 12 and 25 keys: a, aa, aaa, ... and a chain over changing
	// bytes; inserted shortest-first, longest-first, middle-out and at random;
	// LongestPrefix for every length up to 3 past the chain, also with a last byte that leaves the chain
	for _, unit := range []string{"a", "ab\xc3\x00\xff"} {
		for _, n := range []int{12, 25} {
			var chain []string
			for i := 1; i <= n; i++ {
				if i%5 != 0 { // every fifth link is NOT stored: an unstored node on the path
					chain = append(chain, rep(unit, i))
				}
			}
			var queries, lookups []string
			for i := 1; i <= n+3; i++ {
				queries = append(queries, rep(unit, i), rep(unit, i)[:i-1]+"\x01")
				lookups = append(lookups, rep(unit, i))
			}
			for _, order := range c09Orders(g, chain) {
				g.Count("large: prefix chain")
				emit("large", c09Probe(c09Puts(order), order, []string{rep(unit, 1), rep(unit, 4), rep(unit, 5), rep(unit, n), rep(unit, n+1)}, queries, lookups))
			}
		}
	}
	// (2) long keys: 63..65, 127..129, 255..257, 1000 (thorough 4000) bytes, their
	// neighbours in length and a key leaving them at the last byte; long LongestPrefix queries
	for _, n := range []int{63, 64, 65, 127, 128, 129, 255, 256, 257, 1000, g.Pick(1000, 4000)} {
		base := rep("ab\xc3\xa9\x00\xff", n)
		keys := []string{base, base[:n-1], base + "z", base[:n-1] + "\x01", base[:n/2], "a"}
		queries := []string{base, base + base, base[:n-1], base[:n-2], base[:n-1] + "\x02", base + "zz", base[:n/2+1], "b"}
		lookups := append([]string{base[:n-2], base[:n/2+1], base[:1]}, keys...)
		for _, order := range c09Orders(g, keys) {
			g.Count("large: long keys")
			emit("large", c09Probe(c09Puts(order), order, []string{base[:n/2], base[:n-1], base, "a", "b"}, queries, lookups))
		}
	}
	// (3) many keys sharing a long prefix: 40 keys under a 300-byte prefix and 200
	// (thorough 300) keys under a 60-byte prefix, each = prefix + 2 bytes; the prefix
	// itself and its first half are stored too.  (One case stays below ~10^5 wire
	// integers: the extracted model recurses over the wire lists on the OCaml stack.)
	for _, sh := range [][2]int{{300, g.Pick(40, 60)}, {60, g.Pick(200, 300)}} {
		pre := rep("shared/prefix\xff\x00", sh[0])
		var keys []string
		for i := 0; i < sh[1]; i++ {
			keys = append(keys, pre+string([]byte{byte(i * 7), byte(i / 3)}))
		}
		keys = append(keys, pre, pre[:sh[0]/2])
		lookups := []string{pre[:sh[0]-1], pre + "\x00", pre[:sh[0]/2+1]}
		for i := 0; i < len(keys); i += 5 {
			lookups = append(lookups, keys[i])
		}
		lookups = append(lookups, pre, pre[:sh[0]/2])
		for oi, order := range c09Orders(g, keys) {
			if g.Quick() && oi%2 == 1 {
				continue
			}
			g.Count("large: many keys under a long shared prefix")
			emit("large", c09Probe(c09Puts(order), order, []string{pre, pre[:sh[0]/2], pre + "\x07"}, []string{pre + "\x07\x00zzz", pre[:sh[0]-10], pre[:sh[0]/3]}, lookups))
		}
	}
	// (4) hundreds of short keys: "k" + decimal numeral 0..599 (thorough 0..2999) — the
	// package's own test style — StartsWith("k") returns all of them, ("k1"), ("k12") ... tens to hundreds
	{
		nk := g.Pick(600, 3000)
		var keys []string
		for i := 0; i < nk; i++ {
			keys = append(keys, "k"+fmt.Sprint(i))
		}
		for _, order := range c09Orders(g, keys) {
			g.Count("large: hundreds of keys")
			emit("large", c09Probe(c09Puts(order), order, []string{"k", "k1", "k12", "k5", "k59", "k599", "k6", "k0", "k00", "j"}, []string{"k1234567", "k5990", "k60", "k", "l9"}, append([]string{"", "k", "k01", "k1000000"}, keys...)))
		}
	}
	// (5) seeded random: 150..400 keys of length 1..12 over 4 letters (dense sharing), interleaved queries
	for it, nr := 0, g.Pick(12, 150); it < nr; it++ {
		al := []byte{'a', 'b', 0x00, 0xff}
		var pool []string
		var ops []c09Op
		nk := 150 + g.Rng.Intn(251)
		for i := 0; i < nk; i++ {
			b := make([]byte, 1+g.Rng.Intn(12))
			for j := range b {
				b[j] = al[g.Rng.Intn(len(al))]
			}
			k := string(b)
			if len(pool) > 0 && g.Rng.Intn(3) == 0 {
				k = pool[g.Rng.Intn(len(pool))] + k[:1+g.Rng.Intn(len(k))] // an extension of an earlier key
			}
			pool = append(pool, k)
			ops = append(ops, c09Op{c09Put, k, i})
			switch g.Rng.Intn(12) {
			case 0:
				ops = append(ops, c09Op{c09Get, pool[g.Rng.Intn(len(pool))], 0})
			case 1:
				p := pool[g.Rng.Intn(len(pool))]
				ops = append(ops, c09Op{c09StartsWith, p[:1+g.Rng.Intn(len(p))], 0})
			case 2:
				ops = append(ops, c09Op{c09LongestPrefix, pool[g.Rng.Intn(len(pool))] + "ab", 0})
			case 3:
				ops = append(ops, c09Op{c09Size, "", 0})
			}
		}
		ops = append(ops, c09Op{c09Keys, "", 0}, c09Op{c09StartsWith, "a", 0}, c09Op{c09StartsWith, "\xff", 0})
		g.Count("large: random dense key set")
		emit("large", ops)
	}
}

func c09Extreme(g *Gen, emit func(stream string, ops []c09Op)) {
	// all 256 one-byte keys: Keys must come back in byte order 0x00 .. 0xFF, unaltered
	var one []string
	for b := 0; b < 256; b++ {
		one = append(one, string([]byte{byte(b)}))
	}
	for _, order := range c09Orders(g, one) {
		g.Count("extreme: all 256 one-byte keys")
		emit("extreme", c09Probe(c09Puts(order), order, []string{"\x00", "\x7f", "\x80", "\xff"}, []string{"\x00\x00", "\xff\xff", "\x80a"}, one))
	}
	// every byte value at the last position after a fixed first byte, and at the
	// first position before a fixed last byte — with 0x00 and 0xFF as the fixed byte
	for _, fix := range []byte{0x00, 0xff, 'a', 0x80} {
		var last, first []string
		for b := 0; b < 256; b++ {
			last = append(last, string([]byte{fix, byte(b)}))
			first = append(first, string([]byte{byte(b), fix}))
		}
		for oi, set := range [][]string{last, first} {
			for oj, order := range c09Orders(g, set) {
				if g.Quick() && (oi+oj)%2 == 1 {
					continue
				}
				g.Count("extreme: every byte value at the first / last position")
				f := string([]byte{fix})
				lookups := append([]string{f, f + f + f}, set...)
				emit("extreme", c09Probe(c09Puts(order), order, []string{f, "\x00", "\xff", f + f}, []string{f + f + f, "\xff\x00\xff", "\x00\xff\x00"}, lookups))
			}
		}
	}
	// seeded random over the full byte range, keys of length 1..3, 0x00 / 0xFF favoured
	for it, nr := 0, g.Pick(300, 5000); it < nr; it++ {
		rb := func() byte {
			switch g.Rng.Intn(6) {
			case 0:
				return 0x00
			case 1:
				return 0xff
			case 2:
				return []byte{0x7f, 0x80, 0x01, 0xfe}[g.Rng.Intn(4)]
			}
			return byte(g.Rng.Intn(256))
		}
		rk := func() string {
			b := make([]byte, 1+g.Rng.Intn(3))
			for j := range b {
				b[j] = rb()
			}
			return string(b)
		}
		var ops []c09Op
		var pool []string
		for i := 0; i < 30; i++ {
			k := rk()
			if len(pool) > 0 && g.Rng.Intn(3) == 0 {
				k = pool[g.Rng.Intn(len(pool))]
				if g.Rng.Intn(2) == 0 {
					k += string([]byte{rb()})
				}
			}
			switch g.Rng.Intn(8) {
			case 0, 1, 2, 3:
				pool = append(pool, k)
				ops = append(ops, c09Op{c09Put, k, i})
			case 4:
				ops = append(ops, c09Op{c09Get, k, 0})
			case 5:
				ops = append(ops, c09Op{c09StartsWith, k[:1], 0})
			case 6:
				ops = append(ops, c09Op{c09LongestPrefix, k + string([]byte{rb()}), 0})
			default:
				ops = append(ops, c09Op{c09Keys, "", 0})
			}
		}
		g.Count("extreme: random keys over all byte values")
		emit("extreme", ops)
	}
}

// c09Instances: all 16 combinations of V (string / non-comparable struct), result
// queue (queue.Queue / queue.LQueue), drained results put back or not, K (string /
// named string type).  Per instance: every Put sequence of <= 2 keys of length
// 1..2 over {a,0xC3} followed by every query of each kind; every sequence of <= 2
// (thorough 3) interleaved operations; seeded random histories; and for the linked
// queue a 600-key set whose Keys result is cleared by the next call.
func c09Instances(g *Gen) {
	emit := func(inst int, ops []c09Op) {
		nt := c09Classify(g, ops)
		g.Count(fmt.Sprintf("instance:K=%s,V=%s,%s,%s",
			[]string{"string", "named"}[inst>>3&1], []string{"struct", "string"}[inst&1],
			[]string{"Queue", "LQueue"}[inst>>1&1], []string{"refilled", "left drained"}[inst>>2&1]))
		g.Case("instances", nt, c09Enc(append([]c09Op{{c09Instance, "", inst}}, ops...)))
	}
	pool := c09Strings("a\xc3", 1, 2)
	np := len(pool)
	for inst := 16; inst < 32; inst++ {
		seqsUpTo(np, 2, func(seq []int) {
			ops := make([]c09Op, len(seq))
			for i, v := range seq {
				ops[i] = c09Op{c09Put, pool[v], 10*(i+1) + len(pool[v])}
			}
			for _, kind := range c09Kinds {
				emit(inst, c09Suite(ops, pool, kind))
			}
		})
		seqsUpTo(4*np+2, g.Pick(2, 3), func(seq []int) {
			ops := make([]c09Op, 0, len(seq)+np)
			for i, v := range seq {
				switch {
				case v < np:
					ops = append(ops, c09Op{c09Put, pool[v], 10*(i+1) + len(pool[v])})
				case v < 2*np:
					ops = append(ops, c09Op{c09Get, pool[v-np], 0})
				case v < 3*np:
					ops = append(ops, c09Op{c09StartsWith, pool[v-2*np], 0})
				case v < 4*np:
					ops = append(ops, c09Op{c09LongestPrefix, pool[v-3*np] + "a", 0})
				case v == 4*np:
					ops = append(ops, c09Op{c09Keys, "", 0})
				default:
					ops = append(ops, c09Op{c09Size, "", 0})
				}
			}
			for _, k := range pool {
				ops = append(ops, c09Op{c09Get, k, 0})
			}
			emit(inst, ops)
		})
		for it, nr := 0, g.Pick(40, 400); it < nr; it++ {
			emit(inst, c09RandomOps(g))
		}
		if inst&2 != 0 {
			var keys []string
			for i := 0; i < 600; i++ {
				keys = append(keys, "k"+fmt.Sprint(i))
			}
			order := c09Orders(g, keys)[3]
			emit(inst, c09Probe(c09Puts(order), order, []string{"k", "k59", "j"}, []string{"k5990"}, keys[:50]))
		}
	}
}

func init() {
	register(&Prop{ID: "C09", Exec: execC09, Gen: genC09, Describe: describeC09,
		Rule: "exhaustive: keys of length 1..3 over {a,b}: every Put sequence (with repetitions) of <= 3 keys and every multiset of 4 keys inserted in ascending, descending and middle-out order; keys of length 1..2 over {a,0xC3,0xA9}: every Put sequence of <= 3 keys (thorough: keys 1..4 over {a,b} with multisets of 4 and 5, keys 1..3 over {a,b,0xC3}, multisets of 5 — those middle-out plus alternately ascending/descending —, sequences of 4); every key sequence is followed, in four separate cases (one per query kind Get, Contains, StartsWith, LongestPrefix), by the empty-argument call and then the call for EVERY string of length 1..4 (resp. 1..3) over the alphabet, Size and Keys; interleaved: every sequence of <= 3 (thorough 4) operations over Put k/Get k/StartsWith k/LongestPrefix kb/Keys/Size, k of length 1..2 over {a,b}, observed per operation, then Get of all six keys. After every Keys/StartsWith the drained keys are put back into the result queue, so the next call must clear it. random: 10..60 interleaved operations on key sets grown by extending, truncating, mutating and repeating earlier keys over a random sub-alphabet of {a,b,c,0x00,0x7f,0x80,0xa9,0xc3,0xff}. large: prefix chains of 12 and 25 nested keys (every fifth link unstored) in 4 insertion orders with LongestPrefix for every length; keys of 63..65, 127..129, 255..257 and 1000 (thorough 4000) bytes with siblings at the last byte; 40 keys under a 300-byte and 200 keys under a 60-byte shared prefix; 600 (thorough 3000) numeral keys with StartsWith returning up to all of them; random dense sets of 150..400 keys. extreme: all 256 one-byte keys; every byte value at the first and at the last position next to 0x00/0xFF/a/0x80, each in ascending, descending, middle-out and random insertion order; random keys over all byte values. instances: the interleaved and per-query-kind families on keys of length 1..2 over {a,0xC3} (Put sequences <= 2, operation sequences <= 2, thorough 3), 40 (400) random histories and a 600-key set, at each of 16 instantiations: V = string or a non-comparable struct, result queue queue.Queue or queue.LQueue, drained results put back or not, K = string or a named string type; keys rebuilt from fresh byte slices and values built by strconv for every call. non-trivial = the history stores a key together with a proper prefix of it, or asks Get/Contains for an unstored proper prefix of a stored key; distinct = distinct wire input"})
}
