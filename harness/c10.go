package main

import (
	"fmt"
	"sort"
	"strings"

	"github.com/esimov/gogu/btree"
)

// C10 wire (mirror of coq/theories/C10_Wire.v)
//
//	input    = concat [op k v]     op: 1 Put k v | 2 Remove k _ | 3 Get k _
//	observed = per op  Put/Remove -> [Size IsEmpty Height]
//	                   Get        -> [found value Size IsEmpty Height]
//	           then Traverse at the end -> count k1 v1 k2 v2 ...
//	           a panic -> -2 and the observation stops.
const (
	c10Put    = 1
	c10Remove = 2
	c10Get    = 3
)

func execC10(in []int64) []int64 {
	t := btree.New[int, int]()
	out := make([]int64, 0, 2*len(in)+16)
	state := func() {
		out = append(out, int64(t.Size()), b2i(t.IsEmpty()), int64(t.Height()))
	}
	for i := 0; i < len(in); i += 3 {
		if len(in)-i < 3 {
			return append(out, -999999) // not a whole record (never generated)
		}
		op, k, v := in[i], int(in[i+1]), int(in[i+2])
		bad := false
		if try(func() {
			switch op {
			case c10Put:
				t.Put(k, v)
				state()
			case c10Remove:
				t.Remove(k)
				state()
			case c10Get:
				x, ok := t.Get(k)
				if !ok {
					x = 0 // the zero value is what Go returns; make it explicit
				}
				out = append(out, b2i(ok), int64(x))
				state()
			default:
				bad = true
			}
		}) {
			return append(out, -2)
		}
		if bad {
			return append(out, -999999)
		}
	}
	if try(func() {
		var kv []int64
		t.Traverse(func(k, v int) { kv = append(kv, int64(k), int64(v)) })
		out = append(out, int64(len(kv)/2))
		out = append(out, kv...)
	}) {
		return append(out, -2)
	}
	return out
}

func describeC10(in []int64) string {
	var sb strings.Builder
	for i := 0; i+2 < len(in); i += 3 {
		if i > 0 {
			sb.WriteString("; ")
		}
		switch in[i] {
		case c10Put:
			fmt.Fprintf(&sb, "Put(%d,%d)", in[i+1], in[i+2])
		case c10Remove:
			fmt.Fprintf(&sb, "Remove(%d)", in[i+1])
		case c10Get:
			fmt.Fprintf(&sb, "Get(%d)", in[i+1])
		default:
			fmt.Fprintf(&sb, "?%d", in[i])
		}
		if sb.Len() > 360 {
			fmt.Fprintf(&sb, "; ... (%d ops)", len(in)/3)
			break
		}
	}
	sb.WriteString("; Traverse")
	return sb.String()
}

// c10Shadow follows a case while it is generated (plain Go map + the textbook
// height-free bookkeeping) only to classify it: did a root split happen, was a
// live key removed and later looked up or re-put.  It judges nothing.
type c10Shadow struct {
	live      map[int]bool
	ever      map[int]bool
	removed   map[int]bool // removed while live, not yet revisited
	revisited bool
}

func newC10Shadow() *c10Shadow {
	return &c10Shadow{live: map[int]bool{}, ever: map[int]bool{}, removed: map[int]bool{}}
}

func (s *c10Shadow) op(op, k int) string {
	switch op {
	case c10Put:
		kind := "put-new"
		if s.live[k] {
			kind = "put-overwrite"
		} else if s.ever[k] {
			kind = "put-after-remove"
		}
		if s.removed[k] {
			s.revisited = true
		}
		s.live[k], s.ever[k] = true, true
		return kind
	case c10Remove:
		if s.live[k] {
			delete(s.live, k)
			s.removed[k] = true
			return "remove-live"
		}
		if s.ever[k] {
			return "remove-again"
		}
		return "remove-absent"
	default:
		if s.removed[k] && !s.live[k] {
			s.revisited = true
			return "get-removed"
		}
		if s.live[k] {
			return "get-live"
		}
		return "get-absent"
	}
}

type c10Case struct {
	w  W
	sh *c10Shadow
	g  *Gen
}

func (c *c10Case) add(op, k, v int) {
	c.w.Int(op).Int(k).Int(v)
	c.g.Count(c.sh.op(op, k))
}

func c10Bucket(n int) string {
	switch {
	case n == 0:
		return "0"
	case n <= 3:
		return "1-3"
	case n <= 7:
		return "4-7"
	case n <= 15:
		return "8-15"
	case n <= 63:
		return "16-63"
	case n <= 255:
		return "64-255"
	default:
		return "256+"
	}
}

// emit executes the case and classifies it from what the implementation
// answered: the last Height word before the traversal tells whether a root
// split happened.
func (c *c10Case) emit(stream string) {
	in := c.w.Out()
	obs := c.g.P.Exec(in)
	// height = the third word of the last op block; recover it by replaying lengths
	h := int64(0)
	pos := 0
	for i := 0; i+2 < len(in); i += 3 {
		if in[i] == c10Get {
			pos += 2
		}
		if pos+2 < len(obs) {
			h = obs[pos+2]
		}
		pos += 3
	}
	nt := h >= 1 && c.sh.revisited
	c.g.Count("final-height=" + fmt.Sprint(h))
	c.g.Count("distinct-keys=" + c10Bucket(len(c.sh.ever)))
	c.g.Count("ops=" + c10Bucket(len(in)/3))
	if len(c.sh.ever) > 0 && len(c.sh.live) == 0 {
		c.g.Count("ends-with-all-keys-removed")
	}
	c.g.Raw(stream, nt, in, obs)
}

func genC10(g *Gen) {
	// ---- exhaustive small scope ----
	// every sequence of up to L mutators over {Put k, Remove k : k in 0..5}; each mutator is
	// followed by Get of its key (so every Remove;Get, Put;Get, Remove;Get;Put ... pattern is
	// there), and the case ends with Get 0..5 and Traverse.  The value put at step i is
	// 100*(i+1)+k, so a stale value is visible.
	L := g.Pick(5, 6)
	seqsUpTo(12, L, func(seq []int) {
		c := &c10Case{sh: newC10Shadow(), g: g}
		for i, x := range seq {
			k := x % 6
			if x < 6 {
				c.add(c10Put, k, 100*(i+1)+k)
			} else {
				c.add(c10Remove, k, 0)
			}
			c.add(c10Get, k, 0)
		}
		for k := 0; k <= 5; k++ {
			c.add(c10Get, k, 0)
		}
		c.emit("exhaustive")
	})
	// second exhaustive scope: EVERY insertion order of the keys 0..7 (thorough 0..8) — node
	// splits propagate differently for every order, and 8 keys reach height 2 (an internal
	// node splits) in part of the orders — followed by removes of the first and the middle
	// key put, a lookup of every key, a re-put of the first key and its lookup.
	nperm := g.Pick(8, 9)
	perm := make([]int, nperm)
	used := make([]bool, nperm)
	var rec func(i int)
	rec = func(i int) {
		if i < nperm {
			for k := 0; k < nperm; k++ {
				if !used[k] {
					used[k], perm[i] = true, k
					rec(i + 1)
					used[k] = false
				}
			}
			return
		}
		c := &c10Case{sh: newC10Shadow(), g: g}
		for j, k := range perm {
			c.add(c10Put, k, 100+j)
		}
		c.add(c10Remove, perm[0], 0)
		c.add(c10Remove, perm[nperm/2], 0)
		for k := 0; k < nperm; k++ {
			c.add(c10Get, k, 0)
		}
		c.add(c10Put, perm[0], 999)
		c.add(c10Get, perm[0], 0)
		c.emit("exhaustive")
	}
	rec(0)
	g.Exhaustive("exhaustive")

	// ---- edge inputs (there is no invalid input for this API) ----
	edge := func(ops ...[3]int) {
		c := &c10Case{sh: newC10Shadow(), g: g}
		for _, o := range ops {
			c.add(o[0], o[1], o[2])
		}
		c.emit("malformed")
	}
	big := 1 << 61
	edge()
	edge([3]int{c10Get, 0, 0})
	edge([3]int{c10Remove, 0, 0}, [3]int{c10Get, 0, 0})
	edge([3]int{c10Remove, -1, 0}, [3]int{c10Remove, -1, 0}, [3]int{c10Put, -1, 7}, [3]int{c10Get, -1, 0})
	edge([3]int{c10Put, 0, 0}, [3]int{c10Get, 0, 0}, [3]int{c10Remove, 0, 0}, [3]int{c10Get, 0, 0})
	edge([3]int{c10Put, big, 1}, [3]int{c10Put, -big, 2}, [3]int{c10Put, 0, 3}, [3]int{c10Put, -1, 4}, [3]int{c10Put, 1, 5},
		[3]int{c10Get, big, 0}, [3]int{c10Get, -big, 0}, [3]int{c10Remove, -big, 0}, [3]int{c10Get, -big, 0}, [3]int{c10Get, big - 1, 0})
	for k := -3; k <= 3; k++ { // the same key again and again
		edge([3]int{c10Put, k, 1}, [3]int{c10Put, k, 2}, [3]int{c10Remove, k, 0}, [3]int{c10Remove, k, 0},
			[3]int{c10Put, k, 3}, [3]int{c10Put, k, 4}, [3]int{c10Get, k, 0})
	}

	// ---- seeded random histories ----
	// build phase in sorted / reversed / random key order over 0..K, interleaved with
	// overwrites, removes of live / tombstoned / absent keys, re-puts of removed keys and
	// lookups of live / removed / absent keys; ends with lookups of every removed key and a
	// sample of the others.
	random := func(K, nkeys int, order int, churn float64) {
		c := &c10Case{sh: newC10Shadow(), g: g}
		keys := g.Rng.Perm(K + 1)[:nkeys]
		switch order {
		case 0:
			sort.Ints(keys)
		case 1:
			sort.Ints(keys)
			for i, j := 0, len(keys)-1; i < j; i, j = i+1, j-1 {
				keys[i], keys[j] = keys[j], keys[i]
			}
		}
		g.Count([]string{"order=sorted", "order=reversed", "order=random"}[order])
		var put, gone []int // keys put so far; keys removed at some point
		val := 1000
		pick := func(s []int) int { return s[g.Rng.Intn(len(s))] }
		for _, k := range keys {
			val++
			c.add(c10Put, k, val)
			put = append(put, k)
			for g.Rng.Float64() < churn {
				val++
				switch g.Rng.Intn(8) {
				case 0:
					c.add(c10Put, pick(put), val) // overwrite or revive
				case 1, 2:
					k2 := pick(put)
					c.add(c10Remove, k2, 0)
					gone = append(gone, k2)
					if g.Rng.Intn(2) == 0 {
						c.add(c10Get, k2, 0)
					}
				case 3:
					if len(gone) > 0 {
						c.add(c10Remove, pick(gone), 0) // usually already removed
					} else {
						c.add(c10Remove, g.Rng.Intn(K+1), 0)
					}
				case 4:
					if len(gone) > 0 {
						k2 := pick(gone)
						c.add(c10Put, k2, val) // re-put of a removed key
						c.add(c10Get, k2, 0)
					}
				case 5:
					c.add(c10Get, pick(put), 0)
				case 6:
					c.add(c10Get, g.Rng.Intn(K+3)-1, 0) // often absent
				case 7:
					c.add(c10Remove, g.Rng.Intn(K+3)-1, 0) // often absent
				}
			}
		}
		for _, k := range gone {
			if g.Rng.Intn(3) == 0 {
				c.add(c10Get, k, 0)
			}
		}
		for i := 0; i < 12; i++ {
			c.add(c10Get, g.Rng.Intn(K+3)-1, 0)
		}
		c.emit("random")
	}
	nSmall := g.Pick(1500, 15000)
	for i := 0; i < nSmall; i++ { // small enough for the in-Coq cross-check
		random(40, 4+g.Rng.Intn(30), g.Rng.Intn(3), 0.5)
	}
	nBig := g.Pick(240, 2400)
	for i := 0; i < nBig; i++ {
		random(400, 60+g.Rng.Intn(341), i%3, 0.35)
	}
}

func init() {
	register(&Prop{ID: "C10", Exec: execC10, Gen: genC10, Describe: describeC10,
		Rule: "exhaustive: every sequence of up to 5 (thorough 6) mutators over {Put k, Remove k : k in 0..5} (the value put at step i is 100(i+1)+k), each mutator followed by Get of its key, ending with Get 0..5 and Traverse; plus every insertion order of the keys 0..7 (thorough 0..8; height 2 is reached) followed by Remove of the first and the middle key put, Get of every key, re-Put and Get of the first key; Size/IsEmpty/Height observed after every operation. edge stream: empty history, operations on the empty tree, negative and +-2^61 keys, one key put/removed repeatedly. random: 1500 (thorough 15000) histories over keys 0..40 and 240 (thorough 2400) over keys 0..400 (60..400 distinct keys, 3..8 levels), keys first put in sorted / reversed / random order, interleaved with overwrites, removes of live, already-removed and absent keys, re-puts of removed keys and lookups of live, removed and absent keys. non-trivial = the root split at least once (final Height >= 1) AND a live key was removed and later looked up or put again; distinct = distinct wire input"})
}
