package main

import (
	"cmp"
	"fmt"
	"math"
	"sort"
	"strconv"
	"strings"

	"github.com/esimov/gogu/btree"
)

// C10 wire (mirror of coq/theories/C10_Wire.v)
//
//	input    = concat [op k v]     op: 1 Put k v | 2 Remove k _ | 3 Get k _ | 4 Traverse _ _
//	observed = per op  Put/Remove -> [Size IsEmpty Height]
//	                   Get        -> [found value Size IsEmpty Height]
//	                   Traverse   -> count k1 v1 k2 v2 ... [Size IsEmpty Height]
//	           then Traverse at the end -> count k1 v1 k2 v2 ...
//	           a panic -> -2 and the observation stops.
//
// Keys.  The model runner reads OCaml native ints (63 bits), so math.MinInt64 / MaxInt64 cannot
// travel on the wire.  The B-tree only ever COMPARES keys, so the wire carries a key CODE and
// the harness translates it with the strictly increasing map c10Key (identity on |w| <= 2^60,
// two short segments above/below it that land around +-2^62 and at the very ends of the int64
// range); keys coming out of Traverse are translated back with c10Wire.  Every stream except
// "extreme" uses codes on which the map is the identity.
const (
	c10Lin = int64(1) << 60 // |w| <= c10Lin: the key is w itself
	c10Seg = int64(1) << 20 // width of each of the four outer segments
)

// c10Key: wire code -> Go key (strictly increasing); ok=false outside the coded range.
func c10Key(w int64) (int, bool) {
	switch {
	case w >= -c10Lin && w <= c10Lin:
		return int(w), true
	case w > c10Lin && w <= c10Lin+c10Seg: // w = c10Lin + c10Seg/2  ->  2^62
		return int((int64(1) << 62) - c10Seg/2 + (w - c10Lin)), true
	case w > c10Lin+c10Seg && w <= c10Lin+2*c10Seg: // w = c10Lin + 2*c10Seg  ->  MaxInt64
		return int(math.MaxInt64 - (c10Lin + 2*c10Seg - w)), true
	case w < -c10Lin && w >= -c10Lin-c10Seg: // w = -c10Lin - c10Seg/2  ->  -2^62
		return int(-(int64(1) << 62) + c10Seg/2 + (w + c10Lin)), true
	case w < -c10Lin-c10Seg && w >= -c10Lin-2*c10Seg: // w = -c10Lin - 2*c10Seg  ->  MinInt64
		return int(math.MinInt64 + (w + c10Lin + 2*c10Seg)), true
	}
	return 0, false
}

// c10Wire: Go key (in the image of c10Key) -> wire code.
func c10Wire(k int) int64 {
	x := int64(k)
	switch {
	case x >= -c10Lin && x <= c10Lin:
		return x
	case x > math.MaxInt64-c10Seg:
		return c10Lin + 2*c10Seg - (math.MaxInt64 - x)
	case x > c10Lin:
		return x - (int64(1) << 62) + c10Seg/2 + c10Lin
	case x < math.MinInt64+c10Seg:
		return (x - math.MinInt64) - c10Lin - 2*c10Seg
	default:
		return x + (int64(1) << 62) - c10Seg/2 - c10Lin
	}
}

const (
	c10Put    = 1
	c10Remove = 2
	c10Get    = 3
	c10Trav   = 4
)

// Instances.  The wire and the model know nothing about Go types.  A history whose FIRST record is
// Get(0) with third word 1 or 2 (a word the model ignores; it is 0 in every other stream) is run on
// another instantiation of the generic type:
//
//	1  BTree[string, string]   key = 20-digit decimal of (k + 2^63), built with strconv at EVERY use
//	                           (no two operations share a string), value = strconv.Itoa(v)
//	2  BTree[float64, float64] key = k/4 (exact, |k| <= 2^50, no NaN, never -0), value = v + 0.5
//
// Both key codecs are injective and strictly increasing, so the history means the same ordered
// map; keys and values coming out of Get/Traverse are decoded back to the ints of the wire.
//
//	3  BTree[float64, float64] with the special keys: the codes c10NaN < c10NInf < c10NMax < -c10FW < k < c10FW
//	                           < c10PMax < c10PInf stand for NaN, -Inf, -MaxFloat64, k/4 (k = -1, 1: the
//	                           denormals -5e-324, 5e-324; k = 0: +0 or -0), MaxFloat64, +Inf.  The NaN
//	                           carries another payload / sign bit and the zero another sign at every use.
//	                           btree orders its keys with keyLess / keyEqual (NaN before every other key,
//	                           all NaNs one key, -0 = +0), so the codec is strictly increasing for THAT
//	                           order (theorems C10n_* in C10_PropsNaN.v); keys coming out of Traverse are
//	                           canonicalised (any NaN -> c10NaN, -0 -> 0).
const (
	c10InstInt      = 0
	c10InstString   = 1
	c10InstFloat    = 2
	c10InstFloatNaN = 3
)

const (
	c10FW   = 1000000
	c10NaN  = -c10FW - 2
	c10NInf = -c10FW - 1
	c10NMax = -c10FW
	c10PMax = c10FW
	c10PInf = c10FW + 1
)

var c10InstName = [4]string{"BTree[int,int]", "BTree[string,string]", "BTree[float64,float64]", "BTree[float64,float64] with NaN, +-Inf, +-0 keys"}

func c10Inst(in []int64) int {
	if len(in) >= 3 && in[0] == c10Get && in[2] >= c10InstString && in[2] <= c10InstFloatNaN {
		return int(in[2])
	}
	return c10InstInt
}

// c10SpecialKeys returns the codec of instance 3; `use` counts the key values built so far, so that
// no two uses of the NaN (or of the zero) share a bit pattern.
func c10SpecialKeys() (func(int) (float64, bool), func(float64) int64) {
	use := uint64(0)
	mk := func(k int) (float64, bool) {
		use++
		switch {
		case k == c10NaN:
			bits := uint64(0x7FF8000000000000) | (use*0x9E3779B97F4A7C15)>>13 | 1
			if use%2 == 0 {
				bits |= 1 << 63
			}
			if use%5 == 0 { // a signalling-NaN pattern from time to time
				bits &^= 1 << 51
			}
			return math.Float64frombits(bits), true
		case k == c10NInf:
			return math.Inf(-1), true
		case k == c10PInf:
			return math.Inf(1), true
		case k == c10NMax:
			return -math.MaxFloat64, true
		case k == c10PMax:
			return math.MaxFloat64, true
		case k == 0:
			if use%2 == 0 {
				return math.Copysign(0, -1), true
			}
			return 0, true
		case k == 1:
			return math.SmallestNonzeroFloat64, true
		case k == -1:
			return -math.SmallestNonzeroFloat64, true
		case k > -c10FW && k < c10FW:
			return float64(k) * 0.25, true
		}
		return 0, false
	}
	un := func(x float64) int64 {
		switch {
		case x != x:
			return c10NaN
		case math.IsInf(x, -1):
			return c10NInf
		case math.IsInf(x, 1):
			return c10PInf
		case x == -math.MaxFloat64:
			return c10NMax
		case x == math.MaxFloat64:
			return c10PMax
		case x == 0:
			return 0 // -0 and +0 are one key
		case x == math.SmallestNonzeroFloat64:
			return 1
		case x == -math.SmallestNonzeroFloat64:
			return -1
		}
		return int64(x * 4)
	}
	return mk, un
}

// c10SpecialName: how Describe prints a key code of instance 3.
func c10SpecialName(k int64) string {
	switch k {
	case c10NaN:
		return "NaN"
	case c10NInf:
		return "-Inf"
	case c10PInf:
		return "+Inf"
	case c10NMax:
		return "-MaxFloat64"
	case c10PMax:
		return "MaxFloat64"
	case 0:
		return "+-0"
	case 1:
		return "5e-324"
	case -1:
		return "-5e-324"
	}
	return strconv.FormatFloat(float64(k)*0.25, 'g', -1, 64)
}

func c10StrKey(k int) (string, bool) {
	d := strconv.FormatUint(uint64(k)^(1<<63), 10) // k + 2^63 as an unsigned number: order-preserving
	return strings.Repeat("0", 20-len(d)) + d, true
}

func c10StrUnkey(s string) int64 {
	u, err := strconv.ParseUint(s, 10, 64)
	if err != nil || len(s) != 20 {
		return -888888 // not a key the harness ever built
	}
	return c10Wire(int(u ^ (1 << 63)))
}

func c10StrUnval(s string) int64 {
	x, err := strconv.Atoi(s)
	if err != nil {
		return -888888
	}
	return int64(x)
}

func c10FloatKey(k int) (float64, bool) {
	if k < -(1<<50) || k > 1<<50 {
		return 0, false
	}
	return float64(k) * 0.25, true
}

func execC10(in []int64) []int64 {
	switch c10Inst(in) {
	case c10InstString:
		return c10Run[string, string](in, c10StrKey, c10StrUnkey,
			func(v int) string { return strconv.Itoa(v) }, c10StrUnval)
	case c10InstFloat:
		return c10Run[float64, float64](in, c10FloatKey,
			func(x float64) int64 { return c10Wire(int(x * 4)) },
			func(v int) float64 { return float64(v) + 0.5 },
			func(x float64) int64 { return int64(x - 0.5) })
	case c10InstFloatNaN:
		mk, un := c10SpecialKeys()
		return c10Run[float64, float64](in, mk, un,
			func(v int) float64 { return float64(v) + 0.5 },
			func(x float64) int64 { return int64(x - 0.5) })
	}
	return c10Run[int, int](in, func(k int) (int, bool) { return k, true },
		func(k int) int64 { return c10Wire(k) }, func(v int) int { return v }, func(v int) int64 { return int64(v) })
}

func c10Run[K cmp.Ordered, V any](in []int64, mkKey func(int) (K, bool), unKey func(K) int64,
	mkVal func(int) V, unVal func(V) int64) []int64 {
	t := btree.New[K, V]()
	out := make([]int64, 0, 2*len(in)+16)
	state := func() {
		out = append(out, int64(t.Size()), b2i(t.IsEmpty()), int64(t.Height()))
	}
	for i := 0; i < len(in); i += 3 {
		if len(in)-i < 3 {
			return append(out, -999999) // not a whole record (never generated)
		}
		op, v := in[i], int(in[i+2])
		ki, okKey := c10Key(in[i+1])
		if !okKey {
			return append(out, -999999) // outside the coded key range (never generated)
		}
		if _, ok := mkKey(ki); !ok {
			return append(out, -999999) // not representable in this instance (never generated)
		}
		key := func() K { k, _ := mkKey(ki); return k } // a fresh key value for every use
		bad := false
		if try(func() {
			switch op {
			case c10Put:
				t.Put(key(), mkVal(v))
				state()
			case c10Remove:
				t.Remove(key())
				state()
			case c10Get:
				x, ok := t.Get(key())
				xv := int64(0) // not found: the zero value is what Go returns; make it explicit
				if ok {
					xv = unVal(x)
				}
				out = append(out, b2i(ok), xv)
				state()
			case c10Trav:
				var kv []int64
				t.Traverse(func(k K, v V) { kv = append(kv, unKey(k), unVal(v)) })
				out = append(out, int64(len(kv)/2))
				out = append(out, kv...)
				state()
			default:
				bad = true
			}
		}) {
			return append(out, -2)
		}
		if bad {
			return append(out, -999999)
		}
	}
	if try(func() {
		var kv []int64
		t.Traverse(func(k K, v V) { kv = append(kv, unKey(k), unVal(v)) })
		out = append(out, int64(len(kv)/2))
		out = append(out, kv...)
	}) {
		return append(out, -2)
	}
	return out
}

func describeC10(in []int64) string {
	var sb strings.Builder
	start := 0
	inst := c10Inst(in)
	if inst == c10InstFloatNaN {
		fmt.Fprintf(&sb, "on %s (keys shown as float64, values as the ints they encode): ", c10InstName[inst])
		start = 3
	} else if inst != c10InstInt {
		// the selector record (it is executed as Get of key 0 on the empty tree)
		fmt.Fprintf(&sb, "on %s (keys/values shown as the ints they encode): ", c10InstName[inst])
		start = 3
	}
	for i := start; i+2 < len(in); i += 3 {
		if i > start {
			sb.WriteString("; ")
		}
		ki, _ := c10Key(in[i+1]) // the Go key the code stands for
		key := strconv.Itoa(ki)
		if inst == c10InstFloatNaN {
			key = c10SpecialName(in[i+1])
		}
		switch in[i] {
		case c10Put:
			fmt.Fprintf(&sb, "Put(%s,%d)", key, in[i+2])
		case c10Remove:
			fmt.Fprintf(&sb, "Remove(%s)", key)
		case c10Get:
			fmt.Fprintf(&sb, "Get(%s)", key)
		case c10Trav:
			sb.WriteString("Traverse")
		default:
			fmt.Fprintf(&sb, "?%d", in[i])
		}
		if sb.Len() > 360 {
			fmt.Fprintf(&sb, "; ... (%d ops)", len(in)/3)
			break
		}
	}
	sb.WriteString("; Traverse")
	return sb.String()
}

// c10Shadow follows a case while it is generated (plain Go map + the textbook
// height-free bookkeeping) only to classify it: did a root split happen, was a
// live key removed and later looked up or re-put.  It judges nothing.
type c10Shadow struct {
	live      map[int]bool
	ever      map[int]bool
	removed   map[int]bool // removed while live, not yet revisited
	revisited bool
}

func newC10Shadow() *c10Shadow {
	return &c10Shadow{live: map[int]bool{}, ever: map[int]bool{}, removed: map[int]bool{}}
}

func (s *c10Shadow) op(op, k int) string {
	switch op {
	case c10Put:
		kind := "put-new"
		if s.live[k] {
			kind = "put-overwrite"
		} else if s.ever[k] {
			kind = "put-after-remove"
		}
		if s.removed[k] {
			s.revisited = true
		}
		s.live[k], s.ever[k] = true, true
		return kind
	case c10Trav:
		if len(s.ever) > len(s.live) {
			return "traverse-over-tombstones"
		}
		return "traverse-mid"
	case c10Remove:
		if s.live[k] {
			delete(s.live, k)
			s.removed[k] = true
			return "remove-live"
		}
		if s.ever[k] {
			return "remove-again"
		}
		return "remove-absent"
	default:
		if s.removed[k] && !s.live[k] {
			s.revisited = true
			return "get-removed"
		}
		if s.live[k] {
			return "get-live"
		}
		return "get-absent"
	}
}

type c10Case struct {
	w     W
	sh    *c10Shadow
	g     *Gen
	inst  int
	remap func(int) int // instance 3: which keys of the script become NaN, +-Inf, +-0 ... (nil: none)
}

// c10NewCase starts a case; for an instance other than int it begins with the selector record.
func c10NewCase(g *Gen, inst int) *c10Case {
	c := &c10Case{sh: newC10Shadow(), g: g, inst: inst}
	if inst != c10InstInt {
		c.add(c10Get, 0, inst)
	}
	return c
}

func (c *c10Case) add(op, k, v int) {
	if c.remap != nil && op != c10Trav {
		k = c.remap(k)
	}
	c.w.Int(op).Int(k).Int(v)
	c.g.Count(c.sh.op(op, k))
}

func c10Bucket(n int) string {
	switch {
	case n == 0:
		return "0"
	case n <= 3:
		return "1-3"
	case n <= 7:
		return "4-7"
	case n <= 15:
		return "8-15"
	case n <= 63:
		return "16-63"
	case n <= 255:
		return "64-255"
	case n <= 1023:
		return "256-1023"
	default:
		return "1024+"
	}
}

// emit executes the case and classifies it from what the implementation
// answered: the last Height word before the traversal tells whether a root
// split happened.
func (c *c10Case) emit(stream string) {
	if c.inst == c10InstFloatNaN { // the scripts with NaN, +-Inf, +-0 keys: stream "nan"
		c.g.Count("nan:" + stream)
		stream = "nan"
	} else if c.inst != c10InstInt { // the same script on another instantiation: stream "instances"
		c.g.Count("instances:" + c10InstName[c.inst] + ":" + stream)
		stream = "instances"
	}
	in := c.w.Out()
	obs := c.g.P.Exec(in)
	// height = the third word of the last op block; recover it by replaying lengths
	h := int64(0)
	pos := 0
	for i := 0; i+2 < len(in); i += 3 {
		if in[i] == c10Get {
			pos += 2
		}
		if in[i] == c10Trav && pos < len(obs) && obs[pos] >= 0 {
			pos += 1 + 2*int(obs[pos])
		}
		if pos+2 < len(obs) {
			h = obs[pos+2]
		}
		pos += 3
	}
	nt := h >= 1 && c.sh.revisited
	c.g.Count("final-height=" + fmt.Sprint(h))
	c.g.Count("distinct-keys=" + c10Bucket(len(c.sh.ever)))
	c.g.Count("ops=" + c10Bucket(len(in)/3))
	if len(c.sh.ever) > 0 && len(c.sh.live) == 0 {
		c.g.Count("ends-with-all-keys-removed")
	}
	c.g.Raw(stream, nt, in, obs)
}

// c10Order returns the indices 0..n-1 in one of the fixed insertion orders.
const c10NumOrders = 6

var c10OrderName = [c10NumOrders]string{"ascending", "descending", "zigzag-outside-in", "zigzag-inside-out", "evens-up-odds-down", "sawtooth-4"}

func c10Order(o, n int) []int {
	r := make([]int, 0, n)
	switch o {
	case 0:
		for i := 0; i < n; i++ {
			r = append(r, i)
		}
	case 1:
		for i := n - 1; i >= 0; i-- {
			r = append(r, i)
		}
	case 2: // 0, n-1, 1, n-2, ...
		for lo, hi := 0, n-1; lo <= hi; lo, hi = lo+1, hi-1 {
			r = append(r, lo)
			if hi != lo {
				r = append(r, hi)
			}
		}
	case 3: // mid, mid+1, mid-1, mid+2, ...
		mid := n / 2
		r = append(r, mid)
		for d := 1; len(r) < n; d++ {
			if mid+d < n {
				r = append(r, mid+d)
			}
			if mid-d >= 0 {
				r = append(r, mid-d)
			}
		}
	case 4: // 0 2 4 ... then the odd ones downwards
		for i := 0; i < n; i += 2 {
			r = append(r, i)
		}
		for i := n - 1; i >= 0; i-- {
			if i%2 == 1 {
				r = append(r, i)
			}
		}
	default: // 3 2 1 0 7 6 5 4 ...
		for b := 0; b < n; b += 4 {
			e := b + 3
			if e >= n {
				e = n - 1
			}
			for i := e; i >= b; i-- {
				r = append(r, i)
			}
		}
	}
	return r
}

func genC10(g *Gen) {
	inst := c10InstInt      // the instantiation the closures below generate for
	var remap func(int) int // instance 3 only: the script keys that become special values
	newCase := func() *c10Case {
		c := c10NewCase(g, inst)
		c.remap = remap
		return c
	}
	// ---- exhaustive small scope ----
	// every sequence of up to L mutators over {Put k, Remove k : k in 0..5}; each mutator is
	// followed by Get of its key (so every Remove;Get, Put;Get, Remove;Get;Put ... pattern is
	// there), and the case ends with Get 0..5 and Traverse.  The value put at step i is
	// 100*(i+1)+k, so a stale value is visible.
	genExh := func(L, nperm int) {
		seqsUpTo(12, L, func(seq []int) {
			c := newCase()
			for i, x := range seq {
				k := x % 6
				if x < 6 {
					c.add(c10Put, k, 100*(i+1)+k)
				} else {
					c.add(c10Remove, k, 0)
				}
				c.add(c10Get, k, 0)
			}
			for k := 0; k <= 5; k++ {
				c.add(c10Get, k, 0)
			}
			c.emit("exhaustive")
		})
		// second exhaustive scope: EVERY insertion order of the keys 0..7 (thorough 0..8) — node
		// splits propagate differently for every order, and 8 keys reach height 2 (an internal
		// node splits) in part of the orders — followed by removes of the first and the middle
		// key put, a lookup of every key, a re-put of the first key and its lookup.
		perm := make([]int, nperm)
		used := make([]bool, nperm)
		var rec func(i int)
		rec = func(i int) {
			if i < nperm {
				for k := 0; k < nperm; k++ {
					if !used[k] {
						used[k], perm[i] = true, k
						rec(i + 1)
						used[k] = false
					}
				}
				return
			}
			c := newCase()
			for j, k := range perm {
				c.add(c10Put, k, 100+j)
			}
			c.add(c10Remove, perm[0], 0)
			c.add(c10Remove, perm[nperm/2], 0)
			for k := 0; k < nperm; k++ {
				c.add(c10Get, k, 0)
			}
			c.add(c10Put, perm[0], 999)
			c.add(c10Get, perm[0], 0)
			c.emit("exhaustive")
		}
		rec(0)
	}
	genExh(g.Pick(5, 6), g.Pick(8, 9))
	g.Exhaustive("exhaustive")

	// ---- systematic insertion orders (stream "orders") ----
	// n = 5..40 (thorough 5..160) distinct keys put in six fixed orders, nothing else in the
	// case: Height is observed after every Put, so a tree that grows too tall in ONE of the
	// orders is reported with a replay of about a dozen Puts.  Keys are 2i-n (negative and
	// positive, odd keys absent).
	genOrders := func(maxN int) {
		for n := 5; n <= maxN; n++ {
			for o := 0; o < c10NumOrders; o++ {
				c := newCase()
				for j, i := range c10Order(o, n) {
					c.add(c10Put, 2*i-n, 100+j)
				}
				g.Count("orders:" + c10OrderName[o])
				c.emit("orders")
			}
		}
	}
	genOrders(g.Pick(40, 160))

	// ---- tombstones at every position (stream "tombstones") ----
	// a tree of n = 4..14 (thorough 4..26) keys built in each order; then
	//  (a) for every key x: Remove x, Get x and its two neighbours and the absent keys next to
	//      it, Traverse, Remove x again, Put x, Get x, Traverse — x runs over every position:
	//      first/last entry of a leaf, separator of an internal node at every level, least and
	//      greatest key of the tree;
	//  (b) for every window of 2..4 consecutive keys: Remove them all (whole leaves go dead),
	//      Traverse, Get each, re-Put the first one, Traverse;
	//  (c) Remove every key (ascending / descending), Traverse, then re-Put all of them in
	//      another order: Size returns to n, Height must not move.
	genTombstones := func(maxT int) {
		for n := 4; n <= maxT; n++ {
			for o := 0; o < c10NumOrders; o++ {
				ord := c10Order(o, n)
				build := func() *c10Case {
					c := newCase()
					for j, i := range ord {
						c.add(c10Put, 2*i-n, 100+j)
					}
					return c
				}
				for i := 0; i < n; i++ { // (a)
					x := 2*i - n
					c := build()
					c.add(c10Remove, x, 0)
					for _, y := range []int{x, x - 2, x + 2, x - 1, x + 1} {
						c.add(c10Get, y, 0)
					}
					c.add(c10Trav, 0, 0)
					c.add(c10Remove, x, 0)
					c.add(c10Put, x, 900+i)
					c.add(c10Get, x, 0)
					c.add(c10Trav, 0, 0)
					g.Count("tombstones:single")
					c.emit("tombstones")
				}
				for w := 2; w <= 4; w++ { // (b)
					for i := 0; i+w <= n; i++ {
						c := build()
						for j := i; j < i+w; j++ {
							c.add(c10Remove, 2*j-n, 0)
						}
						c.add(c10Trav, 0, 0)
						for j := i - 1; j <= i+w; j++ {
							c.add(c10Get, 2*j-n, 0)
						}
						c.add(c10Put, 2*i-n, 800+i)
						c.add(c10Trav, 0, 0)
						g.Count("tombstones:window")
						c.emit("tombstones")
					}
				}
				for dir := 0; dir < 2; dir++ { // (c)
					c := build()
					for i := 0; i < n; i++ {
						j := i
						if dir == 1 {
							j = n - 1 - i
						}
						c.add(c10Remove, 2*j-n, 0)
					}
					c.add(c10Trav, 0, 0)
					c.add(c10Get, 2*ord[0]-n, 0)
					for j, i := range c10Order((o+1+dir)%c10NumOrders, n) {
						c.add(c10Put, 2*i-n, 700+j)
					}
					c.add(c10Trav, 0, 0)
					g.Count("tombstones:all")
					c.emit("tombstones")
				}
			}
		}
	}
	genTombstones(g.Pick(14, 26))

	// ---- edge inputs (there is no invalid input for this API) ----
	edge := func(ops ...[3]int) {
		c := newCase()
		for _, o := range ops {
			c.add(o[0], o[1], o[2])
		}
		c.emit("malformed")
	}
	big := int(c10Wire(1 << 62)) // the code of the key 2^62 (-big: the code of -2^62)
	edge()
	edge([3]int{c10Get, 0, 0})
	edge([3]int{c10Remove, 0, 0}, [3]int{c10Get, 0, 0})
	edge([3]int{c10Remove, -1, 0}, [3]int{c10Remove, -1, 0}, [3]int{c10Put, -1, 7}, [3]int{c10Get, -1, 0})
	edge([3]int{c10Put, 0, 0}, [3]int{c10Get, 0, 0}, [3]int{c10Remove, 0, 0}, [3]int{c10Get, 0, 0})
	edge([3]int{c10Put, big, 1}, [3]int{c10Put, -big, 2}, [3]int{c10Put, 0, 3}, [3]int{c10Put, -1, 4}, [3]int{c10Put, 1, 5},
		[3]int{c10Get, big, 0}, [3]int{c10Get, -big, 0}, [3]int{c10Remove, -big, 0}, [3]int{c10Get, -big, 0}, [3]int{c10Get, big - 1, 0})
	for k := -3; k <= 3; k++ { // the same key again and again
		edge([3]int{c10Put, k, 1}, [3]int{c10Put, k, 2}, [3]int{c10Remove, k, 0}, [3]int{c10Remove, k, 0},
			[3]int{c10Put, k, 3}, [3]int{c10Put, k, 4}, [3]int{c10Get, k, 0})
	}

	// ---- extreme keys (stream "extreme") ----
	// MinInt64, MaxInt64, +-2^62 and their neighbours, +-2^60, 2^31, 2^32+1, 0, +-1 ... mixed with
	// small negative and positive keys; sent as codes (see c10Key).  Built in the six fixed orders
	// and in seeded random orders; every key is then looked up, half of them removed, looked up
	// again together with absent neighbours (MaxInt64-2, MinInt64+2, 2^62+2 ...), re-put, looked up.
	xs := []int{math.MinInt64, math.MinInt64 + 1, -(1 << 62) - 1, -(1 << 62), -(1 << 62) + 1, -(1 << 60), -1000003, -1, 0, 1, 7,
		1 << 31, 1<<32 + 1, 1 << 60, 1<<62 - 1, 1 << 62, 1<<62 + 1, math.MaxInt64 - 1, math.MaxInt64}
	absent := []int{math.MinInt64 + 2, -(1 << 62) - 2, -2, 2, 1<<62 + 2, math.MaxInt64 - 2}
	extreme := func(keys []int, perm []int, tag string) {
		c := newCase()
		code := func(k int) int { return int(c10Wire(k)) }
		for j, i := range perm {
			c.add(c10Put, code(keys[i]), 100+j)
		}
		for _, k := range keys {
			c.add(c10Get, code(k), 0)
		}
		for _, k := range absent {
			c.add(c10Get, code(k), 0)
		}
		for j, i := range perm {
			if j%2 == 0 {
				c.add(c10Remove, code(keys[i]), 0)
			}
		}
		c.add(c10Trav, 0, 0)
		for _, k := range keys {
			c.add(c10Get, code(k), 0)
		}
		for j, i := range perm {
			if j%4 == 0 {
				c.add(c10Put, code(keys[i]), 500+j)
				c.add(c10Get, code(keys[i]), 0)
			}
		}
		g.Count("extreme:" + tag)
		c.emit("extreme")
	}
	var mixed []int // the extremes + -30..30 step 3: 40 keys, three to four levels
	mixed = append(mixed, xs...)
	for k := -30; k <= 30; k += 3 {
		if k != 0 {
			mixed = append(mixed, k)
		}
	}
	sort.Ints(mixed)
	genExtreme := func(nRandom int) {
		for _, set := range [][]int{xs, mixed, {math.MinInt64, math.MaxInt64, 0, -(1 << 62), 1 << 62}} {
			for o := 0; o < c10NumOrders; o++ {
				extreme(set, c10Order(o, len(set)), "fixed-order")
			}
			for r := 0; r < nRandom; r++ {
				extreme(set, g.Rng.Perm(len(set)), "random-order")
			}
		}
	}
	genExtreme(g.Pick(40, 400))

	// ---- large trees (stream "large") ----
	// n = 600 and 1100 keys 3i-n in sorted, reversed, interleaved (outside-in) and random order,
	// 2500 sorted and reversed, 5000 random (thorough: 600..5000 in all four orders, 10000
	// reversed and random): 7 to 12 levels, so the root splits at every level and there
	// are separators of every depth.  Then half of the keys are removed (every other key in key
	// order, or a random half), a lookup of a removed and a live key after every 64th Remove, half
	// of the removed keys are put again, and EVERY key ever inserted is looked up, plus absent
	// keys between them and beyond both ends.  Height/Size/IsEmpty after every operation, a
	// Traverse after the removals and the final one.
	large := func(n, order int) {
		c := newCase()
		var ord []int
		switch order {
		case 0, 1, 2:
			ord = c10Order(order, n)
		default:
			ord = g.Rng.Perm(n)
		}
		key := func(i int) int { return 3*i - n }
		for j, i := range ord {
			c.add(c10Put, key(i), 10000+j)
		}
		var removed []int
		if order == 3 {
			removed = g.Rng.Perm(n)[:n/2]
		} else {
			for i := order % 2; i < n; i += 2 {
				removed = append(removed, i)
			}
		}
		for j, i := range removed {
			c.add(c10Remove, key(i), 0)
			if j%64 == 0 {
				c.add(c10Get, key(i), 0)
				c.add(c10Get, key((i+1)%n), 0)
			}
		}
		c.add(c10Trav, 0, 0)
		for j, i := range removed {
			if j%2 == 0 {
				c.add(c10Put, key(i), 50000+j)
			}
		}
		for i := 0; i < n; i++ {
			c.add(c10Get, key(i), 0)
			if i%50 == 0 {
				c.add(c10Get, key(i)+1, 0) // between two keys: absent
			}
		}
		c.add(c10Get, key(0)-1, 0)
		c.add(c10Get, key(n-1)+1, 0)
		g.Count([]string{"large:sorted", "large:reversed", "large:interleaved", "large:random"}[order])
		c.emit("large")
	}
	// (the reference machine of the property checker is an association list: a case costs
	// about n^2, which is what limits the sizes of the quick tier)
	for _, n := range []int{600, 1100} {
		for o := 0; o < 4; o++ {
			large(n, o)
		}
	}
	if g.Quick() {
		large(2500, 0)
		large(2500, 1)
		large(5000, 3)
	} else {
		for _, n := range []int{2500, 5000} {
			for o := 0; o < 4; o++ {
				large(n, o)
			}
		}
		large(10000, 1)
		large(10000, 3)
	}

	// ---- seeded random histories ----
	// build phase in sorted / reversed / random key order over 0..K, interleaved with
	// overwrites, removes of live / tombstoned / absent keys, re-puts of removed keys and
	// lookups of live / removed / absent keys; ends with lookups of every removed key and a
	// sample of the others.
	random := func(K, nkeys int, order int, churn float64) {
		c := newCase()
		keys := g.Rng.Perm(K + 1)[:nkeys]
		switch order {
		case 0:
			sort.Ints(keys)
		case 1:
			sort.Ints(keys)
			for i, j := 0, len(keys)-1; i < j; i, j = i+1, j-1 {
				keys[i], keys[j] = keys[j], keys[i]
			}
		}
		g.Count([]string{"order=sorted", "order=reversed", "order=random"}[order])
		var put, gone []int // keys put so far; keys removed at some point
		val := 1000
		pick := func(s []int) int { return s[g.Rng.Intn(len(s))] }
		for _, k := range keys {
			val++
			c.add(c10Put, k, val)
			put = append(put, k)
			for g.Rng.Float64() < churn {
				val++
				switch g.Rng.Intn(9) {
				case 8:
					if g.Rng.Intn(4) == 0 {
						c.add(c10Trav, 0, 0) // a traversal in the middle of the history
					}
				case 0:
					c.add(c10Put, pick(put), val) // overwrite or revive
				case 1, 2:
					k2 := pick(put)
					c.add(c10Remove, k2, 0)
					gone = append(gone, k2)
					if g.Rng.Intn(2) == 0 {
						c.add(c10Get, k2, 0)
					}
				case 3:
					if len(gone) > 0 {
						c.add(c10Remove, pick(gone), 0) // usually already removed
					} else {
						c.add(c10Remove, g.Rng.Intn(K+1), 0)
					}
				case 4:
					if len(gone) > 0 {
						k2 := pick(gone)
						c.add(c10Put, k2, val) // re-put of a removed key
						c.add(c10Get, k2, 0)
					}
				case 5:
					c.add(c10Get, pick(put), 0)
				case 6:
					c.add(c10Get, g.Rng.Intn(K+3)-1, 0) // often absent
				case 7:
					c.add(c10Remove, g.Rng.Intn(K+3)-1, 0) // often absent
				}
			}
		}
		for _, k := range gone {
			if g.Rng.Intn(3) == 0 {
				c.add(c10Get, k, 0)
			}
		}
		for i := 0; i < 12; i++ {
			c.add(c10Get, g.Rng.Intn(K+3)-1, 0)
		}
		c.emit("random")
	}
	nSmall := g.Pick(1500, 15000)
	for i := 0; i < nSmall; i++ { // small enough for the in-Coq cross-check
		random(40, 4+g.Rng.Intn(30), g.Rng.Intn(3), 0.5)
	}
	nBig := g.Pick(240, 2400)
	for i := 0; i < nBig; i++ {
		random(400, 60+g.Rng.Intn(341), i%3, 0.35)
	}

	// ---- other instantiations of the generic type (stream "instances") ----
	// the same scripts — the systematic orders up to 40 keys, the tombstone scripts on trees of
	// 4..10 (thorough 4..14) keys, random histories, two large trees; on strings also the extreme
	// keys — executed on BTree[string,string] and BTree[float64,float64] (see execC10): anything in
	// the code that depends on the key or value TYPE (a fast path, an equality through the
	// representation, a comparison through formatting) shows as a disagreement with the model.
	for inst = c10InstString; inst <= c10InstFloat; inst++ {
		genOrders(40)
		genTombstones(g.Pick(10, 14))
		if inst == c10InstString {
			genExtreme(g.Pick(6, 60)) // float64 cannot hold MaxInt64-1 exactly: strings only
			large(600, 1)
			large(1100, 0)
		} else {
			large(600, 3)
			large(1100, 1)
		}
		for i := 0; i < g.Pick(300, 3000); i++ {
			random(40, 4+g.Rng.Intn(30), g.Rng.Intn(3), 0.5)
		}
		for i := 0; i < g.Pick(40, 400); i++ {
			random(400, 60+g.Rng.Intn(341), i%3, 0.35)
		}
	}
	inst = c10InstInt

	// ---- keys that the bare < and == do not order: NaN; and +-Inf, +-MaxFloat64, denormals, +-0 (stream "nan") ----
	// Instance 3 (see c10SpecialKeys).  (1) exhaustive: every sequence of up to 4 (thorough 5) mutators over
	// {Put k, Remove k} for the six keys NaN, -Inf, -5e-324, +-0, 0.75, +Inf, Get after each, Get of all six and
	// Traverse at the end; every insertion order of those six keys and 1.5 followed by two Removes, Get of all,
	// re-Put.  (2) the orders, tombstone, random and large scripts in which the script keys -4/-3 and 5 are
	// NaN, -2 and 6 are -Inf, 0 is +-0, -1/1 the denormals, 2 is +Inf, 3 MaxFloat64, 4 -MaxFloat64 — so the NaN
	// is put first, last and in the middle, is a separator, is removed, revived, overwritten, looked up when
	// absent, and sits next to -Inf.  Every use of the NaN has another payload and sign bit.
	inst = c10InstFloatNaN
	small := [6]int{c10NaN, c10NInf, -1, 0, 3, c10PInf}
	remap = func(k int) int {
		if k >= 0 && k < 6 {
			return small[k]
		}
		return k
	}
	genExh(g.Pick(4, 5), 7)
	remap = func(k int) int {
		switch k {
		case -4, -3, 5:
			return c10NaN
		case -2, 6:
			return c10NInf
		case 2:
			return c10PInf
		case 3:
			return c10PMax
		case 4:
			return c10NMax
		}
		return k
	}
	genOrders(g.Pick(24, 60))
	genTombstones(g.Pick(9, 14))
	large(600, 3)
	large(600, 1)
	for i := 0; i < g.Pick(400, 4000); i++ {
		random(12, 4+g.Rng.Intn(9), g.Rng.Intn(3), 0.6) // dense: the special keys are hit all the time
	}
	for i := 0; i < g.Pick(300, 3000); i++ {
		random(40, 4+g.Rng.Intn(30), g.Rng.Intn(3), 0.5)
	}
	for i := 0; i < g.Pick(30, 300); i++ {
		random(400, 60+g.Rng.Intn(341), i%3, 0.35)
	}
	// the shortest witnesses of the defect repaired by fixes/nan10 and of seeded C10-9
	for _, ops := range [][][3]int{
		{{c10Put, 1, 10}, {c10Put, 2, 20}, {c10Put, c10NaN, 99}, {c10Put, 3, 30}, {c10Get, 1, 0}, {c10Get, 2, 0}, {c10Get, c10NaN, 0}},
		{{c10Put, 1, 10}, {c10Put, c10NaN, 99}, {c10Get, 1, 0}, {c10Get, c10NaN, 0}, {c10Put, c10NaN, 98}, {c10Get, c10NaN, 0}},
		{{c10Put, 1, 10}, {c10Remove, 1, 0}, {c10Put, c10NaN, 99}, {c10Get, 1, 0}, {c10Remove, c10NaN, 0}, {c10Get, c10NaN, 0}},
		{{c10Put, 0, 1}, {c10Put, 0, 2}, {c10Remove, 0, 0}, {c10Put, 0, 3}, {c10Get, 0, 0}},
	} {
		remap = nil
		c := newCase()
		for _, o := range ops {
			c.add(o[0], o[1], o[2])
		}
		c.emit("witness")
	}
	remap = nil
	inst = c10InstInt
}

func init() {
	register(&Prop{ID: "C10", Exec: execC10, Gen: genC10, Describe: describeC10,
		Rule: "exhaustive: every sequence of up to 5 (thorough 6) mutators over {Put k, Remove k : k in 0..5} (the value put at step i is 100(i+1)+k), each mutator followed by Get of its key, ending with Get 0..5 and Traverse; plus every insertion order of the keys 0..7 (thorough 0..8; height 2 is reached) followed by Remove of the first and the middle key put, Get of every key, re-Put and Get of the first key; Size/IsEmpty/Height observed after every operation. orders: 5..40 (thorough 5..160) keys 2i-n put in six fixed orders (ascending, descending, zig-zag outside-in and inside-out, evens up then odds down, saw-tooth of 4), Puts only, Height after every Put. tombstones: trees of 4..14 (thorough 4..26) keys built in each of those orders, then for EVERY key: Remove, Get of it / its neighbours / the absent keys beside it, Traverse, Remove again, re-Put, Get, Traverse; for every window of 2..4 consecutive keys: Remove all, Traverse, Get, re-Put one, Traverse; Remove all keys, Traverse, re-Put all in another order, Traverse. extreme: the 19 keys MinInt64, MinInt64+1, -2^62-1..-2^62+1, -2^60, -1000003, -1, 0, 1, 7, 2^31, 2^32+1, 2^60, 2^62-1..2^62+1, MaxInt64-1, MaxInt64 alone, mixed with -30..30 (40 keys), and the 5 keys MinInt64, -2^62, 0, 2^62, MaxInt64, in the six fixed orders and 40 (thorough 400) random orders each: Get of every key and of absent neighbours, Remove of every other key put, Traverse, Get of every key, re-Put of half of the removed ones (keys travel as order-preserving codes because the model runner reads 63-bit integers). large: 600 and 1100 keys 3i-n in sorted, reversed, interleaved and random order, 2500 sorted and reversed, 5000 random (thorough: 600, 1100, 2500, 5000 in all four orders, 10000 reversed and random); 7..12 levels, Remove of half of them, Traverse, re-Put of half of the removed, Get of EVERY key ever inserted and of absent keys between and beyond them. edge stream: empty history, operations on the empty tree, negative and +-2^62 keys, one key put/removed repeatedly. random: 1500 (thorough 15000) histories over keys 0..40 and 240 (thorough 2400) over keys 0..400 (60..400 distinct keys, 3..8 levels), keys first put in sorted / reversed / random order, interleaved with overwrites, removes of live, already-removed and absent keys, re-puts of removed keys, lookups of live, removed and absent keys and an occasional Traverse in the middle. instances: the orders (5..40 keys), the tombstone scripts on trees of 4..10 (thorough 4..14) keys, 300+40 (thorough 3000+400) random histories and two large trees (600 and 1100 keys) executed on BTree[string,string] (key = 20-digit decimal of k+2^63 built with strconv at every use, value = decimal string; also the extreme keys) and on BTree[float64,float64] (key = k/4, value = v+0.5; NaN, infinities and signed zeros: stream nan), decoded back to the ints of the wire; such a case starts with the selector record Get(0) whose ignored third word names the instance. nan: instance 3 = BTree[float64,float64] whose key codes -1000002 < -1000001 < -1000000 < k < 1000000 < 1000001 stand for NaN (another payload and sign bit at every use), -Inf, -MaxFloat64, k/4 (k = +-1: +-5e-324, k = 0: +0 and -0 alternately), MaxFloat64, +Inf, strictly increasing for the keyLess order of btree.go (NaN first), observations canonicalised (any NaN -> one code, -0 -> 0): every sequence of up to 4 (thorough 5) mutators over {Put k, Remove k} for the keys NaN, -Inf, -5e-324, +-0, 0.75, +Inf with Get after each, Get of all and Traverse; every insertion order of 7 such keys with two Removes, Gets, re-Put; the orders (5..24, thorough 5..60), tombstone (4..9, thorough 4..14), two large (600 keys) and 400+300+30 (thorough x10) random scripts in which the script keys -4/-3/5 are NaN, -2/6 -Inf, 0 +-0, +-1 the denormals, 2 +Inf, 3 MaxFloat64, 4 -MaxFloat64; four fixed witnesses. non-trivial = the root split at least once (final Height >= 1) AND a live key was removed and later looked up or put again; distinct = distinct wire input"})
}
