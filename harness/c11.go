package main

import (
	"fmt"
	"math"
	"sort"
	"strconv"
	"strings"

	"github.com/esimov/gogu"
)

// C11 wire input: fn :: ty :: args   (mirror of coq/theories/C11_Wire.v)
//
//	1 Unique zs            2 UniqueBy k zs          3 Union tree
//	4 Intersection zss     5 IntersectionBy k zss   6 Difference zs zs
//	7 DifferenceBy k zs zs 8 Without zs vals        9 Duplicate zs (sorted)
//	10 DuplicateWithIndex zs (key-sorted pairs)
//
// ty: element type the generic function is instantiated at — 0 int, 1 string
// ("v<n>"), 2 float64 (n + 0.25); values on the wire are the integers n.
// ty 3: float64 with NaN and signed zeros — the words are float codes and the key
// functions are float functions (c11nan.go).  ty 4: *int, the pointers numbered 2k and 2k+1
// point to equal ints (== is pointer identity; the model is the one of ty 0).
// key functions k: 0 id, 1 x%2, 2 const 0, 3 x/2, 4 |x|   (conjugated with the renaming)
// tree (prefix code): 0 v = T; 1 n v.. = []T; 2 n t.. = []any;
// 3 = a scalar of another type, 4 = nil, 5 = a slice of another type (all "wrong dynamic type")

func c11Key(c int) func(int) int {
	switch c {
	case 0:
		return func(x int) int { return x }
	case 1:
		return func(x int) int { return x % 2 }
	case 2:
		return func(int) int { return 0 }
	case 3:
		return func(x int) int { return x / 2 }
	default:
		return func(x int) int {
			if x < 0 {
				return -x
			}
			return x
		}
	}
}

type c11Codec[T comparable] struct {
	enc      func(int) T
	dec      func(T) int
	badSc    any // a scalar of another dynamic type
	badSlice any // a slice of another dynamic type
	key      func(int) func(T) T // key functions on T itself (nil: c11Key conjugated with enc/dec)
}

var c11Int = c11Codec[int]{enc: func(x int) int { return x }, dec: func(x int) int { return x },
	badSc: "x", badSlice: [][]int{{1}}}
var c11Str = c11Codec[string]{enc: func(x int) string { return "v" + strconv.Itoa(x) },
	dec:   func(s string) int { n, _ := strconv.Atoi(s[1:]); return n },
	badSc: 7, badSlice: []int{1}}
// T = *int: == is pointer identity; the pointers with codes 2k and 2k+1 point to EQUAL ints, so a
// comparison that looks through the pointer (reflect.DeepEqual, *a == *b) merges what == keeps apart.
var c11PtrPool = map[int]*int{}
var c11PtrCode = map[*int]int{}

func c11PtrOf(x int) *int {
	p, ok := c11PtrPool[x]
	if !ok {
		v := x >> 1
		p = &v
		c11PtrPool[x], c11PtrCode[p] = p, x
	}
	return p
}

var c11Ptr = c11Codec[*int]{enc: c11PtrOf, dec: func(p *int) int {
	if c, ok := c11PtrCode[p]; ok {
		return c
	}
	return 777777777 // a pointer the harness did not hand in
}, badSc: "x", badSlice: []int{1}}

var c11Flt = c11Codec[float64]{enc: func(x int) float64 { return float64(x) + 0.25 },
	dec:   func(f float64) int { return int(math.Floor(f)) },
	badSc: "x", badSlice: []float32{1}}

func c11Encs[T comparable](c c11Codec[T], xs []int) []T {
	out := allocWindow[T](len(xs)) // aliased mode: a window of one shared array (util.go)
	for i, x := range xs {
		out[i] = c.enc(x)
	}
	return out
}

func c11Decs[T comparable](c c11Codec[T], ts []T) []int {
	out := make([]int, len(ts))
	for i, t := range ts {
		out[i] = c.dec(t)
	}
	return out
}

// c11Tree decodes the prefix code into the `any` value handed to Union/Flatten.
func c11Tree[T comparable](c c11Codec[T], r *R, depth int) any {
	if depth > 100000 {
		r.bad = true
		return nil
	}
	switch r.Int() {
	case 0:
		return c.enc(r.Int())
	case 1:
		return c11Encs(c, r.Ints())
	case 2:
		n := r.Int()
		if n < 0 || n > len(r.w) {
			r.bad = true
			return nil
		}
		out := make([]any, n)
		for i := range out {
			out[i] = c11Tree(c, r, depth+1)
		}
		return out
	case 3:
		return c.badSc
	case 4:
		return nil
	case 5:
		return c.badSlice
	default:
		r.bad = true
		return nil
	}
}

func c11Exec[T comparable](c c11Codec[T], fn int, r *R) []int64 {
	keyT := func(k int) func(T) T {
		if c.key != nil {
			return c.key(k)
		}
		f := c11Key(k)
		return func(t T) T { return c.enc(f(c.dec(t))) }
	}
	ints := func(ts []T) []int64 { return (&W{}).Ints(c11Decs(c, ts)).Out() }
	switch fn {
	case 1:
		return ints(gogu.Unique(c11Encs(c, r.Ints())))
	case 2:
		k, s := r.Int(), r.Ints()
		return ints(gogu.UniqueBy(c11Encs(c, s), keyT(k)))
	case 3:
		t := c11Tree(c, r, 0)
		res, err := gogu.Union[T](t)
		if err != nil {
			return resErr(1)
		}
		return resOk(ints(res)...)
	case 4, 5:
		k := 0
		if fn == 5 {
			k = r.Int()
		}
		ps := r.Intss()
		params := make([][]T, len(ps))
		for i, p := range ps {
			params[i] = c11Encs(c, p)
		}
		var res []T
		if try(func() {
			if fn == 4 {
				res = gogu.Intersection(params...)
			} else {
				res = gogu.IntersectionBy(keyT(k), params...)
			}
		}) {
			return resPanic()
		}
		return resOk(ints(res)...)
	case 6:
		s1, s2 := r.Ints(), r.Ints()
		return ints(gogu.Difference(c11Encs(c, s1), c11Encs(c, s2)))
	case 7:
		k, s1, s2 := r.Int(), r.Ints(), r.Ints()
		return ints(gogu.DifferenceBy(c11Encs(c, s1), c11Encs(c, s2), keyT(k)))
	case 8:
		s, vals := r.Ints(), r.Ints()
		return ints(gogu.Without[T, T](c11Encs(c, s), c11Encs(c, vals)...))
	case 9:
		d := c11Decs(c, gogu.Duplicate(c11Encs(c, r.Ints())))
		sort.Ints(d) // map iteration order is not an observable
		return (&W{}).Ints(d).Out()
	case 10:
		m := gogu.DuplicateWithIndex(c11Encs(c, r.Ints()))
		type kv struct{ k, v int }
		kvs := make([]kv, 0, len(m))
		for k, v := range m {
			kvs = append(kvs, kv{c.dec(k), v})
		}
		sort.Slice(kvs, func(i, j int) bool { return kvs[i].k < kvs[j].k })
		out := []int64{int64(len(kvs))}
		for _, e := range kvs {
			out = append(out, int64(e.k), int64(e.v))
		}
		return out
	}
	return []int64{-1}
}

func execC11(in []int64) []int64 {
	r := &R{w: in}
	fn, ty := r.Int(), r.Int()
	var res []int64
	if try(func() {
		switch ty {
		case 1:
			res = c11Exec(c11Str, fn, r)
		case 2:
			res = c11Exec(c11Flt, fn, r)
		case 3:
			res = c11Exec(c11NaN, fn, r)
		case 4:
			res = c11Exec(c11Ptr, fn, r)
		default:
			res = c11Exec(c11Int, fn, r)
		}
	}) {
		return resPanic()
	}
	return res
}

var c11Names = map[int]string{1: "Unique", 2: "UniqueBy", 3: "Union", 4: "Intersection", 5: "IntersectionBy",
	6: "Difference", 7: "DifferenceBy", 8: "Without", 9: "Duplicate", 10: "DuplicateWithIndex"}
var c11KeyNames = []string{"id", "x%2", "const0", "x/2", "abs"}
var c11TyNames = []string{"int", "string", "float64", "float64(NaN,-0)", "*int"}

func c11TreeText(r *R, depth int) string {
	if depth > 64 || len(r.w) == 0 {
		return "?"
	}
	switch r.Int() {
	case 0:
		return strconv.Itoa(r.Int())
	case 1:
		return "[]T" + fmt.Sprint(r.Ints())
	case 2:
		n := r.Int()
		if n < 0 || n > len(r.w) {
			return "?"
		}
		parts := make([]string, n)
		for i := range parts {
			parts[i] = c11TreeText(r, depth+1)
		}
		return "[]any{" + strings.Join(parts, ", ") + "}"
	case 3:
		return "<other-typed scalar>"
	case 4:
		return "nil"
	case 5:
		return "<other-typed slice>"
	}
	return "?"
}

func describeC11(in []int64) string {
	if len(in) < 2 {
		return ""
	}
	if in[1] == 3 {
		return describeC11NaN(in)
	}
	r := &R{w: in}
	fn, ty := r.Int(), r.Int()
	name := c11Names[fn]
	if ty >= 0 && ty < len(c11TyNames) {
		name += "[" + c11TyNames[ty] + "]"
	}
	kn := func(k int) string {
		if k >= 0 && k < len(c11KeyNames) {
			return c11KeyNames[k]
		}
		return "abs"
	}
	switch fn {
	case 1, 9, 10:
		return fmt.Sprintf("%s(%v)", name, r.Ints())
	case 2:
		k := r.Int()
		return fmt.Sprintf("%s(%v, %s)", name, r.Ints(), kn(k))
	case 3:
		return fmt.Sprintf("%s(%s)", name, c11TreeText(r, 0))
	case 4:
		return fmt.Sprintf("%s(%v...)", name, r.Intss())
	case 5:
		k := r.Int()
		return fmt.Sprintf("%s(%s, %v...)", name, kn(k), r.Intss())
	case 6, 8:
		a, b := r.Ints(), r.Ints()
		return fmt.Sprintf("%s(%v, %v)", name, a, b)
	case 7:
		k := r.Int()
		a, b := r.Ints(), r.Ints()
		return fmt.Sprintf("%s(%v, %v, %s)", name, a, b, kn(k))
	}
	return fmt.Sprint(in)
}

// ---- generator ----

// a tree as its prefix code plus what the non-triviality rule needs
type c11T struct {
	code  []int64
	depth int
	bad   bool
}

func c11Leafs(alpha [][]int64) []c11T {
	out := make([]c11T, len(alpha))
	for i, a := range alpha {
		out[i] = c11T{code: a, depth: 0, bad: a[0] >= 3}
	}
	return out
}

// all trees of nesting depth <= d whose []any nodes have <= width children
func c11Trees(base []c11T, d, width int) []c11T {
	if d == 0 {
		return base
	}
	sub := c11Trees(base, d-1, width)
	out := append([]c11T{}, base...)
	var rec func(k int, cur []c11T)
	rec = func(k int, cur []c11T) {
		if len(cur) == k {
			t := c11T{code: []int64{2, int64(k)}, depth: 1}
			for _, c := range cur {
				t.code = append(t.code, c.code...)
				if c.depth+1 > t.depth {
					t.depth = c.depth + 1
				}
				t.bad = t.bad || c.bad
			}
			out = append(out, t)
			return
		}
		for _, s := range sub {
			rec(k, append(cur, s))
		}
	}
	for k := 0; k <= width; k++ {
		rec(k, nil)
	}
	// trees of smaller depth appear again as members of sub-depth sets; dedupe by code
	seen := map[string]bool{}
	uniq := out[:0]
	for _, t := range out {
		key := fmt.Sprint(t.code)
		if !seen[key] {
			seen[key] = true
			uniq = append(uniq, t)
		}
	}
	return uniq
}

func hasDup(s []int) bool {
	seen := map[int]bool{}
	for _, v := range s {
		if seen[v] {
			return true
		}
		seen[v] = true
	}
	return false
}

func genC11(g *Gen) {
	emit := func(stream string, nt bool, w *W) {
		g.Count(c11Names[int(w.w[0])])
		g.Case(stream, nt, w.Out())
	}
	lenKey := func(n int) string {
		if n > 6 {
			return "len>6"
		}
		return "len=" + strconv.Itoa(n)
	}
	a4 := []int{0, 1, 2, 3}
	a3 := []int{0, 1, 2}
	keys := []int{0, 1, 2, 3}

	// --- exhaustive, one argument: every slice over {0,1,2,3} up to length 5 (thorough 6)
	slicesOver(a4, g.Pick(5, 6), func(s []int) {
		nt := len(s) >= 2 && hasDup(s)
		g.Count("first-arg " + lenKey(len(s)))
		for _, fn := range []int{1, 9, 10} {
			emit("exhaustive", nt, (&W{}).Int(fn).Int(0).Ints(s))
		}
		for _, k := range keys {
			emit("exhaustive", len(s) >= 2, (&W{}).Int(2).Int(0).Int(k).Ints(s))
		}
		// Intersection of a single argument
		emit("exhaustive", nt, (&W{}).Int(4).Int(0).Intss([][]int{s}))
		emit("exhaustive", nt, (&W{}).Int(5).Int(0).Int(1).Intss([][]int{s}))
	})
	// --- exhaustive, two arguments: first up to length 4 (thorough 5) over {0,1,2,3}, second up to 3
	var seconds [][]int
	slicesOver(a4, 3, func(s []int) { seconds = append(seconds, cloneInts(s)) })
	slicesOver(a4, g.Pick(4, 5), func(s1 []int) {
		for _, s2 := range seconds {
			nt := len(s1) >= 2 && (hasDup(s1) || len(s2) > 0)
			if len(s2) == 0 {
				g.Count("empty other argument")
			}
			emit("exhaustive", nt, (&W{}).Int(6).Int(0).Ints(s1).Ints(s2))
			emit("exhaustive", nt, (&W{}).Int(8).Int(0).Ints(s1).Ints(s2))
			emit("exhaustive", nt, (&W{}).Int(4).Int(0).Intss([][]int{s1, s2}))
			for _, k := range []int{1, 2, 3} {
				emit("exhaustive", nt, (&W{}).Int(7).Int(0).Int(k).Ints(s1).Ints(s2))
				emit("exhaustive", nt, (&W{}).Int(5).Int(0).Int(k).Intss([][]int{s1, s2}))
			}
		}
	})
	// --- exhaustive, three arguments over {0,1,2}: first up to length 4 (thorough 6), others up to 2
	var small [][]int
	slicesOver(a3, 2, func(s []int) { small = append(small, cloneInts(s)) })
	slicesOver(a3, g.Pick(4, 6), func(s1 []int) {
		for _, s2 := range small {
			for _, s3 := range small {
				nt := len(s1) >= 2 && (hasDup(s1) || len(s2)+len(s3) > 0)
				ps := [][]int{s1, s2, s3}
				emit("exhaustive", nt, (&W{}).Int(4).Int(0).Intss(ps))
				for _, k := range []int{1, 3} {
					emit("exhaustive", nt, (&W{}).Int(5).Int(0).Int(k).Intss(ps))
				}
			}
		}
	})
	// --- exhaustive, Union: every nesting of depth <= 2 over {0, 1, []T{1,0}, []T{}, wrong type} with <= 2
	// children per []any, and every nesting of depth <= 3 over {0, []T{1,0}, wrong type}
	full := c11Leafs([][]int64{{0, 0}, {0, 1}, {1, 2, 1, 0}, {1, 0}, {3}})
	for _, t := range c11Trees(full, 2, 2) {
		g.Count("union depth=" + strconv.Itoa(t.depth))
		emit("exhaustive", t.depth >= 2 || t.bad, (&W{}).Int(3).Int(0).Raw(t.code))
	}
	thin := c11Leafs([][]int64{{0, 0}, {1, 2, 1, 0}, {3}})
	for _, t := range c11Trees(thin, 3, 2) {
		if t.depth < 3 && !g.Quick() {
			continue
		}
		if t.depth == 3 {
			g.Count("union depth=3")
		}
		emit("exhaustive", t.depth >= 2 || t.bad, (&W{}).Int(3).Int(0).Raw(t.code))
	}
	g.Exhaustive("exhaustive")

	// --- malformed: no argument at all, nil / wrong-typed values at the top and below
	for ty := 0; ty <= 2; ty++ {
		emit("malformed", true, (&W{}).Int(4).Int(ty).Intss(nil))
		emit("malformed", true, (&W{}).Int(5).Int(ty).Int(1).Intss(nil))
		for _, code := range [][]int64{{3}, {4}, {5}, {2, 1, 4}, {2, 2, 0, 1, 5}, {2, 2, 1, 1, 1, 3}, {2, 1, 2, 1, 2, 1, 4},
			{2, 2, 0, 1, 2, 1, 2, 2, 0, 2, 3}, {2, 0}, {2, 1, 2, 0}} {
			emit("malformed", true, (&W{}).Int(3).Int(ty).Raw(code))
		}
	}

	// --- exhaustive at the other element types (string, float64, *int): every slice over {0,1,2} up to length 3, every pair
	for _, ty := range []int{1, 2, 4} {
		var shorts [][]int
		slicesOver(a3, 3, func(s []int) { shorts = append(shorts, cloneInts(s)) })
		for _, s1 := range shorts {
			nt := len(s1) >= 2 && hasDup(s1)
			g.Count("exhaustive at " + c11TyNames[ty])
			for _, fn := range []int{1, 9, 10} {
				emit("exhaustive", nt, (&W{}).Int(fn).Int(ty).Ints(s1))
			}
			emit("exhaustive", len(s1) >= 2, (&W{}).Int(2).Int(ty).Int(1).Ints(s1))
			emit("exhaustive", len(s1) >= 2, (&W{}).Int(3).Int(ty).Raw((&W{}).Int(2).Int(2).Int(1).Ints(s1).Int(2).Int(1).Int(1).Ints(s1).Out()))
			for _, s2 := range shorts {
				nt2 := len(s1) >= 2 && (hasDup(s1) || len(s2) > 0)
				emit("exhaustive", nt2, (&W{}).Int(6).Int(ty).Ints(s1).Ints(s2))
				emit("exhaustive", nt2, (&W{}).Int(8).Int(ty).Ints(s1).Ints(s2))
				emit("exhaustive", nt2, (&W{}).Int(7).Int(ty).Int(1).Ints(s1).Ints(s2))
				emit("exhaustive", nt2, (&W{}).Int(4).Int(ty).Intss([][]int{s1, s2}))
				emit("exhaustive", nt2, (&W{}).Int(5).Int(ty).Int(1).Intss([][]int{s1, s2}))
			}
		}
	}

	c11Large(g, emit)
	c11Extreme(g, emit)
	genC11NaN(g, emit)

	// --- seeded random: longer slices, wider alphabets, the three element types
	var randTree func(d int) ([]int64, int, bool)
	randTree = func(d int) ([]int64, int, bool) {
		c := g.Rng.Intn(20)
		switch {
		case c < 6 || (d == 0 && c < 12):
			return []int64{0, int64(g.Rng.Intn(9) - 2)}, 0, false
		case c < 12 || d == 0 && c < 19:
			return (&W{}).Int(1).Ints(randSlice(g.Rng, 4, -2, 6)).Out(), 0, false
		case c == 19:
			return []int64{int64(3 + g.Rng.Intn(3))}, 0, true
		}
		n := g.Rng.Intn(4)
		code := []int64{2, int64(n)}
		depth, bad := 1, false
		for i := 0; i < n; i++ {
			cc, dd, bb := randTree(d - 1)
			code = append(code, cc...)
			if dd+1 > depth {
				depth = dd + 1
			}
			bad = bad || bb
		}
		return code, depth, bad
	}
	nr := g.Pick(6000, 60000)
	for i := 0; i < nr; i++ {
		fn := 1 + g.Rng.Intn(10)
		ty := g.Rng.Intn(3)
		hi := 3 + g.Rng.Intn(10)
		lo := 0
		if ty == 0 && g.Rng.Intn(2) == 0 {
			lo = -hi
		}
		s := randSlice(g.Rng, 16, lo, hi)
		k := g.Rng.Intn(5)
		if ty != 0 && k == 4 {
			k = 1
		}
		g.Count("type " + c11TyNames[ty])
		w := (&W{}).Int(fn).Int(ty)
		nt := len(s) >= 2
		switch fn {
		case 1, 9, 10:
			w.Ints(s)
			nt = nt && hasDup(s)
		case 2:
			w.Int(k).Ints(s)
		case 3:
			code, depth, bad := randTree(4)
			if code[0] != 2 && g.Rng.Intn(4) != 0 {
				code = append([]int64{2, 1}, code...)
				depth++
			}
			w.Raw(code)
			nt = depth >= 2 || bad
			if bad {
				g.Count("union malformed nesting")
			}
		case 4, 5:
			n := 1 + g.Rng.Intn(4)
			ps := [][]int{s}
			for j := 1; j < n; j++ {
				ps = append(ps, randSlice(g.Rng, 12, lo, hi))
			}
			if fn == 5 {
				w.Int(k)
			}
			w.Intss(ps)
			g.Count(fmt.Sprintf("intersection arity=%d", n))
		case 6, 8:
			w.Ints(s).Ints(randSlice(g.Rng, 8, lo, hi))
		case 7:
			w.Int(k).Ints(s).Ints(randSlice(g.Rng, 8, lo, hi))
		}
		emit("random", nt, w)
	}
}

// c11Large: many arguments, many listed values, long slices with many distinct values, deep and
// wide nestings (both tiers).
func c11Large(g *Gen, emit func(string, bool, *W)) {
	const st = "large"
	base := []int{1, 2, 3, 2, 4, 1}
	for _, k := range []int{5, 33, 64, 65, 70, 130, 257, 300} {
		g.Count(fmt.Sprintf("large: intersection of %d slices", k))
		mk := func(pos int, odd []int) [][]int {
			ps := make([][]int, k)
			ps[0] = base
			for i := 1; i < k; i++ {
				ps[i] = []int{4, 3, 2, 1, 9 + i}
			}
			if pos > 0 {
				ps[pos] = odd
			}
			return ps
		}
		poss := map[int]bool{0: true, 1: true, k / 2: true, k - 2: true, k - 1: true}
		if k > 64 {
			poss[63], poss[64] = true, true
		}
		if k > 256 {
			poss[255], poss[256] = true, true
		}
		var order []int
		for pos := range poss {
			order = append(order, pos)
		}
		sort.Ints(order)
		for _, pos := range order {
			if pos < 0 || pos >= k {
				continue
			}
			// the argument at [pos] lacks the value 3 / holds only even values / is empty (pos 0: none does)
			for _, odd := range [][]int{{1, 2, 4}, {4, 2}, {}} {
				ps := mk(pos, odd)
				emit(st, true, (&W{}).Int(4).Int(0).Intss(ps))
				emit(st, true, (&W{}).Int(5).Int(0).Int(1).Intss(ps))
				emit(st, true, (&W{}).Int(5).Int(0).Int(3).Intss(ps))
				if pos == 0 {
					break
				}
			}
			emit(st, true, (&W{}).Int(4).Int(1+pos%2).Intss(mk(pos, []int{3, 1})))
		}
		// k copies of [1] followed by an empty slice
		ones := make([][]int, k+1)
		for i := 0; i < k; i++ {
			ones[i] = []int{1}
		}
		ones[k] = []int{}
		emit(st, true, (&W{}).Int(4).Int(0).Intss(ones))
		emit(st, true, (&W{}).Int(5).Int(0).Int(2).Intss(ones))
		// Without with k listed values
		vals := make([]int, k) // only the LAST listed value occurs in the slice more than marginally
		for i := range vals {
			vals[i] = 2 * i
		}
		vals[k-1] = 1
		sl := make([]int, 3*k)
		for i := range sl {
			sl[i] = (i * 7) % (2*k + 5)
		}
		emit(st, true, (&W{}).Int(8).Int(0).Ints(sl).Ints(vals))
		emit(st, true, (&W{}).Int(6).Int(0).Ints(sl).Ints(vals))
		emit(st, true, (&W{}).Int(7).Int(0).Int(3).Ints(sl).Ints(vals))
	}
	for _, n := range []int{100, 130, 257, 500, 1023, 2000} {
		g.Count(fmt.Sprintf("large: slice of %d", n))
		few := make([]int, n) // few distinct values
		for i := range few {
			few[i] = g.Rng.Intn(9)
		}
		twice := make([]int, n) // n/2 distinct values, each twice
		for i, v := range g.Rng.Perm(n) {
			twice[i] = v / 2
		}
		all := g.Rng.Perm(n) // n distinct values
		other := make([]int, 60)
		for i := range other {
			other[i] = g.Rng.Intn(n)
		}
		tys := []int{0}
		if n == 100 {
			tys = []int{0, 1, 2}
		}
		for _, ty := range tys {
			for _, s := range [][]int{few, twice, all} {
				for _, fn := range []int{1, 9, 10} {
					emit(st, true, (&W{}).Int(fn).Int(ty).Ints(s))
				}
				for k := 0; k <= 3; k++ {
					emit(st, true, (&W{}).Int(2).Int(ty).Int(k).Ints(s))
				}
				emit(st, true, (&W{}).Int(6).Int(ty).Ints(s).Ints(other))
				emit(st, true, (&W{}).Int(8).Int(ty).Ints(s).Ints(other))
				emit(st, true, (&W{}).Int(7).Int(ty).Int(3).Ints(s).Ints(other))
			}
			emit(st, true, (&W{}).Int(4).Int(ty).Intss([][]int{twice, all, few, other}))
			emit(st, true, (&W{}).Int(4).Int(ty).Intss([][]int{twice, all, twice}))
			emit(st, true, (&W{}).Int(5).Int(ty).Int(3).Intss([][]int{all, twice, other}))
		}
	}
	// Union: a chain of []any of the given depth around a leaf, and a []any with many children
	for _, depth := range []int{40, 200, 1000} {
		for _, leaf := range [][]int64{{0, 5}, {1, 4, 1, 2, 1, 3}, {3}, {2, 0}, {2, 2, 0, 1, 4}} {
			var code []int64
			for i := 0; i < depth; i++ {
				code = append(code, 2, 1)
			}
			g.Count("large: nesting depth")
			emit(st, true, (&W{}).Int(3).Int(depth%3).Raw(append(code, leaf...)))
		}
	}
	for _, width := range []int{300, 2000} {
		for _, last := range [][]int64{{0, 9}, {3}, {2, 1, 2, 1, 4}, {1, 2, 0, 10}} {
			code := []int64{2, int64(width)}
			for i := 0; i < width-1; i++ {
				if i%5 == 4 {
					code = append(code, 2, 2, 0, int64(i%13), 1, 1, int64(i))
				} else {
					code = append(code, 0, int64(i%11))
				}
			}
			g.Count("large: nesting width")
			emit(st, true, (&W{}).Int(3).Int(width%3).Raw(append(code, last...)))
		}
	}
}

// c11Extreme: none of the C11 helpers takes an int argument; the extreme stream feeds element values
// at the 32-bit boundaries and at the ends of the range the wire can carry (63-bit words) at T=int and
// T=string (float64 cannot represent them distinctly).
func c11Extreme(g *Gen, emit func(string, bool, *W)) {
	const st = "extreme"
	vals := []int{1<<62 - 1, -(1 << 62), 1<<62 - 2, 1 << 31, 1<<31 - 1, -(1 << 31), -(1 << 31) - 1, 1<<32 - 1, 1 << 32, 1<<32 + 1,
		-(1 << 32), -1, 0, 1}
	pick := func(maxLen int) []int {
		s := make([]int, g.Rng.Intn(maxLen+1))
		for i := range s {
			s[i] = vals[g.Rng.Intn(len(vals))]
		}
		return s
	}
	for i := 0; i < 400; i++ {
		fn := 1 + i%10
		ty := (i / 10) % 2
		k := g.Rng.Intn(5)
		if ty != 0 && k == 4 {
			k = 3
		}
		s := pick(8)
		w := (&W{}).Int(fn).Int(ty)
		switch fn {
		case 1, 9, 10:
			w.Ints(s)
		case 2:
			w.Int(k).Ints(s)
		case 3:
			w.Raw((&W{}).Int(2).Int(3).Int(1).Ints(s).Int(0).Int(vals[i%len(vals)]).Int(2).Int(1).Int(1).Ints(pick(3)).Out())
		case 4:
			w.Intss([][]int{s, pick(8), pick(8)})
		case 5:
			w.Int(k).Intss([][]int{s, pick(8)})
		case 6, 8:
			w.Ints(s).Ints(pick(4))
		case 7:
			w.Int(k).Ints(s).Ints(pick(4))
		}
		emit(st, len(s) >= 2, w)
	}
}

func init() {
	register(&Prop{ID: "C11", Exec: execC11, Gen: genC11, Describe: describeC11,
		Rule: "exhaustive (T=int): every slice over {0,1,2,3} up to length 5 (thorough 6) for Unique/UniqueBy(id,%2,const,/2)/Duplicate/DuplicateWithIndex/1-ary Intersection(By); every pair (first <= 4 (thorough 5), second <= 3 over {0,1,2,3}) for Difference/Without/DifferenceBy/2-ary Intersection(By) with keys %2,const,/2; every triple over {0,1,2} (first <= 4 (thorough 6), others <= 2) for Intersection(By); Union on every nesting of depth <= 2 over {0,1,[]T{1,0},[]T{},wrong type} and depth <= 3 over {0,[]T{1,0},wrong type} with <= 2 children per []any; the same helpers at T=string, T=float64 and T=*int (pointers 0 and 1 point to equal ints: == is identity) on every slice / pair over {0,1,2} up to length 3; malformed: no argument, nil and wrong-typed nodes; large (both tiers): Intersection(By) of 5/33/64/65/70/130/257/300 slices where one argument (first, middle, 64th, 65th, 256th, 257th, last) lacks a value or is empty, k copies of [1] then an empty slice, Without/Difference(By) with k listed values, slices of 100/130/257/500/1023/2000 elements (few / n/2 / n distinct values) through every helper, Union on nestings of depth 40/200/1000 and width 300/2000 with the wrong-typed node at the bottom / at the end; extreme: element values at the 32-bit boundaries and at +-2^62 (T=int, string); then seeded random slices up to length 16 at int/string/float64 and random nestings to depth 5; " + c11NaNRule + " non-trivial = the first argument has >= 2 elements and (a repeated value, or — for the binary/variadic helpers — a further non-empty argument); UniqueBy: >= 2 elements; Union: nesting depth >= 2 or a wrong-typed node; distinct = distinct wire input"})
}
