package main

import (
	"fmt"
	"math"
	"sort"
	"strconv"
	"strings"

	"github.com/esimov/gogu"
)

// C11 wire input: fn :: ty :: args   (mirror of coq/theories/C11_Wire.v)
//
//	1 Unique zs            2 UniqueBy k zs          3 Union tree
//	4 Intersection zss     5 IntersectionBy k zss   6 Difference zs zs
//	7 DifferenceBy k zs zs 8 Without zs vals        9 Duplicate zs (sorted)
//	10 DuplicateWithIndex zs (key-sorted pairs)
//
// ty: element type the generic function is instantiated at — 0 int, 1 string
// ("v<n>"), 2 float64 (n + 0.25); values on the wire are the integers n.
// key functions k: 0 id, 1 x%2, 2 const 0, 3 x/2, 4 |x|   (conjugated with the renaming)
// tree (prefix code): 0 v = T; 1 n v.. = []T; 2 n t.. = []any;
// 3 = a scalar of another type, 4 = nil, 5 = a slice of another type (all "wrong dynamic type")

func c11Key(c int) func(int) int {
	switch c {
	case 0:
		return func(x int) int { return x }
	case 1:
		return func(x int) int { return x % 2 }
	case 2:
		return func(int) int { return 0 }
	case 3:
		return func(x int) int { return x / 2 }
	default:
		return func(x int) int {
			if x < 0 {
				return -x
			}
			return x
		}
	}
}

type c11Codec[T comparable] struct {
	enc      func(int) T
	dec      func(T) int
	badSc    any // a scalar of another dynamic type
	badSlice any // a slice of another dynamic type
}

var c11Int = c11Codec[int]{enc: func(x int) int { return x }, dec: func(x int) int { return x },
	badSc: "x", badSlice: [][]int{{1}}}
var c11Str = c11Codec[string]{enc: func(x int) string { return "v" + strconv.Itoa(x) },
	dec:   func(s string) int { n, _ := strconv.Atoi(s[1:]); return n },
	badSc: 7, badSlice: []int{1}}
var c11Flt = c11Codec[float64]{enc: func(x int) float64 { return float64(x) + 0.25 },
	dec:   func(f float64) int { return int(math.Floor(f)) },
	badSc: "x", badSlice: []float32{1}}

func c11Encs[T comparable](c c11Codec[T], xs []int) []T {
	out := make([]T, len(xs))
	for i, x := range xs {
		out[i] = c.enc(x)
	}
	return out
}

func c11Decs[T comparable](c c11Codec[T], ts []T) []int {
	out := make([]int, len(ts))
	for i, t := range ts {
		out[i] = c.dec(t)
	}
	return out
}

// c11Tree decodes the prefix code into the `any` value handed to Union/Flatten.
func c11Tree[T comparable](c c11Codec[T], r *R, depth int) any {
	if depth > 64 {
		r.bad = true
		return nil
	}
	switch r.Int() {
	case 0:
		return c.enc(r.Int())
	case 1:
		return c11Encs(c, r.Ints())
	case 2:
		n := r.Int()
		if n < 0 || n > len(r.w) {
			r.bad = true
			return nil
		}
		out := make([]any, n)
		for i := range out {
			out[i] = c11Tree(c, r, depth+1)
		}
		return out
	case 3:
		return c.badSc
	case 4:
		return nil
	case 5:
		return c.badSlice
	default:
		r.bad = true
		return nil
	}
}

func c11Exec[T comparable](c c11Codec[T], fn int, r *R) []int64 {
	keyT := func(k int) func(T) T {
		f := c11Key(k)
		return func(t T) T { return c.enc(f(c.dec(t))) }
	}
	ints := func(ts []T) []int64 { return (&W{}).Ints(c11Decs(c, ts)).Out() }
	switch fn {
	case 1:
		return ints(gogu.Unique(c11Encs(c, r.Ints())))
	case 2:
		k, s := r.Int(), r.Ints()
		return ints(gogu.UniqueBy(c11Encs(c, s), keyT(k)))
	case 3:
		t := c11Tree(c, r, 0)
		res, err := gogu.Union[T](t)
		if err != nil {
			return resErr(1)
		}
		return resOk(ints(res)...)
	case 4, 5:
		k := 0
		if fn == 5 {
			k = r.Int()
		}
		ps := r.Intss()
		params := make([][]T, len(ps))
		for i, p := range ps {
			params[i] = c11Encs(c, p)
		}
		var res []T
		if try(func() {
			if fn == 4 {
				res = gogu.Intersection(params...)
			} else {
				res = gogu.IntersectionBy(keyT(k), params...)
			}
		}) {
			return resPanic()
		}
		return resOk(ints(res)...)
	case 6:
		s1, s2 := r.Ints(), r.Ints()
		return ints(gogu.Difference(c11Encs(c, s1), c11Encs(c, s2)))
	case 7:
		k, s1, s2 := r.Int(), r.Ints(), r.Ints()
		return ints(gogu.DifferenceBy(c11Encs(c, s1), c11Encs(c, s2), keyT(k)))
	case 8:
		s, vals := r.Ints(), r.Ints()
		return ints(gogu.Without[T, T](c11Encs(c, s), c11Encs(c, vals)...))
	case 9:
		d := c11Decs(c, gogu.Duplicate(c11Encs(c, r.Ints())))
		sort.Ints(d) // map iteration order is not an observable
		return (&W{}).Ints(d).Out()
	case 10:
		m := gogu.DuplicateWithIndex(c11Encs(c, r.Ints()))
		type kv struct{ k, v int }
		kvs := make([]kv, 0, len(m))
		for k, v := range m {
			kvs = append(kvs, kv{c.dec(k), v})
		}
		sort.Slice(kvs, func(i, j int) bool { return kvs[i].k < kvs[j].k })
		out := []int64{int64(len(kvs))}
		for _, e := range kvs {
			out = append(out, int64(e.k), int64(e.v))
		}
		return out
	}
	return []int64{-1}
}

func execC11(in []int64) []int64 {
	r := &R{w: in}
	fn, ty := r.Int(), r.Int()
	var res []int64
	if try(func() {
		switch ty {
		case 1:
			res = c11Exec(c11Str, fn, r)
		case 2:
			res = c11Exec(c11Flt, fn, r)
		default:
			res = c11Exec(c11Int, fn, r)
		}
	}) {
		return resPanic()
	}
	return res
}

var c11Names = map[int]string{1: "Unique", 2: "UniqueBy", 3: "Union", 4: "Intersection", 5: "IntersectionBy",
	6: "Difference", 7: "DifferenceBy", 8: "Without", 9: "Duplicate", 10: "DuplicateWithIndex"}
var c11KeyNames = []string{"id", "x%2", "const0", "x/2", "abs"}
var c11TyNames = []string{"int", "string", "float64"}

func c11TreeText(r *R, depth int) string {
	if depth > 64 || len(r.w) == 0 {
		return "?"
	}
	switch r.Int() {
	case 0:
		return strconv.Itoa(r.Int())
	case 1:
		return "[]T" + fmt.Sprint(r.Ints())
	case 2:
		n := r.Int()
		if n < 0 || n > len(r.w) {
			return "?"
		}
		parts := make([]string, n)
		for i := range parts {
			parts[i] = c11TreeText(r, depth+1)
		}
		return "[]any{" + strings.Join(parts, ", ") + "}"
	case 3:
		return "<other-typed scalar>"
	case 4:
		return "nil"
	case 5:
		return "<other-typed slice>"
	}
	return "?"
}

func describeC11(in []int64) string {
	if len(in) < 2 {
		return ""
	}
	r := &R{w: in}
	fn, ty := r.Int(), r.Int()
	name := c11Names[fn]
	if ty >= 0 && ty < 3 {
		name += "[" + c11TyNames[ty] + "]"
	}
	kn := func(k int) string {
		if k >= 0 && k < len(c11KeyNames) {
			return c11KeyNames[k]
		}
		return "abs"
	}
	switch fn {
	case 1, 9, 10:
		return fmt.Sprintf("%s(%v)", name, r.Ints())
	case 2:
		k := r.Int()
		return fmt.Sprintf("%s(%v, %s)", name, r.Ints(), kn(k))
	case 3:
		return fmt.Sprintf("%s(%s)", name, c11TreeText(r, 0))
	case 4:
		return fmt.Sprintf("%s(%v...)", name, r.Intss())
	case 5:
		k := r.Int()
		return fmt.Sprintf("%s(%s, %v...)", name, kn(k), r.Intss())
	case 6, 8:
		a, b := r.Ints(), r.Ints()
		return fmt.Sprintf("%s(%v, %v)", name, a, b)
	case 7:
		k := r.Int()
		a, b := r.Ints(), r.Ints()
		return fmt.Sprintf("%s(%v, %v, %s)", name, a, b, kn(k))
	}
	return fmt.Sprint(in)
}

// ---- generator ----

// a tree as its prefix code plus what the non-triviality rule needs
type c11T struct {
	code  []int64
	depth int
	bad   bool
}

func c11Leafs(alpha [][]int64) []c11T {
	out := make([]c11T, len(alpha))
	for i, a := range alpha {
		out[i] = c11T{code: a, depth: 0, bad: a[0] >= 3}
	}
	return out
}

// all trees of nesting depth <= d whose []any nodes have <= width children
func c11Trees(base []c11T, d, width int) []c11T {
	if d == 0 {
		return base
	}
	sub := c11Trees(base, d-1, width)
	out := append([]c11T{}, base...)
	var rec func(k int, cur []c11T)
	rec = func(k int, cur []c11T) {
		if len(cur) == k {
			t := c11T{code: []int64{2, int64(k)}, depth: 1}
			for _, c := range cur {
				t.code = append(t.code, c.code...)
				if c.depth+1 > t.depth {
					t.depth = c.depth + 1
				}
				t.bad = t.bad || c.bad
			}
			out = append(out, t)
			return
		}
		for _, s := range sub {
			rec(k, append(cur, s))
		}
	}
	for k := 0; k <= width; k++ {
		rec(k, nil)
	}
	// trees of smaller depth appear again as members of sub-depth sets; dedupe by code
	seen := map[string]bool{}
	uniq := out[:0]
	for _, t := range out {
		key := fmt.Sprint(t.code)
		if !seen[key] {
			seen[key] = true
			uniq = append(uniq, t)
		}
	}
	return uniq
}

func hasDup(s []int) bool {
	seen := map[int]bool{}
	for _, v := range s {
		if seen[v] {
			return true
		}
		seen[v] = true
	}
	return false
}

func genC11(g *Gen) {
	emit := func(stream string, nt bool, w *W) {
		g.Count(c11Names[int(w.w[0])])
		g.Case(stream, nt, w.Out())
	}
	lenKey := func(n int) string {
		if n > 6 {
			return "len>6"
		}
		return "len=" + strconv.Itoa(n)
	}
	a4 := []int{0, 1, 2, 3}
	a3 := []int{0, 1, 2}
	keys := []int{0, 1, 2, 3}

	// --- exhaustive, one argument: every slice over {0,1,2,3} up to length 5 (thorough 6)
	slicesOver(a4, g.Pick(5, 6), func(s []int) {
		nt := len(s) >= 2 && hasDup(s)
		g.Count("first-arg " + lenKey(len(s)))
		for _, fn := range []int{1, 9, 10} {
			emit("exhaustive", nt, (&W{}).Int(fn).Int(0).Ints(s))
		}
		for _, k := range keys {
			emit("exhaustive", len(s) >= 2, (&W{}).Int(2).Int(0).Int(k).Ints(s))
		}
		// Intersection of a single argument
		emit("exhaustive", nt, (&W{}).Int(4).Int(0).Intss([][]int{s}))
		emit("exhaustive", nt, (&W{}).Int(5).Int(0).Int(1).Intss([][]int{s}))
	})
	// --- exhaustive, two arguments: first up to length 4 (thorough 5) over {0,1,2,3}, second up to 3
	var seconds [][]int
	slicesOver(a4, 3, func(s []int) { seconds = append(seconds, cloneInts(s)) })
	slicesOver(a4, g.Pick(4, 5), func(s1 []int) {
		for _, s2 := range seconds {
			nt := len(s1) >= 2 && (hasDup(s1) || len(s2) > 0)
			if len(s2) == 0 {
				g.Count("empty other argument")
			}
			emit("exhaustive", nt, (&W{}).Int(6).Int(0).Ints(s1).Ints(s2))
			emit("exhaustive", nt, (&W{}).Int(8).Int(0).Ints(s1).Ints(s2))
			emit("exhaustive", nt, (&W{}).Int(4).Int(0).Intss([][]int{s1, s2}))
			for _, k := range []int{1, 2, 3} {
				emit("exhaustive", nt, (&W{}).Int(7).Int(0).Int(k).Ints(s1).Ints(s2))
				emit("exhaustive", nt, (&W{}).Int(5).Int(0).Int(k).Intss([][]int{s1, s2}))
			}
		}
	})
	// --- exhaustive, three arguments over {0,1,2}: first up to length 4 (thorough 6), others up to 2
	var small [][]int
	slicesOver(a3, 2, func(s []int) { small = append(small, cloneInts(s)) })
	slicesOver(a3, g.Pick(4, 6), func(s1 []int) {
		for _, s2 := range small {
			for _, s3 := range small {
				nt := len(s1) >= 2 && (hasDup(s1) || len(s2)+len(s3) > 0)
				ps := [][]int{s1, s2, s3}
				emit("exhaustive", nt, (&W{}).Int(4).Int(0).Intss(ps))
				for _, k := range []int{1, 3} {
					emit("exhaustive", nt, (&W{}).Int(5).Int(0).Int(k).Intss(ps))
				}
			}
		}
	})
	// --- exhaustive, Union: every nesting of depth <= 2 over {0, 1, []T{1,0}, []T{}, wrong type} with <= 2
	// children per []any, and every nesting of depth <= 3 over {0, []T{1,0}, wrong type}
	full := c11Leafs([][]int64{{0, 0}, {0, 1}, {1, 2, 1, 0}, {1, 0}, {3}})
	for _, t := range c11Trees(full, 2, 2) {
		g.Count("union depth=" + strconv.Itoa(t.depth))
		emit("exhaustive", t.depth >= 2 || t.bad, (&W{}).Int(3).Int(0).Raw(t.code))
	}
	thin := c11Leafs([][]int64{{0, 0}, {1, 2, 1, 0}, {3}})
	for _, t := range c11Trees(thin, 3, 2) {
		if t.depth < 3 && !g.Quick() {
			continue
		}
		if t.depth == 3 {
			g.Count("union depth=3")
		}
		emit("exhaustive", t.depth >= 2 || t.bad, (&W{}).Int(3).Int(0).Raw(t.code))
	}
	g.Exhaustive("exhaustive")

	// --- malformed: no argument at all, nil / wrong-typed values at the top and below
	for ty := 0; ty <= 2; ty++ {
		emit("malformed", true, (&W{}).Int(4).Int(ty).Intss(nil))
		emit("malformed", true, (&W{}).Int(5).Int(ty).Int(1).Intss(nil))
		for _, code := range [][]int64{{3}, {4}, {5}, {2, 1, 4}, {2, 2, 0, 1, 5}, {2, 2, 1, 1, 1, 3}, {2, 1, 2, 1, 2, 1, 4},
			{2, 2, 0, 1, 2, 1, 2, 2, 0, 2, 3}, {2, 0}, {2, 1, 2, 0}} {
			emit("malformed", true, (&W{}).Int(3).Int(ty).Raw(code))
		}
	}

	// --- seeded random: longer slices, wider alphabets, the three element types
	var randTree func(d int) ([]int64, int, bool)
	randTree = func(d int) ([]int64, int, bool) {
		c := g.Rng.Intn(20)
		switch {
		case c < 6 || (d == 0 && c < 12):
			return []int64{0, int64(g.Rng.Intn(9) - 2)}, 0, false
		case c < 12 || d == 0 && c < 19:
			return (&W{}).Int(1).Ints(randSlice(g.Rng, 4, -2, 6)).Out(), 0, false
		case c == 19:
			return []int64{int64(3 + g.Rng.Intn(3))}, 0, true
		}
		n := g.Rng.Intn(4)
		code := []int64{2, int64(n)}
		depth, bad := 1, false
		for i := 0; i < n; i++ {
			cc, dd, bb := randTree(d - 1)
			code = append(code, cc...)
			if dd+1 > depth {
				depth = dd + 1
			}
			bad = bad || bb
		}
		return code, depth, bad
	}
	nr := g.Pick(6000, 60000)
	for i := 0; i < nr; i++ {
		fn := 1 + g.Rng.Intn(10)
		ty := g.Rng.Intn(3)
		hi := 3 + g.Rng.Intn(10)
		lo := 0
		if ty == 0 && g.Rng.Intn(2) == 0 {
			lo = -hi
		}
		s := randSlice(g.Rng, 16, lo, hi)
		k := g.Rng.Intn(5)
		if ty != 0 && k == 4 {
			k = 1
		}
		g.Count("type " + c11TyNames[ty])
		w := (&W{}).Int(fn).Int(ty)
		nt := len(s) >= 2
		switch fn {
		case 1, 9, 10:
			w.Ints(s)
			nt = nt && hasDup(s)
		case 2:
			w.Int(k).Ints(s)
		case 3:
			code, depth, bad := randTree(4)
			if code[0] != 2 && g.Rng.Intn(4) != 0 {
				code = append([]int64{2, 1}, code...)
				depth++
			}
			w.Raw(code)
			nt = depth >= 2 || bad
			if bad {
				g.Count("union malformed nesting")
			}
		case 4, 5:
			n := 1 + g.Rng.Intn(4)
			ps := [][]int{s}
			for j := 1; j < n; j++ {
				ps = append(ps, randSlice(g.Rng, 12, lo, hi))
			}
			if fn == 5 {
				w.Int(k)
			}
			w.Intss(ps)
			g.Count(fmt.Sprintf("intersection arity=%d", n))
		case 6, 8:
			w.Ints(s).Ints(randSlice(g.Rng, 8, lo, hi))
		case 7:
			w.Int(k).Ints(s).Ints(randSlice(g.Rng, 8, lo, hi))
		}
		emit("random", nt, w)
	}
}

func init() {
	register(&Prop{ID: "C11", Exec: execC11, Gen: genC11, Describe: describeC11,
		Rule: "exhaustive (T=int): every slice over {0,1,2,3} up to length 5 (thorough 6) for Unique/UniqueBy(id,%2,const,/2)/Duplicate/DuplicateWithIndex/1-ary Intersection(By); every pair (first <= 4 (thorough 5), second <= 3 over {0,1,2,3}) for Difference/Without/DifferenceBy/2-ary Intersection(By) with keys %2,const,/2; every triple over {0,1,2} (first <= 4 (thorough 6), others <= 2) for Intersection(By); Union on every nesting of depth <= 2 over {0,1,[]T{1,0},[]T{},wrong type} and depth <= 3 over {0,[]T{1,0},wrong type} with <= 2 children per []any; malformed: no argument, nil and wrong-typed nodes; then seeded random slices up to length 16 at int/string/float64 and random nestings to depth 5. non-trivial = the first argument has >= 2 elements and (a repeated value, or — for the binary/variadic helpers — a further non-empty argument); UniqueBy: >= 2 elements; Union: nesting depth >= 2 or a wrong-typed node; distinct = distinct wire input"})
}
