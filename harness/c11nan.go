package main

import (
	"fmt"
	"math"
	"strings"
)

// C11, stream `nan`: the set-algebra helpers instantiated at []float64 with NaN (a value that is not
// == to itself) and both zeros (+0 == -0 although they are different values) among the elements
// (mirror of the ty = 3 half of coq/theories/C11_Wire.v and of fkey_of in C11_ModelNaN.v).
//
// Wire: fn :: 3 :: args, the argument shapes of c11.go.  Every element on the wire is the CODE of a
// float64: the integer n for float64(n) (0 is +0), c11NegZ for -0, c11NaNc for NaN.  Only small
// integers are sent, so every float operation of the callbacks is exact.
//
// key functions: 0 id, 1 math.Mod(x,2), 2 const +0, 3 -x, 4 math.Abs, 5 const NaN, 6 x*0,
// 7 a sign test that tells -0 from +0 (NaN -> NaN, math.Signbit -> -1, else 1).
//
// Observation: the returned elements as codes — every NaN as c11NaNc, the SIGN OF A ZERO KEPT ("the
// first occurrence" decides which of +0 / -0 comes back).  Duplicate sorted by code,
// DuplicateWithIndex as (code, index) pairs sorted by code.
const (
	c11NaNc = -999999999
	c11NegZ = -999999998
)

func c11FEnc(x int) float64 {
	switch x {
	case c11NaNc:
		return math.NaN()
	case c11NegZ:
		return math.Copysign(0, -1)
	}
	return float64(x)
}

func c11FDec(f float64) int {
	switch {
	case f != f:
		return c11NaNc
	case f == 0 && math.Signbit(f):
		return c11NegZ
	case math.IsInf(f, 0) || f != math.Trunc(f) || math.Abs(f) > 1e8:
		return 777777777 // never produced by the model
	}
	return int(f)
}

func c11FKey(k int) func(float64) float64 {
	switch k {
	case 0:
		return func(x float64) float64 { return x }
	case 1:
		return func(x float64) float64 { return math.Mod(x, 2) }
	case 2:
		return func(float64) float64 { return 0 }
	case 3:
		return func(x float64) float64 { return -x }
	case 4:
		return math.Abs
	case 5:
		return func(float64) float64 { return math.NaN() }
	case 6:
		return func(x float64) float64 { return x * 0 }
	default:
		return func(x float64) float64 {
			if x != x {
				return x
			}
			if math.Signbit(x) {
				return -1
			}
			return 1
		}
	}
}

var c11NaN = c11Codec[float64]{enc: c11FEnc, dec: c11FDec, badSc: "x", badSlice: []float32{1}, key: c11FKey}

var c11FKeyNames = []string{"id", "Mod(x,2)", "const+0", "-x", "Abs", "constNaN", "x*0", "sign(-0<0)"}

func c11FText(x int) string {
	switch x {
	case c11NaNc:
		return "NaN"
	case c11NegZ:
		return "-0"
	case 0:
		return "+0"
	}
	return fmt.Sprint(x)
}

func c11FTexts(xs []int) string {
	parts := make([]string, len(xs))
	for i, x := range xs {
		parts[i] = c11FText(x)
	}
	return "[" + strings.Join(parts, " ") + "]"
}

func c11FTextss(xss [][]int) string {
	parts := make([]string, len(xss))
	for i, xs := range xss {
		parts[i] = c11FTexts(xs)
	}
	return strings.Join(parts, ", ")
}

func c11FTreeText(r *R, depth int) string {
	if depth > 64 || len(r.w) == 0 {
		return "?"
	}
	switch r.Int() {
	case 0:
		return c11FText(r.Int())
	case 1:
		return "[]float64" + c11FTexts(r.Ints())
	case 2:
		n := r.Int()
		if n < 0 || n > len(r.w) {
			return "?"
		}
		parts := make([]string, n)
		for i := range parts {
			parts[i] = c11FTreeText(r, depth+1)
		}
		return "[]any{" + strings.Join(parts, ", ") + "}"
	case 3:
		return "<other-typed scalar>"
	case 4:
		return "nil"
	case 5:
		return "<other-typed slice>"
	}
	return "?"
}

func describeC11NaN(in []int64) string {
	r := &R{w: in}
	fn, _ := r.Int(), r.Int()
	name := c11Names[fn] + "[float64]"
	kn := func(k int) string {
		if k >= 0 && k < len(c11FKeyNames) {
			return c11FKeyNames[k]
		}
		return c11FKeyNames[7]
	}
	switch fn {
	case 1, 9, 10:
		return fmt.Sprintf("%s(%s)", name, c11FTexts(r.Ints()))
	case 2:
		k := r.Int()
		return fmt.Sprintf("%s(%s, %s)", name, c11FTexts(r.Ints()), kn(k))
	case 3:
		return fmt.Sprintf("%s(%s)", name, c11FTreeText(r, 0))
	case 4:
		return fmt.Sprintf("%s(%s)", name, c11FTextss(r.Intss()))
	case 5:
		k := r.Int()
		return fmt.Sprintf("%s(%s, %s)", name, kn(k), c11FTextss(r.Intss()))
	case 6, 8:
		a, b := r.Ints(), r.Ints()
		return fmt.Sprintf("%s(%s, %s)", name, c11FTexts(a), c11FTexts(b))
	case 7:
		k := r.Int()
		a, b := r.Ints(), r.Ints()
		return fmt.Sprintf("%s(%s, %s, %s)", name, c11FTexts(a), c11FTexts(b), kn(k))
	}
	return fmt.Sprint(in)
}

// a NaN, or a -0 (which has a == twin of another bit pattern), somewhere in the arguments
func c11Special(xss ...[]int) bool {
	for _, xs := range xss {
		for _, x := range xs {
			if x == c11NaNc || x == c11NegZ {
				return true
			}
		}
	}
	return false
}

const c11NaNRule = "nan (T=float64 with NaN, +0, -0; element codes, the sign of a returned zero is observed): exhaustive — every slice over {NaN,+0,-0,1,2} up to length 4 (thorough 5) for Unique/Duplicate/DuplicateWithIndex/UniqueBy(8 key functions incl. const NaN, -x, x*0, a sign test telling -0 from +0)/1-ary Intersection(By); every pair (first <= 3, second <= 2; thorough also first <= 4 x second <= 2 and first <= 3 x second <= 3) for Difference/Without/Intersection and DifferenceBy/IntersectionBy with 6 key functions; every triple (first <= 2 (thorough 3) over {NaN,+0,-0,1}, others <= 2 over {NaN,-0,1}) for Intersection(By); Union on every nesting of depth <= 2 over {NaN,+0,-0,[]T{-0,NaN,+0},wrong type}; no argument / wrong-typed nodes; nan-large: slices of 150..600 elements, a third NaN or zeros; nan-random: seeded random slices up to length 12 over {NaN,+0,-0,-2..3} through every helper and key function, random nestings; non-trivial there = the first argument has >= 2 elements and some argument holds a NaN or a -0;"

func genC11NaN(g *Gen, emit func(string, bool, *W)) {
	const N, Z = c11NaNc, c11NegZ
	const st = "nan"
	a5 := []int{N, 0, Z, 1, 2}
	allKeys := []int{0, 1, 2, 3, 4, 5, 6, 7}
	byKeys := []int{1, 3, 4, 5, 6, 7}
	w3 := func(fn int) *W { return (&W{}).Int(fn).Int(3) }

	// --- one argument
	slicesOver(a5, g.Pick(4, 5), func(s []int) {
		nt := len(s) >= 2 && c11Special(s)
		g.Count(fmt.Sprintf("nan: first-arg len=%d", len(s)))
		for _, fn := range []int{1, 9, 10} {
			emit(st, nt, w3(fn).Ints(s))
		}
		for _, k := range allKeys {
			emit(st, nt, w3(2).Int(k).Ints(s))
		}
		emit(st, nt, w3(4).Intss([][]int{s}))
		emit(st, nt, w3(5).Int(7).Intss([][]int{s}))
	})
	// --- two arguments
	pairs := func(n1, n2 int, skip func(s1, s2 []int) bool) {
		var seconds [][]int
		slicesOver(a5, n2, func(s []int) { seconds = append(seconds, cloneInts(s)) })
		slicesOver(a5, n1, func(s1 []int) {
			for _, s2 := range seconds {
				if skip != nil && skip(s1, s2) {
					continue
				}
				nt := len(s1) >= 2 && c11Special(s1, s2)
				emit(st, nt, w3(6).Ints(s1).Ints(s2))
				emit(st, nt, w3(8).Ints(s1).Ints(s2))
				emit(st, nt, w3(4).Intss([][]int{s1, s2}))
				for _, k := range byKeys {
					emit(st, nt, w3(7).Int(k).Ints(s1).Ints(s2))
					emit(st, nt, w3(5).Int(k).Intss([][]int{s1, s2}))
				}
			}
		})
	}
	pairs(3, 2, nil)
	if !g.Quick() {
		pairs(4, 2, func(s1, _ []int) bool { return len(s1) <= 3 })
		pairs(3, 3, func(_, s2 []int) bool { return len(s2) <= 2 })
	}
	// --- three arguments
	var small [][]int
	slicesOver([]int{N, Z, 1}, 2, func(s []int) { small = append(small, cloneInts(s)) })
	slicesOver([]int{N, 0, Z, 1}, g.Pick(2, 3), func(s1 []int) {
		for _, s2 := range small {
			for _, s3 := range small {
				ps := [][]int{s1, s2, s3}
				nt := len(s1) >= 2 && c11Special(ps...)
				emit(st, nt, w3(4).Intss(ps))
				emit(st, nt, w3(5).Int(4).Intss(ps))
				emit(st, nt, w3(5).Int(7).Intss(ps))
			}
		}
	})
	// --- Union: every nesting of depth <= 2 over {NaN, +0, -0, []T{-0, NaN, +0}, wrong type}
	leafs := c11Leafs([][]int64{{0, N}, {0, 0}, {0, Z}, {1, 3, Z, N, 0}, {3}})
	for _, t := range c11Trees(leafs, 2, 2) {
		g.Count("nan: union depth=" + fmt.Sprint(t.depth))
		emit(st, t.depth >= 2 || t.bad, w3(3).Raw(t.code))
	}
	// --- malformed
	emit(st, true, w3(4).Intss(nil))
	emit(st, true, w3(5).Int(1).Intss(nil))
	for _, code := range [][]int64{{3}, {4}, {5}, {2, 2, 0, N, 5}, {2, 2, 1, 2, Z, N, 2, 1, 3}} {
		emit(st, true, w3(3).Raw(code))
	}
	g.Exhaustive(st)

	// --- longer slices: many NaNs, both zeros, few ordinary values
	elem := func(lo, hi int) int {
		switch c := g.Rng.Intn(9); {
		case c < 2:
			return N
		case c == 2:
			return Z
		case c == 3:
			return 0
		}
		return lo + g.Rng.Intn(hi-lo+1)
	}
	rnd := func(maxLen, lo, hi int) []int {
		s := make([]int, g.Rng.Intn(maxLen+1))
		for i := range s {
			s[i] = elem(lo, hi)
		}
		return s
	}
	for _, n := range []int{150, 300, 600} {
		s := rnd(n, -20, 20)
		for len(s) < n/2 {
			s = append(s, rnd(n, -20, 20)...)
		}
		other := rnd(40, -20, 20)
		g.Count("nan-large: slice")
		for _, fn := range []int{1, 9, 10} {
			emit("nan-large", true, w3(fn).Ints(s))
		}
		for _, k := range allKeys {
			emit("nan-large", true, w3(2).Int(k).Ints(s))
			emit("nan-large", true, w3(7).Int(k).Ints(s).Ints(other))
			emit("nan-large", true, w3(5).Int(k).Intss([][]int{s, other, s}))
		}
		emit("nan-large", true, w3(6).Ints(s).Ints(other))
		emit("nan-large", true, w3(8).Ints(s).Ints(other))
		emit("nan-large", true, w3(4).Intss([][]int{s, s, other}))
		emit("nan-large", true, w3(4).Intss([][]int{s}))
		emit("nan-large", true, w3(3).Raw((&W{}).Int(2).Int(3).Int(1).Ints(s).Int(0).Int(N).Int(2).Int(1).Int(1).Ints(other).Out()))
	}

	// --- seeded random
	var randTree func(d int) ([]int64, int, bool)
	randTree = func(d int) ([]int64, int, bool) {
		c := g.Rng.Intn(20)
		switch {
		case c < 6 || (d == 0 && c < 12):
			return []int64{0, int64(elem(-2, 3))}, 0, false
		case c < 12 || d == 0 && c < 19:
			return (&W{}).Int(1).Ints(rnd(4, -2, 3)).Out(), 0, false
		case c == 19:
			return []int64{int64(3 + g.Rng.Intn(3))}, 0, true
		}
		n := g.Rng.Intn(4)
		code := []int64{2, int64(n)}
		depth, bad := 1, false
		for i := 0; i < n; i++ {
			cc, dd, bb := randTree(d - 1)
			code = append(code, cc...)
			if dd+1 > depth {
				depth = dd + 1
			}
			bad = bad || bb
		}
		return code, depth, bad
	}
	for i := 0; i < g.Pick(3000, 30000); i++ {
		fn := 1 + g.Rng.Intn(10)
		s := rnd(12, -2, 3)
		k := g.Rng.Intn(8)
		w := w3(fn)
		nt := len(s) >= 2 && c11Special(s)
		switch fn {
		case 1, 9, 10:
			w.Ints(s)
		case 2:
			w.Int(k).Ints(s)
		case 3:
			code, depth, bad := randTree(3)
			if code[0] != 2 {
				code = append([]int64{2, 1}, code...)
				depth++
			}
			w.Raw(code)
			nt = depth >= 2 || bad
		case 4, 5:
			ps := [][]int{s}
			for j := 1 + g.Rng.Intn(4); j > 1; j-- {
				ps = append(ps, rnd(8, -2, 3))
			}
			if fn == 5 {
				w.Int(k)
			}
			w.Intss(ps)
			nt = len(s) >= 2 && c11Special(ps...)
		case 6, 8:
			s2 := rnd(6, -2, 3)
			w.Ints(s).Ints(s2)
			nt = len(s) >= 2 && c11Special(s, s2)
		case 7:
			s2 := rnd(6, -2, 3)
			w.Int(k).Ints(s).Ints(s2)
			nt = len(s) >= 2 && c11Special(s, s2)
		}
		emit("nan-random", nt, w)
	}
}
