package main

import (
	"fmt"
	"math/rand"
	"sort"
	"strconv"

	"github.com/esimov/gogu"
)

// C12 wire input: fn :: args   (mirror of coq/theories/C12_Wire.v)
//
//	1 Chunk zs n            2 Partition p pa zs       3 Filter p pa zs
//	4 Reject p pa zs        5 DropWhile p pa zs       6 DropRightWhile p pa zs
//	7 GroupBy k zs          8 Zip zss                 9 Unzip zss
//	10 Flatten tree        11 Merge zs zss           12 Drop zs n
//	13 Reverse zs          14 ReverseStr runes       15 Shuffle seed zs stream
//	16 Map k zs            17 ForEach zs             18 ForEachRight zs
//	19 Reduce op init zs   20 Unzip(Zip(zss)...)     21 Zip(Unzip(zss)...)
//	22 Chunk zs hi lo      23 Drop zs hi lo          (the int argument is hi*2^32+lo: the
//	                                                 model runner reads 63-bit words only)
//
// predicates (p, pa): 0 true, 1 false, 2 even, 3 (< pa), 4 (== pa)
// key functions k: c11Key.  Reduce ops: 0 acc+v, 1 2*acc+v, 2 v-acc
// Shuffle: math/rand is seeded with `seed`; `stream` is the list of (hi, lo)
// halves of the values rand.Int() returns after that seeding (the harness
// checks that the recorded stream is the one the run consumes).
// callbacks append their arguments to a log, which is part of the observation.

func c12Pred(c, a int) func(int) bool {
	switch c {
	case 0:
		return func(int) bool { return true }
	case 1:
		return func(int) bool { return false }
	case 2:
		return func(x int) bool { return x%2 == 0 }
	case 3:
		return func(x int) bool { return x < a }
	default:
		return func(x int) bool { return x == a }
	}
}

func c12Op(c int) func(v, acc int) int {
	switch c {
	case 0:
		return func(v, acc int) int { return acc + v }
	case 1:
		return func(v, acc int) int { return 2*acc + v }
	default:
		return func(v, acc int) int { return v - acc }
	}
}

// c12Stream returns the first n values of rand.Int() after rand.Seed(seed), as (hi, lo) halves.
func c12Stream(seed int64, n int) []int {
	rand.Seed(seed)
	out := make([]int, 0, 2*n)
	for i := 0; i < n; i++ {
		v := rand.Int()
		out = append(out, v>>32, v&0xffffffff)
	}
	return out
}

// an int as two wire words: n = hi*2^32 + lo, -2^31 <= hi < 2^31, 0 <= lo < 2^32
func c12Split(n int) (hi, lo int) { return n >> 32, n & 0xffffffff }
func c12Wide(hi, lo int) int      { return hi<<32 + lo }

func okInts(xs []int) []int64     { return (&W{}).Int(0).Ints(xs).Out() }
func okIntss(xss [][]int) []int64 { return (&W{}).Int(0).Intss(xss).Out() }
func twoInts(a, b []int) []int64  { return (&W{}).Ints(a).Ints(b).Out() }
func plainInts(xs []int) []int64  { return (&W{}).Ints(xs).Out() }

func execC12(in []int64) []int64 {
	r := &R{w: in}
	fn := r.Int()
	var res []int64
	if try(func() {
		if fn > 100 { // stream `nan`: the helpers at []float64 with NaN and both zeros (c12nan.go)
			res = execC12NaN(fn, r)
			return
		}
		switch fn {
		case 1:
			s, n := r.Ints(), r.Int()
			res = okIntss(gogu.Chunk(s, n))
		case 2:
			c, a, s := r.Int(), r.Int(), r.Ints()
			p := gogu.Partition(s, c12Pred(c, a))
			res = twoInts(p[0], p[1])
		case 3:
			c, a, s := r.Int(), r.Int(), r.Ints()
			res = plainInts(gogu.Filter(s, c12Pred(c, a)))
		case 4:
			c, a, s := r.Int(), r.Int(), r.Ints()
			res = okInts(gogu.Reject(cloneInts(s), c12Pred(c, a)))
		case 5:
			c, a, s := r.Int(), r.Int(), r.Ints()
			res = plainInts(gogu.DropWhile(s, c12Pred(c, a)))
		case 6:
			c, a, s := r.Int(), r.Int(), r.Ints()
			res = plainInts(gogu.DropRightWhile(s, c12Pred(c, a)))
		case 7:
			k, s := r.Int(), r.Ints()
			m := gogu.GroupBy(s, c11Key(k))
			keys := make([]int, 0, len(m))
			for key := range m {
				keys = append(keys, key)
			}
			sort.Ints(keys) // map iteration order is not an observable
			w := (&W{}).Int(0).Int(len(keys))
			for _, key := range keys {
				w.Int(key).Ints(m[key])
			}
			res = w.Out()
		case 8:
			res = okIntss(gogu.Zip(r.Intss()...))
		case 9:
			res = okIntss(gogu.Unzip(r.Intss()...))
		case 10:
			t := c11Tree(c11Int, r, 0)
			fl, err := gogu.Flatten[int](t)
			if err != nil {
				res = resErr(1)
			} else {
				res = okInts(fl)
			}
		case 11:
			s, ps := r.Ints(), r.Intss()
			res = plainInts(gogu.Merge(s, ps...))
		case 12:
			s, n := r.Ints(), r.Int()
			res = okInts(gogu.Drop(s, n))
		case 22:
			s, hi, lo := r.Ints(), r.Int(), r.Int()
			res = okIntss(gogu.Chunk(s, c12Wide(hi, lo)))
		case 23:
			s, hi, lo := r.Ints(), r.Int(), r.Int()
			res = okInts(gogu.Drop(s, c12Wide(hi, lo)))
		case 13:
			res = okInts(gogu.Reverse(cloneInts(r.Ints())))
		case 14:
			cps := r.Ints()
			runes := make([]rune, len(cps))
			for i, c := range cps {
				runes[i] = rune(c)
			}
			out := []rune(gogu.ReverseStr(string(runes)))
			o := make([]int, len(out))
			for i, c := range out {
				o[i] = int(c)
			}
			res = okInts(o)
		case 15:
			seed, s, st := r.Int(), r.Ints(), r.Ints()
			want := c12Stream(int64(seed), len(s))
			if len(st) != len(want) {
				res = []int64{-7} // the recorded stream is not the one this seed produces
				return
			}
			for i := range st {
				if st[i] != want[i] {
					res = []int64{-7}
					return
				}
			}
			rand.Seed(int64(seed))
			res = okInts(gogu.Shuffle(s))
		case 16:
			k, s := r.Int(), r.Ints()
			key := c11Key(k)
			var log []int
			out := gogu.Map(s, func(v int) int { log = append(log, v); return key(v) })
			res = twoInts(out, log)
		case 17:
			var log []int
			gogu.ForEach(r.Ints(), func(v int) { log = append(log, v) })
			res = plainInts(log)
		case 18:
			var log []int
			gogu.ForEachRight(r.Ints(), func(v int) { log = append(log, v) })
			res = plainInts(log)
		case 19:
			op, init, s := r.Int(), r.Int(), r.Ints()
			f := c12Op(op)
			var log []int
			out := gogu.Reduce(s, func(v, acc int) int { log = append(log, v, acc); return f(v, acc) }, init)
			w := (&W{}).Int(out).Int(len(log) / 2)
			for _, x := range log {
				w.Int(x)
			}
			res = w.Out()
		case 20:
			res = okIntss(gogu.Unzip(gogu.Zip(r.Intss()...)...))
		case 21:
			res = okIntss(gogu.Zip(gogu.Unzip(r.Intss()...)...))
		default:
			res = []int64{-1}
		}
	}) {
		return resPanic()
	}
	return res
}

var c12Names = map[int]string{1: "Chunk", 2: "Partition", 3: "Filter", 4: "Reject", 5: "DropWhile", 6: "DropRightWhile",
	7: "GroupBy", 8: "Zip", 9: "Unzip", 10: "Flatten", 11: "Merge", 12: "Drop", 13: "Reverse", 14: "ReverseStr",
	15: "Shuffle", 16: "Map", 17: "ForEach", 18: "ForEachRight", 19: "Reduce", 20: "Unzip(Zip)", 21: "Zip(Unzip)",
	22: "Chunk", 23: "Drop"}

func c12PredName(c, a int) string {
	switch c {
	case 0:
		return "true"
	case 1:
		return "false"
	case 2:
		return "even"
	case 3:
		return "<" + strconv.Itoa(a)
	}
	return "==" + strconv.Itoa(a)
}

func c12Short(s []int) string {
	if len(s) <= 12 {
		return fmt.Sprint(s)
	}
	return fmt.Sprintf("[%d %d %d ... %d elements]", s[0], s[1], s[2], len(s))
}

func describeC12(in []int64) string {
	if len(in) == 0 {
		return ""
	}
	if in[0] > 100 {
		return describeC12NaN(in)
	}
	r := &R{w: in}
	fn := r.Int()
	name := c12Names[fn]
	kn := func(k int) string {
		if k >= 0 && k < len(c11KeyNames) {
			return c11KeyNames[k]
		}
		return "abs"
	}
	switch fn {
	case 1, 12:
		s, n := r.Ints(), r.Int()
		return fmt.Sprintf("%s(%v, %d)", name, s, n)
	case 22, 23:
		s, hi, lo := r.Ints(), r.Int(), r.Int()
		return fmt.Sprintf("%s(%s, %d)", name, c12Short(s), c12Wide(hi, lo))
	case 2, 3, 4, 5, 6:
		c, a, s := r.Int(), r.Int(), r.Ints()
		return fmt.Sprintf("%s(%v, %s)", name, s, c12PredName(c, a))
	case 7, 16:
		k, s := r.Int(), r.Ints()
		return fmt.Sprintf("%s(%v, %s)", name, s, kn(k))
	case 8, 9, 20, 21:
		return fmt.Sprintf("%s(%v...)", name, r.Intss())
	case 10:
		return fmt.Sprintf("%s[int](%s)", name, c11TreeText(r, 0))
	case 11:
		s, ps := r.Ints(), r.Intss()
		return fmt.Sprintf("%s(%v, %v...)", name, s, ps)
	case 13, 17, 18:
		return fmt.Sprintf("%s(%v)", name, r.Ints())
	case 14:
		cps := r.Ints()
		runes := make([]rune, len(cps))
		for i, c := range cps {
			runes[i] = rune(c)
		}
		return fmt.Sprintf("%s(%q)", name, string(runes))
	case 15:
		seed, s := r.Int(), r.Ints()
		return fmt.Sprintf("%s(%v) with rand.Seed(%d)", name, s, seed)
	case 19:
		op, init, s := r.Int(), r.Int(), r.Ints()
		return fmt.Sprintf("%s(%v, %s, %d)", name, s, []string{"acc+v", "2*acc+v", "v-acc"}[op%3], init)
	}
	return fmt.Sprint(in)
}

func genC12(g *Gen) {
	emit := func(stream string, nt bool, w *W) {
		if fn := int(w.w[0]); fn > 100 {
			g.Count(c12Names[fn-100] + "[float64]")
		} else {
			g.Count(c12Names[fn])
		}
		g.Case(stream, nt, w.Out())
	}
	preds := [][2]int{{0, 0}, {1, 0}, {2, 0}, {3, 1}, {3, 2}, {4, 0}, {4, 1}, {4, 2}}
	shuffleSeen := map[string]bool{}
	shuffle := func(stream string, seed int, s []int) {
		w := (&W{}).Int(15).Int(seed).Ints(s).Ints(c12Stream(int64(seed), len(s)))
		if len(s) <= 4 {
			shuffleSeen[fmt.Sprint(len(s), execC12(w.Out()))] = true
		}
		emit(stream, len(s) >= 2, w)
	}

	// --- exhaustive: every slice over {0,1,2} up to length 5 (thorough 7)
	slicesOver([]int{0, 1, 2}, g.Pick(5, 7), func(s []int) {
		n := len(s)
		nt := n >= 2
		g.Count("len=" + strconv.Itoa(n))
		for size := 1; size <= 8; size++ {
			if n > 0 && n%size == 0 {
				g.Count("chunk: len%size==0")
			}
			emit("exhaustive", nt, (&W{}).Int(1).Ints(s).Int(size))
		}
		for d := -9; d <= 9; d++ {
			if d != 0 && (d == n || d == -n) {
				g.Count("drop: |n|==len")
			}
			emit("exhaustive", nt && d != 0, (&W{}).Int(12).Ints(s).Int(d))
		}
		for _, p := range preds {
			for fn := 2; fn <= 6; fn++ {
				emit("exhaustive", nt, (&W{}).Int(fn).Int(p[0]).Int(p[1]).Ints(s))
			}
		}
		for k := 0; k <= 3; k++ {
			emit("exhaustive", nt, (&W{}).Int(7).Int(k).Ints(s))
			emit("exhaustive", nt, (&W{}).Int(16).Int(k).Ints(s))
		}
		for _, fn := range []int{13, 17, 18} {
			emit("exhaustive", nt, (&W{}).Int(fn).Ints(s))
		}
		for op := 0; op <= 2; op++ {
			for init := 0; init <= 1; init++ {
				emit("exhaustive", nt, (&W{}).Int(19).Int(op).Int(init).Ints(s))
			}
		}
	})
	// Merge: first slice up to length 3, then every tuple of up to 3 slices of length <= 2, over {0,1}
	var small [][]int
	slicesOver([]int{0, 1}, 2, func(s []int) { small = append(small, cloneInts(s)) })
	slicesOver([]int{0, 1}, 3, func(s []int) {
		seqsUpTo(len(small), 3, func(seq []int) {
			ps := make([][]int, len(seq))
			tot := len(s)
			for i, v := range seq {
				ps[i] = small[v]
				tot += len(small[v])
			}
			emit("exhaustive", tot >= 2 && len(ps) >= 1, (&W{}).Int(11).Ints(s).Intss(ps))
		})
	})
	// matrices: every shape with <= 3 rows of length <= 3 (thorough 4/4) over {0,1}; square ones over {0,1} in full
	maxDim := g.Pick(3, 4)
	for rows := 0; rows <= maxDim; rows++ {
		// shapes
		seqsExact(maxDim+1, rows, func(lens []int) {
			sq := true
			for _, l := range lens {
				sq = sq && l == rows
			}
			if sq {
				return // enumerated with contents below
			}
			m := make([][]int, rows)
			for i, l := range lens {
				m[i] = make([]int, l)
				for j := range m[i] {
					m[i][j] = (i + j) % 2
				}
			}
			g.Count("matrix not square")
			for _, fn := range []int{8, 9, 20, 21} {
				emit("exhaustive", true, (&W{}).Int(fn).Intss(m))
			}
		})
		seqsExact(2, rows*rows, func(cells []int) {
			m := make([][]int, rows)
			for i := range m {
				m[i] = cloneInts(cells[i*rows : (i+1)*rows])
			}
			g.Count(fmt.Sprintf("matrix %dx%d", rows, rows))
			for _, fn := range []int{8, 9, 20, 21} {
				emit("exhaustive", rows >= 2, (&W{}).Int(fn).Intss(m))
			}
		})
	}
	// Flatten: the nestings of C11's Union
	full := c11Leafs([][]int64{{0, 0}, {0, 1}, {1, 2, 1, 0}, {1, 0}, {3}})
	for _, t := range c11Trees(full, 2, 2) {
		g.Count("flatten depth=" + strconv.Itoa(t.depth))
		emit("exhaustive", t.depth >= 2 || t.bad, (&W{}).Int(10).Raw(t.code))
	}
	thin := c11Leafs([][]int64{{0, 0}, {1, 2, 1, 0}, {3}})
	for _, t := range c11Trees(thin, 3, 2) {
		if t.depth == 3 {
			g.Count("flatten depth=3")
			emit("exhaustive", true, (&W{}).Int(10).Raw(t.code))
		}
	}
	// ReverseStr: every rune string up to length 4 (thorough 5) over {a, é, €, 😀} (1- to 4-byte encodings)
	slicesOver([]int{0x61, 0xE9, 0x20AC, 0x1F600}, g.Pick(4, 5), func(s []int) {
		emit("exhaustive", len(s) >= 2, (&W{}).Int(14).Ints(s))
	})
	// Shuffle: [0..n-1] and slices with a repeated value, n <= 5, seeds 1..120 (thorough 1..600)
	for n := 0; n <= 5; n++ {
		id := make([]int, n)
		dup := make([]int, n)
		for i := range id {
			id[i] = i
			dup[i] = i / 2
		}
		for seed := 1; seed <= g.Pick(120, 600); seed++ {
			shuffle("exhaustive", seed, id)
			if n >= 2 && seed%4 == 0 {
				shuffle("exhaustive", seed, dup)
			}
		}
	}
	for n := 0; n <= 4; n++ {
		cnt := 0
		for k := range shuffleSeen {
			if k[0] == byte('0'+n) {
				cnt++
			}
		}
		for i := 0; i < cnt; i++ {
			g.Count(fmt.Sprintf("shuffle: distinct outcomes seen for len %d", n))
		}
	}
	g.Exhaustive("exhaustive")

	// --- malformed: non-positive chunk sizes, ragged matrices, nil / wrong-typed nodes
	for _, s := range [][]int{{}, {1}, {1, 2, 3}} {
		for _, size := range []int{0, -1, -3} {
			emit("malformed", true, (&W{}).Int(1).Ints(s).Int(size))
		}
	}
	for _, m := range [][][]int{{{}}, {{1, 2}}, {{1}, {2}}, {{1, 2}, {3}}, {{1, 2}, {3, 4, 5}}, {{1, 2, 3}, {4, 5, 6}}, {{}, {}}} {
		for _, fn := range []int{8, 9, 20, 21} {
			emit("malformed", true, (&W{}).Int(fn).Intss(m))
		}
	}
	for _, code := range [][]int64{{3}, {4}, {5}, {2, 1, 4}, {2, 2, 0, 1, 5}, {2, 2, 1, 1, 1, 3}, {2, 1, 2, 1, 2, 1, 4}, {2, 0}, {2, 1, 2, 0}} {
		emit("malformed", true, (&W{}).Int(10).Raw(code))
	}

	c12Large(g, emit, shuffle)
	c12Extreme(g, emit)

	// --- seeded random larger inputs
	var randTree func(d int) []int64
	randTree = func(d int) []int64 {
		c := g.Rng.Intn(20)
		switch {
		case c < 6 || (d == 0 && c < 12):
			return []int64{0, int64(g.Rng.Intn(9) - 2)}
		case c < 12 || d == 0 && c < 19:
			return (&W{}).Int(1).Ints(randSlice(g.Rng, 4, -2, 6)).Out()
		case c == 19:
			return []int64{int64(3 + g.Rng.Intn(3))}
		}
		n := g.Rng.Intn(4)
		code := []int64{2, int64(n)}
		for i := 0; i < n; i++ {
			code = append(code, randTree(d-1)...)
		}
		return code
	}
	fns := []int{1, 2, 3, 4, 5, 6, 7, 8, 9, 10, 11, 12, 13, 14, 15, 16, 17, 18, 19, 20, 21}
	nr := g.Pick(6000, 80000)
	for i := 0; i < nr; i++ {
		fn := fns[g.Rng.Intn(len(fns))]
		s := randSlice(g.Rng, 40, -50, 50)
		if g.Rng.Intn(3) == 0 {
			s = randSlice(g.Rng, 12, 0, 3)
		}
		n := len(s)
		w := (&W{}).Int(fn)
		nt := n >= 2
		switch fn {
		case 1:
			w.Ints(s).Int(1 + g.Rng.Intn(n+3))
		case 12:
			d := g.Rng.Intn(2*n+7) - n - 3
			w.Ints(s).Int(d)
			nt = nt && d != 0
		case 2, 3, 4, 5, 6:
			c := g.Rng.Intn(5)
			a := g.Rng.Intn(41) - 20
			if c == 4 && n > 0 {
				a = s[g.Rng.Intn(n)]
			}
			w.Int(c).Int(a).Ints(s)
		case 7, 16:
			w.Int(g.Rng.Intn(5)).Ints(s)
		case 8, 9, 20, 21:
			d := g.Rng.Intn(7)
			m := make([][]int, d)
			ragged := g.Rng.Intn(6) == 0
			for r := range m {
				l := d
				if ragged && g.Rng.Intn(2) == 0 {
					l = g.Rng.Intn(8)
				}
				m[r] = make([]int, l)
				for c := range m[r] {
					m[r][c] = g.Rng.Intn(100)
				}
			}
			w.Intss(m)
			nt = d >= 2
		case 10:
			code := randTree(4)
			if code[0] != 2 && g.Rng.Intn(4) != 0 {
				code = append([]int64{2, 1}, code...)
			}
			w.Raw(code)
			nt = len(code) > 4
		case 11:
			k := g.Rng.Intn(5)
			ps := make([][]int, k)
			for j := range ps {
				ps[j] = randSlice(g.Rng, 6, -9, 9)
			}
			w.Ints(s).Intss(ps)
			nt = k >= 1
		case 13, 17, 18:
			w.Ints(s)
		case 14:
			l := g.Rng.Intn(20)
			cps := make([]int, l)
			for j := range cps {
				switch g.Rng.Intn(5) {
				case 0:
					cps[j] = g.Rng.Intn(0x80)
				case 1:
					cps[j] = 0x80 + g.Rng.Intn(0x800-0x80)
				case 2:
					cps[j] = 0x800 + g.Rng.Intn(0xD800-0x800)
				case 3:
					cps[j] = 0xE000 + g.Rng.Intn(0x10000-0xE000)
				default:
					cps[j] = 0x10000 + g.Rng.Intn(0x110000-0x10000)
				}
				if cps[j] == 0xFFFD {
					cps[j] = 0x41
				}
			}
			w.Ints(cps)
			nt = l >= 2
		case 15:
			if n > 24 {
				s = s[:24]
			}
			seed := 1 + g.Rng.Intn(1<<30)
			w.Int(seed).Ints(s).Ints(c12Stream(int64(seed), len(s)))
			nt = len(s) >= 2
		case 19:
			if n > 24 {
				s = s[:24]
			}
			w.Int(g.Rng.Intn(3)).Int(g.Rng.Intn(7) - 3).Ints(s)
		}
		emit("random", nt, w)
	}

	// --- nan / nan-large / nan-random: every helper at []float64 with NaN, +0, -0 (c12nan.go)
	genC12NaN(g, emit)
}

// c12Large: many arguments, long slices, many distinct keys, deep and wide nestings (both tiers).
func c12Large(g *Gen, emit func(string, bool, *W), shuffle func(string, int, []int)) {
	const st = "large"
	for _, n := range []int{100, 130, 257, 500, 1023, 2000} {
		s := make([]int, n)    // few distinct values
		d := g.Rng.Perm(n)     // n distinct values (many keys for GroupBy)
		for i := range s {
			s[i] = g.Rng.Intn(7) - 2
		}
		g.Count(fmt.Sprintf("large: slice of %d", n))
		for _, size := range []int{1, 2, 7, 64, n - 1, n, n + 1} {
			emit(st, true, (&W{}).Int(1).Ints(s).Int(size))
		}
		for _, k := range []int{1, -1, n - 1, -(n - 1), n, -n, n + 1, -(n + 1)} {
			emit(st, true, (&W{}).Int(12).Ints(d).Int(k))
		}
		for _, p := range [][2]int{{2, 0}, {3, 1}, {4, 0}, {0, 0}, {1, 0}} {
			for fn := 2; fn <= 6; fn++ {
				emit(st, true, (&W{}).Int(fn).Int(p[0]).Int(p[1]).Ints(s))
			}
		}
		emit(st, true, (&W{}).Int(4).Int(3).Int(n/2).Ints(d))
		emit(st, true, (&W{}).Int(6).Int(3).Int(n/2).Ints(d))
		for k := 0; k <= 3; k++ {
			g.Count("large: GroupBy")
			emit(st, true, (&W{}).Int(7).Int(k).Ints(d)) // k=0: n groups of one; k=3: n/2 groups of two, interleaved
			emit(st, true, (&W{}).Int(7).Int(k).Ints(s))
			emit(st, true, (&W{}).Int(16).Int(k).Ints(d))
		}
		for _, fn := range []int{13, 17, 18} {
			emit(st, true, (&W{}).Int(fn).Ints(d))
		}
		for _, op := range []int{0, 2} { // 2*acc+v would leave the int range
			emit(st, true, (&W{}).Int(19).Int(op).Int(1).Ints(s))
		}
		runes := make([]int, n)
		for i := range runes {
			runes[i] = []int{0x61, 0xE9, 0x20AC, 0x1F600, 0x7A}[g.Rng.Intn(5)]
		}
		emit(st, true, (&W{}).Int(14).Ints(runes))
		shuffle(st, 7+n, d)
	}
	for _, k := range []int{5, 33, 64, 65, 70, 130, 257, 300} {
		g.Count(fmt.Sprintf("large: %d arguments", k))
		ps := make([][]int, k)
		for i := range ps {
			switch i % 3 {
			case 0:
				ps[i] = []int{i, i + 1}
			case 1:
				ps[i] = []int{}
			default:
				ps[i] = []int{i}
			}
		}
		emit(st, true, (&W{}).Int(11).Ints([]int{-1}).Intss(ps))
		emit(st, true, (&W{}).Int(11).Ints(nil).Intss(ps))
		if k > 130 {
			continue // matrices up to 130 x 130
		}
		sq := make([][]int, k)
		for i := range sq {
			sq[i] = make([]int, k)
			for j := range sq[i] {
				sq[i][j] = (i*k + j) % 97
			}
		}
		short := make([][]int, k) // the last row one element short
		long := make([][]int, k)  // k rows of k+1
		for i := range sq {
			short[i] = sq[i]
			long[i] = append(cloneInts(sq[i]), 7)
		}
		short[k-1] = sq[k-1][:k-1]
		for _, fn := range []int{8, 9, 20, 21} {
			emit(st, true, (&W{}).Int(fn).Intss(sq))
			emit(st, true, (&W{}).Int(fn).Intss(short))
			emit(st, true, (&W{}).Int(fn).Intss(long))
			emit(st, true, (&W{}).Int(fn).Intss(sq[:k-1])) // k-1 rows of k
		}
	}
	// Flatten: a chain of []any of the given depth around a leaf, and a []any with many children
	for _, depth := range []int{40, 200, 1000} {
		for _, leaf := range [][]int64{{0, 5}, {1, 3, 1, 2, 3}, {3}, {2, 0}} {
			var code []int64
			for i := 0; i < depth; i++ {
				code = append(code, 2, 1)
			}
			g.Count("large: nesting depth")
			emit(st, true, (&W{}).Int(10).Raw(append(code, leaf...)))
		}
	}
	for _, width := range []int{300, 2000} {
		for _, last := range [][]int64{{0, 9}, {3}, {2, 1, 2, 1, 4}} {
			code := []int64{2, int64(width)}
			for i := 0; i < width-1; i++ {
				if i%5 == 4 {
					code = append(code, 2, 2, 0, int64(i), 1, 1, int64(-i))
				} else {
					code = append(code, 0, int64(i%11))
				}
			}
			g.Count("large: nesting width")
			emit(st, true, (&W{}).Int(10).Raw(append(code, last...)))
		}
	}
}

// c12Extreme: the int arguments (Chunk's size, Drop's count) at the ends of the int range and around
// the 32-bit boundaries, sent as (hi, lo) halves (fn 22/23); a few ordinary values tie 22/23 to 1/12.
func c12Extreme(g *Gen, emit func(string, bool, *W)) {
	const st = "extreme"
	const maxInt, minInt = int(^uint(0) >> 1), -int(^uint(0)>>1) - 1
	long := make([]int, 100)
	for i := range long {
		long[i] = i % 9
	}
	slices := [][]int{{}, {1}, {1, 2}, {1, 2, 3}, {1, 2, 3, 4}, {5, 6, 7, 8, 9, 10, 11}, long}
	for _, s := range slices {
		n := len(s)
		vals := []int{maxInt, maxInt - 1, minInt, minInt + 1, 1 << 31, 1<<31 - 1, -(1 << 31), -(1 << 31) - 1,
			1<<32 - 1, 1 << 32, 1<<32 + 1, -(1 << 32), -(1<<32 + 1), 1 << 62, -(1 << 62), 1<<63 - 1 - n, -1, 0, 1, 2, 3,
			n - 1, n, n + 1, -n, -n - 1, maxInt / 2, maxInt/2 + 1, minInt / 2}
		for k := 0; k <= n+2; k++ { // within len of the ends of the range
			vals = append(vals, maxInt-k, minInt+k)
		}
		for _, v := range vals {
			hi, lo := c12Split(v)
			if v <= -(1<<31) || v >= 1<<31 {
				g.Count("extreme: |int argument| >= 2^31")
			}
			emit(st, true, (&W{}).Int(22).Ints(s).Int(hi).Int(lo))
			emit(st, true, (&W{}).Int(23).Ints(s).Int(hi).Int(lo))
		}
	}
}

func init() {
	register(&Prop{ID: "C12", Exec: execC12, Gen: genC12, Describe: describeC12,
		Rule: "exhaustive: every slice over {0,1,2} up to length 5 (thorough 7) x chunk sizes 1..8 / drop counts -9..9 / the predicate family {true,false,even,<1,<2,==0,==1,==2} for Partition,Filter,Reject,DropWhile,DropRightWhile / key functions {id,%2,const,/2} for GroupBy and Map / Reverse, ForEach, ForEachRight / Reduce with {acc+v, 2*acc+v, v-acc} x init {0,1}; Merge of a slice <= 3 with every tuple of <= 3 slices of length <= 2 over {0,1}; every square 0/1 matrix up to 3x3 (thorough 4x4) and every non-square shape with <= 3 (4) rows of length <= 3 (4) for Zip, Unzip, Unzip.Zip, Zip.Unzip; Flatten on the nestings of C11 (depth <= 3, wrong-typed nodes included); ReverseStr on every rune string up to length 4 (5) over {a,é,€,😀}; Shuffle of [0..n-1] and of a slice with repeats, n <= 5, math/rand seeds 1..120 (600); malformed: chunk size <= 0, ragged matrices, nil/wrong-typed nodes; large (both tiers): slices of 100/130/257/500/1023/2000 elements through every helper (n distinct keys for GroupBy), 5/33/64/65/70/130 arguments for Merge/Zip/Unzip (Merge also 257/300) (square, one row short, one column more, one row fewer), nestings of depth 40/200/1000 and width 300/2000 for Flatten; extreme (both tiers): Chunk sizes and Drop counts in {MaxInt-k, MinInt+k (k <= len+2), 2^31, 2^31-1, -2^31, 2^32-1, 2^32, 2^32+1, 2^62, MaxInt/2, -1, 0, ..} on slices of 0..7 and 100 elements; then seeded random inputs up to length 40 over [-50,50], matrices to 6x6, nestings to depth 5, random valid scalar values for ReverseStr. non-trivial = slice/rune string/flattening input with >= 2 elements (Drop: and n != 0; Merge: >= 1 further slice; matrices: dimension >= 2 or not square; Flatten: depth >= 2 or a wrong-typed node); distinct = distinct wire input"})
}
