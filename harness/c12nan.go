package main

import (
	"fmt"
	"math"
	"math/rand"
	"sort"
	"strconv"

	"github.com/esimov/gogu"
)

// C12, stream `nan`: the reshaping helpers instantiated at []float64 with NaN (a value that is not ==
// to itself) and both zeros (+0 == -0 although they are different values) among the elements, the
// predicate arguments and — above all — the KEYS GroupBy files its groups under (mirror of
// c12_run_nan in coq/theories/C12_Wire.v and of fpred_of / fop_of in C12_ModelNaN.v).
//
// Wire: fn = 100 + the code of the helper (table in c12.go; 1..13, 15..21), same argument shapes.
// Every element, predicate argument and Reduce init is the CODE of a float64 (c11nan.go): the
// integer n for float64(n) (0 is +0), c11NegZ for -0, c11NaNc for NaN.  Chunk sizes and Drop counts
// stay ints.  Only small integers are sent, so every float operation of the callbacks is exact.
//
// predicates (p, pa): 0 true, 1 false, 2 math.Mod(x,2)==0, 3 x<pa, 4 x==pa, 5 x!=x, 6 math.Signbit(x)
// key functions: c11FKey (0 id, 1 math.Mod(x,2), 2 const +0, 3 -x, 4 math.Abs, 5 const NaN, 6 x*0,
// 7 a sign test that tells -0 from +0).  Reduce ops: 0 acc+v, 1 2*acc+v, 2 v-acc.
//
// Observation: returned elements as codes — every NaN as c11NaNc, the SIGN OF A ZERO KEPT.  GroupBy
// returns a map that may hold several groups under NaN: it is written as its entries
// key :: group (the range loop's key and value, never a look-up), sorted lexicographically, i.e. the
// NaN groups as a multiset; the key of a group of zeros shows which zero the map kept.

func c12Fs(xs []int) []float64   { return c11Encs(c11NaN, xs) }
func c12Cs(fs []float64) []int   { return c11Decs(c11NaN, fs) }
func c12CloneF(s []float64) []float64 { return append([]float64{}, s...) }

func c12Fss(xss [][]int) [][]float64 {
	out := make([][]float64, len(xss))
	for i, xs := range xss {
		out[i] = c12Fs(xs)
	}
	return out
}

func c12Css(fss [][]float64) [][]int {
	out := make([][]int, len(fss))
	for i, fs := range fss {
		out[i] = c12Cs(fs)
	}
	return out
}

func c12FPred(c int, a float64) func(float64) bool {
	switch c {
	case 0:
		return func(float64) bool { return true }
	case 1:
		return func(float64) bool { return false }
	case 2:
		return func(x float64) bool { return math.Mod(x, 2) == 0 }
	case 3:
		return func(x float64) bool { return x < a }
	case 4:
		return func(x float64) bool { return x == a }
	case 5:
		return func(x float64) bool { return x != x }
	default:
		return math.Signbit
	}
}

func c12FOp(c int) func(v, acc float64) float64 {
	switch c {
	case 0:
		return func(v, acc float64) float64 { return acc + v }
	case 1:
		return func(v, acc float64) float64 { return float64(2*acc) + v }
	default:
		return func(v, acc float64) float64 { return v - acc }
	}
}

func c12LessInts(a, b []int) bool {
	for i := 0; i < len(a) && i < len(b); i++ {
		if a[i] != b[i] {
			return a[i] < b[i]
		}
	}
	return len(a) < len(b)
}

// execC12NaN runs helper fn-100 at float64; called by execC12 inside its recover.
func execC12NaN(fn int, r *R) []int64 {
	switch fn - 100 {
	case 1:
		s, n := c12Fs(r.Ints()), r.Int()
		return okIntss(c12Css(gogu.Chunk(s, n)))
	case 2:
		c, a, s := r.Int(), c11FEnc(r.Int()), c12Fs(r.Ints())
		p := gogu.Partition(s, c12FPred(c, a))
		return twoInts(c12Cs(p[0]), c12Cs(p[1]))
	case 3:
		c, a, s := r.Int(), c11FEnc(r.Int()), c12Fs(r.Ints())
		return plainInts(c12Cs(gogu.Filter(s, c12FPred(c, a))))
	case 4:
		c, a, s := r.Int(), c11FEnc(r.Int()), c12Fs(r.Ints())
		return okInts(c12Cs(gogu.Reject(c12CloneF(s), c12FPred(c, a))))
	case 5:
		c, a, s := r.Int(), c11FEnc(r.Int()), c12Fs(r.Ints())
		return plainInts(c12Cs(gogu.DropWhile(s, c12FPred(c, a))))
	case 6:
		c, a, s := r.Int(), c11FEnc(r.Int()), c12Fs(r.Ints())
		return plainInts(c12Cs(gogu.DropRightWhile(s, c12FPred(c, a))))
	case 7:
		k, s := r.Int(), c12Fs(r.Ints())
		m := gogu.GroupBy(s, c11FKey(k))
		recs := make([][]int, 0, len(m))
		for key, grp := range m { // m[key] would not find a group under NaN
			rec := append([]int{c11FDec(key), len(grp)}, c12Cs(grp)...)
			recs = append(recs, rec)
		}
		sort.Slice(recs, func(i, j int) bool { return c12LessInts(recs[i], recs[j]) }) // map iteration order is not an observable
		w := (&W{}).Int(0).Int(len(recs))
		for _, rec := range recs {
			for _, x := range rec {
				w.Int(x)
			}
		}
		return w.Out()
	case 8:
		return okIntss(c12Css(gogu.Zip(c12Fss(r.Intss())...)))
	case 9:
		return okIntss(c12Css(gogu.Unzip(c12Fss(r.Intss())...)))
	case 10:
		t := c11Tree(c11NaN, r, 0)
		fl, err := gogu.Flatten[float64](t)
		if err != nil {
			return resErr(1)
		}
		return okInts(c12Cs(fl))
	case 11:
		s, ps := c12Fs(r.Ints()), c12Fss(r.Intss())
		return plainInts(c12Cs(gogu.Merge(s, ps...)))
	case 12:
		s, n := c12Fs(r.Ints()), r.Int()
		return okInts(c12Cs(gogu.Drop(s, n)))
	case 13:
		return okInts(c12Cs(gogu.Reverse(c12CloneF(c12Fs(r.Ints())))))
	case 15:
		seed, s, st := r.Int(), r.Ints(), r.Ints()
		want := c12Stream(int64(seed), len(s))
		if len(st) != len(want) {
			return []int64{-7}
		}
		for i := range st {
			if st[i] != want[i] {
				return []int64{-7}
			}
		}
		fs := c12Fs(s)
		rand.Seed(int64(seed))
		return okInts(c12Cs(gogu.Shuffle(fs)))
	case 16:
		k, s := r.Int(), c12Fs(r.Ints())
		key := c11FKey(k)
		var log []float64
		out := gogu.Map(s, func(v float64) float64 { log = append(log, v); return key(v) })
		return twoInts(c12Cs(out), c12Cs(log))
	case 17:
		var log []float64
		gogu.ForEach(c12Fs(r.Ints()), func(v float64) { log = append(log, v) })
		return plainInts(c12Cs(log))
	case 18:
		var log []float64
		gogu.ForEachRight(c12Fs(r.Ints()), func(v float64) { log = append(log, v) })
		return plainInts(c12Cs(log))
	case 19:
		op, init, s := r.Int(), c11FEnc(r.Int()), c12Fs(r.Ints())
		f := c12FOp(op)
		var log []float64
		out := gogu.Reduce(s, func(v, acc float64) float64 { log = append(log, v, acc); return f(v, acc) }, init)
		w := (&W{}).Int(c11FDec(out)).Int(len(log) / 2)
		for _, x := range log {
			w.Int(c11FDec(x))
		}
		return w.Out()
	case 20:
		return okIntss(c12Css(gogu.Unzip(gogu.Zip(c12Fss(r.Intss())...)...)))
	case 21:
		return okIntss(c12Css(gogu.Zip(gogu.Unzip(c12Fss(r.Intss())...)...)))
	}
	return []int64{-1}
}

var c12FPredNames = []string{"true", "false", "Mod(x,2)==0", "x<", "x==", "x!=x", "Signbit"}

func c12FPredName(c, a int) string {
	if c < 0 || c >= len(c12FPredNames) {
		c = len(c12FPredNames) - 1
	}
	if c == 3 || c == 4 {
		return c12FPredNames[c] + c11FText(a)
	}
	return c12FPredNames[c]
}

func c12FShort(s []int) string {
	if len(s) <= 14 {
		return c11FTexts(s)
	}
	return fmt.Sprintf("[%s %s %s ... %d elements]", c11FText(s[0]), c11FText(s[1]), c11FText(s[2]), len(s))
}

func describeC12NaN(in []int64) string {
	r := &R{w: in}
	fn := r.Int()
	name := c12Names[fn-100] + "[float64]"
	kn := func(k int) string {
		if k >= 0 && k < len(c11FKeyNames) {
			return c11FKeyNames[k]
		}
		return c11FKeyNames[len(c11FKeyNames)-1]
	}
	switch fn - 100 {
	case 1, 12:
		s, n := r.Ints(), r.Int()
		return fmt.Sprintf("%s(%s, %d)", name, c12FShort(s), n)
	case 2, 3, 4, 5, 6:
		c, a, s := r.Int(), r.Int(), r.Ints()
		return fmt.Sprintf("%s(%s, %s)", name, c12FShort(s), c12FPredName(c, a))
	case 7, 16:
		k, s := r.Int(), r.Ints()
		return fmt.Sprintf("%s(%s, %s)", name, c12FShort(s), kn(k))
	case 8, 9, 20, 21:
		return fmt.Sprintf("%s(%s)", name, c11FTextss(r.Intss()))
	case 10:
		return fmt.Sprintf("%s(%s)", name, c11FTreeText(r, 0))
	case 11:
		s, ps := r.Ints(), r.Intss()
		return fmt.Sprintf("%s(%s; %s)", name, c12FShort(s), c11FTextss(ps))
	case 13, 17, 18:
		return fmt.Sprintf("%s(%s)", name, c12FShort(r.Ints()))
	case 15:
		seed, s := r.Int(), r.Ints()
		return fmt.Sprintf("%s(%s) with rand.Seed(%d)", name, c12FShort(s), seed)
	case 19:
		op, init, s := r.Int(), r.Int(), r.Ints()
		return fmt.Sprintf("%s(%s, %s, %s)", name, c12FShort(s), []string{"acc+v", "2*acc+v", "v-acc"}[((op%3)+3)%3], c11FText(init))
	}
	return fmt.Sprint(in)
}

const c12NaNRule = " nan (T=float64 with NaN, +0, -0; float codes on the wire, the sign of a zero and every NaN are observed; GroupBy's map as its entries key::group from the range loop, sorted, so several groups under NaN are a multiset): exhaustive — every slice over {NaN,+0,-0,1,2} up to length 4 (thorough: over {NaN,+0,-0,1,2,3} up to length 5) x (GroupBy and Map x the 8 float key functions incl. const NaN, Mod(x,2), -x, x*0 and a sign test telling -0 from +0; Chunk sizes 1..5; Drop counts -5..5; Partition/Filter/Reject/DropWhile/DropRightWhile x {true,false,Mod(x,2)==0,x<1,x<NaN,x==0,x==NaN,x!=x,Signbit}; Reverse, ForEach, ForEachRight; Reduce {acc+v,2*acc+v,v-acc} x init {+0,-0}); GroupBy x 8 key functions also on every slice of length 5 (thorough 6) over {NaN,+0,-0,1,2}; every square matrix over {NaN,-0,1} up to 2x2 and over {NaN,-0} at 3x3, some non-square shapes, for Zip/Unzip and both round trips; Merge of a slice <= 2 with every tuple of <= 2 slices of length <= 2 over {NaN,-0}; Flatten[float64] on every nesting of depth <= 2 over {NaN,+0,-0,[]float64{-0,NaN,+0},wrong type}; Shuffle of slices with repeated NaN and both zeros, n <= 5, seeds 1..40; nan-large: slices of 150/300/600 elements, a third NaN or zeros, through every helper and key function; nan-random: seeded random slices up to length 14 over {NaN,+0,-0,-3..4} through every helper; non-trivial there = >= 2 elements and a NaN or a -0 among the elements, the predicate argument or the keys."

func genC12NaN(g *Gen, emit func(string, bool, *W)) {
	const N, Z = c11NaNc, c11NegZ
	const st = "nan"
	alpha := []int{N, 0, Z, 1, 2}
	if !g.Quick() {
		alpha = []int{N, 0, Z, 1, 2, 3}
	}
	preds := [][2]int{{0, 0}, {1, 0}, {2, 0}, {3, 1}, {3, N}, {4, 0}, {4, N}, {5, 0}, {6, 0}}
	special := func(s []int, extra ...int) bool { return c11Special(s, extra) }
	shuffle := func(stream string, seed int, s []int) {
		emit(stream, len(s) >= 2, (&W{}).Int(115).Int(seed).Ints(s).Ints(c12Stream(int64(seed), len(s))))
	}

	slicesOver(alpha, g.Pick(4, 5), func(s []int) {
		n := len(s)
		nt := n >= 2 && special(s)
		g.Count("nan: len=" + strconv.Itoa(n))
		for k := 0; k <= 7; k++ {
			g.Count("nan: GroupBy")
			emit(st, n >= 2 && (special(s) || k == 5), (&W{}).Int(107).Int(k).Ints(s))
			emit(st, nt, (&W{}).Int(116).Int(k).Ints(s))
		}
		for size := 1; size <= 5; size++ {
			emit(st, nt, (&W{}).Int(101).Ints(s).Int(size))
		}
		for d := -5; d <= 5; d++ {
			emit(st, nt && d != 0, (&W{}).Int(112).Ints(s).Int(d))
		}
		for _, p := range preds {
			for fn := 102; fn <= 106; fn++ {
				emit(st, n >= 2 && special(s, p[1]), (&W{}).Int(fn).Int(p[0]).Int(p[1]).Ints(s))
			}
		}
		for _, fn := range []int{113, 117, 118} {
			emit(st, nt, (&W{}).Int(fn).Ints(s))
		}
		for op := 0; op <= 2; op++ {
			for _, init := range []int{0, Z} {
				emit(st, n >= 2 && special(s, init), (&W{}).Int(119).Int(op).Int(init).Ints(s))
			}
		}
	})
	// GroupBy one element longer (the staged mutant needs two NaN keys, or a NaN key next to other groups)
	gbLen := g.Pick(5, 6)
	seqsExact(5, gbLen, func(seq []int) {
		s := make([]int, gbLen)
		for i, v := range seq {
			s[i] = []int{N, 0, Z, 1, 2}[v]
		}
		for k := 0; k <= 7; k++ {
			g.Count("nan: GroupBy")
			emit(st, special(s) || k == 5, (&W{}).Int(107).Int(k).Ints(s))
		}
	})
	// matrices
	matrix := func(alpha []int, rows int) {
		seqsExact(len(alpha), rows*rows, func(cells []int) {
			m := make([][]int, rows)
			for i := range m {
				m[i] = make([]int, rows)
				for j := range m[i] {
					m[i][j] = alpha[cells[i*rows+j]]
				}
			}
			g.Count(fmt.Sprintf("nan: matrix %dx%d", rows, rows))
			for _, fn := range []int{108, 109, 120, 121} {
				emit(st, rows >= 2, (&W{}).Int(fn).Intss(m))
			}
		})
	}
	matrix([]int{N, Z, 1}, 0)
	matrix([]int{N, Z, 1}, 1)
	matrix([]int{N, Z, 1}, 2)
	matrix([]int{N, Z}, 3)
	for _, m := range [][][]int{{{}}, {{N, Z}}, {{N}, {Z}}, {{N, Z}, {N}}, {{N, Z}, {Z, N, N}}, {{N, Z, 0}, {0, N, Z}}, {{}, {}}} {
		for _, fn := range []int{108, 109, 120, 121} {
			emit(st, true, (&W{}).Int(fn).Intss(m))
		}
	}
	// Merge
	var small [][]int
	slicesOver([]int{N, Z}, 2, func(s []int) { small = append(small, cloneInts(s)) })
	slicesOver([]int{N, Z, 0}, 2, func(s []int) {
		seqsUpTo(len(small), 2, func(seq []int) {
			ps := make([][]int, len(seq))
			tot := len(s)
			for i, v := range seq {
				ps[i] = small[v]
				tot += len(small[v])
			}
			emit(st, tot >= 2 && len(ps) >= 1, (&W{}).Int(111).Ints(s).Intss(ps))
		})
	})
	// Flatten[float64]
	leafs := c11Leafs([][]int64{{0, N}, {0, 0}, {0, Z}, {1, 3, Z, N, 0}, {3}})
	for _, t := range c11Trees(leafs, 2, 2) {
		g.Count("nan: flatten depth=" + strconv.Itoa(t.depth))
		emit(st, t.depth >= 2 || t.bad, (&W{}).Int(110).Raw(t.code))
	}
	for _, code := range [][]int64{{3}, {4}, {5}, {2, 2, 0, N, 5}, {2, 2, 1, 2, Z, N, 2, 1, 3}} {
		emit(st, true, (&W{}).Int(110).Raw(code))
	}
	// Shuffle
	for _, s := range [][]int{{}, {N}, {N, N}, {N, Z, 0}, {0, Z, N, 1}, {N, Z, 0, N, Z}} {
		for seed := 1; seed <= g.Pick(40, 200); seed++ {
			shuffle(st, seed, s)
		}
	}
	g.Exhaustive(st)

	// --- longer slices: many NaNs, both zeros, few ordinary values
	elem := func(lo, hi int) int {
		switch c := g.Rng.Intn(9); {
		case c < 2:
			return N
		case c == 2:
			return Z
		case c == 3:
			return 0
		}
		return lo + g.Rng.Intn(hi-lo+1)
	}
	rnd := func(maxLen, lo, hi int) []int {
		s := make([]int, g.Rng.Intn(maxLen+1))
		for i := range s {
			s[i] = elem(lo, hi)
		}
		return s
	}
	for _, n := range []int{150, 300, 600} {
		s := make([]int, n)
		for i := range s {
			s[i] = elem(-20, 20)
		}
		g.Count("nan-large: slice")
		for k := 0; k <= 7; k++ {
			emit("nan-large", true, (&W{}).Int(107).Int(k).Ints(s))
			emit("nan-large", true, (&W{}).Int(116).Int(k).Ints(s))
		}
		for _, size := range []int{1, 7, n - 1, n, n + 1} {
			emit("nan-large", true, (&W{}).Int(101).Ints(s).Int(size))
		}
		for _, d := range []int{1, -1, n / 2, -n / 2, n, -n} {
			emit("nan-large", true, (&W{}).Int(112).Ints(s).Int(d))
		}
		for _, p := range preds {
			for fn := 102; fn <= 106; fn++ {
				emit("nan-large", true, (&W{}).Int(fn).Int(p[0]).Int(p[1]).Ints(s))
			}
		}
		for _, fn := range []int{113, 117, 118} {
			emit("nan-large", true, (&W{}).Int(fn).Ints(s))
		}
		emit("nan-large", true, (&W{}).Int(119).Int(0).Int(Z).Ints(s))
		emit("nan-large", true, (&W{}).Int(119).Int(2).Int(0).Ints(s))
		emit("nan-large", true, (&W{}).Int(111).Ints(s).Intss([][]int{s[:n/3], {}, s[n/2:]}))
		shuffle("nan-large", 11+n, s)
	}

	// --- seeded random
	fns := []int{101, 102, 103, 104, 105, 106, 107, 107, 107, 108, 109, 111, 112, 113, 115, 116, 117, 118, 119, 120, 121}
	for i := 0; i < g.Pick(2500, 30000); i++ {
		fn := fns[g.Rng.Intn(len(fns))]
		s := rnd(14, -3, 4)
		n := len(s)
		w := (&W{}).Int(fn)
		nt := n >= 2 && special(s)
		switch fn {
		case 101:
			w.Ints(s).Int(1 + g.Rng.Intn(n+3))
		case 112:
			d := g.Rng.Intn(2*n+7) - n - 3
			w.Ints(s).Int(d)
			nt = nt && d != 0
		case 102, 103, 104, 105, 106:
			c, a := g.Rng.Intn(7), elem(-3, 4)
			w.Int(c).Int(a).Ints(s)
			nt = n >= 2 && special(s, a)
		case 107, 116:
			k := g.Rng.Intn(8)
			w.Int(k).Ints(s)
			nt = n >= 2 && (special(s) || (fn == 107 && k == 5))
		case 108, 109, 120, 121:
			d := g.Rng.Intn(5)
			m := make([][]int, d)
			ragged := g.Rng.Intn(6) == 0
			for r := range m {
				l := d
				if ragged && g.Rng.Intn(2) == 0 {
					l = g.Rng.Intn(6)
				}
				m[r] = make([]int, l)
				for c := range m[r] {
					m[r][c] = elem(-3, 4)
				}
			}
			w.Intss(m)
			nt = d >= 2
		case 111:
			k := g.Rng.Intn(4)
			ps := make([][]int, k)
			for j := range ps {
				ps[j] = rnd(5, -3, 4)
			}
			w.Ints(s).Intss(ps)
			nt = k >= 1 && special(s)
		case 113, 117, 118:
			w.Ints(s)
		case 115:
			seed := 1 + g.Rng.Intn(1<<30)
			w.Int(seed).Ints(s).Ints(c12Stream(int64(seed), len(s)))
		case 119:
			init := elem(-3, 4)
			w.Int(g.Rng.Intn(3)).Int(init).Ints(s)
			nt = n >= 2 && special(s, init)
		}
		emit("nan-random", nt, w)
	}
}
