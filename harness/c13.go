package main

import (
	"strconv"
	"bufio"
	"fmt"
	"io"
	"math"
	"math/big"
	"os"
	"os/exec"
	"runtime"
	"sort"
	"strings"
	"time"

	"github.com/esimov/gogu"
)

// C13 wire input: fn :: args (mirror of coq/theories/C13_Wire.v)
//
//	1 IndexOf zs x            2 LastIndexOf zs x       3 FindIndex p pa zs      4 FindLastIndex p pa zs
//	5 FindAll p pa zs         6 Contains zs x          7 Some p pa zs           8 Every p pa zs
//	9 FindMin zs             10 FindMax zs            11 Min zs...             12 Max zs...
//	13 FindMinBy k zs        14 FindMaxBy k zs        15 FindMinByKey key maps 16 FindMaxByKey key maps
//	17 Nth zs n              18 Sum zs                19 SumBy k zs            20 Mean zs
//	21 Sum[int8] zs          22 Abs x                 23 Clamp n lo hi         24 InRange n lo hi
//	25 Abs[int8] x           26 Compare cmp a b       27 Less a b              28 Equal a b
//	29 Range args            30 RangeRight args       31 Mean[int8] zs
//	32 Clamp[int8] row lo hi: Clamp(n, lo, hi) for EVERY int8 n, as the run-length encoding of
//	   (first value, successive differences)          33 InRange[int8] row lo hi, run-length encoded
//	34 Range[float64] s st e   35 RangeRight[float64] s st e   36 Sum[float64] zs   37 FindMin[float64] zs
//	38 FindMax[float64] zs     (34-38: the wire carries 4x the value; the function gets x/4, its result is
//	   multiplied by 4 — float64 arithmetic is exact on these quarters)
//	39 Min[string] zs...  40 Max[string] zs...  41 IndexOf[string] zs x   (an int v is passed as the 5-digit
//	   numeral of v+50000, whose lexicographic order is the numeric one; "" — the zero value — reads as 0)
//	42 Range[int8] args   43 RangeRight[int8] args   44 Range[uint8] args   45 RangeRight[uint8] args
//
// predicates (p, pa): 0 true, 1 false, 2 even, 3 (< pa), 4 (== pa)
// key functions k: 0 id, 1 x%2, 2 const 0, 3 -x, 4 |x|
func c13Pred(c, a int) func(int) bool {
	switch c {
	case 0:
		return func(int) bool { return true }
	case 1:
		return func(int) bool { return false }
	case 2:
		return func(x int) bool { return x%2 == 0 }
	case 3:
		return func(x int) bool { return x < a }
	default:
		return func(x int) bool { return x == a }
	}
}

func c13Key(c int) func(int) int {
	switch c {
	case 0:
		return func(x int) int { return x }
	case 1:
		return func(x int) int { return x % 2 }
	case 2:
		return func(int) int { return 0 }
	case 3:
		return func(x int) int { return -x }
	default:
		return func(x int) int {
			if x < 0 {
				return -x
			}
			return x
		}
	}
}

func mapsOf(flat [][]int) []map[int]int {
	ms := make([]map[int]int, len(flat))
	for i, f := range flat {
		ms[i] = map[int]int{}
		for j := 0; j+1 < len(f); j += 2 {
			ms[i][f[j]] = f[j+1]
		}
	}
	return ms
}

// execC13 is the registered Exec.  Range / RangeRight (all instantiations) run in a separate, long-lived
// child process of the same binary: a defective loop there does not fail, it runs on and allocates until
// the Go runtime aborts the process, which no recover() can catch.  The child serves one wire input per
// line; it exits with status 3 as soon as its heap passes 256 MB, and is killed when a case takes more
// than 20 s.  Observation [3] = "the call did not return" (the model never answers that).
func execC13(in []int64) []int64 {
	if len(in) == 1 && in[0] == c13ServeMagic && os.Getenv("C13_RANGE_CHILD") == "1" {
		c13Serve() // does not return
	}
	if len(in) > 0 && c13IsRange(in[0]) && os.Getenv("C13_RANGE_CHILD") != "1" {
		if out, ok := c13RangeViaChild(in); ok {
			return out
		}
	}
	return execC13Direct(in)
}

const c13ServeMagic = -7713

func c13IsRange(fn int64) bool {
	return fn == 29 || fn == 30 || fn == 34 || fn == 35 || (fn >= 42 && fn <= 47) || fn == 65 || fn == 66
}

// c13Level: an int8 with a String method, as enum-like types have
type c13Level int8

func (l c13Level) String() string { return "level " + strconv.Itoa(int(l)) + "!" }

type c13Child struct {
	cmd   *exec.Cmd
	stdin io.WriteCloser
	out   *bufio.Reader
}

var c13RangeProc *c13Child

// c13Runaways counts the calls that did not return; after c13MaxRunaways of them the generator stops
// sending Range cases (each costs the time it takes the child to fill its heap; the violation is already
// established, with replays).
var c13Runaways int

const c13MaxRunaways = 5

func c13StartChild() *c13Child {
	exe, err := os.Executable()
	if err != nil {
		return nil
	}
	cmd := exec.Command(exe, "exec", "C13", fmt.Sprint(c13ServeMagic))
	cmd.Env = append(os.Environ(), "C13_RANGE_CHILD=1")
	cmd.Stderr = io.Discard
	stdin, err1 := cmd.StdinPipe()
	stdout, err2 := cmd.StdoutPipe()
	if err1 != nil || err2 != nil || cmd.Start() != nil {
		return nil
	}
	return &c13Child{cmd: cmd, stdin: stdin, out: bufio.NewReaderSize(stdout, 1<<20)}
}

// c13RangeViaChild returns (observation, true), or (nil, false) when no child could be started (the call is
// then made in this process).
func c13RangeViaChild(in []int64) ([]int64, bool) {
	if c13RangeProc == nil {
		if c13RangeProc = c13StartChild(); c13RangeProc == nil {
			return nil, false
		}
	}
	c := c13RangeProc
	var sb strings.Builder
	writeInts(&sb, in)
	sb.WriteByte('\n')
	type reply struct {
		line string
		err  error
	}
	ch := make(chan reply, 1)
	go func() {
		if _, err := io.WriteString(c.stdin, sb.String()); err != nil {
			ch <- reply{"", err}
			return
		}
		line, err := c.out.ReadString('\n')
		ch <- reply{line, err}
	}()
	select {
	case rp := <-ch:
		if rp.err == nil && strings.HasPrefix(rp.line, "ok ") {
			return parseInts(strings.TrimSpace(rp.line[3:])), true
		}
	case <-time.After(20 * time.Second):
	}
	// the child died (out of memory, fatal error) or hangs: discard it; the next case starts a fresh one
	c.cmd.Process.Kill()
	c.cmd.Wait()
	c13RangeProc = nil
	c13Runaways++
	return []int64{3}, true
}

func c13Serve() {
	go func() { // memory watchdog
		var ms runtime.MemStats
		for {
			time.Sleep(2 * time.Millisecond)
			runtime.ReadMemStats(&ms)
			if ms.HeapAlloc > 256<<20 {
				os.Exit(3)
			}
		}
	}()
	rd := bufio.NewReaderSize(os.Stdin, 1<<20)
	w := bufio.NewWriter(os.Stdout)
	for {
		line, err := rd.ReadString('\n')
		if strings.TrimSpace(line) != "" {
			var sb strings.Builder
			sb.WriteString("ok ")
			writeInts(&sb, execC13Direct(parseInts(strings.TrimSpace(line))))
			sb.WriteByte('\n')
			w.WriteString(sb.String())
			w.Flush()
		}
		if err != nil {
			os.Exit(0)
		}
	}
}

func execC13Direct(in []int64) (out []int64) {
	r := &R{w: in}
	fn := r.Int()
	var res []int64
	panicked := try(func() {
		switch fn {
		case 1:
			s, x := r.Ints(), r.Int()
			res = []int64{int64(gogu.IndexOf(s, x))}
		case 2:
			s, x := r.Ints(), r.Int()
			res = []int64{int64(gogu.LastIndexOf(s, x))}
		case 3:
			c, a, s := r.Int(), r.Int(), r.Ints()
			res = []int64{int64(gogu.FindIndex(s, c13Pred(c, a)))}
		case 4:
			c, a, s := r.Int(), r.Int(), r.Ints()
			res = []int64{int64(gogu.FindLastIndex(s, c13Pred(c, a)))}
		case 5:
			c, a, s := r.Int(), r.Int(), r.Ints()
			m := gogu.FindAll(s, c13Pred(c, a))
			keys := make([]int, 0, len(m))
			for k := range m {
				keys = append(keys, k)
			}
			sort.Ints(keys)
			res = []int64{int64(len(keys))}
			for _, k := range keys {
				res = append(res, int64(k), int64(m[k]))
			}
		case 6:
			s, x := r.Ints(), r.Int()
			res = []int64{b2i(gogu.Contains(s, x))}
		case 7:
			c, a, s := r.Int(), r.Int(), r.Ints()
			res = []int64{b2i(gogu.Some(s, c13Pred(c, a)))}
		case 8:
			c, a, s := r.Int(), r.Int(), r.Ints()
			res = []int64{b2i(gogu.Every(s, c13Pred(c, a)))}
		case 9:
			res = []int64{int64(gogu.FindMin(r.Ints()))}
		case 10:
			res = []int64{int64(gogu.FindMax(r.Ints()))}
		case 11:
			res = []int64{int64(gogu.Min(r.Ints()...))}
		case 12:
			res = []int64{int64(gogu.Max(r.Ints()...))}
		case 13:
			k, s := r.Int(), r.Ints()
			res = []int64{int64(gogu.FindMinBy(s, c13Key(k)))}
		case 14:
			k, s := r.Int(), r.Ints()
			res = []int64{int64(gogu.FindMaxBy(s, c13Key(k)))}
		case 15, 16:
			key, ms := r.Int(), mapsOf(r.Intss())
			var v int
			var err error
			if fn == 15 {
				v, err = gogu.FindMinByKey(ms, key)
			} else {
				v, err = gogu.FindMaxByKey(ms, key)
			}
			if err != nil {
				res = resErr(1)
			} else {
				res = resOk(int64(v))
			}
		case 17:
			s, n := r.Ints(), r.Int()
			v, err := gogu.Nth(s, n)
			if err != nil {
				res = resErr(1)
			} else {
				res = resOk(int64(v))
			}
		case 18:
			res = []int64{int64(gogu.Sum(r.Ints()))}
		case 19:
			k, s := r.Int(), r.Ints()
			res = []int64{int64(gogu.SumBy(s, c13Key(k)))}
		case 20:
			s := r.Ints()
			if try(func() { res = resOk(int64(gogu.Mean(s))) }) {
				res = resPanic()
			}
		case 21:
			s := r.Ints()
			s8 := make([]int8, len(s))
			for i, v := range s {
				s8[i] = int8(v)
			}
			res = []int64{int64(gogu.Sum(s8))}
		case 22:
			res = []int64{int64(gogu.Abs(r.Int()))}
		case 23:
			n, lo, hi := r.Int(), r.Int(), r.Int()
			res = []int64{int64(gogu.Clamp(n, lo, hi))}
		case 24:
			n, lo, hi := r.Int(), r.Int(), r.Int()
			res = []int64{b2i(gogu.InRange(n, lo, hi))}
		case 25:
			res = []int64{int64(gogu.Abs(int8(r.Int())))}
		case 26:
			c, a, b := r.Int(), r.Int(), r.Int()
			cmp := func(x, y int) bool { return x < y }
			if c != 0 {
				cmp = func(x, y int) bool { return x > y }
			}
			res = []int64{int64(gogu.Compare(a, b, cmp))}
		case 27:
			a, b := r.Int(), r.Int()
			res = []int64{b2i(gogu.Less(a, b))}
		case 28:
			a, b := r.Int(), r.Int()
			res = []int64{b2i(gogu.Equal(a, b))}
		case 29, 30:
			args := r.Ints()
			var l []int
			var err error
			if fn == 29 {
				l, err = gogu.Range(args...)
			} else {
				l, err = gogu.RangeRight(args...)
			}
			if err != nil {
				res = resErr(1)
			} else {
				res = (&W{}).Int(0).Ints(l).Out()
			}
		case 31:
			s := r.Ints()
			s8 := make([]int8, len(s))
			for i, v := range s {
				s8[i] = int8(v)
			}
			res = resOk(int64(gogu.Mean(s8)))
		case 32:
			lo, hi := int8(r.Int()), int8(r.Int())
			row := make([]int64, 0, 256)
			prev := int64(0)
			for n := -128; n <= 127; n++ {
				v := int64(gogu.Clamp(int8(n), lo, hi))
				row = append(row, v-prev)
				prev = v
			}
			res = rle(row)
		case 33:
			lo, hi := int8(r.Int()), int8(r.Int())
			row := make([]int64, 0, 256)
			for n := -128; n <= 127; n++ {
				row = append(row, b2i(gogu.InRange(int8(n), lo, hi)))
			}
			res = rle(row)
		case 34, 35:
			args := r.Ints()
			fa := make([]float64, len(args))
			for i, v := range args {
				fa[i] = float64(v) / 4
			}
			var l []float64
			var err error
			if fn == 34 {
				l, err = gogu.Range(fa...)
			} else {
				l, err = gogu.RangeRight(fa...)
			}
			if err != nil {
				res = resErr(1)
			} else {
				w := (&W{}).Int(0).Int(len(l))
				for _, x := range l {
					w.I64(c13Quarter(x))
				}
				res = w.Out()
			}
		case 42, 43:
			// the int8 instance is a NAMED int8 with a String method (an enum-like type): the helpers
			// must work on the number, not on what it prints as
			args := r.Ints()
			a8 := make([]c13Level, len(args))
			for i, v := range args {
				a8[i] = c13Level(int8(v))
			}
			var l []c13Level
			var err error
			if fn == 42 {
				l, err = gogu.Range(a8...)
			} else {
				l, err = gogu.RangeRight(a8...)
			}
			if err != nil {
				res = resErr(1)
			} else {
				w := (&W{}).Int(0).Int(len(l))
				for _, x := range l {
					w.Int(int(x))
				}
				res = w.Out()
			}
		case 44, 45:
			args := r.Ints()
			a8 := make([]uint8, len(args))
			for i, v := range args {
				a8[i] = uint8(v)
			}
			var l []uint8
			var err error
			if fn == 44 {
				l, err = gogu.Range(a8...)
			} else {
				l, err = gogu.RangeRight(a8...)
			}
			if err != nil {
				res = resErr(1)
			} else {
				w := (&W{}).Int(0).Int(len(l))
				for _, x := range l {
					w.Int(int(x))
				}
				res = w.Out()
			}
		case 46, 47:
			args := r.Ints()
			a64 := make([]uint64, len(args))
			for i, v := range args {
				a64[i] = uint64(v)
			}
			var l []uint64
			var err error
			if fn == 46 {
				l, err = gogu.Range(a64...)
			} else {
				l, err = gogu.RangeRight(a64...)
			}
			if err != nil {
				res = resErr(1)
			} else {
				w := (&W{}).Int(0).Int(len(l))
				for _, x := range l {
					w.I64(int64(x))
				}
				res = w.Out()
			}
		case 36, 37, 38:
			s := r.Ints()
			fs := make([]float64, len(s))
			for i, v := range s {
				fs[i] = float64(v) / 4
			}
			switch fn {
			case 36:
				res = []int64{c13Quarter(gogu.Sum(fs))}
			case 37:
				res = []int64{c13Quarter(gogu.FindMin(fs))}
			default:
				res = []int64{c13Quarter(gogu.FindMax(fs))}
			}
		case 39, 40:
			ss := c13Strs(r.Ints())
			if fn == 39 {
				res = []int64{c13UnStr(gogu.Min(ss...))}
			} else {
				res = []int64{c13UnStr(gogu.Max(ss...))}
			}
		case 41:
			s, x := r.Ints(), r.Int()
			res = []int64{int64(gogu.IndexOf(c13Strs(s), fmt.Sprintf("%05d", x+50000)))}
		default:
			if c13IsFloatFn(fn) { // the float64 instantiations: c13_float.go
				res = execC13Float(fn, r)
			} else if c13IsNumFn(fn) { // NumToString / N called directly: c13_num.go
				res = execC13Num(fn, r)
			} else {
				res = []int64{-1}
			}
		}
	})
	if panicked {
		return resPanic()
	}
	return res
}

// c13Quarter maps a float64 that is a multiple of 1/4 back to 4x its value; anything else (a rounding
// error, NaN, an infinity) to a value no model answer can equal.
func c13Quarter(x float64) int64 {
	y := x * 4
	if y != math.Trunc(y) || math.Abs(y) > 1e15 {
		return math.MinInt64 + 12345
	}
	return int64(y)
}

func c13Strs(s []int) []string {
	out := make([]string, len(s))
	for i, v := range s {
		out[i] = fmt.Sprintf("%05d", v+50000)
	}
	return out
}

func c13UnStr(s string) int64 {
	if s == "" {
		return 0
	}
	var v int
	if _, err := fmt.Sscanf(s, "%d", &v); err != nil || len(s) != 5 {
		return math.MinInt64 + 12345
	}
	return int64(v - 50000)
}

// rle: (value, count) pairs, flattened (mirror of C13_Wire.rle)
func rle(row []int64) []int64 {
	var out []int64
	for i := 0; i < len(row); {
		j := i
		for j < len(row) && row[j] == row[i] {
			j++
		}
		out = append(out, row[i], int64(j-i))
		i = j
	}
	return out
}

// c13RangeFits decides, in unbounded arithmetic, whether Range(args...) is a case the harness sends: the
// arguments are rejected, or the progression start, start -+ |step|, ... strictly before end has at most
// maxTerms terms.  (Since the repair 07bbafa the loops stop when the next term would not fit into the element
// type, so every such call returns; before it a counter that wrapped ran on until memory was exhausted —
// the calls are made in a child process, see execC13.)
func c13RangeFits(args []int, maxTerms int64) bool {
	var s, st, e int64
	switch len(args) {
	case 0:
		return true
	case 1:
		s, st, e = 0, 1, int64(args[0])
	case 2:
		s, st, e = int64(args[0]), 1, int64(args[1])
	case 3:
		s, st, e = int64(args[0]), int64(args[1]), int64(args[2])
		if (s > e && e > 0) || st == 0 || (st < 0 && e > s) {
			return true // an error is expected
		}
	default:
		return true
	}
	S, A, E := big.NewInt(s), new(big.Int).Abs(big.NewInt(st)), big.NewInt(e)
	var dist *big.Int
	if e > 0 {
		dist = new(big.Int).Sub(E, S)
	} else {
		dist = new(big.Int).Sub(S, E)
	}
	if dist.Sign() <= 0 {
		return true
	}
	n := new(big.Int).Add(dist, new(big.Int).Sub(A, big.NewInt(1)))
	n.Div(n, A)
	return n.Cmp(big.NewInt(maxTerms)) <= 0
}

var c13Names = map[int]string{1: "IndexOf", 2: "LastIndexOf", 3: "FindIndex", 4: "FindLastIndex", 5: "FindAll",
	6: "Contains", 7: "Some", 8: "Every", 9: "FindMin", 10: "FindMax", 11: "Min", 12: "Max", 13: "FindMinBy",
	14: "FindMaxBy", 15: "FindMinByKey", 16: "FindMaxByKey", 17: "Nth", 18: "Sum", 19: "SumBy", 20: "Mean",
	21: "Sum[int8]", 22: "Abs", 23: "Clamp", 24: "InRange", 25: "Abs[int8]", 26: "Compare", 27: "Less",
	28: "Equal", 29: "Range", 30: "RangeRight", 31: "Mean[int8]", 32: "Clamp[int8]row", 33: "InRange[int8]row",
	34: "Range[float64]/4", 35: "RangeRight[float64]/4", 36: "Sum[float64]/4", 37: "FindMin[float64]/4", 38: "FindMax[float64]/4",
	39: "Min[string]", 40: "Max[string]", 41: "IndexOf[string]",
	42: "Range[int8]", 43: "RangeRight[int8]", 44: "Range[uint8]", 45: "RangeRight[uint8]", 46: "Range[uint64]", 47: "RangeRight[uint64]",
	50: "Sum[float64]", 51: "SumBy[float64]", 52: "Mean[float64]", 53: "Min[float64]", 54: "Max[float64]", 55: "FindMin[float64]",
	56: "FindMax[float64]", 57: "FindMinBy[float64]", 58: "FindMaxBy[float64]", 59: "Abs[float64]", 60: "Clamp[float64]",
	61: "InRange[float64]", 62: "Compare[float64]", 63: "Less[float64]", 64: "Equal[float64]", 65: "Range[float64]",
	66: "RangeRight[float64]", 67: "FindMinByKey[int,float64]", 68: "FindMaxByKey[int,float64]",
	70: "NumToString[int]", 71: "NumToString[named int8]", 72: "NumToString[uint8]", 76: "NumToString[uint64]",
	73: "N[int]", 74: "N[named int8]", 75: "N[uint8]", 77: "N[uint64]", 78: "Bound.Enclose", 79: "Bound[int8].Enclose"}

func describeC13(in []int64) string {
	if len(in) == 0 {
		return ""
	}
	if c13IsFloatFn(int(in[0])) {
		return describeC13Float(in)
	}
	return fmt.Sprintf("%s%v", c13Names[int(in[0])], in[1:])
}

func genC13(g *Gen) {
	alpha := []int{-1, 0, 1, 2}
	maxLen := g.Pick(5, 6)
	emit := func(stream string, nt bool, w *W) {
		if c13IsRange(w.w[0]) && c13Runaways >= c13MaxRunaways {
			g.Count("range_case_not_sent_after_runaway_calls")
			return
		}
		g.Count(c13Names[int(w.w[0])])
		g.Case(stream, nt, w.Out())
	}
	// --- exhaustive small scope: slices × probes / predicates / keys ---
	slicesOver(alpha, maxLen, func(s []int) {
		n := len(s)
		for x := -2; x <= 3; x++ {
			emit("exhaustive", n > 1, (&W{}).Int(1).Ints(s).Int(x))
			emit("exhaustive", n > 1, (&W{}).Int(2).Ints(s).Int(x))
			emit("exhaustive", n > 1, (&W{}).Int(6).Ints(s).Int(x))
		}
		for _, p := range [][2]int{{0, 0}, {1, 0}, {2, 0}, {3, 1}, {3, 2}, {4, 0}, {4, 2}} {
			for _, fn := range []int{3, 4, 5, 7, 8} {
				emit("exhaustive", n > 1, (&W{}).Int(fn).Int(p[0]).Int(p[1]).Ints(s))
			}
		}
		for _, fn := range []int{9, 10, 11, 12, 18, 20, 21, 31} {
			emit("exhaustive", n > 1, (&W{}).Int(fn).Ints(s))
		}
		for k := 0; k <= 4; k++ {
			for _, fn := range []int{13, 14, 19} {
				emit("exhaustive", n > 1, (&W{}).Int(fn).Int(k).Ints(s))
			}
		}
		for i := -n - 2; i <= n+2; i++ {
			emit("exhaustive", true, (&W{}).Int(17).Ints(s).Int(i))
		}
	})
	// all int8 triples for Clamp / InRange, all int8 for Abs  (thorough: full; quick: stride)
	stride := g.Pick(9, 4)
	for n := -128; n <= 127; n += stride {
		for lo := -128; lo <= 127; lo += stride {
			for hi := -128; hi <= 127; hi += stride {
				emit("exhaustive", lo <= hi, (&W{}).Int(23).Int(n).Int(lo).Int(hi))
				emit("exhaustive", true, (&W{}).Int(24).Int(n).Int(lo).Int(hi))
			}
		}
	}
	// every boundary configuration n in {lo-1, lo, lo+1, hi-1, hi, hi+1} for all int8 lo <= hi (thorough) / stride 5 (quick)
	bs := g.Pick(5, 1)
	for lo := -128; lo <= 127; lo += bs {
		for hi := lo; hi <= 127; hi += bs {
			for _, n := range []int{lo - 1, lo, lo + 1, hi - 1, hi, hi + 1} {
				if n < -128 || n > 127 {
					continue
				}
				emit("exhaustive", true, (&W{}).Int(23).Int(n).Int(lo).Int(hi))
				emit("exhaustive", true, (&W{}).Int(24).Int(n).Int(lo).Int(hi))
			}
		}
	}
	// whole rows: for int8 lo, hi (all pairs in the thorough tier, every third value in the quick one) the
	// results for EVERY int8 n — in the thorough tier this is every int8 triple
	rs := g.Pick(3, 1)
	for lo := -128; lo <= 127; lo += rs {
		for hi := -128; hi <= 127; hi += rs {
			emit("exhaustive", lo <= hi, (&W{}).Int(32).Int(lo).Int(hi))
			emit("exhaustive", true, (&W{}).Int(33).Int(lo).Int(hi))
		}
	}
	for x := -128; x <= 127; x++ {
		emit("exhaustive", true, (&W{}).Int(22).Int(x))
		emit("exhaustive", true, (&W{}).Int(25).Int(x))
	}
	for a := -2; a <= 2; a++ {
		for b := -2; b <= 2; b++ {
			emit("exhaustive", true, (&W{}).Int(26).Int(0).Int(a).Int(b))
			emit("exhaustive", true, (&W{}).Int(26).Int(1).Int(a).Int(b))
			emit("exhaustive", true, (&W{}).Int(27).Int(a).Int(b))
			emit("exhaustive", true, (&W{}).Int(28).Int(a).Int(b))
		}
	}
	// Range / RangeRight: all (start, step, end) in a cube, plus 0/1/2/4 arguments
	rb := g.Pick(10, 14)
	for a := -rb; a <= rb; a++ {
		emit("exhaustive", true, (&W{}).Int(29).Ints([]int{a}))
		emit("exhaustive", true, (&W{}).Int(30).Ints([]int{a}))
		for b := -rb; b <= rb; b++ {
			emit("exhaustive", true, (&W{}).Int(29).Ints([]int{a, b}))
			emit("exhaustive", true, (&W{}).Int(30).Ints([]int{a, b}))
			for c := -rb; c <= rb; c++ {
				emit("exhaustive", true, (&W{}).Int(29).Ints([]int{a, b, c}))
				if (a+b+c)%2 == 0 {
					emit("exhaustive", true, (&W{}).Int(30).Ints([]int{a, b, c}))
				}
			}
		}
	}
	emit("malformed", true, (&W{}).Int(29).Ints([]int{}))
	emit("malformed", true, (&W{}).Int(29).Ints([]int{1, 2, 3, 4}))
	emit("malformed", true, (&W{}).Int(30).Ints([]int{1, 1, 9, 4, 5}))
	// ByKey: all lists of up to 3 maps over keys {0,1} × values {-1,0,2}, probing keys 0..2
	oneMaps := [][]int{{}, {0, -1}, {0, 2}, {1, 0}, {0, 0, 1, 2}, {0, 2, 1, -1}}
	seqsUpTo(len(oneMaps), g.Pick(3, 4), func(seq []int) {
		ms := make([][]int, len(seq))
		for i, v := range seq {
			ms[i] = oneMaps[v]
		}
		for key := 0; key <= 2; key++ {
			emit("exhaustive", len(ms) > 1, (&W{}).Int(15).Int(key).Intss(ms))
			emit("exhaustive", len(ms) > 1, (&W{}).Int(16).Int(key).Intss(ms))
		}
	})
	g.Exhaustive("exhaustive")
	// --- seeded random larger inputs ---
	nr := g.Pick(3000, 30000)
	for i := 0; i < nr; i++ {
		s := randSlice(g.Rng, 24, -50, 50)
		fn := []int{1, 2, 3, 4, 5, 6, 7, 8, 9, 10, 11, 12, 13, 14, 17, 18, 19, 20, 21, 29, 30}[g.Rng.Intn(21)]
		w := (&W{}).Int(fn)
		switch fn {
		case 1, 2, 6:
			x := g.Rng.Intn(101) - 50
			if len(s) > 0 && g.Rng.Intn(2) == 0 {
				x = s[g.Rng.Intn(len(s))]
			}
			w.Ints(s).Int(x)
		case 3, 4, 5, 7, 8:
			w.Int(g.Rng.Intn(5)).Int(g.Rng.Intn(41) - 20).Ints(s)
		case 9, 10, 11, 12, 18, 20, 21:
			w.Ints(s)
		case 13, 14, 19:
			w.Int(g.Rng.Intn(5)).Ints(s)
		case 17:
			w.Ints(s).Int(g.Rng.Intn(2*len(s)+6) - len(s) - 3)
		case 29, 30:
			k := 1 + g.Rng.Intn(3)
			a := make([]int, k)
			for j := range a {
				a[j] = g.Rng.Intn(81) - 40
			}
			w.Ints(a)
		}
		emit("random", true, w)
	}
	// --- other instantiations (float64 on quarters, strings as numerals): every (start,step,end) in [-8,8]^3
	// quarters for Range[float64], seeded random slices for the rest
	for a := -8; a <= 8; a++ {
		for b := -8; b <= 8; b++ {
			for c := -8; c <= 8; c++ {
				emit("instances", true, (&W{}).Int(34).Ints([]int{a, b, c}))
				if (a+b+c)%3 == 0 {
					emit("instances", true, (&W{}).Int(35).Ints([]int{a, b, c}))
				}
			}
		}
	}
	// Range at narrow element types: int8 and uint8 around the limits of the type (the counter would wrap)
	v8 := []int{-128, -127, -126, -100, -64, -10, -3, -1, 0, 1, 2, 3, 10, 64, 100, 120, 125, 126, 127}
	st8 := []int{1, 2, 3, 5, 7, 64, 100, 127, -1, -2, -3, -5, -7, -64, -100, -127, -128, 0}
	for _, a := range v8 {
		emit("instances", true, (&W{}).Int(42).Ints([]int{a}))
		emit("instances", true, (&W{}).Int(43).Ints([]int{a}))
		for _, c := range v8 {
			emit("instances", true, (&W{}).Int(42).Ints([]int{a, c}))
			for _, b := range st8 {
				emit("instances", true, (&W{}).Int(42).Ints([]int{a, b, c}))
				if (a+b+c)%3 == 0 {
					emit("instances", true, (&W{}).Int(43).Ints([]int{a, b, c}))
				}
			}
		}
	}
	vu := []int{0, 1, 2, 3, 5, 10, 100, 127, 128, 200, 250, 253, 254, 255}
	stu := []int{1, 2, 3, 5, 7, 100, 128, 200, 255, 0}
	for _, a := range vu {
		emit("instances", true, (&W{}).Int(44).Ints([]int{a}))
		emit("instances", true, (&W{}).Int(45).Ints([]int{a}))
		for _, c := range vu {
			emit("instances", true, (&W{}).Int(44).Ints([]int{a, c}))
			for _, b := range stu {
				emit("instances", true, (&W{}).Int(44).Ints([]int{a, b, c}))
				if (a+b+c)%3 == 0 {
					emit("instances", true, (&W{}).Int(45).Ints([]int{a, b, c}))
				}
			}
		}
	}
	for i := 0; i < g.Pick(2000, 40000); i++ { // random triples over the whole of int8 / uint8
		if i%2 == 0 {
			emit("instances", true, (&W{}).Int(42+g.Rng.Intn(2)).Ints([]int{g.Rng.Intn(256) - 128, g.Rng.Intn(256) - 128, g.Rng.Intn(256) - 128}))
		} else {
			emit("instances", true, (&W{}).Int(44+g.Rng.Intn(2)).Ints([]int{g.Rng.Intn(256), g.Rng.Intn(256), g.Rng.Intn(256)}))
		}
	}
	for i := 0; i < g.Pick(1500, 15000); i++ {
		s := randSlice(g.Rng, 12, -40, 40)
		fn := 36 + g.Rng.Intn(6)
		w := (&W{}).Int(fn).Ints(s)
		if fn == 41 {
			x := g.Rng.Intn(81) - 40
			if len(s) > 0 && g.Rng.Intn(2) == 0 {
				x = s[g.Rng.Intn(len(s))]
			}
			w.Int(x)
		}
		emit("instances", len(s) > 1, w)
	}
	// Range / RangeRight[uint64] around 0, 2^63 and the top of the type (values above MaxInt64 go through
	// FormatUint / ParseUint; the counter may pass MaxUint64: the loops stop there).  Only calls with few terms.
	{
		bases := []uint64{0, 1<<63 - 3, 1 << 63, math.MaxUint64 - 5}
		steps := []uint64{1, 2, 3, 1 << 63, math.MaxUint64}
		for _, b := range bases {
			for a := uint64(0); a <= 5; a++ {
				for e := uint64(0); e <= 5; e++ {
					start, end := b+a, b+e
					if end != 0 || start < 50 {
						emit("instances", true, (&W{}).Int(46+g.Rng.Intn(2)).Ints([]int{int(start), int(end)}))
					}
					for _, st := range steps {
						if end == 0 && start > 50 && st < 1<<32 {
							continue
						}
						emit("instances", true, (&W{}).Int(46).Ints([]int{int(start), int(st), int(end)}))
						if (a+e)%3 == 0 {
							emit("instances", true, (&W{}).Int(47).Ints([]int{int(start), int(st), int(end)}))
						}
					}
				}
			}
		}
		for e := 0; e <= 6; e++ {
			emit("instances", true, (&W{}).Int(46).Ints([]int{e}))
			emit("instances", true, (&W{}).Int(47).Ints([]int{e}))
		}
	}
	// --- extreme stream: arguments at and around the limits of int64 and of int32/uint32 ---
	const maxI, minI = math.MaxInt64, math.MinInt64
	ext := []int{maxI, maxI - 1, minI, minI + 1, 1 << 31, -(1 << 31), 1 << 32, -(1 << 32), 1 << 62, -(1 << 62), -1, 0, 1}
	ext6 := []int{maxI, minI, 1 << 62, -(1 << 62), 1, -1}
	shortS := [][]int{{}, {7}, {7, 8}, {7, 8, 9}}
	for _, s := range shortS { // Nth: every extreme index, plus the window shifted by +-2^32 and +-2^63 (wrapping)
		for _, i := range ext {
			emit("extreme", true, (&W{}).Int(17).Ints(s).Int(i))
		}
		for d := -len(s) - 1; d <= len(s)+1; d++ {
			emit("extreme", true, (&W{}).Int(17).Ints(s).Int(d+1<<32))
			emit("extreme", true, (&W{}).Int(17).Ints(s).Int(d-1<<32))
			if d > 0 {
				emit("extreme", true, (&W{}).Int(17).Ints(s).Int(minI+d))
			}
			if d < 0 {
				emit("extreme", true, (&W{}).Int(17).Ints(s).Int(maxI+d))
			}
		}
	}
	rangeCase := func(stream string, fn int, args []int) {
		if c13RangeFits(args, 5000) {
			emit(stream, true, (&W{}).Int(fn).Ints(args))
		} else {
			g.Count("range_case_skipped_more_than_5000_terms")
		}
	}
	for _, a := range ext { // Range / RangeRight: every extreme single, pair and triple that can be executed
		rangeCase("extreme", 29, []int{a})
		rangeCase("extreme", 30, []int{a})
		for _, b := range ext {
			rangeCase("extreme", 29, []int{a, b})
			rangeCase("extreme", 30, []int{a, b})
			for _, c := range ext {
				rangeCase("extreme", 29, []int{a, b, c})
				rangeCase("extreme", 30, []int{a, b, c})
			}
		}
	}
	// short progressions that end within a few steps of the top / bottom of the type
	for _, st := range []int{1, 2, 3, 1 << 31, 1 << 62, -1, -2, -(1 << 62)} {
		ast := st
		if ast < 0 {
			ast = -ast
		}
		for k := 0; k <= 4; k++ {
			for back := 0; back <= 3; back++ {
				hiEnd, loEnd := maxI-back, minI+back
				off := new(big.Int).Mul(big.NewInt(int64(k)), big.NewInt(int64(ast)))
				if up := new(big.Int).Sub(big.NewInt(int64(hiEnd)), off); st > 0 && up.IsInt64() {
					rangeCase("extreme", 29, []int{int(up.Int64()), st, hiEnd})
					rangeCase("extreme", 30, []int{int(up.Int64()), st, hiEnd})
				}
				// descending (end <= 0): toward the bottom of the type
				if down := new(big.Int).Add(big.NewInt(int64(loEnd)), off); down.IsInt64() {
					rangeCase("extreme", 29, []int{int(down.Int64()), st, loEnd})
					rangeCase("extreme", 30, []int{int(down.Int64()), st, loEnd})
				}
			}
		}
	}
	for _, a := range ext { // Clamp / InRange / Compare / Less / Equal / Abs on extreme values
		emit("extreme", true, (&W{}).Int(22).Int(a))
		for _, b := range ext {
			emit("extreme", true, (&W{}).Int(26).Int(0).Int(a).Int(b))
			emit("extreme", true, (&W{}).Int(26).Int(1).Int(a).Int(b))
			emit("extreme", true, (&W{}).Int(27).Int(a).Int(b))
			emit("extreme", true, (&W{}).Int(28).Int(a).Int(b))
			for _, c := range ext {
				emit("extreme", b <= c, (&W{}).Int(23).Int(a).Int(b).Int(c))
				emit("extreme", true, (&W{}).Int(24).Int(a).Int(b).Int(c))
			}
		}
	}
	slicesOver(ext6, 3, func(s []int) { // aggregates, extrema, searches over slices of extreme values
		n := len(s)
		for _, fn := range []int{9, 10, 11, 12, 18, 20} {
			emit("extreme", n > 1, (&W{}).Int(fn).Ints(s))
		}
		for k := 0; k <= 4; k++ {
			for _, fn := range []int{13, 14, 19} {
				emit("extreme", n > 1, (&W{}).Int(fn).Int(k).Ints(s))
			}
		}
		if n <= 2 {
			for _, x := range ext {
				for _, fn := range []int{1, 2, 6} {
					emit("extreme", n > 1, (&W{}).Int(fn).Ints(s).Int(x))
				}
				for _, pc := range []int{3, 4} {
					for _, fn := range []int{3, 4, 5, 7, 8} {
						emit("extreme", n > 1, (&W{}).Int(fn).Int(pc).Int(x).Ints(s))
					}
				}
			}
		}
	})
	for _, key := range []int{maxI, minI, 0} { // ByKey with extreme keys and values
		for _, ms := range [][][]int{{{key, maxI}, {key, minI}}, {{key, minI}, {key, 1}, {key, maxI}}, {{key, 1}, {key ^ 1, minI}, {key, -1}}, {{key ^ 1, 5}, {key, 1}}} {
			emit("extreme", true, (&W{}).Int(15).Int(key).Intss(ms))
			emit("extreme", true, (&W{}).Int(16).Int(key).Intss(ms))
		}
	}
	// --- large stream: slices of 100..5000 elements, lists of 100..500 maps, ranges of up to 5000 terms ---
	nl := g.Pick(24, 200)
	for i := 0; i < nl; i++ {
		n := 100 + g.Rng.Intn(4901)
		if i%4 == 0 {
			n = 100 + g.Rng.Intn(200)
		}
		width := []int{3, 50, 100000, 1 << 40}[g.Rng.Intn(4)]
		s := make([]int, n)
		for j := range s {
			s[j] = g.Rng.Intn(2*width+1) - width
		}
		x := s[g.Rng.Intn(n)]
		if g.Rng.Intn(4) == 0 {
			x = width + 1
		}
		for _, fn := range []int{1, 2, 6} {
			emit("large", true, (&W{}).Int(fn).Ints(s).Int(x))
		}
		pc, pa := g.Rng.Intn(5), g.Rng.Intn(2*width+1)-width
		for _, fn := range []int{3, 4, 5, 7, 8} {
			emit("large", true, (&W{}).Int(fn).Int(pc).Int(pa).Ints(s))
		}
		for _, fn := range []int{9, 10, 11, 12, 18, 20, 21, 31} {
			emit("large", true, (&W{}).Int(fn).Ints(s))
		}
		k := g.Rng.Intn(5)
		for _, fn := range []int{13, 14, 19} {
			emit("large", true, (&W{}).Int(fn).Int(k).Ints(s))
		}
		for _, idx := range []int{0, n - 1, n, -n, -n - 1, -1, n / 2, -n / 2, g.Rng.Intn(2*n+4) - n - 2} {
			emit("large", true, (&W{}).Int(17).Ints(s).Int(idx))
		}
	}
	for i := 0; i < nl/2; i++ {
		n := 100 + g.Rng.Intn(4901)
		st := 1 + g.Rng.Intn(7)
		s0 := g.Rng.Intn(2001) - 1000
		for _, fn := range []int{29, 30} {
			rangeCase("large", fn, []int{n})
			rangeCase("large", fn, []int{-n})
			rangeCase("large", fn, []int{s0, s0 + n})
			rangeCase("large", fn, []int{s0, st, s0 + n*st - g.Rng.Intn(st)})
			rangeCase("large", fn, []int{s0 + n*st, -st, s0 - 2000})
			rangeCase("large", fn, []int{maxI - n*st - g.Rng.Intn(3), st, maxI - st + 1})
			rangeCase("large", fn, []int{minI + n*st + g.Rng.Intn(3), st, minI + st})
		}
	}
	for i := 0; i < nl/2; i++ { // ByKey over 100..500 maps, a third of which lack the key
		n := 100 + g.Rng.Intn(401)
		ms := make([][]int, n)
		for j := range ms {
			switch g.Rng.Intn(3) {
			case 0:
				ms[j] = []int{1, g.Rng.Intn(2001) - 1000}
			case 1:
				ms[j] = []int{0, g.Rng.Intn(2001) - 1000, 1, g.Rng.Intn(2001) - 1000}
			default:
				ms[j] = []int{0, g.Rng.Intn(2001) - 1000}
			}
		}
		for key := 0; key <= 1; key++ {
			emit("large", true, (&W{}).Int(15).Int(key).Intss(ms))
			emit("large", true, (&W{}).Int(16).Int(key).Intss(ms))
		}
	}
	// Mean[int8] / Sum[int8] at the lengths where int8(len) wraps: 127, 128, 129, 255, 256, 257, 384, 512
	for _, n := range []int{126, 127, 128, 129, 200, 255, 256, 257, 384, 511, 512, 513} {
		for rep := 0; rep < g.Pick(3, 20); rep++ {
			s := make([]int, n)
			for j := range s {
				s[j] = g.Rng.Intn(256) - 128
			}
			emit("large", true, (&W{}).Int(31).Ints(s))
			emit("large", true, (&W{}).Int(21).Ints(s))
		}
	}
	// --- float stream: the float64 instantiations against the IEEE-754 model (c13_float.go) ---
	genC13Float(g, emit)
	// --- num streams: NumToString and N themselves against the decimal codec model (c13_num.go) ---
	genC13Num(g, emit)
}

func init() {
	register(&Prop{ID: "C13", Exec: execC13, Gen: genC13, Describe: describeC13,
		Rule: "exhaustive: every slice of length <= 5 (thorough 6) over {-1,0,1,2} x every probe in [-2,3] / predicate family / key family / index in [-len-2,len+2] (incl. Sum[int8], Mean[int8]); Clamp[int8] and InRange[int8] as whole rows: for int8 (lo,hi) - every third value quick, ALL pairs thorough - the results for every int8 n (thorough = every int8 triple), plus an int8 cube at stride 9/4 and every boundary probe n in {lo-1..lo+1,hi-1..hi+1} (stride 5 quick, all thorough) through the int instantiation, and all int8 for Abs / Abs[int8]; (start,step,end) in [-10,10]^3 (thorough [-14,14]^3) and every 1- and 2-argument call in that range, 0 and >3 arguments, for Range; lists of <= 3 (4) maps for ByKey. extreme: indices / probes / bounds / steps / elements in {MaxInt, MaxInt-1, MinInt, MinInt+1, +-2^31, +-2^32, +-2^62, -1, 0, 1} for Nth (and the valid window shifted by +-2^32 and to both ends of int64), Range/RangeRight (every single, pair and triple whose result has <= 5000 terms - the counter may pass the limits of int64: the repaired loops stop there - or that is rejected; progressions ending within 3 of MaxInt / MinInt), Clamp, InRange, Abs, Compare/Less/Equal, and slices of length <= 3 over {MaxInt, MinInt, +-2^62, +-1} for Sum/SumBy/Mean/Min/Max/FindMin/FindMax(+By) and (length <= 2) the searches with extreme probes. large: slices of 100..5000 elements for every slice function, Nth at both ends, ranges of 100..5000 terms (also ending at MaxInt / MinInt), ByKey over 100..500 maps, Sum/Mean[int8] at the lengths where int8(len) wraps. random: seeded slices up to length 24 over [-50,50]. instances: Range/RangeRight[float64] on every (start,step,end) in [-8,8]^3 quarters, Range/RangeRight[uint64] on starts and ends within 5 of 0, 2^63-3, 2^63 and MaxUint64-5 x steps {1, 2, 3, 2^63, MaxUint64} (few terms each; values above MaxInt64), Range/RangeRight[int8] and [uint8] on 19 / 14 start and end values at and around the limits of the type x 18 / 10 steps (incl. -128) and seeded random triples over the whole type, Sum/FindMin/FindMax[float64] on quarters and Min/Max/IndexOf[string] on numerals, seeded random slices up to length 12. float (c13_float.go; results compared bit for bit with the IEEE-754 model, NaN canonicalised): Sum/Mean/Min/Max/FindMin/FindMax[float64] on every slice of length <= 2 over 20 special values {-0, +0, +-1, 0.1, 0.2, 0.3, 0.5, 1.5, +-1e308, +-5e-324, MaxFloat64, 2^-1022, +-Inf, NaN, 2^53, 2^53+2} and of length 3 over the first 13 (thorough: all 20, and length 4 over the first 15), SumBy/FindMinBy/FindMaxBy x 4 key functions (x, -x, 0, |x|) on length <= 2 and length 3 over the first 7 (14), Abs on every value and its negation, Compare/Less/Equal on every pair, Clamp/InRange on every triple of the first 12 (20), ByKey[int,float64] on lists of <= 3 maps with NaN / -0 / +Inf values, Range/RangeRight[float64] on every single and pair over 24 values (incl. NaN, +-Inf, -0.001, 0.005, 2.675, 2^53, 2^53+2) and every triple over the first 14 (24) that is rejected or ends within 100 (3000) iterations, seeded random slices (raw bit patterns / ordinary decimals / mixed; length <= 12 and 100..500) for every function and seeded random decimal ranges. num / num-malformed (c13_num.go): NumToString[int / named int8 with a String method / uint8 / uint64] and N at the same types called directly against the decimal codec model: every int8 / uint8 value and [-130,260] with and without sign and leading zeros, the limits of int64 / uint64 and their neighbours, every power of ten +-1, 59 malformed or out-of-range texts (empty, bare and double signs, underscores, prefixes, exponents, spaces, non-ASCII digits, 2^63, 2^64, 2^128, long zero prefixes) at each type, seeded random values and digit / noise strings up to 23 bytes; Bound.Enclose called directly on [-3,3]^2 x [-4,4], on 8^3 int8 triples at and around the limits (Abs(-128) = -128) and on 7^3 int64 triples. non-trivial = slice longer than 1 element, or any index/range probe, or a Clamp with lo <= hi; distinct = distinct wire input"})
}
