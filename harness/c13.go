package main

import (
	"fmt"
	"sort"

	"github.com/esimov/gogu"
)

// C13 wire input: fn :: args (mirror of coq/theories/C13_Wire.v)
//
//	1 IndexOf zs x            2 LastIndexOf zs x       3 FindIndex p pa zs      4 FindLastIndex p pa zs
//	5 FindAll p pa zs         6 Contains zs x          7 Some p pa zs           8 Every p pa zs
//	9 FindMin zs             10 FindMax zs            11 Min zs...             12 Max zs...
//	13 FindMinBy k zs        14 FindMaxBy k zs        15 FindMinByKey key maps 16 FindMaxByKey key maps
//	17 Nth zs n              18 Sum zs                19 SumBy k zs            20 Mean zs
//	21 Sum[int8] zs          22 Abs x                 23 Clamp n lo hi         24 InRange n lo hi
//	25 Abs[int8] x           26 Compare cmp a b       27 Less a b              28 Equal a b
//	29 Range args            30 RangeRight args
//
// predicates (p, pa): 0 true, 1 false, 2 even, 3 (< pa), 4 (== pa)
// key functions k: 0 id, 1 x%2, 2 const 0, 3 -x, 4 |x|
func c13Pred(c, a int) func(int) bool {
	switch c {
	case 0:
		return func(int) bool { return true }
	case 1:
		return func(int) bool { return false }
	case 2:
		return func(x int) bool { return x%2 == 0 }
	case 3:
		return func(x int) bool { return x < a }
	default:
		return func(x int) bool { return x == a }
	}
}

func c13Key(c int) func(int) int {
	switch c {
	case 0:
		return func(x int) int { return x }
	case 1:
		return func(x int) int { return x % 2 }
	case 2:
		return func(int) int { return 0 }
	case 3:
		return func(x int) int { return -x }
	default:
		return func(x int) int {
			if x < 0 {
				return -x
			}
			return x
		}
	}
}

func mapsOf(flat [][]int) []map[int]int {
	ms := make([]map[int]int, len(flat))
	for i, f := range flat {
		ms[i] = map[int]int{}
		for j := 0; j+1 < len(f); j += 2 {
			ms[i][f[j]] = f[j+1]
		}
	}
	return ms
}

func execC13(in []int64) (out []int64) {
	r := &R{w: in}
	fn := r.Int()
	var res []int64
	panicked := try(func() {
		switch fn {
		case 1:
			s, x := r.Ints(), r.Int()
			res = []int64{int64(gogu.IndexOf(s, x))}
		case 2:
			s, x := r.Ints(), r.Int()
			res = []int64{int64(gogu.LastIndexOf(s, x))}
		case 3:
			c, a, s := r.Int(), r.Int(), r.Ints()
			res = []int64{int64(gogu.FindIndex(s, c13Pred(c, a)))}
		case 4:
			c, a, s := r.Int(), r.Int(), r.Ints()
			res = []int64{int64(gogu.FindLastIndex(s, c13Pred(c, a)))}
		case 5:
			c, a, s := r.Int(), r.Int(), r.Ints()
			m := gogu.FindAll(s, c13Pred(c, a))
			keys := make([]int, 0, len(m))
			for k := range m {
				keys = append(keys, k)
			}
			sort.Ints(keys)
			res = []int64{int64(len(keys))}
			for _, k := range keys {
				res = append(res, int64(k), int64(m[k]))
			}
		case 6:
			s, x := r.Ints(), r.Int()
			res = []int64{b2i(gogu.Contains(s, x))}
		case 7:
			c, a, s := r.Int(), r.Int(), r.Ints()
			res = []int64{b2i(gogu.Some(s, c13Pred(c, a)))}
		case 8:
			c, a, s := r.Int(), r.Int(), r.Ints()
			res = []int64{b2i(gogu.Every(s, c13Pred(c, a)))}
		case 9:
			res = []int64{int64(gogu.FindMin(r.Ints()))}
		case 10:
			res = []int64{int64(gogu.FindMax(r.Ints()))}
		case 11:
			res = []int64{int64(gogu.Min(r.Ints()...))}
		case 12:
			res = []int64{int64(gogu.Max(r.Ints()...))}
		case 13:
			k, s := r.Int(), r.Ints()
			res = []int64{int64(gogu.FindMinBy(s, c13Key(k)))}
		case 14:
			k, s := r.Int(), r.Ints()
			res = []int64{int64(gogu.FindMaxBy(s, c13Key(k)))}
		case 15, 16:
			key, ms := r.Int(), mapsOf(r.Intss())
			var v int
			var err error
			if fn == 15 {
				v, err = gogu.FindMinByKey(ms, key)
			} else {
				v, err = gogu.FindMaxByKey(ms, key)
			}
			if err != nil {
				res = resErr(1)
			} else {
				res = resOk(int64(v))
			}
		case 17:
			s, n := r.Ints(), r.Int()
			v, err := gogu.Nth(s, n)
			if err != nil {
				res = resErr(1)
			} else {
				res = resOk(int64(v))
			}
		case 18:
			res = []int64{int64(gogu.Sum(r.Ints()))}
		case 19:
			k, s := r.Int(), r.Ints()
			res = []int64{int64(gogu.SumBy(s, c13Key(k)))}
		case 20:
			s := r.Ints()
			if try(func() { res = resOk(int64(gogu.Mean(s))) }) {
				res = resPanic()
			}
		case 21:
			s := r.Ints()
			s8 := make([]int8, len(s))
			for i, v := range s {
				s8[i] = int8(v)
			}
			res = []int64{int64(gogu.Sum(s8))}
		case 22:
			res = []int64{int64(gogu.Abs(r.Int()))}
		case 23:
			n, lo, hi := r.Int(), r.Int(), r.Int()
			res = []int64{int64(gogu.Clamp(n, lo, hi))}
		case 24:
			n, lo, hi := r.Int(), r.Int(), r.Int()
			res = []int64{b2i(gogu.InRange(n, lo, hi))}
		case 25:
			res = []int64{int64(gogu.Abs(int8(r.Int())))}
		case 26:
			c, a, b := r.Int(), r.Int(), r.Int()
			cmp := func(x, y int) bool { return x < y }
			if c != 0 {
				cmp = func(x, y int) bool { return x > y }
			}
			res = []int64{int64(gogu.Compare(a, b, cmp))}
		case 27:
			a, b := r.Int(), r.Int()
			res = []int64{b2i(gogu.Less(a, b))}
		case 28:
			a, b := r.Int(), r.Int()
			res = []int64{b2i(gogu.Equal(a, b))}
		case 29, 30:
			args := r.Ints()
			var l []int
			var err error
			if fn == 29 {
				l, err = gogu.Range(args...)
			} else {
				l, err = gogu.RangeRight(args...)
			}
			if err != nil {
				res = resErr(1)
			} else {
				res = (&W{}).Int(0).Ints(l).Out()
			}
		default:
			res = []int64{-1}
		}
	})
	if panicked {
		return resPanic()
	}
	return res
}

var c13Names = map[int]string{1: "IndexOf", 2: "LastIndexOf", 3: "FindIndex", 4: "FindLastIndex", 5: "FindAll",
	6: "Contains", 7: "Some", 8: "Every", 9: "FindMin", 10: "FindMax", 11: "Min", 12: "Max", 13: "FindMinBy",
	14: "FindMaxBy", 15: "FindMinByKey", 16: "FindMaxByKey", 17: "Nth", 18: "Sum", 19: "SumBy", 20: "Mean",
	21: "Sum[int8]", 22: "Abs", 23: "Clamp", 24: "InRange", 25: "Abs[int8]", 26: "Compare", 27: "Less",
	28: "Equal", 29: "Range", 30: "RangeRight"}

func describeC13(in []int64) string {
	if len(in) == 0 {
		return ""
	}
	return fmt.Sprintf("%s%v", c13Names[int(in[0])], in[1:])
}

func genC13(g *Gen) {
	alpha := []int{-1, 0, 1, 2}
	maxLen := g.Pick(4, 6)
	emit := func(stream string, nt bool, w *W) {
		g.Count(c13Names[int(w.w[0])])
		g.Case(stream, nt, w.Out())
	}
	// --- exhaustive small scope: slices × probes / predicates / keys ---
	slicesOver(alpha, maxLen, func(s []int) {
		n := len(s)
		for x := -2; x <= 3; x++ {
			emit("exhaustive", n > 1, (&W{}).Int(1).Ints(s).Int(x))
			emit("exhaustive", n > 1, (&W{}).Int(2).Ints(s).Int(x))
			emit("exhaustive", n > 1, (&W{}).Int(6).Ints(s).Int(x))
		}
		for _, p := range [][2]int{{0, 0}, {1, 0}, {2, 0}, {3, 1}, {3, 2}, {4, 0}, {4, 2}} {
			for _, fn := range []int{3, 4, 5, 7, 8} {
				emit("exhaustive", n > 1, (&W{}).Int(fn).Int(p[0]).Int(p[1]).Ints(s))
			}
		}
		for _, fn := range []int{9, 10, 11, 12, 18, 20, 21} {
			emit("exhaustive", n > 1, (&W{}).Int(fn).Ints(s))
		}
		for k := 0; k <= 4; k++ {
			for _, fn := range []int{13, 14, 19} {
				emit("exhaustive", n > 1, (&W{}).Int(fn).Int(k).Ints(s))
			}
		}
		for i := -n - 2; i <= n+2; i++ {
			emit("exhaustive", true, (&W{}).Int(17).Ints(s).Int(i))
		}
	})
	// all int8 triples for Clamp / InRange, all int8 for Abs  (thorough: full; quick: stride)
	stride := g.Pick(9, 4)
	for n := -128; n <= 127; n += stride {
		for lo := -128; lo <= 127; lo += stride {
			for hi := -128; hi <= 127; hi += stride {
				emit("exhaustive", lo <= hi, (&W{}).Int(23).Int(n).Int(lo).Int(hi))
				emit("exhaustive", true, (&W{}).Int(24).Int(n).Int(lo).Int(hi))
			}
		}
	}
	// every boundary configuration n in {lo-1, lo, lo+1, hi-1, hi, hi+1} for all int8 lo <= hi (thorough) / stride 5 (quick)
	bs := g.Pick(5, 1)
	for lo := -128; lo <= 127; lo += bs {
		for hi := lo; hi <= 127; hi += bs {
			for _, n := range []int{lo - 1, lo, lo + 1, hi - 1, hi, hi + 1} {
				if n < -128 || n > 127 {
					continue
				}
				emit("exhaustive", true, (&W{}).Int(23).Int(n).Int(lo).Int(hi))
				emit("exhaustive", true, (&W{}).Int(24).Int(n).Int(lo).Int(hi))
			}
		}
	}
	for x := -128; x <= 127; x++ {
		emit("exhaustive", true, (&W{}).Int(22).Int(x))
		emit("exhaustive", true, (&W{}).Int(25).Int(x))
	}
	for a := -2; a <= 2; a++ {
		for b := -2; b <= 2; b++ {
			emit("exhaustive", true, (&W{}).Int(26).Int(0).Int(a).Int(b))
			emit("exhaustive", true, (&W{}).Int(26).Int(1).Int(a).Int(b))
			emit("exhaustive", true, (&W{}).Int(27).Int(a).Int(b))
			emit("exhaustive", true, (&W{}).Int(28).Int(a).Int(b))
		}
	}
	// Range / RangeRight: all (start, step, end) in a cube, plus 0/1/2/4 arguments
	rb := g.Pick(6, 10)
	for a := -rb; a <= rb; a++ {
		emit("exhaustive", true, (&W{}).Int(29).Ints([]int{a}))
		emit("exhaustive", true, (&W{}).Int(30).Ints([]int{a}))
		for b := -rb; b <= rb; b++ {
			emit("exhaustive", true, (&W{}).Int(29).Ints([]int{a, b}))
			emit("exhaustive", true, (&W{}).Int(30).Ints([]int{a, b}))
			for c := -rb; c <= rb; c++ {
				emit("exhaustive", true, (&W{}).Int(29).Ints([]int{a, b, c}))
				if (a+b+c)%2 == 0 {
					emit("exhaustive", true, (&W{}).Int(30).Ints([]int{a, b, c}))
				}
			}
		}
	}
	emit("malformed", true, (&W{}).Int(29).Ints([]int{}))
	emit("malformed", true, (&W{}).Int(29).Ints([]int{1, 2, 3, 4}))
	emit("malformed", true, (&W{}).Int(30).Ints([]int{1, 1, 9, 4, 5}))
	// ByKey: all lists of up to 3 maps over keys {0,1} × values {-1,0,2}, probing keys 0..2
	oneMaps := [][]int{{}, {0, -1}, {0, 2}, {1, 0}, {0, 0, 1, 2}, {0, 2, 1, -1}}
	seqsUpTo(len(oneMaps), g.Pick(3, 4), func(seq []int) {
		ms := make([][]int, len(seq))
		for i, v := range seq {
			ms[i] = oneMaps[v]
		}
		for key := 0; key <= 2; key++ {
			emit("exhaustive", len(ms) > 1, (&W{}).Int(15).Int(key).Intss(ms))
			emit("exhaustive", len(ms) > 1, (&W{}).Int(16).Int(key).Intss(ms))
		}
	})
	g.Exhaustive("exhaustive")
	// --- seeded random larger inputs ---
	nr := g.Pick(3000, 30000)
	for i := 0; i < nr; i++ {
		s := randSlice(g.Rng, 24, -50, 50)
		fn := []int{1, 2, 3, 4, 5, 6, 7, 8, 9, 10, 11, 12, 13, 14, 17, 18, 19, 20, 21, 29, 30}[g.Rng.Intn(21)]
		w := (&W{}).Int(fn)
		switch fn {
		case 1, 2, 6:
			x := g.Rng.Intn(101) - 50
			if len(s) > 0 && g.Rng.Intn(2) == 0 {
				x = s[g.Rng.Intn(len(s))]
			}
			w.Ints(s).Int(x)
		case 3, 4, 5, 7, 8:
			w.Int(g.Rng.Intn(5)).Int(g.Rng.Intn(41) - 20).Ints(s)
		case 9, 10, 11, 12, 18, 20, 21:
			w.Ints(s)
		case 13, 14, 19:
			w.Int(g.Rng.Intn(5)).Ints(s)
		case 17:
			w.Ints(s).Int(g.Rng.Intn(2*len(s)+6) - len(s) - 3)
		case 29, 30:
			k := 1 + g.Rng.Intn(3)
			a := make([]int, k)
			for j := range a {
				a[j] = g.Rng.Intn(81) - 40
			}
			w.Ints(a)
		}
		emit("random", true, w)
	}
}

func init() {
	register(&Prop{ID: "C13", Exec: execC13, Gen: genC13, Describe: describeC13,
		Rule: "exhaustive: every slice of length <= 4 (thorough 6) over {-1,0,1,2} x every probe in [-2,3] / predicate family / key family / index in [-len-2,len+2]; int8 cube for Clamp/InRange (stride 9 quick, 4 thorough) plus every boundary probe n in {lo-1..lo+1,hi-1..hi+1} for int8 lo<=hi (stride 5 quick, all thorough) and all int8 for Abs; (start,step,end) in [-6,6]^3 (thorough [-10,10]^3) for Range; lists of <= 3 maps for ByKey; then seeded random slices up to length 24 over [-50,50]. non-trivial = slice longer than 1 element, or any index/range/clamp probe; distinct = distinct wire input"})
}
