package main

import (
	"strconv"
	"fmt"
	"math"
	"strings"

	"github.com/esimov/gogu"
)

// C13, float64 instantiations (mirror of c13f_run in coq/theories/C13_Wire.v; model C13_ModelFloat.v).
// A float64 travels as its 64-bit pattern read as an int64; every NaN the code returns is canonicalised to the
// one pattern 0x7FF8000000000000 (Go does not define NaN payloads).  Nothing is computed on the harness side:
// the real functions are called at T = float64 and the bits of their results are written out.
//
//	50 Sum zs        51 SumBy k zs     52 Mean zs        53 Min zs...      54 Max zs...
//	55 FindMin zs    56 FindMax zs     57 FindMinBy k zs 58 FindMaxBy k zs 59 Abs x
//	60 Clamp n lo hi 61 InRange n lo hi 62 Compare cmp a b 63 Less a b     64 Equal a b
//	65 Range args    66 RangeRight args 67 FindMinByKey key maps  68 FindMaxByKey key maps
//
// key functions k: 0 id, 1 -x, 2 const +0, 3 math.Abs;  comparators: 0 (<), 1 (>)

const c13NaNBits = 0x7FF8000000000000

func c13FBits(x float64) int64 {
	if x != x {
		return c13NaNBits
	}
	return int64(math.Float64bits(x))
}

func c13F(v int) float64 { return math.Float64frombits(uint64(v)) }

func c13Fs(vs []int) []float64 {
	out := make([]float64, len(vs))
	for i, v := range vs {
		out[i] = c13F(v)
	}
	return out
}

func c13FKey(c int) func(float64) float64 {
	switch c {
	case 0:
		return func(x float64) float64 { return x }
	case 1:
		return func(x float64) float64 { return -x }
	case 2:
		return func(float64) float64 { return 0 }
	default:
		return math.Abs
	}
}

func c13IsFloatFn(fn int) bool { return fn >= 50 && fn <= 68 }

// execC13Float is called from execC13Direct (inside its try) for fn 50..68.
func execC13Float(fn int, r *R) []int64 {
	one := func(x float64) []int64 { return []int64{c13FBits(x)} }
	switch fn {
	case 50:
		return one(gogu.Sum(c13Fs(r.Ints())))
	case 51:
		k, s := r.Int(), c13Fs(r.Ints())
		return one(gogu.SumBy(s, c13FKey(k)))
	case 52:
		return one(gogu.Mean(c13Fs(r.Ints())))
	case 53:
		return one(gogu.Min(c13Fs(r.Ints())...))
	case 54:
		return one(gogu.Max(c13Fs(r.Ints())...))
	case 55:
		return one(gogu.FindMin(c13Fs(r.Ints())))
	case 56:
		return one(gogu.FindMax(c13Fs(r.Ints())))
	case 57:
		k, s := r.Int(), c13Fs(r.Ints())
		return one(gogu.FindMinBy(s, c13FKey(k)))
	case 58:
		k, s := r.Int(), c13Fs(r.Ints())
		return one(gogu.FindMaxBy(s, c13FKey(k)))
	case 59:
		return one(gogu.Abs(c13F(r.Int())))
	case 60:
		n, lo, hi := c13F(r.Int()), c13F(r.Int()), c13F(r.Int())
		return one(gogu.Clamp(n, lo, hi))
	case 61:
		n, lo, hi := c13F(r.Int()), c13F(r.Int()), c13F(r.Int())
		return []int64{b2i(gogu.InRange(n, lo, hi))}
	case 62:
		c, a, b := r.Int(), c13F(r.Int()), c13F(r.Int())
		cmp := func(x, y float64) bool { return x < y }
		if c != 0 {
			cmp = func(x, y float64) bool { return x > y }
		}
		return []int64{int64(gogu.Compare(a, b, cmp))}
	case 63:
		a, b := c13F(r.Int()), c13F(r.Int())
		return []int64{b2i(gogu.Less(a, b))}
	case 64:
		a, b := c13F(r.Int()), c13F(r.Int())
		return []int64{b2i(gogu.Equal(a, b))}
	case 65, 66:
		// the float64 instance of Range is a NAMED float64 with a String method (a unit type): the
		// two-decimal rounding of the terms must not depend on the type being the built-in one
		raw := c13Fs(r.Ints())
		args := make([]c13Meters, len(raw))
		for i, x := range raw {
			args[i] = c13Meters(x)
		}
		var l []c13Meters
		var err error
		if fn == 65 {
			l, err = gogu.Range(args...)
		} else {
			l, err = gogu.RangeRight(args...)
		}
		if err != nil {
			return resErr(1)
		}
		out := []int64{0, int64(len(l))}
		for _, x := range l {
			out = append(out, c13FBits(float64(x)))
		}
		return out
	case 67, 68:
		key, flat := r.Int(), r.Intss()
		ms := make([]map[int]float64, len(flat))
		for i, f := range flat {
			ms[i] = map[int]float64{}
			for j := 0; j+1 < len(f); j += 2 {
				ms[i][f[j]] = c13F(f[j+1])
			}
		}
		var v float64
		var err error
		if fn == 67 {
			v, err = gogu.FindMinByKey(ms, key)
		} else {
			v, err = gogu.FindMaxByKey(ms, key)
		}
		if err != nil {
			return resErr(1)
		}
		return resOk(c13FBits(v))
	}
	return []int64{-1}
}

// c13FloatRangeShape classifies a Range[float64] call WITHOUT calling the code under test, by running the
// bare counter of the loops of range.go (i += step / i -= |step| in float64, until the counter reaches end or
// stops moving): "err" (the arguments are rejected), "ends" with an upper bound of the number of terms, "long"
// (more than max iterations).  It only decides which cases are sent; the judgement is the Coq model's.
func c13FloatRangeShape(args []float64, max int) (string, int) {
	var start, step, end float64
	switch len(args) {
	case 0:
		return "ends", 0
	case 1:
		step, end = 1, args[0]
	case 2:
		start, step, end = args[0], 1, args[1]
	case 3:
		start, step, end = args[0], args[1], args[2]
		if (start > end && end > 0) || step == 0 || (step < 0 && end > start) {
			return "err", 0
		}
	default:
		return "err", 0
	}
	n := 0
	if end > 0 {
		for i := start; i < end; i += step {
			n++
			if !(i+step > i) {
				break
			}
			if n > max {
				return "long", n
			}
		}
	} else {
		a := math.Abs(step)
		for i := start; end < i; i -= a {
			n++
			if !(i-a < i) {
				break
			}
			if n > max {
				return "long", n
			}
		}
	}
	return "ends", n
}

func c13FInts(fs []float64) []int {
	out := make([]int, len(fs))
	for i, x := range fs {
		out[i] = int(c13FBits(x))
	}
	return out
}

// the special values of the brief, and a few more: both zeros, ones, the decimal fractions that are not binary
// fractions, the largest / smallest magnitudes, infinities, NaN, the first integers float64 cannot tell apart
// (NaN comes third: every "first k values" sub-alphabet below must contain it)
var c13FSpecial = []float64{math.Copysign(0, -1), 0, math.NaN(), 1, -1, 0.1, 0.2, 0.3, 1e308, -1e308, 5e-324, math.Inf(1), math.Inf(-1),
	1 << 53, 1<<53 + 2, 0.5, 1.5, -5e-324, math.MaxFloat64, 0x1p-1022}

// c13Meters: a float64 with a String method, as unit types have
type c13Meters float64

func (m c13Meters) String() string { return "about " + strconv.Itoa(int(m)) + " m" }

func genC13Float(g *Gen, emit func(stream string, nt bool, w *W)) {
	sp := c13FSpecial
	slicesOfFloats := func(alpha []float64, maxLen int, fn func(s []float64)) {
		seqsUpTo(len(alpha), maxLen, func(seq []int) {
			s := make([]float64, len(seq))
			for i, v := range seq {
				s[i] = alpha[v]
			}
			fn(s)
		})
	}
	// --- exhaustive: every slice of length <= 2 over the 20 special values and of length 3 over the first 13
	// (thorough: length 3 over all 20, length 4 over the first 15) for the six plain aggregates / extrema; every
	// slice of length <= 2, and of length 3 over the first 7 (thorough 14), x 4 key functions for SumBy /
	// FindMinBy / FindMaxBy
	plain := func(s []float64) {
		for _, fn := range []int{50, 52, 53, 54, 55, 56} {
			emit("float", len(s) > 1, (&W{}).Int(fn).Ints(c13FInts(s)))
		}
	}
	keyed := func(s []float64) {
		for k := 0; k <= 3; k++ {
			for _, fn := range []int{51, 57, 58} {
				emit("float", len(s) > 1, (&W{}).Int(fn).Int(k).Ints(c13FInts(s)))
			}
		}
	}
	slicesOfFloats(sp, 2, plain)
	seqsExact(g.Pick(13, 20), 3, func(seq []int) {
		s := make([]float64, 3)
		for i, v := range seq {
			s[i] = sp[v]
		}
		plain(s)
	})
	if !g.Quick() {
		seqsExact(15, 4, func(seq []int) {
			s := make([]float64, 4)
			for i, v := range seq {
				s[i] = sp[v]
			}
			plain(s)
		})
	}
	slicesOfFloats(sp, 2, keyed)
	seqsExact(g.Pick(7, 14), 3, func(seq []int) {
		s := make([]float64, 3)
		for i, v := range seq {
			s[i] = sp[v]
		}
		keyed(s)
	})
	// Abs, Compare/Less/Equal over all singles / pairs of the special values; Clamp/InRange over all triples of
	// the first 12 (thorough: all 20)
	nc := g.Pick(13, 20)
	for ia, a := range sp {
		emit("float", true, (&W{}).Int(59).I64(c13FBits(a)))
		emit("float", true, (&W{}).Int(59).I64(c13FBits(-a)))
		for ib, b := range sp {
			emit("float", true, (&W{}).Int(62).Int(0).I64(c13FBits(a)).I64(c13FBits(b)))
			emit("float", true, (&W{}).Int(62).Int(1).I64(c13FBits(a)).I64(c13FBits(b)))
			emit("float", true, (&W{}).Int(63).I64(c13FBits(a)).I64(c13FBits(b)))
			emit("float", true, (&W{}).Int(64).I64(c13FBits(a)).I64(c13FBits(b)))
			for ic, c := range sp {
				if ia >= nc || ib >= nc || ic >= nc {
					continue
				}
				emit("float", b <= c, (&W{}).Int(60).I64(c13FBits(a)).I64(c13FBits(b)).I64(c13FBits(c)))
				emit("float", true, (&W{}).Int(61).I64(c13FBits(a)).I64(c13FBits(b)).I64(c13FBits(c)))
			}
		}
	}
	// ByKey at map[int]float64: lists of <= 3 maps over keys {0,1} and values {NaN, -0, +0, 1, -1, +Inf} (quick:
	// the first 7 of the 10 one-map shapes)
	nz, nan, inf := int(c13FBits(math.Copysign(0, -1))), int(c13FBits(math.NaN())), int(c13FBits(math.Inf(1)))
	f1, fm1 := int(c13FBits(1)), int(c13FBits(-1))
	oneMaps := [][]int{{}, {0, nan}, {0, nz}, {0, 0}, {0, f1}, {0, fm1}, {0, inf}, {1, f1}, {0, nan, 1, f1}, {0, f1, 1, nan}}
	seqsUpTo(g.Pick(7, len(oneMaps)), 3, func(seq []int) {
		ms := make([][]int, len(seq))
		for i, v := range seq {
			ms[i] = oneMaps[v]
		}
		for key := 0; key <= 1; key++ {
			emit("float", len(ms) > 1, (&W{}).Int(67).Int(key).Intss(ms))
			emit("float", len(ms) > 1, (&W{}).Int(68).Int(key).Intss(ms))
		}
	})
	// Range / RangeRight: every single, pair and triple over 24 values (quick: triples over the first 14) that
	// ends within 100 (thorough 3000) iterations or is rejected
	rv := []float64{math.Copysign(0, -1), 0, 1, -1, 0.1, 0.3, 2, -0.001, 0.005, 2.675,
		math.NaN(), math.Inf(1), 1 << 53, 1<<53 + 2, math.Inf(-1), 0.2, 0.5, 5e-324, 1e308, 1.5, 3, -2, 10, 0.01}
	nt := g.Pick(14, 24)
	maxIt := g.Pick(100, 3000)
	rangeCase := func(fn int, args []float64) {
		sh, _ := c13FloatRangeShape(args, maxIt)
		if sh == "long" {
			g.Count("float_range_case_skipped_too_many_terms")
			return
		}
		g.Count("float_range_" + sh)
		emit("float", true, (&W{}).Int(fn).Ints(c13FInts(args)))
	}
	rangeCase(65, nil)
	rangeCase(65, []float64{1, 2, 3, 4})
	for ia, a := range rv {
		rangeCase(65, []float64{a})
		rangeCase(66, []float64{a})
		for ib, b := range rv {
			rangeCase(65, []float64{a, b})
			rangeCase(66, []float64{a, b})
			for ic, c := range rv {
				if ia >= nt || ib >= nt || ic >= nt {
					continue
				}
				rangeCase(65, []float64{a, b, c})
				if (ia+ib+ic)%3 == 0 {
					rangeCase(66, []float64{a, b, c})
				}
			}
		}
	}
	g.Exhaustive("float")
	// --- seeded random: raw bit patterns, and "ordinary" doubles (decimal fractions, integers, mixed magnitudes)
	rbits := func() float64 { return math.Float64frombits(g.Rng.Uint64()) }
	ordinary := func() float64 {
		switch g.Rng.Intn(6) {
		case 0:
			return float64(g.Rng.Intn(2001)-1000) / 100 // cents
		case 1:
			return float64(g.Rng.Intn(201)-100) / 10 // tenths
		case 2:
			return g.Rng.NormFloat64()
		case 3:
			return g.Rng.NormFloat64() * math.Pow(10, float64(g.Rng.Intn(40)-20))
		case 4:
			return float64(g.Rng.Int63n(1<<54) - 1<<53) // integers around 2^53
		default:
			return g.Rng.Float64()
		}
	}
	pick := func() float64 {
		switch g.Rng.Intn(10) {
		case 0:
			return rbits()
		case 1:
			return sp[g.Rng.Intn(len(sp))]
		default:
			return ordinary()
		}
	}
	nr := g.Pick(2500, 60000)
	for i := 0; i < nr; i++ {
		gen := pick
		if i%3 == 0 {
			gen = rbits
		} else if i%3 == 1 {
			gen = ordinary
		}
		n := g.Rng.Intn(13)
		if i%50 == 0 {
			n = 100 + g.Rng.Intn(400)
		}
		s := make([]float64, n)
		for j := range s {
			s[j] = gen()
		}
		fn := []int{50, 51, 52, 53, 54, 55, 56, 57, 58, 59, 60, 61, 62, 63, 64, 50, 52}[g.Rng.Intn(17)]
		w := (&W{}).Int(fn)
		switch fn {
		case 50, 52, 53, 54, 55, 56:
			w.Ints(c13FInts(s))
		case 51, 57, 58:
			w.Int(g.Rng.Intn(4)).Ints(c13FInts(s))
		case 59:
			w.I64(c13FBits(gen()))
		case 60, 61:
			a, b, c := gen(), gen(), gen()
			if b > c && g.Rng.Intn(4) != 0 {
				b, c = c, b
			}
			if g.Rng.Intn(4) == 0 {
				a = []float64{b, c, math.Nextafter(b, c), math.Nextafter(c, b), math.Nextafter(b, math.Inf(-1)), math.Nextafter(c, math.Inf(1))}[g.Rng.Intn(6)]
			}
			w.I64(c13FBits(a)).I64(c13FBits(b)).I64(c13FBits(c))
		case 62:
			a, b := gen(), gen()
			if g.Rng.Intn(4) == 0 {
				b = a
			}
			w.Int(g.Rng.Intn(2)).I64(c13FBits(a)).I64(c13FBits(b))
		case 63, 64:
			a, b := gen(), gen()
			if g.Rng.Intn(4) == 0 {
				b = a
			}
			w.I64(c13FBits(a)).I64(c13FBits(b))
		}
		emit("float", true, w)
	}
	// random ordinary ranges: start / end in cents or tenths, steps from 0.01 to 2.5, both directions
	steps := []float64{0.01, 0.02, 0.05, 0.1, 0.2, 0.25, 0.3, 0.7, 1, 1.1, 2.5, 1.0 / 3, 0.001, 0.015}
	for i := 0; i < g.Pick(800, 15000); i++ {
		a := float64(g.Rng.Intn(1001)-500) / 100
		st := steps[g.Rng.Intn(len(steps))]
		k := g.Rng.Intn(40)
		var args []float64
		switch g.Rng.Intn(4) {
		case 0: // ascending, end = start + k steps written as a decimal
			args = []float64{a, st, math.Round((a+float64(k)*st)*1000) / 1000}
		case 1: // descending
			args = []float64{a, -st, math.Round((a-float64(k)*st)*1000) / 1000}
		case 2:
			args = []float64{a, st, ordinary()}
		default:
			args = []float64{ordinary(), pick(), ordinary()}
		}
		if g.Rng.Intn(8) == 0 {
			args = args[:1+g.Rng.Intn(2)]
		}
		rangeCase(65+g.Rng.Intn(2), args)
	}
}

// describeC13Float shows the bit patterns of a float case as the float64 values they denote.
func describeC13Float(in []int64) string {
	fn, a := int(in[0]), in[1:]
	var sb strings.Builder
	sb.WriteString(c13Names[fn] + "(")
	fl := func(vs []int64) {
		for i, v := range vs {
			if i > 0 {
				sb.WriteString(", ")
			}
			fmt.Fprintf(&sb, "%v", math.Float64frombits(uint64(v)))
		}
	}
	switch fn {
	case 50, 52, 53, 54, 55, 56, 65, 66:
		if len(a) > 0 {
			fl(a[1:])
		}
	case 51, 57, 58:
		if len(a) > 1 {
			fmt.Fprintf(&sb, "key function %d; ", a[0])
			fl(a[2:])
		}
	case 62:
		if len(a) > 0 {
			fmt.Fprintf(&sb, "comparator %d; ", a[0])
			fl(a[1:])
		}
	case 67, 68:
		fmt.Fprintf(&sb, "wire %v", a)
	default:
		fl(a)
	}
	return sb.String() + fmt.Sprintf(")  wire %v", in)
}
