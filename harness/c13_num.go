package main

// c13_num.go: the decimal codec under Range, called directly - gogu.NumToString and gogu.N at
// int64 (plain int), int8 (c13Level, a named int8 WITH a String method, as enum-like types have),
// uint8 and uint64 - against coq/theories/C13_ModelNum.v (wire functions 70..77, C13_Wire.v).
//
//	70 NumToString[int] x      71 NumToString[c13Level] x   72 NumToString[uint8] x   76 NumToString[uint64] x
//	73 N[int] text             74 N[c13Level] text          75 N[uint8] text          77 N[uint64] text
//	78 Bound[int]{lo,hi}.Enclose(n)                         79 Bound[int8]{lo,hi}.Enclose(n)
//
// A text travels as the list of its bytes; a uint64 as the int64 with the same bits; an error
// of N (whatever its kind) as [1 1], with the zero value it returns beside it ignored.

import (
	"math"
	"strconv"

	"github.com/esimov/gogu"
)

func c13IsNumFn(fn int) bool { return fn >= 70 && fn <= 79 }

func c13TextOut(s string) []int64 {
	out := []int64{int64(len(s))}
	for i := 0; i < len(s); i++ {
		out = append(out, int64(s[i]))
	}
	return out
}

// execC13Num is called from execC13Direct (inside its try) for fn 70..77.
func execC13Num(fn int, r *R) []int64 {
	switch fn {
	case 70:
		return c13TextOut(gogu.NumToString(r.Int()))
	case 71:
		return c13TextOut(gogu.NumToString(c13Level(r.Int())))
	case 72:
		return c13TextOut(gogu.NumToString(uint8(r.Int())))
	case 76:
		return c13TextOut(gogu.NumToString(uint64(r.Int())))
	case 78: // Bound[int]{lo, hi}.Enclose(n)
		lo, hi, n := r.Int(), r.Int(), r.Int()
		return []int64{b2i(gogu.Bound[int]{Min: lo, Max: hi}.Enclose(n))}
	case 79: // Bound[int8]{lo, hi}.Enclose(n)
		lo, hi, n := r.Int(), r.Int(), r.Int()
		return []int64{b2i(gogu.Bound[int8]{Min: int8(lo), Max: int8(hi)}.Enclose(int8(n)))}
	case 73:
		v, err := gogu.N[int](r.Bytes())
		if err != nil {
			return resErr(1)
		}
		return resOk(int64(v))
	case 74:
		v, err := gogu.N[c13Level](r.Bytes())
		if err != nil {
			return resErr(1)
		}
		return resOk(int64(v))
	case 75:
		v, err := gogu.N[uint8](r.Bytes())
		if err != nil {
			return resErr(1)
		}
		return resOk(int64(v))
	default:
		v, err := gogu.N[uint64](r.Bytes())
		if err != nil {
			return resErr(1)
		}
		return resOk(int64(v))
	}
}

func genC13Num(g *Gen, emit func(stream string, nt bool, w *W)) {
	// NumToString on every int8 / uint8 value, and N on the text strconv itself writes for it
	for x := -130; x <= 260; x++ {
		if x >= -128 && x <= 127 {
			emit("num", true, (&W{}).Int(71).Int(x))
		}
		if x >= 0 && x <= 255 {
			emit("num", true, (&W{}).Int(72).Int(x))
		}
		emit("num", true, (&W{}).Int(70).Int(x))
		t := strconv.Itoa(x)
		for fn := 73; fn <= 75; fn++ {
			emit("num", true, (&W{}).Int(fn).Bytes(t))
		}
		emit("num", true, (&W{}).Int(77).Bytes(t))
		if x >= 0 {
			emit("num", true, (&W{}).Int(74).Bytes("+"+t))
			emit("num", true, (&W{}).Int(75).Bytes("+"+t))
			emit("num", true, (&W{}).Int(74).Bytes("-"+t))
			emit("num", true, (&W{}).Int(74).Bytes("00"+t))
		}
	}
	// the limits of int64 / uint64 and their neighbours, powers of ten, digit-count boundaries
	ext := []int64{math.MaxInt64, math.MaxInt64 - 1, math.MinInt64, math.MinInt64 + 1, 1 << 31, -(1 << 31), 1<<32 - 1, 1 << 62, -(1 << 62), -1, 0, 1}
	p := int64(1)
	for i := 0; i < 18; i++ {
		p *= 10
		ext = append(ext, p, p-1, p+1, -p, -p+1, -p-1)
	}
	for _, x := range ext {
		emit("num", true, (&W{}).Int(70).I64(x))
		emit("num", true, (&W{}).Int(76).I64(x))
		emit("num", true, (&W{}).Int(73).Bytes(strconv.FormatInt(x, 10)))
		emit("num", true, (&W{}).Int(77).Bytes(strconv.FormatUint(uint64(x), 10)))
		emit("num", true, (&W{}).Int(73).Bytes(strconv.FormatUint(uint64(x), 10)))
		emit("num", true, (&W{}).Int(77).Bytes(strconv.FormatInt(x, 10)))
	}
	// texts around the limits that no value of the type prints as, and malformed texts
	for _, t := range []string{"", "+", "-", "+-1", "-+1", "--1", "++1", "-0", "+0", "00", "007", "-007", "1_0", "_1", "1_",
		"0x10", "0b1", "0o7", "1e2", "1.0", "1.", ".5", " 1", "1 ", "\t1", "1\n", "１", "٣", "a", "1a", "-a", "Inf", "NaN",
		"128", "-129", "127", "-128", "255", "256", "-1", "+255", "+256",
		"9223372036854775807", "9223372036854775808", "-9223372036854775808", "-9223372036854775809",
		"+9223372036854775807", "18446744073709551615", "18446744073709551616", "-18446744073709551615",
		"99999999999999999999", "-99999999999999999999", "000000000000000000000000000001", "340282366920938463463374607431768211456",
		"00000000000000000000128", "-00000000000000000000128", "+00000000000000000000127"} {
		for _, fn := range []int{73, 74, 75, 77} {
			emit("num-malformed", true, (&W{}).Int(fn).Bytes(t))
		}
	}
	// Bound.Enclose called directly: a small cube, the limits of int8 (Abs(-128) = -128) and of int64
	for lo := -3; lo <= 3; lo++ {
		for hi := -3; hi <= 3; hi++ {
			for n := -4; n <= 4; n++ {
				emit("num", true, (&W{}).Int(78).Int(lo).Int(hi).Int(n))
			}
		}
	}
	e8 := []int{-128, -127, -126, -1, 0, 1, 126, 127}
	for _, lo := range e8 {
		for _, hi := range e8 {
			for _, n := range e8 {
				emit("num", true, (&W{}).Int(79).Int(lo).Int(hi).Int(n))
			}
		}
	}
	e64 := []int64{math.MinInt64, math.MinInt64 + 1, -1, 0, 1, math.MaxInt64 - 1, math.MaxInt64}
	for _, lo := range e64 {
		for _, hi := range e64 {
			for _, n := range e64 {
				emit("num", true, (&W{}).Int(78).I64(lo).I64(hi).I64(n))
			}
		}
	}
	// seeded random values and texts: mostly digit strings of every length up to 22, some noise
	alpha := "0123456789012345678901234567890123456789+-_ .ex"
	for i := 0; i < g.Pick(600, 6000); i++ {
		x := int64(g.Rng.Uint64()) >> uint(g.Rng.Intn(64))
		emit("num", true, (&W{}).Int(70).I64(x))
		emit("num", true, (&W{}).Int(76).I64(x))
		emit("num", true, (&W{}).Int(73+g.Rng.Intn(3)).Bytes(strconv.FormatInt(x, 10)))
		n := g.Rng.Intn(23)
		b := make([]byte, 0, n+1)
		switch g.Rng.Intn(4) {
		case 0:
			b = append(b, '-')
		case 1:
			b = append(b, '+')
		}
		lim := 40
		if g.Rng.Intn(4) == 0 {
			lim = len(alpha)
		}
		for j := 0; j < n; j++ {
			b = append(b, alpha[g.Rng.Intn(lim)])
		}
		fn := []int{73, 74, 75, 77}[g.Rng.Intn(4)]
		emit("num-malformed", true, (&W{}).Int(fn).Bytes(string(b)))
	}
}
