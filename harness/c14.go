package main

import (
	"fmt"
	"math"
	"sort"

	"github.com/esimov/gogu"
)

// C14 wire input: fn :: args (mirror of coq/theories/C14_Wire.v).  A map is
// written as enc_zs of k1 v1 k2 v2 ...; a list of maps as enc_zss of those.
//
//	 1 Keys m                  2 Values m               3 Pick m ks             4 PickBy c a m
//	 5 FilterMap c a m         6 Omit m ks              7 OmitBy c a m          8 MapValues c m
//	 9 MapKeys c m            10 Invert m              11 Find c a m           12 FindKey c a m
//	13 FindByKey c a m        14 Pluck key ms          15 MapUnique m          16 MapEvery c a m
//	17 MapSome c a m          18 MapContains v m       19 SliceToMap s1 s2     20 FilterMapCollection c a ms
//	21 Filter2DMapCollection c a coll                  22 PartitionMap c a ms  23 MapCollection c m
//	24 MapUnique[int,float64] m   25 Invert[int,float64] m   26 MapContains[int,float64] v m
//	   (24-26: a wire value v is passed as the float64 v/4 and results are multiplied by 4 - exact; no NaN)
//	101-123: helper (fn - 100) at map[float64]float64 with NaN among keys and values: c14nan.go
//
// value predicates (c,a): 0 true, 1 false, 2 even, 3 (< a), 4 (== a), 5 (> a)
// key/value predicates:   0 true, 1 false, 2 k<a, 3 v==a, 4 k+v even, 5 k==a
// value functions:        0 id, 1 v*2, 2 const 7, 3 -v, 4 v%2
// key functions:          0 k, 1 k%2, 2 const 0, 3 k+v, 4 v, 5 k+10
// map predicates:         0 true, 1 false, 2 len>=2, 3 has key a, 4 some value == a, 5 sum of values even
//
// Observation: the helper is called several times on maps built in different
// insertion orders (Go additionally randomises where each range loop starts);
// every outcome is canonicalised (result maps sorted by key; Keys / Values /
// MapCollection sorted) and the DISTINCT outcomes are listed, sorted, each as a
// length-prefixed blob (enc_zss).
func c14VPred(c, a int) func(int) bool {
	switch c {
	case 0:
		return func(int) bool { return true }
	case 1:
		return func(int) bool { return false }
	case 2:
		return func(x int) bool { return x%2 == 0 }
	case 3:
		return func(x int) bool { return x < a }
	case 4:
		return func(x int) bool { return x == a }
	default:
		return func(x int) bool { return x > a }
	}
}

func c14KVPred(c, a int) func(int, int) bool {
	switch c {
	case 0:
		return func(int, int) bool { return true }
	case 1:
		return func(int, int) bool { return false }
	case 2:
		return func(k, _ int) bool { return k < a }
	case 3:
		return func(_, v int) bool { return v == a }
	case 4:
		return func(k, v int) bool { return (k+v)%2 == 0 }
	default:
		return func(k, _ int) bool { return k == a }
	}
}

func c14VFun(c int) func(int) int {
	switch c {
	case 0:
		return func(v int) int { return v }
	case 1:
		return func(v int) int { return v * 2 }
	case 2:
		return func(int) int { return 7 }
	case 3:
		return func(v int) int { return -v }
	default:
		return func(v int) int { return v % 2 }
	}
}

func c14KFun(c int) func(int, int) int {
	switch c {
	case 0:
		return func(k, _ int) int { return k }
	case 1:
		return func(k, _ int) int { return k % 2 }
	case 2:
		return func(int, int) int { return 0 }
	case 3:
		return func(k, v int) int { return k + v }
	case 4:
		return func(_, v int) int { return v }
	default:
		return func(k, _ int) int { return k + 10 }
	}
}

func c14MPred(c, a int) func(map[int]int) bool {
	switch c {
	case 0:
		return func(map[int]int) bool { return true }
	case 1:
		return func(map[int]int) bool { return false }
	case 2:
		return func(m map[int]int) bool { return len(m) >= 2 }
	case 3:
		return func(m map[int]int) bool { _, ok := m[a]; return ok }
	case 4:
		return func(m map[int]int) bool {
			for _, v := range m {
				if v == a {
					return true
				}
			}
			return false
		}
	default:
		return func(m map[int]int) bool {
			s := 0
			for _, v := range m {
				s += v
			}
			return s%2 == 0
		}
	}
}

// kthPerm returns the k-th permutation (factoradic) of 0..n-1.
func kthPerm(n, k int) []int {
	pool := make([]int, n)
	for i := range pool {
		pool[i] = i
	}
	out := make([]int, 0, n)
	for i := n; i >= 1; i-- {
		f := 1
		for j := 2; j < i; j++ {
			f *= j
		}
		idx := (k / f) % i
		k %= f
		out = append(out, pool[idx])
		pool = append(pool[:idx], pool[idx+1:]...)
	}
	return out
}

// buildMap inserts the entries of flat (k v k v ...) in the rep-th insertion order.
func buildMap(flat []int, rep int) map[int]int {
	n := len(flat) / 2
	m := make(map[int]int)
	var order []int
	if n <= 4 {
		order = kthPerm(n, rep)
	} else { // rotate, and reverse on odd repetitions
		order = make([]int, n)
		for i := range order {
			j := (i + rep*3) % n
			if rep%2 == 1 {
				j = n - 1 - j
			}
			order[i] = j
		}
	}
	for _, i := range order {
		m[flat[2*i]] = flat[2*i+1]
	}
	return m
}

func flatOfMap(m map[int]int) []int {
	ks := make([]int, 0, len(m))
	for k := range m {
		ks = append(ks, k)
	}
	sort.Ints(ks)
	out := make([]int, 0, 2*len(ks))
	for _, k := range ks {
		out = append(out, k, m[k])
	}
	return out
}

func (b *W) Map(m map[int]int) *W { return b.Ints(flatOfMap(m)) }
func (b *W) Maps(ms []map[int]int) *W {
	b.Int(len(ms))
	for _, m := range ms {
		b.Map(m)
	}
	return b
}
func sortedCopy(s []int) []int {
	c := cloneInts(s)
	sort.Ints(c)
	return c
}

// a two-dimensional collection on the wire: count; per item: count; per entry: key, inner map
func readColl2(r *R) [][]c14Entry2 {
	n := r.Int()
	if n < 0 || n > 1000 {
		r.bad = true
		return nil
	}
	out := make([][]c14Entry2, n)
	for i := range out {
		e := r.Int()
		if e < 0 || e > 1000 {
			r.bad = true
			return nil
		}
		out[i] = make([]c14Entry2, e)
		for j := range out[i] {
			out[i][j] = c14Entry2{r.Int(), r.Ints()}
		}
	}
	return out
}

type c14Entry2 struct {
	k     int
	inner []int
}

func (b *W) Coll2(coll []map[int]map[int]int) *W {
	b.Int(len(coll))
	for _, item := range coll {
		ks := make([]int, 0, len(item))
		for k := range item {
			ks = append(ks, k)
		}
		sort.Ints(ks)
		b.Int(len(ks))
		for _, k := range ks {
			b.Int(k).Map(item[k])
		}
	}
	return b
}

// mapsFor builds the list-of-maps argument; on odd repetitions an empty map is passed as a nil map
// (ranging over either is a no-op: the helpers must treat them alike).
func mapsFor(flats [][]int, rep int) []map[int]int {
	ms := make([]map[int]int, len(flats))
	for i, f := range flats {
		if len(f) == 0 && rep%2 == 1 {
			ms[i] = nil
			continue
		}
		ms[i] = buildMap(f, rep)
	}
	return ms
}

func c14Open(fn int) bool {
	return fn == 9 || fn == 10 || fn == 12 || fn == 13 || fn == 15 || fn == 24 || fn == 25 ||
		fn == 109 || fn == 110 || fn == 111 || fn == 112 || fn == 113 || fn == 115
}

// c14Once runs the helper once, with maps built in the rep-th insertion order.
func c14Once(in []int64, rep int) []int64 {
	r := &R{w: in}
	fn := r.Int()
	var res []int64
	panicked := try(func() {
		if fn > 100 { // stream `nan`: the helpers at map[float64]float64 (c14nan.go)
			res = c14OnceNaN(fn, r, rep)
			return
		}
		switch fn {
		case 1:
			res = (&W{}).Ints(sortedCopy(gogu.Keys(buildMap(r.Ints(), rep)))).Out()
		case 2:
			res = (&W{}).Ints(sortedCopy(gogu.Values(buildMap(r.Ints(), rep)))).Out()
		case 3:
			m, ks := buildMap(r.Ints(), rep), r.Ints()
			out, err := gogu.Pick(m, ks...)
			if err != nil {
				res = resErr(1)
			} else {
				res = (&W{}).Int(0).Map(out).Out()
			}
		case 4:
			c, a, m := r.Int(), r.Int(), buildMap(r.Ints(), rep)
			res = (&W{}).Map(gogu.PickBy(m, c14KVPred(c, a))).Out()
		case 5:
			c, a, m := r.Int(), r.Int(), buildMap(r.Ints(), rep)
			res = (&W{}).Map(gogu.FilterMap(m, c14VPred(c, a))).Out()
		case 6:
			m, ks := buildMap(r.Ints(), rep), r.Ints()
			res = (&W{}).Map(gogu.Omit(m, ks...)).Out()
		case 7:
			c, a, m := r.Int(), r.Int(), buildMap(r.Ints(), rep)
			res = (&W{}).Map(gogu.OmitBy(m, c14KVPred(c, a))).Out()
		case 8:
			c, m := r.Int(), buildMap(r.Ints(), rep)
			res = (&W{}).Map(gogu.MapValues(m, c14VFun(c))).Out()
		case 9:
			c, m := r.Int(), buildMap(r.Ints(), rep)
			res = (&W{}).Map(gogu.MapKeys(m, c14KFun(c))).Out()
		case 10:
			res = (&W{}).Map(gogu.Invert(buildMap(r.Ints(), rep))).Out()
		case 11:
			c, a, m := r.Int(), r.Int(), buildMap(r.Ints(), rep)
			res = (&W{}).Map(gogu.Find(m, c14VPred(c, a))).Out()
		case 12:
			c, a, m := r.Int(), r.Int(), buildMap(r.Ints(), rep)
			res = []int64{int64(gogu.FindKey(m, c14VPred(c, a)))}
		case 13:
			c, a, m := r.Int(), r.Int(), buildMap(r.Ints(), rep)
			res = (&W{}).Map(gogu.FindByKey(m, c14VPred(c, a))).Out()
		case 14:
			key, flats := r.Int(), r.Intss()
			ms := mapsFor(flats, rep)
			res = (&W{}).Ints(gogu.Pluck(ms, key)).Out()
		case 15:
			res = (&W{}).Map(gogu.MapUnique(buildMap(r.Ints(), rep))).Out()
		case 16:
			c, a, m := r.Int(), r.Int(), buildMap(r.Ints(), rep)
			res = []int64{b2i(gogu.MapEvery(m, c14VPred(c, a)))}
		case 17:
			c, a, m := r.Int(), r.Int(), buildMap(r.Ints(), rep)
			res = []int64{b2i(gogu.MapSome(m, c14VPred(c, a)))}
		case 18:
			v, m := r.Int(), buildMap(r.Ints(), rep)
			res = []int64{b2i(gogu.MapContains(m, v))}
		case 19:
			s1, s2 := r.Ints(), r.Ints()
			res = (&W{}).Int(0).Map(gogu.SliceToMap(s1, s2)).Out()
		case 20:
			c, a, flats := r.Int(), r.Int(), r.Intss()
			ms := mapsFor(flats, rep)
			res = (&W{}).Maps(gogu.FilterMapCollection(ms, c14VPred(c, a))).Out()
		case 21:
			c, a, raw := r.Int(), r.Int(), readColl2(r)
			coll := make([]map[int]map[int]int, len(raw))
			for i, item := range raw {
				coll[i] = map[int]map[int]int{}
				for j := range item { // insertion order varied by repetition
					e := item[(j+rep)%len(item)]
					coll[i][e.k] = buildMap(e.inner, rep)
				}
			}
			res = (&W{}).Coll2(gogu.Filter2DMapCollection(coll, c14MPred(c, a))).Out()
		case 22:
			c, a, flats := r.Int(), r.Int(), r.Intss()
			ms := mapsFor(flats, rep)
			p := gogu.PartitionMap(ms, c14MPred(c, a))
			res = (&W{}).Maps(p[0]).Maps(p[1]).Out()
		case 23:
			c, m := r.Int(), buildMap(r.Ints(), rep)
			res = (&W{}).Ints(sortedCopy(gogu.MapCollection(m, c14VFun(c)))).Out()
		case 24:
			out := gogu.MapUnique(c14FloatMap(buildMap(r.Ints(), rep)))
			im := make(map[int]int, len(out))
			for k, v := range out {
				im[k] = int(v * 4)
			}
			res = (&W{}).Map(im).Out()
		case 25:
			out := gogu.Invert(c14FloatMap(buildMap(r.Ints(), rep)))
			im := make(map[int]int, len(out))
			for v, k := range out {
				im[int(v*4)] = k
			}
			res = (&W{}).Map(im).Out()
		case 26:
			v, m := r.Int(), buildMap(r.Ints(), rep)
			res = []int64{b2i(gogu.MapContains(c14FloatMap(m), float64(v)/4))}
		default:
			res = []int64{-1}
		}
	})
	if panicked {
		return resPanic()
	}
	return res
}

// c14FloatMap: the same map with float64 values v/4 (exact for the small values the generator uses).
func c14FloatMap(m map[int]int) map[int]float64 {
	out := make(map[int]float64, len(m))
	for k, v := range m {
		out[k] = float64(v) / 4
	}
	return out
}

func lessInts(a, b []int64) bool {
	for i := 0; i < len(a) && i < len(b); i++ {
		if a[i] != b[i] {
			return a[i] < b[i]
		}
	}
	return len(a) < len(b)
}

func execC14(in []int64) []int64 {
	if len(in) == 0 {
		return []int64{-1}
	}
	reps := 8
	if c14Open(int(in[0])) {
		reps = 24
	}
	seen := map[string]bool{}
	var outs [][]int64
	for rep := 0; rep < reps; rep++ {
		o := c14Once(in, rep)
		key := fmt.Sprint(o)
		if !seen[key] {
			seen[key] = true
			outs = append(outs, o)
		}
	}
	sort.Slice(outs, func(i, j int) bool { return lessInts(outs[i], outs[j]) })
	w := (&W{}).Int(len(outs))
	for _, o := range outs {
		w.Int(len(o)).Raw(o)
	}
	return w.Out()
}

var c14Names = map[int]string{1: "Keys", 2: "Values", 3: "Pick", 4: "PickBy", 5: "FilterMap", 6: "Omit", 7: "OmitBy",
	8: "MapValues", 9: "MapKeys", 10: "Invert", 11: "Find", 12: "FindKey", 13: "FindByKey", 14: "Pluck", 15: "MapUnique",
	16: "MapEvery", 17: "MapSome", 18: "MapContains", 19: "SliceToMap", 20: "FilterMapCollection",
	21: "Filter2DMapCollection", 22: "PartitionMap", 23: "MapCollection"}

func describeC14(in []int64) string {
	if len(in) == 0 {
		return ""
	}
	if in[0] > 100 {
		args := make([]string, len(in)-1)
		for i, x := range in[1:] {
			args[i] = fmt.Sprint(x)
			if x == c14NaNCode {
				args[i] = "NaN"
			}
		}
		return fmt.Sprintf("%s[float64,float64]%v  (maps as k v k v ..., lists length-prefixed; callback codes in harness/c14nan.go)", c14Names[int(in[0])-100], args)
	}
	return fmt.Sprintf("%s%v  (maps as k v k v ..., lists length-prefixed; callback codes in harness/c14.go)", c14Names[int(in[0])], in[1:])
}

// allMaps enumerates every map with at most maxEntries entries over keys 0..nk-1 and values vals,
// as flat k v lists sorted by key, fewest entries first.
func allMaps(nk int, vals []int, maxEntries int) [][]int {
	var out [][]int
	for size := 0; size <= maxEntries; size++ {
		seqsExact(len(vals)+1, nk, func(seq []int) {
			cnt := 0
			for _, v := range seq {
				if v > 0 {
					cnt++
				}
			}
			if cnt != size {
				return
			}
			f := []int{}
			for k, v := range seq {
				if v > 0 {
					f = append(f, k, vals[v-1])
				}
			}
			out = append(out, f)
		})
	}
	return out
}

func genC14(g *Gen) {
	emit := func(stream string, nt bool, w *W) {
		if w.w[0] > 100 {
			g.Count(c14Names[int(w.w[0])-100] + "[float64,float64]")
		} else {
			g.Count(c14Names[int(w.w[0])])
		}
		g.Case(stream, nt, w.Out())
	}
	vpreds := [][2]int{{0, 0}, {1, 0}, {2, 0}, {3, 1}, {3, 2}, {4, 0}, {4, 2}, {5, 0}}
	kvpreds := [][2]int{{0, 0}, {1, 0}, {2, 1}, {2, 2}, {3, 0}, {3, 1}, {4, 0}, {5, 1}}
	mpreds := [][2]int{{0, 0}, {1, 0}, {2, 0}, {3, 0}, {3, 1}, {4, 1}, {4, 2}, {5, 0}}
	vals := []int{0, 1, 2}
	// --- exhaustive: every map with <= 4 entries over keys 0..3 x values {0,1,2} (the bound of the quantifier; thorough: 5 and 0..4)
	nk := g.Pick(4, 5) // thorough: 5 keys, up to 5 entries (every iteration order of 5 entries is still enumerated by c14_agree)
	maps := allMaps(nk, vals, nk)
	klen := 3
	keyAlpha := make([]int, nk+1) // the keys plus one that is never present
	for i := range keyAlpha {
		keyAlpha[i] = i
	}
	for _, f := range maps {
		n := len(f) / 2
		nt := n >= 2
		g.Count(fmt.Sprintf("map_entries=%d", n))
		for _, fn := range []int{1, 2, 10, 15, 24, 25} {
			emit("exhaustive", nt, (&W{}).Int(fn).Ints(f))
		}
		// key lists over the 4 keys plus one key that is never present
		slicesOver(keyAlpha, klen, func(ks []int) {
			emit("exhaustive", nt, (&W{}).Int(3).Ints(f).Ints(ks))
			emit("exhaustive", nt, (&W{}).Int(6).Ints(f).Ints(ks))
		})
		for _, p := range kvpreds {
			emit("exhaustive", nt, (&W{}).Int(4).Int(p[0]).Int(p[1]).Ints(f))
			emit("exhaustive", nt, (&W{}).Int(7).Int(p[0]).Int(p[1]).Ints(f))
		}
		for _, p := range vpreds {
			for _, fn := range []int{5, 11, 12, 13, 16, 17} {
				emit("exhaustive", nt, (&W{}).Int(fn).Int(p[0]).Int(p[1]).Ints(f))
			}
		}
		for c := 0; c <= 4; c++ {
			emit("exhaustive", nt, (&W{}).Int(8).Int(c).Ints(f))
			emit("exhaustive", nt, (&W{}).Int(23).Int(c).Ints(f))
		}
		for c := 0; c <= 5; c++ {
			emit("exhaustive", nt, (&W{}).Int(9).Int(c).Ints(f))
		}
		for v := -1; v <= 3; v++ {
			emit("exhaustive", nt, (&W{}).Int(18).Int(v).Ints(f))
			emit("exhaustive", nt, (&W{}).Int(26).Int(v).Ints(f))
		}
	}
	// --- lists of up to 3 maps from a pool (empty map, singletons, two qualifying values, shared keys)
	pool := [][]int{{}, {0, 0}, {0, 1}, {1, 2}, {0, 1, 1, 2}, {0, 2, 1, 2}, {0, 0, 1, 1, 2, 2}, {1, 0, 3, 1}}
	seqsUpTo(len(pool), g.Pick(3, 4), func(seq []int) {
		ms := make([][]int, len(seq))
		two := false
		for i, v := range seq {
			ms[i] = pool[v]
			if len(pool[v]) >= 4 {
				two = true
			}
		}
		nt := len(ms) >= 2 || two
		for key := 0; key <= 3; key++ {
			emit("exhaustive", nt, (&W{}).Int(14).Int(key).Intss(ms))
		}
		for _, p := range vpreds {
			emit("exhaustive", nt, (&W{}).Int(20).Int(p[0]).Int(p[1]).Intss(ms))
		}
		for _, p := range mpreds {
			emit("exhaustive", nt, (&W{}).Int(22).Int(p[0]).Int(p[1]).Intss(ms))
		}
	})
	// --- two-dimensional collections: up to 3 items from a pool of maps of maps
	type e2 = c14Entry2
	pool2 := [][]e2{{}, {{0, []int{}}}, {{0, []int{0, 1}}}, {{0, []int{0, 1, 1, 2}}, {1, []int{0, 2, 1, 0}}},
		{{1, []int{1, 1}}, {2, []int{}}, {3, []int{0, 1, 2, 1}}}, {{2, []int{1, 2}}, {3, []int{1, 2}}}}
	seqsUpTo(len(pool2), g.Pick(3, 4), func(seq []int) {
		w0 := func(fn, c, a int) *W {
			w := (&W{}).Int(fn).Int(c).Int(a).Int(len(seq))
			for _, v := range seq {
				w.Int(len(pool2[v]))
				for _, e := range pool2[v] {
					w.Int(e.k).Ints(e.inner)
				}
			}
			return w
		}
		for _, p := range mpreds {
			emit("exhaustive", len(seq) >= 1, w0(21, p[0], p[1]))
		}
	})
	// --- SliceToMap: all pairs of slices up to length 3 over {0,1,2} (unequal lengths panic)
	slicesOver(vals, 3, func(s1 []int) {
		s1c := cloneInts(s1)
		slicesOver(vals, 3, func(s2 []int) {
			if len(s1c) != len(s2) {
				g.Count("SliceToMap_unequal")
			}
			emit("exhaustive", len(s1c) >= 2, (&W{}).Int(19).Ints(s1c).Ints(s2))
		})
	})
	g.Exhaustive("exhaustive")
	// --- malformed / boundary stream
	emit("malformed", true, (&W{}).Int(3).Ints([]int{0, 1, 1, 2}).Ints([]int{}))
	emit("malformed", true, (&W{}).Int(3).Ints([]int{}).Ints([]int{}))
	emit("malformed", true, (&W{}).Int(19).Ints([]int{1, 2, 3}).Ints([]int{}))
	emit("malformed", true, (&W{}).Int(19).Ints([]int{}).Ints([]int{5}))
	emit("malformed", true, (&W{}).Int(12).Int(1).Int(0).Ints([]int{}))
	emit("malformed", true, (&W{}).Int(14).Int(0).Intss([][]int{}))
	// --- seeded random larger maps
	nr := g.Pick(4000, 40000)
	randMap := func(maxN int) []int {
		n := g.Rng.Intn(maxN + 1)
		m := map[int]int{}
		for len(m) < n {
			m[g.Rng.Intn(41)-20] = g.Rng.Intn(9) - 4
		}
		return flatOfMap(m)
	}
	fns := []int{1, 2, 3, 4, 5, 6, 7, 8, 9, 10, 11, 12, 13, 14, 15, 16, 17, 18, 19, 20, 22, 23}
	for i := 0; i < nr; i++ {
		fn := fns[g.Rng.Intn(len(fns))]
		w := (&W{}).Int(fn)
		nt := true
		switch fn {
		case 1, 2, 10, 15:
			f := randMap(12)
			nt = len(f) >= 4
			w.Ints(f)
		case 3, 6:
			f := randMap(12)
			nt = len(f) >= 4
			ks := randSlice(g.Rng, 5, -20, 20)
			for j := range ks {
				if len(f) > 0 && g.Rng.Intn(2) == 0 {
					ks[j] = f[2*g.Rng.Intn(len(f)/2)]
				}
			}
			w.Ints(f).Ints(ks)
		case 4, 7:
			f := randMap(12)
			nt = len(f) >= 4
			w.Int(g.Rng.Intn(6)).Int(g.Rng.Intn(21) - 10).Ints(f)
		case 5, 11, 12, 13, 16, 17:
			f := randMap(12)
			nt = len(f) >= 4
			w.Int(g.Rng.Intn(6)).Int(g.Rng.Intn(9) - 4).Ints(f)
		case 8, 23:
			f := randMap(12)
			nt = len(f) >= 4
			w.Int(g.Rng.Intn(5)).Ints(f)
		case 9:
			f := randMap(12)
			nt = len(f) >= 4
			w.Int(g.Rng.Intn(6)).Ints(f)
		case 18:
			f := randMap(12)
			nt = len(f) >= 4
			w.Int(g.Rng.Intn(9) - 4).Ints(f)
		case 14:
			k := g.Rng.Intn(6)
			ms := make([][]int, k)
			for j := range ms {
				ms[j] = randMap(5)
			}
			key := g.Rng.Intn(41) - 20
			if k > 0 && len(ms[0]) > 0 {
				key = ms[0][0]
			}
			w.Int(key).Intss(ms)
		case 19:
			s1 := randSlice(g.Rng, 8, -3, 3)
			s2 := randSlice(g.Rng, 8, -3, 3)
			if g.Rng.Intn(4) != 0 {
				for len(s2) < len(s1) {
					s2 = append(s2, g.Rng.Intn(7)-3)
				}
				s2 = s2[:len(s1)]
			}
			w.Ints(s1).Ints(s2)
		case 20:
			k := g.Rng.Intn(6)
			ms := make([][]int, k)
			for j := range ms {
				ms[j] = randMap(5)
			}
			w.Int(g.Rng.Intn(6)).Int(g.Rng.Intn(9) - 4).Intss(ms)
		case 22:
			k := g.Rng.Intn(6)
			ms := make([][]int, k)
			for j := range ms {
				ms[j] = randMap(5)
			}
			w.Int(g.Rng.Intn(6)).Int(g.Rng.Intn(9) - 4).Intss(ms)
		}
		emit("random", nt, w)
	}
	// --- extreme stream: keys and values at and around the limits of int64 (and of 32-bit types) ---
	const maxI, minI = math.MaxInt64, math.MinInt64
	ek := []int{maxI, minI, 0, -1, 1 << 32}
	ev := []int{maxI, minI, 1, 0}
	exA := []int{maxI, minI, 0}
	var exMaps [][]int
	exMaps = append(exMaps, []int{})
	for _, k := range ek {
		for _, v := range ev {
			exMaps = append(exMaps, []int{k, v})
		}
	}
	for i := 0; i < len(ek); i++ {
		for j := i + 1; j < len(ek); j++ {
			for _, v1 := range ev {
				for _, v2 := range ev {
					exMaps = append(exMaps, []int{ek[i], v1, ek[j], v2})
				}
			}
		}
	}
	exMaps = append(exMaps, []int{maxI, minI, minI, maxI, 0, maxI, -1, minI}, []int{maxI, 1, maxI - 1, 1, minI, 1, minI + 1, 1, 0, 1},
		[]int{1 << 62, -(1 << 62), -(1 << 62), 1 << 62, 1 << 31, -(1 << 31)})
	exKeyLists := [][]int{{maxI}, {minI, 0}, {maxI, minI, 5}, {3}, {maxI - 1, minI + 1, -1, 1 << 32}}
	for _, f := range exMaps {
		norm := flatOfMap(buildMap(f, 0)) // sorted by key, as everywhere on the wire
		n := len(norm) / 2
		nt := n >= 2
		for _, fn := range []int{1, 2, 10, 15} {
			emit("extreme", nt, (&W{}).Int(fn).Ints(norm))
		}
		for _, ks := range exKeyLists {
			emit("extreme", nt, (&W{}).Int(3).Ints(norm).Ints(ks))
			emit("extreme", nt, (&W{}).Int(6).Ints(norm).Ints(ks))
		}
		for _, a := range exA {
			for _, c := range []int{2, 3, 5} {
				emit("extreme", nt, (&W{}).Int(4).Int(c).Int(a).Ints(norm))
				emit("extreme", nt, (&W{}).Int(7).Int(c).Int(a).Ints(norm))
			}
			for _, c := range []int{3, 4, 5} {
				for _, fn := range []int{5, 11, 12, 13, 16, 17} {
					emit("extreme", nt, (&W{}).Int(fn).Int(c).Int(a).Ints(norm))
				}
			}
			emit("extreme", nt, (&W{}).Int(18).Int(a).Ints(norm))
		}
		emit("extreme", nt, (&W{}).Int(4).Int(4).Int(0).Ints(norm))
		emit("extreme", nt, (&W{}).Int(7).Int(4).Int(0).Ints(norm))
		for c := 0; c <= 4; c++ {
			emit("extreme", nt, (&W{}).Int(8).Int(c).Ints(norm))
			emit("extreme", nt, (&W{}).Int(23).Int(c).Ints(norm))
		}
		for c := 0; c <= 5; c++ {
			emit("extreme", nt, (&W{}).Int(9).Int(c).Ints(norm))
		}
	}
	for _, key := range exA { // lists of maps with extreme keys and values
		mss := [][][]int{{{key, maxI}, {}, {key, minI, 7, 1}}, {{7, 1}, {key, 0}, {key, minI}}, {{}, {}, {key, maxI}}}
		for _, ms := range mss {
			emit("extreme", true, (&W{}).Int(14).Int(key).Intss(ms))
			for _, c := range []int{3, 4, 5} {
				emit("extreme", true, (&W{}).Int(20).Int(c).Int(key).Intss(ms))
			}
			for _, p := range [][2]int{{2, 0}, {3, key}, {4, key}, {5, 0}} {
				emit("extreme", true, (&W{}).Int(22).Int(p[0]).Int(p[1]).Intss(ms))
			}
		}
	}
	slicesOver(ek, 3, func(s1 []int) { // SliceToMap with extreme keys (duplicates included) and values
		s1c := cloneInts(s1)
		s2 := make([]int, len(s1c))
		for i := range s2 {
			s2[i] = ev[(i+len(s1c))%len(ev)]
		}
		emit("extreme", len(s1c) >= 2, (&W{}).Int(19).Ints(s1c).Ints(s2))
		emit("extreme", true, (&W{}).Int(19).Ints(s1c).Ints(append(cloneInts(s2), minI)))
	})
	// --- large stream: maps with 50..500 entries, key lists of 50..200, lists of 50..300 maps, slices of 100..2000 ---
	nl := g.Pick(30, 300)
	largeMap := func() []int {
		n := 50 + g.Rng.Intn(451)
		kw := []int{1000, 1 << 40}[g.Rng.Intn(2)]
		vw := []int{4, 4, 1 << 40}[g.Rng.Intn(3)]
		m := map[int]int{}
		for len(m) < n {
			m[g.Rng.Intn(2*kw+1)-kw] = g.Rng.Intn(2*vw+1) - vw
		}
		return flatOfMap(m)
	}
	for i := 0; i < nl; i++ {
		f := largeMap()
		n := len(f) / 2
		for _, fn := range []int{1, 2, 10, 15} {
			emit("large", true, (&W{}).Int(fn).Ints(f))
		}
		ks := make([]int, 50+g.Rng.Intn(151))
		for j := range ks {
			if g.Rng.Intn(2) == 0 {
				ks[j] = f[2*g.Rng.Intn(n)]
			} else {
				ks[j] = g.Rng.Intn(4001) - 2000
			}
		}
		emit("large", true, (&W{}).Int(3).Ints(f).Ints(ks))
		emit("large", true, (&W{}).Int(6).Ints(f).Ints(ks))
		kc, ka := g.Rng.Intn(6), g.Rng.Intn(2001)-1000
		emit("large", true, (&W{}).Int(4).Int(kc).Int(ka).Ints(f))
		emit("large", true, (&W{}).Int(7).Int(kc).Int(ka).Ints(f))
		vc, va := g.Rng.Intn(6), g.Rng.Intn(9)-4
		for _, fn := range []int{5, 11, 12, 13, 16, 17} {
			emit("large", true, (&W{}).Int(fn).Int(vc).Int(va).Ints(f))
		}
		emit("large", true, (&W{}).Int(8).Int(g.Rng.Intn(5)).Ints(f))
		emit("large", true, (&W{}).Int(23).Int(g.Rng.Intn(5)).Ints(f))
		emit("large", true, (&W{}).Int(9).Int(g.Rng.Intn(6)).Ints(f))
		emit("large", true, (&W{}).Int(18).Int(g.Rng.Intn(9)-4).Ints(f))
	}
	for i := 0; i < nl/2; i++ {
		k := 50 + g.Rng.Intn(251)
		ms := make([][]int, k)
		for j := range ms {
			ms[j] = randMap(5)
		}
		emit("large", true, (&W{}).Int(14).Int(g.Rng.Intn(41)-20).Intss(ms))
		emit("large", true, (&W{}).Int(20).Int(g.Rng.Intn(6)).Int(g.Rng.Intn(9)-4).Intss(ms))
		emit("large", true, (&W{}).Int(22).Int(g.Rng.Intn(6)).Int(g.Rng.Intn(9)-4).Intss(ms))
		n := 100 + g.Rng.Intn(1901)
		s1, s2 := make([]int, n), make([]int, n)
		for j := range s1 {
			s1[j], s2[j] = g.Rng.Intn(51), g.Rng.Intn(2001)-1000
		}
		emit("large", true, (&W{}).Int(19).Ints(s1).Ints(s2))
		if i%5 == 0 {
			emit("large", true, (&W{}).Int(19).Ints(s1).Ints(s2[:n-1]))
		}
	}
	// --- nan stream: every helper at map[float64]float64 with NaN among keys and values (c14nan.go) ---
	genC14NaN(g, emit)
}

func init() {
	register(&Prop{ID: "C14", Exec: execC14, Gen: genC14, Describe: describeC14,
		Rule: "exhaustive (both tiers at the bound of the quantifier): every map with <= 4 entries over keys 0..3 x values {0,1,2} (thorough: <= 5 entries over keys 0..4) x (Keys, Values, Invert, MapUnique; Pick/Omit with every key list of length <= 3 over the keys and one key that is never present, duplicates included; PickBy/OmitBy x 8 key-value predicates; FilterMap/Find/FindKey/FindByKey/MapEvery/MapSome x 8 value predicates; MapValues/MapCollection x 5 functions; MapKeys x 6 key functions incl. colliding ones; MapContains x 5 probes; MapUnique, Invert and MapContains also at float64 values v/4); every list of <= 3 (thorough 4) maps from a pool of 8 (incl. the empty map, passed as a nil map on odd repetitions) for Pluck/FilterMapCollection/PartitionMap and of <= 3 (4) maps-of-maps from a pool of 6 for Filter2DMapCollection; all pairs of slices of length <= 3 over {0,1,2} for SliceToMap (unequal lengths included). extreme: maps with <= 2 (a few with 3-5) entries whose keys are in {MaxInt, MinInt, 0, -1, 2^32, +-2^62, +-2^31, MaxInt-1, MinInt+1} and values in {MaxInt, MinInt, 1, 0} through every helper, with extreme key lists / predicate arguments, lists of maps and SliceToMap with extreme keys. large: maps with 50..500 entries (keys up to +-2^40) through every helper, key lists of 50..200 keys, lists of 50..300 maps, SliceToMap on 100..2000 positions over 51 keys. random: seeded maps with up to 12 entries. nan (exhaustive): every helper at map[float64]float64, float codes on the wire (harness/c14nan.go) - every map with ordinary keys 0..2 (thorough 0..3), each absent or holding a value from {NaN, 0, 1}, plus a multiset of <= 2 entries under NaN with values from {NaN, 0, 1}, <= 4 (5) entries in all, x (Keys, Values, Invert, MapUnique; Pick/Omit with every key list of length <= 2 over {NaN, the keys, one absent key}; PickBy/OmitBy x 11 key-value predicates incl. k != k, v != v, == NaN; FilterMap/Find/FindKey/FindByKey/MapEvery/MapSome x 9 value predicates incl. == NaN; MapValues/MapCollection x 5 functions; MapKeys x 7 key functions incl. const NaN; MapContains x 5 probes incl. NaN); every list of <= 3 (4) maps from a pool of 7 with NaN keys and values for Pluck (keys NaN, 0, 1, 2) / FilterMapCollection / PartitionMap; <= 2 (3) maps of maps from a pool of 5 with NaN outer and inner keys for Filter2DMapCollection; all pairs of slices of length <= 3 over {NaN, 0, 1} for SliceToMap. nan-random: seeded float maps with up to 12 entries (a fifth of the entries under NaN, a quarter of the values NaN) through every helper, lists of up to 5 such maps; nan-large: maps with 40..300 entries. non-trivial in these streams = a NaN in the input and >= 2 entries / maps. Each call is repeated 8 times (24 for the helpers that leave a choice open) on maps built in different insertion orders; distinct canonical outcomes are recorded. non-trivial = map with >= 2 entries / list of >= 2 maps or containing a map with >= 2 entries / key slice of length >= 2; distinct = distinct wire input"})
}
