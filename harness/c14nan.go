package main

import (
	"fmt"
	"math"
	"sort"

	"github.com/esimov/gogu"
)

// C14, stream `nan`: the map helpers instantiated at map[float64]float64 with NaN among the keys
// and / or the values (mirror of the second half of coq/theories/C14_Wire.v).
//
// fn = 100 + the code of the helper (table in c14.go), same argument shapes.  Every key, value,
// probe and predicate argument on the wire is the CODE of a float64: the integer itself, or
// c14NaNCode for NaN.  Only small integers are sent, so every float operation of the callbacks is
// exact and no result can be mistaken for the code.
//
// value predicates (c,a):  0 true, 1 false, 2 math.Mod(x,2)==0, 3 x<a, 4 x==a, 5 x>a
// key/value predicates:    0 true, 1 false, 2 k<a, 3 v==a, 4 math.Mod(k+v,2)==0, 5 k==a, 6 k!=k, 7 v!=v
// value functions:         0 id, 1 v*2, 2 const 7, 3 -v, 4 math.Mod(v,2)
// key functions:           0 k, 1 math.Mod(k,2), 2 const 0, 3 k+v, 4 v, 5 k+10, 6 const NaN
// map predicates:          0 true, 1 false, 2 len>=2, 3 _, ok := m[a], 4 some value == a, 5 math.Mod(sum of values,2)==0
//
// Observation: as for the other streams the call is repeated on maps built in different insertion
// orders and the distinct canonical outcomes are listed.  A result map may hold several entries
// under NaN (equal or different values): it is written as its entries k v sorted lexicographically
// by code (NaN first), i.e. the NaN entries as a multiset.
const c14NaNCode = -999999999

func c14F(x int) float64 {
	if x == c14NaNCode {
		return math.NaN()
	}
	return float64(x)
}

func c14Code(f float64) int {
	if f != f {
		return c14NaNCode
	}
	return int(f)
}

func c14Floats(xs []int) []float64 {
	out := allocWindow[float64](len(xs))
	for i, x := range xs {
		out[i] = c14F(x)
	}
	return out
}

func c14Codes(fs []float64) []int {
	out := make([]int, len(fs))
	for i, f := range fs {
		out[i] = c14Code(f)
	}
	return out
}

func c14NVPred(c int, a float64) func(float64) bool {
	switch c {
	case 0:
		return func(float64) bool { return true }
	case 1:
		return func(float64) bool { return false }
	case 2:
		return func(x float64) bool { return math.Mod(x, 2) == 0 }
	case 3:
		return func(x float64) bool { return x < a }
	case 4:
		return func(x float64) bool { return x == a }
	default:
		return func(x float64) bool { return x > a }
	}
}

func c14NKVPred(c int, a float64) func(float64, float64) bool {
	switch c {
	case 0:
		return func(float64, float64) bool { return true }
	case 1:
		return func(float64, float64) bool { return false }
	case 2:
		return func(k, _ float64) bool { return k < a }
	case 3:
		return func(_, v float64) bool { return v == a }
	case 4:
		return func(k, v float64) bool { return math.Mod(k+v, 2) == 0 }
	case 5:
		return func(k, _ float64) bool { return k == a }
	case 6:
		return func(k, _ float64) bool { return k != k }
	default:
		return func(_, v float64) bool { return v != v }
	}
}

func c14NVFun(c int) func(float64) float64 {
	switch c {
	case 0:
		return func(v float64) float64 { return v }
	case 1:
		return func(v float64) float64 { return v * 2 }
	case 2:
		return func(float64) float64 { return 7 }
	case 3:
		return func(v float64) float64 { return -v }
	default:
		return func(v float64) float64 { return math.Mod(v, 2) }
	}
}

func c14NKFun(c int) func(float64, float64) float64 {
	switch c {
	case 0:
		return func(k, _ float64) float64 { return k }
	case 1:
		return func(k, _ float64) float64 { return math.Mod(k, 2) }
	case 2:
		return func(float64, float64) float64 { return 0 }
	case 3:
		return func(k, v float64) float64 { return k + v }
	case 4:
		return func(_, v float64) float64 { return v }
	case 5:
		return func(k, _ float64) float64 { return k + 10 }
	default:
		return func(float64, float64) float64 { return math.NaN() }
	}
}

func c14NMPred(c int, a float64) func(map[float64]float64) bool {
	switch c {
	case 0:
		return func(map[float64]float64) bool { return true }
	case 1:
		return func(map[float64]float64) bool { return false }
	case 2:
		return func(m map[float64]float64) bool { return len(m) >= 2 }
	case 3:
		return func(m map[float64]float64) bool { _, ok := m[a]; return ok }
	case 4:
		return func(m map[float64]float64) bool {
			for _, v := range m {
				if v == a {
					return true
				}
			}
			return false
		}
	default:
		return func(m map[float64]float64) bool {
			s := 0.0
			for _, v := range m {
				s += v
			}
			return math.Mod(s, 2) == 0
		}
	}
}

// buildFMap inserts the entries of flat (k v k v ..., codes) in the rep-th insertion order;
// every entry under NaN becomes an entry of its own.
func buildFMap(flat []int, rep int) map[float64]float64 {
	n := len(flat) / 2
	m := make(map[float64]float64)
	var order []int
	if n <= 4 {
		order = kthPerm(n, rep)
	} else {
		order = make([]int, n)
		for i := range order {
			j := (i + rep*3) % n
			if rep%2 == 1 {
				j = n - 1 - j
			}
			order[i] = j
		}
	}
	for _, i := range order {
		m[c14F(flat[2*i])] = c14F(flat[2*i+1])
	}
	return m
}

func fmapsFor(flats [][]int, rep int) []map[float64]float64 {
	ms := make([]map[float64]float64, len(flats))
	for i, f := range flats {
		if len(f) == 0 && rep%2 == 1 {
			ms[i] = nil
			continue
		}
		ms[i] = buildFMap(f, rep)
	}
	return ms
}

func lessIntSlices(a, b []int) bool {
	for i := 0; i < len(a) && i < len(b); i++ {
		if a[i] != b[i] {
			return a[i] < b[i]
		}
	}
	return len(a) < len(b)
}

// flatOfFMap: the entries as code pairs, sorted lexicographically.
func flatOfFMap(m map[float64]float64) []int {
	es := make([][]int, 0, len(m))
	for k, v := range m {
		es = append(es, []int{c14Code(k), c14Code(v)})
	}
	sort.Slice(es, func(i, j int) bool { return lessIntSlices(es[i], es[j]) })
	out := make([]int, 0, 2*len(es))
	for _, e := range es {
		out = append(out, e...)
	}
	return out
}

func (b *W) FMap(m map[float64]float64) *W { return b.Ints(flatOfFMap(m)) }
func (b *W) FMaps(ms []map[float64]float64) *W {
	b.Int(len(ms))
	for _, m := range ms {
		b.FMap(m)
	}
	return b
}
func (b *W) FColl2(coll []map[float64]map[float64]float64) *W {
	b.Int(len(coll))
	for _, item := range coll {
		es := make([][]int, 0, len(item))
		for k, inner := range item {
			f := flatOfFMap(inner)
			e := append([]int{c14Code(k), len(f)}, f...)
			es = append(es, e)
		}
		sort.Slice(es, func(i, j int) bool { return lessIntSlices(es[i], es[j]) })
		b.Int(len(es))
		for _, e := range es {
			for _, x := range e {
				b.Int(x)
			}
		}
	}
	return b
}

func sortedCodes(fs []float64) []int {
	c := c14Codes(fs)
	sort.Ints(c)
	return c
}

// c14OnceNaN runs one helper once at map[float64]float64.
func c14OnceNaN(fn int, r *R, rep int) []int64 {
	var res []int64
	switch fn {
	case 101:
		ks := gogu.Keys(c14ToK(buildFMap(r.Ints(), rep)))
		fs := make([]float64, len(ks))
		for i, k := range ks {
			fs[i] = float64(k)
		}
		res = (&W{}).Ints(sortedCodes(fs)).Out()
	case 102:
		res = (&W{}).Ints(sortedCodes(gogu.Values(buildFMap(r.Ints(), rep)))).Out()
	case 103:
		m, ks := buildFMap(r.Ints(), rep), c14Floats(r.Ints())
		out, err := gogu.Pick(m, ks...)
		if err != nil {
			res = resErr(1)
		} else {
			res = (&W{}).Int(0).FMap(out).Out()
		}
	case 104:
		c, a, m := r.Int(), c14F(r.Int()), buildFMap(r.Ints(), rep)
		res = (&W{}).FMap(c14FromK(gogu.PickBy(c14ToK(m), c14KPred(c14NKVPred(c, a))))).Out()
	case 105:
		c, a, m := r.Int(), c14F(r.Int()), buildFMap(r.Ints(), rep)
		res = (&W{}).FMap(c14FromK(gogu.FilterMap(c14ToK(m), c14NVPred(c, a)))).Out()
	case 106:
		m, ks := buildFMap(r.Ints(), rep), c14Floats(r.Ints())
		res = (&W{}).FMap(gogu.Omit(m, ks...)).Out()
	case 107:
		c, a, m := r.Int(), c14F(r.Int()), buildFMap(r.Ints(), rep)
		res = (&W{}).FMap(c14FromK(gogu.OmitBy(c14ToK(m), c14KPred(c14NKVPred(c, a))))).Out()
	case 108:
		c, m := r.Int(), buildFMap(r.Ints(), rep)
		res = (&W{}).FMap(gogu.MapValues(m, c14NVFun(c))).Out()
	case 109:
		c, m := r.Int(), buildFMap(r.Ints(), rep)
		res = (&W{}).FMap(gogu.MapKeys(m, c14NKFun(c))).Out()
	case 110:
		res = (&W{}).FMap(gogu.Invert(buildFMap(r.Ints(), rep))).Out()
	case 111:
		c, a, m := r.Int(), c14F(r.Int()), buildFMap(r.Ints(), rep)
		res = (&W{}).FMap(c14FromK(gogu.Find(c14ToK(m), c14NVPred(c, a)))).Out()
	case 112:
		c, a, m := r.Int(), c14F(r.Int()), buildFMap(r.Ints(), rep)
		res = []int64{int64(c14Code(gogu.FindKey(m, c14NVPred(c, a))))}
	case 113:
		c, a, m := r.Int(), c14F(r.Int()), buildFMap(r.Ints(), rep)
		res = (&W{}).FMap(gogu.FindByKey(m, c14NVPred(c, a))).Out()
	case 114:
		key, flats := c14F(r.Int()), r.Intss()
		res = (&W{}).Ints(c14Codes(gogu.Pluck(fmapsFor(flats, rep), key))).Out()
	case 115:
		res = (&W{}).FMap(c14FromK(gogu.MapUnique(c14ToK(buildFMap(r.Ints(), rep))))).Out()
	case 116:
		c, a, m := r.Int(), c14F(r.Int()), buildFMap(r.Ints(), rep)
		res = []int64{b2i(gogu.MapEvery(m, c14NVPred(c, a)))}
	case 117:
		c, a, m := r.Int(), c14F(r.Int()), buildFMap(r.Ints(), rep)
		res = []int64{b2i(gogu.MapSome(m, c14NVPred(c, a)))}
	case 118:
		v, m := c14F(r.Int()), buildFMap(r.Ints(), rep)
		res = []int64{b2i(gogu.MapContains(m, v))}
	case 119:
		s1, s2 := c14Floats(r.Ints()), c14Floats(r.Ints())
		res = (&W{}).Int(0).FMap(gogu.SliceToMap(s1, s2)).Out()
	case 120:
		c, a, flats := r.Int(), c14F(r.Int()), r.Intss()
		res = (&W{}).FMaps(gogu.FilterMapCollection(fmapsFor(flats, rep), c14NVPred(c, a))).Out()
	case 121:
		c, a, raw := r.Int(), c14F(r.Int()), readColl2(r)
		coll := make([]map[float64]map[float64]float64, len(raw))
		for i, item := range raw {
			coll[i] = map[float64]map[float64]float64{}
			for j := range item { // insertion order varied by repetition
				e := item[(j+rep)%len(item)]
				coll[i][c14F(e.k)] = buildFMap(e.inner, rep)
			}
		}
		res = (&W{}).FColl2(gogu.Filter2DMapCollection(coll, c14NMPred(c, a))).Out()
	case 122:
		c, a, flats := r.Int(), c14F(r.Int()), r.Intss()
		p := gogu.PartitionMap(fmapsFor(flats, rep), c14NMPred(c, a))
		res = (&W{}).FMaps(p[0]).FMaps(p[1]).Out()
	case 123:
		c, m := r.Int(), buildFMap(r.Ints(), rep)
		res = (&W{}).Ints(sortedCodes(gogu.MapCollection(m, c14NVFun(c)))).Out()
	default:
		res = []int64{-1}
	}
	return res
}

func c14HasNaN(xs ...[]int) bool {
	for _, x := range xs {
		for _, v := range x {
			if v == c14NaNCode {
				return true
			}
		}
	}
	return false
}

// fmapsOver enumerates the float maps (as flat code lists) with ordinary keys 0..nk-1, each absent or
// holding one of vals, plus a multiset of at most maxNaN entries under NaN with values from vals; at
// most maxEntries entries in all.
func fmapsOver(nk int, vals []int, maxNaN, maxEntries int) [][]int {
	var out [][]int
	var nanParts [][]int
	var rec func(start, left int, cur []int)
	rec = func(start, left int, cur []int) {
		nanParts = append(nanParts, cloneInts(cur))
		if left == 0 {
			return
		}
		for i := start; i < len(vals); i++ {
			rec(i, left-1, append(cur, c14NaNCode, vals[i]))
		}
	}
	rec(0, maxNaN, nil)
	seqsExact(len(vals)+1, nk, func(seq []int) {
		f := []int{}
		for k, v := range seq {
			if v > 0 {
				f = append(f, k, vals[v-1])
			}
		}
		for _, np := range nanParts {
			if (len(f)+len(np))/2 > maxEntries {
				continue
			}
			out = append(out, append(cloneInts(np), f...)) // NaN entries first: sorted by code
		}
	})
	return out
}

func genC14NaN(g *Gen, emit func(stream string, nt bool, w *W)) {
	const N = c14NaNCode
	vpreds := [][2]int{{0, 0}, {1, 0}, {2, 0}, {3, 1}, {3, 2}, {4, 0}, {4, 1}, {4, N}, {5, 0}}
	kvpreds := [][2]int{{0, 0}, {1, 0}, {2, 1}, {2, 2}, {3, 0}, {3, N}, {4, 0}, {5, 1}, {5, N}, {6, 0}, {7, 0}}
	mpreds := [][2]int{{0, 0}, {1, 0}, {2, 0}, {3, 0}, {3, N}, {4, 1}, {4, N}, {5, 0}}
	vals := []int{N, 0, 1}
	nk := g.Pick(3, 4)
	maps := fmapsOver(nk, vals, 2, g.Pick(4, 5))
	keyAlpha := []int{N}
	for i := 0; i <= nk; i++ { // the ordinary keys and one that is never present
		keyAlpha = append(keyAlpha, i)
	}
	for _, f := range maps {
		n := len(f) / 2
		nt := n >= 2 && c14HasNaN(f)
		g.Count(fmt.Sprintf("nan_map_entries=%d", n))
		if c14HasNaN(f) {
			g.Count("nan_maps_holding_NaN")
		}
		for _, fn := range []int{101, 102, 110, 115} {
			emit("nan", nt, (&W{}).Int(fn).Ints(f))
		}
		slicesOver(keyAlpha, 2, func(ks []int) {
			emit("nan", nt, (&W{}).Int(103).Ints(f).Ints(ks))
			emit("nan", nt, (&W{}).Int(106).Ints(f).Ints(ks))
		})
		for _, p := range kvpreds {
			emit("nan", nt, (&W{}).Int(104).Int(p[0]).Int(p[1]).Ints(f))
			emit("nan", nt, (&W{}).Int(107).Int(p[0]).Int(p[1]).Ints(f))
		}
		for _, p := range vpreds {
			for _, fn := range []int{105, 111, 112, 113, 116, 117} {
				emit("nan", nt, (&W{}).Int(fn).Int(p[0]).Int(p[1]).Ints(f))
			}
		}
		for c := 0; c <= 4; c++ {
			emit("nan", nt, (&W{}).Int(108).Int(c).Ints(f))
			emit("nan", nt, (&W{}).Int(123).Int(c).Ints(f))
		}
		for c := 0; c <= 6; c++ {
			emit("nan", nt, (&W{}).Int(109).Int(c).Ints(f))
		}
		for _, v := range []int{N, -1, 0, 1, 2} {
			emit("nan", nt, (&W{}).Int(118).Int(v).Ints(f))
		}
	}
	// lists of up to 3 (thorough 4) maps from a pool with NaN keys and values
	pool := [][]int{{}, {0, N}, {N, 0}, {N, 1, N, 1}, {0, 1, 1, N}, {N, N, 1, 2}, {0, 0, 1, 1, 2, 2}}
	seqsUpTo(len(pool), g.Pick(3, 4), func(seq []int) {
		ms := make([][]int, len(seq))
		for i, v := range seq {
			ms[i] = pool[v]
		}
		nt := len(ms) >= 2 && c14HasNaN(ms...)
		for _, key := range []int{N, 0, 1, 2} {
			emit("nan", nt, (&W{}).Int(114).Int(key).Intss(ms))
		}
		for _, p := range vpreds {
			emit("nan", nt, (&W{}).Int(120).Int(p[0]).Int(p[1]).Intss(ms))
		}
		for _, p := range mpreds {
			emit("nan", nt, (&W{}).Int(122).Int(p[0]).Int(p[1]).Intss(ms))
		}
	})
	// two-dimensional collections with NaN among the outer keys, the inner keys and the values
	type e2 = c14Entry2
	pool2 := [][]e2{{}, {{N, []int{}}}, {{N, []int{N, 1}}, {N, []int{N, 1}}}, {{0, []int{0, N, 1, 2}}, {N, []int{N, N}}},
		{{1, []int{1, 1}}, {2, []int{}}, {N, []int{N, 1, N, 2}}}}
	seqsUpTo(len(pool2), g.Pick(2, 3), func(seq []int) {
		w0 := func(c, a int) *W {
			w := (&W{}).Int(121).Int(c).Int(a).Int(len(seq))
			for _, v := range seq {
				w.Int(len(pool2[v]))
				for _, e := range pool2[v] {
					w.Int(e.k).Ints(e.inner)
				}
			}
			return w
		}
		for _, p := range mpreds {
			emit("nan", len(seq) >= 1, w0(p[0], p[1]))
		}
	})
	// SliceToMap: all pairs of slices up to length 3 over {NaN, 0, 1}
	slicesOver(vals, 3, func(s1 []int) {
		s1c := cloneInts(s1)
		slicesOver(vals, 3, func(s2 []int) {
			emit("nan", len(s1c) >= 2 && c14HasNaN(s1c, s2), (&W{}).Int(119).Ints(s1c).Ints(s2))
		})
	})
	g.Exhaustive("nan")
	// seeded random larger float maps: up to 12 (large: 40..300) entries, NaN among keys and values
	randFMap := func(minN, maxN int) []int {
		n := minN + g.Rng.Intn(maxN-minN+1)
		var nanPart []int
		m := map[int]int{}
		val := func() int {
			if g.Rng.Intn(4) == 0 {
				return N
			}
			return g.Rng.Intn(9) - 4
		}
		for len(m)+len(nanPart)/2 < n {
			if g.Rng.Intn(5) == 0 {
				nanPart = append(nanPart, N, val())
			} else {
				m[g.Rng.Intn(4*n+1)-2*n] = val()
			}
		}
		es := make([][]int, 0, n)
		for i := 0; i < len(nanPart); i += 2 {
			es = append(es, nanPart[i:i+2])
		}
		for k, v := range m {
			es = append(es, []int{k, v})
		}
		sort.Slice(es, func(i, j int) bool { return lessIntSlices(es[i], es[j]) })
		var f []int
		for _, e := range es {
			f = append(f, e...)
		}
		return f
	}
	arg := func() int {
		if g.Rng.Intn(5) == 0 {
			return N
		}
		return g.Rng.Intn(9) - 4
	}
	one := func(stream string, f []int) {
		nt := len(f) >= 4 && c14HasNaN(f)
		switch fn := []int{101, 102, 103, 104, 105, 106, 107, 108, 109, 110, 111, 112, 113, 115, 116, 117, 118, 123}[g.Rng.Intn(18)]; fn {
		case 101, 102, 110, 115:
			emit(stream, nt, (&W{}).Int(fn).Ints(f))
		case 103, 106:
			ks := make([]int, g.Rng.Intn(6))
			for j := range ks {
				ks[j] = arg()
				if len(f) > 0 && g.Rng.Intn(2) == 0 {
					ks[j] = f[2*g.Rng.Intn(len(f)/2)]
				}
			}
			emit(stream, nt, (&W{}).Int(fn).Ints(f).Ints(ks))
		case 104, 107:
			emit(stream, nt, (&W{}).Int(fn).Int(g.Rng.Intn(8)).Int(arg()).Ints(f))
		case 105, 111, 112, 113, 116, 117:
			emit(stream, nt, (&W{}).Int(fn).Int(g.Rng.Intn(6)).Int(arg()).Ints(f))
		case 108, 123:
			emit(stream, nt, (&W{}).Int(fn).Int(g.Rng.Intn(5)).Ints(f))
		case 109:
			emit(stream, nt, (&W{}).Int(fn).Int(g.Rng.Intn(7)).Ints(f))
		case 118:
			emit(stream, nt, (&W{}).Int(fn).Int(arg()).Ints(f))
		}
	}
	for i := 0; i < g.Pick(1500, 15000); i++ {
		one("nan-random", randFMap(0, 12))
	}
	for i := 0; i < g.Pick(400, 4000); i++ {
		k := g.Rng.Intn(6)
		ms := make([][]int, k)
		for j := range ms {
			ms[j] = randFMap(0, 5)
		}
		switch g.Rng.Intn(3) {
		case 0:
			emit("nan-random", c14HasNaN(ms...), (&W{}).Int(114).Int(arg()).Intss(ms))
		case 1:
			emit("nan-random", c14HasNaN(ms...), (&W{}).Int(120).Int(g.Rng.Intn(6)).Int(arg()).Intss(ms))
		default:
			emit("nan-random", c14HasNaN(ms...), (&W{}).Int(122).Int(g.Rng.Intn(6)).Int(arg()).Intss(ms))
		}
	}
	for i := 0; i < g.Pick(12, 120); i++ {
		f := randFMap(40, 300)
		for j := 0; j < 8; j++ {
			one("nan-large", f)
		}
	}
}

// c14K: a NAMED float64 key type with a String method (a unit type).  The helpers whose code looks at the keys
// are run at map[c14K]float64 (converted from / to the built-in key type around the call, NaN entries kept one by
// one): `k != k` must be recognised for every float key type, not only for the built-in ones.
type c14K float64

func (k c14K) String() string { return "key" }

func c14ToK(m map[float64]float64) map[c14K]float64 {
	out := make(map[c14K]float64, len(m))
	for k, v := range m {
		out[c14K(k)] = v
	}
	return out
}

func c14FromK(m map[c14K]float64) map[float64]float64 {
	if m == nil {
		return nil
	}
	out := make(map[float64]float64, len(m))
	for k, v := range m {
		out[float64(k)] = v
	}
	return out
}

func c14KPred(p func(float64, float64) bool) func(c14K, float64) bool {
	return func(k c14K, v float64) bool { return p(float64(k), v) }
}
