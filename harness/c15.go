package main

import (
	"fmt"
	"regexp"
	"strings"
	"unicode"

	"github.com/esimov/gogu"
)

// C15 wire input: fn :: Bytes(s) ++ args   (mirror of coq/theories/C15_Wire.v)
//
//	1 Substr s off len            2 SplitAtIndex s idx
//	3 Pad s size tok              4 PadLeft s size tok        5 PadRight s size tok
//	6 Wrap s tok                  7 Unwrap s tok              8 WrapAllRune s tok
//	9 ReverseStr s               10 ToLower s                11 ToUpper s
//	12 Capitalize s              13 CamelCase s              14 SnakeCase s
//	15 KebabCase s               16 for i, r := range s      17 string([]rune) (s = runes)
//	18 Unwrap(Wrap(s,tok),tok)   19 Snake, Snake(Snake), Kebab, Kebab(Kebab)
//	20 unicode.ToLower(r)        21 unicode.ToUpper(r)        (s = [r])
//	the model's hand-written library functions against the Go library (no gogu code runs):
//	22 regexp [-_&]+ ReplaceAllString(s," ")   23 regexp [a-zö][A-ZÖ]+ FindAllStringIndex(s,-1)
//	24 strings.TrimSpace(s)      25 strings.Split(s," ")     26 strings.Index(s,t), strings.LastIndex(s,t)
//
// output: enc_res of the returned string(s): 0 len bytes... | 2 (panic)
var c15Names = map[int]string{1: "Substr", 2: "SplitAtIndex", 3: "Pad", 4: "PadLeft", 5: "PadRight", 6: "Wrap",
	7: "Unwrap", 8: "WrapAllRune", 9: "ReverseStr", 10: "ToLower", 11: "ToUpper", 12: "Capitalize", 13: "CamelCase",
	14: "SnakeCase", 15: "KebabCase", 16: "range", 17: "string([]rune)", 18: "Unwrap(Wrap)", 19: "CaseLaws",
	20: "unicode.ToLower", 21: "unicode.ToUpper", 22: "regexp.ReplaceAll[-_&]+", 23: "regexp.FindAll[a-zö][A-ZÖ]+",
	24: "strings.TrimSpace", 25: "strings.Split", 26: "strings.Index/LastIndex"}

// the two regular expressions of string.go, as the code writes them
var (
	c15RxSeps  = regexp.MustCompile("[-_&]+")
	c15RxLowUp = regexp.MustCompile("[a-zö][A-ZÖ]+")
)

func c15OkStr(s string) []int64 {
	out := []int64{0, int64(len(s))}
	for i := 0; i < len(s); i++ {
		out = append(out, int64(s[i]))
	}
	return out
}

// c15Str runs f, recovering a panic: enc_res enc_zs
func c15Str(f func() string) (out []int64, ok bool, val string) {
	var s string
	if try(func() { s = f() }) {
		return resPanic(), false, ""
	}
	return c15OkStr(s), true, s
}

// c15Label: a named string type with String and Error methods.  The helpers are generic in T ~string; half of
// the inputs (by the parity of length + function code, so that a replay makes the same choice) are run at this
// type: a helper that goes through fmt / an interface would print the methods' text instead of the characters.
type c15Label string

func (l c15Label) String() string { return "label:" + string(l) }
func (l c15Label) Error() string  { return "err:" + string(l) }

func c15Ap(named bool, s string, plain func(string) string, nm func(c15Label) c15Label) string {
	if named {
		return string(nm(c15Label(s)))
	}
	return plain(s)
}

func execC15(in []int64) []int64 {
	r := &R{w: in}
	fn := r.Int()
	if fn == 17 || fn == 20 || fn == 21 {
		runes := r.Ints()
		switch fn {
		case 17:
			rs := make([]rune, len(runes))
			for i, x := range runes {
				rs[i] = rune(x)
			}
			return c15OkStr(string(rs))
		case 20:
			if len(runes) != 1 {
				return []int64{-1}
			}
			return []int64{int64(unicode.ToLower(rune(runes[0])))}
		default:
			if len(runes) != 1 {
				return []int64{-1}
			}
			return []int64{int64(unicode.ToUpper(rune(runes[0])))}
		}
	}
	s := r.Bytes()
	named := (len(s)+fn)%2 == 1
	one := func(f func() string) []int64 { o, _, _ := c15Str(f); return o }
	switch fn {
	case 1:
		off, ln := r.Int(), r.Int()
		return one(func() string {
			return c15Ap(named, s, func(x string) string { return gogu.Substr(x, off, ln) }, func(x c15Label) c15Label { return gogu.Substr(x, off, ln) })
		})
	case 2:
		idx := r.Int()
		var parts []string
		if try(func() {
			if named {
				for _, p := range gogu.SplitAtIndex(c15Label(s), idx) {
					parts = append(parts, string(p))
				}
				return
			}
			parts = gogu.SplitAtIndex(s, idx)
		}) {
			return resPanic()
		}
		w := (&W{}).Int(0).Int(len(parts))
		for _, p := range parts {
			w.Bytes(p)
		}
		return w.Out()
	case 3, 4, 5:
		size, tok := r.Int(), r.Bytes()
		return one(func() string {
			switch fn {
			case 3:
				return c15Ap(named, s, func(x string) string { return gogu.Pad(x, size, tok) }, func(x c15Label) c15Label { return gogu.Pad(x, size, tok) })
			case 4:
				return c15Ap(named, s, func(x string) string { return gogu.PadLeft(x, size, tok) }, func(x c15Label) c15Label { return gogu.PadLeft(x, size, tok) })
			}
			return c15Ap(named, s, func(x string) string { return gogu.PadRight(x, size, tok) }, func(x c15Label) c15Label { return gogu.PadRight(x, size, tok) })
		})
	case 6:
		tok := r.Bytes()
		return one(func() string {
			return c15Ap(named, s, func(x string) string { return gogu.Wrap(x, tok) }, func(x c15Label) c15Label { return gogu.Wrap(x, tok) })
		})
	case 7:
		tok := r.Bytes()
		return one(func() string {
			return c15Ap(named, s, func(x string) string { return gogu.Unwrap(x, tok) }, func(x c15Label) c15Label { return gogu.Unwrap(x, tok) })
		})
	case 8:
		tok := r.Bytes()
		return one(func() string {
			return c15Ap(named, s, func(x string) string { return gogu.WrapAllRune(x, tok) }, func(x c15Label) c15Label { return gogu.WrapAllRune(x, tok) })
		})
	case 9:
		return one(func() string {
			return c15Ap(named, s, func(x string) string { return gogu.ReverseStr(x) }, func(x c15Label) c15Label { return gogu.ReverseStr(x) })
		})
	case 10:
		return one(func() string {
			return c15Ap(named, s, func(x string) string { return gogu.ToLower(x) }, func(x c15Label) c15Label { return gogu.ToLower(x) })
		})
	case 11:
		return one(func() string {
			return c15Ap(named, s, func(x string) string { return gogu.ToUpper(x) }, func(x c15Label) c15Label { return gogu.ToUpper(x) })
		})
	case 12:
		return one(func() string {
			return c15Ap(named, s, func(x string) string { return gogu.Capitalize(x) }, func(x c15Label) c15Label { return gogu.Capitalize(x) })
		})
	case 13:
		return one(func() string {
			return c15Ap(named, s, func(x string) string { return gogu.CamelCase(x) }, func(x c15Label) c15Label { return gogu.CamelCase(x) })
		})
	case 14:
		return one(func() string {
			return c15Ap(named, s, func(x string) string { return gogu.SnakeCase(x) }, func(x c15Label) c15Label { return gogu.SnakeCase(x) })
		})
	case 15:
		return one(func() string {
			return c15Ap(named, s, func(x string) string { return gogu.KebabCase(x) }, func(x c15Label) c15Label { return gogu.KebabCase(x) })
		})
	case 16:
		var out []int64
		n := 0
		for i, c := range s {
			out = append(out, int64(i), int64(c))
			n++
		}
		return append([]int64{int64(n)}, out...)
	case 18:
		tok := r.Bytes()
		return one(func() string { return gogu.Unwrap(gogu.Wrap(s, tok), tok) })
	case 19:
		var out []int64
		twice := func(f func(string) string) {
			o1, ok, v1 := c15Str(func() string { return f(s) })
			out = append(out, o1...)
			if !ok {
				out = append(out, resPanic()...)
				return
			}
			o2, _, _ := c15Str(func() string { return f(v1) })
			out = append(out, o2...)
		}
		twice(func(x string) string { return gogu.SnakeCase(x) })
		twice(func(x string) string { return gogu.KebabCase(x) })
		return out
	case 22:
		return c15OkStr(c15RxSeps.ReplaceAllString(s, " "))
	case 23:
		idx := c15RxLowUp.FindAllStringIndex(s, -1)
		out := []int64{int64(len(idx))}
		for _, m := range idx {
			out = append(out, int64(m[0]), int64(m[1]))
		}
		return out
	case 24:
		return c15OkStr(strings.TrimSpace(s))
	case 25:
		parts := strings.Split(s, " ")
		w := (&W{}).Int(0).Int(len(parts))
		for _, p := range parts {
			w.Bytes(p)
		}
		return w.Out()
	case 26:
		tok := r.Bytes()
		return []int64{int64(strings.Index(s, tok)), int64(strings.LastIndex(s, tok))}
	}
	return []int64{-1}
}

func describeC15(in []int64) string {
	if len(in) == 0 {
		return ""
	}
	r := &R{w: in}
	fn := r.Int()
	if fn == 17 || fn == 20 || fn == 21 {
		return fmt.Sprintf("%s(%v)", c15Names[fn], r.Ints())
	}
	s := r.Bytes()
	switch fn {
	case 1:
		return fmt.Sprintf("Substr(%q, %d, %d)", s, r.Int(), r.Int())
	case 2:
		return fmt.Sprintf("SplitAtIndex(%q, %d)", s, r.Int())
	case 3, 4, 5:
		size := r.Int()
		return fmt.Sprintf("%s(%q, %d, %q)", c15Names[fn], s, size, r.Bytes())
	case 6, 7, 8, 18, 26:
		return fmt.Sprintf("%s(%q, %q)", c15Names[fn], s, r.Bytes())
	}
	return fmt.Sprintf("%s(%q)", c15Names[fn], s)
}

// stringsOver calls f with every concatenation of up to maxLen symbols of the alphabet, shortest first.
func c15StringsOver(alpha []string, maxLen int, f func(s string, nsym int)) {
	seqsUpTo(len(alpha), maxLen, func(seq []int) {
		var sb strings.Builder
		for _, v := range seq {
			sb.WriteString(alpha[v])
		}
		f(sb.String(), len(seq))
	})
}

// cased runes above U+00FF of the model's oracle table (C15_Model.tbl_extra, kept in step):
// 2-, 3- and 4-byte letters; ſ K İ ı Ⱥ ⱥ ẞ change their encoded width under a case mapping
var c15ExtraRunes = []rune{0x3C3, 0x3A3, 0x3C2, 0x17F, 0x212A, 0x130, 0x131, 0x23A, 0x2C65, 0xFF21, 0xFF41,
	0x10400, 0x10428, 0x39C, 0x3BC, 0x178, 0x1E9E, 0x416, 0x436, 0x1E00, 0x1E01}

const (
	c15MaxInt = int(^uint(0) >> 1)
	c15MinInt = -c15MaxInt - 1
)

func genC15(g *Gen) {
	emit := func(stream string, nt bool, w *W) {
		g.Count(c15Names[int(w.w[0])])
		g.Case(stream, nt, w.Out())
	}
	// the property's alphabet: ASCII lower/upper/digit, the token characters, one 2-byte rune
	alpha := []string{"a", "B", "1", " ", "-", "_", "é"}
	// alphabet for the functions that are pure byte arithmetic on the length (Substr, Pad*)
	alphaArith := []string{"a", "-", "é"}
	// tokens up to length 2 (in symbols) over {a, -, é}
	var tokens []string
	c15StringsOver(alphaArith, 2, func(t string, n int) {
		if n > 0 {
			tokens = append(tokens, t)
		}
	})
	L := g.Pick(4, 5)  // strings x tokens, SplitAtIndex
	L1 := g.Pick(5, 6) // the one-argument functions and the byte-arithmetic ones (the property's bound is 5)

	// --- exhaustive: content-sensitive functions over the full alphabet ---
	c15StringsOver(alpha, L1, func(s string, nsym int) {
		n := len(s)
		multi := n != nsym // contains a multi-byte rune
		g.Count(fmt.Sprintf("len=%d", n))
		for _, fn := range []int{9, 10, 11, 12, 16} {
			emit("exhaustive", multi || n > 1, (&W{}).Int(fn).Bytes(s))
		}
		for _, fn := range []int{13, 14, 15, 19} {
			emit("exhaustive", nsym > 1, (&W{}).Int(fn).Bytes(s))
		}
		if nsym > L {
			return
		}
		for idx := -3; idx <= n+3; idx++ {
			emit("exhaustive", idx >= 0 && idx < n, (&W{}).Int(2).Bytes(s).Int(idx))
		}
		for _, t := range tokens {
			inside := n > 0 && strings.Contains(s, t)
			emit("exhaustive", n > 0, (&W{}).Int(6).Bytes(s).Bytes(t))
			emit("exhaustive", inside, (&W{}).Int(7).Bytes(s).Bytes(t))
			emit("exhaustive", n > 1, (&W{}).Int(8).Bytes(s).Bytes(t))
			emit("exhaustive", inside, (&W{}).Int(18).Bytes(s).Bytes(t))
			if nsym <= 3 {
				emit("exhaustive", inside, (&W{}).Int(26).Bytes(s).Bytes(t))
			}
			if inside {
				g.Count("token-occurs-in-text")
			}
			if strings.HasPrefix(s, t) != strings.HasSuffix(s, t) {
				g.Count("token-at-one-end-only")
			}
			if n < 2*len(t) && n > len(t) && strings.HasPrefix(s, t) && strings.HasSuffix(s, t) {
				g.Count("token-overlaps-itself-at-both-ends")
			}
		}
	})
	// --- exhaustive: Substr and Pad* over {a,-,é}: every offset/length in [-len-3, len+3], every
	//     size in [len-3, len+9] (from len+4 on Pad repeats 2-byte tokens, from len+8 4-byte ones) ---
	c15StringsOver(alphaArith, L1, func(s string, nsym int) {
		n := len(s)
		for off := -n - 3; off <= n+3; off++ {
			for ln := -n - 3; ln <= n+3; ln++ {
				emit("exhaustive", n > 0, (&W{}).Int(1).Bytes(s).Int(off).Int(ln))
			}
		}
		if nsym > L {
			return
		}
		for size := n - 3; size <= n+9; size++ {
			for _, t := range tokens {
				for _, fn := range []int{3, 4, 5} {
					emit("exhaustive", size > n, (&W{}).Int(fn).Bytes(s).Int(size).Bytes(t))
				}
				if size > n && len(t) > 1 && (size-n)/2 >= len(t) {
					g.Count("Pad-repeats-multibyte-token")
				}
			}
		}
	})
	// --- exhaustive: the case styles over the word alphabet with '&', over the letters at the ends
	//     of the ranges, and with the regexp's ö/Ö ---
	c15StringsOver([]string{"a", "B", "1", " ", "-", "_", "&"}, L1, func(s string, nsym int) {
		for _, fn := range []int{13, 14, 15, 19} {
			emit("exhaustive", nsym > 1, (&W{}).Int(fn).Bytes(s))
		}
	})
	c15StringsOver([]string{"z", "Z", "A", "0", "9", "_"}, L, func(s string, nsym int) {
		for _, fn := range []int{10, 11, 12, 13, 14, 15, 19} {
			emit("exhaustive", nsym > 1, (&W{}).Int(fn).Bytes(s))
		}
	})
	c15StringsOver([]string{"a", "B", "ö", "Ö", " ", "_"}, L, func(s string, nsym int) {
		for _, fn := range []int{10, 11, 12, 13, 14, 15} {
			emit("exhaustive", nsym > 1, (&W{}).Int(fn).Bytes(s))
		}
	})
	// --- exhaustive: every 1- and 2-byte string through the range loop (Utf8.decode); every single
	//     byte, alone and after 'a', through the rune-wise functions ---
	for a := 0; a < 256; a++ {
		one := string([]byte{byte(a)})
		emit("exhaustive", a >= 128, (&W{}).Int(16).Bytes(one))
		for b := 0; b < 256; b++ {
			emit("exhaustive", a >= 128 || b >= 128, (&W{}).Int(16).Bytes(string([]byte{byte(a), byte(b)})))
		}
		for _, fn := range []int{9, 10, 11, 12} {
			emit("exhaustive", true, (&W{}).Int(fn).Bytes(one))
			emit("exhaustive", true, (&W{}).Int(fn).Bytes("a"+one))
		}
		emit("exhaustive", true, (&W{}).Int(8).Bytes("a"+one).Bytes("-"))
	}
	// the oracle table against package unicode on the whole domain the generators use:
	// U+0000..U+00FF, the cased runes of tbl_extra and the caseless runes below
	extraRunes := []int{0xFFFD, 0x20AC, 0x2003, 0x3000, 0x1F600, 0x4E16}
	for _, x := range c15ExtraRunes {
		extraRunes = append(extraRunes, int(x))
	}
	for rr := 0; rr < 256; rr++ {
		emit("exhaustive", true, (&W{}).Int(20).Ints([]int{rr}))
		emit("exhaustive", true, (&W{}).Int(21).Ints([]int{rr}))
	}
	for _, rr := range extraRunes {
		emit("exhaustive", true, (&W{}).Int(20).Ints([]int{rr}))
		emit("exhaustive", true, (&W{}).Int(21).Ints([]int{rr}))
	}
	// --- exhaustive: letters outside ASCII ALONE (no ASCII letter in the string) and next to ASCII:
	//     é É ö Ö ß µ ÿ and every cased rune of tbl_extra ---
	nonASCII := []string{"é", "É", "ö", "Ö", "ß", "µ", "ÿ", "×"}
	for _, x := range c15ExtraRunes {
		nonASCII = append(nonASCII, string(x))
	}
	for _, x := range nonASCII {
		for _, s := range []string{x, x + x, "1" + x, x + " ", "-" + x + "_", "a" + x, x + "a", "B" + x, x + "B", x + "\xff" + x} {
			g.Count("non-ASCII-letter-input")
			for _, fn := range []int{9, 10, 11, 12, 13, 14, 15, 16} {
				emit("exhaustive", true, (&W{}).Int(fn).Bytes(s))
			}
			emit("exhaustive", true, (&W{}).Int(8).Bytes(s).Bytes("é"))
		}
	}
	// string([]rune): boundaries of every encoding length, surrogates, out of range
	for _, rr := range []int{-1, 0, 0x7F, 0x80, 0x7FF, 0x800, 0xD7FF, 0xD800, 0xDFFF, 0xE000, 0xFFFD, 0xFFFF, 0x10000, 0x10FFFF, 0x110000} {
		emit("exhaustive", true, (&W{}).Int(17).Ints([]int{rr}))
		emit("exhaustive", true, (&W{}).Int(17).Ints([]int{97, rr, 98}))
	}
	// --- exhaustive: tokens that overlap themselves (a proper border), up to 7 bytes: every prefix
	//     of token^4, bare and after one other byte, through Unwrap / Unwrap(Wrap) / Index+LastIndex ---
	for _, t := range []string{"aa", "aaa", "aba", "abab", "abaab", "--", "éé", "\xa9\xc3\xa9", "a-a-a", "ééé", "abcabca"} {
		rep := strings.Repeat(t, 4)
		for k := 0; k <= len(rep); k++ {
			for _, s := range []string{rep[:k], "x" + rep[:k], rep[:k] + "x"} {
				ov := len(s) > len(t) && len(s) < 2*len(t) && strings.HasPrefix(s, t) && strings.HasSuffix(s, t)
				if ov {
					g.Count("token-overlaps-itself-at-both-ends")
				}
				emit("exhaustive", true, (&W{}).Int(7).Bytes(s).Bytes(t))
				emit("exhaustive", true, (&W{}).Int(18).Bytes(s).Bytes(t))
				emit("exhaustive", true, (&W{}).Int(26).Bytes(s).Bytes(t))
			}
		}
	}
	// --- exhaustive: the model's hand-written scanners against the Go library itself: the two
	//     regular expressions, strings.Split(_, " ") and strings.TrimSpace ---
	c15StringsOver([]string{"a", "B", "ö", "Ö", "-", "&", " ", "\xc3", "1"}, L, func(s string, nsym int) {
		for _, fn := range []int{22, 23, 25} {
			emit("exhaustive", nsym > 1, (&W{}).Int(fn).Bytes(s))
		}
	})
	c15StringsOver([]string{"a", " ", "\t", "\u00a0", "\u0085", "\u2003", "\u3000", "\xc2", "\xe2\x80"}, L, func(s string, nsym int) {
		emit("exhaustive", nsym > 1, (&W{}).Int(24).Bytes(s))
	})
	g.Exhaustive("exhaustive")

	// --- seeded random longer inputs ---
	// items whose concatenations decode only to runes inside the oracle table's domain:
	// ASCII, 2-byte Latin-1 (lead C2/C3), the cased runes of tbl_extra, complete caseless 3/4-byte
	// runes, and bytes that are invalid wherever they stand (C0 C1 F5..FF) or are continuation bytes
	var items []string
	for c := 0; c < 128; c++ {
		items = append(items, string([]byte{byte(c)}))
	}
	wordy := []string{"a", "b", "z", "A", "B", "Z", "0", "9", " ", " ", "-", "_", "&", "é", "É", "ö", "Ö", "foo", "Bar", "BAZ", "\t", "\n", " ", " "}
	bytey := []string{"\x80", "\xbf", "\xc2", "\xc3", "\xc0", "\xc1", "\xf5", "\xff", "€", "\U0001F600", "�", "世", "ß", "µ", "ÿ", "×", "\u00a0", "\u0085", "\u2003", "\u3000"}
	var cased []string
	for _, x := range c15ExtraRunes {
		cased = append(cased, string(x))
	}
	randStr := func(maxItems int, pools ...[]string) string {
		var sb strings.Builder
		k := g.Rng.Intn(maxItems + 1)
		for i := 0; i < k; i++ {
			p := pools[g.Rng.Intn(len(pools))]
			sb.WriteString(p[g.Rng.Intn(len(p))])
		}
		return sb.String()
	}
	randBytes := func(maxLen int) string {
		b := make([]byte, g.Rng.Intn(maxLen+1))
		for i := range b {
			switch g.Rng.Intn(4) {
			case 0:
				b[i] = byte(g.Rng.Intn(128))
			case 1:
				b[i] = byte(0x80 + g.Rng.Intn(64))
			default:
				b[i] = byte(0xC0 + g.Rng.Intn(64))
			}
		}
		return string(b)
	}
	nr := g.Pick(6000, 60000)
	for i := 0; i < nr; i++ {
		fn := 1 + g.Rng.Intn(19)
		if g.Rng.Intn(12) == 0 {
			fn = 22 + g.Rng.Intn(5)
		}
		w := (&W{}).Int(fn)
		switch fn {
		case 1:
			s := randStr(20, wordy, bytey)
			n := len(s)
			w.Bytes(s).Int(g.Rng.Intn(2*n+8) - n - 4).Int(g.Rng.Intn(2*n+8) - n - 4)
		case 2:
			s := randStr(20, wordy, bytey)
			w.Bytes(s).Int(g.Rng.Intn(len(s)+6) - 3)
		case 3, 4, 5:
			s := randStr(12, wordy, bytey)
			tok := randStr(4, wordy, bytey)
			if tok == "" {
				tok = "."
			}
			w.Bytes(s).Int(len(s) - 3 + g.Rng.Intn(30)).Bytes(tok)
		case 6, 7, 8, 18, 26:
			tok := randStr(3, wordy, bytey)
			s := randStr(12, wordy, bytey)
			switch g.Rng.Intn(4) { // make wrapped / half-wrapped / token-inside inputs likely
			case 0:
				s = tok + s + tok
			case 1:
				s = tok + s
			case 2:
				s = s + tok + randStr(3, wordy)
			}
			w.Bytes(s).Bytes(tok)
		case 9, 10, 11, 12:
			w.Bytes(randStr(16, wordy, bytey, items, cased))
		case 13, 14, 15, 19:
			if g.Rng.Intn(4) == 0 {
				w.Bytes(randStr(16, wordy, bytey, cased))
			} else {
				w.Bytes(randStr(16, wordy))
			}
		case 16:
			if g.Rng.Intn(2) == 0 {
				w.Bytes(randBytes(12))
			} else {
				w.Bytes(randStr(10, wordy, bytey, cased))
			}
		case 17:
			k := g.Rng.Intn(8)
			rs := make([]int, k)
			for j := range rs {
				switch g.Rng.Intn(5) {
				case 0:
					rs[j] = g.Rng.Intn(128)
				case 1:
					rs[j] = g.Rng.Intn(0x800)
				case 2:
					rs[j] = 0xD000 + g.Rng.Intn(0x2000)
				case 3:
					rs[j] = g.Rng.Intn(0x120000)
				default:
					rs[j] = -g.Rng.Intn(5)
				}
			}
			w.Ints(rs)
		case 22, 23, 24, 25:
			if g.Rng.Intn(2) == 0 {
				w.Bytes(randBytes(14))
			} else {
				w.Bytes(randStr(14, wordy, bytey, cased))
			}
		}
		emit("random", true, w)
	}

	// --- extreme: arguments at the ends of the int range and around 2^31, 2^32, 2^53, 2^62 ---
	// (Substr adds offset and length: the model carries the 64-bit wrap-around; SplitAtIndex only
	// compares; Pad* with a giant positive size would really allocate it: only sizes <= len there)
	var ext []int
	for k := 0; k <= 5; k++ {
		ext = append(ext, c15MaxInt-k, c15MinInt+k)
	}
	for _, e := range []int{31, 32, 53, 62} {
		p := 1 << uint(e)
		ext = append(ext, p, -p, p-1, -p-1, p+1, -p+1)
	}
	small := []int{-5, -4, -3, -2, -1, 0, 1, 2, 3, 4, 5}
	isExt := func(x int) bool { return x > 1<<30 || x < -(1<<30) }
	extStrs := []string{"", "a", "abc", "aé-", strings.Repeat("xyé", 100)}
	both := append(append([]int{}, ext...), small...)
	for _, s := range extStrs {
		n := len(s)
		near := []int{n - 1, n, n + 1, -n, -n - 1, -n + 1}
		offs := append(append([]int{}, both...), near...)
		for _, off := range offs {
			for _, ln := range offs {
				if !isExt(off) && !isExt(ln) {
					continue
				}
				emit("extreme", true, (&W{}).Int(1).Bytes(s).Int(off).Int(ln))
			}
			// the exact edge of the overflow of start + length
			if !isExt(off) {
				start := off
				if off < 0 {
					start = n + off
				}
				for d := -2; d <= 2; d++ {
					if ln := c15MaxInt - start + d; start >= 0 && ln > 0 && ln <= c15MaxInt && (d <= 0 || start > 0) {
						g.Count("Substr-start+length-around-MaxInt")
						emit("extreme", true, (&W{}).Int(1).Bytes(s).Int(off).Int(ln))
					}
				}
			}
		}
		for _, idx := range ext {
			emit("extreme", true, (&W{}).Int(2).Bytes(s).Int(idx))
		}
		for _, size := range ext {
			if size > n {
				continue
			}
			for _, t := range []string{"-", "é", "ab"} {
				for _, fn := range []int{3, 4, 5} {
					emit("extreme", true, (&W{}).Int(fn).Bytes(s).Int(size).Bytes(t))
				}
			}
		}
	}

	// --- large: strings of 100..5000 bytes, tokens of 3..40 bytes, paddings of thousands of bytes ---
	ascii := []string{"a", "b", "q", "z", "A", "B", "Q", "Z", "0", "7", "9"}
	seps := []string{" ", "-", "_", "&", "  ", "_-", " & "}
	r2 := []string{"é", "É", "ö", "Ö", "ß", "ÿ", "µ", "\u03c3", "\u03a3", "\u0416", "\u0436", "\u017f", "\u0131", "\u0130", "\u023a", "\u00a0"}
	r3 := []string{"€", "世", "\u212a", "\u2c65", "\uff21", "\uff41", "\u1e9e", "\u1e00", "\u1e01", "\u2003", "\ufffd"}
	r4 := []string{"\U0001F600", "\U00010400", "\U00010428", "\U0001F680"}
	bad := []string{"\xff", "\xc3", "\x80", "\xc0", "\xf5"}
	// a string of about nbytes bytes from the pools (weights: how often each pool is drawn)
	bigStr := func(nbytes int, pools ...[]string) string {
		var sb strings.Builder
		for sb.Len() < nbytes {
			p := pools[g.Rng.Intn(len(pools))]
			sb.WriteString(p[g.Rng.Intn(len(p))])
		}
		return sb.String()
	}
	sizes := []int{100, 127, 128, 255, 256, 257, 300, 511, 512, 513, 1000, 1023, 1024, 1025, 2047, 2048, 2049, 3000, 4095, 4096, 4097, 5000}
	pickSize := func(i int) int {
		if i < 4 {
			return 100 + i // the first cases of the stream end up as samples in the evidence: keep them short
		}
		return sizes[g.Rng.Intn(len(sizes))]
	}
	// a token of 3..40 bytes; every other one overlaps itself (period shorter than the token)
	bigTok := func() string {
		k := 3 + g.Rng.Intn(38)
		var t string
		switch g.Rng.Intn(4) {
		case 0: // periodic: self-overlapping with a long border
			unit := bigStr(1+g.Rng.Intn(4), ascii, r2, []string{"-", "'", "*"})
			t = strings.Repeat(unit, k/len(unit)+1)
			for len(t) > k {
				t = t[:len(t)-1]
			}
			if len(t) < 3 {
				t = "aaa"
			}
		case 1: // one repeated byte
			t = strings.Repeat(string("a-*'"[g.Rng.Intn(4)]), k)
		default:
			t = bigStr(k, ascii, r2, r3, r4, []string{"-", "'", "*", "<", ">"})
		}
		return t
	}
	nl := g.Pick(32, 300)
	for i := 0; i < nl; i++ {
		nb := pickSize(i)
		// Substr, SplitAtIndex: byte arithmetic on a long string
		{
			s := bigStr(nb, ascii, r2, r3, r4, bad)
			n := len(s)
			edge := []int{0, 1, -1, n - 1, n, n + 1, -n, -n + 1, -n - 1, n / 2, -n / 2, 255, 256, 4095, 4096, g.Rng.Intn(n), -g.Rng.Intn(n)}
			for j := 0; j < 6; j++ {
				emit("large", true, (&W{}).Int(1).Bytes(s).Int(edge[g.Rng.Intn(len(edge))]).Int(edge[g.Rng.Intn(len(edge))]))
			}
			emit("large", true, (&W{}).Int(1).Bytes(s).Int(edge[g.Rng.Intn(len(edge))]).Int(c15MaxInt-g.Rng.Intn(n+2)))
			for j := 0; j < 3; j++ {
				emit("large", true, (&W{}).Int(2).Bytes(s).Int(edge[g.Rng.Intn(len(edge))]))
			}
		}
		// Pad*: thousands of bytes of padding from tokens of 3..40 bytes
		{
			s := bigStr(g.Rng.Intn(300), ascii, r2, r4)
			t := bigTok()
			size := len(s) + 1000 + g.Rng.Intn(5000)
			for _, fn := range []int{3, 4, 5} {
				g.Count("Pad-thousands-of-bytes")
				emit("large", true, (&W{}).Int(fn).Bytes(s).Int(size).Bytes(t))
			}
			// a short token repeated thousands of times
			t3 := bigStr(3+g.Rng.Intn(3), ascii, r2, []string{"-", "'", "*"})
			size = len(s) + 3000 + g.Rng.Intn(6000)
			for _, fn := range []int{3, 4, 5} {
				g.Count("Pad-thousands-of-repeats")
				emit("large", true, (&W{}).Int(fn).Bytes(s).Int(size).Bytes(t3))
			}
			// and a long string that is long enough, or one byte short
			s2 := bigStr(nb, ascii, r2)
			emit("large", true, (&W{}).Int(3+g.Rng.Intn(3)).Bytes(s2).Int(len(s2)+g.Rng.Intn(3)-1).Bytes(t))
		}
		// Wrap / Unwrap / Unwrap(Wrap) / Index+LastIndex with long tokens
		{
			t := bigTok()
			m := bigStr(nb, ascii, r2, r3, bad)
			var s string
			// a near miss of the token: one byte changed at its far end / near end / middle
			miss := func(pos int) string {
				b := []byte(t)
				b[pos] ^= 1
				return string(b)
			}
			switch g.Rng.Intn(9) {
			case 0:
				s = t + m + t
			case 1:
				s = t + m
			case 2:
				s = m + t
			case 6:
				s = miss(len(t)-1) + m + t
			case 7:
				s = t + m + miss(0)
			case 8:
				s = t + m + miss(len(t)/2)
			case 3: // starts and ends with t through overlapping occurrences only (when t has a border)
				s = t + t[len(t)-1-g.Rng.Intn(len(t)-1):]
			case 4:
				s = t + t + m[:len(m)/2] + t + m[len(m)/2:] + t
			default:
				s = m[:len(m)/2] + t + m[len(m)/2:]
			}
			if len(s) > len(t) && len(s) < 2*len(t) && strings.HasPrefix(s, t) && strings.HasSuffix(s, t) {
				g.Count("token-overlaps-itself-at-both-ends")
			}
			emit("large", true, (&W{}).Int(7).Bytes(s).Bytes(t))
			emit("large", true, (&W{}).Int(26).Bytes(s).Bytes(t))
			emit("large", true, (&W{}).Int(18).Bytes(m).Bytes(t))
			emit("large", true, (&W{}).Int(6).Bytes(m).Bytes(t))
		}
		// rune-wise functions: 1..4-byte runes, shifted by 0..3 bytes so that multi-byte runes straddle
		// every power-of-two offset in some case; stray bytes in one case out of three
		{
			pools := [][]string{ascii, r2, r3, r4, r4}
			if i%3 == 2 {
				pools = append(pools, bad)
			}
			nbr := nb
			if nbr > 2600 {
				nbr = 2600 // the model's ReverseStr is the quadratic swap loop on a list
			}
			s := strings.Repeat("x", i%4) + bigStr(nbr, pools...)
			for _, fn := range []int{9, 10, 11, 12, 16} {
				emit("large", true, (&W{}).Int(fn).Bytes(s))
			}
			s4 := strings.Repeat("y", i%4) + bigStr(nbr, r4)
			emit("large", true, (&W{}).Int(9).Bytes(s4))
			sw := s
			if len(sw) > 700 {
				sw = sw[:700]
			}
			emit("large", true, (&W{}).Int(8).Bytes(sw).Bytes(bigTok()))
			emit("large", true, (&W{}).Int(8).Bytes(s4).Bytes("é"))
		}
		// case styles: many words, long words, many lower/upper transitions inside one word
		{
			var sb strings.Builder
			switch i % 3 {
			case 0: // many short words
				for sb.Len() < nb {
					sb.WriteString(bigStr(1+g.Rng.Intn(6), ascii))
					sb.WriteString(seps[g.Rng.Intn(len(seps))])
				}
			case 1: // one long word, hundreds of transitions
				nw := nb
				if nw > 2048 {
					nw = 2048 // the model re-copies its output buffer at every transition
				}
				sb.WriteString(bigStr(nw, []string{"a", "b", "z", "A", "B", "Z", "0", "9"}))
			default: // long words
				for sb.Len() < nb {
					sb.WriteString(bigStr(200+g.Rng.Intn(400), ascii))
					sb.WriteString(seps[g.Rng.Intn(len(seps))])
				}
			}
			s := sb.String()
			g.Count("case-style-large-input")
			for _, fn := range []int{13, 14, 15} {
				emit("large", true, (&W{}).Int(fn).Bytes(s))
			}
			if i%2 == 0 {
				emit("large", true, (&W{}).Int(19).Bytes(s))
			}
			emit("large", true, (&W{}).Int(22+g.Rng.Intn(4)).Bytes(s))
		}
	}

	// --- malformed: empty tokens, far-out-of-window numbers, bytes that are not UTF-8 ---
	for _, s := range []string{"", "a", "ab", "é", "a-é"} {
		n := len(s)
		emit("malformed", true, (&W{}).Int(6).Bytes(s).Bytes(""))
		emit("malformed", true, (&W{}).Int(7).Bytes(s).Bytes(""))
		emit("malformed", true, (&W{}).Int(8).Bytes(s).Bytes(""))
		emit("malformed", true, (&W{}).Int(18).Bytes(s).Bytes(""))
		emit("malformed", true, (&W{}).Int(26).Bytes(s).Bytes(""))
		for size := n - 1; size <= n+3; size++ {
			for _, fn := range []int{3, 4, 5} {
				emit("malformed", true, (&W{}).Int(fn).Bytes(s).Int(size).Bytes(""))
			}
		}
		for _, big := range []int{-1 << 40, -1000, 1000, 1 << 40} {
			emit("malformed", true, (&W{}).Int(1).Bytes(s).Int(big).Int(1))
			emit("malformed", true, (&W{}).Int(1).Bytes(s).Int(0).Int(big))
			emit("malformed", true, (&W{}).Int(1).Bytes(s).Int(big).Int(big))
			emit("malformed", true, (&W{}).Int(2).Bytes(s).Int(big))
		}
		for _, neg := range []int{-1 << 40, -1000} { // only negative sizes: no giant allocations
			for _, fn := range []int{3, 4, 5} {
				emit("malformed", true, (&W{}).Int(fn).Bytes(s).Int(neg).Bytes("x"))
			}
		}
	}
	for _, s := range []string{"\xc3", "a\xc3", "\xa9", "\xc3\xc3\xa9", "\xe2\x82", "\xf0\x9f\x98", "\xed\xa0\x80", "\xc0\xaf", "\xf4\x90\x80\x80"} {
		for _, fn := range []int{9, 10, 11, 12, 13, 14, 15, 16, 22, 23, 24, 25} {
			emit("malformed", true, (&W{}).Int(fn).Bytes(s))
		}
		for idx := -1; idx <= len(s); idx++ {
			emit("malformed", true, (&W{}).Int(2).Bytes(s).Int(idx))
		}
		emit("malformed", true, (&W{}).Int(7).Bytes(s+"a"+s).Bytes(s))
		emit("malformed", true, (&W{}).Int(7).Bytes("é").Bytes(s))
		emit("malformed", true, (&W{}).Int(8).Bytes(s).Bytes("-"))
	}
}

func init() {
	register(&Prop{ID: "C15", Exec: execC15, Gen: genC15, Describe: describeC15,
		Rule: "exhaustive: every string of <= 5 (thorough 6) symbols over {a,B,1,space,-,_,é(2 bytes)} x {ReverseStr, ToLower, ToUpper, Capitalize, range loop, CamelCase, SnakeCase, KebabCase, Snake/Kebab twice}; every such string of <= 4 (5) symbols x {SplitAtIndex with every index in [-3,len+3] (inside runes included); Wrap/Unwrap/WrapAllRune/Unwrap(Wrap) with every token of 1-2 symbols over {a,-,é}}; every string of <= 5 (6) symbols over {a,-,é} x Substr with every (offset,length) in [-len-3,len+3]^2, of <= 4 (5) symbols x Pad/PadLeft/PadRight with every size in [len-3,len+9] and every token; the case styles again over {a,B,1,space,-,_,&} (<= 5 (6)), {z,Z,A,0,9,_} and {a,B,ö,Ö,space,_}; every byte alone and after a through the rune-wise functions; all 1- and 2-byte strings through the range loop; every cased rune of the oracle table (Latin-1 letters, σ Σ ς ſ K İ ı Ⱥ ⱥ Ａ ａ 𐐀 𐐨 Μ μ Ÿ ẞ Ж ж Ḁ ḁ) ALONE and next to ASCII through ReverseStr/ToLower/ToUpper/Capitalize/the case styles; the case table against package unicode on U+0000..U+00FF and every other rune the generators use; string([]rune) at every encoding boundary; self-overlapping tokens up to 7 bytes against every prefix of token^4 through Unwrap; the hand-written scanners of the model against the Go library itself (regexp [-_&]+ ReplaceAllString, regexp [a-zö][A-ZÖ]+ FindAllStringIndex, strings.Split, strings.TrimSpace, strings.Index/LastIndex) on all strings of <= 4 (5) symbols over small alphabets with stray bytes. random: 6000 (60000) calls on strings of up to 20 items drawn from words/separators/Latin-1 and other cased letters/white space and from invalid or truncated UTF-8 (all inside the case table domain), wrapped/half-wrapped inputs for Unwrap. extreme: Substr with offset/length, SplitAtIndex with index, Pad* with size (<= len only: a giant size would be allocated) in {MaxInt-k, MinInt+k (k<=5), +-2^31, +-2^32, +-2^53, +-2^62, each +-1} x small values, and start+length within 2 of MaxInt. large: 32 (300) rounds of strings of 100..5000 bytes (1- to 4-byte runes shifted by 0..3 bytes, stray bytes), tokens of 3..40 bytes (half of them self-overlapping), paddings of 1000..9000 bytes, wrapped / near-miss / overlapping inputs for Unwrap, texts of hundreds of words, words of hundreds of letters and of hundreds of lower/upper transitions for the case styles. malformed: empty tokens, numbers far outside the window, truncated/overlong/surrogate byte sequences. non-trivial = non-empty text for Substr/Wrap, index inside the string for SplitAtIndex, size > len for Pad*, token occurring in the text for Unwrap, a multi-byte rune or >= 2 symbols for the rune-wise functions, >= 2 symbols for the case styles, every extreme/large/random/malformed case; distinct = distinct wire input"})
}
