package main

import (
	"fmt"
	"strings"
	"unicode"

	"github.com/esimov/gogu"
)

// C15 wire input: fn :: Bytes(s) ++ args   (mirror of coq/theories/C15_Wire.v)
//
//	1 Substr s off len            2 SplitAtIndex s idx
//	3 Pad s size tok              4 PadLeft s size tok        5 PadRight s size tok
//	6 Wrap s tok                  7 Unwrap s tok              8 WrapAllRune s tok
//	9 ReverseStr s               10 ToLower s                11 ToUpper s
//	12 Capitalize s              13 CamelCase s              14 SnakeCase s
//	15 KebabCase s               16 for i, r := range s      17 string([]rune) (s = runes)
//	18 Unwrap(Wrap(s,tok),tok)   19 Snake, Snake(Snake), Kebab, Kebab(Kebab)
//	20 unicode.ToLower(r)        21 unicode.ToUpper(r)        (s = [r])
//
// output: enc_res of the returned string(s): 0 len bytes... | 2 (panic)
var c15Names = map[int]string{1: "Substr", 2: "SplitAtIndex", 3: "Pad", 4: "PadLeft", 5: "PadRight", 6: "Wrap",
	7: "Unwrap", 8: "WrapAllRune", 9: "ReverseStr", 10: "ToLower", 11: "ToUpper", 12: "Capitalize", 13: "CamelCase",
	14: "SnakeCase", 15: "KebabCase", 16: "range", 17: "string([]rune)", 18: "Unwrap(Wrap)", 19: "CaseLaws",
	20: "unicode.ToLower", 21: "unicode.ToUpper"}

func c15OkStr(s string) []int64 {
	out := []int64{0, int64(len(s))}
	for i := 0; i < len(s); i++ {
		out = append(out, int64(s[i]))
	}
	return out
}

// c15Str runs f, recovering a panic: enc_res enc_zs
func c15Str(f func() string) (out []int64, ok bool, val string) {
	var s string
	if try(func() { s = f() }) {
		return resPanic(), false, ""
	}
	return c15OkStr(s), true, s
}

func execC15(in []int64) []int64 {
	r := &R{w: in}
	fn := r.Int()
	if fn == 17 || fn == 20 || fn == 21 {
		runes := r.Ints()
		switch fn {
		case 17:
			rs := make([]rune, len(runes))
			for i, x := range runes {
				rs[i] = rune(x)
			}
			return c15OkStr(string(rs))
		case 20:
			if len(runes) != 1 {
				return []int64{-1}
			}
			return []int64{int64(unicode.ToLower(rune(runes[0])))}
		default:
			if len(runes) != 1 {
				return []int64{-1}
			}
			return []int64{int64(unicode.ToUpper(rune(runes[0])))}
		}
	}
	s := r.Bytes()
	one := func(f func() string) []int64 { o, _, _ := c15Str(f); return o }
	switch fn {
	case 1:
		off, ln := r.Int(), r.Int()
		return one(func() string { return gogu.Substr(s, off, ln) })
	case 2:
		idx := r.Int()
		var parts []string
		if try(func() { parts = gogu.SplitAtIndex(s, idx) }) {
			return resPanic()
		}
		w := (&W{}).Int(0).Int(len(parts))
		for _, p := range parts {
			w.Bytes(p)
		}
		return w.Out()
	case 3, 4, 5:
		size, tok := r.Int(), r.Bytes()
		return one(func() string {
			switch fn {
			case 3:
				return gogu.Pad(s, size, tok)
			case 4:
				return gogu.PadLeft(s, size, tok)
			}
			return gogu.PadRight(s, size, tok)
		})
	case 6:
		tok := r.Bytes()
		return one(func() string { return gogu.Wrap(s, tok) })
	case 7:
		tok := r.Bytes()
		return one(func() string { return gogu.Unwrap(s, tok) })
	case 8:
		tok := r.Bytes()
		return one(func() string { return gogu.WrapAllRune(s, tok) })
	case 9:
		return one(func() string { return gogu.ReverseStr(s) })
	case 10:
		return one(func() string { return gogu.ToLower(s) })
	case 11:
		return one(func() string { return gogu.ToUpper(s) })
	case 12:
		return one(func() string { return gogu.Capitalize(s) })
	case 13:
		return one(func() string { return gogu.CamelCase(s) })
	case 14:
		return one(func() string { return gogu.SnakeCase(s) })
	case 15:
		return one(func() string { return gogu.KebabCase(s) })
	case 16:
		var out []int64
		n := 0
		for i, c := range s {
			out = append(out, int64(i), int64(c))
			n++
		}
		return append([]int64{int64(n)}, out...)
	case 18:
		tok := r.Bytes()
		return one(func() string { return gogu.Unwrap(gogu.Wrap(s, tok), tok) })
	case 19:
		var out []int64
		twice := func(f func(string) string) {
			o1, ok, v1 := c15Str(func() string { return f(s) })
			out = append(out, o1...)
			if !ok {
				out = append(out, resPanic()...)
				return
			}
			o2, _, _ := c15Str(func() string { return f(v1) })
			out = append(out, o2...)
		}
		twice(func(x string) string { return gogu.SnakeCase(x) })
		twice(func(x string) string { return gogu.KebabCase(x) })
		return out
	}
	return []int64{-1}
}

func describeC15(in []int64) string {
	if len(in) == 0 {
		return ""
	}
	r := &R{w: in}
	fn := r.Int()
	if fn == 17 || fn == 20 || fn == 21 {
		return fmt.Sprintf("%s(%v)", c15Names[fn], r.Ints())
	}
	s := r.Bytes()
	switch fn {
	case 1:
		return fmt.Sprintf("Substr(%q, %d, %d)", s, r.Int(), r.Int())
	case 2:
		return fmt.Sprintf("SplitAtIndex(%q, %d)", s, r.Int())
	case 3, 4, 5:
		size := r.Int()
		return fmt.Sprintf("%s(%q, %d, %q)", c15Names[fn], s, size, r.Bytes())
	case 6, 7, 8, 18:
		return fmt.Sprintf("%s(%q, %q)", c15Names[fn], s, r.Bytes())
	}
	return fmt.Sprintf("%s(%q)", c15Names[fn], s)
}

// stringsOver calls f with every concatenation of up to maxLen symbols of the alphabet, shortest first.
func c15StringsOver(alpha []string, maxLen int, f func(s string, nsym int)) {
	seqsUpTo(len(alpha), maxLen, func(seq []int) {
		var sb strings.Builder
		for _, v := range seq {
			sb.WriteString(alpha[v])
		}
		f(sb.String(), len(seq))
	})
}

func genC15(g *Gen) {
	emit := func(stream string, nt bool, w *W) {
		g.Count(c15Names[int(w.w[0])])
		g.Case(stream, nt, w.Out())
	}
	// the property's alphabet: ASCII lower/upper/digit, the token characters, one 2-byte rune
	alpha := []string{"a", "B", "1", " ", "-", "_", "é"}
	// alphabet for the functions that are pure byte arithmetic on the length (Substr, Pad*)
	alphaArith := []string{"a", "-", "é"}
	// tokens up to length 2 (in symbols) over {a, -, é}
	var tokens []string
	c15StringsOver(alphaArith, 2, func(t string, n int) {
		if n > 0 {
			tokens = append(tokens, t)
		}
	})
	L := g.Pick(4, 5)

	// --- exhaustive: content-sensitive functions over the full alphabet ---
	c15StringsOver(alpha, L, func(s string, nsym int) {
		n := len(s)
		multi := n != nsym // contains a multi-byte rune
		g.Count(fmt.Sprintf("len=%d", n))
		for idx := -3; idx <= n+3; idx++ {
			emit("exhaustive", idx >= 0 && idx < n, (&W{}).Int(2).Bytes(s).Int(idx))
		}
		for _, t := range tokens {
			inside := n > 0 && strings.Contains(s, t)
			emit("exhaustive", n > 0, (&W{}).Int(6).Bytes(s).Bytes(t))
			emit("exhaustive", inside, (&W{}).Int(7).Bytes(s).Bytes(t))
			emit("exhaustive", n > 1, (&W{}).Int(8).Bytes(s).Bytes(t))
			emit("exhaustive", inside, (&W{}).Int(18).Bytes(s).Bytes(t))
			if inside {
				g.Count("token-occurs-in-text")
			}
			if strings.HasPrefix(s, t) != strings.HasSuffix(s, t) {
				g.Count("token-at-one-end-only")
			}
		}
		for _, fn := range []int{9, 10, 11, 12, 16} {
			emit("exhaustive", multi || n > 1, (&W{}).Int(fn).Bytes(s))
		}
		for _, fn := range []int{13, 14, 15, 19} {
			emit("exhaustive", nsym > 1, (&W{}).Int(fn).Bytes(s))
		}
	})
	// --- exhaustive: Substr and Pad* over {a,-,é}: every offset/length/size in [-len-3, len+3] ---
	c15StringsOver(alphaArith, L, func(s string, nsym int) {
		n := len(s)
		for off := -n - 3; off <= n+3; off++ {
			for ln := -n - 3; ln <= n+3; ln++ {
				emit("exhaustive", n > 0, (&W{}).Int(1).Bytes(s).Int(off).Int(ln))
			}
		}
		for size := n - 3; size <= n+3; size++ {
			for _, t := range tokens {
				for _, fn := range []int{3, 4, 5} {
					emit("exhaustive", size > n, (&W{}).Int(fn).Bytes(s).Int(size).Bytes(t))
				}
			}
		}
	})
	// --- exhaustive: the case styles over the word alphabet with '&', and with the regexp's ö/Ö ---
	c15StringsOver([]string{"a", "B", "1", " ", "-", "_", "&"}, L, func(s string, nsym int) {
		for _, fn := range []int{13, 14, 15, 19} {
			emit("exhaustive", nsym > 1, (&W{}).Int(fn).Bytes(s))
		}
	})
	c15StringsOver([]string{"a", "B", "ö", "Ö", " ", "_"}, L, func(s string, nsym int) {
		for _, fn := range []int{10, 11, 12, 13, 14, 15} {
			emit("exhaustive", nsym > 1, (&W{}).Int(fn).Bytes(s))
		}
	})
	// --- exhaustive: every 1- and 2-byte string through the range loop (Utf8.decode) ---
	for a := 0; a < 256; a++ {
		emit("exhaustive", a >= 128, (&W{}).Int(16).Bytes(string([]byte{byte(a)})))
		for b := 0; b < 256; b++ {
			emit("exhaustive", a >= 128 || b >= 128, (&W{}).Int(16).Bytes(string([]byte{byte(a), byte(b)})))
		}
	}
	// the oracle table against package unicode on its whole domain of exactness that the
	// generators use: U+0000..U+00FF and the caseless runes below
	extraRunes := []int{0xFFFD, 0x20AC, 0x2003, 0x3000, 0x1F600, 0x4E16}
	for rr := 0; rr < 256; rr++ {
		emit("exhaustive", true, (&W{}).Int(20).Ints([]int{rr}))
		emit("exhaustive", true, (&W{}).Int(21).Ints([]int{rr}))
	}
	for _, rr := range extraRunes {
		emit("exhaustive", true, (&W{}).Int(20).Ints([]int{rr}))
		emit("exhaustive", true, (&W{}).Int(21).Ints([]int{rr}))
	}
	// string([]rune): boundaries of every encoding length, surrogates, out of range
	for _, rr := range []int{-1, 0, 0x7F, 0x80, 0x7FF, 0x800, 0xD7FF, 0xD800, 0xDFFF, 0xE000, 0xFFFD, 0xFFFF, 0x10000, 0x10FFFF, 0x110000} {
		emit("exhaustive", true, (&W{}).Int(17).Ints([]int{rr}))
		emit("exhaustive", true, (&W{}).Int(17).Ints([]int{97, rr, 98}))
	}
	g.Exhaustive("exhaustive")

	// --- seeded random longer inputs ---
	// items whose concatenations decode only to runes inside the oracle table's domain:
	// ASCII, 2-byte Latin-1 (lead C2/C3), complete caseless 3/4-byte runes, and bytes that are
	// invalid wherever they stand (C0 C1 F5..FF) or are continuation bytes
	var items []string
	for c := 0; c < 128; c++ {
		items = append(items, string([]byte{byte(c)}))
	}
	wordy := []string{"a", "b", "z", "A", "B", "Z", "0", "9", " ", " ", "-", "_", "&", "é", "É", "ö", "Ö", "foo", "Bar", "BAZ", "\t", "\n", " ", " "}
	bytey := []string{"\x80", "\xbf", "\xc2", "\xc3", "\xc0", "\xc1", "\xf5", "\xff", "€", "\U0001F600", "�", "世", "ß", "µ", "ÿ", "×", "\u00a0", "\u0085", "\u2003", "\u3000"}
	randStr := func(maxItems int, pools ...[]string) string {
		var sb strings.Builder
		k := g.Rng.Intn(maxItems + 1)
		for i := 0; i < k; i++ {
			p := pools[g.Rng.Intn(len(pools))]
			sb.WriteString(p[g.Rng.Intn(len(p))])
		}
		return sb.String()
	}
	randBytes := func(maxLen int) string {
		b := make([]byte, g.Rng.Intn(maxLen+1))
		for i := range b {
			switch g.Rng.Intn(4) {
			case 0:
				b[i] = byte(g.Rng.Intn(128))
			case 1:
				b[i] = byte(0x80 + g.Rng.Intn(64))
			default:
				b[i] = byte(0xC0 + g.Rng.Intn(64))
			}
		}
		return string(b)
	}
	nr := g.Pick(6000, 60000)
	for i := 0; i < nr; i++ {
		fn := 1 + g.Rng.Intn(19)
		w := (&W{}).Int(fn)
		switch fn {
		case 1:
			s := randStr(20, wordy, bytey)
			n := len(s)
			w.Bytes(s).Int(g.Rng.Intn(2*n+8) - n - 4).Int(g.Rng.Intn(2*n+8) - n - 4)
		case 2:
			s := randStr(20, wordy, bytey)
			w.Bytes(s).Int(g.Rng.Intn(len(s)+6) - 3)
		case 3, 4, 5:
			s := randStr(12, wordy, bytey)
			tok := randStr(4, wordy, bytey)
			if tok == "" {
				tok = "."
			}
			w.Bytes(s).Int(len(s) - 3 + g.Rng.Intn(30)).Bytes(tok)
		case 6, 7, 8, 18:
			tok := randStr(3, wordy, bytey)
			s := randStr(12, wordy, bytey)
			switch g.Rng.Intn(4) { // make wrapped / half-wrapped / token-inside inputs likely
			case 0:
				s = tok + s + tok
			case 1:
				s = tok + s
			case 2:
				s = s + tok + randStr(3, wordy)
			}
			w.Bytes(s).Bytes(tok)
		case 9, 10, 11, 12:
			w.Bytes(randStr(16, wordy, bytey, items))
		case 13, 14, 15, 19:
			if g.Rng.Intn(4) == 0 {
				w.Bytes(randStr(16, wordy, bytey))
			} else {
				w.Bytes(randStr(16, wordy))
			}
		case 16:
			if g.Rng.Intn(2) == 0 {
				w.Bytes(randBytes(12))
			} else {
				w.Bytes(randStr(10, wordy, bytey))
			}
		case 17:
			k := g.Rng.Intn(8)
			rs := make([]int, k)
			for j := range rs {
				switch g.Rng.Intn(5) {
				case 0:
					rs[j] = g.Rng.Intn(128)
				case 1:
					rs[j] = g.Rng.Intn(0x800)
				case 2:
					rs[j] = 0xD000 + g.Rng.Intn(0x2000)
				case 3:
					rs[j] = g.Rng.Intn(0x120000)
				default:
					rs[j] = -g.Rng.Intn(5)
				}
			}
			w.Ints(rs)
		}
		emit("random", true, w)
	}

	// --- malformed: empty tokens, far-out-of-window numbers, bytes that are not UTF-8 ---
	for _, s := range []string{"", "a", "ab", "é", "a-é"} {
		n := len(s)
		emit("malformed", true, (&W{}).Int(6).Bytes(s).Bytes(""))
		emit("malformed", true, (&W{}).Int(7).Bytes(s).Bytes(""))
		emit("malformed", true, (&W{}).Int(8).Bytes(s).Bytes(""))
		emit("malformed", true, (&W{}).Int(18).Bytes(s).Bytes(""))
		for size := n - 1; size <= n+3; size++ {
			for _, fn := range []int{3, 4, 5} {
				emit("malformed", true, (&W{}).Int(fn).Bytes(s).Int(size).Bytes(""))
			}
		}
		for _, big := range []int{-1 << 40, -1000, 1000, 1 << 40} {
			emit("malformed", true, (&W{}).Int(1).Bytes(s).Int(big).Int(1))
			emit("malformed", true, (&W{}).Int(1).Bytes(s).Int(0).Int(big))
			emit("malformed", true, (&W{}).Int(1).Bytes(s).Int(big).Int(big))
			emit("malformed", true, (&W{}).Int(2).Bytes(s).Int(big))
		}
		for _, neg := range []int{-1 << 40, -1000} { // only negative sizes: no giant allocations
			for _, fn := range []int{3, 4, 5} {
				emit("malformed", true, (&W{}).Int(fn).Bytes(s).Int(neg).Bytes("x"))
			}
		}
	}
	for _, s := range []string{"\xc3", "a\xc3", "\xa9", "\xc3\xc3\xa9", "\xe2\x82", "\xf0\x9f\x98", "\xed\xa0\x80", "\xc0\xaf", "\xf4\x90\x80\x80"} {
		for _, fn := range []int{9, 10, 11, 12, 13, 14, 15, 16} {
			emit("malformed", true, (&W{}).Int(fn).Bytes(s))
		}
		for idx := -1; idx <= len(s); idx++ {
			emit("malformed", true, (&W{}).Int(2).Bytes(s).Int(idx))
		}
		emit("malformed", true, (&W{}).Int(7).Bytes(s+"a"+s).Bytes(s))
		emit("malformed", true, (&W{}).Int(7).Bytes("é").Bytes(s))
		emit("malformed", true, (&W{}).Int(8).Bytes(s).Bytes("-"))
	}
}

func init() {
	register(&Prop{ID: "C15", Exec: execC15, Gen: genC15, Describe: describeC15,
		Rule: "exhaustive: every string of <= 4 (thorough 5) symbols over {a,B,1,space,-,_,é(2 bytes)} x {SplitAtIndex with every index in [-3,len+3]; Wrap/Unwrap/WrapAllRune/Unwrap(Wrap) with every token of 1-2 symbols over {a,-,é}; ReverseStr, ToLower, ToUpper, Capitalize, range loop, CamelCase, SnakeCase, KebabCase, Snake/Kebab twice}; every string of <= 4 (5) symbols over {a,-,é} x {Substr with every (offset,length) in [-len-3,len+3]^2; Pad/PadLeft/PadRight with every size in [len-3,len+3] and every token}; the case styles again over {a,B,1,space,-,_,&} and {a,B,ö,Ö,space,_}; all 1- and 2-byte strings through the range loop; the case table against package unicode on U+0000..U+00FF and the caseless runes used; string([]rune) at every encoding boundary. random: 6000 (60000) calls on strings of up to 20 items drawn from words/separators/Latin-1 letters/white space and from invalid or truncated UTF-8 (all inside the case table's domain), wrapped/half-wrapped inputs for Unwrap. malformed: empty tokens, numbers far outside the window, truncated/overlong/surrogate byte sequences. non-trivial = non-empty text for Substr/Wrap, index inside the string for SplitAtIndex, size > len for Pad*, token occurring in the text for Unwrap, a multi-byte rune or >= 2 symbols for the rune-wise functions, >= 2 symbols for the case styles; distinct = distinct wire input"})
}
