package main

import (
	"fmt"
	"sort"
	"strings"

	"github.com/esimov/gogu"
	"github.com/esimov/gogu/heap"
)

// C16 wire input (mirror of coq/theories/C16_Wire.v): a short program.
//
//	kind 0:  0 pre spare <es> tpre tspare <et>  [fn x y]*     slices
//	kind 1:  1 <m0> <m1> <ks>                   [fn c a]*     maps
//
// kind 0: array0 = pre sentinels ++ es ++ spare sentinels, s = array0[pre:pre+n:pre+n+spare];
// array1 / t likewise.  Every call gets the same s and t.
//
//	 1 Merge(s,t)      2 Merge(s,[x])    3 Merge(s,s)       4 Filter(s,p)      5 Reject(s,p)*     6 Reverse(s)*
//	 7 Drop(s,x)       8 Chunk(s,x)      9 Map(s,f)        10 Unique(s)       11 Without(s,t...) 12 DropWhile(s,p)
//	13 DropRightWhile 14 Partition(s,p) 15 Difference(s,t) 16 Intersection(s,t) 17 ToSlice(s...) 18 UniqueBy(s,f)
//	19 heap.FromSlice(s,cmp)*  20 heap.Sort(s,cmp)*   21 Merge(t,s)   22 Difference(t,s)          (* = in place)
//	30 x: helpers returning a scalar (c16Scalars)      40 x: other helpers returning slices/maps (c16Others)
//
// 1..22 are modelled at memory level (C16_Model.v); 30/40 are harness_only: the
// model's claim for them is the frame alone and the value of their result is
// taken from the observation.
//
// kind 1: map0 = m0, map1 = m1, ks a key list; fn = the C14 helper codes; the
// list-of-maps helpers get [map0, map1, map0], Filter2DMapCollection gets
// [{0:map0, 1:map1}, {2:map1}].
//
// Observation per call: status (0 | 2 = panic), the result (enc_zss, when ok),
// both complete backing arrays (maps: sorted by key) after the call, then every
// earlier result re-read.
var c16Scalars = []string{"Sum", "SumBy", "Mean", "IndexOf", "LastIndexOf", "ForEach", "ForEachRight", "Reduce", "Every",
	"Some", "Contains", "FindIndex", "FindLastIndex", "FindMin", "FindMinBy", "FindMax", "FindMaxBy", "Nth", "Min", "Max"}
var c16Others = []string{"Shuffle", "Duplicate", "DuplicateWithIndex", "Flatten", "Union", "IntersectionBy", "DifferenceBy",
	"GroupBy", "Zip", "Unzip", "FindAll", "Range", "RangeRight", "SliceToMap", "Pick(keys=s)", "Omit(keys=s)"}
var c16Names0 = map[int]string{1: "Merge(s,t)", 2: "Merge(s,[x])", 3: "Merge(s,s)", 4: "Filter", 5: "Reject", 6: "Reverse",
	7: "Drop", 8: "Chunk", 9: "Map", 10: "Unique", 11: "Without(s,t...)", 12: "DropWhile", 13: "DropRightWhile",
	14: "Partition", 15: "Difference(s,t)", 16: "Intersection(s,t)", 17: "ToSlice(s...)", 18: "UniqueBy",
	19: "heap.FromSlice", 20: "heap.Sort", 21: "Merge(t,s)", 22: "Difference(t,s)"}

func c16Name0(fn, x int) string {
	if n, ok := c16Names0[fn]; ok {
		return n
	}
	if fn == 30 && x >= 0 && x < len(c16Scalars) {
		return c16Scalars[x]
	}
	if fn == 40 && x >= 0 && x < len(c16Others) {
		return c16Others[x]
	}
	return fmt.Sprintf("fn%d", fn)
}

func c16Sent(id, i int) int { return -(1000*(id+1) + i) }

func c16Backing(id, pre int, es []int, spare int) ([]int, []int) {
	n := len(es)
	b := make([]int, pre+n+spare)
	for i := range b {
		b[i] = c16Sent(id, i)
	}
	copy(b[pre:], es)
	return b, b[pre : pre+n : pre+n+spare]
}

func c16Cmp(x int) func(a, b int) bool {
	if x == 0 {
		return func(a, b int) bool { return a < b }
	}
	return func(a, b int) bool { return a > b }
}

type reader func() [][]int

func constReader(ls ...[]int) reader { return func() [][]int { return ls } }

func sortedInts(s []int) []int {
	c := cloneInts(s)
	sort.Ints(c)
	return c
}

// c16Call0 performs one call and returns a re-reader of its result (nil result = nothing to re-read).
func c16Call0(fn, x, y int, s, t []int) reader {
	p := c14VPred(x, y)
	switch fn {
	case 1:
		r := gogu.Merge(s, t)
		return func() [][]int { return [][]int{r} }
	case 2:
		r := gogu.Merge(s, []int{x})
		return func() [][]int { return [][]int{r} }
	case 3:
		r := gogu.Merge(s, s)
		return func() [][]int { return [][]int{r} }
	case 4:
		r := gogu.Filter(s, p)
		return func() [][]int { return [][]int{r} }
	case 5:
		r := gogu.Reject(s, p)
		return func() [][]int { return [][]int{r} }
	case 6:
		r := gogu.Reverse(s)
		return func() [][]int { return [][]int{r} }
	case 7:
		r := gogu.Drop(s, x)
		return func() [][]int { return [][]int{r} }
	case 8:
		r := gogu.Chunk(s, x)
		return func() [][]int { return r }
	case 9:
		r := gogu.Map(s, c14VFun(x))
		return func() [][]int { return [][]int{r} }
	case 10:
		r := gogu.Unique(s)
		return func() [][]int { return [][]int{r} }
	case 11:
		r := gogu.Without[int, int](s, t...)
		return func() [][]int { return [][]int{r} }
	case 12:
		r := gogu.DropWhile(s, p)
		return func() [][]int { return [][]int{r} }
	case 13:
		r := gogu.DropRightWhile(s, p)
		return func() [][]int { return [][]int{r} }
	case 14:
		r := gogu.Partition(s, p)
		return func() [][]int { return [][]int{r[0], r[1]} }
	case 15:
		r := gogu.Difference(s, t)
		return func() [][]int { return [][]int{r} }
	case 16:
		r := gogu.Intersection(s, t)
		return func() [][]int { return [][]int{r} }
	case 17:
		r := gogu.ToSlice(s...)
		return func() [][]int { return [][]int{r} }
	case 18:
		r := gogu.UniqueBy(s, c14VFun(x))
		return func() [][]int { return [][]int{r} }
	case 19:
		h := heap.FromSlice(s, c16Cmp(x))
		return func() [][]int { return [][]int{h.GetValues()} }
	case 20:
		r := heap.Sort(s, c16Cmp(x))
		return func() [][]int { return [][]int{r} }
	case 21:
		r := gogu.Merge(t, s)
		return func() [][]int { return [][]int{r} }
	case 22:
		r := gogu.Difference(t, s)
		return func() [][]int { return [][]int{r} }
	case 30:
		f := c14VFun(x % 5)
		switch x {
		case 0:
			gogu.Sum(s)
		case 1:
			gogu.SumBy(s, f)
		case 2:
			gogu.Mean(s)
		case 3:
			gogu.IndexOf(s, y)
		case 4:
			gogu.LastIndexOf(s, y)
		case 5:
			gogu.ForEach(s, func(int) {})
		case 6:
			gogu.ForEachRight(s, func(int) {})
		case 7:
			gogu.Reduce(s, func(a, b int) int { return a + b }, 0)
		case 8:
			gogu.Every(s, c14VPred(2, 0))
		case 9:
			gogu.Some(s, c14VPred(2, 0))
		case 10:
			gogu.Contains(s, y)
		case 11:
			gogu.FindIndex(s, c14VPred(4, y))
		case 12:
			gogu.FindLastIndex(s, c14VPred(4, y))
		case 13:
			gogu.FindMin(s)
		case 14:
			gogu.FindMinBy(s, f)
		case 15:
			gogu.FindMax(s)
		case 16:
			gogu.FindMaxBy(s, f)
		case 17:
			gogu.Nth(s, y)
		case 18:
			gogu.Min(s...)
		case 19:
			gogu.Max(s...)
		}
		return constReader()
	case 40:
		f := c14VFun(4) // v % 2
		switch x {
		case 0:
			r := gogu.Shuffle(s)
			return func() [][]int { return [][]int{r} }
		case 1:
			r := gogu.Duplicate(s)
			sort.Ints(r) // map order: canonicalise once; later reads are of the same array
			return func() [][]int { return [][]int{r} }
		case 2:
			r := gogu.DuplicateWithIndex(s)
			return func() [][]int { return [][]int{flatOfMap(r)} }
		case 3:
			r, _ := gogu.Flatten[int]([]any{s, []any{t, 5}})
			return func() [][]int { return [][]int{r} }
		case 4:
			r, _ := gogu.Union[int]([]any{s, t})
			return func() [][]int { return [][]int{r} }
		case 5:
			r := gogu.IntersectionBy(f, s, t)
			return func() [][]int { return [][]int{r} }
		case 6:
			r := gogu.DifferenceBy(s, t, f)
			return func() [][]int { return [][]int{r} }
		case 7:
			r := gogu.GroupBy(s, f)
			return func() [][]int {
				ks := make([]int, 0, len(r))
				for k := range r {
					ks = append(ks, k)
				}
				sort.Ints(ks)
				out := [][]int{}
				for _, k := range ks {
					out = append(out, append([]int{k}, r[k]...))
				}
				return out
			}
		case 8:
			r := gogu.Zip(s, t)
			return func() [][]int { return r }
		case 9:
			r := gogu.Unzip(s, t)
			return func() [][]int { return r }
		case 10:
			r := gogu.FindAll(s, p)
			return func() [][]int { return [][]int{flatOfMap(r)} }
		case 11:
			r, _ := gogu.Range(s...)
			return func() [][]int { return [][]int{r} }
		case 12:
			r, _ := gogu.RangeRight(s...)
			return func() [][]int { return [][]int{r} }
		case 13:
			r := gogu.SliceToMap(s, t)
			return func() [][]int { return [][]int{flatOfMap(r)} }
		case 14:
			r, _ := gogu.Pick(map[int]int{0: 5, 1: 6, 2: 7, 3: 8}, s...)
			return func() [][]int { return [][]int{flatOfMap(r)} }
		case 15:
			r := gogu.Omit(map[int]int{0: 5, 1: 6, 2: 7, 3: 8}, s...)
			return func() [][]int { return [][]int{flatOfMap(r)} }
		}
		return constReader()
	}
	return constReader()
}

func readerOfMap(m map[int]int) reader { return func() [][]int { return [][]int{flatOfMap(m)} } }
func readerOfMaps(ms ...[]map[int]int) reader {
	return func() [][]int {
		out := [][]int{}
		for _, l := range ms {
			for _, m := range l {
				out = append(out, flatOfMap(m))
			}
		}
		return out
	}
}

// c16Call1: one call of a map helper (C14 codes) on map0 / the collections.
func c16Call1(fn, c, a int, m0 map[int]int, ks []int, coll []map[int]int, coll2 []map[int]map[int]int) reader {
	switch fn {
	case 1:
		return constReader(sortedInts(gogu.Keys(m0)))
	case 2:
		return constReader(sortedInts(gogu.Values(m0)))
	case 3:
		r, err := gogu.Pick(m0, ks...)
		if err != nil {
			return constReader()
		}
		return readerOfMap(r)
	case 4:
		return readerOfMap(gogu.PickBy(m0, c14KVPred(c, a)))
	case 5:
		return readerOfMap(gogu.FilterMap(m0, c14VPred(c, a)))
	case 6:
		return readerOfMap(gogu.Omit(m0, ks...))
	case 7:
		return readerOfMap(gogu.OmitBy(m0, c14KVPred(c, a)))
	case 8:
		return readerOfMap(gogu.MapValues(m0, c14VFun(c)))
	case 9:
		return readerOfMap(gogu.MapKeys(m0, c14KFun(c)))
	case 10:
		return readerOfMap(gogu.Invert(m0))
	case 11:
		return readerOfMap(gogu.Find(m0, c14VPred(c, a)))
	case 12:
		return constReader([]int{gogu.FindKey(m0, c14VPred(c, a))})
	case 13:
		return readerOfMap(gogu.FindByKey(m0, c14VPred(c, a)))
	case 14:
		r := gogu.Pluck(coll, a)
		return func() [][]int { return [][]int{r} }
	case 15:
		return readerOfMap(gogu.MapUnique(m0))
	case 16:
		return constReader([]int{int(b2i(gogu.MapEvery(m0, c14VPred(c, a))))})
	case 17:
		return constReader([]int{int(b2i(gogu.MapSome(m0, c14VPred(c, a))))})
	case 18:
		return constReader([]int{int(b2i(gogu.MapContains(m0, a)))})
	case 19:
		return readerOfMap(gogu.SliceToMap(ks, ks))
	case 20:
		return readerOfMaps(gogu.FilterMapCollection(coll, c14VPred(c, a)))
	case 21:
		r := gogu.Filter2DMapCollection(coll2, c14MPred(c, a))
		return func() [][]int {
			out := [][]int{}
			for _, item := range r {
				oks := make([]int, 0, len(item))
				for k := range item {
					oks = append(oks, k)
				}
				sort.Ints(oks)
				for _, k := range oks {
					out = append(out, flatOfMap(item[k]))
				}
			}
			return out
		}
	case 22:
		r := gogu.PartitionMap(coll, c14MPred(c, a))
		return readerOfMaps(r[0], r[1])
	case 23:
		r := gogu.MapCollection(m0, c14VFun(c))
		sort.Ints(r)
		return func() [][]int { return [][]int{r} }
	}
	return constReader()
}

func execC16(in []int64) []int64 {
	r := &R{w: in}
	kind := r.Int()
	out := &W{}
	var readers []reader
	record := func(call func() reader, b0, b1 func() []int) {
		var rd reader
		status := 0
		if try(func() { rd = call() }) {
			status, rd = 2, constReader()
		}
		out.Int(status)
		if status == 0 {
			out.Intss(rd())
		}
		out.Ints(b0()).Ints(b1())
		for _, prev := range readers {
			out.Intss(prev())
		}
		readers = append(readers, rd)
	}
	switch kind {
	case 0:
		pre, spare, es := r.Int(), r.Int(), r.Ints()
		tpre, tspare, et := r.Int(), r.Int(), r.Ints()
		if pre < 0 || pre > 64 || spare < 0 || spare > 64 || tpre < 0 || tpre > 64 || tspare < 0 || tspare > 64 {
			return []int64{-1}
		}
		b0, s := c16Backing(0, pre, es, spare)
		b1, t := c16Backing(1, tpre, et, tspare)
		rest := r.Rest()
		for i := 0; i+2 < len(rest); i += 3 {
			fn, x, y := int(rest[i]), int(rest[i+1]), int(rest[i+2])
			record(func() reader { return c16Call0(fn, x, y, s, t) },
				func() []int { return b0 }, func() []int { return b1 })
		}
	case 1:
		f0, f1, ks := r.Ints(), r.Ints(), r.Ints()
		m0, m1 := map[int]int{}, map[int]int{}
		for i := 0; i+1 < len(f0); i += 2 {
			m0[f0[i]] = f0[i+1]
		}
		for i := 0; i+1 < len(f1); i += 2 {
			m1[f1[i]] = f1[i+1]
		}
		coll := []map[int]int{m0, m1, m0}
		coll2 := []map[int]map[int]int{{0: m0, 1: m1}, {2: m1}}
		rest := r.Rest()
		for i := 0; i+2 < len(rest); i += 3 {
			fn, c, a := int(rest[i]), int(rest[i+1]), int(rest[i+2])
			record(func() reader { return c16Call1(fn, c, a, m0, ks, coll, coll2) },
				func() []int { return flatOfMap(m0) }, func() []int { return flatOfMap(m1) })
		}
	default:
		return []int64{-1}
	}
	return out.Out()
}

func describeC16(in []int64) string {
	r := &R{w: in}
	kind := r.Int()
	var sb strings.Builder
	if kind == 0 {
		pre, spare, es := r.Int(), r.Int(), r.Ints()
		tpre, tspare, et := r.Int(), r.Int(), r.Ints()
		fmt.Fprintf(&sb, "s=%v (pre %d, spare cap %d) t=%v (pre %d, spare %d):", es, pre, spare, et, tpre, tspare)
		rest := r.Rest()
		for i := 0; i+2 < len(rest); i += 3 {
			fmt.Fprintf(&sb, " %s[x=%d,y=%d];", c16Name0(int(rest[i]), int(rest[i+1])), rest[i+1], rest[i+2])
		}
	} else {
		f0, f1, ks := r.Ints(), r.Ints(), r.Ints()
		fmt.Fprintf(&sb, "map0=%v map1=%v ks=%v:", f0, f1, ks)
		rest := r.Rest()
		for i := 0; i+2 < len(rest); i += 3 {
			fmt.Fprintf(&sb, " %s[c=%d,a=%d];", c14Names[int(rest[i])], rest[i+1], rest[i+2])
		}
	}
	return sb.String()
}

type c16Cfg struct{ fn, x, y int }

func c16Configs0() []c16Cfg {
	cs := []c16Cfg{{1, 0, 0}, {2, 7, 0}, {3, 0, 0}, {4, 2, 0}, {4, 0, 0}, {5, 2, 0}, {5, 0, 0}, {5, 4, 1}, {6, 0, 0},
		{7, 1, 0}, {7, -1, 0}, {7, 9, 0}, {8, 1, 0}, {8, 2, 0}, {9, 1, 0}, {10, 0, 0}, {11, 0, 0}, {12, 2, 0}, {13, 2, 0},
		{14, 2, 0}, {15, 0, 0}, {16, 0, 0}, {17, 0, 0}, {18, 4, 0}, {19, 0, 0}, {19, 1, 0}, {20, 0, 0}, {20, 1, 0},
		{21, 0, 0}, {22, 0, 0}}
	for k := range c16Scalars {
		cs = append(cs, c16Cfg{30, k, 1})
	}
	for k := range c16Others {
		cs = append(cs, c16Cfg{40, k, 2})
	}
	return cs
}

func c16Configs1() []c16Cfg {
	return []c16Cfg{{1, 0, 0}, {2, 0, 0}, {3, 0, 0}, {4, 2, 1}, {4, 4, 0}, {5, 2, 0}, {5, 4, 1}, {6, 0, 0}, {7, 2, 1}, {7, 3, 2},
		{7, 0, 0}, {8, 1, 0}, {9, 1, 0}, {9, 2, 0}, {10, 0, 0}, {11, 2, 0}, {12, 0, 0}, {13, 4, 1}, {14, 0, 0}, {14, 0, 1},
		{15, 0, 0}, {16, 2, 0}, {17, 4, 1}, {18, 0, 2}, {19, 0, 0}, {20, 2, 0}, {20, 4, 1}, {21, 2, 0}, {21, 0, 0},
		{22, 2, 0}, {22, 3, 0}, {22, 5, 0}, {23, 1, 0}}
}

func genC16(g *Gen) {
	cfg0, cfg1 := c16Configs0(), c16Configs1()
	count0 := func(c c16Cfg) {
		if c.fn >= 30 {
			g.Count("harness_only:" + c16Name0(c.fn, c.x))
		} else {
			g.Count("memory_model:" + c16Name0(c.fn, c.x))
		}
	}
	prog0 := func(pre, spare int, es []int, tpre, tspare int, et []int, calls ...c16Cfg) *W {
		w := (&W{}).Int(0).Int(pre).Int(spare).Ints(es).Int(tpre).Int(tspare).Ints(et)
		for _, c := range calls {
			w.Int(c.fn).Int(c.x).Int(c.y)
			count0(c)
		}
		return w
	}
	mapModelled := map[int]bool{3: true, 5: true, 6: true, 7: true, 8: true, 20: true, 21: true, 22: true}
	prog1 := func(m0, m1, ks []int, calls ...c16Cfg) *W {
		w := (&W{}).Int(1).Ints(m0).Ints(m1).Ints(ks)
		for _, c := range calls {
			w.Int(c.fn).Int(c.x).Int(c.y)
			if mapModelled[c.fn] {
				g.Count("map_memory_model:" + c14Names[c.fn])
			} else {
				g.Count("harness_only:" + c14Names[c.fn])
			}
		}
		return w
	}
	// --- exhaustive A: every single call on every slice of length <= 3 (thorough 4) over {0,1,2},
	//     pre in {0,1}, spare capacity in {0,1,2,3}, three second arguments
	ts := [][]int{{}, {2}, {1, 0}}
	slicesOver([]int{0, 1, 2}, g.Pick(3, 4), func(es []int) {
		esc := cloneInts(es)
		for pre := 0; pre <= 1; pre++ {
			for spare := 0; spare <= 3; spare++ {
				for ti, et := range ts {
					for _, c := range cfg0 {
						g.Count(fmt.Sprintf("spare=%d", spare))
						g.Case("exhaustive", len(esc) >= 1 && spare >= 1, prog0(pre, spare, esc, ti%2, 2-ti, et, c).Out())
					}
				}
			}
		}
	})
	// --- exhaustive B: every ORDERED PAIR of calls sharing the arguments, slices of length <= 3 over {1,2}
	//     (thorough: over {0,1,2}), with and without spare capacity
	alpha := []int{1, 2}
	if !g.Quick() {
		alpha = []int{0, 1, 2}
	}
	slicesOver(alpha, 3, func(es []int) {
		esc := cloneInts(es)
		for _, sp := range [][2]int{{1, 2}, {0, 0}} {
			for _, c1 := range cfg0 {
				for _, c2 := range cfg0 {
					g.Case("exhaustive", len(esc) >= 1 && sp[1] >= 1, prog0(sp[0], sp[1], esc, 1, 1, []int{2, 1}, c1, c2).Out())
				}
			}
		}
	})
	// --- exhaustive C: map programs: every ordered pair of map-helper calls on every map0 with <= 2 (thorough 3)
	//     entries over keys 0..2 x values {1,2}
	maps := allMaps(3, []int{1, 2}, g.Pick(2, 3))
	kss := [][]int{{0}, {1, 2}}
	for _, m0 := range maps {
		for _, ks := range kss {
			for _, c1 := range cfg1 {
				g.Case("exhaustive", len(m0) >= 2, prog1(m0, []int{0, 2, 3, 1}, ks, c1).Out())
				for _, c2 := range cfg1 {
					g.Case("exhaustive", len(m0) >= 2, prog1(m0, []int{0, 2, 3, 1}, ks, c1, c2).Out())
				}
			}
		}
	}
	g.Exhaustive("exhaustive")
	// --- malformed / boundary
	g.Case("malformed", true, prog0(0, 0, []int{}, 0, 0, []int{}, c16Cfg{8, 0, 0}, c16Cfg{8, -1, 0}).Out())
	g.Case("malformed", true, prog0(1, 1, []int{1, 2}, 0, 0, []int{}, c16Cfg{8, 0, 0}, c16Cfg{2, 1, 0}, c16Cfg{2, 2, 0}).Out())
	g.Case("malformed", true, prog1([]int{}, []int{}, []int{}, c16Cfg{3, 0, 0}, c16Cfg{6, 0, 0}).Out())
	// --- seeded random: programs of 3 calls on longer slices / larger maps
	nr := g.Pick(4000, 60000)
	for i := 0; i < nr; i++ {
		if g.Rng.Intn(4) != 0 {
			es := randSlice(g.Rng, 9, -3, 6)
			et := randSlice(g.Rng, 4, -3, 6)
			calls := make([]c16Cfg, 1+g.Rng.Intn(3))
			for j := range calls {
				c := cfg0[g.Rng.Intn(len(cfg0))]
				switch c.fn {
				case 2, 7:
					c.x = g.Rng.Intn(15) - 7
				case 8:
					c.x = 1 + g.Rng.Intn(5)
				case 4, 5, 12, 13, 14:
					c.x, c.y = g.Rng.Intn(6), g.Rng.Intn(7)-2
				case 9, 18:
					c.x = g.Rng.Intn(5)
				}
				calls[j] = c
			}
			spare := g.Rng.Intn(5)
			g.Case("random", len(es) >= 1 && spare >= 1 && len(calls) >= 2,
				prog0(g.Rng.Intn(3), spare, es, g.Rng.Intn(2), g.Rng.Intn(3), et, calls...).Out())
		} else {
			rm := func(maxN int) []int {
				n := g.Rng.Intn(maxN + 1)
				m := map[int]int{}
				for len(m) < n {
					m[g.Rng.Intn(8)] = g.Rng.Intn(5)
				}
				return flatOfMap(m)
			}
			calls := make([]c16Cfg, 1+g.Rng.Intn(3))
			for j := range calls {
				c := cfg1[g.Rng.Intn(len(cfg1))]
				c.y = g.Rng.Intn(5)
				calls[j] = c
			}
			m0 := rm(6)
			g.Case("random", len(m0) >= 4 && len(calls) >= 2, prog1(m0, rm(4), randSlice(g.Rng, 3, 0, 7), calls...).Out())
		}
	}
}

func init() {
	register(&Prop{ID: "C16", Exec: execC16, Gen: genC16, Describe: describeC16,
		Rule: "a case is a program of 1-3 helper calls that share their arguments; slice arguments live inside backing arrays with sentinel cells before the slice and in the spare capacity behind it, and the COMPLETE arrays are recorded after every call, as is every earlier result (re-read). exhaustive A: each of the 66 call configurations (22 memory-modelled helpers incl. parameter variants, 20 scalar-returning and 16 further slice/map-returning helpers run harness_only) alone on every slice of length <= 3 (thorough 4) over {0,1,2} x offset {0,1} x spare capacity {0..3} x 3 second arguments; B: every ORDERED PAIR of the 66 configurations on every slice of length <= 3 over {1,2} (thorough {0,1,2}) with spare capacity 2 and 0; C: every single call and ordered pair of 33 map-helper configurations on every map with <= 2 (thorough 3) entries over keys 0..2 x values {1,2} x 2 key lists; then seeded random programs of up to 3 calls on slices up to length 9 / maps up to 6 entries. non-trivial = (slices) len >= 1 and spare capacity >= 1 [and >= 2 calls in the random stream]; (maps) map0 has >= 2 entries; distinct = distinct wire input"})
}
