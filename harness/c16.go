package main

import (
	"fmt"
	"reflect"
	"sort"
	"strings"

	"github.com/esimov/gogu"
	"github.com/esimov/gogu/heap"
)

// C16 wire input (mirror of coq/theories/C16_Wire.v): a short program.
//
//	pre spare <es> tpre tspare <et> <m0> <m1> <L> <C> a  [fn x y]*
//
// array0 = pre sentinels ++ es ++ spare sentinels, s = array0[pre:pre+n:pre+n+spare]; array1 / t likewise;
// map0 = m0, map1 = m1 (flat k v k v ...).  lists = the caller's [][]int: a backing array
// [sentinel, decode(L)..., sentinel] re-sliced to [1:1+len(L):2+len(L)], where code 0 = s, 1 = t,
// c >= 2 = t[:(7c) mod (len(t)+1)]; coll = the caller's []map[int]int likewise from C (0 = map0, 1 = map1);
// coll2 = [{0:map0, 1:map1}, {2:map1}] inside [sentinel, .., .., sentinel].  Every call gets the same
// s, t, map0, map1, lists, coll, coll2.
// p = c14VPred(x, y), f = c14VFun(x), kvp = c14KVPred(x, y), kf = c14KFun(x), mp = c14MPred(x, y).   (* = in place)
//
//	 1 Merge(s,t)       2 Merge(s,[x])      3 Merge(s,s)        4 Filter(s,p)        5 Reject(s,p)*      6 Reverse(s)*
//	 7 Drop(s,x)        8 Chunk(s,x)        9 Map(s,f)         10 Unique(s)         11 Without(s,t...)  12 DropWhile(s,p)
//	13 DropRightWhile  14 Partition(s,p)   15 Difference(s,t)  16 Intersection(s,t) 17 ToSlice(s...)   18 UniqueBy(s,f)
//	19 heap.FromSlice(s,cmp)*  20 heap.Sort(s,cmp)*  21 Merge(t,s)  22 Difference(t,s)  23 Shuffle(s)  24 Duplicate(s)
//	25 DuplicateWithIndex(s)   26 Flatten([s,[t,5]])  27 Union([s,t])  28 IntersectionBy(f,s,t)  29 DifferenceBy(s,t,f)
//	30 GroupBy(s,f)    31 Zip(s,t)         32 Unzip(s,t)       33 FindAll(s,p)      34 Range(s...)      35 RangeRight(s...)
//	36 SliceToMap(s,t) 37 Without(t,s...)  38 IntersectionBy(f,t,s)  39 DifferenceBy(t,s,f)  40 Reverse(t)*  41 Reject(t,p)*
//	42 Intersection(t,s)  43 Zip(s,s)  44 Flatten([s,"x"]) (error)  45 Merge(s)  46 Unzip(s,s)
//	47 Merge(s, x times t)  48 Intersection(s, x times t)  49 Zip(x times s)
//	70 Merge(s, lists[x:y]...)  71 Intersection(lists[x:y]...)  72 IntersectionBy(f4, lists[x:y]...)
//	73 Zip(lists[x:y]...)  74 Unzip(lists[x:y]...)                  (the spread form: the callee gets the caller's [][]int)
//	75 Flatten(anys)  76 Union(anys)      anys = the caller's nested []any number a (inside [sentinel, ..., sentinel]):
//	   0 = []any{s, []any{t, 5}, t};  1-3 = a string first / in the middle / last in []any{s, t};
//	   4-6 = the same in the sub-list of []any{s, []any{t, 5}, t};  7-9 = the same at depth 3 (c16AnyTree).
//	   A failing Flatten / Union must leave every cell of it, at every depth, as it was.
//	50 Sum 51 SumBy(f) 52 Mean 53 IndexOf(s,y) 54 LastIndexOf(s,y) 55 ForEach 56 ForEachRight 57 Reduce(+,0) 58 Every(p)
//	59 Some(p) 60 Contains(s,y) 61 FindIndex(p) 62 FindLastIndex(p) 63 FindMin 64 FindMinBy(f) 65 FindMax 66 FindMaxBy(f)
//	67 Nth(s,y) 68 Min(s...) 69 Max(s...)
//	101 Keys(map0) 102 Values 103 Pick(map0,s...) 104 PickBy(kvp) 105 FilterMap(p) 106 Omit(map0,s...)* 107 OmitBy(kvp)*
//	108 MapValues(f) 109 MapKeys(kf) 110 Invert 111 Find(p) 112 FindKey(p) 113 FindByKey(p) 114 Pluck(coll,y)
//	115 MapUnique 116 MapEvery(p) 117 MapSome(p) 118 MapContains(y) 119 SliceToMap(s,s) 120 FilterMapCollection(coll,p)
//	121 Filter2DMapCollection(mp) 122 PartitionMap(coll,mp) 123 MapCollection(f) 124 FindMinByKey(coll,y)
//	125 FindMaxByKey(coll,y) 126 Pick(map1,t...) 127 Omit(map1,t...)*
//
// Every code is run by the model through its memory-level transcription (C16_Model.v).  For 23 and
// 109/110/112/113/115 Go leaves the VALUE of the result open (random numbers, map iteration order): the model
// takes the value of that result from the observation and keeps status and memory effects of its own;
// 24/101/102/123 are compared sorted.
//
// Observation per call: status (0 | 2 = panic), the result (enc_zss, when ok), both complete backing arrays,
// both maps (sorted by key), what every cell of the complete outer arrays of lists / coll / coll2 / anys shows
// (each slice with its length, each map with its entries), all after the call; then every earlier result re-read.
var c16Names = map[int]string{1: "Merge(s,t)", 2: "Merge(s,[x])", 3: "Merge(s,s)", 4: "Filter", 5: "Reject", 6: "Reverse",
	7: "Drop", 8: "Chunk", 9: "Map", 10: "Unique", 11: "Without(s,t...)", 12: "DropWhile", 13: "DropRightWhile",
	14: "Partition", 15: "Difference(s,t)", 16: "Intersection(s,t)", 17: "ToSlice(s...)", 18: "UniqueBy",
	19: "heap.FromSlice", 20: "heap.Sort", 21: "Merge(t,s)", 22: "Difference(t,s)", 23: "Shuffle", 24: "Duplicate",
	25: "DuplicateWithIndex", 26: "Flatten([s,[t,5]])", 27: "Union([s,t])", 28: "IntersectionBy(f,s,t)", 29: "DifferenceBy(s,t,f)",
	30: "GroupBy", 31: "Zip(s,t)", 32: "Unzip(s,t)", 33: "FindAll", 34: "Range(s...)", 35: "RangeRight(s...)",
	36: "SliceToMap(s,t)", 37: "Without(t,s...)", 38: "IntersectionBy(f,t,s)", 39: "DifferenceBy(t,s,f)", 40: "Reverse(t)",
	41: "Reject(t)", 42: "Intersection(t,s)", 43: "Zip(s,s)", 44: "Flatten([s,bad])", 45: "Merge(s)", 46: "Unzip(s,s)",
	47: "Merge(s,x*t)", 48: "Intersection(s,x*t)", 49: "Zip(x*s)",
	70: "Merge(s,lists[x:y]...)", 71: "Intersection(lists[x:y]...)", 72: "IntersectionBy(f,lists[x:y]...)",
	73: "Zip(lists[x:y]...)", 74: "Unzip(lists[x:y]...)", 75: "Flatten(anys)", 76: "Union(anys)",
	50: "Sum", 51: "SumBy", 52: "Mean", 53: "IndexOf", 54: "LastIndexOf", 55: "ForEach", 56: "ForEachRight", 57: "Reduce",
	58: "Every", 59: "Some", 60: "Contains", 61: "FindIndex", 62: "FindLastIndex", 63: "FindMin", 64: "FindMinBy",
	65: "FindMax", 66: "FindMaxBy", 67: "Nth", 68: "Min(s...)", 69: "Max(s...)",
	101: "Keys", 102: "Values", 103: "Pick(map0,s...)", 104: "PickBy", 105: "FilterMap", 106: "Omit(map0,s...)", 107: "OmitBy",
	108: "MapValues", 109: "MapKeys", 110: "Invert", 111: "Find", 112: "FindKey", 113: "FindByKey", 114: "Pluck",
	115: "MapUnique", 116: "MapEvery", 117: "MapSome", 118: "MapContains", 119: "SliceToMap(s,s)",
	120: "FilterMapCollection", 121: "Filter2DMapCollection", 122: "PartitionMap", 123: "MapCollection",
	124: "FindMinByKey", 125: "FindMaxByKey", 126: "Pick(map1,t...)", 127: "Omit(map1,t...)"}

var c16ValueFree = map[int]bool{23: true, 109: true, 110: true, 112: true, 113: true, 115: true, 256: true}

func c16Name(fn int) string {
	if n, ok := c16Names[fn]; ok {
		return n
	}
	if n, ok := c16FNames[fn]; ok {
		return n + "[float64]"
	}
	return fmt.Sprintf("fn%d", fn)
}

func c16Sent(id, i int) int { return -(1000*(id+1) + i) }

func c16Backing(id, pre int, es []int, spare int) ([]int, []int) {
	n := len(es)
	b := make([]int, pre+n+spare)
	for i := range b {
		b[i] = c16Sent(id, i)
	}
	copy(b[pre:], es)
	return b, b[pre : pre+n : pre+n+spare]
}

func c16Cmp(x int) func(a, b int) bool {
	if x == 0 {
		return func(a, b int) bool { return a < b }
	}
	return func(a, b int) bool { return a > b }
}

type reader func() [][]int

func constReader(ls ...[]int) reader { return func() [][]int { return ls } }

func sortedInts(s []int) []int {
	c := cloneInts(s)
	sort.Ints(c)
	return c
}

func readerOfSlice(r []int) reader    { return func() [][]int { return [][]int{r} } }
func readerOfSlices(r [][]int) reader { return func() [][]int { return r } }
func readerSorted(r []int) reader     { return func() [][]int { return [][]int{sortedInts(r)} } }
func readerOfMap(m map[int]int) reader {
	return func() [][]int { return [][]int{flatOfMap(m)} }
}
func readerOfMaps(ms ...[]map[int]int) reader {
	return func() [][]int {
		out := [][]int{}
		for _, l := range ms {
			for _, m := range l {
				out = append(out, flatOfMap(m))
			}
		}
		return out
	}
}
func scalarReader(v ...int) reader { return constReader(v) }
func boolReader(b bool) reader    { return constReader([]int{int(b2i(b))}) }

type c16World struct {
	s, t   []int
	m0, m1 map[int]int
	lb     [][]int // complete backing array of lists (with the two sentinel cells)
	lists  [][]int
	cb     []map[int]int
	coll   []map[int]int
	c2b    []map[int]map[int]int
	coll2  []map[int]map[int]int
	anyb   []any // ["sentinel", cells of the tree..., "sentinel"]
	anys   []any
}

// c16AnyTree builds the caller's nested []any number a (mirror of any_lists in C16_Wire.v).
func c16AnyTree(a int, s, t []int) []any {
	bad := func(pos int, good ...any) []any { // the string "x" at position pos among the good elements
		out := make([]any, 0, len(good)+1)
		out = append(out, good[:pos]...)
		out = append(out, "x")
		return append(out, good[pos:]...)
	}
	switch {
	case a == 0:
		return []any{s, []any{t, 5}, t}
	case a <= 3:
		return bad(a-1, s, t)
	case a <= 6:
		return []any{s, bad(a-4, t, 5), t}
	default:
		return []any{s, []any{t, bad(a-7, 5, s), 5}}
	}
}

// 1 len elems = a []int, 2 v = an int, 3 n cells = a []any, 8 = nil, 9 = anything else (a string)   (print_A in C16_Wire.v)
func c16PrintAny(out []int, cells []any) []int {
	for _, c := range cells {
		switch v := c.(type) {
		case []int:
			out = append(out, 1, len(v))
			out = append(out, v...)
		case int:
			out = append(out, 2, v)
		case []any:
			out = append(out, 3, len(v))
			out = c16PrintAny(out, v)
		case nil:
			out = append(out, 8)
		default:
			out = append(out, 9)
		}
	}
	return out
}
func (w *c16World) printA() []int { return c16PrintAny([]int{}, w.anyb) }

// what the cells of the outer arrays show (mirror of print_L / print_C / print_C2 in C16_Wire.v)
func (w *c16World) printL() []int {
	out := []int{}
	for _, e := range w.lb {
		out = append(out, len(e))
		out = append(out, e...)
	}
	return out
}
func c16ShowMap(m map[int]int) []int {
	f := flatOfMap(m)
	return append([]int{len(f)}, f...)
}
func (w *c16World) printC() []int {
	out := []int{}
	for _, m := range w.cb {
		out = append(out, c16ShowMap(m)...)
	}
	return out
}
func (w *c16World) printC2() []int {
	out := []int{}
	for _, o := range w.c2b {
		ks := make([]int, 0, len(o))
		for k := range o {
			ks = append(ks, k)
		}
		sort.Ints(ks)
		out = append(out, len(ks))
		for _, k := range ks {
			out = append(out, k)
			out = append(out, c16ShowMap(o[k])...)
		}
	}
	return out
}

func c16NewWorld(s, t []int, m0, m1 map[int]int, L, C []int, a int) *c16World {
	w := &c16World{s: s, t: t, m0: m0, m1: m1}
	w.lb = make([][]int, 0, len(L)+2)
	w.lb = append(w.lb, []int{-4242})
	for _, c := range L {
		switch {
		case c == 0:
			w.lb = append(w.lb, s)
		case c == 1:
			w.lb = append(w.lb, t)
		default:
			w.lb = append(w.lb, t[:(7*c)%(len(t)+1)])
		}
	}
	w.lb = append(w.lb, []int{-4242})
	w.lists = w.lb[1 : 1+len(L) : 2+len(L)]
	w.cb = make([]map[int]int, 0, len(C)+2)
	w.cb = append(w.cb, map[int]int{-1: -1})
	for _, c := range C {
		if c == 0 {
			w.cb = append(w.cb, m0)
		} else {
			w.cb = append(w.cb, m1)
		}
	}
	w.cb = append(w.cb, map[int]int{-1: -1})
	w.coll = w.cb[1 : 1+len(C) : 2+len(C)]
	w.c2b = []map[int]map[int]int{{}, {0: m0, 1: m1}, {2: m1}, {}}
	w.coll2 = w.c2b[1:3:3]
	tree := c16AnyTree(a, s, t)
	w.anyb = append(append([]any{"sentinel"}, tree...), "sentinel")
	w.anys = w.anyb[1 : 1+len(tree) : 2+len(tree)]
	return w
}

func c16Times(x int, s []int) [][]int {
	if x < 0 {
		x = 0
	}
	out := make([][]int, x)
	for i := range out {
		out[i] = s
	}
	return out
}

// c16Call performs one call and returns a re-reader of its result.
func c16Call(fn, x, y int, w *c16World) reader {
	s, t, m0 := w.s, w.t, w.m0
	p, f := c14VPred(x, y), c14VFun(x)
	switch fn {
	case 1:
		return readerOfSlice(gogu.Merge(s, t))
	case 2:
		return readerOfSlice(gogu.Merge(s, []int{x}))
	case 3:
		return readerOfSlice(gogu.Merge(s, s))
	case 4:
		return readerOfSlice(gogu.Filter(s, p))
	case 5:
		return readerOfSlice(gogu.Reject(s, p))
	case 6:
		return readerOfSlice(gogu.Reverse(s))
	case 7:
		return readerOfSlice(gogu.Drop(s, x))
	case 8:
		return readerOfSlices(gogu.Chunk(s, x))
	case 9:
		return readerOfSlice(gogu.Map(s, f))
	case 10:
		return readerOfSlice(gogu.Unique(s))
	case 11:
		return readerOfSlice(gogu.Without[int, int](s, t...))
	case 12:
		return readerOfSlice(gogu.DropWhile(s, p))
	case 13:
		return readerOfSlice(gogu.DropRightWhile(s, p))
	case 14:
		r := gogu.Partition(s, p)
		return func() [][]int { return [][]int{r[0], r[1]} }
	case 15:
		return readerOfSlice(gogu.Difference(s, t))
	case 16:
		return readerOfSlice(gogu.Intersection(s, t))
	case 17:
		return readerOfSlice(gogu.ToSlice(s...))
	case 18:
		return readerOfSlice(gogu.UniqueBy(s, f))
	case 19:
		h := heap.FromSlice(s, c16Cmp(x))
		return func() [][]int { return [][]int{h.GetValues()} }
	case 20:
		return readerOfSlice(heap.Sort(s, c16Cmp(x)))
	case 21:
		return readerOfSlice(gogu.Merge(t, s))
	case 22:
		return readerOfSlice(gogu.Difference(t, s))
	case 23:
		return readerOfSlice(gogu.Shuffle(s))
	case 24:
		return readerSorted(gogu.Duplicate(s)) // built by ranging over a map: compared sorted
	case 25:
		return readerOfMap(gogu.DuplicateWithIndex(s))
	case 26:
		r, _ := gogu.Flatten[int]([]any{s, []any{t, 5}})
		return readerOfSlice(r)
	case 27:
		r, _ := gogu.Union[int]([]any{s, t})
		return readerOfSlice(r)
	case 28:
		return readerOfSlice(gogu.IntersectionBy(f, s, t))
	case 29:
		return readerOfSlice(gogu.DifferenceBy(s, t, f))
	case 30:
		r := gogu.GroupBy(s, f)
		return func() [][]int {
			ks := make([]int, 0, len(r))
			for k := range r {
				ks = append(ks, k)
			}
			sort.Ints(ks)
			out := [][]int{}
			for _, k := range ks {
				out = append(out, append([]int{k}, r[k]...))
			}
			return out
		}
	case 31:
		return readerOfSlices(gogu.Zip(s, t))
	case 32:
		return readerOfSlices(gogu.Unzip(s, t))
	case 33:
		return readerOfMap(gogu.FindAll(s, p))
	case 34:
		r, _ := gogu.Range(s...)
		return readerOfSlice(r)
	case 35:
		r, _ := gogu.RangeRight(s...)
		return readerOfSlice(r)
	case 36:
		return readerOfMap(gogu.SliceToMap(s, t))
	case 37:
		return readerOfSlice(gogu.Without[int, int](t, s...))
	case 38:
		return readerOfSlice(gogu.IntersectionBy(f, t, s))
	case 39:
		return readerOfSlice(gogu.DifferenceBy(t, s, f))
	case 40:
		return readerOfSlice(gogu.Reverse(t))
	case 41:
		return readerOfSlice(gogu.Reject(t, p))
	case 42:
		return readerOfSlice(gogu.Intersection(t, s))
	case 43:
		return readerOfSlices(gogu.Zip(s, s))
	case 44:
		r, _ := gogu.Flatten[int]([]any{s, "x"})
		return readerOfSlice(r)
	case 45:
		return readerOfSlice(gogu.Merge(s))
	case 46:
		return readerOfSlices(gogu.Unzip(s, s))
	case 47:
		return readerOfSlice(gogu.Merge(s, c16Times(x, t)...))
	case 48:
		return readerOfSlice(gogu.Intersection(append([][]int{s}, c16Times(x, t)...)...))
	case 49:
		return readerOfSlices(gogu.Zip(c16Times(x, s)...))
	case 50:
		return scalarReader(gogu.Sum(s))
	case 51:
		return scalarReader(gogu.SumBy(s, f))
	case 52:
		return scalarReader(gogu.Mean(s))
	case 53:
		return scalarReader(gogu.IndexOf(s, y))
	case 54:
		return scalarReader(gogu.LastIndexOf(s, y))
	case 55:
		gogu.ForEach(s, func(int) {})
		return constReader()
	case 56:
		gogu.ForEachRight(s, func(int) {})
		return constReader()
	case 57:
		return scalarReader(gogu.Reduce(s, func(a, b int) int { return a + b }, 0))
	case 58:
		return boolReader(gogu.Every(s, p))
	case 59:
		return boolReader(gogu.Some(s, p))
	case 60:
		return boolReader(gogu.Contains(s, y))
	case 61:
		return scalarReader(gogu.FindIndex(s, p))
	case 62:
		return scalarReader(gogu.FindLastIndex(s, p))
	case 63:
		return scalarReader(gogu.FindMin(s))
	case 64:
		return scalarReader(gogu.FindMinBy(s, f))
	case 65:
		return scalarReader(gogu.FindMax(s))
	case 66:
		return scalarReader(gogu.FindMaxBy(s, f))
	case 67:
		v, err := gogu.Nth(s, y)
		return scalarReader(v, int(b2i(err != nil)))
	case 68:
		return scalarReader(gogu.Min(s...))
	case 69:
		return scalarReader(gogu.Max(s...))
	case 70:
		return readerOfSlice(gogu.Merge(s, w.lists[x:y]...))
	case 71:
		return readerOfSlice(gogu.Intersection(w.lists[x:y]...))
	case 72:
		return readerOfSlice(gogu.IntersectionBy(c14VFun(4), w.lists[x:y]...))
	case 73:
		return readerOfSlices(gogu.Zip(w.lists[x:y]...))
	case 74:
		return readerOfSlices(gogu.Unzip(w.lists[x:y]...))
	case 75:
		r, _ := gogu.Flatten[int](w.anys)
		return readerOfSlice(r)
	case 76:
		r, _ := gogu.Union[int](w.anys)
		return readerOfSlice(r)
	case 101:
		return readerSorted(gogu.Keys(m0))
	case 102:
		return readerSorted(gogu.Values(m0))
	case 103:
		r, err := gogu.Pick(m0, s...)
		if err != nil {
			return constReader()
		}
		return readerOfMap(r)
	case 104:
		return readerOfMap(gogu.PickBy(m0, c14KVPred(x, y)))
	case 105:
		return readerOfMap(gogu.FilterMap(m0, p))
	case 106:
		return readerOfMap(gogu.Omit(m0, s...))
	case 107:
		return readerOfMap(gogu.OmitBy(m0, c14KVPred(x, y)))
	case 108:
		return readerOfMap(gogu.MapValues(m0, f))
	case 109:
		return readerOfMap(gogu.MapKeys(m0, c14KFun(x)))
	case 110:
		return readerOfMap(gogu.Invert(m0))
	case 111:
		return readerOfMap(gogu.Find(m0, p))
	case 112:
		return scalarReader(gogu.FindKey(m0, p))
	case 113:
		return readerOfMap(gogu.FindByKey(m0, p))
	case 114:
		return readerOfSlice(gogu.Pluck(w.coll, y))
	case 115:
		return readerOfMap(gogu.MapUnique(m0))
	case 116:
		return boolReader(gogu.MapEvery(m0, p))
	case 117:
		return boolReader(gogu.MapSome(m0, p))
	case 118:
		return boolReader(gogu.MapContains(m0, y))
	case 119:
		return readerOfMap(gogu.SliceToMap(s, s))
	case 120:
		return readerOfMaps(gogu.FilterMapCollection(w.coll, p))
	case 121:
		r := gogu.Filter2DMapCollection(w.coll2, c14MPred(x, y))
		return func() [][]int { // every returned item as k, code of the inner map (0 = map0, 1 = map1), sorted by k
			out := [][]int{}
			for _, item := range r {
				oks := make([]int, 0, len(item))
				for k := range item {
					oks = append(oks, k)
				}
				sort.Ints(oks)
				f := []int{}
				for _, k := range oks {
					code := -1
					switch reflect.ValueOf(item[k]).Pointer() {
					case reflect.ValueOf(w.m0).Pointer():
						code = 0
					case reflect.ValueOf(w.m1).Pointer():
						code = 1
					}
					f = append(f, k, code)
				}
				out = append(out, f)
			}
			return out
		}
	case 122:
		r := gogu.PartitionMap(w.coll, c14MPred(x, y))
		return readerOfMaps(r[0], r[1])
	case 123:
		return readerSorted(gogu.MapCollection(m0, f))
	case 124:
		v, err := gogu.FindMinByKey(w.coll, y)
		return scalarReader(v, int(b2i(err != nil)))
	case 125:
		v, err := gogu.FindMaxByKey(w.coll, y)
		return scalarReader(v, int(b2i(err != nil)))
	case 126:
		r, err := gogu.Pick(w.m1, t...)
		if err != nil {
			return constReader()
		}
		return readerOfMap(r)
	case 127:
		return readerOfMap(gogu.Omit(w.m1, t...))
	}
	return constReader()
}

func c16MapOf(flat []int) map[int]int {
	m := map[int]int{}
	for i := 0; i+1 < len(flat); i += 2 {
		m[flat[i]] = flat[i+1]
	}
	return m
}

func execC16(in []int64) []int64 {
	r := &R{w: in}
	out := &W{}
	pre, spare, es := r.Int(), r.Int(), r.Ints()
	tpre, tspare, et := r.Int(), r.Int(), r.Ints()
	f0, f1 := r.Ints(), r.Ints()
	L, C := r.Ints(), r.Ints()
	a := r.Int()
	isFloat := a >= 100 && a <= 109 // a float program: s, t are []float64 (c16float.go)
	if isFloat {
		a -= 100
	}
	if a < 0 || a > 9 {
		r.bad = true
	}
	for _, c := range L {
		if c < 0 || c >= 99 {
			r.bad = true
		}
	}
	for _, c := range C {
		if c < 0 || c > 1 {
			r.bad = true
		}
	}
	const lim = 100000
	if r.bad || pre < 0 || pre > lim || spare < 0 || spare > lim || tpre < 0 || tpre > lim || tspare < 0 || tspare > lim {
		return []int64{-999999}
	}
	rest := r.Rest()
	if len(rest)%3 != 0 || len(rest) > 12 {
		return []int64{-999999}
	}
	if isFloat {
		return execC16F(pre, spare, es, tpre, tspare, et, f0, f1, L, C, a, rest)
	}
	b0, s := c16Backing(0, pre, es, spare)
	b1, t := c16Backing(1, tpre, et, tspare)
	m0, m1 := c16MapOf(f0), c16MapOf(f1)
	w := c16NewWorld(s, t, m0, m1, L, C, a)
	var readers []reader
	for i := 0; i+2 < len(rest); i += 3 {
		fn, x, y := int(rest[i]), int(rest[i+1]), int(rest[i+2])
		var rd reader
		status := 0
		if try(func() { rd = c16Call(fn, x, y, w) }) {
			status, rd = 2, constReader()
		}
		out.Int(status)
		if status == 0 {
			out.Intss(rd())
		}
		out.Ints(b0).Ints(b1).Ints(flatOfMap(m0)).Ints(flatOfMap(m1)).Ints(w.printL()).Ints(w.printC()).Ints(w.printC2()).Ints(w.printA())
		// every earlier result is read AGAIN, now, after this call
		for _, prev := range readers {
			out.Intss(prev())
		}
		readers = append(readers, rd)
	}
	return out.Out()
}

func describeC16(in []int64) string {
	r := &R{w: in}
	var sb strings.Builder
	pre, spare, es := r.Int(), r.Int(), r.Ints()
	tpre, tspare, et := r.Int(), r.Int(), r.Ints()
	f0, f1 := r.Ints(), r.Ints()
	L, C := r.Ints(), r.Ints()
	a := r.Int()
	if a >= 100 && a <= 109 {
		return describeC16F(pre, spare, es, tpre, tspare, et, L, a-100, r.Rest())
	}
	short := func(xs []int) string {
		if len(xs) > 12 {
			return fmt.Sprintf("%v...(len %d)", xs[:12], len(xs))
		}
		return fmt.Sprint(xs)
	}
	fmt.Fprintf(&sb, "s=%s (pre %d, spare cap %d) t=%s (pre %d, spare %d) map0=%v map1=%v lists=%s coll=%v anys=#%d:", short(es), pre, spare, short(et), tpre, tspare, f0, f1, short(L), C, a)
	rest := r.Rest()
	for i := 0; i+2 < len(rest); i += 3 {
		fmt.Fprintf(&sb, " %s[x=%d,y=%d];", c16Name(int(rest[i])), rest[i+1], rest[i+2])
	}
	return sb.String()
}

type c16Cfg struct{ fn, x, y int }

// call configurations of the slice world (all helpers that take s or t, with parameter variants)
func c16ConfigsS() []c16Cfg {
	return []c16Cfg{{1, 0, 0}, {2, 7, 0}, {3, 0, 0}, {4, 2, 0}, {4, 0, 0}, {5, 2, 0}, {5, 0, 0}, {5, 4, 1}, {6, 0, 0},
		{7, 1, 0}, {7, -1, 0}, {7, 9, 0}, {8, 1, 0}, {8, 2, 0}, {9, 1, 0}, {10, 0, 0}, {11, 0, 0}, {12, 2, 0}, {13, 2, 0},
		{14, 2, 0}, {15, 0, 0}, {16, 0, 0}, {17, 0, 0}, {18, 4, 0}, {19, 0, 0}, {19, 1, 0}, {20, 0, 0}, {20, 1, 0},
		{21, 0, 0}, {22, 0, 0}, {23, 0, 0}, {24, 0, 0}, {25, 0, 0}, {26, 0, 0}, {27, 0, 0}, {28, 4, 0}, {29, 4, 0},
		{30, 4, 0}, {31, 0, 0}, {32, 0, 0}, {33, 2, 0}, {34, 0, 0}, {35, 0, 0}, {36, 0, 0}, {37, 0, 0}, {38, 4, 0},
		{39, 4, 0}, {40, 0, 0}, {41, 2, 0}, {42, 0, 0}, {43, 0, 0}, {44, 0, 0}, {45, 0, 0}, {46, 0, 0}, {47, 3, 0},
		{48, 2, 0}, {49, 3, 0}, {70, 0, 5}, {70, 1, 3}, {71, 0, 3}, {71, 1, 5}, {72, 0, 5}, {73, 0, 2}, {73, 1, 3}, {74, 0, 2}, {75, 0, 0}, {76, 0, 0},
		{8, 0, 0}, {67, 0, 5}, {67, 0, -5}, {71, 1, 1}, {73, 1, 1}, {70, 3, 2}, {70, 0, 9}, // panics / errors: Chunk size 0, Nth out of range, Intersection() without parameters, bad slice bounds
		{114, 0, 1}, {120, 2, 0}, {122, 2, 0},
		{50, 0, 0}, {51, 1, 0}, {52, 0, 0}, {53, 0, 1}, {54, 0, 1}, {55, 0, 0}, {56, 0, 0}, {57, 0, 0}, {58, 2, 0},
		{59, 2, 0}, {60, 0, 1}, {61, 4, 1}, {62, 4, 1}, {63, 0, 0}, {64, 3, 0}, {65, 0, 0}, {66, 3, 0}, {67, 0, 1},
		{67, 0, -1}, {68, 0, 0}, {69, 0, 0},
		{103, 0, 0}, {106, 0, 0}, {119, 0, 0}, {126, 0, 0}, {127, 0, 0}}
}

// call configurations of the map world (all helpers that take a map; s plays the key list)
func c16ConfigsM() []c16Cfg {
	return []c16Cfg{{101, 0, 0}, {102, 0, 0}, {103, 0, 0}, {104, 2, 1}, {104, 4, 0}, {105, 2, 0}, {105, 4, 1}, {106, 0, 0},
		{107, 2, 1}, {107, 3, 2}, {107, 0, 0}, {108, 1, 0}, {109, 1, 0}, {109, 2, 0}, {110, 0, 0}, {111, 2, 0}, {112, 0, 0},
		{113, 4, 1}, {114, 0, 0}, {114, 0, 1}, {115, 0, 0}, {116, 2, 0}, {117, 4, 1}, {118, 0, 2}, {119, 0, 0}, {120, 2, 0},
		{120, 4, 1}, {121, 2, 0}, {121, 0, 0}, {122, 2, 0}, {122, 3, 0}, {122, 5, 0}, {123, 1, 0}, {124, 0, 1}, {125, 0, 1},
		{126, 0, 0}, {127, 0, 0}, {6, 0, 0}, {10, 0, 0}, {5, 4, 1}}
}

func genC16(g *Gen) {
	cfgS, cfgM := c16ConfigsS(), c16ConfigsM()
	curL, curC, curA := []int{1, 0, 2, 3, 1}, []int{0, 1, 1}, 0
	prog := func(pre, spare int, es []int, tpre, tspare int, et []int, m0, m1 []int, calls ...c16Cfg) *W {
		w := (&W{}).Int(pre).Int(spare).Ints(es).Int(tpre).Int(tspare).Ints(et).Ints(m0).Ints(m1).Ints(curL).Ints(curC).Int(curA)
		for _, c := range calls {
			w.Int(c.fn).Int(c.x).Int(c.y)
			if c16ValueFree[c.fn] {
				g.Count("memory_model(value of the result taken from the observation):" + c16Name(c.fn))
			} else {
				g.Count("memory_model:" + c16Name(c.fn))
			}
		}
		return w
	}
	M0, M1 := []int{0, 5, 1, 6, 2, 7, 3, 8}, []int{1, 1}
	// --- exhaustive A: every single call on every slice of length <= 3 (thorough 4) over {0,1,2},
	//     pre in {0,1}, spare capacity in {0,1,2,3}, three second arguments
	ts := [][]int{{}, {2}, {1, 0}}
	slicesOver([]int{0, 1, 2}, g.Pick(3, 4), func(es []int) {
		esc := cloneInts(es)
		for pre := 0; pre <= 1; pre++ {
			for spare := 0; spare <= 3; spare++ {
				for ti, et := range ts {
					for _, c := range cfgS {
						if g.Quick() && c.fn >= 50 && c.fn <= 69 && (pre == 1 || ti > 0) {
							continue // the scalar-returning helpers take s only: one offset, one t in the quick tier
						}
						g.Count(fmt.Sprintf("spare=%d", spare))
						g.Case("exhaustive", len(esc) >= 1 && spare >= 1, prog(pre, spare, esc, ti%2, 2-ti, et, M0, M1, c).Out())
					}
				}
			}
		}
	})
	// --- exhaustive B: every ORDERED PAIR of calls sharing the arguments, slices of length <= 3 over {1,2}
	//     (thorough: over {0,1,2}), with and without spare capacity
	alpha := []int{1, 2}
	if !g.Quick() {
		alpha = []int{0, 1, 2}
	}
	// (quick tier: pairs of the helpers that return a slice or a map or work in place; a scalar-returning helper
	//  as one of the two is covered by A — both arrays and maps are compared after EVERY call — and by the
	//  random stream; the thorough tier takes all pairs)
	cfgB := cfgS
	if g.Quick() {
		cfgB = nil
		seenFn := map[int]bool{}
		for _, c := range cfgS {
			if (c.fn < 50 || c.fn > 69) && !seenFn[c.fn] { // one parameter variant per helper
				cfgB = append(cfgB, c)
				seenFn[c.fn] = true
			}
		}
	}
	slicesOver(alpha, 3, func(es []int) {
		esc := cloneInts(es)
		for _, sp := range [][2]int{{1, 2}, {0, 0}} {
			if g.Quick() && sp[1] == 0 && len(esc) > 2 {
				continue // without spare capacity append always reallocates: slices up to length 2 in the quick tier
			}
			for _, c1 := range cfgB {
				for _, c2 := range cfgB {
					g.Case("exhaustive", len(esc) >= 1 && sp[1] >= 1, prog(sp[0], sp[1], esc, 1, 1, []int{2, 1}, M0, M1, c1, c2).Out())
				}
			}
		}
	})
	// --- exhaustive D: the SAME helper before and after an in-place change of a shared argument (c ; in-place ; c):
	//     a result that is cached or re-used between two calls of one helper shows only when the second call
	//     has something else to return
	inplaceS := []c16Cfg{{5, 2, 0}, {5, 4, 1}, {6, 0, 0}, {19, 1, 0}, {20, 1, 0}, {40, 0, 0}, {41, 2, 0}, {106, 0, 0}, {127, 0, 0}}
	slicesOver([]int{1, 2}, 3, func(es []int) {
		esc := cloneInts(es)
		for _, c := range cfgS {
			if (c.fn >= 50 && c.fn <= 69) || c.fn == 5 || c.fn == 6 || c.fn == 19 || c.fn == 20 || c.fn == 40 || c.fn == 41 {
				continue
			}
			for _, ip := range inplaceS {
				g.Case("exhaustive", len(esc) >= 1, prog(1, 2, esc, 1, 1, []int{2, 1}, M0, M1, c, ip, c).Out())
			}
		}
	})
	// --- exhaustive E: error paths of Flatten / Union: the caller's nested []any number 1-9 has a value of another type at
	//     depth 1, 2, 3 in first / middle / last position (0 is well typed): alone, twice, and before / after every
	//     other slice-world call; every cell of the []any, at every depth, is recorded after each call
	slicesOver([]int{1, 2}, 2, func(es []int) {
		esc := cloneInts(es)
		for a := 0; a <= 9; a++ {
			curA = a
			for _, fl := range []c16Cfg{{75, 0, 0}, {76, 0, 0}} {
				g.Count(fmt.Sprintf("anys=#%d", a))
				g.Case("exhaustive", a >= 1, prog(1, 2, esc, 1, 1, []int{2, 1}, M0, M1, fl).Out())
				g.Case("exhaustive", a >= 1, prog(1, 2, esc, 1, 1, []int{2, 1}, M0, M1, fl, c16Cfg{151 - fl.fn, 0, 0}).Out())
				if len(esc) == 2 && esc[0] != esc[1] && (esc[0] == 1 || !g.Quick()) {
					for _, c := range cfgB {
						g.Case("exhaustive", a >= 1, prog(1, 2, esc, 1, 1, []int{2, 1}, M0, M1, fl, c).Out())
						g.Case("exhaustive", a >= 1, prog(1, 2, esc, 1, 1, []int{2, 1}, M0, M1, c, fl).Out())
					}
				}
			}
		}
		curA = 0
	})
	// --- exhaustive C: map programs: every single call and ordered pair of map-helper calls on every map0 with <= 2
	//     (thorough 3) entries over keys 0..2 x values {1,2}; s is the key list (inside a backing array with
	//     sentinels), t = [0 3] the key list for map1
	usesS := func(c c16Cfg) bool { return c.fn < 100 || c.fn == 103 || c.fn == 106 || c.fn == 119 }
	maps := allMaps(3, []int{1, 2}, g.Pick(2, 3))
	kss := [][]int{{0}, {1, 2}}
	for _, m0 := range maps {
		for _, ks := range kss {
			for _, c1 := range cfgM {
				g.Case("exhaustive", len(m0) >= 4, prog(1, 1, ks, 0, 1, []int{0, 3}, m0, []int{0, 2, 3, 1}, c1).Out())
				for _, c2 := range cfgM {
					if g.Quick() && len(ks) == 1 && !usesS(c1) && !usesS(c2) {
						continue // the key list s matters to neither call: one key list is enough in the quick tier
					}
					g.Case("exhaustive", len(m0) >= 4, prog(1, 1, ks, 0, 1, []int{0, 3}, m0, []int{0, 2, 3, 1}, c1, c2).Out())
				}
				for _, ip := range []c16Cfg{{106, 0, 0}, {107, 2, 1}, {107, 3, 2}} { // (c ; Omit/OmitBy ; c)
					g.Case("exhaustive", len(m0) >= 4, prog(1, 1, ks, 0, 1, []int{0, 3}, m0, []int{0, 2, 3, 1}, c1, ip, c1).Out())
				}
			}
		}
	}
	g.Exhaustive("exhaustive")
	// --- float programs: the helpers at []float64 with NaN, +0 / -0, +-Inf among the elements (c16float.go)
	genC16F(g, func(pre, spare int, es []int, tpre, tspare int, et []int, L []int, a int, calls ...c16Cfg) *W {
		sl, sa := curL, curA
		curL, curA = L, a
		w := prog(pre, spare, es, tpre, tspare, et, M0, M1, calls...)
		curL, curA = sl, sa
		return w
	})
	// --- large: long arguments, spare capacity below and above what a helper would append (1, len(t), len(s)),
	//     so that append stays in place in some cases and reallocates in others; many variadic arguments
	mkLarge := func(n, mod, off int) []int { // fixed pseudo-random contents over mod values (repetitions from the start)
		s := make([]int, n)
		x := uint32(off*2654435761 + 12345)
		for i := range s {
			x = x*1103515245 + 12345
			s[i] = int((x>>16)%uint32(mod)) - 1
		}
		return s
	}
	sizes := []int{33, 64, 65, 129, 257, 1025}
	heapMax := g.Pick(129, 257)
	if !g.Quick() {
		sizes = append(sizes, 2049, 4097)
	}
	smallL := curL
	bigL := make([]int, 70) // 70 slices of different lengths (prefixes of t), not in ascending order
	for i := range bigL {
		bigL[i] = 2 + (i*13)%41
	}
	windows := [][2]int{{0, 33}, {0, 34}, {0, 40}, {0, 70}, {2, 37}} // 33, 34, 40, 70, 35 variadic slice arguments
	for _, n := range sizes {
		es := mkLarge(n, 11, 3)
		tls := []int{3}
		if n == 65 || n == 129 || (!g.Quick() && n < 300) {
			tls = []int{3, 70}
		}
		for _, tl := range tls {
			et := mkLarge(tl, 7, 1)
			spares := []int{0, 1, tl - 1, tl + 1, n - 1, n + 1, 2*n + 5}
			if n > 300 || n == 64 {
				spares = []int{0, 1, tl + 1, n + 1}
			}
			for _, spare := range spares {
				for _, c := range cfgS {
					if n > 300 && (c.fn == 47 || c.fn == 48 || c.fn == 49) {
						continue
					}
					if (c.fn == 19 || c.fn == 20) && n > heapMax {
						continue // the model of FromSlice's loop takes ~n^2 steps of cost n each
					}
					cc := c
					switch c.fn {
					case 47, 48:
						cc.x = 66 // 66 variadic slice parameters
					case 49:
						cc.x = n // Zip of n slices of length n (only run up to 129)
						if n > 129 {
							continue
						}
					case 70, 71, 72:
						if c.x != 0 || n > 300 || (spare != 0 && spare != tl+1) {
							continue
						}
						curL = bigL // the caller's [][]int has 70 elements; the helper gets a window of it, spread
						for _, win := range windows {
							cc.x, cc.y = win[0], win[1]
							g.Count(fmt.Sprintf("large:variadic=%d", win[1]-win[0]))
							g.Case("large", spare >= 1, prog(1, spare, es, 1, spare%5, et, M0, M1, cc).Out())
						}
						curL = smallL
						continue
					case 7:
						cc.x = c.x * (n / 3)
					case 8:
						cc.x = 1 + c.x*(n/4)
					}
					g.Count(fmt.Sprintf("large:len=%d", n))
					g.Case("large", spare >= 1, prog(1, spare, es, 1, spare%5, et, M0, M1, cc).Out())
				}
			}
		}
		// pairs of calls at this size: every append-ing / in-place helper followed by another one
		if n <= 300 {
			first := []c16Cfg{{1, 0, 0}, {2, 7, 0}, {3, 0, 0}, {45, 0, 0}, {4, 2, 0}, {17, 0, 0}, {12, 2, 0}, {7, 5, 0}, {8, 16, 0}, {26, 0, 0}, {11, 0, 0}, {103, 0, 0}}
			second := []c16Cfg{{1, 0, 0}, {2, 8, 0}, {3, 0, 0}, {5, 2, 0}, {6, 0, 0}, {20, 0, 0}, {4, 0, 0}, {106, 0, 0}, {41, 2, 0}, {21, 0, 0}}
			et := mkLarge(5, 7, 1)
			for _, spare := range []int{0, 6, n + 3}[g.Pick(1, 0):] {
				for _, c1 := range first {
					for _, c2 := range second {
						if c2.fn == 20 && n > heapMax {
							continue
						}
						g.Count(fmt.Sprintf("large:len=%d", n))
						g.Case("large", spare >= 1, prog(2, spare, es, 0, 3, et, M0, M1, c1, c2).Out())
					}
				}
			}
		}
	}
	// --- malformed / boundary
	g.Case("malformed", true, prog(0, 0, []int{}, 0, 0, []int{}, []int{}, []int{}, c16Cfg{8, 0, 0}, c16Cfg{8, -1, 0}).Out())
	g.Case("malformed", true, prog(1, 1, []int{1, 2}, 0, 0, []int{}, []int{}, []int{}, c16Cfg{8, 0, 0}, c16Cfg{2, 1, 0}, c16Cfg{2, 2, 0}).Out())
	g.Case("malformed", true, prog(0, 0, []int{}, 0, 0, []int{}, []int{}, []int{}, c16Cfg{103, 0, 0}, c16Cfg{106, 0, 0}, c16Cfg{999, 0, 0}).Out())
	g.Case("malformed", true, prog(0, 0, []int{1}, 0, 0, []int{}, []int{1, 1, 1, 2}, []int{}, c16Cfg{101, 0, 0}, c16Cfg{16, 0, 0}).Out())
	// --- seeded random: programs of up to 3 calls (any helper) on longer slices / larger maps
	all := append(append([]c16Cfg{}, cfgS...), cfgM...)
	nr := g.Pick(5000, 60000)
	for i := 0; i < nr; i++ {
		es := randSlice(g.Rng, 9, -3, 6)
		et := randSlice(g.Rng, 4, -3, 6)
		rm := func(maxN int) []int {
			n := g.Rng.Intn(maxN + 1)
			m := map[int]int{}
			for len(m) < n {
				m[g.Rng.Intn(8)] = g.Rng.Intn(5)
			}
			return flatOfMap(m)
		}
		calls := make([]c16Cfg, 1+g.Rng.Intn(3))
		for j := range calls {
			c := all[g.Rng.Intn(len(all))]
			switch c.fn {
			case 2, 7:
				c.x = g.Rng.Intn(15) - 7
			case 8:
				c.x = 1 + g.Rng.Intn(5)
			case 4, 5, 12, 13, 14, 33, 41, 58, 59, 61, 62, 105, 111, 113, 116, 117, 120:
				c.x, c.y = g.Rng.Intn(6), g.Rng.Intn(7)-2
			case 9, 18, 28, 29, 30, 38, 39, 51, 64, 66, 108, 123:
				c.x = g.Rng.Intn(5)
			case 47, 48:
				c.x = g.Rng.Intn(4)
			case 49:
				c.x = len(es)
			case 53, 54, 60, 67, 114, 118, 124, 125:
				c.y = g.Rng.Intn(9) - 3
			case 104, 107, 121, 122:
				c.x, c.y = g.Rng.Intn(6), g.Rng.Intn(5)
			case 109:
				c.x = g.Rng.Intn(6)
			}
			calls[j] = c
		}
		spare := g.Rng.Intn(5)
		m0 := rm(6)
		g.Case("random", len(es) >= 1 && spare >= 1 && len(calls) >= 2,
			prog(g.Rng.Intn(3), spare, es, g.Rng.Intn(2), g.Rng.Intn(3), et, m0, rm(4), calls...).Out())
	}
}

func init() {
	register(&Prop{ID: "C16", Exec: execC16, Gen: genC16, Describe: describeC16,
		Rule: "a case is a program of 1-4 helper calls that share their arguments s, t, map0, map1; slice arguments live inside backing arrays with sentinel cells before the slice and in the spare capacity behind it, and the COMPLETE arrays and both maps are recorded after every call, as is every earlier result (re-read after the call). exhaustive A: each of the 103 slice-world call configurations (84 call codes) alone on every slice of length <= 3 (thorough 4) over {0,1,2} x offset {0,1} x spare capacity {0..3} x 3 second arguments; B: every ORDERED PAIR of these configurations (quick tier: of those that return a slice or map or work in place, one parameter variant each) on every slice of length <= 3 over {1,2} (thorough {0,1,2}) with spare capacity 2 and 0 (quick tier: the no-spare variant up to length 2); E: Flatten / Union on each of the 10 caller-owned nested []any (a value of another type at depth 1, 2, 3 x first / middle / last position, and the well-typed one) alone, followed by the other of the two, and before / after every other non-scalar call; the slice-world configurations include the failing calls (Chunk size 0, Nth out of range, Zip / Unzip on ragged input, SliceToMap on unequal lengths, Range errors, Intersection without parameters, slice bounds out of range, Mean of nothing) and all objects are recorded after a panic or an error exactly as after a normal return; D: every triple (c ; in-place helper ; c) of a slice-world configuration c around each of 9 in-place calls on the same slices; C: every single call, ordered pair and triple (c ; Omit/OmitBy ; c) of the 40 map-world configurations on every map0 with <= 2 (thorough 3) entries over keys 0..2 x values {1,2} x 2 key lists (s = the key list, in a backing array; quick tier: pairs in which neither call takes s run with one key list); large: every slice-world configuration alone on slices of 33, 64, 65, 129, 257, 1025 (thorough also 2049, 4097) elements with spare capacity {0, 1, len(t)-1, len(t)+1, n-1, n+1, 2n+5} and len(t) = 3 (70 as well for n = 65, 129) (below and above what a helper appends; heap.FromSlice/Sort up to 129, thorough 257), 66 variadic slice parameters built by the call and windows of 33, 34, 35, 40, 70 elements of the caller's own [][]int of 70 slices of differing lengths passed in spread form to Merge / Intersection / IntersectionBy, n-by-n Zip up to 129, and 120 ordered pairs per size (up to 257) and spare capacity {6, n+3} (thorough also 0); then seeded random programs of up to 3 calls of any helper on slices up to length 9 / maps up to 6 entries. float (exhaustive; s, t are []float64, the sentinels floats, every value a float code; harness/c16float.go): each of the 73 float call configurations (54 call codes: the 22 helpers whose code uses ==, <, >, += or the zero value of the element type - Sum, SumBy, Mean, IndexOf, LastIndexOf, Contains, FindMin/Max(By), Min, Max, Unique(By), Duplicate(WithIndex), Union, Intersection(By), Without, Difference(By) - and Filter, Reject, Reverse, Drop, Chunk, Map, Merge, Partition, heap.FromSlice, heap.Sort, Reduce, Every, Some, FindIndex, FindLastIndex, DropWhile, DropRightWhile, FindAll, ToSlice, Nth, Flatten, Shuffle with float callbacks: v != v, comparisons with a NaN / Inf bound, -v, v+1, const NaN, gogu.Abs, gogu.Clamp, gogu.InRange) alone on every slice of length <= 2 over {NaN, +0, -0, 1, +Inf} and every slice of length 3 over {NaN, -0, 1} (thorough: length <= 3 over {NaN, +0, -0, 1, +Inf, -Inf, 2} and length 4 over {NaN, -0, 1}) with spare capacity 2 and 0 and three second arguments t ([NaN 1], [], [-0 NaN +0]; quick tier: the other two t on slices up to length 1, no spare capacity up to length 2); every ordered pair of 36 configurations (one per helper that returns a slice or a map or works in place, plus FindMin and FindMax) on s = [NaN 1] and [-0 NaN +0] (thorough: all 73 x 73 on every slice of length 1..3 over {NaN, -0, 1}); every triple (c ; in-place ; c) around Reject(v != v), Reject(v == 1), Reverse, heap.FromSlice, heap.Sort, Reject(t), Reverse(t) on 3 (thorough 5) slices with a NaN first / in the middle / last; Flatten / Union on the ten nested []any over float slices; float-large: every float configuration on slices of 33, 65, 129 (thorough 257) elements with NaN, -0, +-Inf scattered among small integers, spare capacity {0, 1, 6, n+1}; float-random: 1500 (thorough 30000) seeded programs of up to 3 float calls on slices up to length 8 over {NaN, -0, +0, +-Inf, -2..3, 5}. non-trivial in the float streams = a NaN, -0 or Inf among the elements of s and spare capacity >= 1 (pairs: such an element; random: also >= 2 calls). non-trivial = len(s) >= 1 and spare capacity >= 1 [and >= 2 calls in the random stream]; (stream E) the []any is malformed; (stream C) map0 has >= 2 entries; distinct = distinct wire input"})
}
